(* Proofs/WriteCorrect.v — composition for C02: the request the MODEL emits for a parsed write,
   executed by the reference TARGET, leaves exactly the memory the reference interpretation
   (Spec/Expect.ref_write) prescribes, and is logged as exactly one executed write.

   The target is entered at its tag services ([svc_write] / [svc_write_frag] / [svc_rmw], reached
   from a frame through parse_mr / resolve_path / tag_service: Proofs/WriteMsg.v); that the emitted
   path resolves to the wire location [l] of the addressed place is property C09 + C01's parsing
   and is a hypothesis here ([loc_of_place]).

     write_correct_value    one value of an integer / REAL / LREAL type (tag, array element, member)
     write_correct_array    `{n}` consecutive elements from an index, longer lists truncated
     write_correct_string   a string structure: LEN + characters, truncated to the capacity
     write_correct_bool     a BOOL tag / BOOL member: only its bit of the host byte
     write_correct_bits     bit writes merged per tag into one Read-Modify-Write = the reference bit
                            writes applied in call order; exactly one store
     frag_stores_compose    the stores of a fragmented transfer, in order, = the store of the whole value
     unchanged_elsewhere / read_after_write (atoms): from Proofs/TargetLogixP.v *)
From Coq Require Import ZifyBool String.
From PV Require Import Base.Bytes Base.BytesLemmas Base.Res Base.Proto Base.PyStr Model.CodecFloat Model.Path Model.LogixPlan Model.LogixWrite.
From PV Require Import Spec.EncapParser Spec.MRParser Spec.TargetIface Spec.TargetCore Spec.Project Spec.Expect Spec.TargetLogix.
From PV Require Import Proofs.TargetCoreP Proofs.TargetLogixP Proofs.PlanP Proofs.WriteBits Proofs.WriteMsg Proofs.WriteEnc.
Open Scope Z_scope.
Ltac Zify.zify_post_hook ::= Z.to_euclidean_division_equations.

(* the wire location the target resolves the request path to, for a data place *)
Definition loc_of_place (pl : place) : option wloc :=
  match pl with
  | PlData inst off ty dims avail => Some (mkWLoc inst off ty dims avail None)
  | PlBit inst off bit => Some (mkWLoc inst off (BAtom C_BOOL) [] 1 (Some bit))
  | PlBools _ _ _ _ => None
  end.

(* ------------------------------------------------------------------ the type field of the packet *)
Lemma packed_type_atom c name ty h i :
  atom_name c = Some name -> value_atom c = true ->
  packed_data_type (mkInfo false name ty h i) = Ok (le_enc 2 c) /\ 0 <= c < 65536 /\ c mod 256 <> 160.
Proof.
  intros Hn Hv.
  destruct (atom_name_cases c name Hn Hv) as [[-> | [-> | [-> | ->]]] | [[-> | [-> | [-> | ->]]] | [-> | ->]]];
  cbn in Hn; injection Hn as <-; (split; [reflexivity|]; split; [lia|]; cbn; lia).
Qed.

Lemma packed_type_struct name ty h i : 0 <= h < 65536 ->
  packed_data_type (mkInfo true name ty h i) = Ok (160 :: 2 :: le_enc 2 h).
Proof. intros Hh. unfold packed_data_type. cbn [ti_struct ti_handle]. rewrite (UINT_ok h Hh). reflexivity. Qed.

(* ------------------------------------------------------------------ what the reference does at a data place *)
Lemma write_place_value p img inst off c dims avail rv d s :
  atom_size c = Some s -> encode_atom c rv = Some d -> Expect.blen d = s ->
  write_place p img (PlData inst off (BAtom c) dims avail) None None rv = put_bytes img off d.
Proof.
  intros Hs He Hl. unfold write_place. cbn [base_size]. rewrite Hs. unfold depth_fuel. cbn [encode_val].
  rewrite He, Hl, Z.eqb_refl. reflexivity.
Qed.

Lemma concat_sizes s ds : forallb (fun d => Expect.blen d =? s) ds = true -> Expect.blen (concat ds) = s * Z.of_nat (length ds).
Proof.
  induction ds as [|d r IH]; intros H; cbn [concat length forallb] in *; [unfold Expect.blen; cbn; lia|].
  apply andb_true_iff in H as [H1 H2]. rewrite blen_app, (IH H2). lia.
Qed.

Lemma encode_array_len c s n vs d p f : value_atom c = true -> atom_size c = Some s ->
  encode_array_with (encode_val (S f) p) (BAtom c) s n (RList vs) = Some d -> Expect.blen d = s * n.
Proof.
  intros Hv Hs. unfold encode_array_with.
  assert (Hb : is_bits_ty (BAtom c) = false).
  { cbn [is_bits_ty]. unfold value_atom, atom_signed, atom_unsigned, atom_bits, C_REAL, C_LREAL, C_SINT, C_INT, C_DINT, C_LINT,
      C_USINT, C_UINT, C_UDINT, C_ULINT, C_BYTE, C_WORD, C_DWORD, C_LWORD in *. lia. }
  rewrite Hb. destruct (Z.of_nat (length vs) =? n) eqn:En; [|discriminate].
  destruct (all_some (map (encode_val (S f) p (BAtom c)) vs)) as [ds|] eqn:E; [|discriminate].
  destruct (forallb (fun d0 => Expect.blen d0 =? s) ds) eqn:F; [|discriminate]. intros H; injection H as <-.
  rewrite (concat_sizes s ds F). apply all_some_length in E. rewrite map_length in E. lia.
Qed.

Lemma write_place_array p img inst off c dims avail vs n d s :
  value_atom c = true -> atom_size c = Some s -> 1 <= n <= avail -> n <= Z.of_nat (length vs) ->
  encode_array_with (encode_val (depth_fuel p) p) (BAtom c) s n (RList (firstn (Z.to_nat n) vs)) = Some d ->
  write_place p img (PlData inst off (BAtom c) dims avail) None (Some n) (RList vs) = put_bytes img off d.
Proof.
  intros Hv Hs Hn Hl He. unfold write_place. cbn [base_size]. rewrite Hs.
  replace ((1 <=? n) && (n <=? avail)) with true by lia.
  assert (Hb : is_bits_ty (BAtom c) = false).
  { cbn [is_bits_ty]. unfold value_atom, atom_signed, atom_unsigned, atom_bits, C_REAL, C_LREAL, C_SINT, C_INT, C_DINT, C_LINT,
      C_USINT, C_UINT, C_UDINT, C_ULINT, C_BYTE, C_WORD, C_DWORD, C_LWORD in *. lia. }
  rewrite Hb. unfold take_values. replace (n <=? Z.of_nat (length vs)) with true by lia.
  rewrite He. unfold depth_fuel in He. rewrite (encode_array_len c s n _ d p _ Hv Hs He), Z.eqb_refl. reflexivity.
Qed.

(* ------------------------------------------------------------------ the executed store *)
Lemma store_at l m img data img' svc :
  w_bit l = None -> put_bytes img (w_off l) data = Some img' ->
  do_store svc m img l 0 data = (mem_set m (w_inst l) img', mr_ok [], [EvApp 1 [w_inst l; w_off l; svc] data]).
Proof.
  intros Hb Hp. rewrite (do_store_plain svc m img l 0 data img' Hb) by (rewrite Z.add_0_r; exact Hp).
  rewrite Z.add_0_r. reflexivity.
Qed.

(* ================================================================ one value *)
(* A request for ONE value of an integer / REAL / LREAL type at any data place (atomic tag, element
   of an array of any rank, member at any depth).  [q] is its parsed form as the driver holds it.
   If the reference write exists (the value is in range), then: encode_value succeeds, the packet
   is built, its message has the specified layout, and the target executing the message's data
   leaves EXACTLY the reference memory, answering success and logging exactly ONE executed write. *)
Theorem write_correct_value p m r inst off c dims avail s name v rv m_ref img
        id tag tyh inst_id ui seq path :
  resolve p r = Some (PlData inst off (BAtom c) dims avail) -> r_bit r = None -> r_count r = None ->
  mem_get m inst = Some img ->
  atom_name c = Some name -> value_atom c = true -> atom_size c = Some s -> denotes_atom c v rv ->
  ref_write p m r rv = Some m_ref ->
  1 <= avail -> 0 <= seq < 65536 ->
  let info := mkInfo false name (WElem name) tyh inst_id in
  let q := mkParsed id false tag None 1 None info v in
  let l := mkWLoc inst off (BAtom c) dims avail None in
  path_of tag info ui = Ok (Some path) ->
  exists data pk pk1,
    encode_value q = Ok (data, 1)
    /\ new_write_packet KWrite seq tag 1 info id ui 0 data = Ok pk
    /\ build_message pk = Ok pk1
    /\ k_message pk1 = le_enc 2 seq ++ [77] ++ path ++ write_data (le_enc 2 c) 1 data
    /\ svc_write p m img l (write_data (le_enc 2 c) 1 data)
       = (m_ref, mr_ok [], [EvApp 1 [inst; off; 77] data]).
Proof.
  intros Hres Hbit Hcnt Hmem Hn Hv Hs Hd Hw Hav Hseq info q l Hpath.
  unfold ref_write in Hw. rewrite Hres in Hw. cbn [place_inst] in Hw. rewrite Hmem, Hbit, Hcnt in Hw.
  destruct (write_place p img (PlData inst off (BAtom c) dims avail) None None rv) as [img'|] eqn:Hwp; [|discriminate].
  injection Hw as <-.
  (* the reference encoding exists *)
  assert (Henc : exists d, encode_atom c rv = Some d /\ Expect.blen d = s /\ put_bytes img off d = Some img').
  { unfold write_place in Hwp. cbn [base_size] in Hwp. rewrite Hs in Hwp. unfold depth_fuel in Hwp. cbn [encode_val] in Hwp.
    destruct (encode_atom c rv) as [d|] eqn:E; [|discriminate]. exists d.
    pose proof (encode_atom_len c rv d s Hs E Hv) as Hl. rewrite Hl, Z.eqb_refl in Hwp. auto. }
  destruct Henc as (d & He & Hl & Hput).
  pose proof (elem_encode_spec c name v rv Hn Hv Hd) as Hm. rewrite He in Hm. cbn [res_of_opt] in Hm.
  assert (Hev : encode_value q = Ok (d, 1)).
  { assert (Hnd : PyStr.text_eqb name n_DWORD = false).
    { destruct (atom_name_cases c name Hn Hv) as [[-> | [-> | [-> | ->]]] | [[-> | [-> | [-> | ->]]] | [-> | ->]]];
      cbn in Hn; injection Hn as <-; reflexivity. }
    subst q info. clear Hwp He Hput Hpath.
    inversion Hd; subst; unfold encode_value;
    cbn [q_value q_elements q_bool_elements q_info q_bit ti_type_name ti_type z_or opt_or0 is_array_ty encode_ty];
    rewrite Hm, Hnd; reflexivity. }
  destruct (packed_type_atom c name (WElem name) tyh inst_id Hn Hv) as (Hpt & Hc & Hc160). fold info in Hpt.
  assert (Hnew : exists pk, new_write_packet KWrite seq tag 1 info id ui 0 d = Ok pk /\ k_packed_type pk = le_enc 2 c).
  { unfold new_write_packet. rewrite Hpt. eexists. split; reflexivity. }
  destruct Hnew as (pk & Hnew & Hkpt).
  assert (Hel : 0 <= 1 < 65536) by lia.
  destruct (write_message seq tag 1 info id ui d pk path Hnew Hpath Hseq Hel) as (pk1 & Hb & Hmsg & _).
  rewrite Hkpt in Hmsg.
  exists d, pk, pk1. split; [exact Hev|]. split; [exact Hnew|]. split; [exact Hb|]. split; [exact Hmsg|].
  rewrite (svc_write_accepts p m img l (write_data (le_enc 2 c) 1 d) (inl c) 1 d s).
  - apply (store_at l m img d img' 77 eq_refl). exact Hput.
  - unfold write_data. apply parse_wtype_atom; assumption.
  - cbn [type_matches w_ty l]. apply Z.eqb_refl.
  - unfold loc_esize. cbn [w_bit l w_ty base_size]. exact Hs.
  - cbn [w_avail l]. lia.
  - lia.
  - lia.
Qed.

(* ================================================================ {n} elements *)
Theorem write_correct_array p m r inst off c dims avail s name l_py vs n m_ref img
        id tag n0 tyh inst_id ui seq path :
  resolve p r = Some (PlData inst off (BAtom c) dims avail) -> r_bit r = None -> r_count r = Some n ->
  mem_get m inst = Some img ->
  atom_name c = Some name -> value_atom c = true -> atom_size c = Some s ->
  Forall2 (denotes_atom c) l_py vs ->
  ref_write p m r (RList vs) = Some m_ref ->
  1 < n < 65536 -> 0 <= seq < 65536 ->
  let info := mkInfo false name (WArray n0 (WElem name)) tyh inst_id in
  let q := mkParsed id false tag None n None info (PList l_py) in
  let l := mkWLoc inst off (BAtom c) dims avail None in
  path_of tag info ui = Ok (Some path) ->
  exists data pk pk1,
    encode_value q = Ok (data, n)
    /\ new_write_packet KWrite seq tag n info id ui 0 data = Ok pk
    /\ build_message pk = Ok pk1
    /\ k_message pk1 = le_enc 2 seq ++ [77] ++ path ++ write_data (le_enc 2 c) n data
    /\ svc_write p m img l (write_data (le_enc 2 c) n data)
       = (m_ref, mr_ok [], [EvApp 1 [inst; off; 77] data]).
Proof.
  intros Hres Hbit Hcnt Hmem Hn Hv Hs H2 Hw Hnn Hseq info q l Hpath.
  unfold ref_write in Hw. rewrite Hres in Hw. cbn [place_inst] in Hw. rewrite Hmem, Hbit, Hcnt in Hw.
  destruct (write_place p img (PlData inst off (BAtom c) dims avail) None (Some n) (RList vs)) as [img'|] eqn:Hwp; [|discriminate].
  injection Hw as <-.
  assert (Hlen : length l_py = length vs) by (clear -H2; induction H2; cbn [length]; congruence).
  assert (Hb : is_bits_ty (BAtom c) = false).
  { cbn [is_bits_ty]. unfold value_atom, atom_signed, atom_unsigned, atom_bits, C_REAL, C_LREAL, C_SINT, C_INT, C_DINT, C_LINT,
      C_USINT, C_UINT, C_UDINT, C_ULINT, C_BYTE, C_WORD, C_DWORD, C_LWORD in *. lia. }
  (* unfold what the reference did *)
  assert (Href : n <= avail /\ n <= Z.of_nat (length vs) /\ exists d,
            encode_array_with (encode_val (depth_fuel p) p) (BAtom c) s n (RList (firstn (Z.to_nat n) vs)) = Some d
            /\ Expect.blen d = s * n /\ put_bytes img off d = Some img').
  { unfold write_place in Hwp. cbn [base_size] in Hwp. rewrite Hs in Hwp.
    destruct ((1 <=? n) && (n <=? avail)) eqn:E1; [|discriminate]. rewrite Hb in Hwp. unfold take_values in Hwp.
    destruct (n <=? Z.of_nat (length vs)) eqn:E2; [|discriminate].
    destruct (encode_array_with (encode_val (depth_fuel p) p) (BAtom c) s n (RList (firstn (Z.to_nat n) vs))) as [d|] eqn:E3; [|discriminate].
    pose proof E3 as E4. unfold depth_fuel in E4. apply (encode_array_len c s n _ d p _ Hv Hs) in E4.
    rewrite E4, Z.eqb_refl in Hwp. split; [lia|]. split; [lia|]. exists d. auto. }
  destruct Href as (Hav & Hnl & d & He & Hl & Hput).
  (* the model encodes the first n values to the same bytes *)
  set (lt := firstn (Z.to_nat n) l_py).
  assert (H2' : Forall2 (denotes_atom c) lt (firstn (Z.to_nat n) vs)).
  { unfold lt. clear -H2. revert n. induction H2 as [|x y a b Hxy Hr IH]; intros n; [rewrite !firstn_nil; constructor|].
    destruct (Z.to_nat n) as [|k] eqn:E; [constructor|]. cbn [firstn]. constructor; [exact Hxy|].
    specialize (IH (Z.of_nat k)). rewrite Nat2Z.id in IH. exact IH. }
  assert (Hlt : LogixWrite.zlen lt = n) by (unfold LogixWrite.zlen, lt; rewrite firstn_length; lia).
  pose proof (array_encode_spec c name s lt _ n n0 p (S (length (p_templates p))) Hn Hv Hs ltac:(lia) Hlt H2') as Hm.
  change (S (S (length (p_templates p)))) with (depth_fuel p) in Hm. rewrite He in Hm. cbn [res_of_opt] in Hm.
  assert (Hnd : PyStr.text_eqb name n_DWORD = false).
  { destruct (atom_name_cases c name Hn Hv) as [[-> | [-> | [-> | ->]]] | [[-> | [-> | [-> | ->]]] | [-> | ->]]];
    cbn in Hn; injection Hn as <-; reflexivity. }
  assert (Hev : encode_value q = Ok (d, n)).
  { rewrite (encode_value_list q l_py eq_refl eq_refl).
    2:{ unfold q_dword. subst q info. cbn [q_info ti_type_name]. rewrite Hnd. discriminate. }
    cbn zeta. unfold q_value_elements, q_new_elements, q_dword. subst q info.
    cbn [q_bool_elements q_elements q_info ti_type_name ti_type z_or]. rewrite Hnd.
    replace (1 <? n) with true by lia. replace (LogixWrite.zlen l_py <? n) with false by (unfold LogixWrite.zlen; lia).
    fold lt. rewrite Hm. reflexivity. }
  destruct (packed_type_atom c name (WArray n0 (WElem name)) tyh inst_id Hn Hv) as (Hpt & Hc & Hc160). fold info in Hpt.
  assert (Hnew : exists pk, new_write_packet KWrite seq tag n info id ui 0 d = Ok pk /\ k_packed_type pk = le_enc 2 c).
  { unfold new_write_packet. rewrite Hpt. eexists. split; reflexivity. }
  destruct Hnew as (pk & Hnew & Hkpt).
  assert (Hel : 0 <= n < 65536) by lia.
  destruct (write_message seq tag n info id ui d pk path Hnew Hpath Hseq Hel) as (pk1 & Hbm & Hmsg & _).
  rewrite Hkpt in Hmsg.
  exists d, pk, pk1. split; [exact Hev|]. split; [exact Hnew|]. split; [exact Hbm|]. split; [exact Hmsg|].
  rewrite (svc_write_accepts p m img l (write_data (le_enc 2 c) n d) (inl c) n d s).
  - apply (store_at l m img d img' 77 eq_refl). exact Hput.
  - unfold write_data. apply parse_wtype_atom; assumption.
  - cbn [type_matches w_ty l]. apply Z.eqb_refl.
  - unfold loc_esize. cbn [w_bit l w_ty base_size]. exact Hs.
  - cbn [w_avail l]. lia.
  - lia.
  - lia.
Qed.

(* ================================================================ strings *)
(* A string structure on the standard layout (LEN DINT at 0, DATA SINT[capacity] at 4): the value is
   truncated to the capacity, LEN is the truncated length, the rest of DATA is zero. *)
Theorem write_correct_string p m r inst off tid dims avail t lm dm cs m_ref img
        id tag tname inst_id ui seq path :
  resolve p r = Some (PlData inst off (BStruct tid) dims avail) -> r_bit r = None -> r_count r = None ->
  mem_get m inst = Some img ->
  find_template (p_templates p) tid = Some t -> string_shape t = Some (lm, dm) ->
  m_off lm = 0 -> m_off dm = 4 -> 0 <= m_arr dm -> 4 + m_arr dm <= t_size t -> 0 <= t_handle t < 65536 ->
  PyStr.text_eqb tname n_DWORD = false ->
  ref_write p m r (RStr cs) = Some m_ref ->
  1 <= avail -> 0 <= seq < 65536 ->
  let info := mkInfo true tname (WFixedStr (t_size t - 4) (m_arr dm)) (t_handle t) inst_id in
  let q := mkParsed id false tag None 1 None info (PStr cs) in
  let l := mkWLoc inst off (BStruct tid) dims avail None in
  path_of tag info ui = Ok (Some path) ->
  exists data pk pk1,
    encode_value q = Ok (data, 1)
    /\ new_write_packet KWrite seq tag 1 info id ui 0 data = Ok pk
    /\ build_message pk = Ok pk1
    /\ k_message pk1 = le_enc 2 seq ++ [77] ++ path ++ write_data (160 :: 2 :: le_enc 2 (t_handle t)) 1 data
    /\ svc_write p m img l (write_data (160 :: 2 :: le_enc 2 (t_handle t)) 1 data)
       = (m_ref, mr_ok [], [EvApp 1 [inst; off; 77] data]).
Proof.
  intros Hres Hbit Hcnt Hmem Hft Hss Hol Hod Hcap Hsz Hh Hnd Hw Hav Hseq info q l Hpath.
  unfold ref_write in Hw. rewrite Hres in Hw. cbn [place_inst] in Hw. rewrite Hmem, Hbit, Hcnt in Hw.
  destruct (write_place p img (PlData inst off (BStruct tid) dims avail) None None (RStr cs)) as [img'|] eqn:Hwp; [|discriminate].
  injection Hw as <-.
  assert (Href : exists d, encode_string t lm dm cs = Some d /\ Expect.blen d = t_size t /\ put_bytes img off d = Some img').
  { unfold write_place in Hwp. cbn [base_size] in Hwp. rewrite Hft in Hwp. unfold depth_fuel in Hwp. cbn [encode_val] in Hwp.
    rewrite Hft, Hss in Hwp. destruct (encode_string t lm dm cs) as [d|] eqn:E; [|discriminate]. exists d.
    destruct (Expect.blen d =? t_size t) eqn:E2; [|discriminate]. split; [reflexivity|]. split; [lia|exact Hwp]. }
  destruct Href as (d & He & Hl & Hput).
  assert (Hok : bytes_ok cs = true) by (unfold encode_string in He; destruct (bytes_ok cs); [reflexivity|discriminate]).
  pose proof (fixedstr_encode_spec t lm dm cs Hol Hod Hcap Hsz Hok) as Hm. rewrite He in Hm. cbn [res_of_opt] in Hm.
  assert (Hev : encode_value q = Ok (d, 1)).
  { unfold encode_value. subst q info.
    cbn [q_value q_elements q_bool_elements q_info q_bit ti_type_name ti_type z_or opt_or0 is_array_ty].
    rewrite Hnd, Hm. reflexivity. }
  pose proof (packed_type_struct tname (WFixedStr (t_size t - 4) (m_arr dm)) (t_handle t) inst_id Hh) as Hpt. fold info in Hpt.
  assert (Hnew : exists pk, new_write_packet KWrite seq tag 1 info id ui 0 d = Ok pk /\ k_packed_type pk = 160 :: 2 :: le_enc 2 (t_handle t)).
  { unfold new_write_packet. rewrite Hpt. eexists. split; reflexivity. }
  destruct Hnew as (pk & Hnew & Hkpt).
  assert (Hel : 0 <= 1 < 65536) by lia.
  destruct (write_message seq tag 1 info id ui d pk path Hnew Hpath Hseq Hel) as (pk1 & Hb & Hmsg & _).
  rewrite Hkpt in Hmsg.
  exists d, pk, pk1. split; [exact Hev|]. split; [exact Hnew|]. split; [exact Hb|]. split; [exact Hmsg|].
  rewrite (svc_write_accepts p m img l (write_data (160 :: 2 :: le_enc 2 (t_handle t)) 1 d) (inr (t_handle t)) 1 d (t_size t)).
  - apply (store_at l m img d img' 77 eq_refl). exact Hput.
  - unfold write_data. cbn [app]. apply parse_wtype_struct, Hh.
  - cbn [type_matches w_ty l]. rewrite Hft. apply Z.eqb_refl.
  - unfold loc_esize. cbn [w_bit l w_ty base_size]. rewrite Hft. reflexivity.
  - cbn [w_avail l]. lia.
  - lia.
  - lia.
Qed.

(* ================================================================ a BOOL tag / BOOL member *)
(* Any Python value is written by its truthiness as FF / 00; the target changes only the addressed
   bit of the host byte, which is what the reference does. *)
Theorem write_correct_bool p m r inst off bit v m_ref img id tag tyh inst_id ui seq path :
  resolve p r = Some (PlBit inst off bit) -> r_bit r = None -> r_count r = None ->
  mem_get m inst = Some img ->
  ref_write p m r (RBool (truthy v)) = Some m_ref ->
  is_bytes v = false -> 0 <= seq < 65536 ->
  let info := mkInfo false n_BOOL (WElem n_BOOL) tyh inst_id in
  let q := mkParsed id false tag None 1 None info v in
  let l := mkWLoc inst off (BAtom C_BOOL) [] 1 (Some bit) in
  path_of tag info ui = Ok (Some path) ->
  exists data pk pk1 stored,
    encode_value q = Ok (data, 1) /\ data = [if truthy v then 255 else 0]
    /\ new_write_packet KWrite seq tag 1 info id ui 0 data = Ok pk
    /\ build_message pk = Ok pk1
    /\ k_message pk1 = le_enc 2 seq ++ [77] ++ path ++ write_data (le_enc 2 C_BOOL) 1 data
    /\ svc_write p m img l (write_data (le_enc 2 C_BOOL) 1 data)
       = (m_ref, mr_ok [], [EvApp 1 [inst; off; 77] [stored]]).
Proof.
  intros Hres Hbit Hcnt Hmem Hw Hnb Hseq info q l Hpath.
  unfold ref_write in Hw. rewrite Hres in Hw. cbn [place_inst] in Hw. rewrite Hmem, Hbit, Hcnt in Hw.
  destruct (write_place p img (PlBit inst off bit) None None (RBool (truthy v))) as [img'|] eqn:Hwp; [|discriminate].
  injection Hw as <-.
  unfold write_place in Hwp.
  destruct (get_bytes img off 1) as [[|y [|y2 yr]]|] eqn:Hg; try discriminate.
  set (data := [if truthy v then 255 else 0]).
  assert (Hev : encode_value q = Ok (data, 1)).
  { unfold encode_value. subst q info. cbn [q_value].
    destruct v; cbn [is_bytes] in Hnb; try discriminate; reflexivity. }
  assert (Hnew : exists pk, new_write_packet KWrite seq tag 1 info id ui 0 data = Ok pk /\ k_packed_type pk = le_enc 2 C_BOOL).
  { eexists. split; reflexivity. }
  destruct Hnew as (pk & Hnew & Hkpt).
  assert (Hel : 0 <= 1 < 65536) by lia.
  destruct (write_message seq tag 1 info id ui data pk path Hnew Hpath Hseq Hel) as (pk1 & Hb & Hmsg & _).
  rewrite Hkpt in Hmsg.
  exists data, pk, pk1, (set_bit_byte y bit (truthy v)).
  split; [exact Hev|]. split; [reflexivity|]. split; [exact Hnew|]. split; [exact Hb|]. split; [exact Hmsg|].
  rewrite (svc_write_accepts p m img l (write_data (le_enc 2 C_BOOL) 1 data) (inl C_BOOL) 1 data 1).
  - unfold do_store, loc_store. cbn [w_bit l w_off w_inst]. unfold data. rewrite Hg.
    replace (negb ((if truthy v then 255 else 0) =? 0)) with (truthy v) by (destruct (truthy v); reflexivity).
    rewrite Hwp. reflexivity.
  - unfold write_data. apply parse_wtype_atom; [unfold C_BOOL; lia | unfold C_BOOL; cbn; lia].
  - reflexivity.
  - reflexivity.
  - cbn [w_avail l]. lia.
  - lia.
  - unfold data, Expect.blen. cbn. lia.
Qed.

(* ================================================================ bit writes merged into one Read-Modify-Write *)
Lemma skipn_add {A} a b (l : list A) : skipn (a + b) l = skipn b (skipn a l).
Proof.
  revert l. induction a as [|a IH]; intros l; [reflexivity|].
  destruct l as [|x l]; [cbn [Nat.add skipn]; destruct b; reflexivity|]. cbn [Nat.add skipn]. apply IH.
Qed.

Lemma put_put_bytes img off d1 d2 i1 :
  put_bytes img off d1 = Some i1 -> length d1 = length d2 -> put_bytes i1 off d2 = put_bytes img off d2.
Proof.
  intros H Hl. pose proof (put_bytes_len _ _ _ _ H) as L. revert H. unfold put_bytes, Expect.blen. rewrite L, Hl.
  destruct ((0 <=? off) && (off + Z.of_nat (length d2) <=? Z.of_nat (length img))) eqn:E; [|discriminate].
  intros H; injection H as <-. f_equal.
  assert (Hf : length (firstn (Z.to_nat off) img) = Z.to_nat off) by (rewrite firstn_length; lia).
  rewrite <- Hf at 1. rewrite firstn_app_exact. f_equal. f_equal.
  rewrite <- Hf at 1. rewrite <- Nat.add_0_r with (n := (length (firstn (Z.to_nat off) img) + length d2)%nat).
  rewrite <- Nat.add_assoc, skipn_app_plus. rewrite <- Hl, skipn_app_plus. reflexivity.
Qed.

Lemma put_bytes_same_len img off d1 d2 i :
  put_bytes img off d1 = Some i -> length d1 = length d2 -> exists i2, put_bytes img off d2 = Some i2.
Proof.
  unfold put_bytes, Expect.blen. intros H Hl. rewrite <- Hl.
  destruct ((0 <=? off) && (off + Z.of_nat (length d1) <=? Z.of_nat (length img))); [eexists; reflexivity|discriminate].
Qed.

Lemma set_bit_mod n A b x : 0 <= n -> 0 <= b ->
  (set_bit_byte (A mod 2 ^ n) b x) mod 2 ^ n = (set_bit_byte A b x) mod 2 ^ n.
Proof.
  intros Hn Hb. apply Z.bits_inj'. intros k Hk. rewrite !Z.testbit_mod_pow2 by lia.
  destruct (k <? n) eqn:E; cbn [andb]; [|reflexivity].
  unfold set_bit_byte. destruct x.
  - rewrite !Z.setbit_eqb by lia. rewrite Z.testbit_mod_pow2 by lia. rewrite E. reflexivity.
  - rewrite !Z.clearbit_eqb by lia. rewrite Z.testbit_mod_pow2 by lia. rewrite E. reflexivity.
Qed.

(* one reference bit write at an integer place *)
Definition ref_bit_step (p : project) (pl : place) (oi : option bytes) (bv : Z * bool) : option bytes :=
  match oi with Some i => write_place p i pl (Some (fst bv)) None (RBool (snd bv)) | None => None end.

Lemma ref_bits_fold p inst off c dims avail s img bl : forall X i,
  atom_size c = Some s -> atom_integer c = true ->
  Forall (fun bv => 0 <= fst bv < 8 * s) bl ->
  put_bytes img off (le_enc (Z.to_nat s) X) = Some i ->
  exists Y, fold_left (ref_bit_step p (PlData inst off (BAtom c) dims avail)) bl (Some i)
            = put_bytes img off (le_enc (Z.to_nat s) Y)
            /\ Y mod pow256 (Z.to_nat s) = (apply_bits X bl) mod pow256 (Z.to_nat s)
            /\ (bl = [] -> Y = X).
Proof.
  induction bl as [|[b x] r IH] using rev_ind; intros X i Hs Hi Hall Hput.
  - exists X. cbn [fold_left]. rewrite Hput. auto.
  - apply Forall_app in Hall as [Hr Hb]. inversion Hb as [|? ? Hb0 _]; subst. cbn [fst] in Hb0.
    destruct (IH X i Hs Hi Hr Hput) as (Y & HY & Hmod & _).
    rewrite fold_left_app. cbn [fold_left]. rewrite HY.
    pose proof (atom_size_cases c s Hs) as Hsc.
    destruct (put_bytes img off (le_enc (Z.to_nat s) Y)) as [iy|] eqn:Hpy.
    2:{ exfalso. destruct (put_bytes_same_len img off _ (le_enc (Z.to_nat s) Y) i Hput) as [i2 K]; [rewrite !le_enc_length; reflexivity|].
        rewrite Hpy in K. discriminate. }
    unfold ref_bit_step, write_place. cbn [fst snd base_size]. rewrite Hs.
    pose proof (put_get_bytes _ _ _ _ Hpy) as Hg. unfold Expect.blen in Hg. rewrite le_enc_length in Hg.
    replace (Z.of_nat (Z.to_nat s)) with s in Hg by lia. rewrite Hg.
    cbn [int_ty]. rewrite Hi. cbn [andb]. replace ((0 <=? b) && (b <? 8 * s)) with true by lia.
    exists (set_bit_byte (le_dec (le_enc (Z.to_nat s) Y)) b x).
    split.
    + apply (put_put_bytes img off _ _ iy Hpy). rewrite !le_enc_length. reflexivity.
    + split; [|intros K; destruct r; discriminate].
      rewrite le_dec_enc. unfold apply_bits. rewrite fold_left_app. cbn [fold_left fst snd]. fold (apply_bits X r).
      rewrite pow256_pow2. rewrite pow256_pow2 in Hmod.
      rewrite (set_bit_mod _ Y b x) by lia.
      rewrite <- (set_bit_mod _ (apply_bits X r) b x) by lia. rewrite <- Hmod.
      rewrite (set_bit_mod _ Y b x) by lia. reflexivity.
Qed.

(* Several bit writes of one integer (tag, array element, member) in one call are merged into ONE
   Read-Modify-Write whose masks have the integer's width; the target's single store equals the
   reference bit writes applied one after the other in call order (so: exactly the named bits
   change, the last value named for a bit wins, every other bit of the word and every other byte
   keep their value). *)
Theorem write_correct_bits p m img inst off c dims avail s bl old :
  atom_size c = Some s -> atom_integer c = true ->
  get_bytes img off s = Some old -> bytes_ok old = true ->
  Forall (fun bv => 0 <= fst bv < 8 * s) bl -> bl <> [] ->
  let pl := PlData inst off (BAtom c) dims avail in
  let l := mkWLoc inst off (BAtom c) dims avail None in
  let o := fst (rmw_masks false bl) in
  let a := snd (rmw_masks false bl) in
  exists ob ab img' stored,
    mask_bytes o s = Ok ob /\ mask_bytes a s = Ok ab
    /\ length ob = Z.to_nat s /\ length ab = Z.to_nat s
    /\ fold_left (ref_bit_step p pl) bl (Some img) = Some img'
    /\ svc_rmw p m img l (rmw_data s ob ab) = (mem_set m inst img', mr_ok [], [EvApp 1 [inst; off; 78] stored]).
Proof.
  intros Hs Hi Hg Hok Hall Hne pl l o a.
  pose proof (atom_size_cases c s Hs) as Hsc.
  set (w := Z.to_nat s).
  pose proof (get_bytes_len _ _ _ _ Hg) as Hlo. unfold Expect.blen in Hlo.
  assert (Hlw : length old = w) by (unfold w; lia).
  set (V := le_dec old).
  assert (HV : le_enc w V = old) by (unfold V; rewrite <- Hlw; apply le_enc_dec, Hok).
  assert (HVr : 0 <= V < pow256 w) by (unfold V; rewrite <- Hlw; apply le_dec_range, Hok).
  assert (Hall64 : Forall (fun bv => 0 <= eff_bit false (fst bv) < 64) bl).
  { apply Forall_forall. intros [b x] Hin. pose proof (proj1 (Forall_forall _ _) Hall _ Hin) as Hbx.
    unfold eff_bit. cbn [fst] in *. lia. }
  destruct (rmw_effect false bl s V Hall64 ltac:(lia) HVr) as (Mo & Ma & Lo & La & Heff & _). fold o a w in Mo, Ma, Lo, La, Heff.
  assert (Heffid : eff false bl = bl).
  { unfold eff, eff_bit. clear. induction bl as [|[b x] r IH]; [reflexivity|]. cbn [map fst snd]. rewrite IH. reflexivity. }
  assert (Hfil : filter (in_width s) bl = bl).
  { clear -Hall. induction Hall as [|[b x] r Hb Hr IH]; [reflexivity|]. cbn [filter]. unfold in_width at 1. cbn [fst] in *.
    replace (b <? 8 * s) with true by lia. rewrite IH. reflexivity. }
  rewrite Heffid, Hfil in Heff.
  (* the reference fold *)
  assert (Hput0 : put_bytes img off (le_enc w V) = Some img).
  { rewrite HV. unfold get_bytes in Hg.
    destruct ((0 <=? off) && (0 <=? s) && (off + s <=? Expect.blen img)) eqn:E; [|discriminate].
    injection Hg as Hg. unfold Expect.blen in E. unfold put_bytes, Expect.blen. rewrite Hlw.
    replace ((0 <=? off) && (off + Z.of_nat w <=? Z.of_nat (length img))) with true by (unfold w; lia).
    f_equal. rewrite <- Hg. unfold w.
    rewrite skipn_add, firstn_skipn. apply firstn_skipn. }
  destruct (ref_bits_fold p inst off c dims avail s img bl V img Hs Hi Hall Hput0) as (Y & HY & Hmod & _).
  fold pl in HY. fold w in HY, Hmod.
  (* the store of the target *)
  set (stored := rmw_bytes old (le_enc w o) (le_enc w a)).
  assert (Hst : stored = le_enc w Y).
  { unfold stored. rewrite <- HV, rmw_bytes_le_enc.
    rewrite <- (le_enc_mod w (Z.land (Z.lor V o) a)), <- (le_enc_mod w Y). f_equal.
    rewrite Hmod. rewrite <- Heff. rewrite rmw_bytes_le_enc, le_dec_enc.
    rewrite Z.mod_mod by (pose proof (pow256_pos w); lia). reflexivity. }
  destruct (put_bytes img off (le_enc w Y)) as [img'|] eqn:Hpy.
  2:{ exfalso. destruct (put_bytes_same_len img off _ (le_enc w Y) img Hput0) as [i2 K]; [rewrite !le_enc_length; reflexivity|].
      rewrite Hpy in K. discriminate. }
  exists (le_enc w o), (le_enc w a), img', stored.
  split; [exact Mo|]. split; [exact Ma|]. split; [exact Lo|]. split; [exact La|]. split; [exact HY|].
  unfold rmw_data.
  rewrite (svc_rmw_accepts p m img l s (le_enc w o) (le_enc w a) old).
  - fold stored. apply (store_at l m img stored img' 78 eq_refl). rewrite Hst. exact Hpy.
  - unfold loc_esize. cbn [w_bit l w_ty base_size]. exact Hs.
  - unfold rmw_ok_type. cbn [w_bit l w_ty]. rewrite Hi. reflexivity.
  - lia.
  - unfold Expect.blen. rewrite Lo. unfold w. lia.
  - unfold Expect.blen. rewrite La. unfold w. lia.
  - exact Hg.
Qed.

(* ================================================================ fragments *)
(* storing the segments of a value one after the other at their running offsets = storing the value *)
Lemma put_bytes_app img off d1 d2 i1 :
  put_bytes img off d1 = Some i1 ->
  put_bytes i1 (off + Expect.blen d1) d2 = put_bytes img off (d1 ++ d2).
Proof.
  intros H. pose proof (put_bytes_len _ _ _ _ H) as L. revert H. unfold put_bytes, Expect.blen. rewrite L, app_length.
  destruct ((0 <=? off) && (off + Z.of_nat (length d1) <=? Z.of_nat (length img))) eqn:E; [|discriminate].
  intros H; injection H as <-.
  destruct (Z_le_gt_dec (off + Z.of_nat (length d1) + Z.of_nat (length d2)) (Z.of_nat (length img))) as [E2|E2].
  - replace ((0 <=? off + Z.of_nat (length d1)) && (off + Z.of_nat (length d1) + Z.of_nat (length d2) <=? Z.of_nat (length img))) with true by lia.
    replace ((0 <=? off) && (off + Z.of_nat (length d1 + length d2) <=? Z.of_nat (length img))) with true by lia.
    f_equal.
    set (A := firstn (Z.to_nat off) img). set (R := skipn (Z.to_nat off + length d1) img).
    assert (Hf : length A = Z.to_nat off) by (unfold A; rewrite firstn_length; lia).
    assert (Hn : Z.to_nat (off + Z.of_nat (length d1)) = length (A ++ d1)) by (rewrite app_length, Hf; lia).
    rewrite Hn. rewrite (app_assoc A d1 R). rewrite firstn_app_exact, skipn_app_plus.
    rewrite <- !app_assoc. f_equal. f_equal. f_equal.
    unfold R. rewrite <- skipn_add. f_equal. rewrite ?app_length. lia.
  - replace ((0 <=? off + Z.of_nat (length d1)) && (off + Z.of_nat (length d1) + Z.of_nat (length d2) <=? Z.of_nat (length img))) with false by lia.
    replace ((0 <=? off) && (off + Z.of_nat (length d1 + length d2) <=? Z.of_nat (length img))) with false by lia.
    reflexivity.
Qed.

Fixpoint store_frags (img : bytes) (base : Z) (frs : list (Z * bytes)) : option bytes :=
  match frs with
  | [] => Some img
  | (o, sgm) :: r => match put_bytes img (base + o) sgm with Some i => store_frags i base r | None => None end
  end.

Lemma store_frags_from img base o segs :
  store_frags img base (combine (offsets_from o segs) segs) = put_bytes img (base + o) (concat segs) \/ segs = [].
Proof.
  revert img o. induction segs as [|sg r IH]; intros img o; [right; reflexivity|left].
  cbn [offsets_from combine store_frags concat].
  destruct (put_bytes img (base + o) sg) as [i|] eqn:E.
  - destruct (IH i (o + Z.of_nat (length sg))) as [H| ->].
    + rewrite H. rewrite <- (put_bytes_app img (base + o) sg (concat r) i E). f_equal. unfold Expect.blen. lia.
    + cbn [offsets_from combine store_frags concat]. rewrite app_nil_r. symmetry. exact E.
  - (* the first segment does not fit: neither does the whole *)
    revert E. unfold put_bytes, Expect.blen. rewrite app_length.
    destruct ((0 <=? base + o) && (base + o + Z.of_nat (length sg) <=? Z.of_nat (length img))) eqn:E1; [discriminate|].
    intros _. replace ((0 <=? base + o) && (base + o + Z.of_nat (length sg + length (concat r)) <=? Z.of_nat (length img))) with false by lia.
    reflexivity.
Qed.

(* the stores of the fragments _send_write_fragmented emits, applied in order at the addressed
   place, leave the image that one store of the whole value leaves *)
Theorem frag_stores_compose img base conn ovh value :
  0 < conn - ovh -> value <> [] ->
  store_frags img base (write_fragments conn ovh value) = put_bytes img base value.
Proof.
  intros Hpos Hne. unfold write_fragments.
  set (segs := LogixPlan.chunks (length value) (Z.to_nat (conn - ovh)) value).
  assert (Hc : concat segs = value) by (apply chunks_concat; lia).
  destruct (store_frags_from img base 0 segs) as [H| H].
  - rewrite H, Hc, Z.add_0_r. reflexivity.
  - rewrite H in Hc. cbn in Hc. congruence.
Qed.

(* ================================================================ nothing else changes; reading back *)
(* from Proofs/TargetLogixP.ref_write_read_atom: after the reference write (= the target's memory, by
   write_correct_value) reading the address returns the value, every other tag and every byte of
   this tag outside [off, off + s) is unchanged *)
Theorem value_frame_and_readback p m r v m' inst off c dims avail s :
  resolve p r = Some (PlData inst off (BAtom c) dims avail) ->
  r_bit r = None -> r_count r = None -> value_atom c = true -> atom_size c = Some s ->
  ref_write p m r v = Some m' ->
  ref_read p m' r = Some v
  /\ (forall j, j <> inst -> mem_get m' j = mem_get m j)
  /\ exists img img', mem_get m inst = Some img /\ mem_get m' inst = Some img'
       /\ length img' = length img
       /\ forall k, (k < Z.to_nat off \/ Z.to_nat off + Z.to_nat s <= k)%nat -> nth k img' 0 = nth k img 0.
Proof. apply ref_write_read_atom. Qed.

(* a store changes nothing outside its range, whatever the data (arrays, strings, RMW words) *)
Theorem store_frame m img inst off d img' :
  put_bytes img off d = Some img' ->
  (forall j, j <> inst -> mem_get (mem_set m inst img') j = mem_get m j)
  /\ mem_get (mem_set m inst img') inst = Some img'
  /\ length img' = length img
  /\ (forall k, (k < Z.to_nat off \/ Z.to_nat off + length d <= k)%nat -> nth k img' 0 = nth k img 0)
  /\ get_bytes img' off (Expect.blen d) = Some d.
Proof.
  intros H. split; [intros j Hj; apply mem_get_set_other; congruence|]. split; [apply mem_get_set_same|].
  split; [eapply put_bytes_len; eassumption|]. split; [intros k Hk; eapply put_bytes_outside; eassumption|].
  eapply put_get_bytes; eassumption.
Qed.
