(* Proofs/ReadResolve.v — the string layer for the simplest request shape: a controller-scope tag
   named on its own (`read("Tank")`), of ANY type (atomic, BOOL, BOOL array, array, structure,
   string), addressed by symbol instance (firmware >= 21) or symbolically.
     parse_plain          _parse_tag_request on a name without separators
     path_plain_*         tag_request_path: the bytes, and the target's path parser reads them back
     plain_request_ok     such a request [request_ok]s (Proofs/ReadCorrect.v): client, target and reference
                          address the same place, hence C01's conclusion holds for it unconditionally
   The other request shapes (members, indices, bits, {n}, program scope) are not covered here.
   No axioms. *)
From Coq Require Import ZifyBool String.
From PV Require Import Base.Bytes Base.BytesLemmas Base.Res Base.Proto Base.PyStr.
From PV Require Import Gen.Consts Gen.PathTables Model.Path Model.Reply Model.LogixPlan Model.LogixRead.
From PV Require Import Spec.EncapParser Spec.MRParser Spec.TargetIface Spec.TargetCore Spec.Project Spec.Expect Spec.TargetLogix.
From PV Require Import Proofs.PathStr Proofs.TargetCoreP Proofs.TargetLogixP Proofs.ReadBits Proofs.ReadDecode Proofs.ReadTarget
  Proofs.ReadValue Proofs.ReadFrag Proofs.ReadMulti Proofs.ReadPlan Proofs.ReadCorrect.
Open Scope list_scope.
Open Scope Z_scope.
Ltac Zify.zify_post_hook ::= Z.to_euclidean_division_equations.

(* ================================================================ names without separators *)
Definition plain_char (c : Z) : bool :=
  (0 <=? c) && (c <? 128) && negb (c =? 46) && negb (c =? 91) && negb (c =? 93) && negb (c =? 123) && negb (c =? 125)
  && negb (c =? 58).
Definition plain_name (n : text) : bool :=
  forallb plain_char n && negb (match n with [] => true | _ => false end) && (Path.len n <? 256).

Lemma plain_nosep c n : forallb plain_char n = true -> (c = 46 \/ c = 91 \/ c = 93 \/ c = 123 \/ c = 125 \/ c = 58) ->
  nosep c n = true.
Proof.
  intros H Hc. unfold nosep. apply forallb_forall. intros x Hx. rewrite forallb_forall in H. specialize (H x Hx).
  unfold plain_char in H. lia.
Qed.

Lemma split_nosep c n : nosep c n = true -> split_chr c n = [n].
Proof.
  unfold split_chr. intros H.
  assert (G : forall cur, split_chr_aux c n cur = [rev cur ++ n]).
  { revert H. induction n as [|x n IH]; intros H cur; cbn [split_chr_aux].
    - rewrite app_nil_r. reflexivity.
    - unfold nosep in H. cbn [forallb] in H. apply andb_prop in H. destruct H as [Hx Hn].
      replace (x =? c) with false by lia. rewrite (IH Hn). cbn [rev]. rewrite <- app_assoc. reflexivity. }
  apply G.
Qed.

Lemma find_nosep c n : nosep c n = true -> find [c] n = None.
Proof.
  unfold find. intros H. generalize 0%nat as i. revert H. induction n as [|x n IH]; intros H i; cbn [find_from starts_with].
  - reflexivity.
  - unfold nosep in H. cbn [forallb] in H. apply andb_prop in H. destruct H as [Hx Hn].
    replace (c =? x) with false by lia. cbn [andb]. apply IH. exact Hn.
Qed.

Lemma ends_with_nosep c n : nosep c n = true -> ends_with [c] n = false.
Proof.
  unfold ends_with. cbn [rev app]. intros H.
  assert (Hr : nosep c (rev n) = true).
  { unfold nosep in *. rewrite forallb_forall in *. intros x Hx. apply H. apply in_rev. exact Hx. }
  destruct (rev n) as [|y r]; [reflexivity|]. cbn [starts_with].
  unfold nosep in Hr. cbn [forallb] in Hr. apply andb_prop in Hr. destruct Hr as [Hy _].
  replace (c =? y) with false by lia. reflexivity.
Qed.

Lemma starts_with_program n : forallb plain_char n = true -> starts_with txt_Program_ n = false.
Proof.
  intros H. destruct (starts_with txt_Program_ n) eqn:E; [|reflexivity].
  apply starts_with_app in E. destruct E as [r ->]. rewrite forallb_forall in H.
  assert (Hin : In 58 (txt_Program_ ++ r)) by (apply in_or_app; left; vm_compute; tauto).
  specialize (H 58 Hin). vm_compute in H. discriminate.
Qed.

(* ================================================================ _parse_tag_request on a plain name *)
Theorem parse_plain tags n info : plain_name n = true -> dget n tags = Some info ->
  parse_tag_request tags n = Ok (mkPreq n n None 1 None info).
Proof.
  intros Hp Hg. unfold plain_name in Hp. apply andb_prop in Hp. destruct Hp as [Hp Hlen]. apply andb_prop in Hp. destruct Hp as [Hpc Hne].
  unfold parse_tag_request.
  rewrite (ends_with_nosep 125 n) by (apply plain_nosep; [exact Hpc|tauto]). cbn [andb bind].
  rewrite (split_nosep 46 n) by (apply plain_nosep; [exact Hpc|tauto]).
  rewrite (starts_with_program n Hpc). cbn [bind rev].
  unfold get_tag_info, strip_array. rewrite (find_nosep 91 n) by (apply plain_nosep; [exact Hpc|tauto]).
  rewrite Hg. cbn [bind].
  destruct (negb (ti_struct info) && text_eqb (ti_dtname info) txt_DWORD) eqn:Edw.
  - unfold get_array_index. rewrite (ends_with_nosep 93 n) by (apply plain_nosep; [exact Hpc|tauto]). cbn [andb bind].
    reflexivity.
  - reflexivity.
Qed.

(* ================================================================ tag_request_path of a plain name *)
Lemma find_tag_index_plain n : forallb plain_char n = true -> find_tag_index n = (n, []).
Proof.
  intros H. unfold find_tag_index. rewrite (contains_chr_nosep 91 n); [reflexivity|].
  apply plain_nosep; [exact H|tauto].
Qed.

Lemma tag_segments_plain n inst use_ids : forallb plain_char n = true -> 0 < inst ->
  tag_segments n (Some inst) use_ids
  = Ok (Some (if use_ids then [Logical (txt "class_id") (LBytes class_symbol_object); Logical (txt "instance_id") (LInt inst)]
              else [DataSym n])).
Proof.
  intros H Hi. unfold tag_segments. rewrite (split_nosep 46 n) by (apply plain_nosep; [exact H|tauto]).
  rewrite (find_tag_index_plain n H).
  change (txt "Program:") with txt_Program_. rewrite (starts_with_program n H).
  replace (inst =? 0) with false by lia. cbn [negb andb map_res attr_segments bind member_segs map].
  rewrite andb_true_r. destruct use_ids; reflexivity.
Qed.

Definition sym_seg_bytes (n : text) : bytes := [145; Path.len n] ++ n ++ (if odd_len n then [0] else []).

Lemma plain_ascii n : forallb plain_char n = true -> ascii_ok n = true.
Proof.
  intros H. unfold ascii_ok. apply forallb_forall. intros x Hx. rewrite forallb_forall in H. specialize (H x Hx).
  unfold plain_char in H. lia.
Qed.

Lemma uint_encode_1 z : 0 <= z < 256 -> USINT_encode z = Ok [z].
Proof.
  intros H. unfold USINT_encode, uint_encode, in_urange. change (pow256 1) with 256.
  replace ((0 <=? z) && (z <? 256)) with true by lia. cbn [le_enc]. rewrite Z.mod_small by lia. reflexivity.
Qed.

Lemma even_len_sym n : Z.even (Path.len (sym_seg_bytes n)) = true.
Proof.
  unfold sym_seg_bytes, Path.len, odd_len. rewrite !app_length. cbn [length].
  destruct (Nat.odd (length n)) eqn:E; cbn [length].
  - apply Nat.odd_spec in E. destruct E as [k Hk]. apply Z.even_spec. exists (Z.of_nat k + 2). lia.
  - assert (Ev : Nat.even (length n) = true) by (rewrite <- Nat.negb_odd, E; reflexivity).
    apply Nat.even_spec in Ev. destruct Ev as [k Hk]. apply Z.even_spec. exists (Z.of_nat k + 1). lia.
Qed.

Theorem path_symbolic n inst : plain_name n = true -> 0 < inst ->
  tag_request_path n (Some inst) false = Ok (Some ((Path.len (sym_seg_bytes n) / 2) :: sym_seg_bytes n))
  /\ path_wf ((Path.len (sym_seg_bytes n) / 2) :: sym_seg_bytes n) (sym_seg_bytes n)
  /\ parse_psegs (length (sym_seg_bytes n)) (sym_seg_bytes n) = Some [PSym n]
  /\ tag_cia (sym_seg_bytes n) /\ 4 <= EncapParser.blen (sym_seg_bytes n).
Proof.
  intros Hp Hi. unfold plain_name in Hp. apply andb_prop in Hp. destruct Hp as [Hp Hlen]. apply andb_prop in Hp. destruct Hp as [Hpc Hne].
  assert (Hl1 : 1 <= Path.len n < 256) by (destruct n; [discriminate|unfold Path.len in *; cbn [length] in *; lia]).
  assert (Hsl : Path.len (sym_seg_bytes n) = 2 + Path.len n + (if odd_len n then 1 else 0)).
  { unfold sym_seg_bytes, Path.len. rewrite !app_length. cbn [length]. destruct (odd_len n); cbn [length]; lia. }
  split; [|split; [|split; [|split]]].
  - unfold tag_request_path. rewrite (tag_segments_plain n inst false Hpc Hi). cbn [bind].
    unfold epath_encode. change padded_PADDED_EPATH with true. cbn [encode_segs encode_seg bind].
    unfold encode_data_sym. rewrite (utf8_encode_ascii n (plain_ascii n Hpc)). cbn [bind].
    change (Z.lor data_segment_type data_extended_symbol) with 145.
    rewrite (uint_encode_1 145) by lia. cbn [bind]. rewrite (uint_encode_1 (Path.len n)) by lia. cbn [bind wrap_all].
    rewrite app_nil_r. fold (sym_seg_bytes n).
    change ([145] ++ [Path.len n] ++ n ++ (if odd_len n then [0] else [])) with (sym_seg_bytes n).
    rewrite (uint_encode_1 (Path.len (sym_seg_bytes n) / 2)) by (rewrite Hsl; destruct (odd_len n); lia).
    reflexivity.
  - unfold path_wf. split; [reflexivity|]. split; [apply even_len_sym|]. rewrite blen_len, Hsl. destruct (odd_len n); lia.
  - unfold sym_seg_bytes. cbn [length app parse_psegs]. unfold parse_pseg. cbn [Z.eqb Pos.eqb].
    replace (Path.len n =? 0) with false by lia.
    assert (Htake : takez (Path.len n) (n ++ (if odd_len n then [0] else [])) = Some (n, if odd_len n then [0] else [])).
    { apply takez_app. }
    rewrite Htake.
    assert (Hodd : Z.odd (Path.len n) = odd_len n) by (unfold Path.len, odd_len; apply Zodd_of_nat).
    rewrite Hodd. destruct (odd_len n); cbn [app length]; destruct (length n); reflexivity.
  - left. unfold path_cia, sym_seg_bytes. cbn [app length parse_logicals]. reflexivity.
  - rewrite blen_len, Hsl.
    assert (Hodd : Z.odd (Path.len n) = odd_len n) by (unfold Path.len, odd_len; apply Zodd_of_nat).
    destruct (odd_len n); [lia|].
    assert (Path.len n <> 1) by (intros E1; rewrite E1 in Hodd; discriminate). lia.
Qed.

(* ---------------------------------------------------------------- symbol-instance addressing *)
Definition inst_seg_bytes (inst : Z) : bytes :=
  [32; 107] ++ (if inst <=? 255 then [36; inst]
                else if inst <=? 65535 then 37 :: 0 :: le_enc 2 inst
                else 38 :: 0 :: le_enc 4 inst).

Lemma encode_class_seg : encode_logical true (txt "class_id") (LBytes class_symbol_object) = Ok [32; 107].
Proof. vm_compute. reflexivity. Qed.

Lemma encode_inst_seg inst : 0 < inst < 4294967296 ->
  encode_logical true (txt "instance_id") (LInt inst)
  = Ok (if inst <=? 255 then [36; inst] else if inst <=? 65535 then 37 :: 0 :: le_enc 2 inst else 38 :: 0 :: le_enc 4 inst).
Proof.
  intros H. unfold encode_logical, encode_logical_with.
  change (assoc_text (txt "instance_id") logical_types) with (Some 4). cbv iota beta.
  unfold logical_value_bytes.
  destruct (inst <=? 255) eqn:E1.
  - rewrite (uint_encode_1 inst) by lia. cbn [bind]. change (Path.len [inst]) with 1.
    change (assoc_z 1 logical_format) with (Some 0). cbv iota beta.
    change (Z.lor (Z.lor logical_segment_type 4) 0) with 36. reflexivity.
  - destruct (inst <=? 65535) eqn:E2.
    + unfold UINT_encode, uint_encode, in_urange. change (pow256 2) with 65536.
      replace ((0 <=? inst) && (inst <? 65536)) with true by lia. cbn [bind].
      change (Path.len (le_enc 2 inst)) with 2. change (assoc_z 2 logical_format) with (Some 1). cbv iota beta.
      change (Z.lor (Z.lor logical_segment_type 4) 1) with 37. reflexivity.
    + replace (inst <=? 4294967295) with true by lia.
      unfold UDINT_encode, uint_encode, in_urange. change (pow256 4) with 4294967296.
      replace ((0 <=? inst) && (inst <? 4294967296)) with true by lia. cbn [bind].
      change (Path.len (le_enc 4 inst)) with 4. change (assoc_z 4 logical_format) with (Some 2). cbv iota beta.
      change (Z.lor (Z.lor logical_segment_type 4) 2) with 38. reflexivity.
Qed.

Lemma pl_32 v r : parse_logical 32 (v :: r) = Some (0, v, r).
Proof. reflexivity. Qed.
Lemma pl_36 v r : parse_logical 36 (v :: r) = Some (1, v, r).
Proof. reflexivity. Qed.
Lemma pl_37 lo hi r : parse_logical 37 (0 :: lo :: hi :: r) = Some (1, u16 lo hi, r).
Proof. reflexivity. Qed.
Lemma pl_38 b0 b1 b2 b3 r : parse_logical 38 (0 :: b0 :: b1 :: b2 :: b3 :: r) = Some (1, u32 b0 b1 b2 b3, r).
Proof. reflexivity. Qed.

Lemma pseg_log b r : (b =? 145) = false ->
  parse_pseg b r = match parse_logical b r with Some (lt, v, r') => Some (PLog lt v, r') | None => None end.
Proof. intros H. unfold parse_pseg. rewrite H. reflexivity. Qed.

Theorem path_instance n inst : forallb plain_char n = true -> 0 < inst < 4294967296 ->
  tag_request_path n (Some inst) true = Ok (Some ((Path.len (inst_seg_bytes inst) / 2) :: inst_seg_bytes inst))
  /\ path_wf ((Path.len (inst_seg_bytes inst) / 2) :: inst_seg_bytes inst) (inst_seg_bytes inst)
  /\ parse_psegs (length (inst_seg_bytes inst)) (inst_seg_bytes inst) = Some [PLog 0 107; PLog 1 inst]
  /\ tag_cia (inst_seg_bytes inst) /\ 4 <= EncapParser.blen (inst_seg_bytes inst).
Proof.
  intros Hpc Hi.
  split; [|split; [|split; [|split]]].
  - unfold tag_request_path. rewrite (tag_segments_plain n inst true Hpc) by lia. cbn [bind].
    unfold epath_encode. change padded_PADDED_EPATH with true. cbn [encode_segs encode_seg bind].
    rewrite encode_class_seg. cbn [wrap_all bind]. rewrite (encode_inst_seg inst Hi). cbn [wrap_all bind].
    rewrite app_nil_r. fold (inst_seg_bytes inst).
    change ([32; 107] ++ (if inst <=? 255 then [36; inst] else if inst <=? 65535 then 37 :: 0 :: le_enc 2 inst else 38 :: 0 :: le_enc 4 inst))
      with (inst_seg_bytes inst).
    assert (Hl : Path.len (inst_seg_bytes inst) / 2 = if inst <=? 255 then 2 else if inst <=? 65535 then 3 else 4).
    { unfold inst_seg_bytes. destruct (inst <=? 255); [reflexivity|]. destruct (inst <=? 65535); reflexivity. }
    rewrite Hl. rewrite uint_encode_1 by (destruct (inst <=? 255); [lia|destruct (inst <=? 65535); lia]). reflexivity.
  - unfold path_wf. split; [reflexivity|]. unfold inst_seg_bytes.
    destruct (inst <=? 255); [split; reflexivity|]. destruct (inst <=? 65535); split; reflexivity.
  - unfold inst_seg_bytes. destruct (inst <=? 255) eqn:E1.
    + cbn [app length parse_psegs]. rewrite (pseg_log 32) by reflexivity. rewrite pl_32.
      rewrite (pseg_log 36) by reflexivity. rewrite pl_36. reflexivity.
    + destruct (inst <=? 65535) eqn:E2.
      * cbn [app length le_enc parse_psegs]. rewrite (pseg_log 32) by reflexivity. rewrite pl_32.
        rewrite (pseg_log 37) by reflexivity. rewrite pl_37, u16_enc by lia. reflexivity.
      * cbn [app length le_enc parse_psegs]. rewrite (pseg_log 32) by reflexivity. rewrite pl_32.
        rewrite (pseg_log 38) by reflexivity. rewrite pl_38, u32_enc by lia. reflexivity.
  - right. exists inst, None. unfold path_cia, inst_seg_bytes. destruct (inst <=? 255) eqn:E1.
    + cbn [app length parse_logicals]. rewrite pl_32, pl_36. reflexivity.
    + destruct (inst <=? 65535) eqn:E2.
      * cbn [app length le_enc parse_logicals]. rewrite pl_32, pl_37, u16_enc by lia. reflexivity.
      * cbn [app length le_enc parse_logicals]. rewrite pl_32, pl_38, u32_enc by lia. reflexivity.
  - unfold inst_seg_bytes. destruct (inst <=? 255); [cbn; lia|]. destruct (inst <=? 65535); cbn; lia.
Qed.

(* ================================================================ looking a tag up: target, reference, client *)
Lemma name_eqb_refl n : name_eqb n n = true.
Proof. unfold name_eqb. apply teqb_refl. Qed.
Lemma scope_eqb_refl sc : scope_eqb sc sc = true.
Proof. destruct sc; [reflexivity|apply name_eqb_refl]. Qed.

Lemma tag_key_sym a b : tag_key_eqb a b = tag_key_eqb b a.
Proof.
  unfold tag_key_eqb, name_eqb. rewrite (teqb_sym (lower (g_name a))). f_equal.
  destruct (g_scope a), (g_scope b); try reflexivity. cbn. unfold name_eqb. apply teqb_sym.
Qed.

Lemma find_tag_name_distinct gs g : distinct_by tag_key_eqb gs = true -> In g gs ->
  find_tag_name gs (g_scope g) (g_name g) = Some g.
Proof.
  induction gs as [|h r IH]; intros Hd Hin; [contradiction|].
  cbn [distinct_by] in Hd. apply andb_prop in Hd. destruct Hd as [Hh Hr]. apply negb_true_iff in Hh.
  cbn [find_tag_name]. destruct Hin as [->|Hin].
  - rewrite scope_eqb_refl, name_eqb_refl. reflexivity.
  - destruct (scope_eqb (g_scope h) (g_scope g) && name_eqb (g_name h) (g_name g)) eqn:E; [|apply IH; assumption].
    exfalso. assert (existsb (tag_key_eqb h) r = true); [|congruence].
    apply existsb_exists. exists g. split; [exact Hin|exact E].
Qed.

Lemma find_tag_inst_distinct gs g : distinct_by Z.eqb (map g_inst gs) = true -> In g gs ->
  find_tag_inst gs (g_inst g) = Some g.
Proof.
  induction gs as [|h r IH]; intros Hd Hin; [contradiction|].
  cbn [map distinct_by] in Hd. apply andb_prop in Hd. destruct Hd as [Hh Hr]. apply negb_true_iff in Hh.
  cbn [find_tag_inst]. destruct Hin as [->|Hin].
  - rewrite Z.eqb_refl. reflexivity.
  - destruct (g_inst h =? g_inst g) eqn:E; [|apply IH; assumption].
    exfalso. assert (existsb (Z.eqb (g_inst h)) (map g_inst r) = true); [|congruence].
    apply existsb_exists. exists (g_inst g). split; [apply in_map; exact Hin|exact E].
Qed.

(* LogixDriver._tags[name] *)
Definition tags_step (p : project) (d : tagdb) (g : tagdef) : tagdb :=
  match tag_info p g with Some i => dset (full_name g) i d | None => d end.

Lemma dget_dset_other {A} k k' (v : A) d : k' <> k -> dget k (dset k' v d) = dget k d.
Proof.
  intros Hne. induction d as [|[k0 v0] r IH]; cbn.
  - rewrite teqb_neq by exact Hne. reflexivity.
  - destruct (text_eqb k0 k') eqn:E.
    + apply teqb_eq in E. subst k0. cbn. rewrite teqb_neq by exact Hne. reflexivity.
    + cbn. destruct (text_eqb k0 k); [reflexivity|exact IH].
Qed.

Lemma fold_tags_other p l : forall d k, ~ In k (map full_name l) -> dget k (fold_left (tags_step p) l d) = dget k d.
Proof.
  induction l as [|h r IH]; intros d k Hk; [reflexivity|].
  cbn [fold_left]. rewrite IH by (intros H; apply Hk; right; exact H).
  unfold tags_step. destruct (tag_info p h); [|reflexivity].
  apply dget_dset_other. intros E. apply Hk. left. exact E.
Qed.

Lemma client_tags_lookup p g info : NoDup (map full_name (visible_tags p)) -> In g (visible_tags p) ->
  tag_info p g = Some info -> dget (full_name g) (client_tags p) = Some info.
Proof.
  unfold client_tags. change (fun d g0 => match tag_info p g0 with Some i => dset (full_name g0) i d | None => d end) with (tags_step p).
  generalize (@nil (text * tinfo)) as d. induction (visible_tags p) as [|h r IH]; intros d Hnd Hin Hi; [contradiction|].
  cbn [map] in Hnd. inversion Hnd as [|x y Hn Hd]; subst. cbn [fold_left].
  destruct Hin as [->|Hin].
  - rewrite fold_tags_other by exact Hn. unfold tags_step. rewrite Hi. apply dget_dset_same.
  - apply IH; assumption.
Qed.

Lemma dims_count_pos dims : forallb (fun d => 0 <? d) dims = true -> 1 <= dims_count dims.
Proof.
  induction dims as [|d r IH]; intros H; [cbn; lia|]. cbn [forallb] in H. apply andb_prop in H. destruct H as [Hd Hr].
  unfold dims_count in *. cbn [fold_right]. specialize (IH Hr). nia.
Qed.

Lemma wf_mem_size p mem g s img : wf_mem p mem = true -> In g (p_tags p) -> tag_size p g = Some s ->
  mem_get mem (g_inst g) = Some img -> Path.len img = s.
Proof.
  unfold wf_mem. intros H Hin Hs Hg. apply andb_prop in H. destruct H as [H _]. apply andb_prop in H. destruct H as [Ht _].
  rewrite forallb_forall in Ht. specialize (Ht g Hin). rewrite Hs, Hg in Ht. apply andb_prop in Ht. unfold Path.len. lia.
Qed.

(* ================================================================ a plain controller-scope tag request is sound *)
Definition upload_ok (p : project) : bool :=
  forallb (fun g => match tag_info p g with Some _ => true | None => false end) (visible_tags p)
  && distinct_by text_eqb (map full_name (visible_tags p))
  && forallb (fun t => negb (text_eqb (client_type_name (t_name t)) txt_DWORD)) (p_templates p).

Lemma atom_client_name c s : atom_size c = Some s ->
  exists n k, atom_class c = Some (n, s, k) /\ atom_name c = Some n /\ client_type_name n = n
              /\ text_eqb n txt_DWORD = (c =? C_DWORD) /\ text_eqb n txt_BOOL = (c =? C_BOOL).
Proof.
  intros H. atom_cases H; vm_compute in H; injection H as <-;
  eexists; eexists; (split; [vm_compute; reflexivity|]); vm_compute; repeat split; reflexivity.
Qed.

Lemma tag_info_inst p g info : tag_info p g = Some info -> ti_inst info = Some (g_inst g).
Proof.
  unfold tag_info. destruct (g_ty g) as [c|tid|w]; [| |discriminate].
  - destruct (atom_class c) as [[[n sz] k]|]; [|discriminate]. intros H; injection H as <-. reflexivity.
  - destruct (struct_dtype (client_fuel p) p tid) as [[[[[n tc] sz] attrs] mem]|]; [|discriminate].
    intros H; injection H as <-. reflexivity.
Qed.

Lemma struct_dtype_S f p tid :
  struct_dtype (S f) p tid
  = match find_template (p_templates p) tid with
    | None => None
    | Some t => match member_infos (struct_dtype f p) (t_members t) with
                | Some infos => Some (dtype_of t infos)
                | None => None
                end
    end.
Proof. reflexivity. Qed.

Section Plain.
  Variables (p : project) (mem : Project.mem) (cfg : ccfg) (fuel : nat) (g : tagdef).
  Hypothesis Hwf : wf_project p = true.
  Hypothesis Hwm : wf_mem p mem = true.
  Hypothesis Hlay : layout_ok p = true.
  Hypothesis Hup : upload_ok p = true.
  Hypothesis Hvis : In g (visible_tags p).
  Hypothesis Hsc : g_scope g = ScCtrl.
  Hypothesis Hname : plain_name (g_name g) = true.

  Let s := g_name g.
  Let r := mkReq None [mkSeg s []] None None.

  Lemma pl_in_tags : In g (p_tags p).
  Proof. unfold visible_tags in Hvis. apply filter_In in Hvis. tauto. Qed.

  Lemma pl_wf : tag_ok p g = true /\ distinct_by Z.eqb (map g_inst (p_tags p)) = true
                /\ distinct_by tag_key_eqb (p_tags p) = true.
  Proof.
    pose proof Hwf as H. unfold wf_project in H. repeat (apply andb_prop in H; destruct H as [H ?]).
    repeat split; try assumption. apply (forallb_In _ (p_tags p)); [assumption|exact pl_in_tags].
  Qed.

  Lemma pl_info : exists info, tag_info p g = Some info /\ dget s (client_tags p) = Some info.
  Proof.
    pose proof Hup as Hup'. unfold upload_ok in Hup'. apply andb_prop in Hup'. destruct Hup' as [Hup1 Hnodw]. apply andb_prop in Hup1. destruct Hup1 as [Hinfo Hdist].
    pose proof (forallb_In _ _ _ Hinfo Hvis) as Hi. cbv beta in Hi.
    destruct (tag_info p g) as [info|] eqn:E; [|discriminate]. exists info. split; [reflexivity|].
    replace s with (full_name g) by (unfold full_name, s; rewrite Hsc; reflexivity).
    apply client_tags_lookup; [apply distinct_by_nodup; exact Hdist|exact Hvis|exact E].
  Qed.

  Lemma pl_find_name : find_tag_name (p_tags p) ScCtrl s = Some g.
  Proof. rewrite <- Hsc. apply find_tag_name_distinct; [apply pl_wf|exact pl_in_tags]. Qed.

  Lemma pl_find_inst : find_tag_inst (p_tags p) (g_inst g) = Some g.
  Proof. apply find_tag_inst_distinct; [apply pl_wf|exact pl_in_tags]. Qed.

  Lemma pl_inst_range : 0 < g_inst g < 4294967296.
  Proof. destruct pl_wf as [Hok _]. unfold tag_ok in Hok. repeat (apply andb_prop in Hok; destruct Hok as [Hok ?]). lia. Qed.

  (* the target resolves both spellings of the path to the tag *)
  Lemma pl_resolve_path pb : (pb = sym_seg_bytes s \/ pb = inst_seg_bytes (g_inst g)) ->
    forall l, tag_wloc g = ROk l -> resolve_path p false pb = TgTag l.
  Proof.
    intros Hpb l Hl. unfold resolve_path. pose proof Hname as Hname'. unfold plain_name in Hname'.
    destruct Hpb as [->| ->].
    - destruct (path_symbolic s (g_inst g) Hname (proj1 pl_inst_range)) as (_ & _ & Hps & _). rewrite Hps.
      unfold resolve_in_scope. rewrite pl_find_name, Hl. cbn [resolve_segs rev apply_idx of_rres]. reflexivity.
    - assert (Hpc : forallb plain_char s = true).
      { apply andb_prop in Hname'. destruct Hname' as [H _]. apply andb_prop in H. tauto. }
      destruct (path_instance s (g_inst g) Hpc pl_inst_range) as (_ & _ & Hps & _). rewrite Hps.
      unfold resolve_in_scope. rewrite pl_find_inst, Hsc. cbn [scope_eqb]. rewrite Hl.
      cbn [resolve_segs rev apply_idx of_rres]. reflexivity.
  Qed.

  Lemma pl_path info : tag_info p g = Some info ->
    exists path pb, read_path (c_use_ids cfg) (mkPreq s s None 1 None info) = Ok path
      /\ path_wf path pb /\ tag_cia pb /\ 4 <= EncapParser.blen pb
      /\ (pb = sym_seg_bytes s \/ pb = inst_seg_bytes (g_inst g)).
  Proof.
    intros Hi. unfold read_path. cbn [pq_plc pq_info]. rewrite (tag_info_inst p g info Hi).
    assert (Hpc : forallb plain_char s = true).
    { pose proof Hname as H. unfold plain_name in H. apply andb_prop in H. destruct H as [H _]. apply andb_prop in H. tauto. }
    destruct (c_use_ids cfg).
    - destruct (path_instance s (g_inst g) Hpc pl_inst_range) as (Hp & Hw & _ & Hc & H4). rewrite Hp. cbn [bind].
      eexists. exists (inst_seg_bytes (g_inst g)). repeat split; try assumption; try reflexivity; try apply Hw. right. reflexivity.
    - destruct (path_symbolic s (g_inst g) Hname (proj1 pl_inst_range)) as (Hp & Hw & _ & Hc & H4). rewrite Hp. cbn [bind].
      eexists. exists (sym_seg_bytes s). repeat split; try assumption; try reflexivity; try apply Hw. left. reflexivity.
  Qed.

  Lemma tag_elems_pos : 1 <= tag_elems g.
  Proof.
    destruct pl_wf as [Hok _]. unfold tag_ok in Hok. repeat (apply andb_prop in Hok; destruct Hok as [Hok ?]).
    unfold tag_elems. apply dims_count_pos. assumption.
  Qed.

  Theorem plain_request_ok :
    ref_read p mem r <> None ->
    (forall q path, parse_tag_request (client_tags p) s = Ok q -> read_path (c_use_ids cfg) q = Ok path ->
                    fits (c_conn cfg) fuel q path) ->
    request_ok p mem cfg fuel s r.
  Proof.
    intros Href Hfits.
    destruct pl_info as (info & Hinfo & Hget).
    pose proof (parse_plain (client_tags p) s info Hname Hget) as Hparse.
    destruct (pl_path info Hinfo) as (path & pb & Hpath & Hpw & Hcia & Hpb4 & Hpb).
    destruct pl_wf as (Hok & _ & _).
    (* the reference place *)
    unfold ref_read, resolve in Href. cbn [r_segs r req_scope r_prog s_name s_idx] in Href. rewrite pl_find_name in Href.
    exists (mkPreq s s None 1 None info), path. split; [|split; [exact (Hfits _ _ Hparse Hpath)|split]].
    - (* resolves *)
      unfold tag_ok in Hok. repeat (apply andb_prop in Hok; destruct Hok as [Hok ?]).
      unfold resolves, resolve. cbn [r_segs r req_scope r_prog s_name s_idx]. rewrite pl_find_name.
      unfold tag_info in Hinfo.
      destruct (g_ty g) as [c|tid|w] eqn:Ety; [| |discriminate].
      + (* elementary *)
        apply andb_prop in H. destruct H as [H Hbooldims]. apply andb_prop in H. destruct H as [H Hbp]. apply andb_prop in H. destruct H as [Hsz Hbp0].
        destruct (atom_size c) as [sz|] eqn:Esz; [|discriminate].
        destruct (atom_client_name c sz Esz) as (nm & k & Hcls & Hnm & Hcn & Hdw & Hbool).
        rewrite Hcls in Hinfo. injection Hinfo as <-.
        unfold tag_place in *. rewrite Ety in *.
        destruct (c =? C_BOOL) eqn:Eb.
        * (* a BOOL tag *)
          assert (Hd : g_dims g = []) by (destruct (g_dims g); [reflexivity|cbn in Hbooldims; discriminate]).
          exists (PlBit (g_inst g) 0 (g_bitpos g)), pb, (mkWLoc (g_inst g) 0 (BAtom c) [] 1 (Some (g_bitpos g))).
          split; [reflexivity|]. split; [exact Hparse|]. split; [exact Hpath|]. split; [exact Hpw|]. split; [exact Hcia|].
          split; [exact Hpb4|]. split.
          { apply (pl_resolve_path pb Hpb). unfold tag_wloc. rewrite Ety, Eb. reflexivity. }
          cbn [agree pq_bit pq_bools pq_elements pq_info w_inst w_off w_bit w_ty w_avail ti_class ti_dtname ti_esize r_bit r_count r].
          assert (c = 193) by (unfold C_BOOL in Eb; lia). subst c. rewrite Hd.
          vm_compute in Hcls. injection Hcls as <- <- <-.
          repeat split; try reflexivity; lia.
        * destruct (is_dword (BAtom c)) eqn:Edw.
          { (* a BOOL array *)
            cbn [is_dword] in Edw. assert (c = 211) by (unfold C_DWORD in Edw; lia). subst c.
            vm_compute in Hcls. injection Hcls as <- <- <-.
            unfold index_place in Href. cbn [is_dword] in Href. change (211 =? C_DWORD) with true in Href. cbv iota in Href.
            assert (Hshape : exists nbits, (g_dims g = [] /\ nbits = 32 \/ exists kk, g_dims g = [kk] /\ nbits = 32 * kk)
                             /\ index_place p (PlData (g_inst g) 0 (BAtom 211) (g_dims g) (tag_elems g)) [] = Some (PlBools (g_inst g) 0 nbits 0)).
            { unfold index_place. cbn [is_dword]. change (211 =? C_DWORD) with true. cbv iota.
              destruct (g_dims g) as [|kk [|k2 rest]] eqn:Ed.
              - exists 32. split; [left; split; reflexivity|reflexivity].
              - exists (32 * kk). split; [right; exists kk; split; reflexivity|reflexivity].
              - cbn in Href. congruence. }
            destruct Hshape as (nbits & Hdims & Hip).
            exists (PlBools (g_inst g) 0 nbits 0), pb, (mkWLoc (g_inst g) 0 (BAtom 211) (g_dims g) (tag_elems g) None).
            split; [cbn [walk_members]; rewrite Hip; reflexivity|]. split; [exact Hparse|]. split; [exact Hpath|]. split; [exact Hpw|].
            split; [exact Hcia|]. split; [exact Hpb4|]. split.
            { apply (pl_resolve_path pb Hpb). unfold tag_wloc. rewrite Ety. reflexivity. }
            cbn [agree pq_bit pq_bools pq_elements pq_info w_inst w_off w_bit w_ty w_avail ti_class ti_dtname ti_esize r_bit r_count r].
            assert (Hnb : nbits = 32 * tag_elems g).
            { unfold tag_elems, dims_count. destruct Hdims as [[-> ->]|(kk & -> & ->)]; cbn [fold_right]; lia. }
            repeat split; try reflexivity; try lia; try exact Hnb.
            - right. split; reflexivity.
            - exists 1%nat. unfold info_elem. cbn [ti_class]. destruct (g_dims g); reflexivity.
            - unfold info_is_arr, tag_elems. cbn [ti_class]. destruct (g_dims g) as [|d0 dr] eqn:Ed; [intros _; reflexivity|discriminate]. }
          { (* data of an elementary type *)
            exists (PlData (g_inst g) 0 (BAtom c) (g_dims g) (tag_elems g)), pb, (mkWLoc (g_inst g) 0 (BAtom c) (g_dims g) (tag_elems g) None).
            split; [unfold index_place; rewrite Edw; reflexivity|]. split; [exact Hparse|]. split; [exact Hpath|]. split; [exact Hpw|].
            split; [exact Hcia|]. split; [exact Hpb4|]. split.
            { apply (pl_resolve_path pb Hpb). unfold tag_wloc. rewrite Ety, Eb. reflexivity. }
            cbn [agree pq_bit pq_bools pq_elements pq_info w_inst w_off w_bit w_ty w_avail ti_class ti_dtname ti_esize r_bit r_count r].
            pose proof tag_elems_pos as Hel.
            repeat split; try reflexivity; try lia; try exact Edw.
            - exists sz. split; [exact Esz|]. unfold info_for. cbn [ti_esize ti_dtname ti_struct].
              split; [exists 1%nat; unfold info_elem; cbn [ti_class elem_tc]; rewrite Hcls; destruct (g_dims g); reflexivity|].
              split; [reflexivity|]. split; [exists nm; split; [exact Hnm|symmetry; exact Hcn]|reflexivity].
            - intros _. left. reflexivity.
            - cbn [is_dword] in Edw. rewrite Hdw. exact Edw. }
      + (* a structure *)
        apply andb_prop in H. destruct H as [Hft Hbp0].
        destruct (find_template (p_templates p) tid) as [t|] eqn:Eft; [|discriminate].
        destruct (struct_dtype (client_fuel p) p tid) as [[[[[nm tc] sz] attrs] mem']|] eqn:Esd; [|discriminate].
        injection Hinfo as <-.
        exists (PlData (g_inst g) 0 (BStruct tid) (g_dims g) (tag_elems g)), pb, (mkWLoc (g_inst g) 0 (BStruct tid) (g_dims g) (tag_elems g) None).
        unfold tag_place. rewrite Ety.
        split; [reflexivity|]. split; [exact Hparse|]. split; [exact Hpath|]. split; [exact Hpw|].
        split; [exact Hcia|]. split; [exact Hpb4|]. split.
        { apply (pl_resolve_path pb Hpb). unfold tag_wloc. rewrite Ety. reflexivity. }
        cbn [agree pq_bit pq_bools pq_elements pq_info w_inst w_off w_bit w_ty w_avail ti_class ti_dtname ti_esize r_bit r_count r].
        pose proof tag_elems_pos as Hel.
        (* the data type dict *)
        unfold client_fuel in Esd. rewrite struct_dtype_S in Esd. rewrite Eft in Esd.
        destruct (member_infos (struct_dtype (S (length (p_templates p))) p) (t_members t)) as [infos|] eqn:Emi;
          try rewrite Emi in Esd; cbv beta iota in Esd; [|discriminate].
        injection Esd as Hnm Htc Hsz Hattrs Hmem.
        destruct (find_template_in _ _ _ Eft) as [Hint Htid].
        assert (Hlt : tmpl_layout_ok p t = true) by (apply (forallb_In _ (p_templates p)); assumption).
        assert (Htc_notarr : info_elem (TI true nm (match g_dims g with [] => tc | _ :: _ => KArr (dims_count (g_dims g)) tc end)
                                          sz (Some (g_inst g)) attrs mem') = tc).
        { unfold info_elem. cbn [ti_class]. destruct (g_dims g); [|reflexivity].
          rewrite <- Htc. unfold dtype_of. destruct (is_string_dtype _); reflexivity. }
        repeat split; try reflexivity; try lia.
        * exists (t_size t). cbn [base_size]. rewrite Eft. split; [reflexivity|]. unfold info_for.
          split; [exists (client_fuel p); rewrite Htc_notarr; cbn [elem_tc]; unfold client_fuel; rewrite struct_dtype_S;
                  rewrite Eft, Emi; cbn [option_map]; rewrite <- Htc; reflexivity|].
          split; [cbn [ti_esize]; rewrite <- Hsz; reflexivity|].
          split; [exists (t_name t); cbn [ty_name ti_dtname]; rewrite Eft; split; [reflexivity|rewrite <- Hnm; reflexivity]|].
          cbn [ti_struct ti_attrs]. split; [reflexivity|]. exists t. split; [exact Eft|].
          rewrite <- Hattrs. unfold dtype_of. cbn [fst snd].
          rewrite (sc_scan p _ t infos Hlt Emi). cbn [sc_attrs]. apply (sc_attrs_visible p _ t infos Hlt Emi).
        * intros _. left. reflexivity.
        * cbn [ti_dtname]. rewrite <- Hnm.
          pose proof Hup as Hup'. unfold upload_ok in Hup'. apply andb_prop in Hup'. destruct Hup' as [_ Hnd].
          pose proof (forallb_In _ _ _ Hnd Hint) as Hx. cbv beta in Hx. apply negb_true_iff in Hx. exact Hx.
    - (* the image holds the whole BOOL array *)
      unfold image_covers, resolve. cbn [r_segs r req_scope r_prog s_name s_idx]. rewrite pl_find_name.
      destruct (tag_place g) as [pl0|] eqn:Etp; [|exact I]. cbn [walk_members].
      destruct (index_place p pl0 []) as [pl1|] eqn:Eip; [|exact I].
      destruct pl1 as [| |inst off nbits start]; try exact I.
      destruct (mem_get mem inst) as [img|] eqn:Emem; [|exact I].
      (* only a DWORD tag yields PlBools *)
      unfold tag_place in Etp. destruct (g_ty g) as [c|tid|w] eqn:Ety; [| |discriminate].
      + destruct (c =? C_BOOL) eqn:Eb; injection Etp as <-; [cbn in Eip; discriminate|].
        unfold index_place in Eip. destruct (is_dword (BAtom c)) eqn:Edw; [|injection Eip as E; discriminate E].
        cbn [is_dword] in Edw. assert (c = 211) by (unfold C_DWORD in Edw; lia). subst c.
        assert (Hts : tag_size p g = Some (4 * tag_elems g)) by (unfold tag_size; rewrite Ety; reflexivity).
        destruct (g_dims g) as [|kk [|k2 rest]] eqn:Ed; try discriminate; injection Eip as <- <- <- <-.
        * pose proof (wf_mem_size p mem g _ img Hwm pl_in_tags Hts Emem) as Hl. unfold tag_elems in Hl. rewrite Ed in Hl. cbn in Hl. lia.
        * pose proof (wf_mem_size p mem g _ img Hwm pl_in_tags Hts Emem) as Hl. unfold tag_elems, dims_count in Hl. rewrite Ed in Hl.
          cbn [fold_right] in Hl.
          change (match kk with 0 => 0 | Z.pos y' => Z.pos y'~0~0~0~0~0 | Z.neg y' => Z.neg y'~0~0~0~0~0 end) with (32 * kk).
          lia.
      + injection Etp as <-. unfold index_place in Eip. cbn [is_dword] in Eip. injection Eip as E. discriminate E.
    - (* the reference value exists *)
      unfold ref_read, resolve. cbn [r_segs r req_scope r_prog s_name s_idx]. rewrite pl_find_name. exact Href.
  Qed.
End Plain.

Print Assumptions plain_request_ok.
