(* Proofs/CodecRTFloat.v — C06: "REAL to IEEE precision".  The normal form of a REAL value in the
   round-trip theorem, [widen32 (round32 b)] (integer arithmetic on bit patterns, Model/CodecFloat.v),
   IS the IEEE-754 binary32 rounding of the double (Flocq's [binary_normalize 24 128 mode_NE], to
   nearest, ties to even) embedded back exactly into binary64.  The agreement of the integer
   arithmetic with Flocq is Proofs/CodecWireFloat.v (property C07's vertical); this file only
   restates it for the domain and normal form of C06.  Importing Flocq brings the stdlib
   real-number axioms into Print Assumptions (this theorem only). *)
From PV Require Import Base.Bytes Model.Codec Model.CodecDom Spec.WireFloat.
From PV Require Import Proofs.CodecWireFloat.
From Coq Require Import ZifyBool.
Open Scope Z_scope.

Ltac Zify.zify_post_hook ::= Z.to_euclidean_division_equations.

(* the two NaN tests (exponent field all ones and a non-zero fraction) agree *)
Lemma is_nan64_spec b : 0 <= b < 2 ^ 64 -> sp_is_nan64 b = is_nan64 b.
Proof.
  intros Hb. unfold sp_is_nan64, is_nan64, exp64, man64.
  change (2 ^ 63) with 9223372036854775808. change (2 ^ 52) with 4503599627370496. change (2 ^ 11) with 2048.
  change (2 ^ 64) with 18446744073709551616 in Hb.
  lia.
Qed.

Definition real_precision_statement (b : Z) : Prop :=
  real_dom false b = true ->
  exists s, spec_real32_of_64 b = Some s /\ real_norm false b = spec_real64_of_32 s.

Theorem real_precision : forall b, real_precision_statement b.
Proof.
  intros b Hd. unfold real_dom in Hd.
  apply andb_prop in Hd as [Hd H3]. apply andb_prop in Hd as [H1 H2]. unfold b64_ok in H1.
  assert (Hok : sp_f64_ok b = true).
  { unfold sp_f64_ok. rewrite is_nan64_spec by lia. rewrite H1. cbn [andb]. exact H2. }
  destruct (round32 b) as [s|] eqn:Er; [|discriminate H3].
  exists s. split.
  - rewrite <- (round32_is_flocq b Hok). exact Er.
  - unfold real_norm. rewrite Er. apply widen32_is_flocq. unfold in_urange in H3. change (pow256 4) with (2 ^ 32) in H3. lia.
Qed.
