(* Proofs/ConnPathStr.v — C15 string lemmas over [list Z]: splitting at separator characters
   ([fields] vs the model's split/replace), decimal numerals (print/parse inverse, leading zeros),
   and the model of int() (what it accepts, when it is non-positive).  All by induction. *)
From Coq Require Import String.
From PV Require Import Base.Bytes Base.BytesLemmas Base.Proto Base.Res Base.PyStr Gen.PathTables Gen.Consts
     Model.Path Model.ConnPath Spec.ConnPathGrammar.
From Coq Require Import ZifyBool.
Ltac Zify.zify_post_hook ::= Z.to_euclidean_division_equations.
Open Scope Z_scope.

(* ================================================================ A. fields / split *)
Lemma fields_ext p q s : (forall c, p c = q c) -> fields p s = fields q s.
Proof.
  intros H. induction s as [|c r IH]; cbn [fields]; [reflexivity|]. now rewrite IH, H.
Qed.

Lemma split_chr_aux_fields sep s : forall cur,
  split_chr_aux sep s cur
  = (rev cur ++ fst (fields (fun c => c =? sep) s)) :: snd (fields (fun c => c =? sep) s).
Proof.
  induction s as [|c r IH]; intros cur; cbn [split_chr_aux fields].
  - cbn. now rewrite app_nil_r.
  - destruct (fields (fun c0 => c0 =? sep) r) as [f fs] eqn:E. cbn [fst snd] in IH.
    destruct (c =? sep) eqn:Ec; cbn [fst snd].
    + rewrite app_nil_r. f_equal. specialize (IH []). cbn in IH. now rewrite IH.
    + rewrite IH. cbn [rev]. now rewrite <- app_assoc.
Qed.

Lemma split_chr_fields sep s :
  split_chr sep s = fst (fields (fun c => c =? sep) s) :: snd (fields (fun c => c =? sep) s).
Proof. unfold split_chr. now rewrite split_chr_aux_fields. Qed.

Lemma fields_normalise s : fields (fun c => c =? 47) (normalise s) = fields is_sep s.
Proof.
  unfold normalise, replace_chr. induction s as [|c r IH]; [reflexivity|].
  cbn [map fields]. rewrite IH. destruct (fields is_sep r) as [f fs].
  unfold is_sep, SLASH, BACKSLASH, COMMA.
  destruct (c =? 92) eqn:E1.
  - assert (c = 92) by lia. subst. reflexivity.
  - destruct (c =? 44) eqn:E2.
    + assert (c = 44) by lia. subst. reflexivity.
    + destruct (c =? 47) eqn:E3; reflexivity.
Qed.

Lemma fields_backslash s : fields (fun c => c =? 47) (replace_chr 92 47 s)
  = fields (fun c => (c =? 47) || (c =? 92)) s.
Proof.
  unfold replace_chr. induction s as [|c r IH]; [reflexivity|].
  cbn [map fields]. rewrite IH. destruct (fields _ r) as [f fs].
  destruct (c =? 92) eqn:E1.
  - assert (c = 92) by lia. subst. reflexivity.
  - destruct (c =? 47) eqn:E3; reflexivity.
Qed.

Definition none_of (p : Z -> bool) (s : text) : bool := forallb (fun c => negb (p c)) s.

Lemma fields_none p a : none_of p a = true -> fields p a = (a, []).
Proof.
  induction a as [|c r IH]; cbn [none_of forallb fields]; [reflexivity|].
  intros H. apply andb_prop in H as [H1 H2]. fold (none_of p r) in H2. rewrite (IH H2).
  destruct (p c); [discriminate|reflexivity].
Qed.

Lemma fields_app_sep p a c r : none_of p a = true -> p c = true ->
  fields p (a ++ c :: r) = (a, fst (fields p r) :: snd (fields p r)).
Proof.
  intros Ha Hc. induction a as [|x a IH]; cbn [app fields].
  - destruct (fields p r) as [f fs]. now rewrite Hc.
  - cbn [none_of forallb] in Ha. apply andb_prop in Ha as [H1 H2]. fold (none_of p a) in H2.
    rewrite (IH H2). destruct (p x); [discriminate|reflexivity].
Qed.

Lemma fields_first_none p s : none_of p (fst (fields p s)) = true.
Proof.
  induction s as [|c r IH]; cbn [fields]; [reflexivity|].
  destruct (fields p r) as [f fs]. cbn [fst] in IH.
  destruct (p c) eqn:E; cbn [fst none_of forallb]; [reflexivity|]. rewrite E. exact IH.
Qed.

Lemma fields_rest_none p s : forallb (none_of p) (snd (fields p s)) = true.
Proof.
  induction s as [|c r IH]; cbn [fields]; [reflexivity|].
  pose proof (fields_first_none p r) as Hf.
  destruct (fields p r) as [f fs]. cbn [fst snd] in *.
  destruct (p c) eqn:E; cbn [snd forallb]; [|exact IH]. now rewrite Hf, IH.
Qed.

Fixpoint total_len (fs : list text) : nat :=
  match fs with [] => O | f :: r => S (List.length f) + total_len r end.
Lemma fields_length p s :
  List.length s = (List.length (fst (fields p s)) + total_len (snd (fields p s)))%nat.
Proof.
  induction s as [|c r IH]; cbn [fields]; [reflexivity|].
  destruct (fields p r) as [f fs]. cbn [fst snd] in IH.
  destruct (p c); cbn [fst snd List.length total_len]; lia.
Qed.

Lemma contains_chr_fields c s :
  contains_chr c s = match snd (fields (fun x => x =? c) s) with [] => false | _ => true end.
Proof.
  unfold contains_chr. induction s as [|x r IH]; cbn [existsb fields]; [reflexivity|].
  destruct (fields (fun x0 => x0 =? c) r) as [f fs]. cbn [snd] in IH.
  rewrite IH. rewrite (Z.eqb_sym c x). destruct (x =? c); cbn [snd orb]; reflexivity.
Qed.
(* ================================================================ B. numerals *)
Lemma digits_val_app l1 l2 a :
  digits_val (l1 ++ l2) a = match digits_val l1 a with Some v => digits_val l2 v | None => None end.
Proof.
  revert a. induction l1 as [|c r IH]; intros a; cbn [app digits_val]; [reflexivity|].
  destruct (is_ascii_digit c); [apply IH|reflexivity].
Qed.

Lemma digits_val_zeros k l : digits_val (repeat 48 k ++ l) 0 = digits_val l 0.
Proof. induction k as [|k IH]; cbn [repeat app digits_val]; [reflexivity|]. exact IH. Qed.

Lemma dec_digits_val fuel : forall z acc, 0 <= z < 2 ^ Z.of_nat fuel ->
  exists k, 0 <= k /\ forall a, digits_val (dec_digits fuel z acc) a = digits_val acc (a * 10 ^ k + z).
Proof.
  induction fuel as [|f IH]; intros z acc Hz.
  - exists 0. split; [lia|]. intros a. cbn [dec_digits]. change (2 ^ Z.of_nat 0) with 1 in Hz.
    f_equal. lia.
  - cbn [dec_digits]. rewrite Nat2Z.inj_succ, Z.pow_succ_r in Hz by lia.
    destruct (z <? 10) eqn:E.
    + exists 1. split; [lia|]. intros a. cbn [digits_val]. unfold is_ascii_digit.
      replace ((48 <=? 48 + z mod 10) && (48 + z mod 10 <=? 57)) with true by lia.
      f_equal. lia.
    + destruct (IH (z / 10) ((48 + z mod 10) :: acc)) as [k [Hk H]]; [lia|].
      exists (k + 1). split; [lia|]. intros a. rewrite H. cbn [digits_val]. unfold is_ascii_digit.
      replace ((48 <=? 48 + z mod 10) && (48 + z mod 10 <=? 57)) with true by lia.
      f_equal. rewrite Z.pow_add_r by lia. change (10 ^ 1) with 10. lia.
Qed.

Lemma dec_digits_digits fuel : forall z acc,
  forallb is_ascii_digit acc = true -> forallb is_ascii_digit (dec_digits fuel z acc) = true.
Proof.
  induction fuel as [|f IH]; intros z acc Ha; cbn [dec_digits]; [exact Ha|].
  assert (Hd : forallb is_ascii_digit ((48 + z mod 10) :: acc) = true).
  { cbn [forallb]. rewrite Ha. unfold is_ascii_digit. lia. }
  destruct (z <? 10); [exact Hd|]. apply IH. exact Hd.
Qed.

Lemma dec_digits_nonempty fuel z acc : acc <> [] -> dec_digits fuel z acc <> [].
Proof.
  revert z acc. induction fuel as [|f IH]; intros z acc Ha; cbn [dec_digits]; [exact Ha|].
  destruct (z <? 10); [discriminate|]. apply IH. discriminate.
Qed.

Lemma print_nat_z_val n : 0 <= n -> digits_val (print_nat_z n) 0 = Some n.
Proof.
  intros Hn. unfold print_nat_z.
  destruct (dec_digits_val (S (Z.to_nat (Z.log2 n))) n []) as [k [Hk H]].
  - rewrite Nat2Z.inj_succ, Z2Nat.id by apply Z.log2_nonneg.
    destruct (Z.eq_dec n 0) as [->|Hnz]; [cbn; lia|].
    pose proof (Z.log2_spec n ltac:(lia)). lia.
  - rewrite H. cbn [digits_val]. f_equal; lia.
Qed.
Lemma print_nat_z_digits n : forallb is_ascii_digit (print_nat_z n) = true.
Proof. unfold print_nat_z. apply dec_digits_digits. reflexivity. Qed.
Lemma print_nat_z_nonempty n : print_nat_z n <> [].
Proof.
  unfold print_nat_z. cbn [dec_digits]. destruct (n <? 10); [discriminate|].
  apply dec_digits_nonempty. discriminate.
Qed.

Lemma isdigit_forallb t : isdigit t = true <-> t <> [] /\ forallb is_ascii_digit t = true.
Proof. destruct t; cbn [isdigit]; split; intros H; try discriminate; try tauto. split; [discriminate|exact H]. Qed.

Lemma repeat_digits k : forallb is_ascii_digit (repeat 48 k) = true.
Proof. induction k; cbn; auto. Qed.

Lemma decimal_isdigit z n : isdigit (decimal z n) = true.
Proof.
  apply isdigit_forallb. unfold decimal. split.
  - intros H. apply app_eq_nil in H as [_ H]. now apply print_nat_z_nonempty in H.
  - rewrite forallb_app, repeat_digits, print_nat_z_digits. reflexivity.
Qed.
Lemma decimal_dval z n : 0 <= n -> dval (decimal z n) = n.
Proof. intros H. unfold dval, decimal. rewrite digits_val_zeros. now rewrite print_nat_z_val. Qed.

Lemma digits_val_some t : forall a, forallb is_ascii_digit t = true -> 0 <= a ->
  exists v, digits_val t a = Some v /\ 0 <= v.
Proof.
  induction t as [|c r IH]; intros a Hd Ha; cbn [digits_val].
  - eauto.
  - cbn [forallb] in Hd. apply andb_prop in Hd as [H1 H2]. rewrite H1. apply IH; [exact H2|].
    unfold is_ascii_digit in H1. lia.
Qed.
Lemma isdigit_dval t : isdigit t = true -> digits_val t 0 = Some (dval t) /\ 0 <= dval t.
Proof.
  intros H. apply isdigit_forallb in H as [_ H].
  destruct (digits_val_some t 0 H ltac:(lia)) as [v [Hv Hp]]. unfold dval. rewrite Hv. auto.
Qed.

(* digit strings contain no separator, colon or dot *)
Lemma digits_none p t : (forall c, is_ascii_digit c = true -> p c = false) ->
  forallb is_ascii_digit t = true -> none_of p t = true.
Proof.
  intros Hp. induction t as [|c r IH]; cbn [forallb none_of]; [reflexivity|].
  intros H. apply andb_prop in H as [H1 H2]. rewrite (Hp c H1). cbn. now apply IH.
Qed.
Lemma digit_not_sep c : is_ascii_digit c = true -> is_sep c = false.
Proof. unfold is_ascii_digit, is_sep, SLASH, BACKSLASH, COMMA. lia. Qed.
Lemma digit_not_colon c : is_ascii_digit c = true -> is_colon c = false.
Proof. unfold is_ascii_digit, is_colon, COLON. lia. Qed.

(* ================================================================ C. int() *)
Definition of_int_digits (r : text) (neg : bool) : res Z := int_unsigned r neg.
Lemma int_of_text_digits_head c r : is_ascii_digit c = true ->
  int_strip (c :: r) = c :: r -> int_of_text (c :: r) = int_unsigned (c :: r) false.
Proof.
  intros Hc Hs. unfold int_of_text. rewrite Hs.
  replace (c =? 45) with false by (unfold is_ascii_digit in Hc; lia).
  replace (c =? 43) with false by (unfold is_ascii_digit in Hc; lia). reflexivity.
Qed.

Lemma int_lstrip_id s : match s with c :: _ => int_ws c = false | [] => True end -> int_lstrip s = s.
Proof. destruct s as [|c r]; cbn [int_lstrip]; [reflexivity|]. now intros ->. Qed.
Lemma digit_not_ws c : is_ascii_digit c = true -> int_ws c = false.
Proof. unfold is_ascii_digit, int_ws. lia. Qed.
Lemma forallb_rev {A} (q : A -> bool) l : forallb q (rev l) = forallb q l.
Proof.
  induction l as [|a l IH]; cbn [rev forallb]; [reflexivity|].
  rewrite forallb_app, IH. cbn. rewrite andb_true_r. apply andb_comm.
Qed.
Lemma existsb_rev {A} (q : A -> bool) l : existsb q (rev l) = existsb q l.
Proof.
  induction l as [|a l IH]; cbn [rev existsb]; [reflexivity|].
  rewrite existsb_app, IH. cbn. rewrite orb_false_r. apply orb_comm.
Qed.
Lemma int_strip_digits s : forallb is_ascii_digit s = true -> int_strip s = s.
Proof.
  intros H. unfold int_strip. rewrite (int_lstrip_id s).
  - rewrite (int_lstrip_id (rev s)); [apply rev_involutive|].
    pose proof (forallb_rev is_ascii_digit s) as Hr. rewrite H in Hr.
    destruct (rev s) as [|c r]; [exact I|]. cbn [forallb] in Hr. apply andb_prop in Hr as [Hc _].
    now apply digit_not_ws.
  - destruct s as [|c r]; [exact I|]. cbn [forallb] in H. apply andb_prop in H as [Hc _].
    now apply digit_not_ws.
Qed.
Lemma int_digits_digits s : forall acc pd, forallb is_ascii_digit s = true ->
  int_digits s acc pd = match s with [] => if pd then Some acc else None | _ => digits_val s acc end.
Proof.
  induction s as [|c r IH]; intros acc pd H; cbn [int_digits]; [reflexivity|].
  cbn [forallb] in H. apply andb_prop in H as [Hc Hr]. cbn [digits_val]. rewrite Hc.
  rewrite (IH _ true Hr). destruct r; reflexivity.
Qed.
Lemma filter_all {A} (q : A -> bool) l : forallb q l = true -> filter q l = l.
Proof.
  induction l as [|a l IH]; cbn [forallb filter]; [reflexivity|].
  intros H. apply andb_prop in H as [H1 H2]. rewrite H1. now rewrite IH.
Qed.
(* int() of an ASCII decimal numeral: its value, unless it is longer than the limit *)
Lemma int_of_numeral p : isdigit p = true ->
  int_of_text p = if numeral_ok p then Ok (dval p) else Err (Foreign ValueError).
Proof.
  intros Hd. destruct (isdigit_dval p Hd) as [Hv _]. apply isdigit_forallb in Hd as [Hne Hd].
  destruct p as [|c r]; [contradiction|].
  pose proof Hd as Hd'. cbn [forallb] in Hd'. apply andb_prop in Hd' as [Hc _].
  rewrite (int_of_text_digits_head c r Hc (int_strip_digits _ Hd)).
  unfold int_unsigned, numeral_ok, INT_MAX_STR_DIGITS, NUMERAL_LIMIT. rewrite (filter_all _ _ Hd).
  destruct (Z.of_nat (List.length (c :: r)) <=? 4300); [|reflexivity].
  rewrite (int_digits_digits (c :: r) 0 false Hd). now rewrite Hv.
Qed.

(* what int() accepts is made of digits, '_', a sign and blanks, with at least one digit *)
Definition us_char (c : Z) : bool := is_ascii_digit c || (c =? 95).
Lemma int_digits_chars s : forall acc pd z, int_digits s acc pd = Some z ->
  forallb us_char s = true /\ (pd = false -> existsb is_ascii_digit s = true).
Proof.
  induction s as [|c r IH]; intros acc pd z; cbn [int_digits forallb existsb].
  - destruct pd; [|discriminate]. intros _. split; [reflexivity|discriminate].
  - unfold us_char. destruct (is_ascii_digit c) eqn:Ec.
    + intros H. destruct (IH _ _ _ H) as [H1 _]. cbn. split; [exact H1|reflexivity].
    + destruct ((c =? 95) && pd) eqn:E; [|discriminate]. apply andb_prop in E as [E1 E2].
      intros H. destruct (IH _ _ _ H) as [H1 H2]. rewrite E1. cbn. split; [exact H1|].
      intros ->. discriminate.
Qed.
Lemma int_unsigned_chars r neg z : int_unsigned r neg = Ok z ->
  forallb us_char r = true /\ existsb is_ascii_digit r = true.
Proof.
  unfold int_unsigned. destruct (_ <=? _); [|discriminate].
  destruct (int_digits r 0 false) as [v|] eqn:E; [|discriminate]. intros _.
  destruct (int_digits_chars _ _ _ _ E) as [H1 H2]. split; [exact H1|exact (H2 eq_refl)].
Qed.
Lemma int_lstrip_forallb q s : (forall c, int_ws c = true -> q c = true) ->
  forallb q (int_lstrip s) = true -> forallb q s = true.
Proof.
  intros Hq. induction s as [|c r IH]; cbn [int_lstrip forallb]; [auto|].
  destruct (int_ws c) eqn:E; [|auto]. intros H. rewrite (Hq c E). cbn. now apply IH.
Qed.
Lemma int_lstrip_existsb q s : existsb q (int_lstrip s) = true -> existsb q s = true.
Proof.
  induction s as [|c r IH]; cbn [int_lstrip existsb]; [auto|].
  destruct (int_ws c); [|auto]. intros H. rewrite (IH H). apply orb_true_r.
Qed.
Lemma int_strip_forallb q s : (forall c, int_ws c = true -> q c = true) ->
  forallb q (int_strip s) = true -> forallb q s = true.
Proof.
  intros Hq. unfold int_strip. rewrite forallb_rev. intros H.
  apply (int_lstrip_forallb q _ Hq) in H. rewrite forallb_rev in H. now apply (int_lstrip_forallb q _ Hq).
Qed.
Lemma int_strip_existsb q s : existsb q (int_strip s) = true -> existsb q s = true.
Proof.
  unfold int_strip. rewrite existsb_rev. intros H. apply int_lstrip_existsb in H.
  rewrite existsb_rev in H. now apply int_lstrip_existsb.
Qed.
Lemma ws_lenient c : int_ws c = true -> lenient_char c = true.
Proof. unfold lenient_char, blank, int_ws. intros ->. now rewrite !orb_true_r. Qed.
Lemma us_lenient c : us_char c = true -> lenient_char c = true.
Proof.
  unfold us_char, lenient_char. intros H. apply orb_prop in H as [-> | ->]; cbn; now rewrite ?orb_true_r.
Qed.
Lemma forallb_impl {A} (p q : A -> bool) l : (forall x, p x = true -> q x = true) ->
  forallb p l = true -> forallb q l = true.
Proof.
  intros H. induction l; cbn; [auto|]. intros E. apply andb_prop in E as [E1 E2]. rewrite (H _ E1). auto.
Qed.

Lemma int_ok_chars s v : int_of_text s = Ok v ->
  forallb lenient_char s = true /\ existsb is_ascii_digit s = true.
Proof.
  unfold int_of_text. intros H.
  assert (Hs : forallb lenient_char (int_strip s) = true /\ existsb is_ascii_digit (int_strip s) = true).
  { destruct (int_strip s) as [|c r]; [discriminate|].
    destruct (c =? 45) eqn:E45; [|destruct (c =? 43) eqn:E43].
    - destruct (int_unsigned_chars _ _ _ H) as [H1 H2]. cbn [forallb existsb]. split.
      + unfold lenient_char at 1. rewrite E45. rewrite !orb_true_r. cbn.
        revert H1. apply forallb_impl. exact us_lenient.
      + rewrite H2. apply orb_true_r.
    - destruct (int_unsigned_chars _ _ _ H) as [H1 H2]. cbn [forallb existsb]. split.
      + unfold lenient_char at 1. rewrite E43. rewrite !orb_true_r. cbn.
        revert H1. apply forallb_impl. exact us_lenient.
      + rewrite H2. apply orb_true_r.
    - destruct (int_unsigned_chars _ _ _ H) as [H1 H2]. split; [|exact H2].
      revert H1. apply forallb_impl. exact us_lenient. }
  destruct Hs as [H1 H2]. split.
  - apply (int_strip_forallb lenient_char s ws_lenient H1).
  - apply (int_strip_existsb _ s H2).
Qed.

(* a minus sign makes int() non-positive (or fail) *)
Lemma int_digits_nonneg s : forall acc pd z, 0 <= acc -> int_digits s acc pd = Some z -> 0 <= z.
Proof.
  induction s as [|c r IH]; intros acc pd z Ha; cbn [int_digits].
  - destruct pd; [|discriminate]. intros [= <-]. exact Ha.
  - destruct (is_ascii_digit c) eqn:Ec.
    + apply IH. unfold is_ascii_digit in Ec. lia.
    + destruct ((c =? 95) && pd); [|discriminate]. now apply IH.
Qed.
Lemma int_lstrip_keeps q s : (forall c, int_ws c = true -> q c = false) ->
  existsb q (int_lstrip s) = existsb q s.
Proof.
  intros Hq. induction s as [|c r IH]; cbn [int_lstrip existsb]; [reflexivity|].
  destruct (int_ws c) eqn:E; [|reflexivity]. now rewrite (Hq c E), IH.
Qed.
Lemma int_strip_keeps q s : (forall c, int_ws c = true -> q c = false) ->
  existsb q (int_strip s) = existsb q s.
Proof.
  intros Hq. unfold int_strip. now rewrite existsb_rev, (int_lstrip_keeps q _ Hq), existsb_rev, (int_lstrip_keeps q _ Hq).
Qed.
Lemma us_no_minus r : forallb us_char r = true -> existsb (fun c => c =? 45) r = false.
Proof.
  induction r as [|c r IH]; cbn [forallb existsb]; [reflexivity|].
  intros H. apply andb_prop in H as [H1 H2]. rewrite (IH H2).
  unfold us_char, is_ascii_digit in H1. destruct (c =? 45) eqn:E; [exfalso; lia|reflexivity].
Qed.
Lemma int_minus s v : int_of_text s = Ok v -> existsb (fun c => c =? 45) s = true -> v <= 0.
Proof.
  unfold int_of_text. intros H Hm.
  rewrite <- (int_strip_keeps (fun c => c =? 45) s) in Hm by (intros c; unfold int_ws; lia).
  destruct (int_strip s) as [|c r]; [discriminate|].
  destruct (c =? 45) eqn:E45.
  - unfold int_unsigned in H. destruct (_ <=? _); [|discriminate].
    destruct (int_digits r 0 false) as [z|] eqn:Ed; [|discriminate]. injection H as <-.
    pose proof (int_digits_nonneg r 0 false z ltac:(lia) Ed). cbv iota. lia.
  - exfalso. cbn [existsb] in Hm. rewrite E45 in Hm. cbn [orb] in Hm.
    destruct (c =? 43) eqn:E43.
    + destruct (int_unsigned_chars _ _ _ H) as [H1 _]. rewrite (us_no_minus r H1) in Hm. discriminate.
    + destruct (int_unsigned_chars _ _ _ H) as [H1 _]. cbn [forallb] in H1. apply andb_prop in H1 as [_ H1].
      rewrite (us_no_minus r H1) in Hm. discriminate.
Qed.
