(* Proofs/SlcReqP.v — the model of SLCDriver.read / write (Model/Slc.v) composed with the reference
   target (Spec/SlcTarget.v), against the reference interpretation of the address:
     [read_request_shape] / [write_request_shape] : the bytes the model emits, and what the
         target's own parser reads in them (file, type, element, sub-element, size);
     [read_effect]  : the Tag the model builds from the target's reply carries ref_read;
     [write_effect] : the target's table after the model's write request is ref_write. *)
From Coq Require Import String.
From PV Require Import Base.Bytes Base.BytesLemmas Base.Proto Base.Res Base.PyStr Model.Regex Model.SlcVal Model.Slc.
From PV Require Import Gen.SlcTables Gen.Status Spec.SlcTarget.
From PV Require Import Proofs.RegexP Proofs.SlcParseP Proofs.SlcAddrP Proofs.SlcTargetP.
From Coq Require Import ZifyBool.
Open Scope Z_scope.
Ltac Zify.zify_post_hook ::= Z.to_euclidean_division_equations.

Definition cfg_ok (c : cfg) : Prop :=
  exists v0 v1 s0 s1 s2 s3, c_vid c = [v0; v1] /\ c_vsn c = [s0; s1; s2; s3].

Definition rid_of (c : cfg) : bytes := 7 :: c_vid c ++ c_vsn c.
Definition mr_head : bytes := [75; 2; 32; 103; 36; 1].

Lemma msg_start_eq c : msg_start c = mr_head ++ rid_of c.
Proof. reflexivity. Qed.

Lemma USINT_ok z : 0 <= z < 256 -> USINT_encode z = Ok [z].
Proof. intros H. unfold USINT_encode, in_urange. change (pow256 1) with 256. destruct ((0 <=? z) && (z <? 256)) eqn:E; [reflexivity|lia]. Qed.
Lemma UINT_ok z : 0 <= z < 65536 -> UINT_encode z = Ok [z mod 256; z / 256].
Proof.
  intros H. unfold UINT_encode, in_urange. change (pow256 2) with 65536.
  destruct ((0 <=? z) && (z <? 65536)) eqn:E; [|lia]. cbn [le_enc]. f_equal. f_equal. f_equal. lia.
Qed.

(* an address field as the driver emits it and as the target reads it *)
Definition afield (n : Z) : bytes := if n <? 255 then [n] else [255; n mod 256; n / 256].

Lemma address_field_ok n : 0 <= n < 65536 -> address_field n = Ok (afield n).
Proof.
  intros H. unfold address_field, afield. destruct (n <? 255) eqn:E.
  - apply USINT_ok. lia.
  - rewrite UINT_ok by exact H. reflexivity.
Qed.

Lemma parse_afield n rest : 0 <= n < 65536 -> parse_field (afield n ++ rest) = Some (n, rest).
Proof.
  intros H. unfold afield. destruct (n <? 255) eqn:E; cbn [app parse_field].
  - destruct (n =? 255) eqn:E2; [lia|reflexivity].
  - change (255 =? 255) with true. cbv iota. f_equal. f_equal. lia.
Qed.

(* the facts of the regenerated PCCC tables the composition needs, per file type *)
Definition mcode (ft : ftype) : Z :=
  match dict_get pccc_data_type [letter ft] with Ok [c] => c | _ => -1 end.
Definition mcodec (ft : ftype) : codec :=
  match ft with FF => CReal | FL => CSInt 4 | _ => CSInt 2 end.

Lemma table_facts ft :
  dict_get pccc_data_size [letter ft] = Ok (esize ft)
  /\ dict_get pccc_data_type [letter ft] = Ok [mcode ft]
  /\ ftype_of_code (mcode ft) = Some ft /\ 0 <= mcode ft < 255
  /\ codec_of [letter ft] = Ok (mcodec ft)
  /\ is_ct [letter ft] = is_tc ft.
Proof. destruct ft; vm_compute; repeat split; congruence. Qed.

Definition subreq (a : addr) : Z := if is_io (a_ft a) then a_sub a else 0.

Lemma wf_bounds a : wf_addr a = true ->
  0 <= a_elem a <= 255 /\ 0 <= a_file a <= 255 /\ 0 <= subreq a <= 254
  /\ 1 <= a_count a /\ 0 <= esize (a_ft a) * a_count a < 256.
Proof.
  intros H. destruct a as [ft file elem sub bit cnt]. unfold subreq. cbn [a_ft a_sub a_elem a_file a_count].
  destruct ft; destruct bit; wfacts H; cbn [is_io esize]; repeat split; try discriminate; lia.
Qed.

Theorem read_request_bytes c tns a name :
  wf_addr a = true -> 0 <= tns < 65536 ->
  read_request c tns (addr_tag a name) =
    Ok (mr_head ++ rid_of c ++ [15; 0; tns mod 256; tns / 256; 162; esize (a_ft a) * a_count a]
                ++ afield (a_file a) ++ mcode (a_ft a) :: afield (a_elem a) ++ afield (subreq a)).
Proof.
  intros Hwf Htns. destruct (wf_bounds a Hwf) as (He & Hf & Hs & Hc & Hz).
  destruct (table_facts (a_ft a)) as (T1 & T2 & _).
  unfold read_request, addr_tag, mk, pos_or_0.
  cbn [t_file_type t_file_number t_element_number t_pos_number t_element_count bind].
  rewrite UINT_ok by exact Htns. cbn [bind]. rewrite T1. cbn [bind].
  rewrite USINT_ok by exact Hz. cbn [bind]. rewrite address_field_ok by lia. cbn [bind]. rewrite T2. cbn [bind].
  rewrite address_field_ok by lia. cbn [bind].
  replace (match (if is_io (a_ft a) then Some (a_sub a) else None) with Some z => z | None => 0 end) with (subreq a)
    by (unfold subreq; destruct (is_io (a_ft a)); reflexivity).
  rewrite address_field_ok by lia. cbn [bind]. rewrite msg_start_eq.
  unfold SLC_CMD_CODE, SLC_FNC_READ. repeat (rewrite <- app_assoc; cbn [app]). reflexivity.
Qed.

(* ---------------------------------------------------------------- what the target reads in a request *)
Lemma exec_mr_head tbl c body : cfg_ok c ->
  exec_mr tbl (mr_head ++ rid_of c ++ body) =
    match exec_pccc tbl (rid_of c ++ body) with
    | Some (t', rep) => (t', [203; 0; 0; 0] ++ rep)
    | None => (tbl, [203; 0; 19; 0])
    end.
Proof.
  intros (v0 & v1 & s0 & s1 & s2 & s3 & Ev & Es). unfold rid_of. rewrite Ev, Es.
  unfold exec_mr, mr_head. cbn [app]. change (Z.to_nat (2 * 2)) with 4%nat. cbn [firstn skipn length].
  match goal with |- context [Z.of_nat ?n <? 2 * 2] => destruct (Z.of_nat n <? 2 * 2) eqn:E; [lia|] end.
  cbn [negb andb bytes_eqb PCCC_OBJECT_PATH]. reflexivity.
Qed.

Lemma parse_cmd_shape c cmd sts t0 t1 fnc size file ty elem sub rest :
  cfg_ok c -> 0 <= file < 65536 -> 0 <= elem < 65536 -> 0 <= sub < 65536 ->
  parse_cmd (rid_of c ++ [cmd; sts; t0; t1; fnc; size] ++ afield file ++ ty :: afield elem ++ afield sub ++ rest) =
    CmdOk {| pc_rid := rid_of c; pc_cmd := cmd; pc_sts := sts; pc_tns := [t0; t1]; pc_fnc := fnc;
             pc_size := size; pc_file := file; pc_type := ty; pc_elem := elem; pc_sub := sub; pc_rest := rest |}.
Proof.
  intros (v0 & v1 & s0 & s1 & s2 & s3 & Ev & Es) Hf He Hs. unfold rid_of. rewrite Ev, Es.
  unfold parse_cmd. cbn [app length]. change (Z.to_nat 7) with 7%nat. cbn [firstn skipn].
  match goal with |- context [(7 <? 1) || (Z.of_nat ?n <? 7 + 4)] =>
    destruct ((7 <? 1) || (Z.of_nat n <? 7 + 4)) eqn:E; [lia|] end.
  rewrite parse_afield by exact Hf. rewrite parse_afield by exact He. rewrite parse_afield by exact Hs.
  reflexivity.
Qed.

(* ---------------------------------------------------------------- decoding a reply *)
Lemma le_dec_le16 w : 0 <= w < 65536 -> le_dec (le16 w) = w.
Proof. intros H. unfold le16. cbn [le_dec]. lia. Qed.

Lemma s16_signed w : to_signed 2 w = s16 w.
Proof. reflexivity. Qed.

Lemma unpack_s16 w rest : word_ok w = true -> unpack (CSInt 2) (le16 w ++ rest) = Ok (VInt (s16 w)).
Proof.
  intros H. unfold word_ok in H. cbn [le16 app unpack length Nat.ltb Nat.leb firstn le_dec].
  f_equal. f_equal. change (s16 w) with (to_signed 2 w). f_equal. lia.
Qed.

Lemma unpack_s32 w0 w1 rest : word_ok w0 = true -> word_ok w1 = true ->
  unpack (CSInt 4) (le16 w0 ++ le16 w1 ++ rest) = Ok (VInt (s32 w0 w1)).
Proof.
  intros H0 H1. unfold word_ok in *. cbn [le16 app unpack length Nat.ltb Nat.leb firstn le_dec].
  f_equal. f_equal. unfold to_signed, s32. change (pow256 4) with 4294967296. cbv zeta.
  replace (w0 mod 256 + 256 * (w0 / 256 + 256 * (w1 mod 256 + 256 * (w1 / 256 + 256 * 0)))) with (w0 + 65536 * w1) by lia.
  reflexivity.
Qed.

Lemma unpack_f32 w0 w1 rest : word_ok w0 = true -> word_ok w1 = true ->
  unpack CReal (le16 w0 ++ le16 w1 ++ rest) = Ok (VF32 (w0 + 65536 * w1)).
Proof.
  intros H0 H1. unfold word_ok in *. cbn [le16 app unpack length Nat.ltb Nat.leb firstn le_dec].
  f_equal. f_equal. lia.
Qed.

Definition is16 (ft : ftype) : bool := match ft with FF | FL => false | _ => true end.

Lemma values16 ft ws : is16 ft = true -> values_of ft ws = map (fun w => VInt (s16 w)) ws.
Proof. intros H. induction ws as [|w ws IH]; destruct ft; try discriminate; cbn [values_of map]; try reflexivity; rewrite <- IH; reflexivity. Qed.

Lemma decode16 : forall ws fuel, forallb word_ok ws = true -> (length ws <= fuel)%nat ->
  map_res (unpack (CSInt 2)) (chunks fuel 2 (words_to_bytes ws)) = Ok (map (fun w => VInt (s16 w)) ws).
Proof.
  induction ws as [|w ws IH]; intros fuel H L.
  - destruct fuel; reflexivity.
  - destruct fuel as [|fuel]; [cbn in L; lia|].
    cbn [forallb] in H. apply andb_true_iff in H. destruct H as [Hw H].
    cbn [words_to_bytes]. change (le16 w ++ words_to_bytes ws) with (w mod 256 :: w / 256 :: words_to_bytes ws).
    cbn [chunks firstn skipn map_res]. 
    change [w mod 256; w / 256] with (le16 w ++ []). rewrite unpack_s16 by exact Hw. cbn [bind].
    rewrite IH by (try assumption; cbn in L; lia). reflexivity.
Qed.

Lemma ct_codes : ct_code "PRE" = Ok 1 /\ ct_code "ACC" = Ok 2.
Proof. split; reflexivity. Qed.

(* the signed view of a word has the word's low bits *)
Lemma testbit_s16 w b : 0 <= w < 65536 -> 0 <= b <= 15 -> Z.testbit (s16 w) b = Z.testbit w b.
Proof.
  intros Hw Hb. unfold s16. destruct (w <? 32768); [reflexivity|].
  rewrite <- (Z.mod_pow2_bits_low (w - 65536) 16 b) by lia.
  rewrite <- (Z.mod_pow2_bits_low w 16 b) by lia. f_equal.
  change (2 ^ 16) with 65536. rewrite <- (Z.mod_add (w - 65536) 1 65536) by lia. f_equal. lia.
Qed.

(* ---------------------------------------------------------------- the words a read request covers *)
Lemma forallb_firstn {A} (p : A -> bool) : forall n l, forallb p l = true -> forallb p (firstn n l) = true.
Proof.
  induction n as [|n IH]; intros l H; [reflexivity|]. destruct l as [|x l]; [reflexivity|].
  cbn [forallb firstn] in *. apply andb_true_iff in H. destruct H as [H1 H2]. rewrite H1. cbn. apply IH. exact H2.
Qed.
Lemma forallb_skipn {A} (p : A -> bool) : forall n l, forallb p l = true -> forallb p (skipn n l) = true.
Proof.
  induction n as [|n IH]; intros l H; [exact H|]. destruct l as [|x l]; [reflexivity|].
  cbn [forallb skipn] in *. apply andb_true_iff in H. destruct H as [H1 H2]. apply IH. exact H2.
Qed.

Lemma region_words_ok f elem sub n i ws : dfile_ok f = true -> region f elem sub n = Some (i, ws) -> forallb word_ok ws = true.
Proof.
  intros Hf Hr. destruct (region_some _ _ _ _ _ _ Hr) as (_ & Hws & _). subst ws.
  unfold dfile_ok in Hf. apply andb_true_iff in Hf. destruct Hf as [Hf _]. apply andb_true_iff in Hf. destruct Hf as [Hf _].
  apply andb_true_iff in Hf. destruct Hf as [Hf _].
  apply forallb_firstn, forallb_skipn. exact Hf.
Qed.

Lemma skipn_add {A} : forall (a b : nat) (l : list A), skipn b (skipn a l) = skipn (a + b) l.
Proof.
  induction a as [|a IH]; intros b l; [reflexivity|]. destruct l as [|x l]; [destruct b; reflexivity|]. cbn. apply IH.
Qed.

(* what the value of a read is, in terms of the words the request fetches *)
Definition decoded (a : addr) (ws : list Z) (v : sval) : Prop :=
  if is_tc (a_ft a) then
    exists w0 w1 w2, ws = [w0; w1; w2] /\
      match a_bit a with
      | Some b => v = VBool (Z.testbit w0 b)
      | None => (a_sub a = 1 /\ v = VInt (s16 w1)) \/ (a_sub a = 2 /\ v = VInt (s16 w2))
      end
  else
    match a_bit a with
    | Some b => exists w, ws = [w] /\ v = VBool (Z.testbit w b)
    | None => Z.of_nat (length ws) = vwords (a_ft a) * a_count a
              /\ v = match values_of (a_ft a) ws with [x] => x | vs => VList vs end
    end.

Definition req_words (a : addr) : Z := esize (a_ft a) * a_count a / 2.

Lemma region_whole_element f elem sub w i :
  dfile_ok f = true -> df_ew f = 3 -> region f elem sub 1 = Some (i, [w]) ->
  exists j w0 w1 w2, region f elem 0 3 = Some (j, [w0; w1; w2]) /\ nth (Z.to_nat sub) [w0; w1; w2] 0 = w /\ 0 <= sub <= 2.
Proof.
  intros Hf Hew Hr. destruct (region_some _ _ _ _ _ _ Hr) as (Hi & Hws & He & Hs & _ & Hlen & _).
  unfold dfile_ok in Hf. apply andb_true_iff in Hf. destruct Hf as [Hf _]. apply andb_true_iff in Hf. destruct Hf as [_ Hm].
  rewrite Hew in *. unfold word_index in Hi. rewrite Hew in Hi.
  assert (Hlen3 : elem * 3 + 3 <= Z.of_nat (length (df_words f))).
  { change (Z.to_nat 1) with 1%nat in Hlen. lia. }
  unfold region, word_index. rewrite Hew.
  destruct ((0 <=? elem) && (0 <=? 0) && (0 <? 3) && (0 <? 3) && (elem * 3 + 0 + 3 <=? Z.of_nat (length (df_words f)))) eqn:E; [|lia].
  set (j := Z.to_nat (elem * 3 + 0)).
  assert (Hj : (j + 3 <= length (df_words f))%nat) by lia.
  destruct (skipn j (df_words f)) as [|w0 [|w1 [|w2 r]]] eqn:Es;
    try (assert (L : length (skipn j (df_words f)) = (length (df_words f) - j)%nat) by apply skipn_length; rewrite Es in L; cbn [length] in L; lia).
  exists j, w0, w1, w2. change (Z.to_nat 3) with 3%nat. cbn [firstn]. split; [reflexivity|]. split; [|lia].
  change (Z.to_nat 1) with 1%nat in Hws.
  assert (Hi' : i = (j + Z.to_nat sub)%nat) by lia.
  assert (Hsk : skipn i (df_words f) = skipn (Z.to_nat sub) (skipn j (df_words f))).
  { rewrite Hi'. rewrite skipn_add. reflexivity. }
  rewrite Hsk, Es in Hws.
  assert (Hc : sub = 0 \/ sub = 1 \/ sub = 2) by lia.
  destruct Hc as [E0|[E0|E0]]; subst sub; cbn in Hws; inversion Hws; reflexivity.
Qed.

Lemma ftype_eqb_eq x y : ftype_eqb x y = true -> x = y.
Proof. destruct x; destruct y; cbn; congruence. Qed.

Lemma read_region tbl a v : table_ok tbl = true -> wf_addr a = true -> ref_read tbl a = Some v ->
  exists f i ws, file_for tbl a = Some f /\ region f (a_elem a) (subreq a) (req_words a) = Some (i, ws)
                 /\ forallb word_ok ws = true /\ decoded a ws v.
Proof.
  intros Ht Hwf Hr. unfold ref_read in Hr.
  destruct (file_for tbl a) as [f|] eqn:Ef; [|discriminate].
  destruct (file_for_find _ _ _ Ef) as (Hfind & Hty & Hnum).
  pose proof (find_file_ok _ _ _ Ht Hfind) as Hok.
  apply ftype_eqb_eq in Hty.
  destruct a as [ft file elem sub bit cnt]. unfold subreq, req_words, decoded.
  cbn [a_ft a_file a_elem a_sub a_bit a_count] in *.
  assert (Hew : is_tc ft = true -> df_ew f = 3).
  { intros H. unfold dfile_ok in Hok. rewrite Hty in Hok. destruct ft; try discriminate; cbn [fixed_ewords] in Hok; bools; lia. }
  destruct ft; cbn [is_tc is_io esize vwords] in *;
    (destruct bit as [b|];
     [ destruct (region f elem sub 1) as [[i ws]|] eqn:Er; [|discriminate];
       destruct ws as [|w [|? ?]]; try discriminate; inversion Hr; subst v
     | destruct (region f elem sub (_ * cnt)) as [[i ws]|] eqn:Er; [|discriminate] ]).
  (* N bit, N word, B bit, B word, F.., L.., S.., I.., O.., T.., C.. *)
  all: try (wfacts Hwf; discriminate).
  all: try (assert (sub = 0) by (wfacts Hwf; lia); subst sub).
  all: try (assert (cnt = 1) by (wfacts Hwf; lia); subst cnt).
  (* non-T/C bit forms *)
  all: try (exists f, i, [w]; split; [reflexivity|]; split; [exact Er|]; split; [eapply region_words_ok; eassumption|];
            exists w; split; reflexivity).
  (* non-T/C word forms *)
  all: try (assert (Hcnt : 1 <= cnt) by (wfacts Hwf; lia)).
  all: try (exists f, i, ws; split; [reflexivity|];
            replace (2 * cnt / 2) with (1 * cnt) by lia; replace (4 * cnt / 2) with (2 * cnt) by lia;
            replace (2 * 1 / 2) with (1 * 1) by lia;
            split; [exact Er|]; split; [eapply region_words_ok; eassumption|];
            destruct (region_some _ _ _ _ _ _ Er) as (_ & _ & _ & _ & _ & _ & Hl);
            split; [lia|];
            match type of Hr with match ?x with _ => _ end = _ => destruct x as [|? [|? ?]] end; inversion Hr; reflexivity).
  all: try (exists f, i, ws; split; [reflexivity|];
            replace (2 * 1 / 2) with (1 * 1) by lia;
            split; [exact Er|]; split; [eapply region_words_ok; eassumption|];
            destruct (region_some _ _ _ _ _ _ Er) as (_ & _ & _ & _ & _ & _ & Hl);
            split; [lia|];
            match type of Hr with match ?x with _ => _ end = _ => destruct x as [|? [|? ?]] end; inversion Hr; reflexivity).
  (* T/C *)
  all: specialize (Hew eq_refl).
  all: try (destruct (region_whole_element _ _ _ _ _ Hok Hew Er) as (j & w0 & w1 & w2 & Hj & Hn & _);
            exists f, j, [w0; w1; w2]; split; [reflexivity|]; split; [exact Hj|]; split; [eapply region_words_ok; eassumption|];
            exists w0, w1, w2; split; [reflexivity|]; cbn in Hn; subst w; reflexivity).
  all: assert (Hs : sub = 1 \/ sub = 2) by (wfacts Hwf; lia).
  all: assert (Hws : exists w, ws = [w]) by
         (destruct (region_some _ _ _ _ _ _ Er) as (_ & _ & _ & _ & _ & _ & Hl); change (Z.to_nat (1 * 1)) with 1%nat in Hl;
          destruct ws as [|w [|? ?]]; cbn in Hl; try lia; exists w; reflexivity).
  all: destruct Hws as [w ->]; cbn [values_of] in Hr; inversion Hr; subst v.
  all: change (1 * 1) with 1 in Er.
  all: destruct (region_whole_element _ _ _ _ _ Hok Hew Er) as (j & w0 & w1 & w2 & Hj & Hn & _).
  all: exists f, j, [w0; w1; w2]; (split; [reflexivity|]); (split; [exact Hj|]); (split; [eapply region_words_ok; eassumption|]).
  all: exists w0, w1, w2; (split; [reflexivity|]).
  all: destruct Hs; subst sub; cbn in Hn; subst w; [left|right]; split; reflexivity.
Qed.

(* ---------------------------------------------------------------- the Tag value built from the fetched words *)
Lemma list_ind2 {A} (P : list A -> Prop) :
  P [] -> (forall a, P [a]) -> (forall a b r, P r -> P (a :: b :: r)) -> forall l, P l.
Proof.
  intros H0 H1 H2. fix IH 1. intros [|a [|b r]]; [exact H0|apply H1|apply H2; apply IH].
Qed.

Definition v32 (ft : ftype) (a b : Z) : sval := match ft with FF => VF32 (a + 65536 * b) | _ => VInt (s32 a b) end.
Fixpoint pairs32 (ft : ftype) (n : nat) (l : list Z) : list sval :=
  match n with
  | O => []
  | S n' => match l with a :: b :: r => v32 ft a b :: pairs32 ft n' r | _ => [] end
  end.

Lemma values32 ft : is16 ft = false -> forall ws n, length ws = (2 * n)%nat -> values_of ft ws = pairs32 ft n ws.
Proof.
  intros H ws. induction ws as [| a | a b r IH] using list_ind2; intros n L.
  - destruct n; [|cbn in L; lia]. destruct ft; reflexivity.
  - cbn in L. lia.
  - destruct n as [|n]; [cbn in L; lia|]. cbn [pairs32]. rewrite <- (IH n) by (cbn in L; lia).
    destruct ft; try discriminate; reflexivity.
Qed.

Lemma unpack32 ft w0 w1 rest : is16 ft = false -> word_ok w0 = true -> word_ok w1 = true ->
  unpack (mcodec ft) (le16 w0 ++ le16 w1 ++ rest) = Ok (v32 ft w0 w1).
Proof.
  intros H H0 H1. destruct ft; try discriminate; cbn [mcodec v32]; [apply unpack_f32|apply unpack_s32]; assumption.
Qed.

Lemma decode32 ft : is16 ft = false -> forall n ws fuel, forallb word_ok ws = true -> length ws = (2 * n)%nat -> (n <= fuel)%nat ->
  map_res (unpack (mcodec ft)) (chunks fuel 4 (words_to_bytes ws)) = Ok (pairs32 ft n ws).
Proof.
  intros Hft. induction n as [|n IH]; intros ws fuel H L F.
  - destruct ws; [|cbn in L; lia]. destruct fuel; reflexivity.
  - destruct ws as [|w0 [|w1 ws]]; try (cbn in L; lia).
    destruct fuel as [|fuel]; [lia|].
    cbn [forallb] in H. apply andb_true_iff in H. destruct H as [H0 H]. apply andb_true_iff in H. destruct H as [H1 H].
    cbn [words_to_bytes].
    change (le16 w0 ++ le16 w1 ++ words_to_bytes ws) with (w0 mod 256 :: w0 / 256 :: w1 mod 256 :: w1 / 256 :: words_to_bytes ws).
    cbn [chunks firstn skipn map_res].
    change [w0 mod 256; w0 / 256; w1 mod 256; w1 / 256] with (le16 w0 ++ le16 w1 ++ []).
    rewrite (unpack32 ft) by assumption. cbn [bind].
    rewrite IH by (try assumption; cbn in L; lia). reflexivity.
Qed.

Lemma reply_value a name ws v : wf_addr a = true -> forallb word_ok ws = true -> decoded a ws v ->
  parse_read_reply (addr_tag a name) (words_to_bytes ws) = Ok v.
Proof.
  intros Hwf Hws Hd.
  destruct (table_facts (a_ft a)) as (T1 & _ & _ & _ & T5 & T6).
  destruct ct_codes as [C1 C2].
  unfold parse_read_reply, addr_tag, mk, sub_or_0.
  cbn [t_file_type t_file_number t_element_number t_pos_number t_sub_element t_address_field t_element_count].
  rewrite T1, T5, T6, C1, C2. cbn [bind].
  destruct a as [ft file elem sub bit cnt]. unfold decoded in Hd. cbn [a_ft a_file a_elem a_sub a_bit a_count] in *.
  assert (Hlenb : length (words_to_bytes ws) = (2 * length ws)%nat) by apply words_to_bytes_length.
  destruct ft; cbn [is_tc is_io esize mcodec vwords] in *.
  (* the 16-bit non-T/C files: N B S I O *)
  1,2,5,6,7: (destruct bit as [b|];
    [ destruct Hd as (w & Ew & Ev); subst ws v; cbn [forallb] in Hws; apply andb_true_iff in Hws; destruct Hws as [Hw _];
      assert (Hb : 0 <= b <= 15) by (wfacts Hwf; lia);
      change (3 =? 3) with true; cbn [andb];
      change (slice 0 (Z.to_nat 2) (words_to_bytes [w])) with (le16 w ++ []);
      rewrite unpack_s16 by exact Hw; cbn [bind get_bit];
      destruct (b <? 0) eqn:E; [lia|]; unfold word_ok in Hw; rewrite testbit_s16 by lia; reflexivity
    | destruct Hd as [Hl Ev];
      assert (Hc : 1 <= cnt) by (wfacts Hwf; lia);
      change (2 =? 3) with false; change (Z.to_nat 2 =? 0)%nat with false; change (Z.to_nat 2) with 2%nat;
      rewrite decode16 by (try assumption; lia); cbn [bind];
      rewrite values16 in Ev by reflexivity; subst v;
      destruct ws as [|x [|y l]]; [cbn [length] in Hl; lia|reflexivity|reflexivity] ]).
  (* F, L *)
  1: (destruct bit as [b|]; [wfacts Hwf; discriminate|];
    destruct Hd as [Hl Ev];
    assert (Hc : 1 <= cnt) by (wfacts Hwf; lia);
    change (2 =? 3) with false; change (Z.to_nat 4 =? 0)%nat with false; change (Z.to_nat 4) with 4%nat;
    change CReal with (mcodec FF);
    rewrite (decode32 FF eq_refl (Z.to_nat cnt)) by (try assumption; lia); cbn [bind wrap_all];
    rewrite (values32 FF eq_refl ws (Z.to_nat cnt)) in Ev by lia; subst v;
    destruct (Z.to_nat cnt) as [|n] eqn:En; [lia|];
    destruct ws as [|w0 [|w1 r]]; try (cbn [length] in Hl; lia);
    cbn [pairs32]; destruct (pairs32 _ n r); reflexivity).
  1: (destruct bit as [b|]; [wfacts Hwf; discriminate|];
    destruct Hd as [Hl Ev];
    assert (Hc : 1 <= cnt) by (wfacts Hwf; lia);
    change (2 =? 3) with false; change (Z.to_nat 4 =? 0)%nat with false; change (Z.to_nat 4) with 4%nat;
    change (CSInt 4) with (mcodec FL);
    rewrite (decode32 FL eq_refl (Z.to_nat cnt)) by (try assumption; lia); cbn [bind wrap_all];
    rewrite (values32 FL eq_refl ws (Z.to_nat cnt)) in Ev by lia; subst v;
    destruct (Z.to_nat cnt) as [|n] eqn:En; [lia|];
    destruct ws as [|w0 [|w1 r]]; try (cbn [length] in Hl; lia);
    cbn [pairs32]; destruct (pairs32 _ n r); reflexivity).
  (* T, C *)
  all: destruct Hd as (w0 & w1 & w2 & Ew & Hv); subst ws;
    cbn [forallb] in Hws; bools;
    change (3 =? 3) with true; cbn [andb];
    (destruct bit as [b|];
     [ assert (Hb : 10 <= b <= 15) by (wfacts Hwf; unfold tc_bit_ok, zin in *; lia); subst v;
       destruct (b =? 1) eqn:E1; [lia|]; destruct (b =? 2) eqn:E2; [lia|];
       change (slice 0 (Z.to_nat 6) (words_to_bytes [w0; w1; w2])) with (le16 w0 ++ le16 w1 ++ le16 w2 ++ []);
       rewrite unpack_s16 by assumption; cbn [bind get_bit];
       destruct (b <? 0) eqn:E; [lia|];
       match goal with H : word_ok w0 = true |- _ => unfold word_ok in H end; rewrite testbit_s16 by lia; reflexivity
     | destruct Hv as [[Es Ev]|[Es Ev]]; subst sub v;
       [ change (1 =? 1) with true;
         change (slice 2 (2 + Z.to_nat 6) (words_to_bytes [w0; w1; w2])) with (le16 w1 ++ le16 w2 ++ []);
         rewrite unpack_s16 by assumption; reflexivity
       | change (2 =? 1) with false; change (2 =? 2) with true;
         change (slice 4 (4 + Z.to_nat 6) (words_to_bytes [w0; w1; w2])) with (le16 w2 ++ []);
         rewrite unpack_s16 by assumption; reflexivity ] ]).
Qed.

(* ---------------------------------------------------------------- a read, end to end *)
Definition ok_tag (r : tagres) (v : sval) : Prop := tr_value r = Some v /\ tr_error r = None.

Lemma esize_even ft cnt : (esize ft * cnt) mod 2 = 0.
Proof. destruct ft; cbn [esize]; lia. Qed.

Lemma reply_layout c pre t0 t1 sts data :
  cfg_ok c -> length pre = 46%nat ->
  let rep := [203; 0; 0; 0] ++ pccc_reply (rid_of c) 15 sts [t0; t1] data in
  nth_error (pre ++ rep) 58 = Some sts /\ skipn 61 (pre ++ rep) = data.
Proof.
  intros (v0 & v1 & s0 & s1 & s2 & s3 & Ev & Es) L rep. subst rep. unfold pccc_reply, rid_of. rewrite Ev, Es.
  split.
  - rewrite nth_error_app2 by lia. rewrite L. reflexivity.
  - rewrite skipn_app. rewrite L. rewrite skipn_all2 by lia. reflexivity.
Qed.

Theorem read_effect c tbl a name v tns pre :
  cfg_ok c -> table_ok tbl = true -> wf_addr a = true ->
  0 <= tns < 65536 -> length pre = 46%nat -> ref_read tbl a = Some v ->
  exists req rep, read_request c tns (addr_tag a name) = Ok req
    /\ exec_mr tbl req = (tbl, rep)
    /\ ok_tag (read_tag_finish (addr_tag a name) (pre ++ rep)) v.
Proof.
  intros Hc Ht Hwf Htns Hpre Hr.
  destruct (wf_bounds a Hwf) as (He & Hf & Hs & Hcnt & Hz).
  destruct (read_region tbl a v Ht Hwf Hr) as (f & i & ws & Ef & Er & Hok & Hd).
  destruct (file_for_find _ _ _ Ef) as (Hfind & Hty & Hnum).
  destruct (table_facts (a_ft a)) as (_ & _ & T3 & T4 & _).
  eexists. eexists. split; [apply read_request_bytes; assumption|].
  rewrite exec_mr_head by exact Hc. unfold exec_pccc.
  rewrite <- (app_nil_r (afield (subreq a))).
  rewrite (parse_cmd_shape c 15 0 (tns mod 256) (tns / 256) 162) by (try assumption; lia).
  unfold exec_cmd, cmd_region.
  cbn [pc_rid pc_cmd pc_sts pc_tns pc_fnc pc_size pc_file pc_type pc_elem pc_sub pc_rest].
  change (negb (15 =? 15)) with false. change (162 =? 162) with true. cbv iota.
  rewrite Hfind, T3, Hty, esize_even. change (0 =? 0) with true. cbn [andb].
  change (esize (a_ft a) * a_count a / 2) with (req_words a). rewrite Er.
  split; [reflexivity|].
  destruct (reply_layout c pre (tns mod 256) (tns / 256) 0 (words_to_bytes ws) Hc Hpre) as [L1 L2]. cbv zeta in L1, L2.
  unfold ok_tag, read_tag_finish, request_status. rewrite L1. change (0 =? SUCCESS) with true. cbv iota.
  change (Z.to_nat SLC_REPLY_START) with 61%nat. rewrite L2.
  rewrite (reply_value a name ws v Hwf Hok Hd). split; reflexivity.
Qed.

(* ---------------------------------------------------------------- writes *)
(* the words a value of the file's type is made of: the spec's words_of, as the model packs them *)
Lemma pack_words ft v ws : words_of ft v = Some ws -> pack (mcodec ft) v = Ok (words_to_bytes ws).
Proof.
  unfold words_of. destruct ft; destruct v; try discriminate;
    match goal with |- (if ?c then _ else _) = _ -> _ => destruct c eqn:E; [|discriminate] end;
    intros H; inversion H; subst; cbn [mcodec pack].
  all: unfold in_srange, in_urange, of_signed;
    change (pow256 2) with 65536; change (pow256 4) with 4294967296;
    change (65536 / 2) with 32768; change (4294967296 / 2) with 2147483648;
    match goal with |- (if ?c then _ else _) = _ => destruct c eqn:?; [|lia] end;
    cbn [le_enc words_to_bytes le16 app];
    f_equal; repeat (apply (f_equal2 (@cons Z)); [lia|]); reflexivity.
Qed.

Lemma pack_words_list ft : forall vs ws, words_of_list ft vs = Some ws ->
  fold_right (fun x acc => let* a := acc in let* b := pack (mcodec ft) x in Ok (b ++ a)) (Ok []) vs
  = Ok (words_to_bytes ws).
Proof.
  induction vs as [|x vs IH]; intros ws H; cbn [words_of_list] in H.
  - inversion H; subst. reflexivity.
  - destruct (words_of ft x) as [a|] eqn:Ea; [|discriminate].
    destruct (words_of_list ft vs) as [b|] eqn:Eb; [|discriminate]. inversion H; subst.
    cbn [fold_right]. rewrite (IH b eq_refl). cbn [bind]. rewrite (pack_words _ _ _ Ea). cbn [bind].
    rewrite words_to_bytes_app. reflexivity.
Qed.

(* mask and data words of a write, as the reference interpretation has them *)
Definition wmask (a : addr) : Z := match a_bit a with Some b => 2 ^ b | None => 65535 end.
Definition wwords (a : addr) (v : sval) : option (list Z) :=
  match a_bit a with
  | Some b => Some [if truthy v then 2 ^ b else 0]
  | None => if a_count a =? 1 then words_of (a_ft a) v
            else match v with
                 | VList vs => if Z.of_nat (length vs) =? a_count a then words_of_list (a_ft a) vs else None
                 | _ => None
                 end
  end.

Lemma writeable_value_bytes a name v dws :
  wf_addr a = true -> is_tc (a_ft a) = false -> wwords a v = Some dws ->
  writeable_value (addr_tag a name) v = Ok (le16 (wmask a) ++ words_to_bytes dws).
Proof.
  intros Hwf Htc Hw.
  destruct (table_facts (a_ft a)) as (_ & _ & _ & _ & T5 & T6).
  destruct ct_codes as [C1 C2].
  destruct (wf_bounds a Hwf) as (_ & _ & _ & Hcnt & _).
  unfold writeable_value, addr_tag, mk, sub_or_0.
  cbn [t_file_type t_file_number t_element_number t_pos_number t_sub_element t_address_field t_element_count].
  rewrite Htc. unfold wmask, wwords in *.
  destruct (a_count a =? 0) eqn:E0; [lia|].
  destruct (a_bit a) as [b|] eqn:Eb.
  - assert (Hb : 0 <= b <= 15 /\ a_count a = 1).
    { destruct a as [ft file elem sub bit cnt]; cbn [a_ft a_bit a_count] in *; subst bit.
      destruct ft; try discriminate; wfacts Hwf; lia. }
    destruct Hb as [Hb Hc1]. rewrite Hc1. inversion Hw; subst dws.
    replace (if is_io (a_ft a) then Some b else Some b) with (Some b) by (destruct (is_io (a_ft a)); reflexivity).
    change (3 =? 3) with true. cbv iota. destruct (b <? 0) eqn:E; [lia|].
    assert (Hp : 0 <= 2 ^ b < 65536).
    { split; [apply Z.pow_nonneg; lia|]. change 65536 with (2 ^ 16). apply Z.pow_lt_mono_r; lia. }
    rewrite UINT_ok by exact Hp. cbn [bind]. change (1 <? 1) with false. cbv iota. cbn [bind].
    rewrite T5, C1, C2, T6, Htc. cbn [bind wrap_all andb fst snd].
    destruct (truthy v); cbn [words_to_bytes le16 app]; [reflexivity|]. reflexivity.
  - replace (match (if is_io (a_ft a) then Some 0 else None) with Some z => z | None => 0 end) with 0
      by (destruct (is_io (a_ft a)); reflexivity).
    replace (if is_io (a_ft a) then Some 0 else None) with (if is_io (a_ft a) then Some 0 else @None Z) by reflexivity.
    assert (Haf : (match (if is_io (a_ft a) then Some 0 else None) with Some _ => 2 | None => 2 end) = 2)
      by (destruct (is_io (a_ft a)); reflexivity).
    change (2 =? 3) with false. cbv iota. cbn [bind].
    destruct (a_count a =? 1) eqn:E1.
    + assert (a_count a = 1) by lia. destruct (1 <? a_count a) eqn:E2; [lia|]. cbn [bind].
      rewrite T5. cbn [bind]. rewrite (pack_words _ _ _ Hw). reflexivity.
    + destruct (1 <? a_count a) eqn:E2; [|lia].
      destruct v as [| | |vs]; try discriminate.
      destruct (Z.of_nat (length vs) =? a_count a) eqn:El; [|discriminate].
      destruct (Z.of_nat (length vs) <? a_count a) eqn:El2; [lia|]. cbn [bind].
      replace (firstn (Z.to_nat (a_count a)) vs) with vs by (symmetry; apply firstn_all2; lia).
      rewrite T5. cbn [bind]. rewrite (pack_words_list _ _ _ Hw). reflexivity.
Qed.

Theorem write_request_bytes c tns a name v dws :
  wf_addr a = true -> is_tc (a_ft a) = false -> 0 <= tns < 65536 -> wwords a v = Some dws ->
  write_request c tns (addr_tag a name) v =
    Ok (mr_head ++ rid_of c ++ [15; 0; tns mod 256; tns / 256; 171; esize (a_ft a) * a_count a]
                ++ afield (a_file a) ++ mcode (a_ft a) :: afield (a_elem a) ++ afield (subreq a)
                ++ le16 (wmask a) ++ words_to_bytes dws).
Proof.
  intros Hwf Htc Htns Hw. destruct (wf_bounds a Hwf) as (He & Hf & Hs & Hc & Hz).
  destruct (table_facts (a_ft a)) as (T1 & T2 & _).
  pose proof (writeable_value_bytes a name v dws Hwf Htc Hw) as W.
  unfold write_request. rewrite W. unfold addr_tag, mk, pos_or_0.
  cbn [t_file_type t_file_number t_element_number t_pos_number t_element_count bind].
  rewrite T1. cbn [bind]. rewrite UINT_ok by exact Htns. cbn [bind].
  rewrite USINT_ok by exact Hz. cbn [bind]. rewrite address_field_ok by lia. cbn [bind]. rewrite T2. cbn [bind].
  rewrite address_field_ok by lia. cbn [bind].
  replace (match (if is_io (a_ft a) then Some (a_sub a) else None) with Some z => z | None => 0 end) with (subreq a)
    by (unfold subreq; destruct (is_io (a_ft a)); reflexivity).
  rewrite address_field_ok by lia. cbn [bind]. rewrite msg_start_eq.
  unfold SLC_CMD_CODE, SLC_FNC_WRITE. repeat (rewrite <- app_assoc; cbn [app]). reflexivity.
Qed.

Lemma nontc_region a : wf_addr a = true -> is_tc (a_ft a) = false ->
  subreq a = a_sub a /\ req_words a = match a_bit a with Some _ => 1 | None => vwords (a_ft a) * a_count a end.
Proof.
  intros Hwf Htc. destruct a as [ft file elem sub bit cnt]. unfold subreq, req_words. cbn [a_ft a_sub a_bit a_count] in *.
  destruct ft; try discriminate; destruct bit; cbn [is_io esize vwords]; wfacts Hwf; try discriminate; split; lia.
Qed.

Definition masked (mask : Z) (old dws : list Z) : list Z :=
  map (fun od => mask_word mask (fst od) (snd od)) (combine old dws).

Lemma masked_all : forall old dws, forallb word_ok old = true -> forallb word_ok dws = true ->
  length old = length dws -> masked 65535 old dws = dws.
Proof.
  induction old as [|o old IH]; intros dws Ho Hd L; destruct dws as [|d dws]; try (cbn in L; lia); [reflexivity|].
  cbn [forallb] in *. apply andb_true_iff in Ho. destruct Ho as [Ho1 Ho]. apply andb_true_iff in Hd. destruct Hd as [Hd1 Hd].
  unfold masked. cbn [combine map fst snd]. unfold word_ok in Ho1, Hd1. rewrite mask_all by lia. f_equal.
  apply IH; try assumption. cbn in L. lia.
Qed.

Lemma words_of_list_ok ft : forall vs ws, words_of_list ft vs = Some ws -> forallb word_ok ws = true.
Proof.
  induction vs as [|x vs IH]; intros ws H; cbn [words_of_list] in H.
  - inversion H; subst. reflexivity.
  - destruct (words_of ft x) as [a|] eqn:Ea; [|discriminate].
    destruct (words_of_list ft vs) as [b|] eqn:Eb; [|discriminate]. inversion H; subst.
    rewrite forallb_app. rewrite (words_of_ok _ _ _ Ea), (IH b eq_refl). reflexivity.
Qed.

(* the reference write, in the terms of the masked write of the target *)
Lemma ref_write_masked tbl a v tbl' : table_ok tbl = true -> wf_addr a = true -> is_tc (a_ft a) = false ->
  ref_write tbl a v = Some tbl' ->
  exists f i old dws, file_for tbl a = Some f /\ region f (a_elem a) (subreq a) (req_words a) = Some (i, old)
    /\ wwords a v = Some dws /\ length dws = length old /\ forallb word_ok dws = true
    /\ tbl' = put_file tbl (set_words f (upd_words (df_words f) i (masked (wmask a) old dws))).
Proof.
  intros Ht Hwf Htc Hr. destruct (nontc_region a Hwf Htc) as [Es En]. rewrite Es, En.
  unfold ref_write in Hr. unfold wwords, wmask.
  destruct (file_for tbl a) as [f|] eqn:Ef; [|discriminate].
  destruct (file_for_find _ _ _ Ef) as (Hfind & _ & _).
  pose proof (find_file_ok _ _ _ Ht Hfind) as Hok.
  destruct (a_bit a) as [b|] eqn:Eb.
  - destruct (region f (a_elem a) (a_sub a) 1) as [[i ws]|] eqn:Er; [|discriminate].
    destruct ws as [|w [|? ?]]; try discriminate. inversion Hr; subst tbl'.
    assert (Hb : 0 <= b <= 15).
    { destruct a as [ft file elem sub bit cnt]; cbn [a_ft a_bit] in *; subst bit. destruct ft; try discriminate; wfacts Hwf; lia. }
    exists f, i, [w], [if truthy v then 2 ^ b else 0]. repeat split; try reflexivity; try exact Er.
    + assert (Hp : 0 <= 2 ^ b < 65536).
      { split; [apply Z.pow_nonneg; lia|]. change 65536 with (2 ^ 16). apply Z.pow_lt_mono_r; lia. }
      unfold forallb, word_ok. set (p := 2 ^ b) in *. clearbody p. destruct (truthy v); lia.
    + unfold masked. cbn [combine map fst snd]. destruct (truthy v); [rewrite mask_set by lia|rewrite mask_clear by lia]; reflexivity.
  - set (new := if a_count a =? 1 then words_of (a_ft a) v
                else match v with
                     | VList vs => if Z.of_nat (length vs) =? a_count a then words_of_list (a_ft a) vs else None
                     | _ => None
                     end) in *.
    destruct new as [dws|] eqn:En'; [|discriminate].
    destruct (region f (a_elem a) (a_sub a) (vwords (a_ft a) * a_count a)) as [[i old]|] eqn:Er; [|discriminate].
    inversion Hr; subst tbl'.
    destruct (region_some _ _ _ _ _ _ Er) as (_ & _ & _ & _ & Hpos & _ & Hl).
    assert (Hk : length dws = Z.to_nat (vwords (a_ft a) * a_count a) /\ forallb word_ok dws = true).
    { subst new. destruct (a_count a =? 1) eqn:Ec.
      - pose proof (words_of_len _ _ _ En'). assert (a_count a = 1) by lia. split; [lia|eapply words_of_ok; eassumption].
      - destruct v; try discriminate. destruct (Z.of_nat (length vs) =? a_count a) eqn:El; [|discriminate].
        pose proof (words_of_list_len _ _ _ En'). assert (Z.of_nat (length vs) = a_count a) by lia.
        split; [nia|eapply words_of_list_ok; eassumption]. }
    destruct Hk as [Hk Hdok].
    exists f, i, old, dws. repeat split; try reflexivity; try assumption; [lia|].
    rewrite masked_all; [reflexivity| |exact Hdok|lia].
    eapply region_words_ok; eassumption.
Qed.

Theorem write_effect c tbl a name v tns pre tbl' :
  cfg_ok c -> table_ok tbl = true -> wf_addr a = true -> is_tc (a_ft a) = false ->
  0 <= tns < 65536 -> length pre = 46%nat ->
  ref_write tbl a v = Some tbl' ->
  exists req rep, write_request c tns (addr_tag a name) v = Ok req
    /\ exec_mr tbl req = (tbl', rep)
    /\ ok_tag (write_tag_finish (addr_tag a name) v (pre ++ rep)) v.
Proof.
  intros Hc Ht Hwf Htc Htns Hpre Hr.
  destruct (wf_bounds a Hwf) as (He & Hf & Hs & Hcnt & Hz).
  destruct (ref_write_masked tbl a v tbl' Ht Hwf Htc Hr) as (f & i & old & dws & Ef & Er & Hw & Hl & Hdok & Et).
  destruct (file_for_find _ _ _ Ef) as (Hfind & Hty & Hnum).
  destruct (table_facts (a_ft a)) as (_ & _ & T3 & T4 & _).
  eexists. eexists. split; [apply write_request_bytes; eassumption|].
  rewrite exec_mr_head by exact Hc. unfold exec_pccc.
  repeat (rewrite <- app_assoc; cbn [app]).
  rewrite (parse_cmd_shape c 15 0 (tns mod 256) (tns / 256) 171) by (try assumption; lia).
  unfold exec_cmd, cmd_region.
  cbn [pc_rid pc_cmd pc_sts pc_tns pc_fnc pc_size pc_file pc_type pc_elem pc_sub pc_rest].
  change (negb (15 =? 15)) with false. change (171 =? 162) with false. change (171 =? 171) with true. cbv iota.
  cbn [le16 app].
  rewrite Hfind, T3, Hty, esize_even. change (0 =? 0) with true. cbn [andb].
  change (esize (a_ft a) * a_count a / 2) with (req_words a). rewrite Er.
  assert (Hlen : Z.of_nat (length (words_to_bytes dws)) = esize (a_ft a) * a_count a).
  { rewrite words_to_bytes_length, Hl. destruct (region_some _ _ _ _ _ _ Er) as (_ & _ & _ & _ & Hp & _ & Hlo). rewrite Hlo.
    unfold req_words in *. pose proof (esize_even (a_ft a) (a_count a)). lia. }
  rewrite Hlen, Z.eqb_refl.
  assert (Hm : wmask a mod 256 + 256 * (wmask a / 256) = wmask a) by lia. rewrite Hm.
  rewrite bytes_words by exact Hdok.
  split; [rewrite Et; reflexivity|].
  destruct (reply_layout c pre (tns mod 256) (tns / 256) 0 [] Hc Hpre) as [L1 _]. cbv zeta in L1. cbn [app] in L1.
  unfold ok_tag, write_tag_finish, request_status. rewrite L1. change (0 =? SUCCESS) with true. cbv iota. split; reflexivity.
Qed.

(* ---------------------------------------------------------------- spelling-level theorems *)
Definition cmd_names (cmd : pccc_cmd) (c : cfg) (a : addr) (fnc tns : Z) : Prop :=
  pc_fnc cmd = fnc /\ pc_cmd cmd = 15 /\ pc_file cmd = a_file a /\ ftype_of_code (pc_type cmd) = Some (a_ft a)
  /\ pc_elem cmd = a_elem a /\ pc_sub cmd = subreq a /\ pc_size cmd = esize (a_ft a) * a_count a
  /\ pc_rid cmd = rid_of c /\ pc_tns cmd = [tns mod 256; tns / 256].

Lemma target_view_head c body : cfg_ok c -> target_view (mr_head ++ rid_of c ++ body) =
  match parse_cmd (rid_of c ++ body) with CmdOk x => Some x | _ => None end.
Proof. intros _. reflexivity. Qed.

Theorem request_names_read c sp a tns :
  cfg_ok c -> wf_addr a = true -> wf_spelling sp a = true -> 0 <= tns < 65536 ->
  exists t req cmd, read_tag_request c tns (render sp a) = RqOk (t, req)
    /\ target_view req = Some cmd /\ cmd_names cmd c a 162 tns /\ pc_rest cmd = [].
Proof.
  intros Hc Hwf Hsp Htns.
  destruct (parse_addr sp a Hwf Hsp) as [name P].
  destruct (wf_bounds a Hwf) as (He & Hf & Hs & _).
  destruct (table_facts (a_ft a)) as (_ & _ & T3 & _).
  unfold read_tag_request, with_tag. rewrite P. rewrite read_request_bytes by assumption.
  eexists. eexists. eexists. split; [reflexivity|].
  rewrite target_view_head by exact Hc.
  rewrite <- (app_nil_r (afield (subreq a))).
  rewrite (parse_cmd_shape c 15 0 (tns mod 256) (tns / 256) 162) by (try assumption; lia).
  split; [reflexivity|]. unfold cmd_names. cbn [pc_rid pc_cmd pc_tns pc_fnc pc_size pc_file pc_type pc_elem pc_sub pc_rest].
  repeat split; try reflexivity. exact T3.
Qed.

Theorem request_names_write c sp a tns v dws :
  cfg_ok c -> wf_addr a = true -> wf_spelling sp a = true -> is_tc (a_ft a) = false ->
  0 <= tns < 65536 -> wwords a v = Some dws ->
  exists t req cmd, write_tag_request c tns (render sp a) v = RqOk (t, req)
    /\ target_view req = Some cmd /\ cmd_names cmd c a 171 tns
    /\ pc_rest cmd = le16 (wmask a) ++ words_to_bytes dws.
Proof.
  intros Hc Hwf Hsp Htc Htns Hw.
  destruct (parse_addr sp a Hwf Hsp) as [name P].
  destruct (wf_bounds a Hwf) as (He & Hf & Hs & _).
  destruct (table_facts (a_ft a)) as (_ & _ & T3 & _).
  unfold write_tag_request, with_tag. rewrite P. rewrite (write_request_bytes c tns a name v dws) by assumption.
  eexists. eexists. eexists. split; [reflexivity|].
  rewrite target_view_head by exact Hc.
  repeat (rewrite <- app_assoc; cbn [app]).
  rewrite (parse_cmd_shape c 15 0 (tns mod 256) (tns / 256) 171) by (try assumption; lia).
  split; [reflexivity|]. unfold cmd_names. cbn [pc_rid pc_cmd pc_tns pc_fnc pc_size pc_file pc_type pc_elem pc_sub pc_rest].
  repeat split; try reflexivity. exact T3.
Qed.

Theorem read_correct c tbl sp a v tns pre :
  cfg_ok c -> table_ok tbl = true -> wf_addr a = true -> wf_spelling sp a = true ->
  0 <= tns < 65536 -> length pre = 46%nat ->
  ref_read tbl a = Some v ->
  exists t req rep, read_tag_request c tns (render sp a) = RqOk (t, req)
    /\ exec_mr tbl req = (tbl, rep) /\ ok_tag (read_tag_finish t (pre ++ rep)) v.
Proof.
  intros Hc Ht Hwf Hsp Htns Hpre Hr.
  destruct (parse_addr sp a Hwf Hsp) as [name P].
  destruct (read_effect c tbl a name v tns pre Hc Ht Hwf Htns Hpre Hr) as (req & rep & R1 & R2 & R3).
  exists (addr_tag a name), req, rep. unfold read_tag_request, with_tag. rewrite P, R1. auto.
Qed.

Theorem write_then_read c tbl sp a v tns tns' pre pre' tbl' :
  cfg_ok c -> table_ok tbl = true -> wf_addr a = true -> wf_spelling sp a = true -> is_tc (a_ft a) = false ->
  0 <= tns < 65536 -> 0 <= tns' < 65536 ->
  length pre = 46%nat -> length pre' = 46%nat ->
  ref_write tbl a v = Some tbl' ->
  exists t wreq wrep rreq rrep,
    write_tag_request c tns (render sp a) v = RqOk (t, wreq)
    /\ exec_mr tbl wreq = (tbl', wrep) /\ ok_tag (write_tag_finish t v (pre ++ wrep)) v
    /\ read_tag_request c tns' (render sp a) = RqOk (t, rreq)
    /\ exec_mr tbl' rreq = (tbl', rrep) /\ ok_tag (read_tag_finish t (pre' ++ rrep)) (norm a v).
Proof.
  intros Hc Ht Hwf Hsp Htc Htns Htns' Hpre Hpre' Hw.
  destruct (parse_addr sp a Hwf Hsp) as [name P].
  destruct (write_effect c tbl a name v tns pre tbl' Hc Ht Hwf Htc Htns Hpre Hw) as (wreq & wrep & W1 & W2 & W3).
  assert (Hbit : match a_bit a with Some b => 0 <= b <= 15 | None => True end).
  { destruct a as [ft file elem sub bit cnt]. cbn [a_bit a_ft] in *. destruct bit as [b|]; [|exact I].
    destruct ft; try discriminate; wfacts Hwf; lia. }
  assert (Ht' : table_ok tbl' = true) by (eapply ref_write_ok; eassumption).
  assert (Hrr : ref_read tbl' a = Some (norm a v)).
  { eapply ref_write_read; [eassumption|]. destruct (a_bit a); [lia|exact I]. }
  destruct (read_effect c tbl' a name (norm a v) tns' pre' Hc Ht' Hwf Htns' Hpre' Hrr) as (rreq & rrep & R1 & R2 & R3).
  exists (addr_tag a name), wreq, wrep, rreq, rrep.
  unfold write_tag_request, read_tag_request, with_tag. rewrite P, W1, R1. auto 10.
Qed.

Theorem none_is_request_error c tns s v :
  parse_tag s = PNone ->
  read_tag_request c tns s = RqErr RequestError /\ write_tag_request c tns s v = RqErr RequestError.
Proof. intros H. unfold read_tag_request, write_tag_request, with_tag. rewrite H. split; reflexivity. Qed.
