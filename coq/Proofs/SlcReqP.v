(* Proofs/SlcReqP.v — the model of SLCDriver.read / write (Model/Slc.v) composed with the reference
   target (Spec/SlcTarget.v), against the reference interpretation of the address:
     [read_request_shape] / [write_request_shape] : the bytes the model emits, and what the
         target's own parser reads in them (file, type, element, sub-element, size);
     [read_effect]  : the Tag the model builds from the target's reply carries ref_read;
     [write_effect] : the target's table after the model's write request is ref_write. *)
From Coq Require Import String.
From PV Require Import Base.Bytes Base.BytesLemmas Base.Proto Base.Res Base.PyStr Model.Regex Model.SlcVal Model.Slc.
From PV Require Import Gen.SlcTables Gen.Status Spec.SlcTarget.
From PV Require Import Proofs.RegexP Proofs.SlcParseP Proofs.SlcAddrP Proofs.SlcTargetP.
From Coq Require Import ZifyBool.
Open Scope Z_scope.
Ltac Zify.zify_post_hook ::= Z.to_euclidean_division_equations.

Definition cfg_ok (c : cfg) : Prop :=
  exists v0 v1 s0 s1 s2 s3, c_vid c = [v0; v1] /\ c_vsn c = [s0; s1; s2; s3].

Definition rid_of (c : cfg) : bytes := 7 :: c_vid c ++ c_vsn c.
Definition mr_head : bytes := [75; 2; 32; 103; 36; 1].

Lemma msg_start_eq c : msg_start c = mr_head ++ rid_of c.
Proof. reflexivity. Qed.

Lemma USINT_ok z : 0 <= z < 256 -> USINT_encode z = Ok [z].
Proof. intros H. unfold USINT_encode, in_urange. change (pow256 1) with 256. destruct ((0 <=? z) && (z <? 256)) eqn:E; [reflexivity|lia]. Qed.
Lemma UINT_ok z : 0 <= z < 65536 -> UINT_encode z = Ok [z mod 256; z / 256].
Proof.
  intros H. unfold UINT_encode, in_urange. change (pow256 2) with 65536.
  destruct ((0 <=? z) && (z <? 65536)) eqn:E; [|lia]. cbn [le_enc]. f_equal. f_equal. f_equal. lia.
Qed.

(* the facts of the regenerated PCCC tables the composition needs, per file type *)
Definition mcode (ft : ftype) : Z :=
  match dict_get pccc_data_type [letter ft] with Ok [c] => c | _ => -1 end.
Definition mcodec (ft : ftype) : codec :=
  match ft with FF => CReal | FL => CSInt 4 | _ => CSInt 2 end.

Lemma table_facts ft :
  dict_get pccc_data_size [letter ft] = Ok (esize ft)
  /\ dict_get pccc_data_type [letter ft] = Ok [mcode ft]
  /\ ftype_of_code (mcode ft) = Some ft /\ 0 <= mcode ft < 255
  /\ codec_of [letter ft] = Ok (mcodec ft)
  /\ is_ct [letter ft] = is_tc ft.
Proof. destruct ft; vm_compute; repeat split; congruence. Qed.

Definition subreq (a : addr) : Z := if is_io (a_ft a) then a_sub a else 0.

Lemma wf_bounds a : wf_addr a = true ->
  0 <= a_elem a <= 255 /\ 0 <= a_file a <= 255 /\ 0 <= subreq a <= 254
  /\ 1 <= a_count a /\ 0 <= esize (a_ft a) * a_count a < 256.
Proof.
  intros H. destruct a as [ft file elem sub bit cnt]. unfold subreq. cbn [a_ft a_sub a_elem a_file a_count].
  destruct ft; destruct bit; wfacts H; cbn [is_io esize]; repeat split; try discriminate; lia.
Qed.

Theorem read_request_bytes c tns a name :
  wf_addr a = true -> 0 <= tns < 65536 ->
  read_request c tns (addr_tag a name) =
    Ok (mr_head ++ rid_of c ++ [15; 0; tns mod 256; tns / 256; 162;
                                esize (a_ft a) * a_count a; a_file a; mcode (a_ft a); a_elem a; subreq a]).
Proof.
  intros Hwf Htns. destruct (wf_bounds a Hwf) as (He & Hf & Hs & Hc & Hz).
  destruct (table_facts (a_ft a)) as (T1 & T2 & _).
  unfold read_request, addr_tag, mk, pos_or_0.
  cbn [t_file_type t_file_number t_element_number t_pos_number t_element_count bind].
  rewrite UINT_ok by exact Htns. cbn [bind]. rewrite T1. cbn [bind].
  rewrite USINT_ok by exact Hz. cbn [bind]. rewrite USINT_ok by lia. cbn [bind]. rewrite T2. cbn [bind].
  rewrite USINT_ok by lia. cbn [bind].
  replace (match (if is_io (a_ft a) then Some (a_sub a) else None) with Some z => z | None => 0 end) with (subreq a)
    by (unfold subreq; destruct (is_io (a_ft a)); reflexivity).
  rewrite USINT_ok by lia. cbn [bind]. rewrite msg_start_eq.
  unfold SLC_CMD_CODE, SLC_FNC_READ. rewrite <- !app_assoc. reflexivity.
Qed.

(* ---------------------------------------------------------------- what the target reads in a request *)
Lemma exec_mr_head tbl c body : cfg_ok c ->
  exec_mr tbl (mr_head ++ rid_of c ++ body) =
    match exec_pccc tbl (rid_of c ++ body) with
    | Some (t', rep) => (t', [203; 0; 0; 0] ++ rep)
    | None => (tbl, [203; 0; 19; 0])
    end.
Proof.
  intros (v0 & v1 & s0 & s1 & s2 & s3 & Ev & Es). unfold rid_of. rewrite Ev, Es.
  unfold exec_mr, mr_head. cbn [app]. change (Z.to_nat (2 * 2)) with 4%nat. cbn [firstn skipn length].
  match goal with |- context [Z.of_nat ?n <? 2 * 2] => destruct (Z.of_nat n <? 2 * 2) eqn:E; [lia|] end.
  cbn [negb andb bytes_eqb PCCC_OBJECT_PATH]. reflexivity.
Qed.

Lemma parse_cmd_shape c cmd sts t0 t1 fnc size file ty elem sub rest :
  cfg_ok c -> file <> 255 -> elem <> 255 -> sub <> 255 ->
  parse_cmd (rid_of c ++ [cmd; sts; t0; t1; fnc; size; file; ty; elem; sub] ++ rest) =
    CmdOk {| pc_rid := rid_of c; pc_cmd := cmd; pc_sts := sts; pc_tns := [t0; t1]; pc_fnc := fnc;
             pc_size := size; pc_file := file; pc_type := ty; pc_elem := elem; pc_sub := sub; pc_rest := rest |}.
Proof.
  intros (v0 & v1 & s0 & s1 & s2 & s3 & Ev & Es) Hf He Hs. unfold rid_of. rewrite Ev, Es.
  unfold parse_cmd. cbn [app length]. change (Z.to_nat 7) with 7%nat. cbn [firstn skipn].
  match goal with |- context [(7 <? 1) || (Z.of_nat ?n <? 7 + 4)] =>
    destruct ((7 <? 1) || (Z.of_nat n <? 7 + 4)) eqn:E; [lia|] end.
  unfold parse_field.
  destruct (file =? 255) eqn:E1; [lia|]. destruct (elem =? 255) eqn:E2; [lia|]. destruct (sub =? 255) eqn:E3; [lia|].
  reflexivity.
Qed.

(* ---------------------------------------------------------------- decoding a reply *)
Lemma le_dec_le16 w : 0 <= w < 65536 -> le_dec (le16 w) = w.
Proof. intros H. unfold le16. cbn [le_dec]. lia. Qed.

Lemma s16_signed w : to_signed 2 w = s16 w.
Proof. reflexivity. Qed.

Lemma unpack_s16 w rest : word_ok w = true -> unpack (CSInt 2) (le16 w ++ rest) = Ok (VInt (s16 w)).
Proof.
  intros H. unfold word_ok in H. cbn [le16 app unpack length Nat.ltb Nat.leb firstn le_dec].
  f_equal. f_equal. change (s16 w) with (to_signed 2 w). f_equal. lia.
Qed.

Lemma unpack_s32 w0 w1 rest : word_ok w0 = true -> word_ok w1 = true ->
  unpack (CSInt 4) (le16 w0 ++ le16 w1 ++ rest) = Ok (VInt (s32 w0 w1)).
Proof.
  intros H0 H1. unfold word_ok in *. cbn [le16 app unpack length Nat.ltb Nat.leb firstn le_dec].
  f_equal. f_equal. unfold to_signed, s32. change (pow256 4) with 4294967296. cbv zeta.
  replace (w0 mod 256 + 256 * (w0 / 256 + 256 * (w1 mod 256 + 256 * (w1 / 256 + 256 * 0)))) with (w0 + 65536 * w1) by lia.
  reflexivity.
Qed.

Lemma unpack_f32 w0 w1 rest : word_ok w0 = true -> word_ok w1 = true ->
  unpack CReal (le16 w0 ++ le16 w1 ++ rest) = Ok (VF32 (w0 + 65536 * w1)).
Proof.
  intros H0 H1. unfold word_ok in *. cbn [le16 app unpack length Nat.ltb Nat.leb firstn le_dec].
  f_equal. f_equal. lia.
Qed.

Definition is16 (ft : ftype) : bool := match ft with FF | FL => false | _ => true end.

Lemma values16 ft ws : is16 ft = true -> values_of ft ws = map (fun w => VInt (s16 w)) ws.
Proof. intros H. induction ws as [|w ws IH]; destruct ft; try discriminate; cbn [values_of map]; try reflexivity; rewrite <- IH; reflexivity. Qed.

Lemma decode16 : forall ws fuel, forallb word_ok ws = true -> (length ws <= fuel)%nat ->
  map_res (unpack (CSInt 2)) (chunks fuel 2 (words_to_bytes ws)) = Ok (map (fun w => VInt (s16 w)) ws).
Proof.
  induction ws as [|w ws IH]; intros fuel H L.
  - destruct fuel; reflexivity.
  - destruct fuel as [|fuel]; [cbn in L; lia|].
    cbn [forallb] in H. apply andb_true_iff in H. destruct H as [Hw H].
    cbn [words_to_bytes]. change (le16 w ++ words_to_bytes ws) with (w mod 256 :: w / 256 :: words_to_bytes ws).
    cbn [chunks firstn skipn map_res]. 
    change [w mod 256; w / 256] with (le16 w ++ []). rewrite unpack_s16 by exact Hw. cbn [bind].
    rewrite IH by (try assumption; cbn in L; lia). reflexivity.
Qed.

Lemma decode32 (c : codec) (mkv : Z -> Z -> sval) :
  (forall w0 w1 rest, word_ok w0 = true -> word_ok w1 = true -> unpack c (le16 w0 ++ le16 w1 ++ rest) = Ok (mkv w0 w1)) ->
  forall n ws fuel, forallb word_ok ws = true -> length ws = (2 * n)%nat -> (n <= fuel)%nat ->
  exists vs, map_res (unpack c) (chunks fuel 4 (words_to_bytes ws)) = Ok vs
    /\ vs = (fix go (l : list Z) := match l with a :: b :: r => mkv a b :: go r | _ => [] end) ws.
Proof.
  intros Hu. induction n as [|n IH]; intros ws fuel H L F.
  - destruct ws; [|cbn in L; lia]. exists []. destruct fuel; split; reflexivity.
  - destruct ws as [|w0 [|w1 ws]]; try (cbn in L; lia).
    destruct fuel as [|fuel]; [lia|].
    cbn [forallb] in H. apply andb_true_iff in H. destruct H as [H0 H]. apply andb_true_iff in H. destruct H as [H1 H].
    destruct (IH ws fuel H ltac:(cbn in L; lia) ltac:(lia)) as (vs & E & Evs).
    exists (mkv w0 w1 :: vs). split.
    + cbn [words_to_bytes].
      change (le16 w0 ++ le16 w1 ++ words_to_bytes ws) with (w0 mod 256 :: w0 / 256 :: w1 mod 256 :: w1 / 256 :: words_to_bytes ws).
      cbn [chunks firstn skipn map_res].
      change [w0 mod 256; w0 / 256; w1 mod 256; w1 / 256] with (le16 w0 ++ le16 w1 ++ []).
      rewrite Hu by assumption. cbn [bind]. rewrite E. reflexivity.
    + rewrite Evs. reflexivity.
Qed.

Lemma ct_codes : ct_code "PRE" = Ok 1 /\ ct_code "ACC" = Ok 2.
Proof. split; reflexivity. Qed.

(* the signed view of a word has the word's low bits *)
Lemma testbit_s16 w b : 0 <= w < 65536 -> 0 <= b <= 15 -> Z.testbit (s16 w) b = Z.testbit w b.
Proof.
  intros Hw Hb. unfold s16. destruct (w <? 32768); [reflexivity|].
  rewrite <- (Z.mod_pow2_bits_low (w - 65536) 16 b) by lia.
  rewrite <- (Z.mod_pow2_bits_low w 16 b) by lia. f_equal.
  change (2 ^ 16) with 65536. rewrite <- (Z.mod_add (w - 65536) 1 65536) by lia. f_equal. lia.
Qed.

(* ---------------------------------------------------------------- the words a read request covers *)
Lemma forallb_firstn {A} (p : A -> bool) : forall n l, forallb p l = true -> forallb p (firstn n l) = true.
Proof.
  induction n as [|n IH]; intros l H; [reflexivity|]. destruct l as [|x l]; [reflexivity|].
  cbn [forallb firstn] in *. apply andb_true_iff in H. destruct H as [H1 H2]. rewrite H1. cbn. apply IH. exact H2.
Qed.
Lemma forallb_skipn {A} (p : A -> bool) : forall n l, forallb p l = true -> forallb p (skipn n l) = true.
Proof.
  induction n as [|n IH]; intros l H; [exact H|]. destruct l as [|x l]; [reflexivity|].
  cbn [forallb skipn] in *. apply andb_true_iff in H. destruct H as [H1 H2]. apply IH. exact H2.
Qed.

Lemma region_words_ok f elem sub n i ws : dfile_ok f = true -> region f elem sub n = Some (i, ws) -> forallb word_ok ws = true.
Proof.
  intros Hf Hr. destruct (region_some _ _ _ _ _ _ Hr) as (_ & Hws & _). subst ws.
  unfold dfile_ok in Hf. apply andb_true_iff in Hf. destruct Hf as [Hf _]. apply andb_true_iff in Hf. destruct Hf as [Hf _].
  apply andb_true_iff in Hf. destruct Hf as [Hf _].
  apply forallb_firstn, forallb_skipn. exact Hf.
Qed.

Lemma skipn_add {A} : forall (a b : nat) (l : list A), skipn b (skipn a l) = skipn (a + b) l.
Proof.
  induction a as [|a IH]; intros b l; [reflexivity|]. destruct l as [|x l]; [destruct b; reflexivity|]. cbn. apply IH.
Qed.

(* what the value of a read is, in terms of the words the request fetches *)
Definition decoded (a : addr) (ws : list Z) (v : sval) : Prop :=
  if is_tc (a_ft a) then
    exists w0 w1 w2, ws = [w0; w1; w2] /\
      match a_bit a with
      | Some b => v = VBool (Z.testbit w0 b)
      | None => (a_sub a = 1 /\ v = VInt (s16 w1)) \/ (a_sub a = 2 /\ v = VInt (s16 w2))
      end
  else
    match a_bit a with
    | Some b => exists w, ws = [w] /\ v = VBool (Z.testbit w b)
    | None => Z.of_nat (length ws) = vwords (a_ft a) * a_count a
              /\ v = match values_of (a_ft a) ws with [x] => x | vs => VList vs end
    end.

Definition req_words (a : addr) : Z := esize (a_ft a) * a_count a / 2.

Lemma region_whole_element f elem sub w i :
  dfile_ok f = true -> df_ew f = 3 -> region f elem sub 1 = Some (i, [w]) ->
  exists j w0 w1 w2, region f elem 0 3 = Some (j, [w0; w1; w2]) /\ nth (Z.to_nat sub) [w0; w1; w2] 0 = w /\ 0 <= sub <= 2.
Proof.
  intros Hf Hew Hr. destruct (region_some _ _ _ _ _ _ Hr) as (Hi & Hws & He & Hs & _ & Hlen & _).
  unfold dfile_ok in Hf. apply andb_true_iff in Hf. destruct Hf as [Hf _]. apply andb_true_iff in Hf. destruct Hf as [_ Hm].
  rewrite Hew in *. unfold word_index in Hi. rewrite Hew in Hi.
  assert (Hlen3 : elem * 3 + 3 <= Z.of_nat (length (df_words f))).
  { change (Z.to_nat 1) with 1%nat in Hlen. lia. }
  unfold region, word_index. rewrite Hew.
  destruct ((0 <=? elem) && (0 <=? 0) && (0 <? 3) && (0 <? 3) && (elem * 3 + 0 + 3 <=? Z.of_nat (length (df_words f)))) eqn:E; [|lia].
  set (j := Z.to_nat (elem * 3 + 0)).
  assert (Hj : (j + 3 <= length (df_words f))%nat) by lia.
  destruct (skipn j (df_words f)) as [|w0 [|w1 [|w2 r]]] eqn:Es;
    try (assert (L : length (skipn j (df_words f)) = (length (df_words f) - j)%nat) by apply skipn_length; rewrite Es in L; cbn [length] in L; lia).
  exists j, w0, w1, w2. change (Z.to_nat 3) with 3%nat. cbn [firstn]. split; [reflexivity|]. split; [|lia].
  change (Z.to_nat 1) with 1%nat in Hws.
  assert (Hi' : i = (j + Z.to_nat sub)%nat) by lia.
  assert (Hsk : skipn i (df_words f) = skipn (Z.to_nat sub) (skipn j (df_words f))).
  { rewrite Hi'. rewrite skipn_add. reflexivity. }
  rewrite Hsk, Es in Hws.
  assert (Hc : sub = 0 \/ sub = 1 \/ sub = 2) by lia.
  destruct Hc as [E0|[E0|E0]]; subst sub; cbn in Hws; inversion Hws; reflexivity.
Qed.

Lemma ftype_eqb_eq x y : ftype_eqb x y = true -> x = y.
Proof. destruct x; destruct y; cbn; congruence. Qed.

Lemma read_region tbl a v : table_ok tbl = true -> wf_addr a = true -> ref_read tbl a = Some v ->
  exists f i ws, file_for tbl a = Some f /\ region f (a_elem a) (subreq a) (req_words a) = Some (i, ws)
                 /\ forallb word_ok ws = true /\ decoded a ws v.
Proof.
  intros Ht Hwf Hr. unfold ref_read in Hr.
  destruct (file_for tbl a) as [f|] eqn:Ef; [|discriminate].
  destruct (file_for_find _ _ _ Ef) as (Hfind & Hty & Hnum).
  pose proof (find_file_ok _ _ _ Ht Hfind) as Hok.
  apply ftype_eqb_eq in Hty.
  destruct a as [ft file elem sub bit cnt]. unfold subreq, req_words, decoded.
  cbn [a_ft a_file a_elem a_sub a_bit a_count] in *.
  assert (Hew : is_tc ft = true -> df_ew f = 3).
  { intros H. unfold dfile_ok in Hok. rewrite Hty in Hok. destruct ft; try discriminate; cbn [fixed_ewords] in Hok; bools; lia. }
  destruct ft; cbn [is_tc is_io esize vwords] in *;
    (destruct bit as [b|];
     [ destruct (region f elem sub 1) as [[i ws]|] eqn:Er; [|discriminate];
       destruct ws as [|w [|? ?]]; try discriminate; inversion Hr; subst v
     | destruct (region f elem sub (_ * cnt)) as [[i ws]|] eqn:Er; [|discriminate] ]).
  (* N bit, N word, B bit, B word, F.., L.., S.., I.., O.., T.., C.. *)
  all: try (wfacts Hwf; discriminate).
  all: try (assert (sub = 0) by (wfacts Hwf; lia); subst sub).
  all: try (assert (cnt = 1) by (wfacts Hwf; lia); subst cnt).
  (* non-T/C bit forms *)
  all: try (exists f, i, [w]; split; [reflexivity|]; split; [exact Er|]; split; [eapply region_words_ok; eassumption|];
            exists w; split; reflexivity).
  (* non-T/C word forms *)
  all: try (exists f, i, ws; split; [reflexivity|];
            replace (2 * cnt / 2) with (1 * cnt) by lia; replace (4 * cnt / 2) with (2 * cnt) by lia;
            replace (2 * 1 / 2) with (1 * 1) by lia;
            split; [exact Er|]; split; [eapply region_words_ok; eassumption|];
            destruct (region_some _ _ _ _ _ _ Er) as (_ & _ & _ & _ & _ & _ & Hl);
            split; [lia|]; inversion Hr; reflexivity).
  (* T/C *)
  all: specialize (Hew eq_refl).
  all: try (destruct (region_whole_element _ _ _ _ _ Hok Hew Er) as (j & w0 & w1 & w2 & Hj & Hn & _);
            exists f, j, [w0; w1; w2]; split; [reflexivity|]; split; [exact Hj|]; split; [eapply region_words_ok; eassumption|];
            exists w0, w1, w2; split; [reflexivity|]; cbn in Hn; subst w; reflexivity).
  all: assert (Hs : sub = 1 \/ sub = 2) by (wfacts Hwf; lia).
  all: assert (Hws : exists w, ws = [w]) by
         (destruct (region_some _ _ _ _ _ _ Er) as (_ & _ & _ & _ & _ & _ & Hl); change (Z.to_nat (1 * 1)) with 1%nat in Hl;
          destruct ws as [|w [|? ?]]; cbn in Hl; try lia; exists w; reflexivity).
  all: destruct Hws as [w ->]; cbn [values_of] in Hr; inversion Hr; subst v.
  all: change (1 * 1) with 1 in Er.
  all: destruct (region_whole_element _ _ _ _ _ Hok Hew Er) as (j & w0 & w1 & w2 & Hj & Hn & _).
  all: exists f, j, [w0; w1; w2]; (split; [reflexivity|]); (split; [exact Hj|]); (split; [eapply region_words_ok; eassumption|]).
  all: exists w0, w1, w2; (split; [reflexivity|]).
  all: destruct Hs; subst sub; cbn in Hn; subst w; [left|right]; split; reflexivity.
Qed.
