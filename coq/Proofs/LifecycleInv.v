(* Proofs/LifecycleInv.v — the invariant of every run (any fault schedule: since a failed send or
   receive abandons the transport, no reply is ever left in the socket for a later request): the
   driver's idea of its connection agrees with the target's
   tables, every SendUnitData frame delivered finds its session and connection, and a standard
   Forward Open is only attempted after a Large one the target did not grant (property C10). *)
From Coq Require Import ZifyBool.
From PV Require Import Base.Bytes Base.BytesLemmas Base.Res.
From PV Require Import Gen.Consts Gen.LifecycleGen Gen.SeqGen.
From PV Require Import Spec.EncapParser Spec.MRParser Spec.TargetIface Spec.TargetCore.
From PV Require Import Proofs.TargetCoreP Proofs.LifecycleTarget Model.Lifecycle Proofs.LifecycleP.
Open Scope Z_scope.
Ltac Zify.zify_post_hook ::= Z.to_euclidean_division_equations.

(* ================================================================ Forward Open sizes, as the target's parsers read them *)
Definition fo_sizes (fr : bytes) : option (bool * Z * Z) :=
  match parse_frame fr with
  | RcOk f =>
      match f_body f with
      | BCpf _ AddrNull _ data =>
          match parse_mr data, msg_effect data with
          | RcOk rq, EFo l =>
              match parse_fo l (mr_data rq) with
              | Some (fo, _) => Some (l, conn_size l (fo_ot_params fo), conn_size l (fo_to_params fo))
              | None => None
              end
          | _, _ => None
          end
      | _ => None
      end
  | RcErr _ => None
  end.
(* extended first with 4000, then standard with the 500-byte size *)
Definition fo_size_ok (fr : bytes) : Prop :=
  forall l a b, fo_sizes fr = Some (l, a, b) -> a = b /\ a = (if l then 4000 else 500).

Lemma fo_sizes_effect fr l a b : fo_sizes fr = Some (l, a, b) -> frame_effect fr = EFo l.
Proof.
  unfold fo_sizes, frame_effect, parsed_effect. destruct (parse_frame fr) as [f | c]; [| discriminate].
  destruct (f_body f) as [| | | t ad dt d]; try discriminate. destruct ad; [| discriminate].
  destruct (parse_mr d); [| discriminate]. destruct (msg_effect d) as [| | | l' |]; try discriminate.
  destruct (parse_fo l' (mr_data a0)) as [[fo r] |]; [| discriminate]. intros H. inversion H. reflexivity.
Qed.
Lemma fo_size_ok_other fr : (forall l, frame_effect fr <> EFo l) -> fo_size_ok fr.
Proof. intros H l a b E. exfalso. eapply H. eapply fo_sizes_effect. exact E. Qed.

Lemma takez_c1 a r : takez 1 (a :: r) = Some ([a], r).
Proof. unfold takez. pose proof (blen_nonneg r). rewrite blen_cons. destruct ((0 <=? 1) && (1 <=? 1 + blen r)) eqn:E; [reflexivity | lia]. Qed.
Lemma takez_c2 a b r : takez 2 (a :: b :: r) = Some ([a; b], r).
Proof. unfold takez. pose proof (blen_nonneg r). rewrite !blen_cons. destruct ((0 <=? 2) && (2 <=? 1 + (1 + blen r))) eqn:E; [reflexivity | lia]. Qed.
Lemma takez_c3 a b c r : takez 3 (a :: b :: c :: r) = Some ([a; b; c], r).
Proof. unfold takez. pose proof (blen_nonneg r). rewrite !blen_cons. destruct ((0 <=? 3) && (3 <=? 1 + (1 + (1 + blen r)))) eqn:E; [reflexivity | lia]. Qed.
Lemma takez_c4 a b c d r : takez 4 (a :: b :: c :: d :: r) = Some ([a; b; c; d], r).
Proof. unfold takez. pose proof (blen_nonneg r). rewrite !blen_cons. destruct ((0 <=? 4) && (4 <=? 1 + (1 + (1 + (1 + blen r))))) eqn:E; [reflexivity | lia]. Qed.

(* where a Forward Open request keeps its network connection parameters *)
Lemma parse_fo_large x0 x1 x2 x3 x4 x5 x6 x7 x8 x9 x10 x11 x12 x13 x14 x15 x16 x17 x18 x19 x20 x21 x22 x23 x24 x25
  p0 p1 p2 p3 y0 y1 y2 y3 q0 q1 q2 q3 t w r :
  exists fo, parse_fo true (x0 :: x1 :: x2 :: x3 :: x4 :: x5 :: x6 :: x7 :: x8 :: x9 :: x10 :: x11 :: x12 :: x13 :: x14 :: x15
                             :: x16 :: x17 :: x18 :: x19 :: x20 :: x21 :: x22 :: x23 :: x24 :: x25
                             :: p0 :: p1 :: p2 :: p3 :: y0 :: y1 :: y2 :: y3 :: q0 :: q1 :: q2 :: q3 :: t :: w :: r) = Some (fo, r)
             /\ fo_ot_params fo = le_dec [p0; p1; p2; p3] /\ fo_to_params fo = le_dec [q0; q1; q2; q3].
Proof.
  unfold parse_fo, rd.
  repeat (first [rewrite takez_c4 | rewrite takez_c3 | rewrite takez_c2 | rewrite takez_c1]; cbv beta iota).
  eexists. split; [reflexivity |]. split; reflexivity.
Qed.
Lemma parse_fo_std x0 x1 x2 x3 x4 x5 x6 x7 x8 x9 x10 x11 x12 x13 x14 x15 x16 x17 x18 x19 x20 x21 x22 x23 x24 x25
  p0 p1 y0 y1 y2 y3 q0 q1 t w r :
  exists fo, parse_fo false (x0 :: x1 :: x2 :: x3 :: x4 :: x5 :: x6 :: x7 :: x8 :: x9 :: x10 :: x11 :: x12 :: x13 :: x14 :: x15
                              :: x16 :: x17 :: x18 :: x19 :: x20 :: x21 :: x22 :: x23 :: x24 :: x25
                              :: p0 :: p1 :: y0 :: y1 :: y2 :: y3 :: q0 :: q1 :: t :: w :: r) = Some (fo, r)
             /\ fo_ot_params fo = le_dec [p0; p1] /\ fo_to_params fo = le_dec [q0; q1].
Proof.
  unfold parse_fo, rd.
  repeat (first [rewrite takez_c4 | rewrite takez_c3 | rewrite takez_c2 | rewrite takez_c1]; cbv beta iota).
  eexists. split; [reflexivity |]. split; reflexivity.
Qed.

Section Inv.
Context {S : Type} (h : handler S).
Notation world := (world (S := S)).
Notation st := (st (S := S)).
Notation tev := (tev (S := S)).

(* ================================================================ one exchange *)
(* [drv_send] either fails — the transport is abandoned: driver reset, socket closed, at most the
   frame was delivered (or the peer vanished) before — or the frame was delivered and, when a reply
   is expected, the reply read is the target's reply to THIS frame *)
Inductive sent (s : st) (fr : bytes) (nr : bool) (s' : st) (r : res (option bytes)) : Prop :=
  | SentFail (e : exn) (mid closing : list tev)
      (Hr : r = Err e) (Hd : snd s' = reset_driver (snd s))
      (Htr : w_trace (fst s') = closing ++ mid ++ w_trace (fst s))
      (Hmid : mid = [] \/ mid = [TVanish]
              \/ (w_open (fst s) = true /\ w_dead (fst s) = false
                  /\ mid = [TDeliver (w_t (fst s)) fr (snd (tstep h (w_t (fst s)) fr))]))
      (Hclosing : closing = [] \/ exists n, closing = [TSockClose n])
      (Hq : w_queue (fst s') = []) (Hrands : w_rands (fst s') = w_rands (fst s))
  | SentDelivered
      (Hwo : w_open (fst s) = true) (Hwd : w_dead (fst s) = false)
      (Hd : snd s' = snd s) (Ht : w_t (fst s') = fst (tstep h (w_t (fst s)) fr))
      (Htr : w_trace (fst s') = TDeliver (w_t (fst s)) fr (snd (tstep h (w_t (fst s)) fr)) :: w_trace (fst s))
      (Hdead : w_dead (fst s') = false) (Hopen : w_open (fst s') = true) (Hq : w_queue (fst s') = [])
      (Hrands : w_rands (fst s') = w_rands (fst s))
      (Hok : exists o, r = Ok o)
      (Hreply : forall raw, r = Ok (Some raw) -> snd (tstep h (w_t (fst s)) fr) = Some raw)
      (Hnone : r = Ok None -> nr = true).

Lemma abandon_trace flt (w : world) d :
  w_queue (fst (abandon_transport flt (w, d))) = (if d_sock d then [] else w_queue w)
  /\ w_rands (fst (abandon_transport flt (w, d))) = w_rands w
  /\ snd (abandon_transport flt (w, d)) = reset_driver d
  /\ exists closing, w_trace (fst (abandon_transport flt (w, d))) = closing ++ w_trace w
                     /\ (closing = [] \/ exists n, closing = [TSockClose n]).
Proof.
  unfold abandon_transport. destruct (d_sock d); cbn [fst snd].
  - unfold sock_close. destruct (flookup (w_nclose w) (f_close flt)); cbn [fst w_queue w_rands w_trace];
      (split; [reflexivity |]; split; [reflexivity |]; split; [reflexivity |]);
      eexists; (split; [| right; eexists; reflexivity]); reflexivity.
  - split; [reflexivity |]. split; [reflexivity |]. split; [reflexivity |]. exists []. split; [reflexivity | left; reflexivity].
Qed.

Lemma drv_send_sent flt (s : st) fr nr :
  w_queue (fst s) = [] ->
  (nr = true -> forall t, snd (tstep h t fr) = None) ->
  sent s fr nr (fst (drv_send h flt s (Ok fr) nr)) (snd (drv_send h flt s (Ok fr) nr)).
Proof.
  intros Hq Hnr. destruct s as [w d]. cbn [fst snd] in *.
  (* failure after the world moved to [w1] with trace [mid ++ trace w] *)
  assert (forall (w1 : world) mid,
            w_trace w1 = mid ++ w_trace w -> w_rands w1 = w_rands w -> (d_sock d = false -> w_queue w1 = []) ->
            (mid = [] \/ mid = [TVanish]
             \/ (w_open w = true /\ w_dead w = false /\ mid = [TDeliver (w_t w) fr (snd (tstep h (w_t w) fr))])) ->
            sent (w, d) fr nr (abandon_transport flt (w1, d)) (Err CommError)) as Hfail.
  { intros w1 mid Htr Hr Hq1 Hmid.
    destruct (abandon_trace flt w1 d) as (A1 & A2 & A3 & closing & A4 & A5).
    eapply (SentFail _ _ _ _ _ CommError mid closing); cbn [fst snd]; try assumption; try reflexivity.
    - rewrite A4, Htr. reflexivity.
    - rewrite A1. destruct (d_sock d); [reflexivity | apply Hq1; reflexivity].
    - congruence. }
  unfold drv_send, tx. destruct (d_sock d) eqn:Ek.
  2: { cbn [fst snd]. apply (Hfail w []); auto. }
  unfold sock_send.
  destruct (negb (w_open w) || w_dead w) eqn:E1.
  { cbn [fst snd]. apply (Hfail _ []); cbn [w_trace w_rands]; auto; try (intros; congruence). }
  assert (w_open w = true /\ w_dead w = false) as [Ho Hdd] by (destruct (w_open w), (w_dead w); auto; discriminate).
  destruct (fmem (w_nsend w) (f_vanish flt)).
  { cbn [fst snd]. apply (Hfail _ [TVanish]); cbn [w_trace w_rands]; auto; try (intros; congruence). }
  destruct (flookup (w_nsend w) (f_send flt)) as [fk |].
  { cbn [fst snd]. apply (Hfail _ []); cbn [w_trace w_rands]; auto; try (intros; congruence). }
  destruct (tstep h (w_t w) fr) as [t' rep] eqn:Et.
  assert (forall w1, w_trace w1 = TDeliver (w_t w) fr rep :: w_trace w -> w_rands w1 = w_rands w ->
            sent (w, d) fr nr (abandon_transport flt (w1, d)) (Err CommError)) as Hfail2.
  { intros w1 Htr Hr. apply (Hfail w1 [TDeliver (w_t w) fr rep]); auto 10; try (intros; congruence). }
  destruct (flookup (w_nsend w) (f_send_after flt)) as [fk |].
  { cbn [fst snd]. apply Hfail2; reflexivity. }
  cbn [fst snd].
  destruct nr.
  - (* no reply expected, and none comes *)
    cbn [fst snd]. specialize (Hnr eq_refl (w_t w)). rewrite Et in Hnr. cbn [snd] in Hnr. subst rep.
    eapply SentDelivered; cbn [fst snd w_t w_trace w_dead w_open w_queue w_rands]; try reflexivity; try assumption;
      try (rewrite Et; reflexivity); try (eexists; reflexivity); intros; discriminate.
  - unfold rx. cbn [snd fst]. rewrite Ek. unfold sock_recv.
    cbn [w_open w_dead w_nrecv w_queue]. rewrite Ho, Hdd. cbn [negb orb].
    destruct (flookup (w_nrecv w) (f_recv flt)) as [fk |].
    { cbn [fst snd]. apply Hfail2; reflexivity. }
    rewrite Hq.
    destruct rep as [rp |]; [destruct (fmem (w_nsend w) (f_drop flt)) |]; cbn [app fst snd];
      try (apply Hfail2; reflexivity).
    eapply SentDelivered; cbn [fst snd w_t w_trace w_dead w_open w_queue w_rands]; try reflexivity; try assumption;
      try (rewrite Et; reflexivity); try (eexists; reflexivity); try (intros; discriminate).
    intros raw H. inversion H; subst. rewrite Et. reflexivity.
Qed.

(* ================================================================ what the trace must satisfy *)
(* a SendUnitData frame finds its session and its connection in the target's tables *)
Definition unitdata_ok (before : tstate S) (fr : bytes) : Prop :=
  forall f, parse_frame fr = RcOk f -> f_cmd f = CMD_UNITDATA ->
    mem_z (f_session f) (t_sessions before) = true
    /\ exists t cid dt d c, f_body f = BCpf t (AddrConn cid) dt d /\ In c (t_conns before)
                            /\ c_ot_id c = cid /\ c_session c = f_session f.
Definition deliver_ok (e : tev) : Prop :=
  match e with TDeliver b fr _ => unitdata_ok b fr | _ => True end.

(* a Large Forward Open the target did not grant *)
Definition is_large_refused (e : tev) : Prop :=
  match e with
  | TDeliver b fr _ => frame_effect fr = EFo true /\ t_conns (fst (tstep h b fr)) = t_conns b
  | _ => False
  end.
Definition has_refused_large (tr : list tev) : Prop := Exists is_large_refused tr.
(* newest first: every standard Forward Open has a refused Large one before it *)
Fixpoint fo_trace_ok (tr : list tev) : Prop :=
  match tr with
  | [] => True
  | e :: older =>
      match e with
      | TDeliver _ fr _ => frame_effect fr = EFo false -> has_refused_large older
      | _ => True
      end /\ fo_trace_ok older
  end.

(* frames that are not SendUnitData are trivially fine *)
Lemma unitdata_ok_other before fr : u16 (nth 0 fr 0) (nth 1 fr 0) <> CMD_UNITDATA -> unitdata_ok before fr.
Proof.
  intros Hc f Hp Hcmd. exfalso. apply Hc. rewrite <- (parse_frame_cmd _ _ Hp). exact Hcmd.
Qed.

Definition conn_live (w : world) (d : dstate) : Prop :=
  mem_z (d_session d) (t_sessions (w_t w)) = true
  /\ exists otid c, d_cid d = Some (le_enc 4 otid) /\ in32z otid /\ In c (t_conns (w_t w))
                    /\ c_ot_id c = otid /\ c_session c = d_session d.

Definition all_bytes (l : list bytes) : Prop := Forall (fun b => bytes_ok b = true) l.
(* os.urandom(4) *)
Definition all_draws (l : list bytes) : Prop := Forall (fun b => bytes_ok b = true /\ List.length b = 4%nat) l.
Definition size_ok (e : tev) : Prop := match e with TDeliver _ fr _ => fo_size_ok fr | _ => True end.

Record Inv0 (s : st) : Prop := {
  i_queue : w_queue (fst s) = [];
  i_trace : Forall deliver_ok (w_trace (fst s));
  i_fo : fo_trace_ok (w_trace (fst s));
  i_cfg : d_ext (snd s) = true \/ has_refused_large (w_trace (fst s));
  i_bytes : bytes_ok (d_ocid (snd s)) = true /\ bytes_ok (d_vsn (snd s)) = true
            /\ all_bytes (d_route (snd s)) /\ all_draws (w_rands (fst s));
  i_sizes : Forall size_ok (w_trace (fst s));
  i_dsize : (d_ext (snd s) = true /\ d_size (snd s) = 4000) \/ (d_ext (snd s) = false /\ d_size (snd s) = 500);
  i_len : List.length (d_ocid (snd s)) = 4%nat /\ List.length (d_vsn (snd s)) = 4%nat }.
Definition iconn (s : st) : Prop :=
  d_tconn (snd s) = true -> w_open (fst s) = true -> w_dead (fst s) = false -> conn_live (fst s) (snd s).
Definition Inv (s : st) : Prop := Inv0 s /\ iconn s.

Lemma has_refused_cons e tr : has_refused_large tr -> has_refused_large (e :: tr).
Proof. intros H. apply Exists_cons_tl. exact H. Qed.

Lemma has_refused_app l tr : has_refused_large tr -> has_refused_large (l ++ tr).
Proof. intros H. induction l as [| e l IH]; [exact H | apply has_refused_cons; exact IH]. Qed.

(* the trace-independent part survives any exchange whose delivered frame is acceptable *)
Lemma sent_inv0 s fr nr s' r :
  sent s fr nr s' r -> Inv0 s ->
  (w_open (fst s) = true -> w_dead (fst s) = false -> unitdata_ok (w_t (fst s)) fr) ->
  (frame_effect fr = EFo false -> has_refused_large (w_trace (fst s))) ->
  fo_size_ok fr ->
  Inv0 s'.
Proof.
  intros Hs [Q T F C B Z1 Z2 Z3] Hud Hfo Hsz.
  destruct Hs as [e mid closing Hr Hd Htr Hmid Hclosing Hq Hrands
                 | Hwo Hwd Hd Ht Htr Hdead Hopen Hq Hrands Hok Hreply Hnone].
  - assert (Forall deliver_ok (mid ++ w_trace (fst s)) /\ fo_trace_ok (mid ++ w_trace (fst s))
            /\ Forall size_ok (mid ++ w_trace (fst s))) as (T1 & F1 & Y1).
    { destruct Hmid as [-> | [-> | (Ho & Hdd & ->)]]; cbn [app].
      - auto.
      - split; [constructor; [exact I | exact T] |]. split; [split; [exact I | exact F] | constructor; [exact I | exact Z1]].
      - split; [constructor; [apply Hud; assumption | exact T] |].
        split; [split; [exact Hfo | exact F] | constructor; [exact Hsz | exact Z1]]. }
    assert (Forall deliver_ok (closing ++ mid ++ w_trace (fst s)) /\ fo_trace_ok (closing ++ mid ++ w_trace (fst s))
            /\ Forall size_ok (closing ++ mid ++ w_trace (fst s))) as (T2 & F2 & Y2).
    { destruct Hclosing as [-> | [n ->]]; cbn [app]; [auto |].
      split; [constructor; [exact I | exact T1] |]. split; [split; [exact I | exact F1] | constructor; [exact I | exact Y1]]. }
    split; rewrite ?Hq, ?Htr, ?Hd, ?Hrands; try reflexivity; try assumption.
    destruct C as [C | C]; [left; exact C | right; rewrite app_assoc; apply has_refused_app; exact C].
  - split; rewrite ?Hq, ?Htr, ?Hd, ?Hrands; try reflexivity; try assumption.
    + constructor; [apply Hud; assumption | exact T].
    + split; [exact Hfo | exact F].
    + destruct C as [C | C]; [left; exact C | right; apply has_refused_cons; exact C].
    + constructor; [exact Hsz | exact Z1].
Qed.

Lemma mem_z_cons x y l : mem_z x l = true -> mem_z x (y :: l) = true.
Proof. unfold mem_z. cbn [existsb]. intros ->. apply Bool.orb_true_r. Qed.

(* ... and the connection the driver believes in survives every frame that neither unregisters nor closes *)
Lemma sent_iconn cfg0 s fr nr s' r :
  sent s fr nr s' r -> Good h cfg0 s -> iconn s ->
  (d_tconn (snd s) = true -> match frame_effect fr with EUnregister | EFClose => False | _ => True end) ->
  iconn s'.
Proof.
  intros Hs G Hc Heff.
  destruct Hs as [e mid closing Hr Hd Htr Hmid Hclosing Hq Hrands
                 | Hwo Hwd Hd Ht Htr Hdead Hopen Hq Hrands Hok Hreply Hnone]; unfold iconn, conn_live in *.
  - rewrite Hd. cbn [reset_driver set_opened set_session set_tconn set_sock d_tconn]. discriminate.
  - rewrite ?Hd, ?Ht, ?Hdead, ?Hopen. intros Htc _ _. specialize (Hc Htc Hwo Hwd). specialize (Heff Htc).
    destruct Hc as (Hm & otid & c & Hcid & Hid & Hin & Hot & Hses).
    pose proof (tstep_effect h (w_t (fst s)) fr (wg_inj _ _ _ (proj1 G))) as (_ & _ & He).
    destruct (tstep h (w_t (fst s)) fr) as [t' rep]. cbn [fst snd] in *.
    destruct (frame_effect fr) as [| | | large |]; try contradiction.
    + destruct He as [E1 E2]. rewrite E1, E2. split; [exact Hm |]. exists otid, c. auto.
    + destruct He as [E2 [E1 | [hd E1]]]; rewrite E1, E2.
      * split; [exact Hm |]. exists otid, c. auto.
      * split; [apply mem_z_cons; exact Hm |]. exists otid, c. auto.
    + destruct He as [E1 [[E2 _] | (c' & f & raw & _ & E2 & _)]]; rewrite E1, E2.
      * split; [exact Hm |]. exists otid, c. auto.
      * split; [exact Hm |]. exists otid, c. split; [exact Hcid |]. split; [exact Hid |].
        split; [right; exact Hin |]. split; assumption.
Qed.
(* ================================================================ the frames of the driver *)
Lemma rr_frame_not_ud ses msg fr : rr_frame ses msg = Ok fr -> forall b, unitdata_ok b fr.
Proof.
  intros H b. apply unitdata_ok_other. unfold rr_frame in H. rewrite (build_request_cmd _ _ _ _ _ H). discriminate.
Qed.
Lemma register_frame_not_ud ses fr : register_frame ses = Ok fr -> forall b, unitdata_ok b fr.
Proof. intros H b. apply unitdata_ok_other. unfold register_frame in H. rewrite (build_request_cmd _ _ _ _ _ H). discriminate. Qed.
Lemma unregister_frame_not_ud ses fr : unregister_frame ses = Ok fr -> forall b, unitdata_ok b fr.
Proof. intros H b. apply unitdata_ok_other. unfold unregister_frame in H. rewrite (build_request_cmd _ _ _ _ _ H). discriminate. Qed.
Lemma list_identity_frame_not_ud ses fr : list_identity_frame ses = Ok fr -> forall b, unitdata_ok b fr.
Proof. intros H b. apply unitdata_ok_other. unfold list_identity_frame in H. rewrite (build_request_cmd _ _ _ _ _ H). discriminate. Qed.

Lemma frame_effect_not_fo bs : u16 (nth 0 bs 0) (nth 1 bs 0) <> CMD_RRDATA -> forall l, frame_effect bs <> EFo l.
Proof.
  intros Hc l He. pose proof (frame_effect_cmd bs) as H. cbv zeta in H. rewrite He in H. contradiction.
Qed.

(* the driver's SendUnitData frame addresses the connection the driver holds *)
Lemma ud_frame_ok_live (w : world) d sq msg fr :
  ud_frame (d_session d) (d_cid d) sq msg = Ok fr -> conn_live w d -> unitdata_ok (w_t w) fr.
Proof.
  intros Hf (Hm & otid & c & Hcid & Hid & Hin & Hot & Hses) f Hp Hcmd.
  rewrite Hcid in Hf. unfold in32z in Hid.
  assert (f = ud_parsed (d_session d) otid sq msg) as -> by (eapply ud_frame_parse; [exact Hf | lia | exact Hp]).
  cbn [ud_parsed f_session f_body]. split; [exact Hm |]. do 4 eexists. exists c. split; [reflexivity |]. auto.
Qed.

(* UnRegisterSession is never answered *)
Lemma unregister_no_reply ses fr : unregister_frame ses = Ok fr -> forall t : tstate S, snd (tstep h t fr) = None.
Proof.
  intros H t. unfold unregister_frame in H. pose proof (build_request_cmd _ _ _ _ _ H) as Hc.
  change (u16 102 0) with CMD_UNREGISTER in Hc.
  unfold tstep. destruct (parse_header fr) as [[hd body] |] eqn:Eh; [| reflexivity].
  pose proof (parse_header_cmd _ _ _ Eh) as Hcmd. rewrite Hc in Hcmd.
  destruct (parse_frame fr) as [f | c] eqn:Ep.
  2: { cbn [snd]. rewrite Hcmd. replace (CMD_UNREGISTER =? CMD_UNREGISTER) with true by reflexivity.
       rewrite !Bool.orb_true_r. reflexivity. }
  destruct (parse_frame_inv _ _ Ep) as (hd' & body' & Eh' & Fcmd & _ & _ & Fbody & Fk & _).
  rewrite Eh in Eh'. inversion Eh'; subst hd' body'. rewrite Hcmd in Fbody.
  assert (f_body f = BEmpty) as Eb.
  { unfold parse_body in Fbody. cbn [Z.eqb Pos.eqb CMD_UNREGISTER CMD_NOP CMD_REGISTER CMD_RRDATA CMD_UNITDATA orb] in Fbody.
    destruct body; inversion Fbody. reflexivity. }
  unfold step_frame. rewrite Eb, Fcmd, Hcmd.
  cbn [Z.eqb Pos.eqb CMD_UNREGISTER CMD_LIST_IDENTITY CMD_LIST_SERVICES CMD_LIST_INTERFACES].
  destruct (mem_z _ _); reflexivity.
Qed.

(* ---------------------------------------------------------------- message classes *)
Lemma takez_cons4 a b c d r : takez 4 (a :: b :: c :: d :: r) = Some ([a; b; c; d], r).
Proof.
  unfold takez. pose proof (blen_nonneg r). rewrite !blen_cons.
  destruct ((0 <=? 4) && (4 <=? 1 + (1 + (1 + (1 + blen r))))) eqn:E; [reflexivity | lia].
Qed.

(* a message that starts <service> 02 <4 path bytes>: its parse *)
Lemma parse_mr_prefix svc a b c d rest : 0 <= svc < 128 ->
  parse_mr (svc :: 2 :: a :: b :: c :: d :: rest) = RcOk {| mr_service := svc; mr_path := [a; b; c; d]; mr_data := rest |}.
Proof.
  intros H. unfold parse_mr. destruct (128 <=? svc) eqn:E; [lia |].
  change (2 * 2) with 4. rewrite takez_cons4. reflexivity.
Qed.

Lemma all_bytes_concat l : all_bytes l -> bytes_ok (concat l) = true.
Proof.
  induction 1 as [| b l Hb Hl IH]; [reflexivity |]. cbn [concat]. rewrite bytes_ok_app, Hb, IH. reflexivity.
Qed.
Lemma all_bytes_removelast l : all_bytes l -> all_bytes (removelast l).
Proof.
  induction 1 as [| b l Hb Hl IH]; [constructor |]. cbn [removelast]. destruct l; [constructor |]. constructor; assumption.
Qed.

Lemma ok_inj {A} (a b : A) : @Ok A a = Ok b -> a = b.
Proof. congruence. Qed.

Definition bytes_fields (d : dstate) : Prop :=
  bytes_ok (d_ocid d) = true /\ bytes_ok (d_vsn d) = true /\ all_bytes (d_route d).

Lemma epath_len_ok p pad rp : epath_len p pad = Ok rp -> bytes_ok p = true -> bytes_ok rp = true.
Proof.
  unfold epath_len. destruct (blen p / 2 <? 256) eqn:E; [| discriminate]. intros H Hp. apply ok_inj in H. subst rp.
  pose proof (blen_nonneg p). destruct pad; cbn [app]; rewrite ?bytes_ok_cons, Hp; unfold byte_ok; lia.
Qed.

Lemma fo_message_effect d msg : fo_message d = Ok msg -> bytes_fields d ->
  bytes_ok msg = true /\ msg_effect msg = EFo (d_ext d).
Proof.
  unfold fo_message, bind. intros H (B1 & B2 & B3).
  destruct (net_params (d_ext d) (d_size d)) as [np | e] eqn:En; [| discriminate].
  destruct (epath_len (route_bytes d ++ MSG_ROUTER_PATH_BYTES) FO_ROUTE_PAD_LENGTH) as [rp | e] eqn:Er; [| discriminate].
  apply ok_inj in H. subst msg.
  assert (bytes_ok np = true) as Hnp.
  { unfold net_params in En. destruct (d_ext d); [destruct (in_urange 4 _) | destruct (in_urange 2 _)]; try discriminate;
      apply ok_inj in En; subst np; apply le_enc_ok. }
  assert (bytes_ok rp = true) as Hrp.
  { eapply epath_len_ok; [exact Er |]. rewrite bytes_ok_app. unfold route_bytes. rewrite (all_bytes_concat _ B3). reflexivity. }
  split.
  - rewrite !bytes_ok_app. unfold render_msg, forward_open_msg. cbn [flat_map field_bytes].
    rewrite !bytes_ok_app, B1, B2, Hnp, Hrp. destruct (d_ext d); reflexivity.
  - unfold msg_effect. destruct (d_ext d).
    + change (SVC_LARGE_FORWARD_OPEN ++ CM_REQUEST_PATH ++ render_msg forward_open_msg d np ++ rp)
        with (91 :: 2 :: 32 :: 6 :: 36 :: 1 :: render_msg forward_open_msg d np ++ rp).
      rewrite parse_mr_prefix by lia. cbn [mr_path mr_service]. reflexivity.
    + change (SVC_FORWARD_OPEN ++ CM_REQUEST_PATH ++ render_msg forward_open_msg d np ++ rp)
        with (84 :: 2 :: 32 :: 6 :: 36 :: 1 :: render_msg forward_open_msg d np ++ rp).
      rewrite parse_mr_prefix by lia. cbn [mr_path mr_service]. reflexivity.
Qed.

Lemma fc_message_effect d msg : fc_message d = Ok msg -> msg_effect msg = EFClose.
Proof.
  unfold fc_message, bind. intros H.
  destruct (epath_len (route_bytes d ++ MSG_ROUTER_PATH_BYTES) FC_ROUTE_PAD_LENGTH) as [rp | e]; [| discriminate].
  apply ok_inj in H. subst msg. unfold msg_effect.
  change (SVC_FORWARD_CLOSE ++ CM_REQUEST_PATH ++ render_msg forward_close_msg d [] ++ rp)
    with (78 :: 2 :: 32 :: 6 :: 36 :: 1 :: render_msg forward_close_msg d [] ++ rp).
  rewrite parse_mr_prefix by lia. reflexivity.
Qed.

Lemma plc_info_message_effect d m msg : plc_info_message d m = Ok msg -> msg_effect msg = ENone.
Proof.
  unfold plc_info_message, bind. intros H.
  destruct m.
  - apply ok_inj in H. subst msg. reflexivity.
  - destruct (epath_len (route_bytes d) true) as [rp | e]; [| discriminate].
    unfold wrap_unconnected_send in H. destruct (in_urange 2 (blen PLC_INFO_MSG)); [| discriminate].
    apply ok_inj in H. subst msg. unfold msg_effect.
    match goal with |- context [parse_mr ?m] =>
      change m with (82 :: 2 :: 32 :: 6 :: 36 :: 1 :: PRIORITY ++ TIMEOUT_TICKS ++ le_enc 2 (blen PLC_INFO_MSG) ++ PLC_INFO_MSG
                     ++ (if Z.odd (blen PLC_INFO_MSG) then [0] else []) ++ match rp with [] => [0; 0] | _ => rp end) end.
    rewrite parse_mr_prefix by lia. reflexivity.
Qed.

(* ================================================================ driver functions *)
Context (cfg0 : tcfg) (flt : faults).

(* driver-state updates that the invariant does not look at *)
Definition dsame0 (d d' : dstate) : Prop :=
  d_ext d' = d_ext d /\ d_ocid d' = d_ocid d /\ d_vsn d' = d_vsn d /\ d_route d' = d_route d /\ d_size d' = d_size d.
Definition dsamec (d d' : dstate) : Prop :=
  d_session d' = d_session d /\ d_cid d' = d_cid d /\ d_tconn d' = d_tconn d.
Lemma inv0_dsame (w : world) d d' : dsame0 d d' -> Inv0 (w, d) -> Inv0 (w, d').
Proof.
  intros (A4 & A5 & A6 & A7 & A8) [Q T F C B Z1 Z2 Z3]. cbn [fst snd] in *.
  split; cbn [fst snd]; rewrite ?A4, ?A5, ?A6, ?A7, ?A8; assumption.
Qed.
Lemma iconn_dsame (w : world) d d' : dsamec d d' -> iconn (w, d) -> iconn (w, d').
Proof.
  intros (A1 & A2 & A3) H. unfold iconn, conn_live in *. cbn [fst snd] in *.
  rewrite A1, A2, A3. exact H.
Qed.
Lemma inv_dsame (w : world) d d' : dsame0 d d' -> dsamec d d' -> Inv (w, d) -> Inv (w, d').
Proof. intros H H' [A B]. split; [eapply inv0_dsame | eapply iconn_dsame]; eassumption. Qed.

Lemma drv_send_inv s fr nr :
  Inv0 s ->
  (w_open (fst s) = true -> w_dead (fst s) = false -> unitdata_ok (w_t (fst s)) fr) ->
  (frame_effect fr = EFo false -> has_refused_large (w_trace (fst s))) ->
  fo_size_ok fr ->
  (nr = true -> forall t, snd (tstep h t fr) = None) ->
  let r := drv_send h flt s (Ok fr) nr in sent s fr nr (fst r) (snd r) /\ Inv0 (fst r).
Proof.
  intros I0 Hud Hfo Hsz Hnr. cbv zeta.
  pose proof (drv_send_sent flt s fr nr (i_queue _ I0) Hnr) as Hs.
  split; [exact Hs |]. eapply sent_inv0; eassumption.
Qed.

(* what a truthy / falsy result of generic_message(connected=False) tells *)
Definition delivered_rr (s s' : st) (msg : bytes) (truthy : bool) (value : bytes) : Prop :=
  exists fr raw, rr_frame (d_session (snd s)) msg = Ok fr
    /\ w_open (fst s) = true /\ w_dead (fst s) = false
    /\ w_t (fst s') = fst (tstep h (w_t (fst s)) fr)
    /\ w_trace (fst s') = TDeliver (w_t (fst s)) fr (Some raw) :: w_trace (fst s)
    /\ snd (tstep h (w_t (fst s)) fr) = Some raw
    /\ w_dead (fst s') = false /\ w_open (fst s') = true
    /\ truthy = valid KRR raw /\ value = data_of KRR raw.

Lemma generic_unconnected_inv s msg :
  Good h cfg0 s -> Inv0 s ->
  (msg_effect msg = EFo false -> has_refused_large (w_trace (fst s))) ->
  (forall fr, rr_frame (d_session (snd s)) msg = Ok fr -> fo_size_ok fr) ->
  let r := generic_unconnected h flt s msg in
  Inv0 (fst r) /\ d_ext (snd (fst r)) = d_ext (snd s)
  /\ ((d_tconn (snd s) = true -> msg_effect msg <> EFClose) -> iconn s -> iconn (fst r))
  /\ (forall truthy value, snd r = Ok (truthy, value) ->
        snd (fst r) = snd s /\ delivered_rr s (fst r) msg truthy value).
Proof.
  intros G I0 Hfo Hsz. cbv zeta. unfold generic_unconnected.
  destruct (rr_frame (d_session (snd s)) msg) as [fr | e] eqn:Ef.
  2: { cbn [drv_send fst snd]. split; [exact I0 |]. split; [reflexivity |]. split; [auto | discriminate]. }
  pose proof (rr_frame_effect _ _ _ Ef) as Heff.
  assert (frame_effect fr = EFo false -> has_refused_large (w_trace (fst s))) as Hfo'.
  { rewrite Heff. destruct (bytes_ok msg); [exact Hfo | discriminate]. }
  pose proof (drv_send_inv s fr false I0 (fun _ _ => rr_frame_not_ud _ _ _ Ef _) Hfo' (Hsz fr eq_refl) (fun H => ltac:(discriminate))) as (Hs & I1).
  cbv zeta in *.
  destruct (drv_send h flt s (Ok fr) false) as [s1 r1]. cbn [fst snd] in *.
  assert (d_ext (snd s1) = d_ext (snd s)) as Hext by (destruct Hs as [? ? ? ? Hd | ? ? Hd]; rewrite Hd; reflexivity).
  assert (((d_tconn (snd s) = true -> msg_effect msg <> EFClose) -> iconn s -> iconn s1)) as Hic.
  { intros Hm Hc. eapply sent_iconn; [exact Hs | exact G | exact Hc |].
    intros Ht. rewrite Heff. destruct (bytes_ok msg); [| exact I].
    specialize (Hm Ht). destruct (msg_effect_cases msg) as [-> | [[l ->] | E]]; try exact I. contradiction. }
  destruct r1 as [[raw |] | e]; cbn [fst snd].
  - split; [exact I1 |]. split; [exact Hext |]. split; [exact Hic |].
    intros truthy value Hc. unfold classify in Hc. destruct (error_raises KRR raw); [discriminate |].
    inversion Hc; subst.
    destruct Hs as [? ? ? Hr | ? ? Hd ? ? ? ? ? ? ? Hreply ?]; [discriminate |].
    split; [exact Hd |].
    exists fr, raw. specialize (Hreply raw eq_refl). rewrite Hreply in *. auto 12.
  - split; [exact I1 |]. split; [exact Hext |]. split; [exact Hic |].
    intros truthy value _. exfalso. destruct Hs as [? ? ? Hr | ? ? ? ? ? ? ? ? ? ? ? Hnone]; [discriminate |].
    specialize (Hnone eq_refl). discriminate.
  - split; [exact I1 |]. split; [exact Hext |]. split; [exact Hic | discriminate].
Qed.

Lemma inv0_bytes_fields s : Inv0 s -> bytes_fields (snd s).
Proof. intros [_ _ _ _ (B1 & B2 & B3 & _)]. repeat split; assumption. Qed.

(* the driver's Forward Open frames ask for 4000 (Large) / 500 (standard) in both directions *)
Lemma fo_frame_size_ok d ses msg fr :
  fo_message d = Ok msg -> rr_frame ses msg = Ok fr ->
  ((d_ext d = true /\ d_size d = 4000) \/ (d_ext d = false /\ d_size d = 500)) ->
  List.length (d_ocid d) = 4%nat -> List.length (d_vsn d) = 4%nat ->
  fo_size_ok fr.
Proof.
  intros Hm Hf Hsz Hlo Hlv l a b E.
  unfold fo_sizes in E. rewrite (rr_frame_parse _ _ _ Hf) in E.
  destruct (bytes_ok msg); [| discriminate]. cbn [f_body rr_parsed] in E.
  unfold fo_message, bind in Hm.
  destruct (d_ocid d) as [| a0 [| a1 [| a2 [| a3 [| ? ?]]]]] eqn:Eo; try discriminate.
  destruct (d_vsn d) as [| v0 [| v1 [| v2 [| v3 [| ? ?]]]]] eqn:Ev; try discriminate.
  destruct Hsz as [[He Hs] | [He Hs]]; rewrite He, Hs in Hm.
  - replace (net_params true 4000) with (@Ok bytes [160; 15; 0; 66]) in Hm by (vm_compute; reflexivity).
    unfold epath_len in Hm. destruct (blen (route_bytes d ++ MSG_ROUTER_PATH_BYTES) / 2 <? 256); [| discriminate].
    apply ok_inj in Hm. subst msg.
    cbv [render_msg forward_open_msg flat_map field_bytes PRIORITY TIMEOUT_TICKS TIMEOUT_MULTIPLIER TRANSPORT_CLASS CFG_CSN CFG_VID
         SVC_LARGE_FORWARD_OPEN CM_REQUEST_PATH FO_ROUTE_PAD_LENGTH] in E. rewrite Eo, Ev in E. cbn [app] in E.
    unfold msg_effect in E. rewrite parse_mr_prefix in E by lia. cbn [mr_path mr_service mr_data] in E.
    replace (path_cia [32; 6; 36; 1]) with (Some (6, 1, @None Z)) in E by reflexivity. cbn [Z.eqb Pos.eqb] in E.
    match type of E with context [parse_fo true ?l] =>
      match l with
      | ?x0 :: ?x1 :: ?x2 :: ?x3 :: ?x4 :: ?x5 :: ?x6 :: ?x7 :: ?x8 :: ?x9 :: ?x10 :: ?x11 :: ?x12 :: ?x13 :: ?x14 :: ?x15
        :: ?x16 :: ?x17 :: ?x18 :: ?x19 :: ?x20 :: ?x21 :: ?x22 :: ?x23 :: ?x24 :: ?x25
        :: ?p0 :: ?p1 :: ?p2 :: ?p3 :: ?y0 :: ?y1 :: ?y2 :: ?y3 :: ?q0 :: ?q1 :: ?q2 :: ?q3 :: ?t :: ?w :: ?r =>
          destruct (parse_fo_large x0 x1 x2 x3 x4 x5 x6 x7 x8 x9 x10 x11 x12 x13 x14 x15 x16 x17 x18 x19 x20 x21 x22 x23 x24 x25
                      p0 p1 p2 p3 y0 y1 y2 y3 q0 q1 q2 q3 t w r) as (fo & Hp & Ho & Ht)
      end
    end.
    rewrite Hp, Ho, Ht in E. inversion E; subst. split; reflexivity.
  - replace (net_params false 500) with (@Ok bytes [244; 67]) in Hm by (vm_compute; reflexivity).
    unfold epath_len in Hm. destruct (blen (route_bytes d ++ MSG_ROUTER_PATH_BYTES) / 2 <? 256); [| discriminate].
    apply ok_inj in Hm. subst msg.
    cbv [render_msg forward_open_msg flat_map field_bytes PRIORITY TIMEOUT_TICKS TIMEOUT_MULTIPLIER TRANSPORT_CLASS CFG_CSN CFG_VID
         SVC_FORWARD_OPEN CM_REQUEST_PATH FO_ROUTE_PAD_LENGTH] in E. rewrite Eo, Ev in E. cbn [app] in E.
    unfold msg_effect in E. rewrite parse_mr_prefix in E by lia. cbn [mr_path mr_service mr_data] in E.
    replace (path_cia [32; 6; 36; 1]) with (Some (6, 1, @None Z)) in E by reflexivity. cbn [Z.eqb Pos.eqb] in E.
    match type of E with context [parse_fo false ?l] =>
      match l with
      | ?x0 :: ?x1 :: ?x2 :: ?x3 :: ?x4 :: ?x5 :: ?x6 :: ?x7 :: ?x8 :: ?x9 :: ?x10 :: ?x11 :: ?x12 :: ?x13 :: ?x14 :: ?x15
        :: ?x16 :: ?x17 :: ?x18 :: ?x19 :: ?x20 :: ?x21 :: ?x22 :: ?x23 :: ?x24 :: ?x25
        :: ?p0 :: ?p1 :: ?y0 :: ?y1 :: ?y2 :: ?y3 :: ?q0 :: ?q1 :: ?t :: ?w :: ?r =>
          destruct (parse_fo_std x0 x1 x2 x3 x4 x5 x6 x7 x8 x9 x10 x11 x12 x13 x14 x15 x16 x17 x18 x19 x20 x21 x22 x23 x24 x25
                      p0 p1 y0 y1 y2 y3 q0 q1 t w r) as (fo & Hp & Ho & Ht)
      end
    end.
    rewrite Hp, Ho, Ht in E. inversion E; subst. split; reflexivity.
Qed.

(* CIPDriver._forward_open *)
Lemma drv_forward_open_inv s :
  Good h cfg0 s -> Inv s ->
  let r := drv_forward_open h flt s in
  Inv (fst r) /\ d_ext (snd (fst r)) = d_ext (snd s)
  /\ (snd r = Ok false -> d_ext (snd s) = true -> has_refused_large (w_trace (fst (fst r))))
  /\ (snd r = Ok true -> d_tconn (snd (fst r)) = true).
Proof.
  intros G [I0 Ic]. cbv zeta. unfold drv_forward_open. destruct s as [w d].
  destruct (d_tconn d) eqn:Et.
  { cbn [fst snd]. split; [split; assumption |]. split; [reflexivity |]. split; [discriminate | intros _; exact Et]. }
  destruct (d_session d =? 0) eqn:Es.
  { cbn [fst snd]. split; [split; assumption |]. split; [reflexivity |]. split; discriminate. }
  destruct (fo_message d) as [msg | e] eqn:Em.
  2: { cbn [fst snd]. split; [split; assumption |]. split; [reflexivity |]. split; discriminate. }
  destruct (fo_message_effect d msg Em (inv0_bytes_fields _ I0)) as [Hok Heff].
  assert (msg_effect msg = EFo false -> has_refused_large (w_trace w)) as Hfo.
  { rewrite Heff. intros E. destruct (i_cfg _ I0) as [C | C]; [cbn [snd] in C; congruence | exact C]. }
  assert (forall fr, rr_frame (d_session d) msg = Ok fr -> fo_size_ok fr) as Hsz.
  { intros fr Hfr. eapply fo_frame_size_ok; [exact Em | exact Hfr | exact (i_dsize _ I0) | exact (proj1 (i_len _ I0)) | exact (proj2 (i_len _ I0))]. }
  pose proof (generic_unconnected_inv (w, d) msg G I0 Hfo Hsz) as (I1 & Hext1 & Hic & Hdel). cbv zeta in *.
  destruct (generic_unconnected h flt (w, d) msg) as [[w1 d1] r1]. cbn [fst snd] in *.
  assert (iconn (w1, d1)) as Ic1.
  { apply Hic; [| exact Ic]. intros Ht. congruence. }
  destruct r1 as [[truthy value] | e]; [| cbn [fst snd]; split; [split; assumption |]; split; [exact Hext1 |]; split; discriminate].
  destruct (Hdel truthy value eq_refl) as (Hd1 & fr & raw & Ef & Ho & Hdd & Ht' & Htr & Hrep & Hdead' & Hopen' & Hv & Hval).
  cbn [snd] in Hd1. subst d1.
  cbn [fst snd] in *.
  pose proof (rr_frame_effect _ _ _ Ef) as Hfe. rewrite Hok, Heff in Hfe.
  pose proof (rr_frame_parse _ _ _ Ef) as Hparse. rewrite Hok in Hparse.
  pose proof (tstep_effect h (w_t w) fr (wg_inj _ _ _ (proj1 G))) as (_ & _ & He). rewrite Hfe in He.
  destruct (tstep h (w_t w) fr) as [t' rep] eqn:Ets. cbn [fst snd] in *. subst rep.
  destruct He as [Hsess [[Hconns Href] | (c & f & raw' & Hp & Hconns & Hcs & Hmem & Hid & Hraw & Hsucc)]].
  - (* refused *)
    pose proof (rr_refusal_invalid raw (Href raw eq_refl)) as Hinv. rewrite Hinv in Hv. subst truthy.
    cbn [fst snd]. split; [split; assumption |]. split; [congruence |]. split; [| discriminate].
    intros _ Hext. rewrite Htr. apply Exists_cons_hd. cbn [is_large_refused].
    rewrite Hfe, Hext, Ets. cbn [fst]. split; [reflexivity | exact Hconns].
  - (* granted *)
    inversion Hraw; subst raw'. rewrite Hparse in Hp. inversion Hp; subst f. cbn [rr_parsed f_session] in *.
    destruct (fo_success_valid raw _ Hsucc) as (Hvalid & Hfirst & _). rewrite Hvalid in Hv. subst truthy value.
    cbn [fst snd]. rewrite Hfirst.
    split; [| split; [cbn [set_tconn set_cid d_ext]; congruence |]; split; [discriminate | intros _; reflexivity]].
    split.
    + eapply inv0_dsame; [| exact I1]. repeat split.
    + unfold iconn, conn_live. cbn [fst snd set_tconn set_cid d_tconn d_session d_cid]. intros _ _ _.
      rewrite Ht', Hsess, Hconns. split; [exact Hmem |].
      exists (c_ot_id c), c. split; [reflexivity |]. split; [exact Hid |]. split; [left; reflexivity |]. split; [reflexivity | exact Hcs].
Qed.

Lemma inv_set_fo (s : st) : Inv s -> has_refused_large (w_trace (fst s)) ->
  Inv (fst s, set_fo_cfg FALLBACK_EXTENDED_FO FALLBACK_CONNECTION_SIZE (snd s)).
Proof.
  intros [[Q T F C B Z1 Z2 Z3] Ic] Hr. split.
  - split; cbn [fst snd set_fo_cfg d_ext d_ocid d_vsn d_route d_size]; try assumption.
    + right. exact Hr.
    + right. split; reflexivity.
  - destruct s as [w d]. eapply iconn_dsame; [| exact Ic]. repeat split.
Qed.

(* with_forward_open *)
Lemma with_forward_open_inv s :
  Good h cfg0 s -> Inv s ->
  let r := with_forward_open h flt s in
  Inv (fst r) /\ (snd r = Ok tt -> d_tconn (snd (fst r)) = true).
Proof.
  intros G I1. cbv zeta. unfold with_forward_open.
  destruct (d_tconn (snd s)) eqn:Et; [cbn [fst snd]; split; [exact I1 | intros _; exact Et] |].
  pose proof (drv_forward_open_good h cfg0 flt s G) as (G1 & S1 & _).
  pose proof (drv_forward_open_inv s G I1) as (I2 & E2 & R2 & T2). cbv zeta in *.
  destruct (drv_forward_open h flt s) as [s1 r1]. cbn [fst snd] in *.
  destruct r1 as [[|] | e]; cbn [fst snd]; try (split; [exact I2 |]; first [discriminate | intros _; apply T2; reflexivity]).
  destruct (d_ext (snd s1)) eqn:Ee; [| cbn [fst snd]; split; [exact I2 | discriminate]].
  set (s2 := (fst s1, set_fo_cfg FALLBACK_EXTENDED_FO FALLBACK_CONNECTION_SIZE (snd s1))).
  assert (Inv s2) as I3 by (apply inv_set_fo; [exact I2 | apply R2; [reflexivity | congruence]]).
  assert (soft s1 s2) as S12 by (apply soft_upd; try reflexivity; cbn; auto).
  assert (Good h cfg0 s2) as G2 by (eapply soft_good; [exact S12 | apply G1 | exact G1]).
  pose proof (drv_forward_open_inv s2 G2 I3) as (I4 & _ & _ & T4). cbv zeta in *.
  destruct (drv_forward_open h flt s2) as [s3 r3]. cbn [fst snd] in *.
  destruct r3 as [[|] | e]; cbn [fst snd]; split; try exact I4; try discriminate. intros _. apply T4. reflexivity.
Qed.

(* one connected request on the connection the driver holds *)
Lemma connected_request_seq_inv s sq msg :
  Good h cfg0 s -> Inv s -> d_tconn (snd s) = true ->
  let r := connected_request_seq h flt s sq msg in
  Inv (fst r) /\ (forall a, snd r = Ok a -> snd (fst r) = snd s).
Proof.
  intros G [I0 Ic] Et. cbv zeta. unfold connected_request_seq.
  destruct (ud_frame (d_session (snd s)) (d_cid (snd s)) sq msg) as [fr | e] eqn:Ef.
  2: { cbn [drv_send fst snd]. split; [split; assumption | discriminate]. }
  assert (w_open (fst s) = true -> w_dead (fst s) = false -> unitdata_ok (w_t (fst s)) fr) as Hud.
  { intros Ho Hd. eapply ud_frame_ok_live; [exact Ef | apply Ic; assumption]. }
  pose proof (ud_frame_effect _ _ _ _ _ Ef) as Heff.
  assert (frame_effect fr = EFo false -> has_refused_large (w_trace (fst s))) as Hfo by (rewrite Heff; discriminate).
  assert (fo_size_ok fr) as Hsz by (apply fo_size_ok_other; intros l; rewrite Heff; discriminate).
  pose proof (drv_send_inv s fr false I0 Hud Hfo Hsz (fun H => ltac:(discriminate))) as (Hs & I1). cbv zeta in *.
  assert (iconn (fst (drv_send h flt s (Ok fr) false))) as Ic1.
  { eapply sent_iconn; [exact Hs | exact G | exact Ic |]. intros _. rewrite Heff. exact I. }
  destruct (drv_send h flt s (Ok fr) false) as [s1 r1]. cbn [fst snd] in *.
  assert (forall o, r1 = Ok o -> snd s1 = snd s) as Hd.
  { intros o ->. destruct Hs as [? ? ? Hr | ? ? Hd]; [discriminate | exact Hd]. }
  destruct r1 as [[raw |] | e]; cbn [fst snd]; (split; [split; assumption |]); try discriminate;
    intros a _; eapply Hd; reflexivity.
Qed.

Lemma connected_request_inv s msg :
  Good h cfg0 s -> Inv s -> d_tconn (snd s) = true ->
  let r := connected_request h flt s msg in Inv (fst r).
Proof.
  intros G I1 Et. cbv zeta. unfold connected_request. destruct s as [w d]. cbn [snd] in Et.
  unfold draw. destruct (cycle_step SEQ_STOP SEQ_START (d_seq d)) as [sq v].
  set (d1 := set_seq v d).
  assert (Inv (w, d1)) as I2 by (eapply inv_dsame; [| | exact I1]; repeat split).
  assert (Good h cfg0 (w, d1)) as G2.
  { eapply soft_good; [| apply G | exact G]. apply (soft_upd (w, d)); try reflexivity. cbn. auto. }
  pose proof (connected_request_seq_inv (w, d1) sq msg G2 I2 Et) as (I3 & _). cbv zeta in *.
  unfold connected_request_seq in *. cbn [snd] in *.
  destruct (drv_send h flt (w, d1) (ud_frame (d_session d1) (d_cid d1) sq msg) false) as [s1 r1].
  destruct r1 as [[raw |] | e]; cbn [fst snd] in *; exact I3.
Qed.

Lemma generic_connected_inv s msg :
  Good h cfg0 s -> Inv s -> let r := generic_connected h flt s msg in Inv (fst r).
Proof.
  intros G I1. cbv zeta. unfold generic_connected.
  pose proof (with_forward_open_good h cfg0 flt s G) as (G1 & _ & _).
  pose proof (with_forward_open_inv s G I1) as (I2 & T2). cbv zeta in *.
  destruct (with_forward_open h flt s) as [s1 r1]. cbn [fst snd] in *.
  destruct r1 as [[] | e]; [| exact I2].
  apply connected_request_inv; auto.
Qed.

Lemma connected_requests_inv items : forall s,
  Good h cfg0 s -> Inv s -> d_tconn (snd s) = true ->
  let r := connected_requests h flt s items in Inv (fst r).
Proof.
  induction items as [| [sq m] rest IH]; intros s G I1 Et; cbv zeta; cbn [connected_requests]; [exact I1 |].
  pose proof (connected_request_seq_good h cfg0 flt s sq m G) as (G1 & _ & _).
  pose proof (connected_request_seq_inv s sq m G I1 Et) as (I2 & Hd). cbv zeta in *.
  destruct (connected_request_seq h flt s sq m) as [s1 r1]. cbn [fst snd] in *.
  destruct r1 as [[b v] | e]; [| exact I2].
  assert (d_tconn (snd s1) = true) as Et1 by (rewrite (Hd _ eq_refl); exact Et).
  specialize (IH s1 G1 I2 Et1). cbv zeta in IH.
  destruct (connected_requests h flt s1 rest) as [s2 r2]. cbn [fst snd] in *.
  destruct r2; exact IH.
Qed.

Lemma connected_call_inv s items sa :
  Good h cfg0 s -> Inv s -> let r := connected_call h flt s items sa in Inv (fst r).
Proof.
  intros G I1. cbv zeta. unfold connected_call.
  pose proof (with_forward_open_good h cfg0 flt s G) as (G1 & _ & _).
  pose proof (with_forward_open_inv s G I1) as (I2 & T2). cbv zeta in *.
  destruct (with_forward_open h flt s) as [[w1 d1] r1]. cbn [fst snd] in *.
  destruct r1 as [[] | e]; [| exact I2].
  apply connected_requests_inv.
  - eapply soft_good; [| apply G1 | exact G1]. apply (soft_upd (w1, d1)); try reflexivity. cbn. auto.
  - eapply inv_dsame; [| | exact I2]; repeat split.
  - cbn. apply T2. reflexivity.
Qed.

(* ---------------------------------------------------------------- open *)
Lemma drv_register_session_inv s :
  Good h cfg0 s -> Inv s -> let r := drv_register_session h flt s in Inv (fst r).
Proof.
  intros G [I0 Ic]. cbv zeta. unfold drv_register_session. destruct s as [w d].
  destruct (negb (d_session d =? 0)) eqn:Es; [split; assumption |].
  assert (d_tconn d = false) as Et.
  { destruct (d_tconn d) eqn:E; [| reflexivity]. exfalso. apply (dg_tconn _ (proj2 G) E). cbn [snd]. lia. }
  destruct (register_frame (d_session d)) as [fr | e] eqn:Ef.
  2: { cbn [drv_send fst snd]. split; assumption. }
  assert (frame_effect fr = EFo false -> has_refused_large (w_trace w)) as Hfo.
  { intros E. exfalso. destruct (register_frame_effect _ _ Ef) as [E' | E']; congruence. }
  assert (fo_size_ok fr) as Hsz.
  { apply fo_size_ok_other. intros l. destruct (register_frame_effect _ _ Ef) as [E' | E']; rewrite E'; discriminate. }
  pose proof (drv_send_inv (w, d) fr false I0 (fun _ _ => register_frame_not_ud _ _ Ef _) Hfo Hsz (fun H => ltac:(discriminate))) as (Hs & I1).
  cbv zeta in *.
  assert (d_tconn (snd (fst (drv_send h flt (w, d) (Ok fr) false))) = false) as Hd.
  { destruct Hs as [? ? ? ? Hd | ? ? Hd]; rewrite Hd; [reflexivity | exact Et]. }
  assert (iconn (fst (drv_send h flt (w, d) (Ok fr) false))) as Ic1.
  { unfold iconn. rewrite Hd. discriminate. }
  destruct (drv_send h flt (w, d) (Ok fr) false) as [[w1 d1] r1]. cbn [fst snd] in *.
  destruct r1 as [[raw |] | e]; cbn [fst snd]; try (split; assumption).
  destruct (register_valid raw); cbn [fst snd]; [| split; assumption].
  split; [eapply inv0_dsame; [| exact I1]; repeat split |].
  unfold iconn. cbn [fst snd set_session d_tconn]. rewrite Hd. discriminate.
Qed.

Lemma urandom_inv0 (w : world) d : Inv0 (w, d) ->
  Inv0 (snd (urandom w), d) /\ (bytes_ok (fst (urandom w)) = true /\ List.length (fst (urandom w)) = 4%nat)
  /\ w_open (snd (urandom w)) = w_open w /\ w_dead (snd (urandom w)) = w_dead w /\ w_t (snd (urandom w)) = w_t w.
Proof.
  intros [Q T F C (B1 & B2 & B3 & B4) Z1 Z2 Z3]. cbn [fst snd] in *. unfold urandom.
  destruct (w_rands w) as [| r rest] eqn:Er; cbn [fst snd].
  - split; [split; cbn [fst snd]; auto; rewrite Er; auto | auto].
  - inversion B4; subst. split; [split; cbn [fst snd w_queue w_trace w_rands]; auto | auto].
Qed.

Lemma cip_open_inv s : Good h cfg0 s -> Inv s -> let r := cip_open h flt s in Inv (fst r).
Proof.
  intros G [I0 Ic]. cbv zeta. unfold cip_open. destruct s as [w d].
  destruct (d_opened d) eqn:Eo; [split; assumption |].
  assert (d_tconn d = false) as Et.
  { destruct G as [_ [D1 D2 D3]]. cbn [fst snd] in *. destruct (d_tconn d) eqn:E; [| reflexivity].
    specialize (D3 (D2 eq_refl)). congruence. }
  destruct G as [W [D1 D2 D3]]. cbn [fst snd] in *.
  pose proof (sock_connect_w h cfg0 flt w W) as W1.
  destruct I0 as [Q T F C (B1 & B2 & B3 & B4) Z1 Z2 Z3]. cbn [fst snd] in *.
  unfold sock_connect in *. destruct (flookup (w_nconnect w) (f_connect flt)) as [fk |]; cbn [fst snd] in *.
  { split.
    - split; cbn [fst snd w_queue w_trace w_rands set_sock d_ext d_ocid d_vsn d_route d_size]; auto.
      + constructor; [exact I | exact T].
      + split; [exact I | exact F].
      + destruct C as [C | C]; [left; exact C | right; apply has_refused_cons; exact C].
      + constructor; [exact I | exact Z1].
    - unfold iconn. cbn [fst snd set_sock d_tconn]. rewrite Et. discriminate. }
  set (w1 := mkW _ _ _ _ _ _ _ _ _ _) in *.
  assert (Inv0 (w1, set_sock true d)) as I1.
  { split; cbn [fst snd w1 w_queue w_trace w_rands set_sock d_ext d_ocid d_vsn d_route d_size]; auto.
    - constructor; [exact I | exact T].
    - split; [exact I | exact F].
    - destruct C as [C | C]; [left; exact C | right; apply has_refused_cons; exact C].
    - constructor; [exact I | exact Z1]. }
  destruct (urandom_inv0 w1 _ I1) as (I2 & [Hc Hcl] & _).
  pose proof (urandom_w h cfg0 w1 W1) as (W2 & O2 & _).
  destruct (urandom w1) as [c w2]. cbn [fst snd] in *.
  destruct (urandom_inv0 w2 _ I2) as (I3 & [Hv Hvl] & _).
  pose proof (urandom_w h cfg0 w2 W2) as (W3 & O3 & _).
  destruct (urandom w2) as [v w3]. cbn [fst snd] in *.
  set (d1 := set_ids c v (set_opened true (set_sock true d))).
  assert (Inv (w3, d1)) as I4.
  { split.
    - destruct I3 as [Q3 T3 F3 C3 (_ & _ & B33 & B34) Y1 Y2 Y3]. cbn [fst snd] in *.
      split; cbn [fst snd d1 set_ids set_opened set_sock d_ext d_ocid d_vsn d_route d_size]; auto.
    - unfold iconn. cbn [fst snd d1 set_ids set_opened set_sock d_tconn]. rewrite Et. discriminate. }
  assert (Good h cfg0 (w3, d1)) as G4.
  { split; [exact W3 |]. split; cbn [fst snd d1 set_ids set_opened set_sock d_sock d_tconn d_session d_opened]; auto.
    intros; discriminate. }
  pose proof (drv_register_session_inv (w3, d1) G4 I4) as I5. cbv zeta in I5.
  destruct (drv_register_session h flt (w3, d1)) as [s2 r2]. cbn [fst snd] in *.
  destruct r2 as [[z |] | e]; exact I5.
Qed.

Lemma get_plc_info_inv s : Good h cfg0 s -> Inv s -> let r := get_plc_info h flt s in Inv (fst r).
Proof.
  intros G [I0 Ic]. cbv zeta. unfold get_plc_info.
  destruct (plc_info_message (snd s) (d_micro (snd s))) as [msg | e] eqn:Em; [| split; assumption].
  pose proof (plc_info_message_effect _ _ _ Em) as Heff.
  destruct (rr_frame (d_session (snd s)) msg) as [fr | e] eqn:Ef.
  2: { cbn [drv_send fst snd]. split; assumption. }
  pose proof (rr_frame_effect _ _ _ Ef) as Hfe. rewrite Heff in Hfe.
  assert (frame_effect fr = ENone) as Hfe' by (destruct (bytes_ok msg); exact Hfe).
  assert (frame_effect fr = EFo false -> has_refused_large (w_trace (fst s))) as Hfo by (rewrite Hfe'; discriminate).
  assert (fo_size_ok fr) as Hsz by (apply fo_size_ok_other; intros l; rewrite Hfe'; discriminate).
  pose proof (drv_send_inv s fr false I0 (fun _ _ => rr_frame_not_ud _ _ _ Ef _) Hfo Hsz (fun H => ltac:(discriminate))) as (Hs & I1).
  cbv zeta in *.
  assert (iconn (fst (drv_send h flt s (Ok fr) false))) as Ic1.
  { eapply sent_iconn; [exact Hs | exact G | exact Ic |]. intros _. rewrite Hfe'. exact I. }
  destruct (drv_send h flt s (Ok fr) false) as [s1 r1]. cbn [fst snd] in *.
  destruct r1 as [[raw |] | e]; cbn [fst snd]; split; assumption.
Qed.

Lemma get_plc_name_inv s : Good h cfg0 s -> Inv s -> let r := get_plc_name h flt s in Inv (fst r).
Proof.
  intros G I1. cbv zeta. unfold get_plc_name.
  pose proof (with_forward_open_good h cfg0 flt s G) as (G1 & _ & _).
  pose proof (with_forward_open_inv s G I1) as (I2 & T2). cbv zeta in *.
  destruct (with_forward_open h flt s) as [s1 r1]. cbn [fst snd] in *.
  destruct r1 as [[] | e]; [| exact I2].
  pose proof (connected_request_inv s1 PLC_NAME_MSG G1 I2 (T2 eq_refl)) as I3. cbv zeta in I3.
  destruct (connected_request h flt s1 PLC_NAME_MSG) as [s2 r2]. cbn [fst snd] in *.
  destruct r2 as [[[|] data] | e]; exact I3.
Qed.

Lemma initialize_driver_inv s : Good h cfg0 s -> Inv s -> let r := initialize_driver h flt s in Inv (fst r).
Proof.
  intros G [I0 Ic]. cbv zeta. unfold initialize_driver.
  pose proof (drv_send_good h cfg0 flt s (list_identity_frame (d_session (snd s))) false G (proj2 (proj2 (simple_frames_ok _)))) as (G1 & _ & _).
  cbv zeta in G1.
  destruct (list_identity_frame (d_session (snd s))) as [fr | e] eqn:Ef.
  2: { cbn [drv_send fst snd]. split; assumption. }
  pose proof (list_identity_frame_effect _ _ Ef) as Hfe.
  assert (frame_effect fr = EFo false -> has_refused_large (w_trace (fst s))) as Hfo by (rewrite Hfe; discriminate).
  assert (fo_size_ok fr) as Hsz by (apply fo_size_ok_other; intros l; rewrite Hfe; discriminate).
  pose proof (drv_send_inv s fr false I0 (fun _ _ => list_identity_frame_not_ud _ _ Ef _) Hfo Hsz (fun H => ltac:(discriminate))) as (Hs & I1).
  cbv zeta in *.
  assert (iconn (fst (drv_send h flt s (Ok fr) false))) as Ic1.
  { eapply sent_iconn; [exact Hs | exact G | exact Ic |]. intros _. rewrite Hfe. exact I. }
  destruct (drv_send h flt s (Ok fr) false) as [[w1 d1] r1]. cbn [fst snd] in *.
  destruct r1 as [reply | e]; [| split; assumption].
  set (micro := match reply with Some raw => starts_with MICRO800_PREFIX (product_name_of raw) | None => false end).
  set (s2 := (w1, set_micro micro d1)).
  assert (Inv s2) as I2 by (eapply inv_dsame; [| | split; eassumption]; repeat split).
  assert (Good h cfg0 s2) as G2.
  { eapply soft_good; [| apply G1 | exact G1]. apply (soft_upd (w1, d1)); try reflexivity. cbn. auto. }
  pose proof (get_plc_info_good h cfg0 flt s2 G2) as (G3 & _ & _).
  pose proof (get_plc_info_inv s2 G2 I2) as I3. cbv zeta in *.
  destruct (get_plc_info h flt s2) as [s3 r3]. cbn [fst snd] in *.
  destruct r3 as [u | e]; [| exact I3].
  assert (exists s4 r4, (if micro then (s3, Ok tt) else get_plc_name h flt s3) = (s4, r4) /\ Inv s4) as (s4 & r4 & E4 & I4).
  { destruct micro.
    - exists s3, (Ok tt). split; [reflexivity | exact I3].
    - pose proof (get_plc_name_inv s3 G3 I3) as Ia. cbv zeta in Ia.
      destruct (get_plc_name h flt s3) as [sa ra]. exists sa, ra. split; [reflexivity | exact Ia]. }
  rewrite E4. destruct r4 as [u4 | e]; [| exact I4].
  cbn [fst snd]. destruct s4 as [w4 d4]. cbn [fst snd].
  destruct micro; [| exact I4].
  destruct I4 as [[Q T F C (B1 & B2 & B3 & B4)] Ic4]. cbn [fst snd] in *.
  split.
  - split; cbn [fst snd set_route d_ext d_ocid d_vsn d_route]; auto.
    split; [exact B1 |]. split; [exact B2 |]. split; [apply all_bytes_removelast; exact B3 | exact B4].
  - eapply iconn_dsame; [| exact Ic4]. repeat split.
Qed.

Lemma drv_open_inv logix s : Good h cfg0 s -> Inv s -> let r := drv_open h logix flt s in Inv (fst r).
Proof.
  intros G I1. cbv zeta. unfold drv_open. destruct logix; [| apply cip_open_inv; assumption].
  unfold logix_open.
  pose proof (cip_open_good h cfg0 flt s G) as (G1 & _).
  pose proof (cip_open_inv s G I1) as I2. cbv zeta in *.
  destruct (cip_open h flt s) as [s1 r1]. cbn [fst snd] in *.
  destruct r1 as [[|] | e]; try exact I2.
  pose proof (initialize_driver_inv s1 G1 I2) as I3. cbv zeta in I3.
  destruct (initialize_driver h flt s1) as [s2 r2]. cbn [fst snd] in *.
  destruct r2; exact I3.
Qed.

(* ---------------------------------------------------------------- close *)
Lemma drv_forward_close_inv0 s : Good h cfg0 s -> Inv0 s -> let r := drv_forward_close h flt s in Inv0 (fst r).
Proof.
  intros G I0. cbv zeta. unfold drv_forward_close. destruct s as [w d].
  destruct (d_session d =? 0); [exact I0 |].
  destruct (fc_message d) as [msg | e] eqn:Em; [| exact I0].
  pose proof (fc_message_effect d msg Em) as Heff.
  assert (msg_effect msg = EFo false -> has_refused_large (w_trace (fst (w, d)))) as Hfo by (rewrite Heff; discriminate).
  assert (forall fr, rr_frame (d_session (snd (w, d))) msg = Ok fr -> fo_size_ok fr) as Hsz.
  { intros fr Hfr. apply fo_size_ok_other. intros l. rewrite (rr_frame_effect _ _ _ Hfr), Heff. destruct (bytes_ok msg); discriminate. }
  pose proof (generic_unconnected_inv (w, d) msg G I0 Hfo Hsz) as (I1 & _). cbv zeta in *.
  destruct (generic_unconnected h flt (w, d) msg) as [[w1 d1] r1]. cbn [fst snd] in *.
  destruct r1 as [[[|] value] | e]; cbn [fst snd]; try exact I1.
  eapply inv0_dsame; [| exact I1]. repeat split.
Qed.

Lemma drv_un_register_session_inv0 s : Inv0 s -> let r := drv_un_register_session h flt s in Inv0 (fst r).
Proof.
  intros I0. cbv zeta. unfold drv_un_register_session.
  destruct (unregister_frame (d_session (snd s))) as [fr | e] eqn:Ef.
  2: { cbn [drv_send fst snd]. exact I0. }
  assert (frame_effect fr = EFo false -> has_refused_large (w_trace (fst s))) as Hfo.
  { intros E. exfalso. eapply (frame_effect_not_fo fr); [| exact E].
    unfold unregister_frame in Ef. rewrite (build_request_cmd _ _ _ _ _ Ef). discriminate. }
  assert (fo_size_ok fr) as Hsz.
  { apply fo_size_ok_other. apply frame_effect_not_fo. unfold unregister_frame in Ef. rewrite (build_request_cmd _ _ _ _ _ Ef). discriminate. }
  pose proof (drv_send_inv s fr true I0 (fun _ _ => unregister_frame_not_ud _ _ Ef _) Hfo Hsz (fun _ => unregister_no_reply _ _ Ef)) as (_ & I1).
  cbv zeta in *. destruct (drv_send h flt s (Ok fr) true) as [s1 r1]. cbn [fst snd] in *.
  destruct r1; exact I1.
Qed.

Lemma drv_close_inv s : Good h cfg0 s -> Inv0 s -> let r := drv_close h flt s in Inv (fst r).
Proof.
  intros G I0. cbv zeta. unfold drv_close.
  assert (exists s1 r1, (if d_tconn (snd s)
                         then let (sa, ra) := drv_forward_close h flt s in (sa, match ra with Err e => Err e | Ok _ => Ok tt end)
                         else (s, Ok tt)) = (s1, r1) /\ Good h cfg0 s1 /\ Inv0 s1) as (s1 & r1 & E1 & G1 & I1).
  { destruct (d_tconn (snd s)).
    - pose proof (drv_forward_close_good h cfg0 flt s G) as (Ga & _ & _).
      pose proof (drv_forward_close_inv0 s G I0) as Ia. cbv zeta in Ia.
      destruct (drv_forward_close h flt s) as [sa ra]. eexists. eexists. split; [reflexivity |]. auto.
    - exists s, (Ok tt). auto. }
  rewrite E1.
  assert (exists s2 r2, match r1 with
                        | Err e => (s1, Err e)
                        | Ok _ => if negb (d_session (snd s1) =? 0) then drv_un_register_session h flt s1 else (s1, Ok tt)
                        end = (s2, r2) /\ Inv0 s2) as (s2 & r2 & E2 & I2).
  { destruct r1 as [u | e]; [| eexists; eexists; split; [reflexivity | exact I1]].
    destruct (negb (d_session (snd s1) =? 0)); [| eexists; eexists; split; [reflexivity | exact I1]].
    pose proof (drv_un_register_session_inv0 s1 I1) as Ia. cbv zeta in Ia.
    destruct (drv_un_register_session h flt s1) as [sa ra]. eexists. eexists. split; [reflexivity | exact Ia]. }
  rewrite E2.
  assert (exists s3 r3, (if d_sock (snd s2) then let (w', rc) := sock_close flt (fst s2) in ((w', snd s2), rc) else (s2, Ok tt)) = (s3, r3)
                        /\ Inv0 s3) as (s3 & r3 & E3 & I3).
  { destruct (d_sock (snd s2)); [| eexists; eexists; split; [reflexivity | exact I2]].
    destruct I2 as [Q T F C B Z1 Z2 Z3]. unfold sock_close.
    destruct (flookup (w_nclose (fst s2)) (f_close flt)); eexists; eexists; (split; [reflexivity |]);
      (split; cbn [fst snd w_queue w_trace w_rands]; auto;
       [constructor; [exact I | exact T] | split; [exact I | exact F]
        | destruct C as [C | C]; [left; exact C | right; apply has_refused_cons; exact C]
        | constructor; [exact I | exact Z1]]). }
  rewrite E3.
  assert (Inv (fst s3, reset_driver (snd s3))) as I4.
  { split.
    - destruct s3 as [w3 d3]. eapply inv0_dsame; [| exact I3]. repeat split.
    - unfold iconn. cbn [fst snd reset_driver set_opened set_session set_tconn set_sock d_tconn]. discriminate. }
  destruct r2, r3; exact I4.
Qed.

(* ================================================================ operations and histories *)
Definition sop_ok (o : sop) : Prop :=
  match o with GenericUnconnected msg => user_ok msg = true | _ => True end.
Definition op_ok (o : op) : Prop :=
  match o with Simple so => sop_ok so | WithBlock body _ => Forall sop_ok body end.

Lemma exec_sop_inv logix s o : Good h cfg0 s -> Inv s -> sop_ok o -> Inv (fst (exec_sop h logix flt s o)).
Proof.
  intros G I1 Hok. destruct o as [| | m | m | items sa]; cbn [exec_sop].
  - pose proof (drv_open_inv logix s G I1) as I2. cbv zeta in I2.
    destruct (drv_open h logix flt s) as [s1 r1]. exact I2.
  - pose proof (drv_close_inv s G (proj1 I1)) as I2. cbv zeta in I2.
    destruct (drv_close h flt s) as [s1 r1]. exact I2.
  - pose proof (generic_connected_inv s m G I1) as I2. cbv zeta in I2.
    destruct (generic_connected h flt s m) as [s1 r1]. exact I2.
  - cbn [sop_ok] in Hok. unfold user_ok in Hok.
    assert (msg_effect m = ENone) as Heff by (destruct (msg_effect m); try discriminate; reflexivity).
    destruct I1 as [I0 Ic].
    assert (msg_effect m = EFo false -> has_refused_large (w_trace (fst s))) as Hfo by (rewrite Heff; discriminate).
    assert (forall fr, rr_frame (d_session (snd s)) m = Ok fr -> fo_size_ok fr) as Hsz.
    { intros fr Hfr. apply fo_size_ok_other. intros l. rewrite (rr_frame_effect _ _ _ Hfr), Heff. destruct (bytes_ok m); discriminate. }
    pose proof (generic_unconnected_inv s m G I0 Hfo Hsz) as (I2 & _ & Hic & _). cbv zeta in *.
    destruct (generic_unconnected h flt s m) as [s1 r1]. cbn [fst snd] in *.
    split; [exact I2 |]. apply Hic; [| exact Ic]. intros _. rewrite Heff. discriminate.
  - pose proof (connected_call_inv s items sa G I1) as I2. cbv zeta in I2.
    destruct (connected_call h flt s items sa) as [s1 r1]. exact I2.
Qed.

Lemma exec_body_inv logix body : forall s, Good h cfg0 s -> Inv s -> Forall sop_ok body ->
  Inv (fst (fst (exec_body h logix flt s body))).
Proof.
  induction body as [| o rest IH]; intros s G I1 Hok; cbn [exec_body]; [exact I1 |].
  inversion Hok as [| ? ? Ho Hr]; subst.
  pose proof (exec_sop_good h cfg0 logix flt s o G) as (G1 & _ & _).
  pose proof (exec_sop_inv logix s o G I1 Ho) as I2. cbv zeta in *.
  destruct (exec_sop h logix flt s o) as [s1 out]. cbn [fst snd] in *.
  specialize (IH s1 G1 I2 Hr).
  destruct (exec_body h logix flt s1 rest) as [[s2 l] e]. cbn [fst snd] in *.
  destruct out; cbn [fst snd]; try exact IH. exact I2.
Qed.

Lemma exec_op_inv logix s o : Good h cfg0 s -> Inv s -> op_ok o -> Inv (fst (exec_op h logix flt s o)).
Proof.
  intros G I1 Hok. destruct o as [so | body raises]; cbn [exec_op].
  - pose proof (exec_sop_inv logix s so G I1 Hok) as I2.
    destruct (exec_sop h logix flt s so) as [s1 out]. exact I2.
  - pose proof (drv_open_good h cfg0 logix flt s G) as (G1 & _).
    pose proof (drv_open_inv logix s G I1) as I2. cbv zeta in *.
    destruct (drv_open h logix flt s) as [s1 r1]. cbn [fst snd] in *.
    destruct r1 as [b | e]; [| exact I2].
    pose proof (exec_body_good h cfg0 logix flt body s1 G1) as (G2 & _ & _).
    pose proof (exec_body_inv logix body s1 G1 I2 Hok) as I3. cbv zeta in *.
    destruct (exec_body h logix flt s1 body) as [[s2 l] e]. cbn [fst snd] in *.
    pose proof (drv_close_inv s2 G2 (proj1 I3)) as I4. cbv zeta in I4.
    destruct (drv_close h flt s2) as [s3 r3]. exact I4.
Qed.

Lemma run_ops_inv logix ops : forall s, Good h cfg0 s -> Inv s -> Forall op_ok ops ->
  Inv (fst (run_ops h logix flt s ops)).
Proof.
  induction ops as [| o rest IH]; intros s G I1 Hok; cbn [run_ops]; [exact I1 |].
  inversion Hok as [| ? ? Ho Hr]; subst.
  pose proof (exec_op_good h cfg0 logix flt s o G) as (G1 & _).
  pose proof (exec_op_inv logix s o G I1 Ho) as I2. cbv zeta in *.
  destruct (exec_op h logix flt s o) as [s1 l1]. cbn [fst snd] in *.
  specialize (IH s1 G1 I2 Hr).
  destruct (run_ops h logix flt s1 rest) as [s2 l2]. exact IH.
Qed.
End Inv.

Lemma start_inv {S} (h : handler S) (app : S) cfg inj rands route :
  all_bytes route -> all_draws rands ->
  Inv h (init_world (start_target cfg inj app) rands, init_dstate route).
Proof.
  intros Hr Hn. split.
  - split; cbn [fst snd init_world init_dstate w_queue w_trace w_rands d_ext d_ocid d_vsn d_route d_size].
    all: try reflexivity. all: try (constructor; fail). all: try exact I. all: auto.
    all: try (repeat split; auto; fail). all: try (left; split; reflexivity).
  - unfold iconn. cbn. discriminate.
Qed.
