(* Proofs/ReadValue.v — from the reply data of a read service to the Tag read() returns.
     read_response_204/210    the envelope of a valid Read Tag (Fragmented) reply is parsed away: what is
                              left is parse_read_reply on the service data (also behind the 46-byte padding)
     data_value               element(s) of a non-BOOL-array type: parse_read_reply . target image = the
                              reference value (single element, {n} list, {1} unwrapped, whole structures
                              re-ordered to their attribute order), type string = name / name[n]
     int_bit_value            tag.bit of an integer
     bool_value               a BOOL tag / BOOL member (one byte, 0 / non-zero)
     bools_value              BOOL-array element and range: value[bit], value[bit : bit + n]
   No axioms. *)
From Coq Require Import ZifyBool Permutation.
From PV Require Import Base.Bytes Base.BytesLemmas Base.Res Base.Proto Base.PyStr.
From PV Require Import Gen.Consts Model.Path Model.Reply Model.LogixRead.
From PV Require Import Spec.Project Spec.Expect.
From PV Require Import Proofs.TargetLogixP Proofs.ReadBits Proofs.ReadDecode.
Open Scope Z_scope.
Ltac Zify.zify_post_hook ::= Z.to_euclidean_division_equations.

(* ================================================================ the envelope *)
Lemma read_response_204 data info n :
  read_response (unit_prefix ++ 204 :: 0 :: 0 :: 0 :: data) info n
  = match parse_read_reply_t data info n with Ok vt => Some vt | Err _ => None end.
Proof.
  unfold read_response.
  replace (is_valid KUnit (parse_unit (unit_prefix ++ 204 :: 0 :: 0 :: 0 :: data))) with true by (vm_compute; reflexivity).
  replace (Reply.r_data (parse_unit (unit_prefix ++ 204 :: 0 :: 0 :: 0 :: data))) with (Some data) by (vm_compute; reflexivity).
  reflexivity.
Qed.

Lemma read_response_204_padded data info n :
  read_response (padding46 ++ 204 :: 0 :: 0 :: 0 :: data) info n
  = match parse_read_reply_t data info n with Ok vt => Some vt | Err _ => None end.
Proof.
  unfold read_response.
  replace (is_valid KUnit (parse_unit (padding46 ++ 204 :: 0 :: 0 :: 0 :: data))) with true by (vm_compute; reflexivity).
  replace (Reply.r_data (parse_unit (padding46 ++ 204 :: 0 :: 0 :: 0 :: data))) with (Some data) by (vm_compute; reflexivity).
  reflexivity.
Qed.

(* a Read Tag Fragmented reply, status 0 (last) or 6 (more follows): valid, its data is what follows the envelope *)
Lemma parse_unit_210 st data : st = 0 \/ st = 6 ->
  is_valid KUnit (parse_unit (unit_prefix ++ 210 :: 0 :: st :: 0 :: data)) = true
  /\ Reply.r_data (parse_unit (unit_prefix ++ 210 :: 0 :: st :: 0 :: data)) = Some data
  /\ r_service_status (parse_unit (unit_prefix ++ 210 :: 0 :: st :: 0 :: data)) = Some st.
Proof. intros [->| ->]; vm_compute; repeat split; reflexivity. Qed.

(* ================================================================ Python values *)
Lemma pyeq_dict_inv fa fb : pyeq (RStruct fa) (RStruct fb) ->
  fa = fb \/ (NoDup (map fst fa) /\ NoDup (map fst fb) /\ length fa = length fb
              /\ forall k v, In (k, v) fa -> exists v', dget k fb = Some v' /\ pyeq v v').
Proof. intros H. inversion H; subst; [left; reflexivity|right; auto]. Qed.

Lemma dget_in {A} k (v : A) d : dget k d = Some v -> In (k, v) d.
Proof.
  induction d as [|[k' v'] r IH]; [discriminate|]. cbn. destruct (text_eqb k' k) eqn:E.
  - intros H; injection H as <-. apply teqb_eq in E. subst. left. reflexivity.
  - intros H. right. auto.
Qed.

Lemma dget_some_key {A} k (d : list (text * A)) : In k (map fst d) -> exists v, dget k d = Some v.
Proof.
  induction d as [|[k' v'] r IH]; [contradiction|]. cbn. intros [E|Hin].
  - subst. rewrite teqb_refl. eauto.
  - destruct (text_eqb k' k); [eauto|auto].
Qed.

(* {attr: value[attr] for attr in attrs}: attrs distinct and all present *)
Lemma pick_attrs_spec fs : forall attrs acc,
  NoDup attrs -> (forall a, In a attrs -> In a (map fst fs)) -> (forall a, In a attrs -> dget a acc = None) ->
  exists picked, pick_attrs fs attrs acc = Ok (acc ++ picked)
                 /\ map fst picked = attrs /\ forall k v, In (k, v) picked -> dget k fs = Some v.
Proof.
  induction attrs as [|a r IH]; intros acc Hnd Hin Hfr.
  - exists []. rewrite app_nil_r. split; [reflexivity|]. split; [reflexivity|]. intros k v [].
  - cbn [pick_attrs]. destruct (dget_some_key a fs (Hin a (or_introl eq_refl))) as [x Hx]. rewrite Hx.
    inversion Hnd as [|y l Hn Hd]; subst.
    rewrite (dset_fresh _ _ _ (Hfr a (or_introl eq_refl))).
    destruct (IH (acc ++ [(a, x)]) Hd) as (picked & Hp & Hk & Hv).
    + intros b Hb. apply Hin. right. exact Hb.
    + intros b Hb. rewrite dget_app, (Hfr b (or_intror Hb)). cbn [dget].
      rewrite teqb_neq; [reflexivity|]. intros E. subst. contradiction.
    + exists ((a, x) :: picked). rewrite Hp, <- app_assoc. split; [reflexivity|]. split; [cbn; congruence|].
      intros k v [E|Hkv]; [injection E as <- <-; exact Hx|apply Hv; exact Hkv].
Qed.

(* re-ordering a dict to a permutation of its keys keeps it equal (as a Python dict) to whatever it was equal to *)
Lemma pyeq_repick fa fb picked :
  pyeq (RStruct fa) (RStruct fb) -> NoDup (map fst fa) -> NoDup (map fst fb) ->
  map fst picked = map fst fb -> (forall k v, In (k, v) picked -> dget k fa = Some v) ->
  pyeq (RStruct picked) (RStruct fb).
Proof.
  intros Hpy Hna Hnb Hkeys Hget.
  apply pe_dict.
  - rewrite Hkeys. exact Hnb.
  - exact Hnb.
  - rewrite <- (map_length fst picked), Hkeys, map_length. reflexivity.
  - intros k v Hin. pose proof (Hget k v Hin) as Hk. apply dget_in in Hk.
    destruct (pyeq_dict_inv _ _ Hpy) as [->|(_ & _ & _ & Hall)].
    + exists v. split; [apply dget_nodup_in; assumption|apply pe_refl].
    + apply Hall. exact Hk.
Qed.

(* ================================================================ element(s) of a data type *)
Definition info_elem (i : tinfo) : tclass := match ti_class i with KArr _ e => e | tc => tc end.
Definition info_is_arr (i : tinfo) : bool := match ti_class i with KArr _ _ => true | _ => false end.

(* pycomm3 returns the single value for an explicit {1} *)
Definition unwrap1 (cnt : option Z) (v : rvalue) : rvalue :=
  match cnt with
  | Some 1 => match v with RList [x] => x | _ => v end
  | _ => v
  end.

(* the type field of a read reply for element type [ty]: the target's [type_bytes] *)
Definition type_field (p : project) (ty : base_ty) (tb : bytes) : Prop :=
  match ty with
  | BAtom c => tb = le_enc 2 c /\ 0 <= c < 256
  | BStruct tid => exists t, find_template (p_templates p) tid = Some t /\ tb = 160 :: 2 :: le_enc 2 (t_handle t)
  | BOpaque _ => False
  end.

Lemma type_field_stream p ty tb d : type_field p ty tb ->
  (if is_struct_reply (tb ++ d) then skipn 4 (tb ++ d) else skipn 2 (tb ++ d)) = d
  /\ is_struct_reply (tb ++ d) = match ty with BStruct _ => true | _ => false end.
Proof.
  destruct ty as [c|tid|w]; cbn [type_field].
  - intros [-> Hc]. cbn [le_enc app]. unfold is_struct_reply. cbn [firstn].
    replace (c / 256 mod 256) with 0 by lia.
    assert (E : PyStr.text_eqb [c mod 256; 0] STRUCTURE_READ_REPLY = false).
    { unfold STRUCTURE_READ_REPLY. cbn. destruct (c mod 256 =? 160); reflexivity. }
    rewrite E. split; reflexivity.
  - intros (t & _ & ->). cbn [le_enc app]. split; reflexivity.
  - contradiction.
Qed.

Lemma chunks_one s (d : bytes) : length d = s -> Expect.chunks 1 s d = [d].
Proof. intros <-. cbn. rewrite firstn_all. reflexivity. Qed.

Lemma decode_array_one dv ty s d : is_bits_ty ty = false -> len d = s -> 0 <= s ->
  decode_array_with dv ty s 1 d = match dv ty d with Some x => Some (RList [x]) | None => None end.
Proof.
  intros Hb Hl Hs. unfold decode_array_with. rewrite Hb. change (Z.to_nat 1) with 1%nat.
  rewrite chunks_one by (unfold len in Hl; lia). cbn. destruct (dv ty d); reflexivity.
Qed.

Lemma pyeq_list1_inv x y : pyeq (RList [x]) (RList [y]) -> pyeq x y.
Proof.
  intros H. inversion H as [|xs ys HF|]; subst; [apply pe_refl|].
  inversion HF as [|a b la lb Hab Hrest]; subst. exact Hab.
Qed.

Lemma forall2_len {A B} (R : A -> B -> Prop) l1 l2 : Forall2 R l1 l2 -> length l1 = length l2.
Proof. induction 1; cbn; congruence. Qed.

Lemma pyeq_list_shape xs v : pyeq (RList xs) v -> exists ys, v = RList ys /\ length ys = length xs.
Proof.
  intros H. inversion H as [|xs' ys HF|]; subst; [eauto|].
  apply forall2_len in HF. eauto.
Qed.

Lemma rbools_not_single d : (1 <= length d)%nat -> forall x, rbools d <> RList [x].
Proof.
  intros Hl x H. unfold rbools in H. injection H as H. apply (f_equal (@length _)) in H.
  rewrite map_length, bools_of_bytes_length in H. cbn in H. lia.
Qed.

Lemma decode_val_fuel_struct_keys f p tid d fs t :
  decode_val f p (BStruct tid) d = Some (RStruct fs) -> find_template (p_templates p) tid = Some t ->
  map fst fs = map m_name (visible_members t).
Proof.
  destruct f as [|f]; [discriminate|]. cbn [decode_val]. intros H Hf. rewrite Hf in H.
  destruct (negb (Expect.blen d =? t_size t)); [discriminate|].
  destruct (string_shape t) as [[l dd]|].
  - unfold decode_string in H. repeat (destruct (get_bytes _ _ _); try discriminate). destruct (_ && _); discriminate.
  - match type of H with match all_some (map ?g ?l) with _ => _ end = _ => destruct (all_some (map g l)) as [ms|] eqn:Ea end;
      [|discriminate].
    injection H as <-. apply all_some_forall2 in Ea.
    induction Ea as [|m kv l1 l2 Hm _ IH]; [reflexivity|]. cbn [map]. rewrite IH. f_equal.
    destruct (decode_member_with _ _ _ _); [|discriminate]. injection Hm as <-. reflexivity.
Qed.

Lemma nodup_incl_rev {A} (l l' : list A) : NoDup l -> NoDup l' -> length l = length l' -> incl l l' -> incl l' l.
Proof. intros H1 H2 Hl Hi. apply NoDup_length_incl; [assumption|lia|assumption]. Qed.

Lemma array_spec_of p f1 ty e s n : layout_ok p = true -> elem_tc f1 p ty = Some e -> base_size p ty = Some s ->
  0 < s -> 0 <= n -> array_spec p ty e s n /\ is_bitarray e = is_bits_ty ty /\ elem_spec p ty e s.
Proof.
  intros Hlay He Hs Hpos Hn.
  pose proof (decode_elem_spec p Hlay f1 ty e s He Hs) as Hspec.
  destruct ty as [c|tid|w]; cbn [elem_tc] in He; try discriminate.
  - destruct (atom_class c); [|discriminate]. injection He as <-. cbn [base_size] in Hs.
    split; [apply decode_array_atom; assumption|]. split; [apply (is_bitarray_atom c s Hs)|exact Hspec].
  - assert (Hnb : is_bitarray e = false).
    { destruct f1 as [|f]; [discriminate|]. cbn [struct_dtype] in He.
      destruct (find_template (p_templates p) tid); [|discriminate].
      destruct (member_infos (struct_dtype f p) (t_members t)); [|discriminate].
      cbv beta iota delta [option_map] in He. assert (E : e = dt_class (dtype_of t l)) by congruence. rewrite E. apply dt_class_not_bits. }
    split; [apply decode_array_struct; assumption|]. split; [exact Hnb|exact Hspec].
Qed.

Section DataValue.
  Variables (p : project) (ty : base_ty) (s : Z) (info : tinfo) (tb : bytes).
  Hypothesis Hlay : layout_ok p = true.
  Hypothesis Hsz : base_size p ty = Some s.
  Hypothesis Hspos : 0 < s.
  Hypothesis Helem : exists f1, elem_tc f1 p ty = Some (info_elem info).
  Hypothesis Htb : type_field p ty tb.
  Hypothesis Hstruct :
    match ty with
    | BStruct tid => ti_struct info = true /\ exists t, find_template (p_templates p) tid = Some t
                                                   /\ ti_attrs info = map m_name (visible_members t)
    | _ => True
    end.

  (* an array class: n elements (one element: the element itself unless it is a bit string) *)
  Lemma parse_reply_array n d : info_is_arr info = true -> 1 <= n -> len d = s * n -> bytes_ok d = true ->
    exists v, parse_read_reply_t (tb ++ d) info n = Ok (v, type_string (ti_dtname info) n)
      /\ (if (n =? 1) && negb (is_bits_ty ty)
          then forall f2 x, decode_val f2 p ty d = Some x -> pyeq v x
          else forall f2 x, decode_array_with (decode_val f2 p) ty s n d = Some x -> pyeq v x).
  Proof.
    intros Harr Hn Hl Hokd. destruct Helem as [f1 He].
    unfold parse_read_reply_t. destruct (type_field_stream p ty tb d Htb) as [Hstream _]. rewrite Hstream.
    unfold info_is_arr, info_elem in *. destruct (ti_class info) as [|n0 e| |]; try discriminate.
    destruct (array_spec_of p f1 ty e s n Hlay He Hsz Hspos ltac:(lia)) as (Harrspec & Hbits & Hes).
    unfold decode_array_len. replace (n =? 0) with false by lia.
    destruct (Harrspec d [] Hl Hokd) as (v' & Hv' & Hpy). rewrite app_nil_r in Hv'. rewrite Hv'. cbn [bind].
    rewrite Hbits.
    destruct ((n =? 1) && negb (is_bits_ty ty)) eqn:Ec.
    - apply andb_prop in Ec. destruct Ec as [E1 E2]. assert (n = 1) by lia. subst n.
      apply negb_true_iff in E2.
      (* the one decoded element *)
      destruct (Hes d [] ltac:(lia) Hokd) as (x' & Hx' & Hpx). rewrite app_nil_r in Hx'.
      assert (Hv1 : v' = RList [x']).
      { rewrite decode_tc_arr in Hv'. change (Z.to_nat 1) with 1%nat in Hv'. cbn [dec_many] in Hv'.
        rewrite Hx' in Hv'. cbn [bind wrap_decode] in Hv'. rewrite Hbits, E2 in Hv'. congruence. }
      subst v'. cbn [bind]. eexists. split; [reflexivity|]. exact Hpx.
    - cbn [bind]. eexists. split; [reflexivity|]. exact Hpy.
  Qed.

  Lemma visible_names_nodup t : In t (p_templates p) -> NoDup (map m_name (visible_members t)).
  Proof.
    intros Hin. unfold visible_members. apply NoDup_map_filter. apply distinct_by_nodup.
    pose proof (forallb_In _ _ _ Hlay Hin) as Ht. apply (sc_lay p t Ht).
  Qed.

  Lemma decode_struct_shape ms bits priv size d v r : decode_tc (KStruct ms bits priv size) d = Ok (v, r) ->
    exists fs, v = RStruct fs.
  Proof.
    rewrite decode_tc_struct. destruct (negb _ && _); [discriminate|].
    destruct (dec_members _ _ _ _) as [vals|]; [|destruct e; discriminate].
    cbn [bind]. destruct (dec_bits _ _ _) as [vals2|]; [|destruct e; discriminate].
    cbn [bind wrap_decode]. intros H. injection H as <- _. eauto.
  Qed.

  (* a non-array class: one element; a whole structure is re-ordered to its attribute list *)
  Lemma parse_reply_scalar d : info_is_arr info = false -> len d = s -> bytes_ok d = true ->
    forall f2 x, decode_val f2 p ty d = Some x ->
    exists v, parse_read_reply_t (tb ++ d) info 1 = Ok (v, type_string (ti_dtname info) 1) /\ pyeq v x.
  Proof.
    intros Harr Hl Hokd f2 x Hx. destruct Helem as [f1 He].
    unfold parse_read_reply_t. destruct (type_field_stream p ty tb d Htb) as [Hstream Hsr]. rewrite Hstream, Hsr.
    assert (Hcls : ti_class info = info_elem info).
    { unfold info_elem, info_is_arr in *. destruct (ti_class info); try reflexivity. discriminate. }
    pose proof (decode_elem_spec p Hlay f1 ty (info_elem info) s He Hsz) as Hspec.
    destruct (Hspec d [] Hl Hokd) as (v' & Hv' & Hpy). rewrite app_nil_r in Hv'.
    specialize (Hpy f2 x Hx).
    assert (Hgen : forall tc, tc = info_elem info ->
      exists v, (let* v0 := (let* (v1, _) := decode_tc tc d in
                   if (match ty with BStruct _ => true | _ => false end) && negb (match tc with KStr _ _ => true | _ => false end)
                   then match v1 with
                        | RStruct fs => let* fs' := pick_attrs fs (ti_attrs info) [] in
                                        if ti_struct info then Ok (RStruct fs') else Err (Foreign TypeError)
                        | _ => Err (Foreign TypeError)
                        end
                   else Ok v1) in Ok (v0, type_string (ti_dtname info) 1)) = Ok (v, type_string (ti_dtname info) 1)
                /\ pyeq v x).
    { intros tc ->. rewrite Hv'. cbn [bind].
      destruct ty as [c|tid|w]; cbn [andb].
      - eexists. split; [reflexivity|exact Hpy].
      - destruct Hstruct as (Hts & t & Hft & Hattrs).
        destruct (match info_elem info with KStr _ _ => true | _ => false end) eqn:Ek; cbn [negb].
        + eexists. split; [reflexivity|exact Hpy].
        + (* a structure: the client value is a dict; the reference value too *)
          assert (Hk : exists ms bits priv size, info_elem info = KStruct ms bits priv size).
          { cbn [elem_tc] in He. destruct f1 as [|f]; [discriminate|]. cbn [struct_dtype] in He.
            destruct (find_template (p_templates p) tid); [|discriminate].
            destruct (member_infos (struct_dtype f p) (t_members t0)); [|discriminate].
            cbv beta iota delta [option_map] in He.
            assert (E : info_elem info = dt_class (dtype_of t0 l)) by congruence.
            rewrite E in Ek |- *. unfold dtype_of, dt_class in *. destruct (is_string_dtype _); [discriminate|]. eauto. }
          destruct Hk as (ms & bits & priv & size & Hk). rewrite Hk in Hv'.
          destruct (decode_struct_shape _ _ _ _ _ _ _ Hv') as [fa ->].
          assert (Hxs : exists fb, x = RStruct fb).
          { inversion Hpy; subst; eauto. }
          destruct Hxs as [fb ->].
          pose proof (decode_val_fuel_struct_keys _ _ _ _ _ _ Hx Hft) as Hkeys.
          destruct (find_template_in _ _ _ Hft) as [Hint _].
          assert (Hnb : NoDup (map fst fb)) by (rewrite Hkeys; apply visible_names_nodup; exact Hint).
          assert (Hfacts : NoDup (map fst fa) /\ incl (map fst fb) (map fst fa)).
          { destruct (pyeq_dict_inv _ _ Hpy) as [->|(Hna & _ & Hlen & Hall)]; [split; [exact Hnb|apply incl_refl]|].
            split; [exact Hna|]. apply nodup_incl_rev; try assumption.
            - rewrite !map_length. exact Hlen.
            - intros k Hk'. apply in_map_iff in Hk'. destruct Hk' as ([k' v0] & E & Hin). cbn [fst] in E. subst k'.
              destruct (Hall k v0 Hin) as (v1 & Hg & _). apply dget_in in Hg. apply (in_map fst) in Hg. exact Hg. }
          destruct Hfacts as [Hna Hincl].
          destruct (pick_attrs_spec fa (ti_attrs info) []) as (picked & Hp & Hpk & Hpv).
          { rewrite Hattrs, <- Hkeys. exact Hnb. }
          { intros a Ha. apply Hincl. rewrite Hkeys, <- Hattrs. exact Ha. }
          { intros a _. reflexivity. }
          rewrite Hp. cbn [bind app]. rewrite Hts. eexists. split; [reflexivity|].
          apply (pyeq_repick fa fb picked Hpy Hna Hnb); [rewrite Hpk, Hattrs, Hkeys; reflexivity|exact Hpv].
      - cbn [type_field] in Htb. contradiction. }
    destruct (Hgen (ti_class info) Hcls) as (v & Hv & Hp).
    exists v. split; [|exact Hp].
    unfold info_is_arr in Harr. revert Hv. destruct (ti_class info); try discriminate Harr; intros Hv; exact Hv.
  Qed.
End DataValue.

(* ================================================================ the Tag of one request *)
Definition reply_opt (data : bytes) (info : tinfo) (n : Z) : option (rvalue * text) :=
  match parse_read_reply_t data info n with Ok vt => Some vt | Err _ => None end.

Definition cnt_n (cnt : option Z) : Z := match cnt with Some k => k | None => 1 end.

(* ---------------------------------------------------------------- element(s) of a data type, no bit *)
Theorem data_value p ty s info tb img off avail cnt vref d user plc :
  layout_ok p = true -> base_size p ty = Some s -> 0 < s ->
  (exists f1, elem_tc f1 p ty = Some (info_elem info)) -> type_field p ty tb ->
  (match ty with
   | BStruct tid => ti_struct info = true /\ exists t, find_template (p_templates p) tid = Some t
                                                  /\ ti_attrs info = map m_name (visible_members t)
   | _ => True
   end) ->
  text_eqb (ti_dtname info) txt_DWORD = false ->
  (info_is_arr info = false -> cnt = None \/ cnt = Some 1) ->
  (match cnt with Some k => 1 <= k <= avail | None => True end) ->
  get_bytes img off (s * cnt_n cnt) = Some d -> bytes_ok img = true ->
  read_place p img (PlData 0 off ty [] avail) None cnt = Some vref ->
  exists v', post_read (mkPreq user plc None (cnt_n cnt) None info) (reply_opt (tb ++ d) info (cnt_n cnt))
             = mkRTag plc (Some v') (Some (type_string (ti_dtname info) (cnt_n cnt))) false
             /\ pyeq v' (unwrap1 cnt vref).
Proof.
  intros Hlay Hsz Hspos Helem Htb Hstruct Hnd Hscalar Hcnt Hd Hoki Href.
  assert (Hokd : bytes_ok d = true) by (eapply bytes_ok_get; eassumption).
  destruct (get_bytes_split _ _ _ _ Hd) as (_ & Hld & _).
  unfold read_place in Href. rewrite Hsz in Href.
  assert (Hpost : forall v t, post_read (mkPreq user plc None (cnt_n cnt) None info) (Some (v, t)) = mkRTag plc (Some v) (Some t) false).
  { intros v t. unfold post_read. cbn [pq_info pq_bit pq_plc]. rewrite Hnd. reflexivity. }
  destruct (info_is_arr info) eqn:Earr.
  - (* an array class *)
    destruct (parse_reply_array p ty s info tb Hlay Hsz Hspos Helem Htb (cnt_n cnt) d Earr) as (v & Hv & Hpy);
      [destruct cnt; cbn [cnt_n]; lia|exact Hld|exact Hokd|].
    unfold reply_opt. rewrite Hv, Hpost. exists v. split; [reflexivity|].
    destruct cnt as [k|]; cbn [cnt_n unwrap1] in *.
    + replace ((1 <=? k) && (k <=? avail)) with true in Href by lia. rewrite Hd in Href.
      destruct ((k =? 1) && negb (is_bits_ty ty)) eqn:Ec.
      * apply andb_prop in Ec. destruct Ec as [E1 E2]. assert (k = 1) by lia. subst k. apply negb_true_iff in E2.
        rewrite (decode_array_one _ ty s d E2) in Href by (unfold len in *; lia).
        destruct (decode_val (depth_fuel p) p ty d) as [x|] eqn:Ex; [|discriminate]. injection Href as <-.
        apply (Hpy _ _ Ex).
      * pose proof (Hpy _ _ Href) as Hp.
        destruct (k =? 1) eqn:E1; [|destruct k as [|[| |]|]; try exact Hp; lia].
        assert (k = 1) by lia. subst k. cbn [andb] in Ec. apply negb_false_iff in Ec.
        unfold decode_array_with in Href. rewrite Ec in Href. injection Href as <-.
        assert (Hns : forall x, rbools d <> RList [x]) by (apply rbools_not_single; unfold len in Hld; lia).
        destruct (rbools d) as [| | | | | |[|x [|y r]]] eqn:Er; try exact Hp. exfalso. apply (Hns x). reflexivity.
    + rewrite Z.mul_1_r in Hd. rewrite Hd in Href.
      destruct (negb (is_bits_ty ty)) eqn:Eb; cbn [andb Z.eqb Pos.eqb] in Hpy.
      * apply (Hpy _ _ Href).
      * apply negb_false_iff in Eb. apply (Hpy (depth_fuel p)).
        unfold decode_array_with. rewrite Eb. f_equal.
        destruct ty as [c| |]; try discriminate. cbn [is_bits_ty] in Eb.
        pose proof Href as H1. destruct (depth_fuel_S p) as [f Hf]. rewrite Hf in H1. cbn [decode_val] in H1.
        cbn [base_size] in Hsz. symmetry. apply (decode_atom_bits c s d Hsz Eb). exact H1.
  - (* a scalar class *)
    assert (Hc1 : cnt_n cnt = 1) by (destruct (Hscalar eq_refl) as [->| ->]; reflexivity).
    rewrite Hc1 in *. rewrite Z.mul_1_r in Hd, Hld.
    assert (Hx : exists x, decode_val (depth_fuel p) p ty d = Some x /\ unwrap1 cnt vref = x \/
                           (is_bits_ty ty = true /\ decode_val (depth_fuel p) p ty d = Some (unwrap1 cnt vref))).
    { destruct (Hscalar eq_refl) as [->| ->]; cbn [unwrap1].
      - rewrite Hd in Href. exists vref. left. split; [exact Href|reflexivity].
      - replace ((1 <=? 1) && (1 <=? avail)) with true in Href by lia. rewrite Z.mul_1_r, Hd in Href.
        destruct (is_bits_ty ty) eqn:Eb.
        + exists vref. right. split; [reflexivity|].
          unfold decode_array_with in Href. rewrite Eb in Href. injection Href as <-.
          assert (Hns : forall x, rbools d <> RList [x]) by (apply rbools_not_single; unfold len in Hld; lia).
          assert (Hun : (match rbools d with RList [x] => x | _ => rbools d end) = rbools d).
          { destruct (rbools d) as [| | | | | |[|x [|y r]]] eqn:Er; try reflexivity. exfalso. apply (Hns x). reflexivity. }
          rewrite Hun. destruct ty as [c| |]; try discriminate. cbn [is_bits_ty] in Eb.
          destruct (depth_fuel_S p) as [f Hf]. rewrite Hf. cbn [decode_val]. cbn [base_size] in Hsz.
          unfold decode_atom. rewrite Hsz. replace (Expect.blen d =? s) with true by (unfold Expect.blen, len in *; lia).
          cbn [negb].
          unfold atom_bits, atom_signed, atom_unsigned, C_BOOL, C_REAL, C_LREAL, C_SINT, C_INT, C_DINT, C_LINT, C_USINT, C_UINT,
            C_UDINT, C_ULINT, C_BYTE, C_WORD, C_DWORD, C_LWORD in *.
          repeat match goal with |- context [if ?b then _ else _] => destruct b eqn:? end; try lia; reflexivity.
        + rewrite (decode_array_one _ ty s d Eb) in Href by (unfold len in *; lia).
          destruct (decode_val (depth_fuel p) p ty d) as [x|] eqn:Ex; [|discriminate]. injection Href as <-.
          exists x. left. split; reflexivity. }
    destruct Hx as [x [[Hx Hu]|[_ Hx]]].
    + destruct (parse_reply_scalar p ty s info tb Hlay Hsz Hspos Helem Htb Hstruct d Earr Hld Hokd _ _ Hx) as (v & Hv & Hpy).
      unfold reply_opt. rewrite Hv, Hpost. exists v. split; [reflexivity|]. rewrite Hu. exact Hpy.
    + destruct (parse_reply_scalar p ty s info tb Hlay Hsz Hspos Helem Htb Hstruct d Earr Hld Hokd _ _ Hx) as (v & Hv & Hpy).
      unfold reply_opt. rewrite Hv, Hpost. exists v. split; [reflexivity|]. exact Hpy.
Qed.

(* ---------------------------------------------------------------- tag.bit of an integer *)
Lemma pyeq_int_inv v z : pyeq v (RInt z) -> v = RInt z.
Proof. intros H. inversion H; subst; reflexivity. Qed.

Theorem int_bit_value p c s info tb img off avail b vref d user plc :
  layout_ok p = true -> atom_size c = Some s -> atom_integer c = true ->
  (exists f1, elem_tc f1 p (BAtom c) = Some (info_elem info)) -> type_field p (BAtom c) tb ->
  text_eqb (ti_dtname info) txt_DWORD = false ->
  get_bytes img off s = Some d -> bytes_ok img = true ->
  read_place p img (PlData 0 off (BAtom c) [] avail) (Some b) None = Some vref ->
  post_read (mkPreq user plc (Some b) 1 None info) (reply_opt (tb ++ d) info 1)
  = mkRTag user (Some vref) (Some txt_BOOL) false.
Proof.
  intros Hlay Hsz Hint Helem Htb Hnd Hd Hoki Href.
  assert (Hspos : 0 < s) by (destruct (atom_size_cases c s Hsz) as [|[|[|]]]; lia).
  assert (Hokd : bytes_ok d = true) by (eapply bytes_ok_get; eassumption).
  destruct (get_bytes_split _ _ _ _ Hd) as (_ & Hld & _).
  unfold read_place in Href. cbn [base_size] in Href. rewrite Hsz in Href. cbn [int_ty] in Href. rewrite Hint in Href. cbn [andb] in Href.
  destruct ((0 <=? b) && (b <? 8 * s)) eqn:Eb; [|discriminate].
  rewrite Hd in Href. injection Href as <-.
  (* the integer the reference decodes *)
  assert (Hval : exists z, decode_val (depth_fuel p) p (BAtom c) d = Some (RInt z) /\ Z.testbit z b = Z.testbit (le_dec d) b).
  { destruct (depth_fuel_S p) as [f Hf]. rewrite Hf. cbn [decode_val]. unfold decode_atom. rewrite Hsz.
    replace (Expect.blen d =? s) with true by (unfold Expect.blen, len in *; lia). cbn [negb].
    unfold atom_integer in Hint.
    assert (Hnb : (c =? C_BOOL) = false).
    { unfold atom_signed, atom_unsigned, C_BOOL, C_SINT, C_INT, C_DINT, C_LINT, C_USINT, C_UINT, C_UDINT, C_ULINT in *. lia. }
    rewrite Hnb. destruct (atom_signed c) eqn:Es.
    - eexists. split; [reflexivity|]. apply testbit_to_signed. lia.
    - cbn [orb] in Hint. rewrite Hint. eexists. split; reflexivity. }
  destruct Hval as (z & Hz & Hbit).
  assert (Hparse : exists v t, reply_opt (tb ++ d) info 1 = Some (v, t) /\ pyeq v (RInt z)).
  { unfold reply_opt. destruct (info_is_arr info) eqn:Earr.
    - destruct (parse_reply_array p (BAtom c) s info tb Hlay Hsz Hspos Helem Htb 1 d Earr) as (v & Hv & Hpy); [lia|lia|exact Hokd|].
      rewrite Hv. exists v, (type_string (ti_dtname info) 1). split; [reflexivity|].
      assert (Hnbits : is_bits_ty (BAtom c) = false).
      { cbn [is_bits_ty]. unfold atom_integer, atom_bits, atom_signed, atom_unsigned, C_SINT, C_INT, C_DINT, C_LINT, C_USINT, C_UINT,
          C_UDINT, C_ULINT, C_BYTE, C_WORD, C_DWORD, C_LWORD in *. lia. }
      rewrite Hnbits in Hpy. cbn [Z.eqb Pos.eqb andb negb] in Hpy. apply (Hpy _ _ Hz).
    - destruct (parse_reply_scalar p (BAtom c) s info tb Hlay Hsz Hspos Helem Htb I d Earr Hld Hokd _ _ Hz) as (v & Hv & Hpy).
      rewrite Hv. eauto. }
  destruct Hparse as (v & t & Hr & Hpy). apply pyeq_int_inv in Hpy. subst v.
  rewrite Hr. unfold post_read. cbn [pq_info pq_bit pq_user]. rewrite Hnd. cbn [negb].
  unfold ok_tag. rewrite bit_extract by lia. rewrite Hbit. reflexivity.
Qed.

(* ---------------------------------------------------------------- a BOOL tag / BOOL member *)
Theorem bool_value info x b bt user plc :
  ti_class info = KAtom 193 -> text_eqb (ti_dtname info) txt_DWORD = false ->
  0 < bt < 256 ->
  post_read (mkPreq user plc None 1 None info) (reply_opt (le_enc 2 193 ++ [if Z.testbit x b then bt else 0]) info 1)
  = mkRTag plc (Some (RBool (Z.testbit x b))) (Some (type_string (ti_dtname info) 1)) false.
Proof.
  intros Hc Hnd Hbt. unfold reply_opt, parse_read_reply_t. rewrite Hc.
  change (is_struct_reply (le_enc 2 193 ++ [if Z.testbit x b then bt else 0])) with false. cbv iota.
  change (skipn 2 (le_enc 2 193 ++ [if Z.testbit x b then bt else 0])) with [if Z.testbit x b then bt else 0].
  cbn [decode_tc]. change (atom_class 193) with (Some (txt_BOOL, 1, ABool)). cbv iota beta.
  unfold decode_kind. cbn [kind_size stream_read Z.to_nat Pos.to_nat Pos.iter_op Nat.add firstn skipn bind].
  change (len [if Z.testbit x b then bt else 0] =? 1) with true. cbn [negb wrap_decode bind andb].
  unfold post_read. cbn [pq_info pq_bit pq_plc]. rewrite Hnd. cbn [negb]. unfold ok_tag. do 3 f_equal.
  destruct (Z.testbit x b); [|reflexivity].
  destruct bt as [|pb|pb]; try lia. reflexivity.
Qed.

(* ---------------------------------------------------------------- BOOL arrays (DWORD-backed) *)
Lemma pyeq_bools_inv v l : pyeq v (RList (map RBool l)) -> v = RList (map RBool l).
Proof.
  intros H. inversion H as [|xs ys HF|]; subst; [reflexivity|]. f_equal. clear H.
  revert xs HF. induction l as [|b l IH]; intros xs HF; cbn [map] in HF.
  - inversion HF; subst. reflexivity.
  - inversion HF as [|x y xs' ys' Hxy Hrest]; subst. cbn [map]. f_equal; [|apply IH; exact Hrest].
    inversion Hxy; subst; reflexivity.
Qed.

Lemma firstn1_skipn_nth {A} (l : list A) k x : firstn 1 (skipn k l) = [x] -> nth_error l k = Some x.
Proof.
  revert l; induction k as [|k IH]; intros l H.
  - destruct l; [discriminate|]. cbn in H. injection H as ->. reflexivity.
  - destruct l; [rewrite skipn_nil in H; discriminate|]. cbn [skipn] in H. cbn [nth_error]. apply IH. exact H.
Qed.

Lemma map_skipn_ {A B} (f : A -> B) k l : map f (skipn k l) = skipn k (map f l).
Proof. revert l; induction k as [|k IH]; intros l; [reflexivity|]. destruct l; [reflexivity|]. cbn. apply IH. Qed.
Lemma map_firstn_ {A B} (f : A -> B) k l : map f (firstn k l) = firstn k (map f l).
Proof. revert l; induction k as [|k IH]; intros l; [reflexivity|]. destruct l; [reflexivity|]. cbn. rewrite IH. reflexivity. Qed.

Definition bool_type (cnt : option Z) : text :=
  match cnt with
  | Some k => if k =? 1 then txt_BOOL else txt_BOOL ++ [91] ++ print_int k ++ [93]
  | None => txt_BOOL
  end.
Definition bools_of_cnt (cnt : option Z) : option Z :=
  match cnt with Some k => if k =? 1 then None else Some k | None => None end.

Theorem bools_value p info img off nbits start cnt vref d user plc idx n e :
  layout_ok p = true ->
  (exists f1, elem_tc f1 p (BAtom C_DWORD) = Some (info_elem info)) ->
  text_eqb (ti_dtname info) txt_DWORD = true ->
  n = cnt_n cnt ->
  e = (start + n) / 32 + (if (start + n) mod 32 =? 0 then 0 else 1) ->
  (info_is_arr info = false -> e = 1) ->
  0 <= start -> 0 <= off -> (idx = Some start \/ (idx = None /\ start = 0)) ->
  get_bytes img off (4 * e) = Some d -> bytes_ok img = true ->
  read_place p img (PlBools 0 off nbits start) None cnt = Some vref ->
  post_read (mkPreq user plc idx e (bools_of_cnt cnt) info) (reply_opt (le_enc 2 211 ++ d) info e)
  = mkRTag user (Some (unwrap1 cnt vref)) (Some (bool_type cnt)) false.
Proof.
  intros Hlay Helem Hdw Hn He Hscalar Hstart Hoff Hidx Hd Hoki Href.
  assert (Hokd : bytes_ok d = true) by (eapply bytes_ok_get; eassumption).
  destruct (get_bytes_split _ _ _ _ Hd) as (_ & Hld & _ & He0 & Hfit).
  unfold read_place in Href. change (match cnt with Some k => k | None => 1 end) with (cnt_n cnt) in Href. rewrite <- Hn in Href.
  destruct ((1 <=? n) && (start + n <=? nbits)) eqn:Ec; [|destruct cnt; discriminate].
  assert (Hn1 : 1 <= n) by lia.
  assert (Hcover : 1 <= e /\ start + n <= 32 * e).
  { rewrite He. destruct ((start + n) mod 32 =? 0) eqn:E; lia. }
  destruct Hcover as [He1 Hcov]. clear He.
  set (b0 := start / 8) in *. set (b1 := (start + n - 1) / 8) in *.
  destruct (get_bytes img (off + b0) (b1 - b0 + 1)) as [d'|] eqn:Hd'; [|destruct cnt; discriminate].
  (* the DWORDs decode to their bits *)
  assert (Htb : type_field p (BAtom 211) (le_enc 2 211)) by (split; [reflexivity|lia]).
  assert (Hsz : base_size p (BAtom 211) = Some 4) by reflexivity.
  assert (Hparse : reply_opt (le_enc 2 211 ++ d) info e = Some (rbools d, type_string (ti_dtname info) e)).
  { unfold reply_opt. destruct (info_is_arr info) eqn:Earr.
    - destruct (parse_reply_array p (BAtom 211) 4 info (le_enc 2 211) Hlay Hsz ltac:(lia) Helem Htb e d Earr He1) as (v & Hv & Hpy);
        [unfold len in *; lia|exact Hokd|].
      rewrite Hv. do 2 f_equal.
      replace ((e =? 1) && negb (is_bits_ty (BAtom 211))) with false in Hpy by (cbn; lia).
      apply pyeq_bools_inv. apply (Hpy 1%nat). reflexivity.
    - rewrite (Hscalar eq_refl) in *.
      destruct (parse_reply_scalar p (BAtom 211) 4 info (le_enc 2 211) Hlay Hsz ltac:(lia) Helem Htb I d Earr) with (f2 := 1%nat) (x := rbools d)
        as (v & Hv & Hpy); [unfold len in *; lia|exact Hokd| |].
      + cbn [decode_val]. unfold decode_atom. change (atom_size 211) with (Some 4). cbv beta iota.
        assert (Hb4 : (Expect.blen d =? 4) = true) by (unfold Expect.blen, len in *; lia). rewrite Hb4. reflexivity.
      + rewrite Hv. do 2 f_equal. apply pyeq_bools_inv. exact Hpy. }
  rewrite Hparse.
  (* the addressed bits *)
  assert (Hrange : firstn (Z.to_nat n) (skipn (Z.to_nat start) (bools_of_bytes d))
                   = firstn (Z.to_nat n) (skipn (Z.to_nat (start - 8 * b0)) (bools_of_bytes d'))).
  { assert (Ed : d = firstn (Z.to_nat (4 * e)) (skipn (Z.to_nat off) img)).
    { unfold get_bytes in Hd. destruct (_ && _) in Hd; [|discriminate]. congruence. }
    assert (Ed' : d' = firstn (Z.to_nat (b1 - b0 + 1)) (skipn (Z.to_nat (off + b0)) img)).
    { unfold get_bytes in Hd'. destruct (_ && _) in Hd'; [|discriminate]. congruence. }
    rewrite Ed, Ed'. apply bool_range; try lia. unfold len in Hfit. lia. }
  set (bl := firstn (Z.to_nat n) (skipn (Z.to_nat (start - 8 * b0)) (bools_of_bytes d'))) in *.
  assert (Hbl_len : length bl = Z.to_nat n).
  { rewrite <- Hrange. rewrite firstn_length, skipn_length, bools_of_bytes_length. unfold len in Hld. lia. }
  unfold post_read. cbn [pq_info pq_bit pq_bools pq_user]. rewrite Hdw. cbn [negb].
  assert (Hbit : (match idx with Some b => b | None => 0 end) = start) by (destruct Hidx as [->|[-> ->]]; reflexivity).
  rewrite Hbit. unfold rbools.
  assert (Hsingle : n = 1 -> exists xb, bl = [xb] /\ nth_error (map RBool (bools_of_bytes d)) (Z.to_nat start) = Some (RBool xb)).
  { intros ->. change (Z.to_nat 1) with 1%nat in *.
    destruct bl as [|xb [|y r]]; try discriminate. exists xb. split; [reflexivity|].
    apply map_nth_error. apply firstn1_skipn_nth. exact Hrange. }
  destruct cnt as [k|]; cbn [bools_of_cnt cnt_n unwrap1 bool_type] in *.
  - injection Href as <-. subst n.
    destruct (k =? 1) eqn:Ek.
    + assert (k = 1) by lia. subst k. destruct (Hsingle eq_refl) as (xb & -> & Hnth).
      rewrite Hnth. replace (0 <=? start) with true by lia. reflexivity.
    + unfold ok_tag. rewrite <- Hrange. rewrite <- map_skipn_, <- map_firstn_.
      destruct k as [|[kp|kp|]|]; try lia; reflexivity.
  - subst n. destruct (Hsingle eq_refl) as (xb & Hb & Hnth). rewrite Hb in Href. injection Href as <-.
    rewrite Hnth. replace (0 <=? start) with true by lia. reflexivity.
Qed.
