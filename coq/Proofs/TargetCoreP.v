(* Proofs/TargetCoreP.v — lemmas about the reference target's core half. *)
From Coq Require Import ZifyBool.
From PV Require Import Base.Bytes Base.BytesLemmas Spec.EncapParser Spec.MRParser Spec.TargetIface Spec.TargetCore.
Open Scope Z_scope.
Ltac Zify.zify_post_hook ::= Z.to_euclidean_division_equations.

(* ================================================================ small facts *)
Lemma blen_nonneg bs : 0 <= blen bs.
Proof. unfold blen. lia. Qed.
Lemma blen_app a b : blen (a ++ b) = blen a + blen b.
Proof. unfold blen. rewrite app_length. lia. Qed.
Lemma blen_cons x l : blen (x :: l) = 1 + blen l.
Proof. unfold blen. cbn [List.length]. lia. Qed.
Lemma blen_nil : blen [] = 0.
Proof. reflexivity. Qed.
Lemma blen_le_enc w z : blen (le_enc w z) = Z.of_nat w.
Proof. unfold blen. now rewrite le_enc_length. Qed.

Lemma u16_enc z : 0 <= z < 65536 -> u16 (z mod 256) ((z / 256) mod 256) = z.
Proof. unfold u16. lia. Qed.
Lemma u32_enc z : 0 <= z < 4294967296 ->
  u32 (z mod 256) ((z / 256) mod 256) ((z / 256 / 256) mod 256) ((z / 256 / 256 / 256) mod 256) = z.
Proof. unfold u32. lia. Qed.

Lemma takez_0 bs : takez 0 bs = Some ([], bs).
Proof. unfold takez. pose proof (blen_nonneg bs). destruct (0 <=? blen bs) eqn:E; [reflexivity | lia]. Qed.

Lemma takez_app a b : takez (blen a) (a ++ b) = Some (a, b).
Proof.
  unfold takez. pose proof (blen_nonneg a) as Ha. pose proof (blen_nonneg b) as Hb.
  rewrite blen_app.
  destruct ((0 <=? blen a) && (blen a <=? blen a + blen b)) eqn:E; [| lia].
  unfold blen. rewrite Nat2Z.id, firstn_app_exact, skipn_app_exact. reflexivity.
Qed.

(* ================================================================ the strict parser is not vacuous *)
Lemma parse_header_mk cmd len ses st x0 x1 x2 x3 x4 x5 x6 x7 opt body :
  parse_header (mk_header cmd len ses st [x0; x1; x2; x3; x4; x5; x6; x7] opt ++ body)
  = Some ({| h_cmd := u16 (cmd mod 256) ((cmd / 256) mod 256);
             h_len := u16 (len mod 256) ((len / 256) mod 256);
             h_session := u32 (ses mod 256) ((ses / 256) mod 256) ((ses / 256 / 256) mod 256) ((ses / 256 / 256 / 256) mod 256);
             h_status := u32 (st mod 256) ((st / 256) mod 256) ((st / 256 / 256) mod 256) ((st / 256 / 256 / 256) mod 256);
             h_context := [x0; x1; x2; x3; x4; x5; x6; x7];
             h_options := u32 (opt mod 256) ((opt / 256) mod 256) ((opt / 256 / 256) mod 256) ((opt / 256 / 256 / 256) mod 256) |},
           body).
Proof. reflexivity. Qed.

Lemma mk_header_ok cmd len ses st ctx opt : bytes_ok ctx = true -> bytes_ok (mk_header cmd len ses st ctx opt) = true.
Proof.
  intros H. unfold mk_header. rewrite !bytes_ok_app, !le_enc_ok, H. reflexivity.
Qed.

Lemma length8 (l : bytes) : blen l = 8 -> exists x0 x1 x2 x3 x4 x5 x6 x7, l = [x0; x1; x2; x3; x4; x5; x6; x7].
Proof.
  unfold blen. intros H.
  do 8 (destruct l as [| ? l]; [cbn in H; lia |]).
  destruct l; [| cbn in H; lia]. now do 8 eexists.
Qed.

Lemma body_bytes_facts cmd b : body_wf cmd b = true ->
  bytes_ok (body_bytes b) = true /\ blen (body_bytes b) < 65536 /\ known_command cmd = true /\ 0 <= cmd < 65536
  /\ parse_body cmd (body_bytes b) = RcOk b.
Proof.
  unfold body_wf. destruct b as [d | | | t a dt d]; intros H.
  - rewrite !Bool.andb_true_iff in H. destruct H as [[H1 H2] H3]. unfold CMD_NOP in H1.
    assert (cmd = 0) by lia. subst cmd. cbn. repeat split; try lia; assumption.
  - cbn [body_bytes]. rewrite blen_nil.
    unfold CMD_LIST_SERVICES, CMD_LIST_IDENTITY, CMD_LIST_INTERFACES, CMD_UNREGISTER in H.
    assert (cmd = 4 \/ cmd = 99 \/ cmd = 100 \/ cmd = 102) as [-> | [-> | [-> | ->]]] by lia; cbn; repeat split; lia.
  - assert (cmd = 101) by (unfold CMD_REGISTER in H; lia). subst cmd. cbn. repeat split; lia.
  - destruct a as [| cid].
    + rewrite !Bool.andb_true_iff in H. destruct H as [[[H0 H1] Hd] [[H2 H3] H4]].
      unfold CMD_RRDATA, ITEM_UNCONN_DATA in *.
      assert (cmd = 111 /\ dt = 178 /\ 0 <= t < 65536 /\ blen d < 65536 - 16) as (-> & -> & Ht & Hl) by lia.
      pose proof (blen_nonneg d) as Hn.
      cbn [body_bytes]. unfold mk_cpf. cbn [addr_bytes].
      repeat split; try lia.
      * rewrite !bytes_ok_app, !le_enc_ok, Hd. reflexivity.
      * rewrite !blen_app, !blen_le_enc. unfold blen in *. cbn [List.length]. lia.
      * unfold parse_body. cbn [Z.eqb CMD_NOP CMD_REGISTER CMD_RRDATA CMD_UNITDATA Pos.eqb orb].
        cbn [le_enc app]. unfold parse_cpf.
        replace (u32 0 0 0 0 =? 0) with true by reflexivity.
        replace (u16 2 0 =? 2) with true by reflexivity. cbn [negb].
        replace (u16 0 0) with 0 by reflexivity.
        cbn [ITEM_NULL ITEM_CONN_ADDR Z.eqb orb negb].
        rewrite takez_0.
        rewrite !u16_enc by lia.
        replace (u16 (178 mod 256) (178 / 256 mod 256)) with 178 by reflexivity.
        cbn [ITEM_CONN_DATA ITEM_UNCONN_DATA Z.eqb Pos.eqb orb negb andb CMD_RRDATA].
        rewrite Z.ltb_irrefl. reflexivity.
    + rewrite !Bool.andb_true_iff in H. destruct H as [[[H0 H1] Hd] [[[[[H2 H3] H4] H5] H6] H7]].
      unfold CMD_UNITDATA, ITEM_CONN_DATA in *.
      assert (cmd = 112 /\ dt = 177 /\ 0 <= t < 65536 /\ 0 <= cid < 4294967296 /\ 2 <= blen d < 65536 - 20)
        as (-> & -> & Ht & Hc & Hl) by lia.
      cbn [body_bytes]. unfold mk_cpf. cbn [addr_bytes].
      repeat split; try lia.
      * rewrite !bytes_ok_app, !le_enc_ok, Hd. reflexivity.
      * rewrite !blen_app, !blen_le_enc. unfold blen in *. cbn [List.length]. lia.
      * unfold parse_body. cbn [Z.eqb CMD_NOP CMD_REGISTER CMD_RRDATA CMD_UNITDATA Pos.eqb orb].
        change (le_enc 2 ITEM_CONN_ADDR) with [161; 0].
        cbn [le_enc app]. unfold parse_cpf.
        replace (u32 0 0 0 0 =? 0) with true by reflexivity.
        replace (u16 2 0 =? 2) with true by reflexivity. cbn [negb].
        replace (u16 161 0) with 161 by reflexivity.
        replace (u16 4 0) with 4 by reflexivity.
        cbn [ITEM_NULL ITEM_CONN_ADDR Z.eqb Pos.eqb orb negb].
        change (cid mod 256 :: cid / 256 mod 256 :: cid / 256 / 256 mod 256 :: cid / 256 / 256 / 256 mod 256
                :: 177 mod 256 :: 177 / 256 mod 256 :: blen d mod 256 :: blen d / 256 mod 256 :: d)
          with (le_enc 4 cid ++ 177 mod 256 :: 177 / 256 mod 256 :: blen d mod 256 :: blen d / 256 mod 256 :: d).
        replace 4 with (blen (le_enc 4 cid)) at 1 by (now rewrite blen_le_enc).
        rewrite takez_app.
        rewrite !u16_enc by lia.
        replace (u16 (177 mod 256) (177 / 256 mod 256)) with 177 by reflexivity.
        cbn [ITEM_CONN_DATA ITEM_UNCONN_DATA Z.eqb Pos.eqb orb negb andb CMD_RRDATA].
        rewrite Z.ltb_irrefl.
        destruct (blen d <? 2) eqn:E; [lia |].
        rewrite le_dec_enc_id by (unfold pow256; cbn; lia). reflexivity.
Qed.

(* every well-formed frame is built into bytes that the strict parser accepts, and reads back as itself *)
Theorem parse_mk_frame : forall f, frame_wf f = true -> parse_frame (mk_frame f) = RcOk f.
Proof.
  intros [cmd ses ctx body]. unfold frame_wf. cbn [f_cmd f_session f_context f_body].
  rewrite !Bool.andb_true_iff. intros [[[[Hs0 Hs1] Hc] Hl] Hb].
  destruct (body_bytes_facts cmd body Hb) as (Hok & Hlen & Hk & Hcmd & Hp).
  assert (blen ctx = 8) as H8 by lia.
  destruct (length8 ctx H8) as (x0 & x1 & x2 & x3 & x4 & x5 & x6 & x7 & ->).
  pose proof (blen_nonneg (body_bytes body)) as Hn.
  unfold parse_frame, mk_frame. cbn [f_cmd f_session f_context f_body].
  rewrite bytes_ok_app, mk_header_ok, Hok by assumption. cbn [andb negb].
  rewrite parse_header_mk. cbn [h_cmd h_len h_session h_status h_context h_options].
  rewrite !u16_enc, !u32_enc by lia.
  rewrite Z.eqb_refl, Hk. cbn [negb Z.eqb]. rewrite Hp. reflexivity.
Qed.

(* the same for the message-router envelope *)
Theorem parse_mk_mr : forall r, mr_wf r = true -> parse_mr (mk_mr r) = RcOk r.
Proof.
  intros [svc p d]. unfold mr_wf, mk_mr, parse_mr. cbn [mr_service mr_path mr_data].
  rewrite !Bool.andb_true_iff. intros [[[H0 H1] He] Hl].
  destruct (128 <=? svc) eqn:E; [lia |].
  pose proof (blen_nonneg p) as Hn.
  replace (2 * (blen p / 2)) with (blen p) by (rewrite Z.even_spec in He; destruct He as [k Hk]; lia).
  rewrite takez_app. reflexivity.
Qed.

(* non-vacuity: concrete well-formed frames of every kind *)
Example frame_wf_inhabited :
  frame_wf {| f_cmd := CMD_REGISTER; f_session := 0; f_context := [95; 112; 121; 99; 111; 109; 109; 95]; f_body := BRegister |} = true
  /\ frame_wf {| f_cmd := CMD_RRDATA; f_session := 7; f_context := zeros 8;
                 f_body := BCpf 10 AddrNull ITEM_UNCONN_DATA [1; 2; 32; 1; 36; 1] |} = true
  /\ frame_wf {| f_cmd := CMD_UNITDATA; f_session := 7; f_context := zeros 8;
                 f_body := BCpf 10 (AddrConn 305419896) ITEM_CONN_DATA [1; 0; 1; 2; 32; 1; 36; 1] |} = true.
Proof. repeat split; reflexivity. Qed.

(* ================================================================ a connected reply never exceeds the granted size *)
Lemma fit_len cap svc bs : blen (fst (fit cap svc bs)) <= Z.max cap 4.
Proof.
  unfold fit. destruct (blen bs <=? cap) eqn:E; cbn [fst]; [lia |].
  unfold too_large_reply, blen. cbn [List.length]. lia.
Qed.

Lemma finish_reply_len {S} cap svc (p : tstate S * mr_reply) : blen (snd (finish_reply cap svc p)) <= Z.max cap 4.
Proof.
  unfold finish_reply. destruct p as [st1 rp].
  pose proof (fit_len cap svc (mr_bytes svc rp)) as H.
  destruct (fit cap svc (mr_bytes svc rp)) as [bs evs]. exact H.
Qed.

Lemma finish_reply_conns {S} cap svc (p : tstate S * mr_reply) :
  t_conns (fst (finish_reply cap svc p)) = t_conns (fst p).
Proof.
  unfold finish_reply. destruct p as [st1 rp]. destruct (fit cap svc (mr_bytes svc rp)) as [bs evs]. reflexivity.
Qed.

Lemma dispatch_len {S} (h : handler S) tr cap seq st rq :
  blen (snd (dispatch h tr cap seq st rq)) <= Z.max cap 4.
Proof. unfold dispatch. apply finish_reply_len. Qed.

Definition conns_ok {S} (st : tstate S) : Prop :=
  Forall (fun c => MIN_CONN_SIZE <= c_to_size c) (t_conns st).

(* Whatever the handler does (no hypothesis on [h] is needed: [fit] enforces the bound; a handler
   that respects its capacity never triggers it), the reply to a SendUnitData frame is a
   SendUnitData frame addressed with the originator's connection id whose connected data item
   (sequence count + message-router reply) is no longer than the T->O size granted at Forward Open. *)
Theorem connected_reply_fits {S} (h : handler S) (st st' : tstate S) f rep t cid dt d :
  conns_ok st ->
  f_cmd f = CMD_UNITDATA -> f_body f = BCpf t (AddrConn cid) dt d ->
  step_frame h st f = (st', Some rep) ->
  exists c item,
    In c (t_conns st) /\ c_ot_id c = cid /\ c_session c = f_session f
    /\ rep = encap_reply CMD_UNITDATA (f_session f) 0 (f_context f)
               (mk_cpf 0 (AddrConn (c_to_id c)) ITEM_CONN_DATA item)
    /\ blen item <= c_to_size c.
Proof.
  intros Hok Hcmd Hbody. unfold step_frame. rewrite Hbody, Hcmd.
  destruct (mem_z (f_session f) (t_sessions st)); cbn [negb].
  2: { change (CMD_UNITDATA =? CMD_RRDATA) with false. cbn iota. intros H; inversion H. }
  destruct (find (fun c => (c_ot_id c =? cid) && (c_session c =? f_session f)) (t_conns st)) as [c |] eqn:Hf.
  2: { intros H; inversion H. }
  apply find_some in Hf. destruct Hf as [Hin Hc].
  assert (MIN_CONN_SIZE <= c_to_size c) as Hmin by (unfold conns_ok in Hok; rewrite Forall_forall in Hok; now apply Hok).
  unfold MIN_CONN_SIZE in Hmin.
  assert (c_ot_id c = cid /\ c_session c = f_session f) as [Hid Hses] by lia.
  destruct d as [| s0 [| s1 req]]; try (intros H; inversion H; fail).
  assert (forall bs, blen bs <= Z.max (c_to_size c - 2) 4 -> blen (le_enc 2 (u16 s0 s1) ++ bs) <= c_to_size c) as Hfit.
  { intros bs Hb. rewrite blen_app, blen_le_enc. lia. }
  destruct (c_ot_size c <? blen (s0 :: s1 :: req)).
  - intros H; inversion H; subst. exists c. eexists. repeat split; try eassumption.
    apply Hfit. unfold blen. cbn [List.length]. lia.
  - destruct (parse_mr req) as [rq | e].
    + pose proof (dispatch_len h (TConnected (c_serial c)) (c_to_size c - 2) (Some (u16 s0 s1)) st rq) as Hd.
      destruct (dispatch h (TConnected (c_serial c)) (c_to_size c - 2) (Some (u16 s0 s1)) st rq) as [st1 bs].
      cbn [snd] in Hd. intros H; inversion H; subst. exists c. eexists. repeat split; try eassumption.
      now apply Hfit.
    + intros H; inversion H; subst. exists c. eexists. repeat split; try eassumption.
      apply Hfit. unfold blen. cbn [List.length]. lia.
Qed.

(* ================================================================ [conns_ok] is an invariant *)
Ltac break_match :=
  match goal with
  | |- context [match ?x with _ => _ end] => destruct x eqn:?
  | |- context [if ?x then _ else _] => destruct x eqn:?
  end.

Lemma with_injection_conns {S} (st : tstate S) svc k :
  (forall s, t_conns s = t_conns st -> t_conns (fst (k s)) = t_conns st) ->
  t_conns (fst (with_injection st svc k)) = t_conns st.
Proof.
  intros Hk. unfold with_injection.
  destruct (take_injection svc (t_inject st) None) as [[i |] rest]; cbn [fst]; [reflexivity |].
  apply Hk. reflexivity.
Qed.

Lemma dispatch_one_conns {S} (h : handler S) tr cap seq st rq :
  t_conns (fst (dispatch_one h tr cap seq st rq)) = t_conns st.
Proof.
  unfold dispatch_one.
  change (t_conns st) with (t_conns (logs [EvRequest tr seq rq] st)).
  apply with_injection_conns. intros s Hs.
  repeat break_match; cbn [fst]; exact Hs.
Qed.

Lemma multi_one_conns {S} (h : handler S) tr cap seq st it :
  t_conns (fst (multi_one h tr cap seq st it)) = t_conns st.
Proof.
  unfold multi_one. destruct (parse_mr it) as [rq | c]; [| reflexivity].
  destruct (is_multi_request rq); [reflexivity |].
  pose proof (dispatch_one_conns h tr cap seq st rq) as H.
  destruct (dispatch_one h tr cap seq st rq) as [st1 rp].
  destruct (fit cap (mr_service rq) (mr_bytes (mr_service rq) rp)) as [bs evs]. exact H.
Qed.

Lemma multi_run_conns {S} (h : handler S) tr seq items : forall left later st acc,
  t_conns (fst (multi_run h tr seq left later items st acc)) = t_conns st.
Proof.
  induction items as [| it rest IH]; intros left later st acc; cbn [multi_run]; [reflexivity |].
  pose proof (multi_one_conns h tr (left - 4 * (later - 1)) seq st it) as H1.
  destruct (multi_one h tr (left - 4 * (later - 1)) seq st it) as [st1 bs].
  rewrite IH. exact H1.
Qed.

Lemma multi_service_conns {S} (h : handler S) tr cap seq st rq :
  t_conns (fst (multi_service h tr cap seq st rq)) = t_conns st.
Proof.
  unfold multi_service.
  change (t_conns st) with (t_conns (logs [EvRequest tr seq rq] st)).
  apply with_injection_conns. intros s Hs.
  destruct (negb (cf_multi_service (t_cfg s))); [exact Hs |].
  destruct (parse_multi (mr_data rq)) as [items | c]; [| exact Hs].
  pose proof (multi_run_conns h tr seq items (cap - 6 - 2 * zlen items) (zlen items) s []) as H.
  destruct (multi_run h tr seq (cap - 6 - 2 * zlen items) (zlen items) items s []) as [st3 reps].
  cbn [fst] in *. congruence.
Qed.

Lemma dispatch_conns {S} (h : handler S) tr cap seq st rq :
  t_conns (fst (dispatch h tr cap seq st rq)) = t_conns st.
Proof.
  unfold dispatch. rewrite finish_reply_conns.
  destruct (is_multi_request rq); [apply multi_service_conns | apply dispatch_one_conns].
Qed.

Lemma forward_open_ok {S} large session (st : tstate S) rq :
  conns_ok st -> conns_ok (fst (forward_open large session st rq)).
Proof.
  intros Hok. unfold forward_open.
  repeat break_match; cbn [fst]; try exact Hok;
    (unfold conns_ok; cbn [logs set_conns t_conns]; constructor; [cbn [c_to_size]; lia | exact Hok]).
Qed.

Lemma forward_close_ok {S} (st : tstate S) rq :
  conns_ok st -> conns_ok (fst (forward_close st rq)).
Proof.
  intros Hok. unfold forward_close.
  repeat break_match; cbn [fst]; try exact Hok;
    (unfold conns_ok in *; cbn [logs set_conns t_conns];
     rewrite Forall_forall in *; intros c Hc; apply filter_In in Hc; now apply Hok).
Qed.

Lemma with_injection_ok {S} (st : tstate S) svc k :
  conns_ok st -> (forall s, t_conns s = t_conns st -> conns_ok (fst (k s))) ->
  conns_ok (fst (with_injection st svc k)).
Proof.
  intros Hok Hk. unfold with_injection.
  destruct (take_injection svc (t_inject st) None) as [[i |] rest]; cbn [fst]; [exact Hok |].
  apply Hk. reflexivity.
Qed.

Lemma conns_ok_eq {S} (a b : tstate S) : t_conns a = t_conns b -> conns_ok b -> conns_ok a.
Proof. unfold conns_ok. now intros ->. Qed.

Lemma ucmm_ok {S} (h : handler S) session st rq :
  conns_ok st -> conns_ok (fst (ucmm h session st rq)).
Proof.
  intros Hok. unfold ucmm.
  assert (forall p : tstate S * mr_reply, conns_ok (fst p) ->
            conns_ok (fst (finish_reply UCMM_CAPACITY (mr_service rq) p))) as Hfin.
  { intros p H. eapply conns_ok_eq; [apply finish_reply_conns | exact H]. }
  assert (forall tr r, conns_ok (fst (dispatch h tr UCMM_CAPACITY None st r))) as Hd
    by (intros; eapply conns_ok_eq; [apply dispatch_conns | exact Hok]).
  cbv zeta.
  repeat break_match; try apply Hd; apply Hfin; cbn [fst]; try exact Hok.
  - apply with_injection_ok; [exact Hok |]. intros s Hs. apply forward_open_ok. eapply conns_ok_eq; eassumption.
  - apply with_injection_ok; [exact Hok |]. intros s Hs. apply forward_open_ok. eapply conns_ok_eq; eassumption.
  - apply with_injection_ok; [exact Hok |]. intros s Hs. apply forward_close_ok. eapply conns_ok_eq; eassumption.
Qed.

Lemma ucmm_item_ok {S} (h : handler S) session st d :
  conns_ok st -> conns_ok (fst (ucmm_item h session st d)).
Proof.
  intros Hok. unfold ucmm_item. destruct (parse_mr d) as [rq | c].
  - pose proof (ucmm_ok h session st rq Hok) as H.
    destruct (ucmm h session st rq) as [st1 bs]. exact H.
  - cbv zeta. destruct (c =? 1); exact Hok.
Qed.

Lemma step_frame_ok {S} (h : handler S) st f : conns_ok st -> conns_ok (fst (step_frame h st f)).
Proof.
  intros Hok. unfold step_frame.
  assert (forall P, conns_ok (set_conns (filter P (t_conns st)) (t_nconns st)
            (set_sessions (filter (fun x => negb (x =? f_session f)) (t_sessions st)) (t_nsessions st) st))) as Hfil.
  { intros P. unfold conns_ok in *. cbn [set_conns t_conns]. rewrite Forall_forall in *.
    intros c Hc. apply filter_In in Hc. now apply Hok. }
  destruct (f_body f) as [d | | | t a dt d]; try (repeat break_match; cbn [fst]; solve [exact Hok | apply Hfil]).
  destruct (negb (mem_z (f_session f) (t_sessions st))); [exact Hok |].
  destruct a as [| cid].
  - pose proof (ucmm_item_ok h (f_session f) st d Hok) as H.
    destruct (ucmm_item h (f_session f) st d) as [st1 [bs |]]; exact H.
  - destruct (find _ (t_conns st)) as [c |]; [| exact Hok].
    destruct d as [| s0 [| s1 req]]; try exact Hok.
    destruct (c_ot_size c <? blen (s0 :: s1 :: req)); [exact Hok |].
    destruct (parse_mr req) as [rq | e]; [| exact Hok].
    pose proof (dispatch_conns h (TConnected (c_serial c)) (c_to_size c - 2) (Some (u16 s0 s1)) st rq) as H.
    destruct (dispatch h (TConnected (c_serial c)) (c_to_size c - 2) (Some (u16 s0 s1)) st rq) as [st1 bs].
    eapply conns_ok_eq; [exact H | exact Hok].
Qed.

Theorem tstep_conns_ok {S} (h : handler S) st bs : conns_ok st -> conns_ok (fst (tstep h st bs)).
Proof.
  intros Hok. unfold tstep.
  destruct (parse_header bs) as [[hd body] |]; [| exact Hok].
  destruct (parse_frame bs) as [f | c]; [| exact Hok].
  apply step_frame_ok. exact Hok.
Qed.

Lemma init_conns_ok {S} (app : S) : conns_ok (init_tstate app).
Proof. constructor. Qed.
Lemma tclosed_conns_ok {S} (st : tstate S) : conns_ok (tclosed st).
Proof. constructor. Qed.

(* ================================================================ the same, stated on [tstep] *)
Lemma parse_frame_conn_is_unitdata fr f t cid dt d :
  parse_frame fr = RcOk f -> f_body f = BCpf t (AddrConn cid) dt d -> f_cmd f = CMD_UNITDATA.
Proof.
  unfold parse_frame. destruct (negb (bytes_ok fr)); [discriminate |].
  destruct (parse_header fr) as [[hd body] |]; [| discriminate].
  repeat (match goal with |- context [if ?x then _ else _] => destruct x eqn:? end; try discriminate).
  destruct (parse_body (h_cmd hd) body) as [b |] eqn:Hb; [| discriminate].
  intros H; inversion H; subst f; clear H. cbn [f_body f_cmd]. intros ->.
  unfold parse_body in Hb.
  destruct (h_cmd hd =? CMD_NOP); [discriminate |].
  destruct (h_cmd hd =? CMD_REGISTER).
  { repeat (match type of Hb with context [match ?x with _ => _ end] => destruct x end; try discriminate). }
  destruct ((h_cmd hd =? CMD_RRDATA) || (h_cmd hd =? CMD_UNITDATA)) eqn:Hc.
  2: { destruct body; discriminate. }
  destruct (h_cmd hd =? CMD_RRDATA) eqn:Hrr; [| cbn [orb] in Hc; lia].
  exfalso. unfold parse_cpf in Hb. rewrite Hrr in Hb.
  repeat (match type of Hb with
          | context [match ?x with _ => _ end] => destruct x eqn:?
          | context [if ?x then _ else _] => destruct x eqn:?
          end; try discriminate).
Qed.

Theorem tstep_connected_reply_fits {S} (h : handler S) (st st' : tstate S) fr f rep t cid dt d :
  conns_ok st ->
  parse_frame fr = RcOk f -> f_body f = BCpf t (AddrConn cid) dt d ->
  tstep h st fr = (st', Some rep) ->
  exists c item,
    In c (t_conns st) /\ c_ot_id c = cid /\ c_session c = f_session f
    /\ rep = encap_reply CMD_UNITDATA (f_session f) 0 (f_context f)
               (mk_cpf 0 (AddrConn (c_to_id c)) ITEM_CONN_DATA item)
    /\ blen item <= c_to_size c.
Proof.
  intros Hok Hp Hb. pose proof (parse_frame_conn_is_unitdata fr f t cid dt d Hp Hb) as Hcmd.
  unfold tstep.
  destruct (parse_header fr) as [[hd body] |] eqn:Hh.
  2: { unfold parse_frame in Hp. rewrite Hh in Hp. destruct (negb (bytes_ok fr)); discriminate. }
  rewrite Hp. intros Hs.
  eapply (connected_reply_fits h (logs [EvFrame (h_cmd hd) (h_session hd) (List.length fr)] st)); eauto.
Qed.

(* ================================================================ non-vacuity: a concrete run (frames recorded from the real LogixDriver) *)
Definition ex_register : bytes := [101; 0; 4; 0; 0; 0; 0; 0; 0; 0; 0; 0; 95; 112; 121; 99; 111; 109; 109; 95; 0; 0; 0; 0; 1; 0; 0; 0].
Definition ex_forward_open : bytes := [111; 0; 68; 0; 1; 0; 0; 1; 0; 0; 0; 0; 95; 112; 121; 99; 111; 109; 109; 95; 0; 0; 0; 0; 0; 0; 0; 0; 10; 0; 2; 0; 0; 0; 0; 0; 178; 0; 52; 0; 91; 2; 32; 6; 36; 1; 10; 5; 0; 0; 0; 0; 105; 132; 145; 224; 39; 4; 9; 16; 195; 30; 75; 214; 7; 0; 0; 0; 1; 64; 32; 0; 160; 15; 0; 66; 1; 64; 32; 0; 160; 15; 0; 66; 163; 3; 1; 0; 32; 2; 36; 1].
Definition ex_get_plc_name : bytes := [112; 0; 28; 0; 1; 0; 0; 1; 0; 0; 0; 0; 95; 112; 121; 99; 111; 109; 109; 95; 0; 0; 0; 0; 0; 0; 0; 0; 10; 0; 2; 0; 161; 0; 4; 0; 1; 0; 193; 0; 177; 0; 8; 0; 1; 0; 1; 2; 32; 100; 36; 1].
Definition ex_reply : bytes := [112; 0; 33; 0; 1; 0; 0; 1; 0; 0; 0; 0; 95; 112; 121; 99; 111; 109; 109; 95; 0; 0; 0; 0; 0; 0; 0; 0; 0; 0; 2; 0; 161; 0; 4; 0; 105; 132; 145; 224; 177; 0; 13; 0; 1; 0; 129; 0; 0; 0; 5; 0; 80; 76; 67; 95; 65].

Definition ex_state2 : tstate basic_state :=
  fst (tstep basic_handler (fst (tstep basic_handler (init_tstate init_basic) ex_register)) ex_forward_open).

Example connected_run :
  map c_to_size (t_conns ex_state2) = [4000]
  /\ (exists f t cid dt d, parse_frame ex_get_plc_name = RcOk f /\ f_body f = BCpf t (AddrConn cid) dt d)
  /\ snd (tstep basic_handler ex_state2 ex_get_plc_name) = Some ex_reply
  /\ parse_frame ex_reply
     = RcOk {| f_cmd := CMD_UNITDATA; f_session := 16777217; f_context := [95; 112; 121; 99; 111; 109; 109; 95];
               f_body := BCpf 0 (AddrConn 3767633001) ITEM_CONN_DATA [1; 0; 129; 0; 0; 0; 5; 0; 80; 76; 67; 95; 65] |}.
Proof.
  split; [vm_compute; reflexivity |]. split; [do 5 eexists; split; vm_compute; reflexivity |].
  split; vm_compute; reflexivity.
Qed.

Example ex_state2_conns_ok : conns_ok ex_state2.
Proof. unfold ex_state2. do 2 apply tstep_conns_ok. apply init_conns_ok. Qed.

Print Assumptions parse_mk_frame.
Print Assumptions parse_mk_mr.
Print Assumptions connected_reply_fits.
Print Assumptions tstep_connected_reply_fits.
Print Assumptions tstep_conns_ok.
