(* Proofs/ReadCorrect.v — the composition: LogixDriver.read against the reference target returns what
   Spec/Expect.ref_read says.
     agree            the interface between the addressing layers: the place Expect.resolve assigns to a
                      request, the location the target resolves the client's path to, and the client's
                      parsed request (bit, element count, BOOL-array arithmetic, tag info) describe the same thing
     agree_served     then the target serves the request ...
     agree_value      ... and parse_read_reply + read()'s post-processing of the served data is the
                      reference value (integers exactly, REAL / LREAL bit patterns, strings, structures
                      as dicts of their visible members, {n} lists, {1} unwrapped) with the documented type string
     read_correct_partial   for every project with a sound layout, memory image, fragment policy,
                      connection size, request list: every request that [resolves] (see below) gets a
                      truthy Tag carrying the reference value — single-packet, multi-packet and
                      fragmented plans alike.
   What is NOT proved here is that [resolves] holds for every request string that exists in the
   project (the string layer: _parse_tag_request / tag_request_path on the rendered request vs the
   target's path parser); it is a hypothesis per request, decidable by computation for any concrete
   request, and exercised by the correspondence on every generated request.
   No axioms. *)
From Coq Require Import ZifyBool String.
From PV Require Import Base.Bytes Base.BytesLemmas Base.Res Base.Proto Base.PyStr.
From PV Require Import Gen.Consts Model.Path Model.Reply Model.LogixPlan Model.LogixRead.
From PV Require Import Spec.EncapParser Spec.MRParser Spec.TargetIface Spec.TargetCore Spec.Project Spec.Expect Spec.TargetLogix.
From PV Require Import Proofs.TargetCoreP Proofs.TargetLogixP Proofs.ReadBits Proofs.ReadDecode Proofs.ReadTarget
  Proofs.ReadValue Proofs.ReadFrag Proofs.ReadMulti Proofs.ReadPlan.
Open Scope list_scope.
Open Scope Z_scope.
Ltac Zify.zify_post_hook ::= Z.to_euclidean_division_equations.

(* ================================================================ the documented type string *)
Definition type_text (tn : text) (c : Z) : text :=
  let n := client_type_name tn in
  if 1 <? c then n ++ [91] ++ print_int c ++ [93] else n.

(* ================================================================ the tag info of an element type *)
Definition info_for (p : project) (ty : base_ty) (s : Z) (i : tinfo) : Prop :=
  (exists f1, elem_tc f1 p ty = Some (info_elem i))
  /\ ti_esize i = s
  /\ (exists tn, ty_name p ty = Some tn /\ ti_dtname i = client_type_name tn)
  /\ match ty with
     | BStruct tid => ti_struct i = true /\ exists t, find_template (p_templates p) tid = Some t
                                                 /\ ti_attrs i = map m_name (visible_members t)
     | _ => ti_struct i = false
     end.

(* ================================================================ agreement of the three addressing layers *)
Definition dword_elements (start n : Z) : Z := (start + n) / 32 + (if (start + n) mod 32 =? 0 then 0 else 1).

Definition agree (p : project) (pl : place) (bit cnt : option Z) (l : wloc) (q : preq) : Prop :=
  match pl with
  | PlData inst off ty _ avail =>
      is_dword ty = false /\ w_inst l = inst /\ w_off l = off /\ w_ty l = ty /\ w_bit l = None /\ w_avail l = avail
      /\ 1 <= avail /\ 0 <= off
      /\ pq_bit q = bit /\ pq_bools q = None /\ pq_elements q = cnt_n cnt
      /\ (exists s, base_size p ty = Some s /\ info_for p ty s (pq_info q))
      /\ (info_is_arr (pq_info q) = false -> cnt = None \/ cnt = Some 1)
      /\ text_eqb (ti_dtname (pq_info q)) txt_DWORD = false
  | PlBit inst off b =>
      w_inst l = inst /\ w_off l = off /\ w_bit l = Some b /\ w_ty l = BAtom C_BOOL /\ 1 <= w_avail l
      /\ pq_bit q = None /\ pq_bools q = None /\ pq_elements q = 1
      /\ ti_class (pq_info q) = KAtom 193 /\ ti_dtname (pq_info q) = txt_BOOL /\ ti_esize (pq_info q) = 1
  | PlBools inst off nbits start =>
      w_inst l = inst /\ w_off l = off /\ w_ty l = BAtom C_DWORD /\ w_bit l = None /\ nbits = 32 * w_avail l
      /\ 0 <= off /\ 0 <= start
      /\ (pq_bit q = Some start \/ (pq_bit q = None /\ start = 0))
      /\ pq_bools q = bools_of_cnt cnt
      /\ pq_elements q = dword_elements start (cnt_n cnt)
      /\ (exists f1, elem_tc f1 p (BAtom C_DWORD) = Some (info_elem (pq_info q)))
      /\ (info_is_arr (pq_info q) = false -> w_avail l = 1)
      /\ ti_dtname (pq_info q) = txt_DWORD /\ ti_esize (pq_info q) = 4
  end.

(* what the client and the target do with the request string [s] *)
Definition resolves (p : project) (tags : tagdb) (use_ids : bool) (s : text) (r : request_ast) (q : preq) (path : bytes) : Prop :=
  exists pl pb l,
    resolve p r = Some pl
    /\ parse_tag_request tags s = Ok q /\ read_path use_ids q = Ok path
    /\ path_wf path pb /\ tag_cia pb /\ 4 <= EncapParser.blen pb
    /\ resolve_path p false pb = TgTag l
    /\ agree p pl (r_bit r) (r_count r) l q.

(* the type Expect.ref_type names, as a function of the resolved place *)
Definition place_type (p : project) (pl : place) (bit cnt : option Z) : option (text * Z) :=
  let c := match cnt with Some n => n | None => 0 end in
  match pl with
  | PlData _ _ ty _ _ =>
      match bit with
      | Some _ => Some (zs "BOOL", 0)
      | None => match ty_name p ty with Some n => Some (n, c) | None => None end
      end
  | PlBit _ _ _ => Some (zs "BOOL", 0)
  | PlBools _ _ _ _ => Some (zs "BOOL", c)
  end.

Lemma ref_type_place p r pl : resolve p r = Some pl -> ref_type p r = place_type p pl (r_bit r) (r_count r).
Proof. intros H. unfold ref_type, place_type. rewrite H. destruct pl; reflexivity. Qed.

Definition good_tag (t : rtag) (v : rvalue) (ty : text) : Prop :=
  tg_error t = false /\ tg_type t = Some ty /\ exists v', tg_value t = Some v' /\ pyeq v' v.

Lemma read_place_data_irrel p img inst off ty dims avail bit cnt :
  read_place p img (PlData inst off ty dims avail) bit cnt = read_place p img (PlData 0 off ty [] avail) bit cnt.
Proof. reflexivity. Qed.

Lemma atom_code_range c s : atom_size c = Some s -> 0 <= c < 256.
Proof. intros H. pose proof (atom_size_codes c s H). lia. Qed.

Lemma type_string_text dt tn cnt : dt = client_type_name tn -> text_eqb dt txt_DWORD = false ->
  type_string dt (cnt_n cnt) = type_text tn (match cnt with Some n => n | None => 0 end).
Proof.
  intros -> Hnd. unfold type_string, type_text. rewrite Hnd.
  destruct cnt as [k|]; cbn [cnt_n]; [reflexivity|]. reflexivity.
Qed.

Lemma served_intro app q path tb d s pb l img :
  path_wf path pb -> tag_cia pb -> 4 <= EncapParser.blen pb ->
  resolve_path (ls_proj app) false pb = TgTag l -> mem_get (ls_mem app) (w_inst l) = Some img ->
  0 <= pq_elements q < 65536 -> loc_esize (ls_proj app) l = Some s -> type_bytes (ls_proj app) l = Some tb ->
  tb_ok tb -> Expect.blen tb <= 4 -> 1 <= s -> 1 <= pq_elements q <= w_avail l ->
  loc_bytes (ls_pol app) img l 0 (pq_elements q * s) = Some d -> (w_bit l <> None -> pq_elements q * s = 1) ->
  served app q path tb d s.
Proof. intros. exists pb, l, img. tauto. Qed.

Section Agree.
  Variables (p : project) (mem : Project.mem) (pol : policy) (basic : basic_state).
  Let app := mkLState p mem pol basic.
  Hypothesis Hlay : layout_ok p = true.
  Hypothesis Hbt : 0 < po_bool_true pol < 256.

  Theorem agree_value pl bit cnt l q path pb img vref tn c :
    path_wf path pb -> tag_cia pb -> 4 <= EncapParser.blen pb -> resolve_path p false pb = TgTag l ->
    agree p pl bit cnt l q -> mem_get mem (place_inst pl) = Some img -> bytes_ok img = true ->
    pq_elements q < 65536 ->
    (match pl with PlBools _ off nbits _ => off + nbits / 8 <= Path.len img | _ => True end) ->
    read_place p img pl bit cnt = Some vref -> place_type p pl bit cnt = Some (tn, c) ->
    exists tb d s,
      served app q path tb d s /\ ti_esize (pq_info q) = s
      /\ good_tag (post_read q (reply_opt (tb ++ d) (pq_info q) (pq_elements q))) (unwrap1 cnt vref) (type_text tn c).
  Proof.
    intros Hpw Hcia Hpb4 Hres Hag Hmem Hoki Hn16 Himg Href Hty.
    destruct pl as [inst off ty dims avail|inst off b|inst off nbits start]; cbn [agree place_inst] in *.
    - (* data *)
      destruct Hag as (Hnd & Hi & Ho & Hwty & Hwb & Hwa & Hav1 & Hoff0 & Hqb & Hqbools & Hqn & (s & Hsz & Hinfo) & Hscalar & Hndw).
      destruct Hinfo as (Helem & Hes & (tn0 & Htn & Hdt) & Hst).
      assert (Hspos : 0 < s).
      { destruct ty as [cc|tid|w]; cbn [base_size] in Hsz; try discriminate.
        - destruct (atom_size_cases cc s Hsz) as [|[|[|]]]; lia.
        - destruct Hst as (_ & t & Hft & _). rewrite Hft in Hsz. injection Hsz as <-.
          destruct (find_template_in _ _ _ Hft) as [Hin _].
          pose proof (forallb_In _ _ _ Hlay Hin) as Ht. apply (sc_lay p t Ht). }
      assert (Htf : exists tb, type_bytes p l = Some tb /\ type_field p ty tb /\ Expect.blen tb <= 4).
      { unfold type_bytes. rewrite Hwty. destruct ty as [cc|tid|w]; cbn [base_size] in Hsz; try discriminate.
        - eexists. split; [reflexivity|]. split; [split; [reflexivity|apply (atom_code_range cc s Hsz)]|cbn; lia].
        - destruct Hst as (_ & t & Hft & _). rewrite Hft. eexists. split; [reflexivity|].
          split; [exists t; split; [exact Hft|reflexivity]|cbn; lia]. }
      destruct Htf as (tb & Htb & Htfield & Htb4).
      assert (Hstruct : match ty with
                        | BStruct tid => ti_struct (pq_info q) = true /\ exists t, find_template (p_templates p) tid = Some t
                                           /\ ti_attrs (pq_info q) = map m_name (visible_members t)
                        | _ => True end) by (destruct ty; auto).
      rewrite read_place_data_irrel in Href.
      (* the bytes *)
      assert (Hn : cnt_n cnt = pq_elements q) by congruence.
      assert (Hbytes : exists d, get_bytes img off (s * pq_elements q) = Some d /\ 1 <= pq_elements q <= avail).
      { unfold read_place in Href. rewrite Hsz in Href. rewrite <- Hn.
        destruct bit as [bb|]; destruct cnt as [k|]; cbn [cnt_n]; try discriminate.
        - destruct (int_ty ty && (0 <=? bb) && (bb <? 8 * s)); [|discriminate].
          rewrite Z.mul_1_r. destruct (get_bytes img off s) as [d|]; [|discriminate]. exists d. split; [reflexivity|lia].
        - destruct ((1 <=? k) && (k <=? avail)) eqn:Ek; [|discriminate].
          destruct (get_bytes img off (s * k)) as [d|]; [|discriminate]. exists d. split; [reflexivity|lia].
        - rewrite Z.mul_1_r. destruct (get_bytes img off s) as [d|]; [|discriminate]. exists d. split; [reflexivity|lia]. }
      destruct Hbytes as (d & Hd & Hnav).
      exists tb, d, s. split; [|split; [exact Hes|]].
      + apply (served_intro app q path tb d s pb l img); cbn [ls_proj ls_mem ls_pol app]; try assumption; try lia.
        * rewrite Hi. exact Hmem.
        * unfold loc_esize. rewrite Hwb, Hwty. exact Hsz.
        * apply (type_field_tb_ok p ty tb Htfield).
        * unfold loc_bytes. rewrite Hwb, Ho. replace (off + 0) with off by lia.
          replace (pq_elements q * s) with (s * pq_elements q) by lia. exact Hd.
        * intros H. congruence.
      + rewrite <- Hn in *. destruct bit as [bb|].
        * (* an integer bit *)
          destruct cnt as [k|]; [unfold read_place in Href; rewrite Hsz in Href; discriminate|]. cbn [cnt_n unwrap1] in *.
          assert (Hint0 : int_ty ty = true).
          { unfold read_place in Href. rewrite Hsz in Href. destruct (int_ty ty); [reflexivity|discriminate]. }
          destruct ty as [cc|tid|w]; try discriminate Hint0. cbn [int_ty] in Hint0. rename Hint0 into Hint.
          cbn [base_size] in Hsz.
          rewrite Z.mul_1_r in Hd.
          destruct q as [user plc qb qn qbools info]. cbn [pq_bit pq_bools pq_elements pq_info] in *. subst qb qbools qn.
          rewrite (int_bit_value p cc s info tb img off avail bb vref d user plc Hlay Hsz Hint Helem Htfield Hndw Hd Hoki Href).
          cbn [place_type] in Hty. injection Hty as <- <-.
          split; [reflexivity|]. split; [reflexivity|]. exists vref. split; [reflexivity|apply pe_refl].
        * destruct q as [user plc qb qn qbools info]. cbn [pq_bit pq_bools pq_elements pq_info] in *. subst qb qbools qn.
          destruct (data_value p ty s info tb img off avail cnt vref d user plc Hlay Hsz Hspos Helem Htfield Hstruct Hndw Hscalar)
            as (v' & Hpost & Hpy); try assumption.
          { destruct cnt as [k|]; [cbn [cnt_n] in Hnav; lia|exact I]. }
          rewrite Hpost. cbn [place_type] in Hty. rewrite Htn in Hty. injection Hty as <- <-.
          split; [reflexivity|]. split; [cbn [tg_type]; f_equal; apply type_string_text; assumption|].
          exists v'. split; [reflexivity|exact Hpy].
    - (* a BOOL *)
      destruct Hag as (Hi & Ho & Hwb & Hwty & Hav & Hqb & Hqbools & Hqn & Hcls & Hdt & Hes).
      unfold read_place in Href. destruct bit; [discriminate|]. destruct cnt; [discriminate|].
      destruct (get_bytes img off 1) as [[|x [|y t]]|] eqn:Hg; try discriminate. injection Href as <-.
      exists (le_enc 2 193), [if Z.testbit x b then po_bool_true pol else 0], 1.
      split; [|split; [exact Hes|]].
      + apply (served_intro app q path (le_enc 2 193) [if Z.testbit x b then po_bool_true pol else 0] 1 pb l img);
          cbn [ls_proj ls_mem ls_pol app]; try assumption; try lia; try (rewrite Hqn; lia).
        * rewrite Hi. exact Hmem.
        * unfold loc_esize. rewrite Hwb. reflexivity.
        * unfold type_bytes. rewrite Hwty. reflexivity.
        * apply (type_field_tb_ok p (BAtom 193) (le_enc 2 193)). split; [reflexivity|lia].
        * cbn. lia.
        * rewrite Hqn. unfold loc_bytes. rewrite Hwb, Ho, Hg. reflexivity.
      + destruct q as [user plc qb qn qbools info]. cbn [pq_bit pq_bools pq_elements pq_info] in *. subst qb qbools qn.
        assert (Hndw : text_eqb (ti_dtname info) txt_DWORD = false) by (rewrite Hdt; reflexivity).
        rewrite (bool_value info x b (po_bool_true pol) user plc Hcls Hndw Hbt).
        cbn [place_type] in Hty. injection Hty as <- <-. cbn [unwrap1].
        split; [reflexivity|]. split; [cbn [tg_type]; rewrite Hdt; reflexivity|].
        eexists. split; [reflexivity|apply pe_refl].
    - (* BOOL array *)
      destruct Hag as (Hi & Ho & Hwty & Hwb & Hnb & Hoff0 & Hst0 & Hqb & Hqbools & Hqn & Helem & Hscalar & Hdt & Hes).
      assert (Hcond : 1 <= cnt_n cnt /\ start + cnt_n cnt <= nbits).
      { unfold read_place in Href. destruct bit; [discriminate|].
        change (match cnt with Some n => n | None => 1 end) with (cnt_n cnt) in Href.
        destruct ((1 <=? cnt_n cnt) && (start + cnt_n cnt <=? nbits)) eqn:E; [lia|destruct cnt; discriminate]. }
      destruct bit; [unfold read_place in Href; discriminate|].
      destruct (dword_cover start (cnt_n cnt) (w_avail l) Hst0 (proj1 Hcond) ltac:(lia)) as (He1 & Hcov & _).
      fold (dword_elements start (cnt_n cnt)) in He1, Hcov. rewrite <- Hqn in He1, Hcov.
      assert (Hd : exists d, get_bytes img off (4 * pq_elements q) = Some d).
      { apply get_bytes_some; lia. }
      destruct Hd as [d Hd].
      exists (le_enc 2 211), d, 4. split; [|split; [exact Hes|]].
      + apply (served_intro app q path (le_enc 2 211) d 4 pb l img); cbn [ls_proj ls_mem ls_pol app]; try assumption; try lia.
        * rewrite Hi. exact Hmem.
        * unfold loc_esize. rewrite Hwb, Hwty. reflexivity.
        * unfold type_bytes. rewrite Hwty. reflexivity.
        * apply (type_field_tb_ok p (BAtom 211) (le_enc 2 211)). split; [reflexivity|lia].
        * cbn. lia.
        * unfold loc_bytes. rewrite Hwb, Ho. replace (off + 0) with off by lia.
          replace (pq_elements q * 4) with (4 * pq_elements q) by lia. exact Hd.
        * intros H. congruence.
      + destruct q as [user plc qb qn qbools info]. cbn [pq_bit pq_bools pq_elements pq_info] in *. subst qbools.
        assert (Hdw : text_eqb (ti_dtname info) txt_DWORD = true) by (rewrite Hdt; reflexivity).
        rewrite (bools_value p info img off nbits start cnt vref d user plc qb (cnt_n cnt) qn Hlay Helem Hdw eq_refl Hqn);
          try assumption.
        * cbn [place_type] in Hty. injection Hty as <- <-.
          split; [reflexivity|]. split; [|eexists; split; [reflexivity|apply pe_refl]].
          cbn [tg_type]. f_equal. unfold bool_type, type_text.
          destruct cnt as [k|]; cbn [cnt_n] in *; [|reflexivity].
          destruct (k =? 1) eqn:Ek; [replace (1 <? k) with false by lia; reflexivity|replace (1 <? k) with true by lia; reflexivity].
        * intros Harr. specialize (Hscalar Harr). lia.
  Qed.
End Agree.

(* ================================================================ the headline *)
(* the request goes through the connection: its path, one element of reply, the UINT / UDINT fields, the fuel *)
Definition fits (conn : Z) (fuel : nat) (q : preq) (path : bytes) : Prop :=
  Path.len path + 11 <= conn /\ ti_esize (pq_info q) + 10 <= conn
  /\ pq_elements q * ti_esize (pq_info q) < 4294967296 /\ pq_elements q < 65536
  /\ (Z.to_nat (pq_elements q * ti_esize (pq_info q)) < fuel)%nat.

(* the image of a BOOL array holds all its DWORDs (wf_mem: an image has the size of its tag) *)
Definition image_covers (p : project) (mem : Project.mem) (r : request_ast) : Prop :=
  match resolve p r with
  | Some (PlBools inst off nbits _) =>
      match mem_get mem inst with Some img => off + nbits / 8 <= Path.len img | None => True end
  | _ => True
  end.

(* what C01 demands of the Tag returned for the request [r] *)
Definition tag_correct (p : project) (mem : Project.mem) (r : request_ast) (t : rtag) : Prop :=
  exists v tn c, ref_read p mem r = Some v /\ ref_type p r = Some (tn, c)
                 /\ good_tag t (unwrap1 (r_count r) v) (type_text tn c).

Definition request_ok (p : project) (mem : Project.mem) (cfg : ccfg) (fuel : nat) (s : text) (r : request_ast) : Prop :=
  exists q path, resolves p (client_tags p) (c_use_ids cfg) s r q path /\ fits (c_conn cfg) fuel q path
                 /\ image_covers p mem r /\ ref_read p mem r <> None.

Section Headline.
  Variables (p : project) (mem : Project.mem) (pol : policy) (basic : basic_state) (cfg : ccfg) (fuel : nat).
  Let app := mkLState p mem pol basic.
  Hypothesis Hlay : layout_ok p = true.
  Hypothesis Hbt : 0 < po_bool_true pol < 256.
  Hypothesis Hmemok : forall inst img, mem_get mem inst = Some img -> bytes_ok img = true.

  Lemma request_rq s r : request_ok p mem cfg fuel s r ->
    exists x : rq, rq_s x = s /\ good app (client_tags p) cfg x
                   /\ (Z.to_nat (rq_n x * rq_sz x) < fuel)%nat
                   /\ tag_correct p mem r (post_read (rq_q x) (res_of x)).
  Proof.
    intros (q & path & (pl & pb & l & Hres & Hparse & Hpath & Hpw & Hcia & Hpb4 & Hrp & Hag) & Hfits & Hcov & Href).
    destruct Hfits as (Hf1 & Hf2 & Hf3 & Hf4 & Hf5).
    unfold ref_read in Href. rewrite Hres in Href.
    destruct (mem_get mem (place_inst pl)) as [img|] eqn:Hmem; [|congruence].
    destruct (read_place p img pl (r_bit r) (r_count r)) as [vref|] eqn:Hrd; [|congruence].
    assert (Hpt : exists tn c, place_type p pl (r_bit r) (r_count r) = Some (tn, c)).
    { unfold place_type. destruct pl as [inst off ty dims avail| |]; try (eexists; eexists; reflexivity).
      destruct (r_bit r); [eexists; eexists; reflexivity|].
      cbn [agree] in Hag. destruct Hag as (_ & _ & _ & _ & _ & _ & _ & _ & _ & _ & _ & (s0 & _ & (_ & _ & (tn & Htn & _) & _)) & _).
      rewrite Htn. eexists. eexists. reflexivity. }
    destruct Hpt as (tn & c & Hpt).
    assert (Himg : match pl with PlBools _ off nbits _ => off + nbits / 8 <= Path.len img | _ => True end).
    { unfold image_covers in Hcov. rewrite Hres in Hcov. destruct pl as [| |inst off nbits start]; try exact I.
      cbn [place_inst] in Hmem. rewrite Hmem in Hcov. exact Hcov. }
    destruct (agree_value p mem pol basic Hlay Hbt pl (r_bit r) (r_count r) l q path pb img vref tn c
                Hpw Hcia Hpb4 Hrp Hag Hmem (Hmemok _ _ Hmem) Hf4 Himg Hrd Hpt) as (tb & d & s0 & Hserved & Hes & Htag).
    exists (mkRq s q path tb d s0). cbn [rq_s rq_q]. split; [reflexivity|]. split; [|split].
    - unfold good, rq_good. cbn [rq_s rq_q rq_path rq_tb rq_d rq_sz]. unfold rq_n. cbn [rq_q].
      rewrite <- Hes. repeat split; try assumption. rewrite Hes. exact Hserved.
    - unfold rq_n. cbn [rq_q rq_sz]. rewrite <- Hes. exact Hf5.
    - unfold tag_correct. exists vref, tn, c. split; [|split].
      + unfold ref_read. rewrite Hres, Hmem. exact Hrd.
      + rewrite (ref_type_place p r pl Hres). exact Hpt.
      + unfold res_of, rq_n. cbn [rq_q rq_tb rq_d]. exact Htag.
  Qed.

  Theorem read_correct_partial st ms (reqs : list text) (asts : list request_ast) :
    quiet app ms st -> (c_micro800 cfg = false -> ms = true) -> c_conn cfg < 65536 ->
    Forall2 (request_ok p mem cfg fuel) reqs asts ->
    exists st' sent tags,
      run_read fuel cfg (client_tags p) st reqs = (st', sent, Done tags)
      /\ Forall2 (tag_correct p mem) asts tags.
  Proof.
    intros Hq Hms Hconn HF.
    assert (Hrs : exists rs : list rq, map rq_s rs = reqs /\ Forall (good app (client_tags p) cfg) rs
                    /\ Forall (fun x => (Z.to_nat (rq_n x * rq_sz x) < fuel)%nat) rs
                    /\ Forall2 (tag_correct p mem) asts (map (fun x => post_read (rq_q x) (res_of x)) rs)).
    { induction HF as [|s r reqs asts Hok _ (rs & H1 & H2 & H3 & H4)].
      - exists []. repeat split; constructor.
      - destruct (request_rq s r Hok) as (x & Hx1 & Hx2 & Hx3 & Hx4).
        exists (x :: rs). cbn [map]. rewrite Hx1, H1. repeat split; try constructor; assumption. }
    destruct Hrs as (rs & <- & Hgood & Hfuel & Htags).
    destruct (read_transport app (client_tags p) cfg st rs fuel ms Hq Hms Hgood Hconn Hfuel) as (st' & sent & Hrun & _).
    exists st', sent. eexists. split; [exact Hrun|exact Htags].
  Qed.
End Headline.

Print Assumptions read_correct_partial.
