(* Proofs/WriteFull.v — the request kinds of C02 whose composition with the target is STATED (in
   Props/C02.v, part of C02_full) but not yet proved: BOOL-array aligned ranges, one BOOL-array
   element, one-element BOOL slices (all proved in Proofs/WriteBools.v); whole structures given as a dict are stated
   and proved in Proofs/WriteStruct.v.  Definitions of what the upload builds for a
   structure ([wty_of], property C05's image of a template) and of the Python value that denotes a
   reference value ([py_of]), the three statements, and hand checks of each statement on concrete
   inputs by computation (so that what is left open is at least true where it was tried). *)
From Coq Require Import ZifyBool String.
From PV Require Import Base.Bytes Base.BytesLemmas Base.Res Base.Proto Base.PyStr Model.CodecFloat Model.Path Model.LogixPlan Model.LogixWrite.
From PV Require Import Spec.EncapParser Spec.MRParser Spec.TargetIface Spec.TargetCore Spec.Project Spec.Expect Spec.TargetLogix.
From PV Require Import Proofs.WriteMsg.
Open Scope Z_scope.

(* the Python value a caller passes for a reference value *)
Fixpoint py_of (v : rvalue) : pv :=
  match v with
  | RInt z => PInt z
  | RBool b => PBool b
  | RReal b => PFloat (widen32 b)
  | RLReal b => PFloat b
  | RStr s => PStr s
  | RStruct fs => PDict ((fix go (l : list (text * rvalue)) : list (text * pv) :=
                           match l with [] => [] | (n, x) :: r => (n, py_of x) :: go r end) fs)
  | RList vs => PList ((fix go (l : list rvalue) : list pv := match l with [] => [] | x :: r => py_of x :: go r end) vs)
  end.

(* the type class the tag-list upload builds for a data type (logix_driver._parse_template_data):
   elementary class by name, Array for array members, FixedSizeString for LEN/DATA structures,
   StructTag(non-BOOL members with offsets, BOOL members as bits, hidden members private) *)
Fixpoint wty_of (fuel : nat) (p : project) (ty : base_ty) : option wty :=
  match fuel with
  | O => None
  | S f =>
      match ty with
      | BAtom c => option_map WElem (atom_name c)
      | BOpaque _ => None
      | BStruct tid =>
          match find_template (p_templates p) tid with
          | None => None
          | Some t =>
              match string_shape t with
              | Some (_, dm) => Some (WFixedStr (t_size t - 4) (m_arr dm))
              | None =>
                  let plain := filter (fun m => negb (is_bool_member m)) (t_members t) in
                  let tys := map (fun m => match wty_of f p (m_ty m) with
                                           | Some e => Some (m_name m, m_off m, if m_arr m =? 0 then e else WArray (m_arr m) e)
                                           | None => None
                                           end) plain in
                  match all_some tys with
                  | Some ms =>
                      Some (WStructTag ms
                              (map (fun m => (m_name m, (m_off m, m_bit m))) (filter is_bool_member (t_members t)))
                              (map m_name (filter m_hidden (t_members t)))
                              (t_size t))
                  | None => None
                  end
              end
          end
      end
  end.

Definition all_true (l : list pv) : list rvalue := map (fun x => RBool (truthy x)) l.

(* ---- (a) BOOL-array aligned range `arr[i]{n}`: i, n multiples of 32, n >= 32 *)
Definition stmt_bools : Prop :=
  forall p m r inst off nbits start n l_py m_ref img id tag n0 tyh inst_id ui seq path,
  resolve p r = Some (PlBools inst off nbits start) -> r_bit r = None -> r_count r = Some n ->
  mem_get m inst = Some img -> bytes_ok img = true ->
  0 <= start -> start mod 32 = 0 -> 32 <= n < 65536 * 32 -> n mod 32 = 0 ->
  ref_write p m r (RList (all_true l_py)) = Some m_ref ->
  0 <= seq < 65536 ->
  let info := mkInfo false n_DWORD (WArray n0 (WElem n_DWORD)) tyh inst_id in
  let q := mkParsed id false tag (Some start) ((start + n) / 32) (Some n) info (PList l_py) in
  let l := mkWLoc inst (off + 4 * (start / 32)) (BAtom C_DWORD) [] (nbits / 32 - start / 32) None in
  path_of tag info ui = Ok (Some path) ->
  exists data pk pk1,
    encode_value q = Ok (data, n / 32)
    /\ new_write_packet KWrite seq tag (n / 32) info id ui 0 data = Ok pk
    /\ build_message pk = Ok pk1
    /\ k_message pk1 = le_enc 2 seq ++ [77] ++ path ++ write_data (le_enc 2 C_DWORD) (n / 32) data
    /\ svc_write p m img l (write_data (le_enc 2 C_DWORD) (n / 32) data)
       = (m_ref, mr_ok [], [EvApp 1 [inst; off + 4 * (start / 32); 77] data]).

(* ---- (b) one BOOL-array element `arr[i]`: a Read-Modify-Write of bit i mod 32 of DWORD i / 32 *)
Definition stmt_bool_element : Prop :=
  forall p m r inst off nbits start v m_ref img,
  resolve p r = Some (PlBools inst off nbits start) -> r_bit r = None -> r_count r = None ->
  mem_get m inst = Some img -> bytes_ok img = true ->
  0 <= start -> 0 <= off -> off + 4 * (start / 32) + 4 <= Expect.blen img ->     (* the DWORD lies in the tag's image *)
  ref_write p m r (RBool (truthy v)) = Some m_ref ->
  let l := mkWLoc inst (off + 4 * (start / 32)) (BAtom C_DWORD) [] (nbits / 32 - start / 32) None in
  let o := fst (rmw_masks true [(start, truthy v)]) in
  let a := snd (rmw_masks true [(start, truthy v)]) in
  exists ob ab stored,
    mask_bytes o 4 = Ok ob /\ mask_bytes a 4 = Ok ab
    /\ svc_rmw p m img l (rmw_data 4 ob ab) = (m_ref, mr_ok [], [EvApp 1 [inst; off + 4 * (start / 32); 78] stored]).

(* ---- (d) a one-element slice of a BOOL array, `arr[i]{1}`, written with the one-item list [x]:
   planned as a bit write; set_bit takes the item of a one-item list *)
Definition stmt_bool_slice1 : Prop :=
  forall p m r inst off nbits start x m_ref img,
  resolve p r = Some (PlBools inst off nbits start) -> r_bit r = None -> r_count r = Some 1 ->
  mem_get m inst = Some img -> bytes_ok img = true ->
  0 <= start -> 0 <= off -> off + 4 * (start / 32) + 4 <= Expect.blen img ->
  ref_write p m r (RList [RBool x]) = Some m_ref ->
  let l := mkWLoc inst (off + 4 * (start / 32)) (BAtom C_DWORD) [] (nbits / 32 - start / 32) None in
  let o := fst (rmw_masks true [(start, truthy (unwrap_one (PList [PBool x])))]) in
  let a := snd (rmw_masks true [(start, truthy (unwrap_one (PList [PBool x])))]) in
  exists ob ab stored,
    mask_bytes o 4 = Ok ob /\ mask_bytes a 4 = Ok ab
    /\ svc_rmw p m img l (rmw_data 4 ob ab) = (m_ref, mr_ok [], [EvApp 1 [inst; off + 4 * (start / 32); 78] stored]).

(* ================================================================ hand checks by computation *)
Definition zs (x : string) : text := zs_of_string x.
Arguments zs x%string.

Definition ex_udt : template :=
  mkTemplate (zs "udtMix") (Some (zs "n1")) 672 17185 12 0
    [ mkMember (zs "ZZZZZZZZZZudtMix0") (BAtom C_SINT) 0 0 0 true;
      mkMember (zs "bRun") (BAtom C_BOOL) 0 0 0 false;
      mkMember (zs "bFault") (BAtom C_BOOL) 0 0 5 false;
      mkMember (zs "Count") (BAtom C_INT) 0 2 0 false;
      mkMember (zs "Vals") (BAtom C_DINT) 2 4 0 false ].
Definition ex_proj : project :=
  mkProject [ex_udt]
    [ mkTag (zs "bools") 7 ScCtrl (BAtom C_DWORD) [3] 0 false 0 0 0 0;
      mkTag (zs "mix") 9 ScCtrl (BStruct 672) [] 0 false 0 0 0 0 ].
Definition ex_mem : mem := [(7, [1; 2; 3; 4; 5; 6; 7; 8; 9; 10; 11; 12]); (9, [255; 254; 253; 252; 251; 250; 249; 248; 247; 246; 245; 244])].

Example ex_wf : wf_project ex_proj = true /\ wf_mem ex_proj ex_mem = true.
Proof. vm_compute. split; reflexivity. Qed.

Definition ex_bits32 : list pv := map (fun k => PBool (Z.odd k)) (map Z.of_nat (seq 0 40)).

(* (a): bools[32]{32} with a 40-item list: DWORD 1 becomes 0xAAAAAAAA, nothing else changes *)
Example ex_bools :
  let r := mkReq None [mkSeg (zs "bools") [32]] None (Some 32) in
  let info := mkInfo false n_DWORD (WArray 3 (WElem n_DWORD)) 0 (Some 7) in
  let q := mkParsed 0 false (zs "bools[1]") (Some 32) 2 (Some 32) info (PList ex_bits32) in
  let l := mkWLoc 7 4 (BAtom C_DWORD) [] 2 None in
  resolve ex_proj r = Some (PlBools 7 0 96 32)
  /\ encode_value q = Ok ([170; 170; 170; 170], 1)
  /\ ref_write ex_proj ex_mem r (RList (all_true ex_bits32)) = Some [(7, [1; 2; 3; 4; 170; 170; 170; 170; 9; 10; 11; 12]); (9, [255; 254; 253; 252; 251; 250; 249; 248; 247; 246; 245; 244])]
  /\ svc_write ex_proj ex_mem [1; 2; 3; 4; 5; 6; 7; 8; 9; 10; 11; 12] l (write_data (le_enc 2 C_DWORD) 1 [170; 170; 170; 170])
     = ([(7, [1; 2; 3; 4; 170; 170; 170; 170; 9; 10; 11; 12]); (9, [255; 254; 253; 252; 251; 250; 249; 248; 247; 246; 245; 244])],
        mr_ok [], [EvApp 1 [7; 4; 77] [170; 170; 170; 170]]).
Proof. vm_compute. repeat split; reflexivity. Qed.

(* (b): bools[70] := True: bit 6 of DWORD 2 (byte 8: 9 -> 73), one Read-Modify-Write *)
Example ex_bool_element :
  let r := mkReq None [mkSeg (zs "bools") [70]] None None in
  let l := mkWLoc 7 8 (BAtom C_DWORD) [] 1 None in
  resolve ex_proj r = Some (PlBools 7 0 96 70)
  /\ rmw_masks true [(70, true)] = (64, 18446744073709551615)
  /\ ref_write ex_proj ex_mem r (RBool true) = Some [(7, [1; 2; 3; 4; 5; 6; 7; 8; 73; 10; 11; 12]); (9, [255; 254; 253; 252; 251; 250; 249; 248; 247; 246; 245; 244])]
  /\ svc_rmw ex_proj ex_mem [1; 2; 3; 4; 5; 6; 7; 8; 9; 10; 11; 12] l (rmw_data 4 [64; 0; 0; 0] [255; 255; 255; 255])
     = ([(7, [1; 2; 3; 4; 5; 6; 7; 8; 73; 10; 11; 12]); (9, [255; 254; 253; 252; 251; 250; 249; 248; 247; 246; 245; 244])],
        mr_ok [], [EvApp 1 [7; 8; 78] [73; 10; 11; 12]]).
Proof. vm_compute. repeat split; reflexivity. Qed.

(* (c): the whole structure as a dict: hidden host byte rebuilt from the BOOL members, padding zero *)
Definition ex_ty_opt : option wty := Eval vm_compute in wty_of (depth_fuel ex_proj) ex_proj (BStruct 672).
Example ex_struct :
  let r := mkReq None [mkSeg (zs "mix") []] None None in
  let rv := RStruct [(zs "bRun", RBool true); (zs "bFault", RBool true); (zs "Count", RInt (-2)); (zs "Vals", RList [RInt 1; RInt (-1)])] in
  let expect := [(7, [1; 2; 3; 4; 5; 6; 7; 8; 9; 10; 11; 12]); (9, [33; 0; 254; 255; 1; 0; 0; 0; 255; 255; 255; 255])] in
  match ex_ty_opt with
  | None => False
  | Some ty =>
    wty_of (depth_fuel ex_proj) ex_proj (BStruct 672) = Some ty
    /\ ref_write ex_proj ex_mem r rv = Some expect
    /\ encode_value (mkParsed 0 false (zs "mix") None 1 None (mkInfo true (zs "udtMix") ty 17185 (Some 9)) (py_of rv))
       = Ok ([33; 0; 254; 255; 1; 0; 0; 0; 255; 255; 255; 255], 1)
    /\ svc_write ex_proj ex_mem [255; 254; 253; 252; 251; 250; 249; 248; 247; 246; 245; 244] (mkWLoc 9 0 (BStruct 672) [] 1 None)
         (write_data (160 :: 2 :: le_enc 2 17185) 1 [33; 0; 254; 255; 1; 0; 0; 0; 255; 255; 255; 255])
       = (expect, mr_ok [], [EvApp 1 [9; 0; 77] [33; 0; 254; 255; 1; 0; 0; 0; 255; 255; 255; 255]])
  end.
Proof. vm_compute. repeat split; reflexivity. Qed.
