(* Proofs/UploadObsP.v — C05: what the dictionary built for a template SAYS.
   * [Exp]: the observation the reference demands of a template id (relational form of
     Spec/UploadObs.odef_of: no fuel), nested definitions included;
   * [member_loop_spec]: internal_tags and attributes after the member loop;
   * [string_detection]: the string test of the code against Spec/Expect.string_shape — the
     capacity is the length of DATA, the character area is structure size - 4;
   * [obs_of_built]: the observation of [exp_datatype infos t] is the expected one, whenever the
     nested definitions have the expected observations. *)
From Coq Require Import ZifyBool String.
From PV Require Import Base.Bytes Base.BytesLemmas Base.Proto Base.PyStr Base.Res.
From PV Require Import Spec.Project Spec.Expect Spec.UploadObs Model.LogixUpload.
From PV Require Import Proofs.UploadDefs Proofs.UploadParse Proofs.UploadFilter Proofs.UploadTemplate Proofs.UploadBlob.
Open Scope string_scope.
Open Scope list_scope.
Open Scope Z_scope.

(* ================================================================ the expected observation *)
Definition mem_obs (m : Project.member) (ty : oty) : text * oty * Z * Z * option Z :=
  (m_name m, ty, m_arr m, m_off m, if is_bool_member m then Some (m_bit m) else None).

Definition str_obs (t : template) : option (Z * Z * Z) :=
  match string_shape t with
  | Some _ => let dl := data_length (map view_member (visible_members t)) in Some (dl, t_size t - 4, dl)
  | None => None
  end.

Section Expected.
  Variable ts : list template.

  Inductive Exp : Z -> odef -> Prop :=
  | Exp_def tid t ms :
      find_template ts tid = Some t ->
      Forall2 MemExp (visible_members t) ms ->
      Exp tid (MkODef (Some (display_name (t_name t))) (t_handle t) (t_size t) (template_defsize t)
                      (template_member_count t) (map m_name (visible_members t)) ms (str_obs t))
  with MemExp : Project.member -> text * oty * Z * Z * option Z -> Prop :=
  | ME_atom m c : m_ty m = BAtom c -> MemExp m (mem_obs m (inl c))
  | ME_struct m tid d : m_ty m = BStruct tid -> Exp tid d -> MemExp m (mem_obs m (inr d)).
End Expected.

(* ================================================================ dictionaries *)
Lemma dict_set_absent {V} (d : list (text * V)) k v :
  dict_get PyStr.text_eqb d k = None -> dict_set PyStr.text_eqb d k v = d ++ [(k, v)].
Proof.
  induction d as [|[k' v'] d IH]; [reflexivity|]. cbn [dict_get dict_set].
  destruct (PyStr.text_eqb k' k); [discriminate|]. intros H. rewrite IH by exact H. reflexivity.
Qed.

Lemma dict_get_app_absent {V} (d : list (text * V)) k k' v :
  PyStr.text_eqb k' k = false -> dict_get PyStr.text_eqb d k = None -> dict_get PyStr.text_eqb (d ++ [(k', v)]) k = None.
Proof.
  intros Hk. induction d as [|[a b] d IH]; cbn [app dict_get]; [rewrite Hk; reflexivity|].
  destruct (PyStr.text_eqb a k); [discriminate | exact IH].
Qed.

Lemma text_eqb_neq a b : a <> b -> PyStr.text_eqb a b = false.
Proof. intros H. destruct (PyStr.text_eqb a b) eqn:E; [|reflexivity]. apply text_eqb_eq in E. contradiction. Qed.

(* ================================================================ the member loop *)
Lemma member_step_fields pre st nm info :
  nm <> [] -> dict_get PyStr.text_eqb (ml_internal st) nm = None ->
  ml_internal (member_step pre st nm info) = ml_internal st ++ [(nm, info)]
  /\ ml_attributes (member_step pre st nm info)
     = ml_attributes st ++ (if private_member pre nm then [] else [nm]).
Proof.
  intros Hne Habs. unfold member_step. destruct nm as [|c nm']; [contradiction|].
  cbn [ml_internal ml_attributes]. rewrite dict_set_absent by exact Habs.
  split; [reflexivity|]. destruct (private_member pre (c :: nm')); [rewrite app_nil_r|]; reflexivity.
Qed.

Lemma member_loop_spec pre : forall names infos st,
  length names = length infos -> NoDup names -> Forall (fun n => n <> []) names ->
  (forall n, In n names -> dict_get PyStr.text_eqb (ml_internal st) n = None) ->
  ml_internal (member_loop pre st names infos) = ml_internal st ++ combine names infos
  /\ ml_attributes (member_loop pre st names infos)
     = ml_attributes st ++ filter (fun n => negb (private_member pre n)) names.
Proof.
  induction names as [|n names IH]; intros [|i infos] st Hlen Hnd Hne Habs; try discriminate.
  - cbn. rewrite !app_nil_r. auto.
  - cbn [member_loop combine filter].
    inversion Hnd as [|? ? Hnotin Hnd']; subst. inversion Hne as [|? ? Hn Hne']; subst.
    destruct (member_step_fields pre st n i Hn (Habs n (or_introl eq_refl))) as (E1 & E2).
    destruct (IH infos (member_step pre st n i) ltac:(cbn in Hlen; lia) Hnd' Hne') as (F1 & F2).
    { intros x Hx. rewrite E1. apply dict_get_app_absent; [|apply Habs; right; exact Hx].
      apply text_eqb_neq. intros ->. contradiction. }
    rewrite F1, F2, E1, E2, <- !app_assoc. split; [reflexivity|].
    destruct (private_member pre n); reflexivity.
Qed.

(* ================================================================ names *)
Lemma text_eqb_project a b : Project.text_eqb a b = PyStr.text_eqb a b.
Proof. symmetry. apply text_eqb_same. Qed.

Lemma distinct_nodup (l : list text) : distinct_by name_eqb l = true -> NoDup l.
Proof.
  induction l as [|a l IH]; [constructor|]. cbn [distinct_by]. intros H. apply andb_prop in H. destruct H as [H1 H2].
  constructor; [|apply IH; exact H2].
  intros Hin. apply negb_true_iff in H1.
  assert (existsb (name_eqb a) l = true); [|congruence].
  apply existsb_exists. exists a. split; [exact Hin|].
  unfold name_eqb. generalize (lower a). intros x. induction x as [|c x IHx]; [reflexivity|]. cbn. rewrite Z.eqb_refl, IHx. reflexivity.
Qed.

Lemma private_member_host pre n : private_member pre n = (starts_with txt_ZZ n || starts_with txt_UU n
                                                          || (pre && (Project.text_eqb n txt_CTL || Project.text_eqb n txt_Control))).
Proof. unfold private_member. rewrite (text_eqb_project n txt_CTL), (text_eqb_project n txt_Control). reflexivity. Qed.

(* ================================================================ elementary names back to codes *)
Lemma atom_code_roundtrip : forallb (fun c => match atom_name c with Some n => atom_code_of_name n =? c | None => false end) ATOMS = true.
Proof. vm_compute. reflexivity. Qed.
Lemma atom_code_of_atom_name c n : In c ATOMS -> atom_name c = Some n -> atom_code_of_name n = c.
Proof.
  intros Hin En. pose proof atom_code_roundtrip as H. rewrite forallb_forall in H. specialize (H c Hin).
  rewrite En in H. lia.
Qed.

(* ================================================================ the observation of a built dictionary *)
Definition no_pseudo_string (t : template) : Prop :=
  forall l d, visible_members t = [l; d] -> m_name l = txt_LEN -> m_name d = txt_DATA -> m_arr d <> 0 ->
    match m_ty d with
    | BAtom c => c = C_SINT -> m_ty l = BAtom C_DINT /\ m_arr l = 0
    | _ => False
    end.

Record tmpl_facts (t : template) : Prop := {
  tf_nodup : NoDup (map m_name (t_members t));
  tf_nonempty : Forall (fun m => m_name m <> []) (t_members t);
  tf_hidden : Forall (fun m => m_hidden m = host_name (t_id t) (m_name m)) (t_members t);
  tf_fields : Forall member_fields_ok (t_members t);
  tf_arr : Forall (fun m => 0 <= m_arr m) (t_members t);
  tf_nopseudo : no_pseudo_string t
}.

Lemma nodup_map_inj {A B} (f : A -> B) (l : list A) a b :
  NoDup (map f l) -> In a l -> In b l -> f a = f b -> a = b.
Proof.
  induction l as [|x l IH]; intros Hnd Ha Hb E; [destruct Ha|].
  cbn [map] in Hnd. inversion Hnd as [|? ? Hnot Hnd']; subst.
  destruct Ha as [<- | Ha], Hb as [<- | Hb]; auto.
  - exfalso. apply Hnot. rewrite E. apply in_map. exact Hb.
  - exfalso. apply Hnot. rewrite <- E. apply in_map. exact Ha.
Qed.

Lemma dict_get_combine {I} (R : Project.member -> I -> Prop) : forall ms infos m,
  Forall2 R ms infos -> NoDup (map m_name ms) -> In m ms ->
  exists info, dict_get PyStr.text_eqb (combine (map m_name ms) infos) (m_name m) = Some info /\ R m info.
Proof.
  induction 1 as [|m0 i0 ms infos HR HF IH]; intros Hnd Hin; [destruct Hin|].
  cbn [map combine dict_get]. cbn [map] in Hnd. inversion Hnd as [|? ? Hnot Hnd']; subst.
  destruct Hin as [<- | Hin].
  - rewrite text_eqb_refl. eauto.
  - rewrite text_eqb_neq; [apply IH; assumption|].
    intros E. apply Hnot. rewrite E. apply in_map. exact Hin.
Qed.

Section Built.
  Variable ts : list template.
  Variable Good : Z -> datatype -> Prop.
  Hypothesis Good_exp : forall tid d, Good tid d -> Exp ts tid (odef_of_dt d).

  (* the observation entry odef_of_dt computes from one internal_tags entry *)
  Definition obs_entry (n : text) (m : LogixUpload.member) : text * oty * Z * Z * option Z :=
    (n,
     match mm_dtype m with
     | DNone => inl (-1)
     | DName x => if mm_struct m then inl (-2) else inl (atom_code_of_name x)
     | DDef d' => if mm_struct m then inr (odef_of_dt d') else inl (-2)
     end,
     match mm_array m with Some a => a | None => 0 end, mm_offset m, mm_bit m).

  Lemma entry_of_good m info :
    member_fields_ok m -> info_good Good m info -> MemExp ts m (obs_entry (m_name m) info).
  Proof.
    intros (Hi & Ho & Hty) (nested & Ee & Hn). unfold exp_member in Ee.
    destruct (m_ty m) as [c|tid|w] eqn:Ety; [| |contradiction].
    - destruct Hty as [Hc Hb]. destruct (atom_facts c Hc) as (n & En & _). rewrite En in Ee.
      injection Ee as <-. unfold obs_entry. cbn [mm_dtype mm_struct mm_array mm_offset mm_bit].
      rewrite (atom_code_of_atom_name c n Hc En).
      assert (Hib : is_bool_member m = (c =? C_BOOL)) by (unfold is_bool_member; rewrite Ety; reflexivity).
      assert (E : (m_name m, @inl Z odef c, (if c =? C_BOOL then 0 else m_arr m), m_off m,
                   (if c =? C_BOOL then Some (m_bit m) else None)) = mem_obs m (inl c)).
      { unfold mem_obs. rewrite Hib. destruct (c =? C_BOOL) eqn:Eb; [|reflexivity].
        rewrite (Hb ltac:(lia)). reflexivity. }
      replace (m_name m, inl c, match (if c =? C_BOOL then None else Some (member_info_word m)) with Some a => a | None => 0 end,
               m_off m, (if c =? C_BOOL then Some (member_info_word m) else None)) with (mem_obs m (inl c)).
      + apply ME_atom. exact Ety.
      + rewrite <- E. unfold member_info_word. rewrite Hib. destruct (c =? C_BOOL); reflexivity.
    - destruct (Hn tid eq_refl) as (d & End & Hg). rewrite End in Ee. injection Ee as <-.
      unfold obs_entry. cbn [mm_dtype mm_struct mm_array mm_offset mm_bit].
      replace (m_name m, inr (odef_of_dt d), m_arr m, m_off m, None) with (mem_obs m (inr (odef_of_dt d))).
      + eapply ME_struct; [exact Ety | apply Good_exp; exact Hg].
      + unfold mem_obs, is_bool_member. rewrite Ety. reflexivity.
  Qed.

  Lemma members_obs (keep : text -> bool) : forall ms infos,
    Forall2 (info_good Good) ms infos -> Forall member_fields_ok ms ->
    (forall m, In m ms -> keep (m_name m) = negb (m_hidden m)) ->
    Forall2 (MemExp ts) (filter (fun m => negb (m_hidden m)) ms)
            (flat_map (fun nm : text * LogixUpload.member =>
                         let '(n, m) := nm in if keep n then [obs_entry n m] else [])
                      (combine (map m_name ms) infos)).
  Proof.
    induction 1 as [|m i ms infos Hg HF IH]; intros Hok Hkeep; [constructor|].
    inversion Hok as [|? ? Hm Hms]; subst.
    cbn [map combine flat_map filter]. rewrite (Hkeep m (or_introl eq_refl)).
    specialize (IH Hms (fun x Hx => Hkeep x (or_intror Hx))).
    destruct (negb (m_hidden m)); cbn [app]; [|exact IH].
    constructor; [apply entry_of_good; assumption | exact IH].
  Qed.

  Lemma odef_of_dt_eq name internal attributes template str sm tc :
    odef_of_dt (MkDT name internal attributes template str sm tc)
    = MkODef name (ta_handle template) (ta_size template) (ta_defsize template) (ta_count template) attributes
             (flat_map (fun nm : text * LogixUpload.member =>
                          let '(n, m) := nm in if in_attrs attributes n then [obs_entry n m] else []) internal)
             (match str, tc with
              | Some cap, TcString size capacity => Some (cap, size, capacity)
              | Some cap, _ => Some (cap, -1, -1)
              | None, TcString size capacity => Some (-1, size, capacity)
              | None, _ => None
              end).
  Proof. reflexivity. Qed.

  Lemma visible_names_filter t :
    Forall (fun m => m_hidden m = host_name (t_id t) (m_name m)) (t_members t) ->
    filter (fun n => negb (private_member (predefined_id (t_id t)) n)) (map m_name (t_members t))
    = map m_name (visible_members t).
  Proof.
    unfold visible_members. induction 1 as [|m ms Hm Hms IH]; [reflexivity|].
    cbn [map filter]. rewrite private_member_host. change (T "ZZZZZZZZZZ") with txt_ZZ. change (T "__") with txt_UU.
    rewrite Hm. unfold host_name. destruct (negb _); cbn [map]; rewrite IH; reflexivity.
  Qed.

  Lemma keep_visible t :
    NoDup (map m_name (t_members t)) ->
    forall m, In m (t_members t) -> in_attrs (map m_name (visible_members t)) (m_name m) = negb (m_hidden m).
  Proof.
    intros Hnd m Hin. unfold in_attrs, visible_members.
    destruct (m_hidden m) eqn:Eh; cbn [negb].
    - destruct (existsb _ _) eqn:Ee; [|reflexivity]. exfalso.
      apply existsb_exists in Ee. destruct Ee as (n' & Hn' & E). apply text_eqb_eq in E.
      apply in_map_iff in Hn'. destruct Hn' as (m' & <- & Hm'). apply filter_In in Hm'. destruct Hm' as [Hm' Hv].
      assert (m = m') by (eapply nodup_map_inj; eassumption). subst m'. rewrite Eh in Hv. discriminate.
    - apply existsb_exists. exists (m_name m). split; [|apply text_eqb_refl].
      apply in_map. apply filter_In. rewrite Eh. auto.
  Qed.
End Built.

(* ================================================================ string detection *)
(* the test the code applies, phrased on the project: visible members LEN, DATA; DATA a SINT array *)
Definition code_string_test (t : template) : option Z :=
  match visible_members t with
  | [l; d] =>
      if PyStr.text_eqb (m_name l) txt_LEN && PyStr.text_eqb (m_name d) txt_DATA then
        match m_ty d with
        | BAtom c => if (c =? C_SINT) && negb (m_arr d =? 0) then Some (m_arr d) else None
        | _ => None
        end
      else None
  | _ => None
  end.

Lemma in_visible t m : In m (visible_members t) -> In m (t_members t).
Proof. unfold visible_members. intros H. apply filter_In in H. apply H. Qed.

Section Strings.
  Variable Good : Z -> datatype -> Prop.

  Theorem string_detection t infos :
    tmpl_facts t -> Forall2 (info_good Good) (t_members t) infos ->
    string_length (member_loop (predefined_id (t_id t)) ml_init (map m_name (t_members t)) infos) = code_string_test t.
  Proof.
    intros [Hnd Hne Hhid Hok Harr Hps] HF.
    destruct (member_loop_spec (predefined_id (t_id t)) (map m_name (t_members t)) infos ml_init) as (Ei & Ea).
    { rewrite map_length. eapply Forall2_len. exact HF. }
    { exact Hnd. }
    { rewrite Forall_map. exact Hne. }
    { intros; reflexivity. }
    cbn [ml_init ml_internal ml_attributes app] in Ei, Ea.
    unfold string_length. rewrite Ei, Ea, (visible_names_filter t Hhid).
    unfold code_string_test.
    destruct (visible_members t) as [|l [|d [|x r]]] eqn:Ev; try reflexivity.
    cbn [map]. change (T "LEN") with txt_LEN. change (T "DATA") with txt_DATA. change (T "SINT") with [83; 73; 78; 84].
    destruct (PyStr.text_eqb (m_name l) txt_LEN && PyStr.text_eqb (m_name d) txt_DATA) eqn:En; [|reflexivity].
    apply andb_prop in En. destruct En as [El Ed]. apply text_eqb_eq in El, Ed.
    assert (Hd : In d (t_members t)) by (apply in_visible; rewrite Ev; right; left; reflexivity).
    destruct (dict_get_combine (info_good Good) (t_members t) infos d HF Hnd Hd) as (info & Eget & Hg).
    rewrite Ed in Eget.
    match goal with |- match ?X with Some _ => _ | None => _ end = _ => replace X with (Some info) by (symmetry; exact Eget) end.
    destruct Hg as (nested & Ee & Hn). unfold exp_member in Ee.
    rewrite Forall_forall in Hok. destruct (Hok d Hd) as (_ & _ & Hty).
    destruct (m_ty d) as [c|tid|w] eqn:Ety; [| |contradiction].
    - destruct Hty as [Hc Hb]. destruct (atom_facts c Hc) as (n & Enm & _ & _ & _ & _ & Ebool & Esint). rewrite Enm in Ee.
      injection Ee as <-. cbn [mm_dtname mm_array].
      change (T "SINT") with [83; 73; 78; 84] in Esint.
      assert (Hiw : member_info_word d = m_arr d \/ c = C_BOOL).
      { unfold member_info_word, is_bool_member. rewrite Ety. destruct (c =? C_BOOL) eqn:E; [right; lia | left; reflexivity]. }
      destruct (c =? C_BOOL) eqn:Eb.
      + assert (c =? C_SINT = false) by (unfold C_BOOL, C_SINT in *; lia). rewrite H. reflexivity.
      + destruct Hiw as [-> | ->]; [|unfold C_BOOL in Eb; lia]. rewrite Esint. reflexivity.
    - destruct (Hn tid eq_refl) as (d' & End & _). rewrite End in Ee. injection Ee as <-. cbn [mm_dtname mm_array].
      destruct (m_arr d =? 0) eqn:E0.
      + destruct (dt_name d'); [rewrite andb_false_r|]; reflexivity.
      + exfalso. specialize (Hps l d Ev El Ed ltac:(lia)). rewrite Ety in Hps. exact Hps.
  Qed.
End Strings.

Lemma LEN_not_DATA : Project.text_eqb txt_LEN txt_DATA = false. Proof. reflexivity. Qed.

(* capacity = DATA length, character area = structure size - 4: what Spec/Expect.string_shape demands *)
Theorem string_capacity t :
  no_pseudo_string t -> Forall (fun m => 0 <= m_arr m) (t_members t) ->
  option_map (fun a => (a, t_size t - 4, a)) (code_string_test t) = str_obs t.
Proof.
  intros Hps Harr. unfold code_string_test, str_obs, string_shape.
  destruct (visible_members t) as [|l [|d [|x r]]] eqn:Ev; try reflexivity.
  rewrite <- (text_eqb_project (m_name l) txt_LEN), <- (text_eqb_project (m_name d) txt_DATA).
  destruct (Project.text_eqb (m_name l) txt_LEN && Project.text_eqb (m_name d) txt_DATA) eqn:En; [|reflexivity].
  cbn [andb].
  apply andb_prop in En. destruct En as [El Ed]. rewrite text_eqb_project in El, Ed. apply text_eqb_eq in El, Ed.
  assert (Hd : 0 <= m_arr d).
  { rewrite Forall_forall in Harr. apply Harr. apply in_visible. rewrite Ev. right; left; reflexivity. }
  destruct (m_ty d) as [c|tid|w] eqn:Ety.
  - destruct ((c =? C_SINT) && negb (m_arr d =? 0)) eqn:Ec.
    + apply andb_prop in Ec. destruct Ec as [Ec E0]. apply Z.eqb_eq in Ec. apply negb_true_iff in E0.
      specialize (Hps l d Ev El Ed ltac:(lia)). rewrite Ety in Hps. destruct (Hps Ec) as [Hl H0].
      rewrite Hl, H0. subst c. change (C_DINT =? C_DINT) with true. change (0 =? 0) with true. change (C_SINT =? C_SINT) with true.
      replace (0 <? m_arr d) with true by lia. cbn [andb option_map map].
      unfold data_length. cbn [filter view_member vm_name]. rewrite El, Ed.
      rewrite LEN_not_DATA. change (Project.text_eqb txt_DATA txt_DATA) with true. cbn [vm_arr]. reflexivity.
    + cbn [option_map].
      destruct (match m_ty l with BAtom c0 => c0 =? C_DINT | _ => false end); [|reflexivity].
      destruct (m_arr l =? 0); [|reflexivity]. cbn [andb].
      destruct (c =? C_SINT) eqn:E1; [|reflexivity]. cbn [andb] in *.
      apply negb_false_iff in Ec. replace (0 <? m_arr d) with false by lia. reflexivity.
  - cbn [option_map]. rewrite !andb_false_r. reflexivity.
  - cbn [option_map]. rewrite !andb_false_r. reflexivity.
Qed.

(* ================================================================ the whole dictionary *)
Section Built2.
  Variable ts : list template.
  Variable Good : Z -> datatype -> Prop.
  Hypothesis Good_exp : forall tid d, Good tid d -> Exp ts tid (odef_of_dt d).

  Theorem obs_of_built t infos :
    find_template ts (t_id t) = Some t -> tmpl_facts t ->
    Forall2 (info_good Good) (t_members t) infos ->
    Exp ts (t_id t) (odef_of_dt (exp_datatype infos t))
    /\ dt_name (exp_datatype infos t) = Some (display_name (t_name t)).
  Proof.
    intros Hfind Hfacts HF.
    pose proof (string_detection Good t infos Hfacts HF) as Hstr.
    pose proof (string_capacity t (tf_nopseudo t Hfacts) (tf_arr t Hfacts)) as Hcap.
    destruct Hfacts as [Hnd Hne Hhid Hok Harr Hps].
    destruct (member_loop_spec (predefined_id (t_id t)) (map m_name (t_members t)) infos ml_init) as (Ei & Ea).
    { rewrite map_length. eapply Forall2_len. exact HF. }
    { exact Hnd. }
    { rewrite Forall_map. exact Hne. }
    { intros; reflexivity. }
    cbn [ml_init ml_internal ml_attributes app] in Ei, Ea. rewrite (visible_names_filter t Hhid) in Ea.
    unfold exp_datatype, build_datatype. rewrite Hstr.
    set (st := member_loop _ _ _ _) in *.
    pose proof (members_obs ts Good Good_exp (in_attrs (map m_name (visible_members t))) (t_members t) infos HF Hok
                            (keep_visible t Hnd)) as Hms.
    fold (visible_members t) in Hms.
    destruct (code_string_test t) as [cap|] eqn:Ecs; cbn [option_map] in Hcap; (split; [|reflexivity]);
      rewrite odef_of_dt_eq, Ei, Ea; cbn [template_attrs_of ta_handle ta_size ta_defsize ta_count];
      rewrite Hcap; apply Exp_def; assumption.
  Qed.
End Built2.
