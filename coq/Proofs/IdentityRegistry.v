(* Proofs/IdentityRegistry.v — the documented registries (Spec/RegistrySpec.v, hand-maintained
   snapshot) are contained in the tables regenerated from /repo (Gen/Vendors.v, Gen/Status.v):
   every documented id still carries its documented text.  Finite: checked by computation over the
   spec tables and lifted with forallb_forall.  Direction spec ⊆ regenerated only. *)
From Coq Require Import String ZifyBool.
From PV Require Import Base.Bytes Base.Res Base.Proto Base.PyStr Model.Identity Spec.IdentitySpec Spec.RegistrySpec.
From PV Require Import Proofs.IdentityPrim Proofs.IdentityTables.
From PV Require Gen.Vendors Gen.Status.
Open Scope Z_scope.

Definition carries (t : list (Z * list Z)) (p : Z * list Z) : bool :=
  match tbl_find t (fst p) with Some n => text_eqb n (snd p) | None => false end.

Lemma carries_all spec t : forallb (carries t) spec = true ->
  forall id name, In (id, name) spec -> tbl_find t id = Some name.
Proof.
  intros H id name Hin. rewrite forallb_forall in H. specialize (H _ Hin).
  unfold carries in H. cbn [fst snd] in H.
  destruct (tbl_find t id) as [n|]; [|discriminate]. apply text_eqb_eq in H. now subst.
Qed.

Lemma vendors_preserved : forall id name, In (id, name) spec_vendors -> tbl_find Gen.Vendors.vendors id = Some name.
Proof. apply carries_all. vm_compute. reflexivity. Qed.

Lemma product_types_preserved :
  forall id name, In (id, name) spec_product_types -> tbl_find Gen.Status.product_types id = Some name.
Proof. apply carries_all. vm_compute. reflexivity. Qed.

Definition carries2 (t : list (Z * list (Z * list Z))) (p : Z * list (Z * list Z)) : bool :=
  match tbl_find t (fst p) with Some sub => forallb (carries sub) (snd p) | None => false end.

Lemma keyswitch_preserved : forall b0 sub b1 text,
  In (b0, sub) spec_keyswitch_table -> In (b1, text) sub -> spec_keyswitch b0 b1 = text.
Proof.
  assert (H : forallb (carries2 Gen.Status.keyswitch) spec_keyswitch_table = true) by (vm_compute; reflexivity).
  intros b0 sub b1 text Hin Hin1. rewrite forallb_forall in H. specialize (H _ Hin).
  unfold carries2 in H. cbn [fst snd] in H. unfold spec_keyswitch.
  destruct (tbl_find Gen.Status.keyswitch b0) as [s|]; [|discriminate].
  rewrite (carries_all sub s H b1 text Hin1). reflexivity.
Qed.

(* hence the view (and with C16_holds every decode path of the model) shows the documented text *)
Lemma registry_view i :
  (forall name, In (i_vendor i, name) spec_vendors -> d_vendor (view_module i) = name)
  /\ (forall name, In (i_product_type i, name) spec_product_types -> d_product_type (view_module i) = name).
Proof.
  split; intros name Hin; unfold view_module, name_or_unknown; cbn [d_vendor d_product_type].
  - now rewrite (vendors_preserved _ _ Hin).
  - now rewrite (product_types_preserved _ _ Hin).
Qed.

Lemma spec_registry_inhabited : (1000 <= length spec_vendors)%nat /\ (30 <= length spec_product_types)%nat
  /\ In (9876, zs_of_string "ODVA") spec_vendors /\ In (1, zs_of_string "Rockwell Automation/Allen-Bradley") spec_vendors.
Proof.
  split; [vm_compute; lia|]. split; [vm_compute; lia|].
  assert (E : forall p l, existsb (fun q => (fst q =? fst p) && text_eqb (snd q) (snd p)) l = true -> In p l).
  { intros [k n] l H. apply existsb_exists in H as ([k' n'] & Hin & Hq). cbn [fst snd] in Hq.
    apply andb_true_iff in Hq as [Hk Hn]. apply text_eqb_eq in Hn. assert (k' = k) by lia. now subst. }
  split; apply E; vm_compute; reflexivity.
Qed.
