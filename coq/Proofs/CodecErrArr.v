(* Proofs/CodecErrArr.v — C08: an unbounded array over a buffer that holds a whole number of
   elements decodes exactly those elements. *)
From PV Require Import Base.Bytes Base.BytesLemmas Base.Res.
From PV Require Import Gen.Types Gen.CodecFacts Model.Codec.
From PV Require Import Proofs.CodecErrDefs Proofs.CodecErrBase Proofs.CodecErrDec Proofs.CodecErrStrict.
From Coq Require Import ZifyBool.
Open Scope Z_scope.
Ltac Zify.zify_post_hook ::= Z.to_euclidean_division_equations.

(* ------------------------------------------------------------------ the loop over whole elements *)
(* [items]: the chunks of the buffer with the value each one holds.  Every chunk is non-empty and
   decodes to its value wherever it stands (whatever follows it); on the exhausted buffer the
   element decoder raises BufferEmptyError. *)
Lemma decode_all_exact dec (items : list (bytes * val)) :
  (forall b v, In (b, v) items -> b <> [] /\ forall tail, dec (b ++ tail) = DOk v tail) ->
  dec [] = DEmpty [] ->
  forall f, (length (concat (map fst items)) < f)%nat ->
    decode_all dec f (concat (map fst items)) = DOk (VList (map snd items)) [].
Proof.
  intros Hit Hnil. induction items as [|[b v] items IH]; intros f Hf; cbn [map concat fst snd] in *.
  - destruct f as [|f]; [lia|]. cbn [decode_all]. now rewrite Hnil.
  - destruct f as [|f]; [lia|]. cbn [decode_all].
    destruct (Hit b v (or_introl eq_refl)) as [Hb Hd]. rewrite Hd.
    assert (Hne : (length (concat (map fst items)) =? length (b ++ concat (map fst items)))%nat = false).
    { apply Nat.eqb_neq. rewrite app_length. destruct b; [contradiction|cbn [length]; lia]. }
    rewrite Hne. rewrite IH.
    + reflexivity.
    + intros b' v' Hin. apply Hit. now right.
    + rewrite app_length in Hf. destruct b; [contradiction|cbn [length] in Hf; lia].
Qed.

Theorem unbounded_array_exact e fuel (items : list (bytes * val)) :
  is_bits e = false ->
  (forall b v, In (b, v) items -> b <> [] /\ forall tail, decode_fuel fuel e (b ++ tail) = DOk v tail) ->
  decode_fuel fuel e [] = DEmpty [] ->
  (length (concat (map fst items)) < fuel)%nat ->
  decode_fuel fuel (TArrAll e) (concat (map fst items)) = DOk (VList (map snd items)) [].
Proof.
  intros Hb Hit Hnil Hf. cbn [decode_fuel]. unfold array_decode_all.
  rewrite (decode_all_exact _ items Hit Hnil fuel Hf). rewrite Hb. reflexivity.
Qed.

(* ------------------------------------------------------------------ elementary fixed-width elements *)
(* the elementary classes that decode every byte string of their width *)
Definition total_leaf (t : ty) : bool :=
  match t with
  | TBool | TReal _ | TIPAddr | TDateTime => true
  | TInt _ w => (0 <? w)%nat
  | _ => false
  end.

Lemma stream_read_exact (d r : bytes) k : d <> [] -> stream_read (Z.of_nat (length d)) (d ++ r) k = k d r.
Proof.
  intros Hd. unfold stream_read, stream_take. destruct (Z.of_nat (length d) <? 0) eqn:E; [lia|].
  assert (H1 : ztake (Z.of_nat (length d)) (d ++ r) = d).
  { unfold ztake, zlen. rewrite app_length. replace (Z.to_nat (Z.min _ _)) with (length d) by lia. apply firstn_app_exact. }
  assert (H2 : zdrop (Z.of_nat (length d)) (d ++ r) = r).
  { unfold zdrop, zlen. rewrite app_length. replace (Z.to_nat (Z.min _ _)) with (length d) by lia. apply skipn_app_exact. }
  rewrite H1, H2. destruct d as [|b d']; [contradiction|].
  assert (Hl : (zlen (b :: d') <? Z.of_nat (length (b :: d'))) = false) by (unfold zlen; lia).
  now rewrite Hl.
Qed.

Lemma elem_decode_exact_app size unpack (d r : bytes) :
  length d = size -> (0 < size)%nat -> elem_decode size unpack (d ++ r) = dwrap (dres_of_res (unpack d) r).
Proof.
  intros Hl Hs. unfold elem_decode. rewrite <- Hl. rewrite stream_read_exact; [reflexivity|].
  intros ->. cbn in Hl. lia.
Qed.

Lemma int_decode_total sg w d : length d = w -> (0 < w)%nat -> exists v, forall r, int_decode sg w (d ++ r) = DOk v r.
Proof.
  intros Hl Hw. exists (VInt (if sg then to_signed w (le_dec d) else le_dec d)). intros r.
  unfold int_decode. rewrite elem_decode_exact_app by assumption. unfold unpack_int. rewrite Hl, Nat.eqb_refl. reflexivity.
Qed.

(* the value depends on the chunk only, not on what follows it nor on the fuel *)
Lemma total_leaf_decodes t : total_leaf t = true ->
  forall d, length d = swidth t -> exists v, forall fuel r, decode_fuel fuel t (d ++ r) = DOk v r.
Proof.
  destruct t; cbn [total_leaf]; try discriminate; intros Ht d Hl; cbn [swidth] in Hl; cbn [decode_fuel].
  - unfold bool_decode. eexists. intros _ r. rewrite elem_decode_exact_app by (assumption || lia). reflexivity.
  - apply Nat.ltb_lt in Ht. destruct (int_decode_total sg w d Hl Ht) as [v Hv]. exists v. intros _. exact Hv.
  - unfold real_decode, unpack_real.
    destruct dbl; eexists; intros _ r; rewrite elem_decode_exact_app by (assumption || lia);
      unfold unpack_real; rewrite Hl; cbn [Nat.eqb]; reflexivity.
  - (* TDateTime *)
    unfold datetime_decode. rewrite named_UDINT_decode, named_UINT_decode.
    assert (Hd : d = firstn 4 d ++ skipn 4 d) by (symmetry; apply firstn_skipn).
    assert (H4 : length (firstn 4 d) = 4%nat) by (rewrite firstn_length; lia).
    assert (H2 : length (skipn 4 d) = 2%nat) by (rewrite skipn_length; lia).
    destruct (int_decode_total false 4 (firstn 4 d) H4 ltac:(lia)) as [v1 Hv1].
    destruct (int_decode_total false 2 (skipn 4 d) H2 ltac:(lia)) as [v2 Hv2].
    exists (VTuple [v1; v2]). intros _ r. rewrite Hd, <- app_assoc, Hv1. cbn [dbind]. rewrite Hv2. reflexivity.
  - (* TIPAddr *)
    unfold ip_decode. destruct d as [|a [|b [|c [|d' [|? ?]]]]]; try discriminate.
    eexists. intros _ r. change 4 with (Z.of_nat (length [a; b; c; d'])). rewrite stream_read_exact by discriminate. reflexivity.
Qed.

Lemma stream_read_nil n k : n <> 0 -> stream_read n [] k = DEmpty [].
Proof.
  intros Hn. unfold stream_read, stream_take, ztake, zdrop. destruct (n <? 0); [now apply Z.eqb_neq in Hn; rewrite Hn|].
  rewrite firstn_nil, skipn_nil. apply Z.eqb_neq in Hn. now rewrite Hn.
Qed.

Lemma int_decode_nil sg w : (0 < w)%nat -> int_decode sg w [] = DEmpty [].
Proof. intros Hw. unfold int_decode, elem_decode. rewrite stream_read_nil by lia. reflexivity. Qed.

Lemma total_leaf_empty t : total_leaf t = true -> forall fuel, decode_fuel fuel t [] = DEmpty [].
Proof.
  intros Ht fuel. destruct t; try discriminate; cbn [decode_fuel].
  - unfold bool_decode, elem_decode. rewrite stream_read_nil by lia. reflexivity.
  - apply int_decode_nil. now apply Nat.ltb_lt.
  - unfold real_decode, elem_decode. rewrite stream_read_nil by (destruct dbl; lia). reflexivity.
  - unfold datetime_decode. rewrite named_UDINT_decode, int_decode_nil by lia. reflexivity.
  - unfold ip_decode. rewrite stream_read_nil by lia. reflexivity.
Qed.

Lemma total_leaf_width t : total_leaf t = true -> (0 < swidth t)%nat.
Proof.
  destruct t; try discriminate; cbn [total_leaf swidth]; intros H; try lia.
  destruct dbl; lia.
Qed.

(* a buffer of k * width bytes is k chunks of one element each *)
Lemma chunks_of t (Ht : total_leaf t = true) : forall k bs, length bs = (k * swidth t)%nat ->
  exists items : list (bytes * val),
    concat (map fst items) = bs /\ length items = k /\
    forall b v, In (b, v) items -> b <> [] /\ forall fuel tail, decode_fuel fuel t (b ++ tail) = DOk v tail.
Proof.
  pose proof (total_leaf_width t Ht) as Hw.
  induction k as [|k IH]; intros bs Hl.
  - exists []. destruct bs; [|cbn in Hl; lia]. repeat split; auto; destruct H.
  - set (d := firstn (swidth t) bs). set (r := skipn (swidth t) bs).
    assert (Hd : length d = swidth t) by (unfold d; rewrite firstn_length; cbn [Nat.mul] in Hl; lia).
    assert (Hr : length r = (k * swidth t)%nat) by (unfold r; rewrite skipn_length; cbn [Nat.mul] in Hl; lia).
    destruct (IH r Hr) as (items & Hc & Hn & Hit).
    destruct (total_leaf_decodes t Ht d Hd) as [v Hv].
    exists ((d, v) :: items). cbn [map concat fst length]. split; [|split].
    + rewrite Hc. apply firstn_skipn.
    + now rewrite Hn.
    + intros b v' [Hin|Hin].
      * injection Hin as <- <-. split; [intros E; rewrite E in Hd; cbn in Hd; lia|exact Hv].
      * exact (Hit _ _ Hin).
Qed.

Theorem unbounded_array_exact_fixed t k bs :
  total_leaf t = true -> length bs = (k * swidth t)%nat ->
  exists vs, length vs = k /\ forall fuel, (length bs < fuel)%nat -> decode_fuel fuel (TArrAll t) bs = DOk (VList vs) [].
Proof.
  intros Ht Hl. destruct (chunks_of t Ht k bs Hl) as (items & Hc & Hn & Hit).
  exists (map snd items). split; [now rewrite map_length|]. intros fuel Hf. rewrite <- Hc.
  apply unbounded_array_exact.
  - destruct t; try discriminate; reflexivity.
  - intros b v Hin. destruct (Hit b v Hin) as [H1 H2]. split; [exact H1|]. intros tail. apply H2.
  - apply total_leaf_empty, Ht.
  - now rewrite Hc.
Qed.
