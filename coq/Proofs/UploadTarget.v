(* Proofs/UploadTarget.v — C05: the reference target (Spec/TargetLogix.v) is a paging peer and a
   fragment peer in the sense of Proofs/UploadParse.v / UploadTemplate.v, for EVERY page policy,
   template-fragment policy and reply capacity that lets one symbol through:
   * the request paths the model client emits resolve, in the target, to the symbol list of the
     scope from the start instance / to the template ([resolve_symbols_*], [resolve_template]);
   * [target_symbols_reply]: what svc_symbols answers: a non-empty prefix of the remaining symbols
     of the scope in the layout Proofs/UploadParse.enc_wentry, status 6 iff symbols remain;
   * [target_attrs_reply]: Get_Attribute_List of a template parses to its attributes;
   * [target_read_reply]: a piece of the definition bytes, status 6 iff more remains. *)
From Coq Require Import ZifyBool String Sorted.
From PV Require Import Base.Bytes Base.BytesLemmas Base.Proto Base.PyStr Base.Res.
From PV Require Import Spec.EncapParser Spec.MRParser Spec.TargetIface Spec.TargetCore Spec.Project Spec.Expect Spec.TargetLogix Spec.UploadObs.
From PV Require Import Model.LogixUpload.
From PV Require Import Proofs.TargetCoreP Proofs.UploadDefs Proofs.UploadParse Proofs.UploadFilter Proofs.UploadTemplate Proofs.UploadBlob.
From PV Require Gen.Consts.
Open Scope string_scope.
Open Scope list_scope.
Open Scope Z_scope.

(* ================================================================ constants from the tables *)
Lemma table_constants :
  SVC_GET_INSTANCE_ATTRIBUTE_LIST = 85 /\ SVC_GET_ATTRIBUTE_LIST = 3 /\ SVC_READ_TAG = 76
  /\ CLASS_SYMBOL_OBJECT = 107 /\ CLASS_TEMPLATE_OBJECT = 108.
Proof. vm_compute. auto. Qed.

(* ================================================================ instance segments *)
Lemma enc_u_ok w v : 0 <= v < pow256 w -> enc_u w v = Ok (le_enc w v).
Proof. intros H. unfold enc_u, in_urange. replace ((0 <=? v) && (v <? pow256 w)) with true by lia. reflexivity. Qed.

Lemma le_enc_2 z : le_enc 2 z = [z mod 256; (z / 256) mod 256]. Proof. reflexivity. Qed.
Lemma le_enc_4 z : le_enc 4 z = [z mod 256; (z / 256) mod 256; (z / 256 / 256) mod 256; (z / 256 / 256 / 256) mod 256].
Proof. reflexivity. Qed.

(* the instance segment of [i] and how the target reads it back *)
Lemma instance_segment i : 0 <= i < 4294967296 ->
  exists seg, logical_segment_int LT_INSTANCE i = Ok seg /\ (2 <= length seg <= 6)%nat
              /\ exists b r, seg = b :: r /\ forall rest, parse_pseg b (r ++ rest) = Some (PLog 1 i, rest).
Proof.
  intros Hi. unfold logical_segment_int, LT_INSTANCE.
  destruct (i <=? 255) eqn:E1.
  - rewrite enc_u_ok by (rewrite pow256_1; lia). cbn [bind].
    eexists. split; [reflexivity|]. split; [cbn; lia|].
    eexists _, _. split; [reflexivity|]. intros rest.
    rewrite le_enc_1 by lia. reflexivity.
  - destruct (i <=? 65535) eqn:E2.
    + rewrite enc_u_ok by (rewrite pow256_2; lia). cbn [bind].
      eexists. split; [reflexivity|]. split; [cbn; lia|].
      eexists _, _. split; [reflexivity|]. intros rest.
      rewrite le_enc_2. cbn [app]. unfold parse_pseg. change (37 =? 145) with false. cbv iota.
      unfold parse_logical. change ((37 / 4) mod 8) with 1. change (37 mod 4) with 1. change (37 / 32 =? 1) with true.
      cbn [negb]. change (4 <? 1) with false. change (1 =? 0) with false. change (1 =? 1) with true. cbv iota.
      rewrite u16_enc by lia. reflexivity.
    + replace (i <=? 4294967295) with true by lia.
      rewrite enc_u_ok by (rewrite pow256_4; lia). cbn [bind].
      eexists. split; [reflexivity|]. split; [cbn; lia|].
      eexists _, _. split; [reflexivity|]. intros rest.
      rewrite le_enc_4. cbn [app]. unfold parse_pseg. change (38 =? 145) with false. cbv iota.
      unfold parse_logical. change ((38 / 4) mod 8) with 1. change (38 mod 4) with 2. change (38 / 32 =? 1) with true.
      cbn [negb]. change (4 <? 1) with false. change (2 =? 0) with false. change (2 =? 1) with false. change (2 =? 2) with true.
      change ((1 <=? 1) && (1 <=? 3)) with true. cbv iota.
      rewrite u32_enc by lia. reflexivity.
Qed.

Lemma parse_class_segment c rest : 0 <= c < 256 -> parse_pseg 32 (c :: rest) = Some (PLog 0 c, rest).
Proof. intros. reflexivity. Qed.

Lemma parse_two_segments f c i seg :
  (2 <= f)%nat -> 0 <= c < 256 ->
  (exists b r, seg = b :: r /\ forall rest, parse_pseg b (r ++ rest) = Some (PLog 1 i, rest)) ->
  parse_psegs f ([32; c] ++ seg) = Some [PLog 0 c; PLog 1 i].
Proof.
  intros Hf Hc (b & r & -> & Hp). destruct f as [|[|f]]; try lia.
  cbn [app parse_psegs]. rewrite parse_class_segment by exact Hc.
  specialize (Hp []). rewrite app_nil_r in Hp. rewrite Hp. destruct f; reflexivity.
Qed.

(* ================================================================ the requests of the model client *)
Definition sym_attr_data (wa : bool) : bytes :=
  le_enc 2 (Z.of_nat (length (symbol_attributes wa))) ++ flat_map (le_enc 2) (symbol_attributes wa).

Definition inst_seg_ok (i : Z) (seg : bytes) : Prop :=
  (2 <= length seg <= 6)%nat /\ exists b r, seg = b :: r /\ forall rest, parse_pseg b (r ++ rest) = Some (PLog 1 i, rest).

Lemma instance_segment' i : 0 <= i < 4294967296 ->
  exists seg, logical_segment_int LT_INSTANCE i = Ok seg /\ inst_seg_ok i seg.
Proof.
  intros Hi. destruct (instance_segment i Hi) as (seg & E & Hl & Hp).
  exists seg. split; [exact E|]. split; assumption.
Qed.

Lemma symbols_request_ctrl wa i : 0 <= i < 4294967296 ->
  exists seg, symbols_request wa None i = Ok (mkReq 85 ([32; 107] ++ seg) (sym_attr_data wa)) /\ inst_seg_ok i seg.
Proof.
  intros Hi. destruct (instance_segment' i Hi) as (seg & E & Hok).
  exists seg. split; [|exact Hok].
  unfold symbols_request. cbn [bind]. rewrite E. cbn [bind].
  destruct table_constants as (-> & _ & _ & -> & _).
  unfold epath_with_length, logical_segment_byte, LT_CLASS. cbn [app].
  destruct Hok as ((H1 & H2) & _).
  rewrite enc_u_ok by (rewrite pow256_1; cbn [length]; lia). cbn [bind].
  rewrite enc_u_ok by (rewrite pow256_2; destruct wa; cbn; lia). cbn [bind].
  reflexivity.
Qed.

Definition prog_seg (name : text) : bytes :=
  145 :: Z.of_nat (length name) :: name ++ (if Z.odd (Z.of_nat (length name)) then [0] else []).

Lemma symbols_request_prog wa pn i :
  0 <= i < 4294967296 -> pn <> [] -> starts_with txt_Program pn = false -> (length pn <= 247)%nat ->
  exists seg, symbols_request wa (Some pn) i
              = Ok (mkReq 85 (prog_seg (txt_Program ++ pn) ++ [32; 107] ++ seg) (sym_attr_data wa))
              /\ inst_seg_ok i seg.
Proof.
  intros Hi Hne Hsw Hlen. destruct (instance_segment' i Hi) as (seg & E & Hok).
  exists seg. split; [|exact Hok].
  unfold symbols_request.
  destruct pn as [|c pn']; [contradiction|]. set (pn := c :: pn') in *.
  unfold program_path_name. rewrite txt_Program_eq, Hsw.
  unfold data_segment_str.
  assert (Hl : Z.of_nat (length (txt_Program ++ pn)) <= 255) by (rewrite app_length; cbn [length txt_Program]; lia).
  rewrite enc_u_ok by (rewrite pow256_1; lia). cbn [bind].
  rewrite E. cbn [bind].
  destruct table_constants as (-> & _ & _ & -> & _).
  unfold epath_with_length, logical_segment_byte, LT_CLASS.
  destruct Hok as ((H1 & H2) & _).
  rewrite le_enc_1 by lia.
  rewrite enc_u_ok.
  2:{ rewrite pow256_1. rewrite !app_length. cbn [length]. rewrite !app_length in *.
      destruct (Z.odd _); cbn [length]; lia. }
  cbn [bind].
  rewrite enc_u_ok by (rewrite pow256_2; destruct wa; cbn; lia). cbn [bind].
  unfold prog_seg. cbn [app]. rewrite <- !app_assoc. reflexivity.
Qed.

Lemma template_request_form svc tid data : 0 <= tid < 4294967296 ->
  exists seg, template_request svc tid data = Ok (mkReq svc ([32; 108] ++ seg) data) /\ inst_seg_ok tid seg.
Proof.
  intros Hi. destruct (instance_segment' tid Hi) as (seg & E & Hok).
  exists seg. split; [|exact Hok].
  unfold template_request. rewrite E. cbn [bind].
  destruct table_constants as (_ & _ & _ & _ & ->).
  unfold epath_with_length, logical_segment_byte, LT_CLASS. cbn [app].
  destruct Hok as ((H1 & H2) & _).
  rewrite enc_u_ok by (rewrite pow256_1; cbn [length]; lia). reflexivity.
Qed.

(* ================================================================ how the target resolves these paths *)
Lemma resolve_symbols_ctrl p i seg : inst_seg_ok i seg -> resolve_path p true ([32; 107] ++ seg) = TgSymbols ScCtrl i.
Proof.
  intros ((H1 & H2) & Hp). unfold resolve_path.
  rewrite (parse_two_segments _ 107 i seg) by (try exact Hp; try lia; rewrite app_length; cbn [length]; lia).
  reflexivity.
Qed.

Lemma resolve_template p tid t seg :
  inst_seg_ok tid seg -> find_template (p_templates p) tid = Some t ->
  resolve_path p false ([32; 108] ++ seg) = TgTemplate t.
Proof.
  intros ((H1 & H2) & Hp) Hf. unfold resolve_path.
  rewrite (parse_two_segments _ 108 tid seg) by (try exact Hp; try lia; rewrite app_length; cbn [length]; lia).
  rewrite Hf. reflexivity.
Qed.

Lemma name_eqb_refl a : name_eqb a a = true.
Proof. unfold name_eqb. generalize (lower a). intros l. induction l as [|x l IH]; [reflexivity|]. cbn. rewrite Z.eqb_refl, IH. reflexivity. Qed.

Lemma parse_prog_seg name rest :
  name <> [] -> (length name <= 255)%nat ->
  parse_pseg 145 (tl (prog_seg name) ++ rest) = Some (PSym name, rest).
Proof.
  intros Hne Hl. unfold prog_seg. cbn [tl app]. unfold parse_pseg. change (145 =? 145) with true. cbv iota.
  destruct (Z.of_nat (length name) =? 0) eqn:E0; [destruct name; [contradiction | cbn in E0; lia]|].
  rewrite <- app_assoc.
  change (Z.of_nat (length name)) with (EncapParser.blen name) at 1.
  rewrite takez_app.
  destruct (Z.odd (Z.of_nat (length name))); reflexivity.
Qed.

Lemma resolve_symbols_prog p pn i seg :
  inst_seg_ok i seg -> pn <> [] -> (length pn <= 247)%nat -> In pn (program_names p) ->
  resolve_path p true (prog_seg (txt_Program ++ pn) ++ [32; 107] ++ seg) = TgSymbols (ScProg pn) i.
Proof.
  intros ((H1 & H2) & Hp) Hne Hl Hin. unfold resolve_path.
  set (name := txt_Program ++ pn).
  assert (Hname : name <> []) by (subst name; discriminate).
  assert (Hnl : (length name <= 255)%nat) by (subst name; rewrite app_length; cbn [length txt_Program]; lia).
  assert (Hps : parse_psegs (length (prog_seg name ++ [32; 107] ++ seg)) (prog_seg name ++ [32; 107] ++ seg)
                = Some [PSym name; PLog 0 107; PLog 1 i]).
  { set (rest := [32; 107] ++ seg).
    assert (Hlen : (3 <= length (tl (prog_seg name) ++ rest))%nat) by (subst rest; rewrite !app_length; cbn [length]; lia).
    change (prog_seg name ++ rest) with (145 :: (tl (prog_seg name) ++ rest)).
    cbn [length parse_psegs]. rewrite parse_prog_seg by assumption. subst rest.
    rewrite (parse_two_segments _ 107 i seg) by (try exact Hp; lia). reflexivity. }
  rewrite Hps.
  subst name. rewrite starts_with_app.
  rewrite skipn_app, Nat.sub_diag. cbn [length txt_Program skipn app].
  replace (existsb (name_eqb pn) (program_names p)) with true.
  2:{ symmetry. apply existsb_exists. exists pn. split; [exact Hin | apply name_eqb_refl]. }
  reflexivity.
Qed.

(* ================================================================ the symbol list of the target *)
Definition wentry_of_tag (g : tagdef) : wentry :=
  mkW (g_inst g) (g_name g) (sym_type_word g) (g_attr3 g) (g_attr5 g) (g_attr6 g)
      (nth 0 (g_dims g) 0) (nth 1 (g_dims g) 0) (nth 2 (g_dims g) 0) (g_access g mod 256).

Lemma pad3_nth (l : list Z) : pad3 3 l = [nth 0 l 0; nth 1 l 0; nth 2 l 0].
Proof. destruct l as [|a [|b [|c r]]]; reflexivity. Qed.

Definition sym_entry (p : project) (wa : bool) (g : tagdef) : bytes := enc_wentry wa (wentry_of_tag g).

Lemma sym_entry_attrs_eq p wa g :
  exists a, sym_entry_attrs p g (symbol_attributes wa) = Some a /\ le_enc 4 (g_inst g) ++ a = sym_entry p wa g.
Proof.
  unfold sym_entry, enc_wentry, wentry_of_tag, symbol_attributes.
  destruct wa; cbn [app sym_entry_attrs sym_attr Z.eqb Pos.eqb we_inst we_name we_stype we_a3 we_a5 we_a6 we_d1 we_d2 we_d3 we_access];
    rewrite pad3_nth; cbn [flat_map]; eexists; (split; [reflexivity|]);
    unfold Expect.blen; rewrite <- ?app_assoc; cbn [app]; reflexivity.
Qed.

Lemma concat_rev_spec : forall l acc, concat_rev l acc = concat (rev l) ++ acc.
Proof.
  induction l as [|x l IH]; intros acc; [reflexivity|].
  cbn [concat_rev rev]. rewrite IH, concat_app. cbn [concat]. rewrite app_nil_r, <- app_assoc. reflexivity.
Qed.

Lemma sym_page_spec p wa : forall gs room limit acc,
  exists k,
    sym_page p (symbol_attributes wa) gs room limit acc
    = (rev (map (sym_entry p wa) (firstn k gs)) ++ acc, Nat.ltb k (length gs))
    /\ (k <= length gs)%nat
    /\ (forall g r, gs = g :: r -> 1 <= limit -> Expect.blen (sym_entry p wa g) <= room -> (1 <= k)%nat).
Proof.
  induction gs as [|g gs IH]; intros room limit acc.
  - exists O. cbn. split; [reflexivity|]. split; [lia|]. intros; discriminate.
  - cbn [sym_page]. destruct (sym_entry_attrs_eq p wa g) as (a & Ea & Eentry). rewrite Ea, Eentry.
    destruct ((limit <? 1) || (room <? Expect.blen (sym_entry p wa g))) eqn:Estop.
    + exists O. cbn [firstn map rev app length]. split; [reflexivity|]. split; [lia|].
      intros g0 r E Hl Hr. injection E as <- <-. lia.
    + destruct (IH (room - Expect.blen (sym_entry p wa g)) (limit - 1) (sym_entry p wa g :: acc)) as (k & Ek & Hk & _).
      exists (S k). split; [|split; [cbn [length]; lia | intros; lia]].
      etransitivity; [exact Ek|]. cbn [firstn map rev length]. rewrite <- app_assoc. reflexivity.
Qed.

Lemma multi_85 : multi_packet_service 85 = true. Proof. reflexivity. Qed.
Lemma multi_3 : multi_packet_service 3 = true. Proof. reflexivity. Qed.

Lemma svc_symbols_data st sc start cap wa :
  svc_symbols st sc start cap (sym_attr_data wa)
  = let p := ls_proj st in
    let gs := filter (fun g => scope_eqb (g_scope g) sc && (start <=? g_inst g)) (p_tags p) in
    let want := pol_entry (po_page (ls_pol st)) start in
    let limit := if want <=? 0 then 4294967296 else want in
    let '(acc, more) := sym_page p (symbol_attributes wa) gs (cap - 4) limit [] in
    match acc, gs with
    | [], _ :: _ => (mr_error 17 [], [EvReplyTooLarge cap 0])
    | _, _ => (reply6 more (concat_rev acc []), [])
    end.
Proof. destruct wa; reflexivity. Qed.

(* what the target answers to the symbol-list request of the model client *)
Theorem target_symbols_reply st sc start cap wa :
  let p := ls_proj st in
  let gs := filter (fun g => scope_eqb (g_scope g) sc && (start <=? g_inst g)) (p_tags p) in
  (forall g, In g gs -> Expect.blen (sym_entry p wa g) <= cap - 4) ->
  exists k,
    svc_symbols st sc start cap (sym_attr_data wa)
    = (reply6 (Nat.ltb k (length gs)) (flat_map (sym_entry p wa) (firstn k gs)), [])
    /\ (k <= length gs)%nat /\ (gs <> [] -> (1 <= k)%nat).
Proof.
  intros p gs Hfit. rewrite svc_symbols_data. cbv zeta. fold p. fold gs.
  set (want := pol_entry (po_page (ls_pol st)) start).
  set (limit := if want <=? 0 then 4294967296 else want).
  assert (Hlimit : 1 <= limit) by (subst limit; destruct (want <=? 0) eqn:E; lia).
  destruct (sym_page_spec p wa gs (cap - 4) limit []) as (k & Ek & Hk & Hk1).
  exists k. rewrite Ek, app_nil_r.
  assert (Hres : concat_rev (rev (map (sym_entry p wa) (firstn k gs))) [] = flat_map (sym_entry p wa) (firstn k gs)).
  { rewrite concat_rev_spec, rev_involutive, app_nil_r, flat_map_concat_map. reflexivity. }
  split; [|split; [exact Hk|]].
  - destruct gs as [|g0 gs0] eqn:Egs.
    + assert (k = O) by (cbn in Hk; lia). subst k. reflexivity.
    + specialize (Hk1 g0 gs0 eq_refl Hlimit (Hfit g0 (or_introl eq_refl))).
      destruct k as [|k']; [lia|]. rewrite <- Hres.
      destruct (rev (map (sym_entry p wa) (firstn (S k') (g0 :: gs0)))) eqn:Eacc; [|reflexivity].
      exfalso. cbn [firstn map rev] in Eacc. apply app_eq_nil in Eacc. destruct Eacc; discriminate.
  - intros Hne. destruct gs as [|g0 gs0]; [contradiction|].
    exact (Hk1 g0 gs0 eq_refl Hlimit (Hfit g0 (or_introl eq_refl))).
Qed.

(* ================================================================ the template object of the target *)
Lemma svc_tmpl_attrs_data t cap : 34 <= cap ->
  svc_tmpl_attrs t cap template_attrs_data
  = ({| rp_status := 0; rp_ext := [];
        rp_data := [4; 0; 4; 0; 0; 0] ++ le_enc 4 (template_defsize t) ++ [5; 0; 0; 0] ++ le_enc 4 (t_size t)
                   ++ [2; 0; 0; 0] ++ le_enc 2 (template_member_count t) ++ [1; 0; 0; 0] ++ le_enc 2 (t_handle t) |}, []).
Proof.
  intros Hcap. unfold svc_tmpl_attrs, template_attrs_data.
  change (u16 4 0) with 4. cbv beta iota zeta.
  change (Expect.blen [4; 0; 5; 0; 2; 0; 1; 0] <? 2 * 4) with false.
  change (2 * 4 <? Expect.blen [4; 0; 5; 0; 2; 0; 1; 0]) with false. cbv iota.
  change (rd_offsets (Z.to_nat 4) [4; 0; 5; 0; 2; 0; 1; 0]) with (Some [4; 5; 2; 1]). cbv iota.
  change (forallb tmpl_attr_known [4; 5; 2; 1]) with true. cbv iota.
  assert (Hd : le_enc 2 4 ++ flat_map (tmpl_attr t) [4; 5; 2; 1]
               = [4; 0; 4; 0; 0; 0] ++ le_enc 4 (template_defsize t) ++ [5; 0; 0; 0] ++ le_enc 4 (t_size t)
                 ++ [2; 0; 0; 0] ++ le_enc 2 (template_member_count t) ++ [1; 0; 0; 0] ++ le_enc 2 (t_handle t)).
  { cbn [flat_map tmpl_attr Z.eqb Pos.eqb app]. rewrite app_nil_r.
    change (le_enc 2 4) with [4; 0]. change (le_enc 2 5) with [5; 0]. change (le_enc 2 2) with [2; 0]. change (le_enc 2 1) with [1; 0].
    cbn [app]. rewrite <- ?app_assoc. cbn [app]. reflexivity. }
  rewrite Hd.
  assert (Hlen : Expect.blen ([4; 0; 4; 0; 0; 0] ++ le_enc 4 (template_defsize t) ++ [5; 0; 0; 0] ++ le_enc 4 (t_size t)
                 ++ [2; 0; 0; 0] ++ le_enc 2 (template_member_count t) ++ [1; 0; 0; 0] ++ le_enc 2 (t_handle t)) = 30).
  { unfold Expect.blen. rewrite !app_length, !le_enc_length. reflexivity. }
  rewrite Hlen. replace (cap - 4 <? 30) with false by lia. reflexivity.
Qed.

Lemma parse_makeup_attrs t :
  0 <= template_defsize t < 4294967296 -> 0 <= t_size t < 4294967296 ->
  0 <= template_member_count t < 65536 -> 0 <= t_handle t < 65536 ->
  parse_structure_makeup ([4; 0; 4; 0; 0; 0] ++ le_enc 4 (template_defsize t) ++ [5; 0; 0; 0] ++ le_enc 4 (t_size t)
                          ++ [2; 0; 0; 0] ++ le_enc 2 (template_member_count t) ++ [1; 0; 0; 0] ++ le_enc 2 (t_handle t))
  = Ok (template_attrs_of t).
Proof.
  intros H1 H2 H3 H4. unfold parse_structure_makeup.
  rewrite !le_enc_4, !le_enc_2. cbn [app length Nat.ltb Nat.leb slice Nat.sub firstn skipn].
  rewrite <- !le_enc_4, <- !le_enc_2.
  rewrite !le_dec_enc_id by (rewrite ?pow256_2, ?pow256_4; lia). reflexivity.
Qed.

Lemma enc_s_nonneg off : 0 <= off < 2147483648 -> enc_s 4 off = Ok (le_enc 4 off).
Proof.
  intros H. unfold enc_s, in_srange, of_signed. rewrite pow256_4.
  replace ((- (4294967296 / 2) <=? off) && (off <? 4294967296 / 2)) with true by lia.
  rewrite Z.mod_small by lia. reflexivity.
Qed.

Lemma svc_tmpl_read_data pol t cap off cnt :
  5 <= cap -> 0 <= off < 4294967296 -> 0 <= cnt < 65536 ->
  let blob := template_blob (po_array_bit pol) t in
  off <= Expect.blen blob ->
  let want := Z.min cnt (Expect.blen blob - off) in
  exists k,
    svc_tmpl_read pol t cap (le_enc 4 off ++ le_enc 2 cnt)
    = (reply6 (k <? want) (firstn (Z.to_nat k) (skipn (Z.to_nat off) blob)), [])
    /\ 0 <= k <= want /\ (0 < want -> 1 <= k).
Proof.
  intros Hcap Hoff Hcnt blob Hle want.
  unfold svc_tmpl_read. rewrite le_enc_4, le_enc_2. cbn [app]. fold blob.
  assert (E4 : EncapParser.u32 (off mod 256) ((off / 256) mod 256) ((off / 256 / 256) mod 256) ((off / 256 / 256 / 256) mod 256) = off)
    by (apply u32_enc; lia).
  assert (E2 : EncapParser.u16 (cnt mod 256) ((cnt / 256) mod 256) = cnt) by (apply u16_enc; lia).
  rewrite E4, E2.
  replace (Expect.blen blob <? off) with false by lia.
  fold want.
  set (pw := pol_entry (po_tmpl pol) off).
  set (lim := Z.max 1 (if pw <=? 0 then cap - 4 else Z.min pw (cap - 4))).
  assert (Hlim : 1 <= lim <= cap - 4) by (subst lim; destruct (pw <=? 0); lia).
  replace (cap - 4 <? lim) with false by lia.
  exists (Z.min want lim).
  assert (Hw : 0 <= want) by (subst want; lia).
  unfold get_bytes.
  replace ((0 <=? off) && (0 <=? Z.min want lim) && (off + Z.min want lim <=? Expect.blen blob)) with true by (subst want; lia).
  split; [reflexivity | lia].
Qed.

(* ================================================================ target_call on the client's requests *)
Lemma target_call_symbols cap st wa sc start path :
  resolve_path (ls_proj st) true path = TgSymbols sc start ->
  let p := ls_proj st in
  let gs := filter (fun g => scope_eqb (g_scope g) sc && (start <=? g_inst g)) (p_tags p) in
  (forall g, In g gs -> Expect.blen (sym_entry p wa g) <= cap - 4) ->
  exists k,
    target_call cap st (mkReq 85 path (sym_attr_data wa))
    = (st, Some (mkRep true (if Nat.ltb k (length gs) then Consts.INSUFFICIENT_PACKETS else Consts.SUCCESS)
                       (flat_map (sym_entry p wa) (firstn k gs)) false))
    /\ (k <= length gs)%nat /\ (gs <> [] -> (1 <= k)%nat).
Proof.
  intros Hres p gs Hfit.
  destruct (target_symbols_reply st sc start cap wa Hfit) as (k & E & Hk & Hk1).
  exists k. split; [|split; assumption].
  unfold target_call, logix_request. cbn [q_service q_path q_data mr_service mr_path mr_data].
  change (85 =? 85) with true. rewrite Hres. cbv iota. fold p in E. fold gs in E. rewrite E.
  unfold urep_of, reply6. cbn [rp_status rp_ext rp_data flat_map app].
  destruct (Nat.ltb k (length gs)); reflexivity.
Qed.

Lemma target_call_attrs cap st t path :
  34 <= cap -> resolve_path (ls_proj st) false path = TgTemplate t ->
  0 <= template_defsize t < 4294967296 -> 0 <= t_size t < 4294967296 ->
  0 <= template_member_count t < 65536 -> 0 <= t_handle t < 65536 ->
  exists d, target_call cap st (mkReq 3 path template_attrs_data) = (st, Some (mkRep true 0 d false))
            /\ parse_structure_makeup d = Ok (template_attrs_of t).
Proof.
  intros Hcap Hres H1 H2 H3 H4.
  eexists. split; [|apply (parse_makeup_attrs t H1 H2 H3 H4)].
  unfold target_call, logix_request. cbn [q_service q_path q_data mr_service mr_path mr_data].
  change (3 =? 85) with false. rewrite Hres. change (3 =? 3) with true. cbv iota.
  rewrite svc_tmpl_attrs_data by exact Hcap. reflexivity.
Qed.

Lemma target_call_read cap st t path off cnt :
  5 <= cap -> resolve_path (ls_proj st) false path = TgTemplate t ->
  0 <= off < 4294967296 -> 0 <= cnt < 65536 ->
  let blob := template_blob (po_array_bit (ls_pol st)) t in
  off <= Expect.blen blob ->
  let want := Z.min cnt (Expect.blen blob - off) in
  exists k v,
    target_call cap st (mkReq 76 path (le_enc 4 off ++ le_enc 2 cnt))
    = (st, Some (mkRep v (if k <? want then Consts.INSUFFICIENT_PACKETS else Consts.SUCCESS)
                       (firstn (Z.to_nat k) (skipn (Z.to_nat off) blob)) false))
    /\ 0 <= k <= want /\ (0 < want -> 1 <= k).
Proof.
  intros Hcap Hres Hoff Hcnt blob Hle want.
  destruct (svc_tmpl_read_data (ls_pol st) t cap off cnt Hcap Hoff Hcnt Hle) as (k & E & Hk & Hk1).
  exists k. fold blob in E. fold want in E.
  destruct (k <? want) eqn:Ekw; eexists; (split; [|split; assumption]);
    unfold target_call, logix_request; cbn [q_service q_path q_data mr_service mr_path mr_data];
    change (76 =? 85) with false; rewrite Hres; change (76 =? 3) with false; change (76 =? 76) with true; cbv iota;
    rewrite E; unfold urep_of, reply6; cbn [rp_status rp_ext rp_data flat_map app]; reflexivity.
Qed.
