(* Proofs/C13P.v — vocabulary of the C13 statement, concrete witnesses (each evaluated by vm_compute
   on the model; the same bytes are replayed on the implementation from corpus/C13), and the parts
   of the theorems of Props/C13.v assembled from Reply*.v. *)
From Coq Require Import String ZifyBool.
From PV Require Import Base.Bytes Base.BytesLemmas Base.Res Base.Proto Base.PyStr.
From PV Require Import Gen.Tables Gen.Types Gen.Status Gen.Consts Gen.ReplyTables.
From PV Require Import Model.EnumMapDefs Model.EnumMap Model.Reply Spec.ReplyReader.
From PV Require Import Proofs.EnumMapP Proofs.ReplyBase Proofs.ReplyValid Proofs.ReplyError Proofs.ReplyMulti Proofs.ReplySubErr Proofs.ReplyCalls.
Open Scope Z_scope.

(* exceptions.py (regenerated): every exception class the model calls "library" derives from
   PycommError, and BufferEmptyError from DataError *)
Lemma library_exceptions_derive :
  forallb (fun '(_, lib, _) => lib) library_exceptions = true
  /\ existsb (fun '(n, _, de) => text_eqb n (T "BufferEmptyError") && de) library_exceptions = true.
Proof. split; reflexivity. Qed.

Definition bytes_list_ok (l : list bytes) : Prop := Forall (fun r => bytes_ok r = true) l.

(* the response kind the request of a call is answered with (None: handshakes, open) *)
Definition reply_kind (c : call) : option rkind :=
  match c with
  | CRead _ | CWrite _ | CReadFrag _ | CMulti _ => Some KUnit
  | CGeneric KUnit _ => Some KUnit
  | CGeneric KRR _ => Some KRR
  | _ => None
  end.
Definition one_request (c : call) : bool :=
  match c with CRead _ | CWrite _ | CGeneric _ _ => true | _ => false end.
Definition status_is_6 (raw : bytes) : bool := match byte_at 48 raw with Some g => g =? 6 | None => false end.

(* "well-formed error reply" for the request of call c *)
Definition wf_error_for (c : call) (k : rkind) (raw : bytes) : bool :=
  wf_error k raw
  && match c with
     | CMulti reqs => no_service_data raw && match reqs with [] => false | _ => true end
                                           (* with service data the per-service words decide *)
     | CReadFrag _ => negb (status_is_6 raw)      (* status 6 asks the fragmented read to continue *)
     | _ => true
     end.

Definition all_falsy_with_text (o : rm out) : Prop :=
  exists tags, o = ROk (OTags tags) /\ tags <> [] /\ Forall falsy_text tags.

(* ---------------------------------------------------------------- witnesses *)
Definition dint_dec : rdecoder := read_decoder (RAtomic DINT_t) 1.
Definition hdr46 : bytes :=
  [7; 0; 0; 0; 0; 0; 0; 0; 95; 112; 121; 99; 111; 109; 109; 95; 0; 0; 0; 0; 0; 0; 0; 0; 0; 0; 2; 0; 161; 0; 4; 0; 39; 4; 25; 113; 177; 0].
(* multi-service reply with reply count 0 *)
Definition w_count0 : bytes := [112; 0; 28; 0] ++ [7; 0; 0; 0; 0; 0; 0; 0] ++ skipn 8 hdr46 ++ [8; 0; 1; 0; 138; 0; 0; 0; 0; 0].
(* header-only encapsulation error (status 0x65) *)
Definition w_hdr : bytes := [112; 0; 26; 0; 7; 0; 0; 0; 101; 0; 0; 0; 95; 112; 121; 99; 111; 109; 109; 95; 0; 0; 0; 0].
(* message-router error 0x08 (service not supported) answering a multi-service request: no data *)
Definition w_toperr : bytes := [112; 0; 26; 0] ++ hdr46 ++ [6; 0; 1; 0; 138; 0; 8; 0].
(* complete multi-service reply, two successful Read Tag replies, encapsulation status 1 *)
Definition w_encap : bytes :=
  [112; 0; 52; 0; 7; 0; 0; 0; 1; 0; 0; 0] ++ skipn 8 hdr46 ++
  [32; 0; 1; 0; 138; 0; 0; 0; 2; 0; 6; 0; 16; 0; 204; 0; 0; 0; 196; 0; 7; 0; 0; 0; 204; 0; 0; 0; 196; 0; 9; 0; 0; 0].
(* the same with encapsulation status 0, second service failing with status 5 + extended status 0 *)
Definition w_mixed : bytes :=
  [112; 0; 48; 0] ++ hdr46 ++
  [28; 0; 1; 0; 138; 0; 30; 0; 2; 0; 6; 0; 16; 0; 204; 0; 0; 0; 196; 0; 7; 0; 0; 0; 204; 0; 5; 1; 0; 0].
(* Read Tag error reply: general status 0xFF, extended status 0x2105 *)
Definition w_err : bytes := [112; 0; 28; 0] ++ hdr46 ++ [8; 0; 1; 0; 204; 0; 255; 1; 5; 33].
(* Read Tag success: DINT 42 *)
Definition w_read : bytes := [112; 0; 32; 0] ++ hdr46 ++ [12; 0; 1; 0; 204; 0; 0; 0; 196; 0; 42; 0; 0; 0].
(* multi-service request rejected with general status 5 and TWO additional-status words 0x0080 0x0000 *)
Definition w_ext2 : bytes := [112; 0; 30; 0] ++ hdr46 ++ [10; 0; 1; 0; 138; 0; 5; 2; 128; 0; 0; 0].

Definition two_reads : list sreq := [SRead dint_dec; SRead dint_dec].
Definition two_writes : list sreq := [SWrite (VInt 1); SWrite (VInt 2)].

Lemma wit_ok : bytes_ok w_count0 = true /\ bytes_ok w_hdr = true /\ bytes_ok w_toperr = true /\ bytes_ok w_encap = true
  /\ bytes_ok w_mixed = true /\ bytes_ok w_err = true /\ bytes_ok w_read = true /\ bytes_ok w_ext2 = true.
Proof. vm_compute. repeat split; reflexivity. Qed.

(* the replies that used to escape as StopIteration / TypeError / BufferEmptyError, or pass under an
   encapsulation error, now fail their requests with a text (fix: commits aa378e8, 3c1cf16) *)
Lemma wit_fixed_count0 :
  run_call (CMulti two_reads) [w_count0]
  = ROk (OTags [{| t_value := None; t_error := Some no_reply_received |}; {| t_value := None; t_error := Some no_reply_received |}]).
Proof. vm_compute. reflexivity. Qed.
Lemma wit_fixed_frag_hdr :
  run_call (CReadFrag dint_dec) [w_hdr] = ROk (OTags [{| t_value := None; t_error := Some fragments_failed |}]).
Proof. vm_compute. reflexivity. Qed.
Lemma wit_fixed_toperr : exists e,
  run_call (CMulti two_reads) [w_toperr] = ROk (OTags [{| t_value := None; t_error := Some e |}; {| t_value := None; t_error := Some e |}])
  /\ names_status service_status extend_codes 8 None e = true.
Proof. eexists. vm_compute. split; reflexivity. Qed.
Lemma wit_fixed_encap : exists e,
  run_call (CMulti two_reads) [w_encap] = ROk (OTags [{| t_value := None; t_error := Some e |}; {| t_value := None; t_error := Some e |}]).
Proof. eexists. vm_compute. reflexivity. Qed.

(* the additional status of an error reply used to be read as service data (fix: commit 8164fd0) *)
Lemma wit_fixed_ext2 : wf_error_for (CMulti two_writes) KUnit w_ext2 = true
  /\ exists e, run_call (CMulti two_writes) [w_ext2]
               = ROk (OTags [{| t_value := Some (VInt 1); t_error := Some e |}; {| t_value := Some (VInt 2); t_error := Some e |}])
               /\ names_status service_status extend_codes 5 None e = true.
Proof. split; [vm_compute; reflexivity|eexists; vm_compute; split; reflexivity]. Qed.

(* ---------------------------------------------------------------- fragmented read: a well-formed error reply ends it *)
Lemma failed_fragments_tag v : tag_of_response KUnit failed_fragments v = ROk {| t_value := None; t_error := Some fragments_failed |}.
Proof. reflexivity. Qed.

Lemma read_frag_wf_error dec raw rest : bytes_ok raw = true ->
  wf_error KUnit raw = true -> status_is_6 raw = false ->
  all_falsy_with_text (run_call (CReadFrag dec) (raw :: rest)).
Proof.
  intros Hok Hw H6.
  destruct (error_of_wf_error KUnit raw (or_introl eq_refl) Hok Hw) as (Hv & e & He & Hne). cbn [parse_k] in Hv, He.
  assert (Hst : opt_is (r_service_status (parse_unit raw)) INSUFFICIENT_PACKETS = false).
  { destruct (parse_cip_spec 46 48 50 raw Hok) as (_ & _ & _ & _ & P5). fold (parse_unit raw) in P5.
    unfold status_is_6, byte_at in H6.
    destruct (nth_error raw 46) as [s|]; [|destruct P5 as (_ & _ & ->); reflexivity].
    destruct (nth_error raw 48) as [g|]; [|destruct P5 as (_ & _ & ->); reflexivity].
    destruct (128 <=? s); [destruct P5 as (_ & -> & _)|destruct P5 as (_ & _ & ->); reflexivity].
    unfold opt_is, INSUFFICIENT_PACKETS. exact H6. }
  cbn [run_call]. unfold read_fragmented. cbn [read_frag_loop]. cbv zeta.
  rewrite (parse_read_frag_r raw), Hst, He. cbn [app forallb]. rewrite (parse_read_frag_r raw), Hv. cbn [andb].
  rewrite failed_fragments_tag. cbn [tag_out].
  eexists. split; [reflexivity|]. split; [discriminate|]. constructor; [|constructor].
  split; [reflexivity|]. eexists. split; [reflexivity|]. discriminate.
Qed.

(* ================================================================ the parts of the theorems *)
Lemma error_text_k k raw : k = KUnit \/ k = KRR -> bytes_ok raw = true ->
  wf_cip_reply (layout_k k) raw = true -> spec_success (partial_k k) (layout_k k) raw = false ->
  exists t, error k (parse_k k raw) = ROk (Some t) /\ t <> []
    /\ (encap_status raw = Some 0 ->
        exists gs, byte_at (l_status (layout_k k)) raw = Some gs /\ gs <> 0
          /\ names_status service_status extend_codes gs (ext_value (ext_status (layout_k k) raw)) t = true).
Proof.
  intros Hk. apply error_text_gen. destruct Hk as [->| ->]; auto.
Qed.

Lemma library_only c replies : rm_is_library (run_call c replies) = true.
Proof. apply nf_library, calls_library_only. Qed.

Lemma one_reply_inv f raw rest t : one_reply (raw :: rest) f = ROk (OTags [t]) -> f raw = ROk t.
Proof. unfold one_reply. destruct (f raw); [|discriminate]. now intros [= ->]. Qed.
Lemma tag_out_inv r t : tag_out r = ROk (OTags [t]) -> r = ROk t.
Proof. unfold tag_out. destruct r; [|discriminate]. now intros [= ->]. Qed.

Lemma success_one_request c k raw rest t : one_request c = true -> reply_kind c = Some k -> bytes_ok raw = true ->
  run_call c (raw :: rest) = ROk (OTags [t]) -> tag_truthy t = true ->
  spec_success (partial_k k) (layout_k k) raw = true.
Proof.
  intros H1 Hk Hok Hr Ht. destruct c as [dec|dec|v|v n|reqs|k0 dt| |f c]; try discriminate; cbn [run_call] in Hr.
  - injection Hk as <-. apply one_reply_inv in Hr. exact (read_truthy dec raw t Hok Hr Ht).
  - injection Hk as <-. apply one_reply_inv in Hr. cbn [partial_k layout_k]. now rewrite <- (write_truthy_iff v raw t Hok Hr).
  - apply one_reply_inv in Hr. destruct k0; try discriminate; injection Hk as <-.
    + exact (generic_truthy KUnit dt raw t (or_introl eq_refl) Hok Hr Ht).
    + exact (generic_truthy KRR dt raw t (or_intror eq_refl) Hok Hr Ht).
Qed.

Lemma success_multi reqs raw rest tags i t : bytes_ok raw = true ->
  run_call (CMulti reqs) (raw :: rest) = ROk (OTags tags) -> nth_error tags i = Some t -> tag_truthy t = true ->
  multi_sub_success raw i = true.
Proof.
  intros Hok Hr Hi Ht. cbn [run_call] in Hr. unfold tags_out in Hr.
  destruct (rw_multi reqs raw) as [l|] eqn:E; [|discriminate]. injection Hr as ->.
  exact (multi_truthy reqs raw tags i t Hok E Hi Ht).
Qed.

Lemma wf_errors_falsy c k raw rest : reply_kind c = Some k -> bytes_ok raw = true -> wf_error_for c k raw = true ->
  all_falsy_with_text (run_call c (raw :: rest)).
Proof.
  intros Hk Hok Hw. unfold wf_error_for in Hw. apply andb_true_iff in Hw as [Hw Hc].
  assert (Hone : forall f, (exists t, f raw = ROk t /\ falsy_text t) -> all_falsy_with_text (one_reply (raw :: rest) f)).
  { intros f (t & Hf & Ht). unfold one_reply. rewrite Hf. exists [t]. split; [reflexivity|]. split; [discriminate|]. now constructor. }
  destruct c as [dec|dec|v|v n|reqs|k0 dt| |f c]; try discriminate; cbn [run_call].
  - injection Hk as <-. apply Hone, read_wf_error; assumption.
  - injection Hk as <-. apply negb_true_iff in Hc. exact (read_frag_wf_error dec raw rest Hok Hw Hc).
  - injection Hk as <-. apply Hone, write_wf_error; assumption.
  - injection Hk as <-. apply andb_true_iff in Hc as [Hn Hne].
    assert (Hreqs : reqs <> []) by (destruct reqs; [discriminate|discriminate]).
    destruct (multi_wf_error reqs raw Hreqs Hok Hw Hn) as (tags & -> & Ht1 & Ht2).
    exists tags. auto.
  - destruct k0; try discriminate; injection Hk as <-; apply Hone, generic_wf_error; auto.
Qed.
