(* Proofs/ReplySubErr.v — per-service errors inside a multi-service reply: the sub-response of a
   well-formed, non-success service reply has a non-empty error text that names the service's own
   general status (and its extended status). *)
From Coq Require Import String ZifyBool.
From PV Require Import Base.Bytes Base.BytesLemmas Base.Res Base.Proto Base.PyStr.
From PV Require Import Gen.Tables Gen.Types Gen.Status Gen.Consts Gen.ReplyTables.
From PV Require Import Model.EnumMapDefs Model.EnumMap Model.Reply Spec.ReplyReader.
From PV Require Import Proofs.EnumMapP Proofs.ReplyBase Proofs.ReplyValid Proofs.ReplyError Proofs.ReplyMulti.
Open Scope Z_scope.
Ltac Zify.zify_post_hook ::= Z.to_euclidean_division_equations.

Lemma padding46_length : length padding46 = 46%nat.
Proof. reflexivity. Qed.

Lemma byte_at_padded i d : byte_at (46 + i) (padding46 ++ d) = byte_at i d.
Proof. unfold byte_at. rewrite <- padding46_length at 1. rewrite nth_error_app2 by lia. f_equal. lia. Qed.

Lemma encap_status_padded d : encap_status (padding46 ++ d) = Some 0.
Proof. reflexivity. Qed.

Lemma wf_padded d : wf_cip_reply unit_layout (padding46 ++ d) = wf_sub_reply d.
Proof.
  unfold wf_cip_reply, wf_sub_reply, reply_bit. rewrite encap_status_padded. cbn [l_extsize l_svc l_data unit_layout].
  replace (byte_at 49 (padding46 ++ d)) with (byte_at 3 d) by (symmetry; apply (byte_at_padded 3)).
  replace (byte_at 46 (padding46 ++ d)) with (byte_at 0 d) by (symmetry; apply (byte_at_padded 0)).
  destruct (byte_at 0 d) as [s|]; destruct (byte_at 3 d) as [n|]; try reflexivity.
  rewrite app_length, padding46_length. f_equal. lia.
Qed.

Lemma ext_status_padded d : ext_status unit_layout (padding46 ++ d) = sub_ext_status d.
Proof.
  unfold ext_status, sub_ext_status. cbn [l_extsize l_data unit_layout].
  replace (byte_at 49 (padding46 ++ d)) with (byte_at 3 d) by (symmetry; apply (byte_at_padded 3)).
  assert (H16 : u16_at 50 (padding46 ++ d) = u16_at 4 d).
  { unfold u16_at. now rewrite (byte_at_padded 4 d : byte_at 50 _ = _), (byte_at_padded 5 d : byte_at (50 + 1) _ = _). }
  assert (H32 : u32_at 50 (padding46 ++ d) = u32_at 4 d).
  { unfold u32_at. now rewrite (byte_at_padded 4 d : byte_at 50 _ = _), (byte_at_padded 5 d : byte_at (50 + 1) _ = _),
      (byte_at_padded 6 d : byte_at (50 + 2) _ = _), (byte_at_padded 7 d : byte_at (50 + 3) _ = _). }
  rewrite H16, H32. reflexivity.
Qed.

Theorem sub_error_text q d : bytes_ok d = true -> wf_sub_reply d = true -> sub_success d = false ->
  exists t, error KUnit (s_r (sub_response q d)) = ROk (Some t) /\ t <> []
    /\ exists gs, byte_at 2 d = Some gs /\ gs <> 0
         /\ names_status service_status extend_codes gs (ext_value (sub_ext_status d)) t = true.
Proof.
  intros Hok Hwf Hns.
  pose proof (padded_ok d Hok) as Hokp.
  assert (Hwf' : wf_cip_reply unit_layout (padding46 ++ d) = true) by now rewrite wf_padded.
  assert (Hns' : spec_success true unit_layout (padding46 ++ d) = false) by now rewrite spec_success_padded.
  destruct (error_text_unit _ Hokp Hwf' Hns') as (t & He & Hne & Hnames).
  destruct (Hnames (encap_status_padded d)) as (gs & Hgs & Hg0 & Hn).
  assert (Hr : s_r (sub_response q d) = parse_unit (padding46 ++ d)).
  { destruct q as [dec|v]; cbn [sub_response s_r]; [|reflexivity].
    unfold parse_read_tag. rewrite (unit_valid_iff _ Hokp), Hns'. reflexivity. }
  rewrite Hr. exists t. split; [exact He|]. split; [exact Hne|].
  exists gs. rewrite (byte_at_padded 2 d : byte_at 48 _ = _) in Hgs.
  rewrite ext_status_padded in Hn. auto.
Qed.
