(* Proofs/UploadBlob.v — C05: _parse_template_data on the definition bytes the reference target
   serves (Spec/Project.template_blob: 8-byte member records, NUL-separated names, NUL padding):
   * [exp_member] / [exp_datatype]: the dictionary the upload must build for a template, given the
     dictionaries of the nested structures;
   * [member_info_decode]: one member record, elementary (with or without the array bit) or
     structure (the recursive _get_data_type is a parameter with a stated contract);
   * [names_of_blob]: the template name and the member names out of the name area, for both name
     forms ("Name;tail" and the predefined "Name");
   * [parse_template_blob]: the whole function. *)
From Coq Require Import ZifyBool String.
From PV Require Import Base.Bytes Base.BytesLemmas Base.Proto Base.PyStr Base.Res.
From PV Require Import Spec.Project Spec.Expect Spec.UploadObs Model.LogixUpload.
From PV Require Import Proofs.UploadParse Proofs.UploadFilter Proofs.UploadTemplate.
From PV Require Gen.Consts.
Open Scope string_scope.
Open Scope list_scope.
Open Scope Z_scope.

(* ================================================================ what must be built *)
Definition exp_member (nested : Z -> option datatype) (m : Project.member) : option LogixUpload.member :=
  match m_ty m with
  | BAtom c =>
      match atom_name c with
      | Some n =>
          let isb := c =? C_BOOL in
          Some (mkMem (m_off m) false (DName n) (Some n)
                      (if isb then Some (member_info_word m) else None)
                      (if isb then None else Some (member_info_word m))
                      (if isb then TcAtom n
                       else if member_info_word m =? 0 then TcAtom n else TcArray (member_info_word m) (TcAtom n)))
      | None => None
      end
  | BStruct tid =>
      match nested tid with
      | Some d =>
          Some (mkMem (m_off m) true (DDef d) (dt_name d) None (Some (m_arr m))
                      (if m_arr m =? 0 then dt_tclass d else TcArray (m_arr m) (dt_tclass d)))
      | None => None
      end
  | BOpaque _ => None
  end.

Definition template_attrs_of (t : template) : tmpl_attrs :=
  mkTA (template_defsize t) (t_size t) (template_member_count t) (t_handle t).

Definition exp_datatype (infos : list LogixUpload.member) (t : template) : datatype :=
  build_datatype (Some (display_name (t_name t))) (template_attrs_of t)
                 (member_loop (predefined_id (t_id t)) ml_init (map m_name (t_members t)) infos).

(* ================================================================ member records *)
Definition member_rec (ab : bool) (m : Project.member) : bytes :=
  le_enc 2 (member_info_word m) ++ le_enc 2 (member_type_word ab m) ++ le_enc 4 (m_off m).

Lemma template_records_eq ab t : template_records ab t = flat_map (member_rec ab) (t_members t).
Proof. reflexivity. Qed.

Lemma member_rec_length ab m : length (member_rec ab m) = 8%nat.
Proof. unfold member_rec. rewrite !app_length, !le_enc_length. reflexivity. Qed.

Lemma info_chunks_records ab ms rest :
  info_chunks (length ms) (flat_map (member_rec ab) ms ++ rest) = map (member_rec ab) ms.
Proof.
  induction ms as [|m ms IH]; [reflexivity|].
  cbn [length info_chunks flat_map map]. rewrite <- app_assoc.
  rewrite <- (member_rec_length ab m) at 1 2. rewrite firstn_app_exact, skipn_app_exact, IH. reflexivity.
Qed.

Lemma records_length ab ms : length (flat_map (member_rec ab) ms) = (length ms * 8)%nat.
Proof. induction ms as [|m ms IH]; [reflexivity|]. cbn [flat_map length]. rewrite app_length, member_rec_length, IH. lia. Qed.

(* the ranges of the fields of a member record *)
Definition member_fields_ok (m : Project.member) : Prop :=
  0 <= member_info_word m < 65536 /\ 0 <= m_off m < 4294967296 /\
  match m_ty m with
  | BAtom c => In c ATOMS /\ (c = C_BOOL -> m_arr m = 0)
  | BStruct tid => 0 <= tid < 4096
  | BOpaque _ => False
  end.

Lemma member_type_word_range ab m : member_fields_ok m -> 0 <= member_type_word ab m < 65536.
Proof.
  intros (_ & _ & Hty). unfold member_type_word.
  destruct (ab && negb (m_arr m =? 0)); destruct (m_ty m) as [c|tid|w]; try contradiction.
  - destruct Hty as [Hc _]. apply (In_nth_error) in Hc. unfold ATOMS in *.
    assert (193 <= c <= 212).
    { destruct Hc as [i Hi]. do 15 (destruct i as [|i]; [cbn in Hi; injection Hi as <-; cbv; split; discriminate|]).
      destruct i; discriminate. }
    lia.
  - lia.
  - destruct Hty as [Hc _]. apply (In_nth_error) in Hc. unfold ATOMS in *.
    assert (193 <= c <= 212).
    { destruct Hc as [i Hi]. do 15 (destruct i as [|i]; [cbn in Hi; injection Hi as <-; cbv; split; discriminate|]).
      destruct i; discriminate. }
    lia.
  - lia.
Qed.

Lemma atoms_range c : In c ATOMS -> 193 <= c <= 212.
Proof.
  intros Hc. apply In_nth_error in Hc. destruct Hc as [i Hi]. unfold ATOMS in Hi.
  do 15 (destruct i as [|i]; [cbn in Hi; injection Hi as <-; cbv; split; discriminate|]).
  destruct i; discriminate.
Qed.

Lemma slices_2_2_4 (A B C : bytes) :
  length A = 2%nat -> length B = 2%nat -> length C = 4%nat ->
  slice 0 2 (A ++ B ++ C) = A /\ slice 2 4 (A ++ B ++ C) = B /\ slice 4 8 (A ++ B ++ C) = C.
Proof.
  intros HA HB HC.
  destruct A as [|a0 [|a1 [|? ?]]]; try discriminate.
  destruct B as [|b0 [|b1 [|? ?]]]; try discriminate.
  destruct C as [|c0 [|c1 [|c2 [|c3 [|? ?]]]]]; try discriminate.
  repeat split; reflexivity.
Qed.

Lemma member_record_rec ab m :
  member_fields_ok m ->
  member_record (member_rec ab m) = Ok (member_info_word m, member_type_word ab m, m_off m).
Proof.
  intros Hm. pose proof (member_type_word_range ab m Hm) as Hw. destruct Hm as (Hi & Ho & _).
  unfold member_record. rewrite member_rec_length. cbn [Nat.ltb Nat.leb].
  unfold member_rec.
  destruct (slices_2_2_4 (le_enc 2 (member_info_word m)) (le_enc 2 (member_type_word ab m)) (le_enc 4 (m_off m))
                         (le_enc_length _ _) (le_enc_length _ _) (le_enc_length _ _)) as (E1 & E2 & E3).
  rewrite E1, E2, E3.
  rewrite !le_dec_enc_id by (rewrite ?pow256_2, ?pow256_4; lia). reflexivity.
Qed.

(* ================================================================ one member *)
Section MemberInfo.
  Variable St : Type.
  Variable gdt : ustate -> St -> Z -> Z -> St * ustate * outcome datatype.
  Variable I : ustate -> St -> Prop.
  Variable Good : Z -> datatype -> Prop.       (* what a definition returned for template id must satisfy *)
  (* how the driver state evolves: [Step] (reflexive, transitive), and what a call establishes
     about the requested id, stable under further steps: [Post] *)
  Variable Step : ustate -> ustate -> Prop.
  Variable Post : Z -> ustate -> Prop.
  Hypothesis Step_refl : forall u, Step u u.
  Hypothesis Step_trans : forall a b c, Step a b -> Step b c -> Step a c.
  Hypothesis Post_step : forall tid u u', Post tid u -> Step u u' -> Post tid u'.

  (* the contract of the recursive _get_data_type on the structure types of these members *)
  Definition gdt_contract (ms : list Project.member) : Prop :=
    forall u s tid w m, I u s -> In m ms -> m_ty m = BStruct tid -> Z.land w 4095 = tid ->
      exists s' u' d, gdt u s tid w = (s', u', Done d) /\ Good tid d /\ I u' s' /\ Step u u' /\ Post tid u'.

  (* the entry built for member m: [exp_member] over good nested definitions *)
  Definition info_good (m : Project.member) (info : LogixUpload.member) : Prop :=
    exists nested, exp_member nested m = Some info
                   /\ forall tid, m_ty m = BStruct tid -> exists d, nested tid = Some d /\ Good tid d.

  Theorem member_info_decode ab m ms u s :
    gdt_contract ms -> In m ms -> member_fields_ok m -> I u s ->
    exists s' u' info,
      parse_member_info St gdt u s (member_rec ab m) = (s', u', Done info)
      /\ info_good m info /\ I u' s' /\ Step u u' /\ (forall tid, m_ty m = BStruct tid -> Post tid u').
  Proof.
    intros Hg Hin Hm HI.
    pose proof (member_type_word_range ab m Hm) as Hw.
    unfold parse_member_info. rewrite (member_record_rec ab m Hm).
    destruct Hm as (Hi & Ho & Hty). unfold info_good, exp_member.
    destruct (m_ty m) as [c|tid|w] eqn:Ety; [| |contradiction].
    - (* elementary *)
      destruct Hty as [Hc Hb].
      destruct (atom_facts c Hc) as (n & En & E1 & E2 & E3 & E4 & E5 & _).
      pose proof (atoms_range c Hc) as Hr.
      assert (Hword : member_type_word ab m = c \/ member_type_word ab m = c + 8192).
      { unfold member_type_word. rewrite Ety. destruct (ab && negb (m_arr m =? 0)); [right | left]; lia. }
      assert (Hatomic :
        match datatypes_get_code (member_type_word ab m) with
        | Some n0 => Some (n0, datatypes_get_name (Some n0))
        | None =>
            if Z.land (member_type_word ab m) 32768 =? 0
            then match datatypes_get_type (Z.land (member_type_word ab m) 4095) with
                 | Some c0 => Some (c0, Some c0)
                 | None => None
                 end
            else None
        end = Some (n, Some n)).
      { destruct Hword as [-> | ->].
        - rewrite E1, E2. reflexivity.
        - rewrite E3.
          pose proof (land_bit_zero (c + 8192) 15 ltac:(lia) ltac:(lia)) as Eb. change (2 ^ 15) with 32768 in Eb.
          rewrite Eb. replace ((c + 8192) / 32768 mod 2 =? 0) with true by lia.
          pose proof (sym_template_id_eq (c + 8192)) as Et. unfold sym_template_id in Et. rewrite Et.
          replace ((c + 8192) mod 4096) with c by lia. rewrite E4. reflexivity. }
      rewrite Hatomic. cbv beta iota.
      rewrite E5.
      exists s, u. eexists. split; [reflexivity|]. split; [|split; [exact HI | split; [apply Step_refl | intros ? H; discriminate]]].
      exists (fun _ => None). rewrite En. split; [destruct (c =? C_BOOL); reflexivity | intros ? H; discriminate].
    - (* a structure *)
      assert (Hword : 32768 <= member_type_word ab m /\ member_type_word ab m mod 4096 = tid
                      /\ (member_type_word ab m / 32768) mod 2 = 1).
      { unfold member_type_word. rewrite Ety. destruct (ab && negb (m_arr m =? 0)); lia. }
      destruct Hword as (Hbig & Hlow & Hb15).
      rewrite datatypes_get_code_big by lia.
      pose proof (land_bit_zero (member_type_word ab m) 15 ltac:(lia) ltac:(lia)) as Eb. change (2 ^ 15) with 32768 in Eb.
      rewrite Eb, Hb15. cbn [Z.eqb]. cbv iota.
      pose proof (sym_template_id_eq (member_type_word ab m)) as Et. unfold sym_template_id in Et. rewrite Et, Hlow.
      destruct (Hg u s tid (member_type_word ab m) m HI Hin Ety ltac:(rewrite Et; exact Hlow)) as (s' & u' & d & Eg & Hgood & HI' & Hstep & Hpost).
      rewrite Eg.
      assert (Hinfo : member_info_word m = m_arr m) by (unfold member_info_word, is_bool_member; rewrite Ety; reflexivity).
      rewrite Hinfo.
      exists s', u'. eexists. split; [reflexivity|].
      split; [|split; [exact HI' | split; [exact Hstep | intros tid' H; injection H as <-; exact Hpost]]].
      exists (fun _ => Some d). split; [reflexivity|]. intros tid' H. injection H as <-. eauto.
  Qed.

  (* every member, in order *)
  Theorem member_infos_decode ab : forall ms all u s,
    gdt_contract all -> incl ms all -> Forall member_fields_ok ms -> I u s ->
    exists s' u' infos,
      parse_member_infos St gdt u s (map (member_rec ab) ms) = (s', u', Done infos)
      /\ Forall2 info_good ms infos /\ I u' s' /\ Step u u'
      /\ (forall m tid, In m ms -> m_ty m = BStruct tid -> Post tid u').
  Proof.
    induction ms as [|m ms IH]; intros all u s Hg Hincl Hok HI.
    - exists s, u, []. repeat split; auto. intros ? ? [].
    - inversion Hok as [|? ? Hm Hms]; subst.
      destruct (member_info_decode ab m all u s Hg (Hincl m (or_introl eq_refl)) Hm HI) as (s1 & u1 & info & E1 & En1 & HI1 & S1 & P1).
      destruct (IH all u1 s1 Hg (fun x Hx => Hincl x (or_intror Hx)) Hms HI1) as (s2 & u2 & infos & E2 & En2 & HI2 & S2 & P2).
      exists s2, u2, (info :: infos). cbn [map parse_member_infos].
      rewrite E1, E2. repeat split; eauto.
      intros m' tid [<- | Hin] Ht; [eapply Post_step; [apply P1; exact Ht | exact S2] | eapply P2; eassumption].
  Qed.
End MemberInfo.

(* ================================================================ the name area *)
Lemma split_chr_aux_sep sep a rest : forall cur,
  contains_chr sep a = false ->
  split_chr_aux sep (a ++ sep :: rest) cur = (rev cur ++ a) :: split_chr_aux sep rest [].
Proof.
  induction a as [|c a IH]; intros cur H.
  - cbn [app split_chr_aux]. rewrite Z.eqb_refl, app_nil_r. reflexivity.
  - cbn [contains_chr existsb] in H. apply orb_false_iff in H. destruct H as [Hc H].
    cbn [app split_chr_aux]. rewrite Z.eqb_sym, Hc. rewrite (IH (c :: cur) H). cbn [rev]. rewrite <- app_assoc. reflexivity.
Qed.

Lemma split_chr_sep sep a rest :
  contains_chr sep a = false -> split_chr sep (a ++ sep :: rest) = a :: split_chr sep rest.
Proof. intros H. unfold split_chr. rewrite split_chr_aux_sep by exact H. reflexivity. Qed.

Lemma split_chr_last sep a : contains_chr sep a = false -> split_chr sep a = [a].
Proof.
  intros H. unfold split_chr. change a with ([] ++ a) at 2. change (@nil Z) with (rev (@nil Z)) at 2.
  generalize (@nil Z). induction a as [|c a IH]; intros cur.
  - cbn. rewrite app_nil_r. reflexivity.
  - cbn [contains_chr existsb] in H. apply orb_false_iff in H. destruct H as [Hc H].
    cbn [split_chr_aux]. rewrite Z.eqb_sym, Hc. rewrite (IH H (c :: cur)). cbn [rev]. rewrite <- app_assoc. reflexivity.
Qed.

Lemma split_zeros k : exists extras, split_chr 0 (zeros k) = extras /\ Forall (fun n => n = []) extras.
Proof.
  induction k as [|k (ex & E & H)].
  - exists [[]]. split; [reflexivity | repeat constructor].
  - exists ([] :: ex). split; [|constructor; auto].
    cbn [zeros]. change (0 :: zeros k) with ([] ++ 0 :: zeros k). rewrite split_chr_sep by reflexivity. rewrite E. reflexivity.
Qed.

(* names of a template and of its members are NUL- and ';'-free; a name without tail belongs to a
   predefined-range id *)
Definition names_ok (t : template) : Prop :=
  contains_chr 0 (t_name t) = false /\ contains_chr 59 (t_name t) = false
  /\ match t_tail t with
     | Some s => contains_chr 0 s = false
     | None => predefined_id (t_id t) = true
     end
  /\ Forall (fun m => contains_chr 0 (m_name m) = false /\ contains_chr 59 (m_name m) = false) (t_members t).

Lemma split_member_names (ms : list Project.member) k :
  Forall (fun m => contains_chr 0 (m_name m) = false /\ contains_chr 59 (m_name m) = false) ms ->
  exists extras, split_chr 0 (flat_map (fun m => m_name m ++ [0]) ms ++ zeros k) = map m_name ms ++ extras
                 /\ Forall (fun n => n = []) extras.
Proof.
  induction 1 as [|m ms [H0 _] _ (ex & E & Hex)].
  - destruct (split_zeros k) as (ex & E & H). exists ex. auto.
  - exists ex. split; [|exact Hex].
    cbn [flat_map map]. rewrite <- !app_assoc. cbn [app]. rewrite split_chr_sep by exact H0. rewrite E. reflexivity.
Qed.

Lemma names_loop_some : forall names tn acc, names_loop names (Some tn) acc = (Some tn, rev acc ++ names).
Proof.
  induction names as [|n r IH]; intros tn acc; cbn [names_loop]; [rewrite app_nil_r; reflexivity|].
  rewrite IH. cbn [rev]. rewrite <- app_assoc. reflexivity.
Qed.

Lemma names_loop_none : forall names acc,
  Forall (fun n => contains_chr 59 n = false) names -> names_loop names None acc = (None, rev acc ++ names).
Proof.
  induction names as [|n r IH]; intros acc H; cbn [names_loop]; [rewrite app_nil_r; reflexivity|].
  inversion H as [|? ? Hn Hr]; subst. rewrite Hn. rewrite IH by exact Hr. cbn [rev]. rewrite <- app_assoc. reflexivity.
Qed.

Lemma before_semi_app a r : contains_chr 59 a = false -> before_semi (a ++ 59 :: r) = a.
Proof. intros H. unfold before_semi. rewrite split_chr_sep by exact H. reflexivity. Qed.

Lemma contains_chr_app c a b : contains_chr c (a ++ b) = contains_chr c a || contains_chr c b.
Proof. unfold contains_chr. apply existsb_app. Qed.

Lemma text_eqb_same : forall a b, PyStr.text_eqb a b = Project.text_eqb a b.
Proof. induction a as [|x a IH]; intros [|y b]; cbn; rewrite ?IH; reflexivity. Qed.

Lemma display_name_eq n : (if PyStr.text_eqb n (T "ASCIISTRING82") then Some (T "STRING") else Some n) = Some (display_name n).
Proof.
  unfold display_name. change (T "ASCIISTRING82") with txt_ASCIISTRING82. change (T "STRING") with txt_STRING.
  rewrite text_eqb_same. destruct (Project.text_eqb n txt_ASCIISTRING82); reflexivity.
Qed.

(* the first name of the name area: "Name;tail" or the predefined "Name" *)
Definition head_name (t : template) : text :=
  t_name t ++ match t_tail t with Some s => SEMI :: s | None => [] end.

Lemma template_names_eq t :
  template_names t = head_name t ++ 0 :: flat_map (fun m => m_name m ++ [0]) (t_members t).
Proof. unfold template_names, head_name. rewrite <- !app_assoc. reflexivity. Qed.

(* the name area as served: the names and NUL padding, or (a definition that ends exactly one byte
   after what the driver asks for) the names without their final NUL *)
Definition names_area_ok (t : template) (area : bytes) : Prop :=
  (exists k, area = template_names t ++ zeros k) \/ area ++ [0] = template_names t.

Lemma flat_names_end (ms : list Project.member) : ms <> [] ->
  exists X, flat_map (fun m => m_name m ++ [0]) ms = X ++ [0].
Proof.
  induction ms as [|m ms IH]; [contradiction|]. intros _.
  destruct ms as [|m' r].
  - exists (m_name m). cbn. rewrite app_nil_r. reflexivity.
  - destruct (IH ltac:(discriminate)) as (X & E). exists ((m_name m ++ [0]) ++ X).
    change (flat_map (fun m0 => m_name m0 ++ [0]) (m :: m' :: r))
      with ((m_name m ++ [0]) ++ flat_map (fun m0 => m_name m0 ++ [0]) (m' :: r)).
    rewrite E, app_assoc. reflexivity.
Qed.

Lemma split_names_cut : forall (ms : list Project.member) X,
  Forall (fun m => contains_chr 0 (m_name m) = false /\ contains_chr 59 (m_name m) = false) ms ->
  ms <> [] -> X ++ [0] = flat_map (fun m => m_name m ++ [0]) ms -> split_chr 0 X = map m_name ms.
Proof.
  induction ms as [|m ms IH]; intros X Hok Hne E; [contradiction|].
  inversion Hok as [|? ? [H0 _] Hok']; subst.
  destruct ms as [|m' r].
  - cbn in E. rewrite app_nil_r in E. apply app_inj_tail in E. destruct E as [-> _].
    cbn [map]. apply split_chr_last. exact H0.
  - destruct (flat_names_end (m' :: r) ltac:(discriminate)) as (Y & EY).
    change (flat_map (fun m0 => m_name m0 ++ [0]) (m :: m' :: r))
      with ((m_name m ++ [0]) ++ flat_map (fun m0 => m_name m0 ++ [0]) (m' :: r)) in E.
    rewrite EY in E. rewrite app_assoc in E. apply app_inj_tail in E. destruct E as [-> _].
    rewrite <- app_assoc. cbn [app]. rewrite split_chr_sep by exact H0.
    cbn [map]. f_equal. apply IH; [exact Hok' | discriminate | symmetry; exact EY].
Qed.

Lemma split_area t area :
  names_ok t -> names_area_ok t area ->
  exists extras, split_chr 0 area = head_name t :: map m_name (t_members t) ++ extras
                 /\ Forall (fun n => n = []) extras.
Proof.
  intros (Hn0 & Hn59 & Htail & Hms) Harea.
  assert (Hh0 : contains_chr 0 (head_name t) = false).
  { unfold head_name. rewrite contains_chr_app, Hn0. destruct (t_tail t) as [tl|]; [|reflexivity].
    cbn [contains_chr existsb orb]. exact Htail. }
  destruct Harea as [(k & ->) | E].
  - rewrite template_names_eq, <- app_assoc. cbn [app]. rewrite split_chr_sep by exact Hh0.
    destruct (split_member_names (t_members t) k Hms) as (extras & Es & Hex).
    exists extras. rewrite Es. auto.
  - rewrite template_names_eq in E. destruct (t_members t) as [|m ms] eqn:Em.
    + cbn [flat_map] in E. apply app_inj_tail in E. destruct E as [-> _].
      exists []. rewrite split_chr_last by exact Hh0. split; [reflexivity | constructor].
    + destruct (flat_names_end (m :: ms) ltac:(discriminate)) as (Y & EY).
      rewrite EY in E. change (head_name t ++ 0 :: Y ++ [0]) with (head_name t ++ (0 :: Y) ++ [0]) in E.
      rewrite app_assoc in E. apply app_inj_tail in E. destruct E as [-> _].
      rewrite split_chr_sep by exact Hh0.
      rewrite (split_names_cut (m :: ms) Y Hms ltac:(discriminate) (eq_sym EY)).
      exists []. rewrite app_nil_r. split; [reflexivity | constructor].
Qed.

(* the template name and the member names (followed by empty names from the padding) *)
Theorem names_of_data ab t stype area :
  names_ok t -> names_area_ok t area -> Z.land stype 4095 = t_id t ->
  exists extras,
    template_and_member_names (template_records ab t ++ area) (length (t_members t) * 8) stype
    = (Some (display_name (t_name t)), map m_name (t_members t) ++ extras).
Proof.
  intros Hok Harea Hid.
  destruct (split_area t area Hok Harea) as (extras & Esplit & Hex).
  destruct Hok as (Hn0 & Hn59 & Htail & Hms).
  unfold template_and_member_names.
  rewrite template_records_eq.
  rewrite <- (records_length ab (t_members t)), skipn_app_exact.
  unfold split_nul. rewrite Esplit.
  assert (Hnosemi : Forall (fun n => contains_chr 59 n = false) (map m_name (t_members t) ++ extras)).
  { apply Forall_app. split.
    - rewrite Forall_map. eapply Forall_impl; [|exact Hms]. cbn. intros a [_ H]. exact H.
    - eapply Forall_impl; [|exact Hex]. cbn. intros a ->. reflexivity. }
  unfold predefined. rewrite Hid. fold (predefined_id (t_id t)).
  unfold head_name.
  destruct (t_tail t) as [tail|] eqn:Et.
  - (* "Name;tail" *)
    cbn [names_loop].
    rewrite contains_chr_app. cbn [contains_chr existsb]. unfold SEMI. rewrite Z.eqb_refl, orb_true_r. cbn [orb].
    rewrite names_loop_some. cbn [rev app].
    rewrite before_semi_app by exact Hn59. rewrite andb_false_r.
    exists extras. rewrite display_name_eq. reflexivity.
  - (* the predefined form "Name" *)
    rewrite app_nil_r.
    rewrite names_loop_none by (constructor; assumption). cbn [rev app].
    rewrite Htail. cbn [andb].
    exists extras. rewrite display_name_eq. reflexivity.
Qed.

(* ================================================================ the whole function *)
Lemma member_loop_extras pre : forall names infos st extras,
  length names = length infos -> member_loop pre st (names ++ extras) infos = member_loop pre st names infos.
Proof.
  induction names as [|n names IH]; intros [|i infos] st extras H; try discriminate.
  - destruct extras; reflexivity.
  - cbn [app member_loop]. apply IH. cbn in H. lia.
Qed.

Lemma all_some_length {A B} (f : A -> option B) : forall l r, all_some (map f l) = Some r -> length r = length l.
Proof.
  induction l as [|x l IH]; intros r H.
  - injection H as <-. reflexivity.
  - cbn [map all_some] in H. destruct (f x); [|discriminate]. destruct (all_some (map f l)) eqn:E; [|discriminate].
    injection H as <-. cbn [length]. rewrite (IH l0 eq_refl). reflexivity.
Qed.

Lemma Forall2_len {A B} (R : A -> B -> Prop) l l' : Forall2 R l l' -> length l = length l'.
Proof. induction 1; cbn; congruence. Qed.

Section Parse.
  Variable St : Type.
  Variable gdt : ustate -> St -> Z -> Z -> St * ustate * outcome datatype.
  Variable I : ustate -> St -> Prop.
  Variable Good : Z -> datatype -> Prop.
  Variable Step : ustate -> ustate -> Prop.
  Variable Post : Z -> ustate -> Prop.
  Hypothesis Step_refl : forall u, Step u u.
  Hypothesis Step_trans : forall a b c, Step a b -> Step b c -> Step a c.
  Hypothesis Post_step : forall tid u u', Post tid u -> Step u u' -> Post tid u'.

  Theorem parse_template_blob ab t stype u s area :
    gdt_contract St gdt I Good Step Post (t_members t) ->
    Forall member_fields_ok (t_members t) -> names_ok t -> names_area_ok t area -> Z.land stype 4095 = t_id t ->
    I u s ->
    exists s' u' infos,
      parse_template_data St gdt u s (template_records ab t ++ area) (template_attrs_of t) stype
      = (s', u', Done (exp_datatype infos t))
      /\ Forall2 (info_good Good) (t_members t) infos /\ I u' s' /\ Step u u'
      /\ (forall m tid, In m (t_members t) -> m_ty m = BStruct tid -> Post tid u').
  Proof.
    intros Hg Hok Hnames Harea Hid HI.
    unfold parse_template_data. cbn [ta_count template_attrs_of].
    unfold template_member_count. rewrite Nat2Z.id.
    assert (Echunks : info_chunks (length (t_members t)) (firstn (length (t_members t) * 8) (template_records ab t ++ area))
                      = map (member_rec ab) (t_members t)).
    { rewrite template_records_eq.
      rewrite <- (records_length ab (t_members t)), firstn_app_exact.
      rewrite <- (app_nil_r (flat_map _ _)). apply info_chunks_records. }
    rewrite Echunks.
    destruct (member_infos_decode St gdt I Good Step Post Step_refl Step_trans Post_step ab (t_members t) (t_members t) u s Hg (incl_refl _) Hok HI)
      as (s' & u' & infos & E & En & HI' & HS & HP).
    rewrite E.
    destruct (names_of_data ab t stype area Hnames Harea Hid) as (extras & Enames). rewrite Enames.
    exists s', u', infos. split; [|auto].
    unfold exp_datatype. unfold predefined. rewrite Hid. fold (predefined_id (t_id t)).
    rewrite member_loop_extras by (rewrite map_length; eapply Forall2_len; exact En).
    reflexivity.
  Qed.
End Parse.

(* ================================================================ what a template read delivers *)
Lemma template_names_end t : exists X, template_names t = X ++ [0].
Proof.
  rewrite template_names_eq. destruct (t_members t) as [|m ms] eqn:E.
  - exists (head_name t). reflexivity.
  - destruct (flat_names_end (m :: ms) ltac:(discriminate)) as (Y & EY). rewrite EY.
    exists (head_name t ++ 0 :: Y). rewrite <- app_assoc. reflexivity.
Qed.

Lemma core_length ab t :
  Z.of_nat (length (template_records ab t ++ template_names t)) = template_core_len t.
Proof.
  rewrite app_length, template_records_eq, records_length. unfold template_core_len, template_member_count. lia.
Qed.

(* the bytes _read_template ends up with (it asks for definition_size * 4 - 21 bytes in total; the
   target serves what exists of them): the records and a well-shaped name area *)
Theorem served_shape ab t :
  template_core_len t <= template_defsize t * 4 - 20 -> 0 <= template_defsize t * 4 - 21 ->
  exists area,
    firstn (Z.to_nat (Z.min (template_defsize t * 4 - 21) (Z.of_nat (length (template_blob ab t))))) (template_blob ab t)
    = template_records ab t ++ area
    /\ names_area_ok t area.
Proof.
  intros Hcore Hw. unfold template_blob. cbv zeta.
  pose proof (core_length ab t) as Hlen.
  set (core := template_records ab t ++ template_names t) in *.
  set (want := template_defsize t * 4 - 21) in *.
  destruct (Z.leb_spec (template_core_len t) want) as [Hle | Hgt].
  - (* padded up to what is asked for *)
    exists (template_names t ++ zeros (Z.to_nat want - length core)).
    split; [|left; eauto].
    rewrite firstn_all2.
    + subst core. rewrite <- app_assoc. reflexivity.
    + rewrite app_length, zeros_length. lia.
  - (* one byte longer than what is asked for: the final NUL is not read *)
    destruct (template_names_end t) as (X & EX).
    exists X. split; [|right; symmetry; exact EX].
    replace (Z.to_nat want - length core)%nat with O by lia. cbn [zeros]. rewrite app_nil_r.
    subst core. rewrite EX, app_assoc.
    replace (Z.to_nat (Z.min want (Z.of_nat (length ((template_records ab t ++ X) ++ [0])))))
      with (length (template_records ab t ++ X)).
    + apply firstn_app_exact.
    + rewrite EX, app_assoc in Hlen.
      rewrite (app_length (template_records ab t ++ X) [0]) in *. cbn [length] in *.
      set (n := length (template_records ab t ++ X)) in *. lia.
Qed.
