(* Proofs/LogixParseP.v — lemmas about the shared request parser (Model/LogixParse.v) used by C03:
   ids are positions, failures are RequestError only and carry a non-empty text, the user tag is the
   request without its {n} suffix, the plc tag is the user tag unless a bit or a BOOL array is involved,
   unknown tags / members are reported as such. *)
From PV Require Import Base.Bytes Base.Proto Base.Res Base.PyStr Gen.LogixParseGen Model.LogixParse.
From Coq Require Import ZifyBool.
Ltac Zify.zify_post_hook ::= Z.to_euclidean_division_equations.
Open Scope Z_scope.

(* ------------------------------------------------------------------ exceptions *)
Lemma parse_tag_request_errors db m s :
  (exists p, parse_tag_request db m s = Ok p) \/ parse_tag_request db m s = Err RequestError.
Proof. unfold parse_tag_request. destruct (parse_tag_request_ex db m s); [left; eauto | right; reflexivity]. Qed.

Lemma perr_text_nonempty e : perr_text e <> [].
Proof. destruct e; cbn; discriminate. Qed.

(* ------------------------------------------------------------------ _parse_requested_tags *)
Lemma parse_requested_from_length db m : forall reqs i, length (parse_requested_from db m i reqs) = length reqs.
Proof. induction reqs as [|r reqs IH]; intros i; cbn; [reflexivity | now rewrite IH]. Qed.

Lemma parse_requested_length db m reqs : length (parse_requested_tags db m reqs) = length reqs.
Proof. apply parse_requested_from_length. Qed.

Definition dflt_q : preq := mkPreq (-1) (ReqOther TypeError) (inr (PE_TagData TypeError)).

Lemma parse_requested_from_nth db m : forall reqs i k d, (k < length reqs)%nat ->
  nth k (parse_requested_from db m i reqs) d
  = mkPreq (i + Z.of_nat k) (nth k reqs (ReqOther TypeError)) (parse_request_obj db m (nth k reqs (ReqOther TypeError))).
Proof.
  induction reqs as [|r reqs IH]; intros i k d Hk; cbn [length] in Hk; [lia|].
  destruct k as [|k]; cbn [parse_requested_from nth].
  - f_equal. lia.
  - rewrite IH by lia. f_equal. lia.
Qed.

Lemma parse_requested_nth db m reqs k d : (k < length reqs)%nat ->
  nth k (parse_requested_tags db m reqs) d
  = mkPreq (Z.of_nat k) (nth k reqs (ReqOther TypeError)) (parse_request_obj db m (nth k reqs (ReqOther TypeError))).
Proof. intros H. unfold parse_requested_tags. rewrite parse_requested_from_nth by exact H. f_equal. Qed.

(* ids are the positions i, i+1, ... *)
Fixpoint zseq (i : Z) (n : nat) : list Z := match n with O => [] | S n' => i :: zseq (i + 1) n' end.

Lemma parse_requested_from_ids db m : forall reqs i, map q_id (parse_requested_from db m i reqs) = zseq i (length reqs).
Proof. induction reqs as [|r reqs IH]; intros i; cbn; [reflexivity | now rewrite IH]. Qed.

Lemma zseq_lower : forall n i x, In x (zseq i n) -> i <= x.
Proof. induction n as [|n IH]; intros i x H; cbn in H; [contradiction|]. destruct H as [<-|H]; [lia|]. apply IH in H. lia. Qed.

Lemma zseq_NoDup : forall n i, NoDup (zseq i n).
Proof.
  induction n as [|n IH]; intros i; cbn; constructor; [|apply IH].
  intros H. apply zseq_lower in H. lia.
Qed.

Lemma parse_requested_ids_NoDup db m reqs : NoDup (map q_id (parse_requested_tags db m reqs)).
Proof. unfold parse_requested_tags. rewrite parse_requested_from_ids. apply zseq_NoDup. Qed.

Lemma parse_requested_ids_nonneg db m reqs q : In q (parse_requested_tags db m reqs) -> 0 <= q_id q.
Proof.
  intros H. apply (in_map q_id) in H. unfold parse_requested_tags in H.
  rewrite parse_requested_from_ids in H. now apply zseq_lower in H.
Qed.

(* the parse of a request does not depend on its position or on the other requests *)
Lemma parse_requested_from_parsed db m : forall reqs i q, In q (parse_requested_from db m i reqs) ->
  q_parsed q = parse_request_obj db m (q_request q).
Proof.
  induction reqs as [|r reqs IH]; intros i q H; cbn in H; [contradiction|].
  destruct H as [<-|H]; [reflexivity | eapply IH, H].
Qed.

(* ------------------------------------------------------------------ the user tag *)
(* the text before the first occurrence of c *)
Fixpoint before (c : Z) (s : text) : text :=
  match s with
  | [] => []
  | x :: r => if x =? c then [] else x :: before c r
  end.

(* SPEC: a request name without its {n} element-count suffix *)
Definition drop_count (s : text) : text :=
  if ends_with [c_rbrace] s && contains_chr c_lbrace s then before c_lbrace s else s.

Lemma split_chr_aux_hd c : forall s cur, exists rest, split_chr_aux c s cur = (rev cur ++ before c s) :: rest.
Proof.
  induction s as [|x s IH]; intros cur; cbn [split_chr_aux before].
  - exists []. now rewrite app_nil_r.
  - destruct (x =? c) eqn:E.
    + eexists. rewrite app_nil_r. reflexivity.
    + destruct (IH (x :: cur)) as [rest Hr]. exists rest. rewrite Hr. cbn [rev]. now rewrite <- app_assoc.
Qed.

Lemma split_chr_hd c s t rest : split_chr c s = t :: rest -> t = before c s.
Proof.
  unfold split_chr. intros H. destruct (split_chr_aux_hd c s []) as [r Hr]. rewrite Hr in H.
  cbn in H. now inversion H.
Qed.

Ltac case_match :=
  match goal with
  | H : context [match ?x with _ => _ end] |- _ => destruct x eqn:?
  | |- context [match ?x with _ => _ end] => destruct x eqn:?
  end.

Theorem user_tag_is_request_without_count db m s p :
  parse_tag_request_ex db m s = inl p -> user_tag p = drop_count s.
Proof.
  unfold parse_tag_request_ex, drop_count, pfail.
  destruct (ends_with [c_rbrace] s && contains_chr c_lbrace s) eqn:E1.
  - destruct (split_chr c_lbrace s) as [|t [|tmp [|x l]]] eqn:ES; try discriminate.
    destruct (int_of_text (removelast tmp)) as [n|e]; [|discriminate].
    apply split_chr_hd in ES. subst t.
    intros H. repeat case_match; try discriminate; inversion H; reflexivity.
  - intros H. repeat case_match; try discriminate; inversion H; reflexivity.
Qed.

(* without a bit and outside BOOL arrays the tag sent to the PLC is the user tag *)
Theorem plc_tag_is_user_tag db m s p :
  parse_tag_request_ex db m s = inl p -> bit p = None -> is_dword_dt (tag_info p) = false ->
  plc_tag p = user_tag p.
Proof.
  unfold parse_tag_request_ex, pfail. intros H Hb Hd.
  repeat case_match; try discriminate; inversion H; subst; cbn in *; try discriminate; try congruence; reflexivity.
Qed.

Lemma is_dword_dt_name t : is_dword_dt t = true -> is_dword_name t = true.
Proof. unfold is_dword_dt, is_dword_name. destruct (ti_struct t); cbn; [discriminate | auto]. Qed.

(* ------------------------------------------------------------------ unknown tags and members *)
(* a request without {n}, not program-scoped, whose base tag is not in the database: every failure is
   one of the wrappers, and an unknown base tag that reaches the lookup is a PE_NoTag (a trailing
   numeric attribute of more than 4300 digits fails earlier, in int()) *)
Theorem unknown_tag_is_reported db m s base attrs :
  ends_with [c_rbrace] s && contains_chr c_lbrace s = false ->
  split_chr c_dot s = base :: attrs -> starts_with s_Program base = false ->
  lookup (strip_array base) db = None ->
  exists e, parse_tag_request_ex db m s = inr e
            /\ (e = PE_NoTag (strip_array base) \/ exists t, e = PE_Parse ValueError t).
Proof.
  intros E1 ES EP EL. unfold parse_tag_request_ex, pfail. rewrite E1, ES, EP.
  assert (G : forall a, get_tag_info_raw db base a = GKeyError (strip_array base)).
  { intros a. unfold get_tag_info_raw. now rewrite EL. }
  destruct (rev attrs) as [|last init_rev]; [rewrite G; eauto|].
  destruct (isdigit last); [|rewrite G; eauto].
  destruct (int_of_text last); [rewrite G; eauto|].
  eexists; split; [reflexivity|]. right. eauto.
Qed.

(* an unknown LAST member of a known structure tag (one level) *)
Theorem unknown_member_is_reported db m s base mem t :
  ends_with [c_rbrace] s && contains_chr c_lbrace s = false ->
  split_chr c_dot s = [base; mem] -> starts_with s_Program base = false -> isdigit mem = false ->
  lookup (strip_array base) db = Some t -> ti_struct t = true ->
  lookup (strip_array mem) (ti_members t) = None ->
  parse_tag_request_ex db m s = inr (PE_NoTag (strip_array mem)).
Proof.
  intros E1 ES EP ED EL ET EM. unfold parse_tag_request_ex, pfail. rewrite E1, ES, EP.
  cbn [rev app]. rewrite ED.
  unfold get_tag_info_raw. rewrite EL. unfold internal_tags. rewrite ET.
  cbn [recurse_attrs]. now rewrite EM.
Qed.
