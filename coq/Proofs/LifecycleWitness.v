(* Proofs/LifecycleWitness.v — boolean versions of the trace properties of C10 (sound: the property
   implies the check), used to refute the unguarded statements on concrete runs by computation. *)
From Coq Require Import ZifyBool.
From PV Require Import Base.Bytes Base.Res.
From PV Require Import Spec.EncapParser Spec.MRParser Spec.TargetIface Spec.TargetCore.
From PV Require Import Proofs.LifecycleTarget Model.Lifecycle Proofs.LifecycleP Proofs.LifecycleInv.
Open Scope Z_scope.

Section Check.
Context {S : Type} (h : handler S).
Notation tev := (tev (S := S)).

Definition unitdata_okb (before : tstate S) (fr : bytes) : bool :=
  match parse_frame fr with
  | RcOk f =>
      if f_cmd f =? CMD_UNITDATA then
        match f_body f with
        | BCpf _ (AddrConn cid) _ _ =>
            mem_z (f_session f) (t_sessions before)
            && existsb (fun c => (c_ot_id c =? cid) && (c_session c =? f_session f)) (t_conns before)
        | _ => false
        end
      else true
  | RcErr _ => true
  end.

Lemma unitdata_ok_b before fr : unitdata_ok before fr -> unitdata_okb before fr = true.
Proof.
  intros H. unfold unitdata_okb. destruct (parse_frame fr) as [f | c] eqn:Ep; [| reflexivity].
  destruct (f_cmd f =? CMD_UNITDATA) eqn:Ec; [| reflexivity].
  destruct (H f Ep) as (Hm & t & cid & dt & d & c & Hb & Hin & Hot & Hses); [lia |].
  rewrite Hb, Hm. cbn [andb]. apply existsb_exists. exists c. split; [exact Hin | lia].
Qed.

Definition deliver_okb (e : tev) : bool := match e with TDeliver b fr _ => unitdata_okb b fr | _ => true end.
Lemma trace_ok_b tr : Forall (deliver_ok (S := S)) tr -> forallb deliver_okb tr = true.
Proof.
  induction 1 as [| e tr He Ht IH]; [reflexivity |]. cbn [forallb]. rewrite IH, Bool.andb_true_r.
  destruct e; try reflexivity. apply unitdata_ok_b. exact He.
Qed.

Definition effect_is (e : effect) (large : bool) : bool :=
  match e with EFo l => Bool.eqb l large | _ => false end.
Lemma effect_is_spec e large : e = EFo large -> effect_is e large = true.
Proof. intros ->. cbn. apply Bool.eqb_reflx. Qed.

Definition is_large_refusedb (e : tev) : bool :=
  match e with
  | TDeliver b fr _ => effect_is (frame_effect fr) true
                       && Nat.eqb (List.length (t_conns (fst (tstep h b fr)))) (List.length (t_conns b))
  | _ => false
  end.
Lemma has_refused_b tr : has_refused_large h tr -> existsb is_large_refusedb tr = true.
Proof.
  intros H. apply Exists_exists in H. destruct H as (e & Hin & He). apply existsb_exists. exists e. split; [exact Hin |].
  destruct e; try contradiction. destruct He as [E1 E2]. cbn [is_large_refusedb].
  rewrite (effect_is_spec _ _ E1), E2, Nat.eqb_refl. reflexivity.
Qed.

Fixpoint fo_trace_okb (tr : list tev) : bool :=
  match tr with
  | [] => true
  | e :: older =>
      match e with
      | TDeliver _ fr _ => if effect_is (frame_effect fr) false then existsb is_large_refusedb older else true
      | _ => true
      end && fo_trace_okb older
  end.
Lemma fo_trace_ok_b tr : fo_trace_ok h tr -> fo_trace_okb tr = true.
Proof.
  induction tr as [| e older IH]; [reflexivity |]. cbn [fo_trace_ok fo_trace_okb]. intros [H1 H2].
  rewrite (IH H2), Bool.andb_true_r. destruct e; try reflexivity.
  destruct (effect_is (frame_effect frame) false) eqn:E; [| reflexivity].
  apply has_refused_b. apply H1. destruct (frame_effect frame); try discriminate. cbn in E.
  destruct large; [discriminate | reflexivity].
Qed.
End Check.
