(* Proofs/C09P.v — the headline lemmas of C09, in the exact form Props/C09.v states them.
   The parser is the CIP one ([parse_padded_epath], 32-bit format code 2); that the regenerated
   table of the code agrees with it is [table_f32_cip], by computation on Gen/PathTables.v. *)
From Coq Require Import String.
From PV Require Import Base.Bytes Base.BytesLemmas Base.Proto Base.Res Base.PyStr Gen.PathTables
     Model.Path Spec.EPathParser Proofs.PathStr Proofs.PathSeg Proofs.PathTag.
From Coq Require Import ZifyBool.
Open Scope Z_scope.
Ltac Zify.zify_post_hook ::= Z.to_euclidean_division_equations.

Lemma table_f32_cip : table_f32 = FORMAT_32BIT.
Proof. reflexivity. Qed.

Lemma f32_cip_cases : FORMAT_32BIT = 2 \/ FORMAT_32BIT = 3.
Proof. now left. Qed.

Lemma no_guard l : existsb (seg_guard FORMAT_32BIT) l = false.
Proof. induction l as [|s l IH]; cbn [existsb]; [reflexivity|]. exact IH. Qed.

(* what EPATH.encode(length=True, pad_length) returns for a path body *)
Definition counted (pad_length : bool) (body : list Z) : list Z :=
  len body / 2 :: (if pad_length then [0] else []) ++ body.

(* ---------------------------------------------------------------- logical_ok *)
Lemma logical_ok t lt v :
  assoc_text t spec_ltypes = Some lt -> 0 <= v < 4294967296 ->
  exists bs, encode_seg true (Logical t (LInt v)) = Ok bs /\ Nat.even (length bs) = true
             /\ parse_padded_epath bs = Some [SLogical lt v].
Proof.
  intros Ht Hv.
  assert (Hd : denote (Logical t (LInt v)) = Some (SLogical lt v)).
  { cbn [denote]. rewrite Ht. unfold LOGICAL_LIMIT. now replace ((0 <=? v) && (v <? 4294967296)) with true by lia. }
  destruct (logical_ok_gen FORMAT_32BIT f32_cip_cases t (LInt v) _ Hd (or_introl table_f32_cip))
    as (enc & He & Hp & Hb & Hev).
  exists enc. split; [exact He|]. split; [exact Hev|].
  unfold parse_padded_epath, parse_padded_epath_with. rewrite Hb, Hev. cbn [andb].
  rewrite <- (app_nil_r enc) at 2. change (enc ++ []) with (concat [enc]).
  apply parse_segs_concat; [repeat constructor; exact Hp|]. cbn [concat]. rewrite app_nil_r. lia.
Qed.

(* ---------------------------------------------------------------- epath_ok *)
Lemma epath_total segs ssegs pad_length :
  denote_all segs = Some ssegs ->
  exists body, encode_segs padded_PADDED_EPATH segs = Ok body /\ Nat.even (length body) = true
    /\ parse_padded_epath body = Some ssegs
    /\ epath_encode padded_PADDED_EPATH segs true pad_length
       = (if len body / 2 <=? 255 then Ok (counted pad_length body) else Err DataError)
    /\ (len body / 2 <= 255 -> parse_counted pad_length (counted pad_length body) = Some ssegs).
Proof.
  intros Hd.
  exact (epath_counted_ok FORMAT_32BIT f32_cip_cases segs ssegs pad_length Hd (no_guard segs)).
Qed.

Lemma epath_emitted_ok segs ssegs pad_length out :
  denote_all segs = Some ssegs ->
  epath_encode padded_PADDED_EPATH segs true pad_length = Ok out ->
  exists w body, out = w :: (if pad_length then [0] else []) ++ body /\ len body = 2 * w
                 /\ parse_padded_epath body = Some ssegs /\ parse_counted pad_length out = Some ssegs.
Proof.
  intros Hd Ho. destruct (epath_total segs ssegs pad_length Hd) as (body & _ & Hev & Hp & He & Hc).
  rewrite He in Ho. destruct (len body / 2 <=? 255) eqn:E; [|discriminate]. injection Ho as <-.
  exists (len body / 2), body. split; [reflexivity|]. split.
  - unfold len. apply Nat.even_spec in Hev as [k Hk]. rewrite Hk. lia.
  - split; [exact Hp|]. apply Hc. lia.
Qed.

(* ---------------------------------------------------------------- request_path *)
Lemma logical_format_sizes k f : assoc_z k logical_format = Some f -> k = 1 \/ k = 2 \/ k = 4.
Proof.
  unfold logical_format. cbn [assoc_z].
  destruct (1 =? k) eqn:E1; [lia|]. destruct (2 =? k) eqn:E2; [lia|]. destruct (4 =? k) eqn:E4; [lia|discriminate].
Qed.

Lemma logical_seg_len t v enc : encode_seg true (Logical t v) = Ok enc -> len enc <= 6.
Proof.
  unfold encode_seg, encode_logical, encode_logical_with.
  destruct (assoc_text t logical_types) as [ty|]; [|discriminate].
  destruct (logical_value_bytes v) as [vb|e]; [|discriminate]. cbn [bind].
  destruct (assoc_z (len vb) logical_format) as [f|] eqn:Ef; [|discriminate].
  apply logical_format_sizes in Ef.
  destruct (byte_ok _); [|discriminate]. cbn [wrap_all]. intros H. injection H as <-.
  rewrite len_cons, len_app. destruct (Nat.odd _); [change (len [0]) with 1|change (len []) with 0]; lia.
Qed.

Definition request_reading (c i : Z) (a : option Z) : list sseg :=
  [SLogical 0 c; SLogical 1 i] ++ match a with Some x => [SLogical 4 x] | None => [] end.

Lemma request_path_ok c i a :
  0 <= c < 4294967296 -> 0 <= i < 4294967296 ->
  match a with Some x => 0 < x < 4294967296 | None => True end ->
  exists out, request_path (LInt c) (LInt i) (option_map LInt a) = Ok out
              /\ parse_counted false out = Some (request_reading c i a).
Proof.
  intros Hc Hi Ha. unfold request_path.
  set (segs := request_path_segs (LInt c) (LInt i) (option_map LInt a)).
  assert (Hd : denote_all segs = Some (request_reading c i a)).
  { unfold segs, request_path_segs, request_reading. cbn [app denote_all denote].
    change (assoc_text (txt "class_id") spec_ltypes) with (Some 0).
    change (assoc_text (txt "instance_id") spec_ltypes) with (Some 1). unfold LOGICAL_LIMIT.
    replace ((0 <=? c) && (c <? 4294967296)) with true by lia.
    replace ((0 <=? i) && (i <? 4294967296)) with true by lia.
    destruct a as [x|]; cbn [option_map lval_truthy]; [|reflexivity].
    replace (negb (x =? 0)) with true by lia. cbn [denote_all denote].
    change (assoc_text (txt "attribute_id") spec_ltypes) with (Some 4). unfold LOGICAL_LIMIT.
    now replace ((0 <=? x) && (x <? 4294967296)) with true by lia. }
  destruct (epath_total segs _ false Hd) as (body & He & _ & _ & Henc & Hcnt).
  assert (Hlen : len body <= 18).
  { change padded_PADDED_EPATH with true in He. revert He. unfold segs, request_path_segs.
    assert (Hone : forall t v r b, encode_segs true (Logical t v :: r) = Ok b ->
                   exists e rb, encode_seg true (Logical t v) = Ok e /\ encode_segs true r = Ok rb /\ b = e ++ rb).
    { intros t v r b. cbn [encode_segs]. destruct (encode_seg true (Logical t v)) as [e|]; [|discriminate].
      cbn [bind]. destruct (encode_segs true r) as [rb|]; [|discriminate]. cbn [bind].
      intros H. injection H as <-. now exists e, rb. }
    cbn [app]. intros He. apply Hone in He as (e1 & r1 & H1 & He & ->).
    apply Hone in He as (e2 & r2 & H2 & He & ->).
    apply logical_seg_len in H1, H2. rewrite !len_app.
    destruct a as [x|]; cbn [option_map lval_truthy] in He.
    - destruct (negb (x =? 0)).
      + apply Hone in He as (e3 & r3 & H3 & He & ->). cbn [encode_segs] in He. injection He as <-.
        apply logical_seg_len in H3. rewrite len_app. change (len []) with 0. lia.
      + cbn [encode_segs] in He. injection He as <-. change (len []) with 0. lia.
    - cbn [encode_segs] in He. injection He as <-. change (len []) with 0. lia. }
  exists (counted false body). rewrite Henc.
  destruct (len body / 2 <=? 255) eqn:E; [|lia]. split; [reflexivity|]. apply Hcnt. lia.
Qed.

(* ---------------------------------------------------------------- tag_path_ok *)
Lemma tag_path_ok p inst use :
  wf_tagpath LOGICAL_LIMIT p = true -> wf_instance LOGICAL_LIMIT p inst use = true ->
  exists body, Nat.even (length body) = true
    /\ parse_padded_epath body = Some (tag_reading p inst use)
    /\ tag_request_path (render_tag p) inst use
       = (if len body / 2 <=? 255 then Ok (Some (counted false body)) else Err DataError)
    /\ (len body / 2 <= 255 -> parse_counted false (counted false body) = Some (tag_reading p inst use)).
Proof.
  intros Hwf Hinst.
  exact (tag_path_ok_gen FORMAT_32BIT LOGICAL_LIMIT p inst use f32_cip_cases (Z.le_refl _)
           (or_introl table_f32_cip) Hwf Hinst).
Qed.

(* ---------------------------------------------------------------- route_ok *)
Lemma route_segs hops extra extra_r :
  forallb (wf_hop 65535) hops = true -> denote_all extra = Some extra_r ->
  denote_all (map hop_seg hops ++ extra) = Some (map hop_reading hops ++ extra_r).
Proof. intros Hh He. now rewrite denote_all_app, (denote_hops 65535 hops ltac:(lia) Hh), He. Qed.

Lemma route_total hops extra extra_r pad_length :
  forallb (wf_hop 65535) hops = true -> denote_all extra = Some extra_r ->
  exists body, Nat.even (length body) = true
    /\ parse_padded_epath body = Some (map hop_reading hops ++ extra_r)
    /\ epath_encode padded_PADDED_EPATH (map hop_seg hops ++ extra) true pad_length
       = (if len body / 2 <=? 255 then Ok (counted pad_length body) else Err DataError)
    /\ (len body / 2 <= 255 ->
        parse_counted pad_length (counted pad_length body) = Some (map hop_reading hops ++ extra_r)).
Proof.
  intros Hh He.
  destruct (epath_total _ _ pad_length (route_segs hops extra extra_r Hh He)) as (body & _ & Hev & Hp & Henc & Hc).
  exists body. repeat split; assumption.
Qed.

Lemma route_emitted_ok hops extra extra_r pad_length out :
  forallb (wf_hop 65535) hops = true -> denote_all extra = Some extra_r ->
  epath_encode padded_PADDED_EPATH (map hop_seg hops ++ extra) true pad_length = Ok out ->
  parse_counted pad_length out = Some (map hop_reading hops ++ extra_r).
Proof.
  intros Hh He Ho.
  destruct (epath_emitted_ok _ _ pad_length out (route_segs hops extra extra_r Hh He) Ho) as (w & body & _ & _ & _ & Hc).
  exact Hc.
Qed.
