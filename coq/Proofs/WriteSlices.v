(* Proofs/WriteSlices.v — C02, the request kinds that address ONE element through an ARRAY type class:

     write_correct_element   `arr[i]`, `udts[i]`, `strs[i]`, `udt.arr[j]`, `udts[i].inner[k]` (no `{n}`): the
                             tag_info the driver holds is the ARRAY's (type_class = Array(n0, element)), the
                             value is one scalar / str / dict; encode_value wraps it as [value] and encodes one
                             element (the existing write_correct_value / _string / _struct are stated for a
                             NON-array type class: scalar tags and scalar members);
     write_correct_slice1    the same place written as `...{1}` with a list (any length >= 1: the first item is
                             written, the rest ignored, by the code as by the reference) — the n = 1 boundary
                             that write_correct_array / write_correct_slice (1 < n) leave out.

   Element types: the class Proofs/WriteStruct.ty_guard minus bit strings (integers, REAL, LREAL, strings on
   the standard layout, structures with packed BOOLs / BOOL[32k] members / nested structures); an element of a
   BOOL array is a different place (PlBools: write_correct_bool_element / _bool_slice1).
   The type field of the request is whatever packed_data_type gives for the tag_info, under the two
   hypotheses the target needs: it parses as a type the location matches (instances for elementary and
   structure elements follow the generic statement). *)
From Coq Require Import ZifyBool String.
From PV Require Import Base.Bytes Base.BytesLemmas Base.Res Base.Proto Base.PyStr Model.CodecFloat Model.Path Model.LogixPlan Model.LogixWrite.
From PV Require Import Spec.EncapParser Spec.MRParser Spec.TargetIface Spec.TargetCore Spec.Project Spec.Expect Spec.TargetLogix.
From PV Require Import Proofs.TargetCoreP Proofs.TargetLogixP Proofs.WriteBits Proofs.WriteMsg Proofs.WriteEnc Proofs.WriteCorrect Proofs.WriteFull Proofs.WriteBools Proofs.WriteStruct.
Open Scope Z_scope.
Ltac Zify.zify_post_hook ::= Z.to_euclidean_division_equations.

(* ================================================================ one element through Array.encode(.., 1) *)
Lemma elem1_encode p ty e n0 x rv d lrest :
  ty_guard (depth_fuel p) p ty = true -> is_bits_ty ty = false -> wty_of (depth_fuel p) p ty = Some e ->
  encode_val (depth_fuel p) p ty rv = Some d -> denotes x rv ->
  encode_ty_len (WArray n0 e) (PList (x :: lrest)) 1 = Ok d.
Proof.
  intros Hg Hb Hw He Hx.
  destruct (struct_encoding_spec p (depth_fuel p) ty e rv d x Hg Hw He Hx) as [Hm _].
  unfold encode_ty_len, array_encode. cbn [py_items]. change (1 =? 0) with false. cbv beta iota.
  unfold LogixWrite.zlen. cbn [length].
  replace (Z.of_nat (S (length lrest)) <? 1) with false by lia.
  rewrite (elem_chunk_none (depth_fuel p) p ty e Hg Hb Hw).
  change (Z.to_nat 1) with 1%nat. cbn [firstn map_res]. rewrite Hm. cbn [length].
  change (Z.of_nat 1 <? 1) with false. cbn [wrap_all concat]. rewrite app_nil_r. reflexivity.
Qed.

(* a reference value of a non-bit-string type is not a list, so the Python value denoting it is not a sequence *)
Lemma denotes_not_sequence p f ty x rv d :
  is_bits_ty ty = false -> encode_val f p ty rv = Some d -> denotes x rv -> is_nonstr_sequence x = false.
Proof.
  intros Hb He Hx. destruct f as [|f]; [discriminate|]. cbn [encode_val] in He.
  inversion Hx; subst; try reflexivity. exfalso.
  destruct ty as [c|tid|w]; [| |discriminate].
  - cbn [is_bits_ty] in Hb. unfold encode_atom in He. destruct (atom_size c); [|discriminate]. rewrite Hb in He. discriminate.
  - destruct (find_template (p_templates p) tid) as [t|]; [|discriminate]. destruct (string_shape t) as [[lm dm]|]; discriminate.
Qed.

(* ================================================================ the common tail: packet, message, target *)
Lemma write_tail p m img l (info : tag_info) id tag ui seq path pt tyv d img' s :
  packed_data_type info = Ok pt ->
  (forall rest, parse_wtype (pt ++ rest) = Some (tyv, rest)) -> type_matches p l tyv = true ->
  loc_esize p l = Some s -> w_bit l = None -> 1 <= w_avail l ->
  Expect.blen d = s -> put_bytes img (w_off l) d = Some img' ->
  path_of tag info ui = Ok (Some path) -> 0 <= seq < 65536 ->
  exists pk pk1,
    new_write_packet KWrite seq tag 1 info id ui 0 d = Ok pk
    /\ build_message pk = Ok pk1
    /\ k_message pk1 = le_enc 2 seq ++ [77] ++ path ++ write_data pt 1 d
    /\ svc_write p m img l (write_data pt 1 d)
       = (mem_set m (w_inst l) img', mr_ok [], [EvApp 1 [w_inst l; w_off l; 77] d]).
Proof.
  intros Hpt Hparse Htm Hes Hwb Hav Hl Hput Hpath Hseq.
  assert (Hnew : exists pk, new_write_packet KWrite seq tag 1 info id ui 0 d = Ok pk /\ k_packed_type pk = pt).
  { unfold new_write_packet. rewrite Hpt. eexists. split; reflexivity. }
  destruct Hnew as (pk & Hnew & Hkpt).
  assert (Hel : 0 <= 1 < 65536) by lia.
  destruct (write_message seq tag 1 info id ui d pk path Hnew Hpath Hseq Hel) as (pk1 & Hb & Hmsg & _).
  rewrite Hkpt in Hmsg.
  exists pk, pk1. split; [exact Hnew|]. split; [exact Hb|]. split; [exact Hmsg|].
  rewrite (svc_write_accepts p m img l (write_data pt 1 d) tyv 1 d s).
  - apply (store_at l m img d img' 77 Hwb Hput).
  - unfold write_data. apply Hparse.
  - exact Htm.
  - exact Hes.
  - lia.
  - lia.
  - lia.
Qed.

(* ================================================================ `arr[i]` := value *)
Definition stmt_element : Prop :=
  forall p m r inst off ty dims avail e x rv m_ref img id tag info n0 pt tyv ui seq path,
  ty_guard (depth_fuel p) p ty = true -> is_bits_ty ty = false -> wty_of (depth_fuel p) p ty = Some e ->
  resolve p r = Some (PlData inst off ty dims avail) -> r_bit r = None -> r_count r = None ->
  mem_get m inst = Some img ->
  ti_type info = WArray n0 e -> PyStr.text_eqb (ti_type_name info) n_DWORD = false ->
  packed_data_type info = Ok pt ->
  let l := mkWLoc inst off ty dims avail None in
  (forall rest, parse_wtype (pt ++ rest) = Some (tyv, rest)) -> type_matches p l tyv = true ->
  denotes x rv ->
  ref_write p m r rv = Some m_ref ->
  1 <= avail -> 0 <= seq < 65536 ->
  let q := mkParsed id false tag None 1 None info x in
  path_of tag info ui = Ok (Some path) ->
  exists data pk pk1,
    encode_value q = Ok (data, 1)
    /\ new_write_packet KWrite seq tag 1 info id ui 0 data = Ok pk
    /\ build_message pk = Ok pk1
    /\ k_message pk1 = le_enc 2 seq ++ [77] ++ path ++ write_data pt 1 data
    /\ svc_write p m img l (write_data pt 1 data) = (m_ref, mr_ok [], [EvApp 1 [inst; off; 77] data]).

Theorem write_correct_element : stmt_element.
Proof.
  unfold stmt_element.
  intros p m r inst off ty dims avail e x rv m_ref img id tag info n0 pt tyv ui seq path
         Hg Hbits Hwt Hres Hbit Hcnt Hmem Hty Hnd Hpt Hparse Htm Hx Hw Hav Hseq Hpath.
  set (l := mkWLoc inst off ty dims avail None) in *.
  set (q := mkParsed id false tag None 1 None info x).
  unfold ref_write in Hw. rewrite Hres in Hw. cbn [place_inst] in Hw. rewrite Hmem, Hbit, Hcnt in Hw.
  destruct (write_place p img (PlData inst off ty dims avail) None None rv) as [img'|] eqn:Hwp; [|discriminate].
  injection Hw as <-.
  unfold write_place in Hwp. destruct (base_size p ty) as [s|] eqn:Hs; [|discriminate].
  destruct (encode_val (depth_fuel p) p ty rv) as [d|] eqn:He; [|discriminate].
  destruct (Expect.blen d =? s) eqn:Hl; [|discriminate].
  pose proof (denotes_not_sequence p _ ty x rv d Hbits He Hx) as Hns.
  pose proof (elem1_encode p ty e n0 x rv d [] Hg Hbits Hwt He Hx) as Hm.
  assert (Hev : encode_value q = Ok (d, 1)).
  { unfold encode_value. subst q. cbn [q_value q_elements q_bool_elements q_info q_bit z_or opt_or0].
    destruct x; try discriminate Hns; rewrite Hnd, Hty; cbn [andb negb is_array_ty is_nonstr_sequence]; change (1 <? 1) with false;
      cbv beta iota; rewrite Hm; reflexivity. }
  destruct (write_tail p m img l info id tag ui seq path pt tyv d img' s Hpt Hparse Htm) as (pk & pk1 & T1 & T2 & T3 & T4);
    try assumption; try reflexivity; try (cbn [w_avail l]; lia); try lia.
  exists d, pk, pk1. split; [exact Hev|]. split; [exact T1|]. split; [exact T2|]. split; [exact T3|exact T4].
Qed.

(* ================================================================ `arr[i]{1}` := [value, ...] *)
Definition stmt_slice1 : Prop :=
  forall p m r inst off ty dims avail e l_py vs m_ref img id tag info n0 pt tyv ui seq path,
  ty_guard (depth_fuel p) p ty = true -> is_bits_ty ty = false -> wty_of (depth_fuel p) p ty = Some e ->
  resolve p r = Some (PlData inst off ty dims avail) -> r_bit r = None -> r_count r = Some 1 ->
  mem_get m inst = Some img ->
  ti_type info = WArray n0 e -> PyStr.text_eqb (ti_type_name info) n_DWORD = false ->
  packed_data_type info = Ok pt ->
  let l := mkWLoc inst off ty dims avail None in
  (forall rest, parse_wtype (pt ++ rest) = Some (tyv, rest)) -> type_matches p l tyv = true ->
  Forall2 denotes l_py vs ->
  ref_write p m r (RList vs) = Some m_ref ->
  0 <= seq < 65536 ->
  let q := mkParsed id false tag None 1 None info (PList l_py) in
  path_of tag info ui = Ok (Some path) ->
  exists data pk pk1,
    encode_value q = Ok (data, 1)
    /\ new_write_packet KWrite seq tag 1 info id ui 0 data = Ok pk
    /\ build_message pk = Ok pk1
    /\ k_message pk1 = le_enc 2 seq ++ [77] ++ path ++ write_data pt 1 data
    /\ svc_write p m img l (write_data pt 1 data) = (m_ref, mr_ok [], [EvApp 1 [inst; off; 77] data]).

Theorem write_correct_slice1 : stmt_slice1.
Proof.
  unfold stmt_slice1.
  intros p m r inst off ty dims avail e l_py vs m_ref img id tag info n0 pt tyv ui seq path
         Hg Hbits Hwt Hres Hbit Hcnt Hmem Hty Hnd Hpt Hparse Htm H2 Hw Hseq Hpath.
  set (l := mkWLoc inst off ty dims avail None) in *.
  set (q := mkParsed id false tag None 1 None info (PList l_py)).
  unfold ref_write in Hw. rewrite Hres in Hw. cbn [place_inst] in Hw. rewrite Hmem, Hbit, Hcnt in Hw.
  destruct (write_place p img (PlData inst off ty dims avail) None (Some 1) (RList vs)) as [img'|] eqn:Hwp; [|discriminate].
  injection Hw as <-.
  unfold write_place in Hwp. destruct (base_size p ty) as [s|] eqn:Hs; [|discriminate].
  destruct ((1 <=? 1) && (1 <=? avail)) eqn:Hav; [|discriminate]. rewrite Hbits in Hwp.
  unfold take_values in Hwp. destruct (1 <=? Z.of_nat (length vs)) eqn:Hlen; [|discriminate].
  destruct H2 as [|x rv lrest vrest Hx Hrest]; [cbn in Hlen; discriminate|].
  change (Z.to_nat 1) with 1%nat in Hwp. cbn [firstn] in Hwp.
  unfold encode_array_with in Hwp. rewrite Hbits in Hwp. cbn [length map all_some] in Hwp.
  change (Z.of_nat 1 =? 1) with true in Hwp. cbv beta iota in Hwp.
  destruct (encode_val (depth_fuel p) p ty rv) as [d|] eqn:He; [|discriminate].
  cbn [forallb concat] in Hwp. rewrite app_nil_r in Hwp.
  destruct (Expect.blen d =? s) eqn:Hl; cbn [andb] in Hwp; [|discriminate].
  destruct (Expect.blen d =? s * 1) eqn:Hl1; [|discriminate].
  pose proof (elem1_encode p ty e n0 x rv d lrest Hg Hbits Hwt He Hx) as Hm.
  assert (Hev : encode_value q = Ok (d, 1)).
  { unfold encode_value. subst q. cbn [q_value q_elements q_bool_elements q_info q_bit z_or opt_or0].
    rewrite Hnd, Hty. cbn [andb is_array_ty is_nonstr_sequence]. change (1 <? 1) with false. cbv beta iota.
    rewrite Hm. reflexivity. }
  destruct (write_tail p m img l info id tag ui seq path pt tyv d img' s Hpt Hparse Htm) as (pk & pk1 & T1 & T2 & T3 & T4);
    try assumption; try reflexivity; try (cbn [w_avail l]; lia); try lia.
  exists d, pk, pk1. split; [exact Hev|]. split; [exact T1|]. split; [exact T2|]. split; [exact T3|exact T4].
Qed.

(* ================================================================ the two instances of the type field *)
(* an element of an array of integers / REALs / LREALs: tag_info of an atomic array *)
Corollary write_correct_element_atom p m r inst off c dims avail name x rv m_ref img id tag n0 tyh inst_id ui seq path :
  resolve p r = Some (PlData inst off (BAtom c) dims avail) -> r_bit r = None -> r_count r = None ->
  mem_get m inst = Some img ->
  atom_name c = Some name -> value_atom c = true ->
  denotes x rv -> ref_write p m r rv = Some m_ref -> 1 <= avail -> 0 <= seq < 65536 ->
  let info := mkInfo false name (WArray n0 (WElem name)) tyh inst_id in
  let q := mkParsed id false tag None 1 None info x in
  let l := mkWLoc inst off (BAtom c) dims avail None in
  path_of tag info ui = Ok (Some path) ->
  exists data pk pk1,
    encode_value q = Ok (data, 1)
    /\ new_write_packet KWrite seq tag 1 info id ui 0 data = Ok pk
    /\ build_message pk = Ok pk1
    /\ k_message pk1 = le_enc 2 seq ++ [77] ++ path ++ write_data (le_enc 2 c) 1 data
    /\ svc_write p m img l (write_data (le_enc 2 c) 1 data) = (m_ref, mr_ok [], [EvApp 1 [inst; off; 77] data]).
Proof.
  intros Hres Hbit Hcnt Hmem Hn Hv Hx Hw Hav Hseq info q l Hpath.
  destruct (packed_type_atom c name (WArray n0 (WElem name)) tyh inst_id Hn Hv) as (Hpt & Hc & Hc160).
  assert (Hnd : PyStr.text_eqb name n_DWORD = false).
  { destruct (atom_name_cases c name Hn Hv) as [[-> | [-> | [-> | ->]]] | [[-> | [-> | [-> | ->]]] | [-> | ->]]];
    cbn in Hn; injection Hn as <-; reflexivity. }
  assert (Hb : is_bits_ty (BAtom c) = false).
  { cbn [is_bits_ty]. unfold value_atom, atom_signed, atom_unsigned, atom_bits, C_REAL, C_LREAL, C_SINT, C_INT, C_DINT, C_LINT,
      C_USINT, C_UINT, C_UDINT, C_ULINT, C_BYTE, C_WORD, C_DWORD, C_LWORD in *. lia. }
  apply (write_correct_element p m r inst off (BAtom c) dims avail (WElem name) x rv m_ref img id tag info n0 (le_enc 2 c) (inl c) ui seq path);
    try assumption; try reflexivity.
  - unfold depth_fuel. cbn [ty_guard]. rewrite Hv. reflexivity.
  - unfold depth_fuel. cbn [wty_of]. rewrite Hn. reflexivity.
  - intros rest. apply parse_wtype_atom; assumption.
  - cbn [type_matches w_ty]. apply Z.eqb_refl.
Qed.

(* an element of an array of structures / strings *)
Corollary write_correct_element_struct p m r inst off tid dims avail t e x rv m_ref img id tag n0 inst_id ui seq path :
  ty_guard (depth_fuel p) p (BStruct tid) = true -> wty_of (depth_fuel p) p (BStruct tid) = Some e ->
  resolve p r = Some (PlData inst off (BStruct tid) dims avail) -> r_bit r = None -> r_count r = None ->
  mem_get m inst = Some img ->
  find_template (p_templates p) tid = Some t -> 0 <= t_handle t < 65536 -> PyStr.text_eqb (t_name t) n_DWORD = false ->
  denotes x rv -> ref_write p m r rv = Some m_ref -> 1 <= avail -> 0 <= seq < 65536 ->
  let info := mkInfo true (t_name t) (WArray n0 e) (t_handle t) inst_id in
  let q := mkParsed id false tag None 1 None info x in
  let l := mkWLoc inst off (BStruct tid) dims avail None in
  path_of tag info ui = Ok (Some path) ->
  exists data pk pk1,
    encode_value q = Ok (data, 1)
    /\ new_write_packet KWrite seq tag 1 info id ui 0 data = Ok pk
    /\ build_message pk = Ok pk1
    /\ k_message pk1 = le_enc 2 seq ++ [77] ++ path ++ write_data (160 :: 2 :: le_enc 2 (t_handle t)) 1 data
    /\ svc_write p m img l (write_data (160 :: 2 :: le_enc 2 (t_handle t)) 1 data) = (m_ref, mr_ok [], [EvApp 1 [inst; off; 77] data]).
Proof.
  intros Hg Hwt Hres Hbit Hcnt Hmem Hft Hh Hnd Hx Hw Hav Hseq info q l Hpath.
  pose proof (packed_type_struct (t_name t) (WArray n0 e) (t_handle t) inst_id Hh) as Hpt.
  apply (write_correct_element p m r inst off (BStruct tid) dims avail e x rv m_ref img id tag info n0
           (160 :: 2 :: le_enc 2 (t_handle t)) (inr (t_handle t)) ui seq path);
    try assumption; try reflexivity.
  - intros rest. cbn [app]. apply parse_wtype_struct, Hh.
  - cbn [type_matches w_ty]. rewrite Hft. apply Z.eqb_refl.
Qed.

(* `{1}` instances *)
Corollary write_correct_slice1_atom p m r inst off c dims avail name l_py vs m_ref img id tag n0 tyh inst_id ui seq path :
  resolve p r = Some (PlData inst off (BAtom c) dims avail) -> r_bit r = None -> r_count r = Some 1 ->
  mem_get m inst = Some img ->
  atom_name c = Some name -> value_atom c = true ->
  Forall2 denotes l_py vs -> ref_write p m r (RList vs) = Some m_ref -> 0 <= seq < 65536 ->
  let info := mkInfo false name (WArray n0 (WElem name)) tyh inst_id in
  let q := mkParsed id false tag None 1 None info (PList l_py) in
  let l := mkWLoc inst off (BAtom c) dims avail None in
  path_of tag info ui = Ok (Some path) ->
  exists data pk pk1,
    encode_value q = Ok (data, 1)
    /\ new_write_packet KWrite seq tag 1 info id ui 0 data = Ok pk
    /\ build_message pk = Ok pk1
    /\ k_message pk1 = le_enc 2 seq ++ [77] ++ path ++ write_data (le_enc 2 c) 1 data
    /\ svc_write p m img l (write_data (le_enc 2 c) 1 data) = (m_ref, mr_ok [], [EvApp 1 [inst; off; 77] data]).
Proof.
  intros Hres Hbit Hcnt Hmem Hn Hv H2 Hw Hseq info q l Hpath.
  destruct (packed_type_atom c name (WArray n0 (WElem name)) tyh inst_id Hn Hv) as (Hpt & Hc & Hc160).
  assert (Hnd : PyStr.text_eqb name n_DWORD = false).
  { destruct (atom_name_cases c name Hn Hv) as [[-> | [-> | [-> | ->]]] | [[-> | [-> | [-> | ->]]] | [-> | ->]]];
    cbn in Hn; injection Hn as <-; reflexivity. }
  assert (Hb : is_bits_ty (BAtom c) = false).
  { cbn [is_bits_ty]. unfold value_atom, atom_signed, atom_unsigned, atom_bits, C_REAL, C_LREAL, C_SINT, C_INT, C_DINT, C_LINT,
      C_USINT, C_UINT, C_UDINT, C_ULINT, C_BYTE, C_WORD, C_DWORD, C_LWORD in *. lia. }
  apply (write_correct_slice1 p m r inst off (BAtom c) dims avail (WElem name) l_py vs m_ref img id tag info n0 (le_enc 2 c) (inl c) ui seq path);
    try assumption; try reflexivity.
  - unfold depth_fuel. cbn [ty_guard]. rewrite Hv. reflexivity.
  - unfold depth_fuel. cbn [wty_of]. rewrite Hn. reflexivity.
  - intros rest. apply parse_wtype_atom; assumption.
  - cbn [type_matches w_ty]. apply Z.eqb_refl.
Qed.

Corollary write_correct_slice1_struct p m r inst off tid dims avail t e l_py vs m_ref img id tag n0 inst_id ui seq path :
  ty_guard (depth_fuel p) p (BStruct tid) = true -> wty_of (depth_fuel p) p (BStruct tid) = Some e ->
  resolve p r = Some (PlData inst off (BStruct tid) dims avail) -> r_bit r = None -> r_count r = Some 1 ->
  mem_get m inst = Some img ->
  find_template (p_templates p) tid = Some t -> 0 <= t_handle t < 65536 -> PyStr.text_eqb (t_name t) n_DWORD = false ->
  Forall2 denotes l_py vs -> ref_write p m r (RList vs) = Some m_ref -> 0 <= seq < 65536 ->
  let info := mkInfo true (t_name t) (WArray n0 e) (t_handle t) inst_id in
  let q := mkParsed id false tag None 1 None info (PList l_py) in
  let l := mkWLoc inst off (BStruct tid) dims avail None in
  path_of tag info ui = Ok (Some path) ->
  exists data pk pk1,
    encode_value q = Ok (data, 1)
    /\ new_write_packet KWrite seq tag 1 info id ui 0 data = Ok pk
    /\ build_message pk = Ok pk1
    /\ k_message pk1 = le_enc 2 seq ++ [77] ++ path ++ write_data (160 :: 2 :: le_enc 2 (t_handle t)) 1 data
    /\ svc_write p m img l (write_data (160 :: 2 :: le_enc 2 (t_handle t)) 1 data) = (m_ref, mr_ok [], [EvApp 1 [inst; off; 77] data]).
Proof.
  intros Hg Hwt Hres Hbit Hcnt Hmem Hft Hh Hnd H2 Hw Hseq info q l Hpath.
  pose proof (packed_type_struct (t_name t) (WArray n0 e) (t_handle t) inst_id Hh) as Hpt.
  apply (write_correct_slice1 p m r inst off (BStruct tid) dims avail e l_py vs m_ref img id tag info n0
           (160 :: 2 :: le_enc 2 (t_handle t)) (inr (t_handle t)) ui seq path);
    try assumption; try reflexivity.
  - intros rest. cbn [app]. apply parse_wtype_struct, Hh.
  - cbn [type_matches w_ty]. rewrite Hft. apply Z.eqb_refl.
Qed.

(* ================================================================ hand checks / non-vacuity on a concrete project *)
(* udtMix (hidden SINT host with two BOOLs, INT, DINT[2]; Proofs/WriteFull.ex_udt), a string type, a structure
   with a string member; tags: mix : udtMix, mixes : udtMix[3], us : udtS *)
Definition ex_str8 : template :=
  mkTemplate (zs "STR8") None 3000 4000 12 0
    [ mkMember (zs "LEN") (BAtom C_DINT) 0 0 0 false;
      mkMember (zs "DATA") (BAtom C_SINT) 8 4 0 false ].
Definition ex_udts : template :=
  mkTemplate (zs "udtS") None 3001 4001 16 0
    [ mkMember (zs "Name") (BStruct 3000) 0 0 0 false;
      mkMember (zs "N") (BAtom C_DINT) 0 12 0 false ].
Definition ex2_proj : project :=
  mkProject [ex_udt; ex_str8; ex_udts]
    [ mkTag (zs "mix") 9 ScCtrl (BStruct 672) [] 0 false 0 0 0 0;
      mkTag (zs "mixes") 11 ScCtrl (BStruct 672) [3] 0 false 0 0 0 0;
      mkTag (zs "us") 13 ScCtrl (BStruct 3001) [] 0 false 0 0 0 0 ].
Definition ex2_img9 : bytes := map (fun k => 200 + k) (map Z.of_nat (seq 0 12)).
Definition ex2_img11 : bytes := map (fun k => 100 + k) (map Z.of_nat (seq 0 36)).
Definition ex2_img13 : bytes := map Z.of_nat (seq 0 16).
Definition ex2_mem : mem := [(9, ex2_img9); (11, ex2_img11); (13, ex2_img13)].
Definition ex2_rv : rvalue :=
  RStruct [(zs "bRun", RBool true); (zs "bFault", RBool false); (zs "Count", RInt (-2)); (zs "Vals", RList [RInt 1; RInt (-1)])].
Definition ex2_ty : option wty := Eval vm_compute in wty_of (depth_fuel ex2_proj) ex2_proj (BStruct 672).
Definition ex2_enc : bytes := [1; 0; 254; 255; 1; 0; 0; 0; 255; 255; 255; 255].

Lemma ex2_denotes : denotes (py_of ex2_rv) ex2_rv.
Proof. cbv [py_of ex2_rv]. repeat (constructor; cbn [fst snd]). Qed.

(* `mixes[1]` := dict — an element of an array of structures; bytes 12..23 of instance 11 *)
Example ex_element_struct :
  let r := mkReq None [mkSeg (zs "mixes") [1]] None None in
  match ex2_ty with
  | None => False
  | Some e =>
    let info := mkInfo true (zs "udtMix") (WArray 3 e) 17185 (Some 11) in
    let q := mkParsed 0 false (zs "mixes[1]") None 1 None info (py_of ex2_rv) in
    wf_project ex2_proj = true /\ wf_mem ex2_proj ex2_mem = true
    /\ ty_guard (depth_fuel ex2_proj) ex2_proj (BStruct 672) = true
    /\ wty_of (depth_fuel ex2_proj) ex2_proj (BStruct 672) = Some e
    /\ resolve ex2_proj r = Some (PlData 11 12 (BStruct 672) [] 2)
    /\ ref_write ex2_proj ex2_mem r ex2_rv
       = Some [(9, ex2_img9); (11, firstn 12 ex2_img11 ++ ex2_enc ++ skipn 24 ex2_img11); (13, ex2_img13)]
    /\ encode_value q = Ok (ex2_enc, 1)
    /\ path_of (zs "mixes[1]") info false = Ok (Some [5; 145; 5; 109; 105; 120; 101; 115; 0; 40; 1])
    /\ svc_write ex2_proj ex2_mem ex2_img11 (mkWLoc 11 12 (BStruct 672) [] 2 None) (write_data (160 :: 2 :: le_enc 2 17185) 1 ex2_enc)
       = ([(9, ex2_img9); (11, firstn 12 ex2_img11 ++ ex2_enc ++ skipn 24 ex2_img11); (13, ex2_img13)], mr_ok [], [EvApp 1 [11; 12; 77] ex2_enc])
  end.
Proof. vm_compute. repeat split; reflexivity. Qed.

(* `mixes[2]{1}` := [dict, dict] — the first item is written, the second ignored *)
Example ex_slice1_struct :
  let r := mkReq None [mkSeg (zs "mixes") [2]] None (Some 1) in
  match ex2_ty with
  | None => False
  | Some e =>
    let info := mkInfo true (zs "udtMix") (WArray 3 e) 17185 (Some 11) in
    let q := mkParsed 0 false (zs "mixes[2]") None 1 None info (PList [py_of ex2_rv; PInt 5]) in
    resolve ex2_proj r = Some (PlData 11 24 (BStruct 672) [] 1)
    /\ ref_write ex2_proj ex2_mem r (RList [ex2_rv; RInt 5])
       = Some [(9, ex2_img9); (11, firstn 24 ex2_img11 ++ ex2_enc); (13, ex2_img13)]
    /\ encode_value q = Ok (ex2_enc, 1)
    /\ svc_write ex2_proj ex2_mem ex2_img11 (mkWLoc 11 24 (BStruct 672) [] 1 None) (write_data (160 :: 2 :: le_enc 2 17185) 1 ex2_enc)
       = ([(9, ex2_img9); (11, firstn 24 ex2_img11 ++ ex2_enc); (13, ex2_img13)], mr_ok [], [EvApp 1 [11; 24; 77] ex2_enc])
  end.
Proof. vm_compute. repeat split; reflexivity. Qed.

(* member paths.  `mix.Vals[1]` := 7: an element of an ARRAY MEMBER (tag_info = the member's Array(2, DINT));
   `mixes[1].Count` := -2 and `us.Name` := "ABC": scalar members (the places of write_correct_value / _string) *)
Example ex_member_paths :
  let r3 := mkReq None [mkSeg (zs "mix") []; mkSeg (zs "Vals") [1]] None None in
  let r4 := mkReq None [mkSeg (zs "mixes") [1]; mkSeg (zs "Count") []] None None in
  let r5 := mkReq None [mkSeg (zs "us") []; mkSeg (zs "Name") []] None None in
  let info3 := mkInfo false (zs "DINT") (WArray 2 (WElem (zs "DINT"))) 0 None in
  let q3 := mkParsed 0 false (zs "mix.Vals[1]") None 1 None info3 (PInt 7) in
  resolve ex2_proj r3 = Some (PlData 9 8 (BAtom C_DINT) [] 1)
  /\ ref_write ex2_proj ex2_mem r3 (RInt 7) = Some [(9, firstn 8 ex2_img9 ++ [7; 0; 0; 0]); (11, ex2_img11); (13, ex2_img13)]
  /\ encode_value q3 = Ok ([7; 0; 0; 0], 1)
  /\ path_of (zs "mix.Vals[1]") info3 false = Ok (Some [7; 145; 3; 109; 105; 120; 0; 145; 4; 86; 97; 108; 115; 40; 1])
  /\ svc_write ex2_proj ex2_mem ex2_img9 (mkWLoc 9 8 (BAtom C_DINT) [] 1 None) (write_data (le_enc 2 C_DINT) 1 [7; 0; 0; 0])
     = ([(9, firstn 8 ex2_img9 ++ [7; 0; 0; 0]); (11, ex2_img11); (13, ex2_img13)], mr_ok [], [EvApp 1 [9; 8; 77] [7; 0; 0; 0]])
  /\ resolve ex2_proj r4 = Some (PlData 11 14 (BAtom C_INT) [] 1)
  /\ ref_write ex2_proj ex2_mem r4 (RInt (-2))
     = Some [(9, ex2_img9); (11, firstn 14 ex2_img11 ++ [254; 255] ++ skipn 16 ex2_img11); (13, ex2_img13)]
  /\ resolve ex2_proj r5 = Some (PlData 13 0 (BStruct 3000) [] 1)
  /\ ref_write ex2_proj ex2_mem r5 (RStr [65; 66; 67])
     = Some [(9, ex2_img9); (11, ex2_img11); (13, [3; 0; 0; 0; 65; 66; 67; 0; 0; 0; 0; 0; 12; 13; 14; 15])].
Proof. vm_compute. repeat split; reflexivity. Qed.
