(* Proofs/EncapP.v — C11, frame level: what build_request of every request class produces is the
   spec-side frame [mk_frame] of Spec/EncapParser.v, which the strict parser reads back
   ([parse_mk_frame], Proofs/TargetCoreP.v); the connected data item starts with the sequence count;
   build_message is assembled once for the classes whose _setup_message sets the flag, and is NOT
   for RegisterSession. *)
From Coq Require Import ZifyBool.
From PV Require Import Base.Bytes Base.BytesLemmas Base.Res Model.EncapDefs Gen.EncapGen Model.Encap
                       Spec.EncapParser Proofs.TargetCoreP.
Open Scope Z_scope.
Ltac Zify.zify_post_hook ::= Z.to_euclidean_division_equations.

(* ================================================================ spec side: the frame each class must produce *)
Definition cmd_of (k : kind) : Z :=
  match k with
  | KSendUnit => CMD_UNITDATA | KSendRR => CMD_RRDATA | KRegister => CMD_REGISTER
  | KUnRegister => CMD_UNREGISTER | KListIdentity => CMD_LIST_IDENTITY
  end.

Definition body_of (k : kind) (seq : Z) (cid : bytes) (msg : bytes) : fbody :=
  match k with
  | KSendUnit => BCpf 10 (AddrConn (le_dec cid)) ITEM_CONN_DATA (le_enc 2 seq ++ msg)
  | KSendRR => BCpf 10 AddrNull ITEM_UNCONN_DATA msg
  | KRegister => BRegister
  | KUnRegister | KListIdentity => BEmpty
  end.

Definition frame_of (k : kind) (seq : Z) (cid : bytes) (msg : bytes) (sess : Z) (ctx : bytes) : frame :=
  {| f_cmd := cmd_of k; f_session := sess; f_context := ctx; f_body := body_of k seq cid msg |}.

(* number of bytes after the header *)
Definition common_len (k : kind) (msg : bytes) : Z :=
  match k with
  | KSendUnit => 22 + zlen msg
  | KSendRR => 16 + zlen msg
  | KRegister => 4
  | _ => 0
  end.

(* the request object the driver builds: class k, sequence count seq (SendUnitData), the driver's
   protocol version (RegisterSession), message body = the chunks [body] *)
Definition request (k : kind) (seq : Z) (body : list bytes) : packet :=
  add (new_packet k (PInt seq) (PBytes CFG_PROTOCOL_VERSION) (PBytes REGISTER_OPTION_FLAGS_DEFAULT)) (map PBytes body).

(* the same with the constructor arguments a class does not look at left arbitrary (the driver passes
   no sequence to the unconnected classes, no protocol version to any class but RegisterSession) *)
Definition request_gen (k : kind) (sq pver flags : pv) (body : list bytes) : packet :=
  add (new_packet k sq pver flags) (map PBytes body).
Definition args_for (k : kind) (seq : Z) (sq pver flags : pv) : Prop :=
  (k = KSendUnit -> sq = PInt seq)
  /\ (k = KRegister -> pver = PBytes CFG_PROTOCOL_VERSION /\ flags = PBytes REGISTER_OPTION_FLAGS_DEFAULT).
Lemma args_for_request k seq : args_for k seq (PInt seq) (PBytes CFG_PROTOCOL_VERSION) (PBytes REGISTER_OPTION_FLAGS_DEFAULT).
Proof. split; intros _; repeat split. Qed.

Definition all_bytes_ok (body : list bytes) : bool := forallb bytes_ok body.

(* ================================================================ small facts *)
Lemma zlen_blen (b : bytes) : zlen b = blen b.
Proof. reflexivity. Qed.

Lemma enc_uint_ok w z : 0 <= z < pow256 w -> enc_uint w (PInt z) = Ok (le_enc w z).
Proof. intros H. unfold enc_uint, in_urange. destruct ((0 <=? z) && (z <? pow256 w)) eqn:E; [reflexivity | lia]. Qed.

Lemma pow256_2 : pow256 2 = 65536.
Proof. reflexivity. Qed.
Lemma pow256_4 : pow256 4 = 4294967296.
Proof. reflexivity. Qed.

Lemma join_bytes (body : list bytes) : join (map PBytes body) = Ok (concat body).
Proof. induction body as [| b r IH]; cbn [map join concat]; [reflexivity |]. rewrite IH. reflexivity. Qed.

Lemma join_cons_bytes b (l : list pv) : join (PBytes b :: l) = (let* t := join l in Ok (b ++ t)).
Proof. reflexivity. Qed.

Lemma concat_ok (body : list bytes) : all_bytes_ok body = true -> bytes_ok (concat body) = true.
Proof.
  unfold all_bytes_ok. induction body as [| b r IH]; cbn [forallb concat]; intros H; [reflexivity |].
  apply andb_true_iff in H as [Hb Hr]. rewrite bytes_ok_app, Hb, (IH Hr). reflexivity.
Qed.

Lemma length4 (l : bytes) : length l = 4%nat -> exists a b c d, l = [a; b; c; d].
Proof.
  intros H. do 4 (destruct l as [| ? l]; [cbn in H; lia |]). destruct l; [| cbn in H; lia]. now do 4 eexists.
Qed.

(* ================================================================ the two builders on well-typed arguments *)
Lemma build_header_ok (cmd : bytes) (len sess : Z) (ctx : bytes) :
  0 <= len < 65536 -> 0 <= sess < 4294967296 ->
  build_header {| ha_command := PBytes cmd; ha_length := PInt len; ha_session := PInt sess;
                  ha_context := PBytes ctx; ha_option := PInt CFG_OPTION |}
  = Ok (cmd ++ le_enc 2 len ++ le_enc 4 sess ++ [0; 0; 0; 0] ++ ctx ++ le_enc 4 0).
Proof.
  intros Hl Hs. unfold build_header, header_layout, header_wrap.
  cbn [map hfield_eval harg_val ha_command ha_length ha_session ha_context ha_option].
  rewrite (enc_uint_ok 2 len) by (rewrite pow256_2; lia).
  rewrite (enc_uint_ok 4 sess) by (rewrite pow256_4; lia).
  unfold CFG_OPTION. rewrite (enc_uint_ok 4 0) by (rewrite pow256_4; lia).
  cbn [bind eval_all join wrap_all]. rewrite app_nil_r. reflexivity.
Qed.

Lemma base_cpf_conn (msg cid : bytes) :
  length cid = 4%nat -> zlen msg < 65536 ->
  base_cpf cls_SendUnitData msg (PBytes cid)
  = Ok (mk_cpf 10 (AddrConn (le_dec cid)) ITEM_CONN_DATA msg) \/ bytes_ok cid = false.
Proof.
  intros Hc Hm. destruct (bytes_ok cid) eqn:Hok; [left | now right].
  unfold base_cpf, addr_data_of, ADDR_LEN_SIZE.
  assert (zlen cid = 4) as Hz by (unfold zlen; lia).
  rewrite Hz, (enc_uint_ok 2 4) by (rewrite pow256_2; lia).
  cbn [bind]. unfold cpf_layout.
  cbn [map cfield_eval cattr_val cls_SendUnitData pc_timeout pc_address_type pc_message_type pv_of_opt].
  pose proof (Nat2Z.is_nonneg (length msg)) as Hn.
  rewrite (enc_uint_ok 2 (zlen msg)) by (rewrite pow256_2; unfold zlen in *; lia).
  cbn [bind eval_all join]. rewrite app_nil_r.
  unfold mk_cpf, addr_bytes.
  replace (le_enc 4 (le_dec cid)) with cid by (symmetry; rewrite <- Hc; apply le_enc_dec; exact Hok).
  reflexivity.
Qed.

Lemma base_cpf_null (c : pclass) (msg : bytes) :
  pc_timeout c = Some [10; 0] -> pc_address_type c = Some [0; 0] -> pc_message_type c = Some [178; 0] ->
  zlen msg < 65536 ->
  base_cpf c msg PNone = Ok (mk_cpf 10 AddrNull ITEM_UNCONN_DATA msg).
Proof.
  intros Ht Ha Hm Hl. unfold base_cpf, addr_data_of, ADDR_DATA_NONE. cbn [bind]. unfold cpf_layout.
  cbn [map cfield_eval cattr_val]. rewrite Ht, Ha, Hm. cbn [pv_of_opt].
  pose proof (Nat2Z.is_nonneg (length msg)) as Hn.
  rewrite (enc_uint_ok 2 (zlen msg)) by (rewrite pow256_2; unfold zlen in *; lia).
  cbn [bind eval_all join]. rewrite app_nil_r. reflexivity.
Qed.

(* ================================================================ build_message of a fresh request *)
Definition message_of (k : kind) (seq : Z) (body : list bytes) : bytes :=
  match k with
  | KSendUnit => le_enc 2 seq ++ concat body
  | KRegister => CFG_PROTOCOL_VERSION ++ REGISTER_OPTION_FLAGS_DEFAULT ++ concat body
  | _ => concat body
  end.

Ltac simp_pkt :=
  cbv [with_msg with_setup with_added with_message p_msg p_added p_kind p_sequence p_protocol_version
       p_option_flags p_msg_setup p_message class_of pc_setup pc_cpf pc_command
       cls_SendUnitData cls_SendRRData cls_RegisterSession cls_UnRegisterSession cls_ListIdentity negb];
  cbn [app].

Lemma build_message_fresh_gen k seq sq pver flags body :
  0 <= seq < 65536 -> args_for k seq sq pver flags ->
  exists p1, build_message (request_gen k sq pver flags body) = (p1, Ok (message_of k seq body)) /\ p_kind p1 = k
             /\ p_message p1 = message_of k seq body
             /\ p_msg_setup p1 = (match k with KRegister => false | _ => true end).
Proof.
  intros Hs [Hu Hr]. unfold build_message, request_gen, add, new_packet, setup_message.
  destruct k; try (rewrite (Hu eq_refl)); try (destruct (Hr eq_refl) as [-> ->]);
    simp_pkt; rewrite ?(enc_uint_ok 2 seq) by (rewrite pow256_2; lia);
    unfold finish_message; simp_pkt; rewrite ?join_cons_bytes, join_bytes; cbn [bind];
    eexists; repeat split; reflexivity.
Qed.

Lemma build_message_fresh k seq body :
  0 <= seq < 65536 ->
  exists p1, build_message (request k seq body) = (p1, Ok (message_of k seq body)) /\ p_kind p1 = k
             /\ p_message p1 = message_of k seq body
             /\ p_msg_setup p1 = (match k with KRegister => false | _ => true end).
Proof. intros Hs. exact (build_message_fresh_gen k seq _ _ _ body Hs (args_for_request k seq)). Qed.

(* ================================================================ frame_ok *)
Lemma mk_frame_unfold f :
  mk_frame f = le_enc 2 (f_cmd f) ++ le_enc 2 (blen (body_bytes (f_body f))) ++ le_enc 4 (f_session f)
               ++ [0; 0; 0; 0] ++ f_context f ++ le_enc 4 0 ++ body_bytes (f_body f).
Proof. unfold mk_frame, mk_header. rewrite <- !app_assoc. reflexivity. Qed.

(* what build_request returns is the spec-side frame; [target] is whatever the driver holds in
   _target_cid — only SendUnitData looks at it *)
Lemma build_request_is_mk_frame_gen k seq sq pver flags body (target : pv) cid sess ctx :
  0 <= seq < 65536 -> args_for k seq sq pver flags -> 0 <= sess < 4294967296 ->
  (k = KSendUnit -> target = PBytes cid /\ length cid = 4%nat /\ bytes_ok cid = true) ->
  (k = KRegister -> concat body = []) ->
  common_len k (concat body) < 65536 ->
  exists p1, build_request (request_gen k sq pver flags body) target (PInt sess) (PBytes ctx) (PInt CFG_OPTION)
             = (p1, Ok (mk_frame (frame_of k seq cid (concat body) sess ctx))).
Proof.
  intros Hseq Hargs Hsess Hunit Hreg Hlen.
  destruct (build_message_fresh_gen k seq sq pver flags body Hseq Hargs) as (p1 & Hbm & Hk & _ & _).
  unfold build_request. rewrite Hbm, Hk. exists p1. f_equal.
  pose proof (Nat2Z.is_nonneg (length (concat body))) as Hn.
  rewrite mk_frame_unfold. unfold frame_of. cbn [f_cmd f_session f_context f_body].
  destruct k; cbn [message_of common_len] in *; unfold build_common_packet_format;
    cbn [class_of pc_cpf pc_command cls_SendUnitData cls_SendRRData cls_RegisterSession cls_UnRegisterSession
         cls_ListIdentity pv_of_opt body_of cmd_of body_bytes].
  - destruct (Hunit eq_refl) as (-> & Hc & Hok).
    assert (zlen (le_enc 2 seq ++ concat body) = 2 + zlen (concat body)) as Hz
      by (unfold zlen; rewrite app_length, le_enc_length; lia).
    destruct (base_cpf_conn (le_enc 2 seq ++ concat body) cid Hc) as [-> | Hbad]; [lia | | congruence].
    cbn [bind].
    assert (zlen (mk_cpf 10 (AddrConn (le_dec cid)) ITEM_CONN_DATA (le_enc 2 seq ++ concat body)) = 22 + zlen (concat body)) as Hb.
    { change zlen with blen. unfold mk_cpf, addr_bytes. rewrite !blen_app, !blen_le_enc. unfold blen. cbn [length]. lia. }
    unfold zlen in *. rewrite build_header_ok by (rewrite ?Hb; lia). cbn [bind]. rewrite <- !app_assoc. reflexivity.
  - rewrite base_cpf_null by (try reflexivity; lia). cbn [bind].
    assert (zlen (mk_cpf 10 AddrNull ITEM_UNCONN_DATA (concat body)) = 16 + zlen (concat body)) as Hb.
    { change zlen with blen. unfold mk_cpf, addr_bytes. rewrite !blen_app, !blen_le_enc. unfold blen. cbn [length]. lia. }
    unfold zlen in *. rewrite build_header_ok by (rewrite ?Hb; lia). cbn [bind]. rewrite <- !app_assoc. reflexivity.
  - rewrite (Hreg eq_refl). cbn [bind].
    change (zlen (CFG_PROTOCOL_VERSION ++ REGISTER_OPTION_FLAGS_DEFAULT ++ [])) with 4.
    rewrite build_header_ok by lia. cbn [bind]. rewrite <- !app_assoc. reflexivity.
  - cbn [bind]. change (zlen (@nil Z)) with 0. rewrite build_header_ok by lia. cbn [bind]. rewrite <- !app_assoc. reflexivity.
  - cbn [bind]. change (zlen (@nil Z)) with 0. rewrite build_header_ok by lia. cbn [bind]. rewrite <- !app_assoc. reflexivity.
Qed.

Lemma build_request_is_mk_frame k seq body (target : pv) cid sess ctx :
  0 <= seq < 65536 -> 0 <= sess < 4294967296 ->
  (k = KSendUnit -> target = PBytes cid /\ length cid = 4%nat /\ bytes_ok cid = true) ->
  (k = KRegister -> concat body = []) ->
  common_len k (concat body) < 65536 ->
  exists p1, build_request (request k seq body) target (PInt sess) (PBytes ctx) (PInt CFG_OPTION)
             = (p1, Ok (mk_frame (frame_of k seq cid (concat body) sess ctx))).
Proof.
  intros Hseq Hsess. exact (build_request_is_mk_frame_gen k seq _ _ _ body target cid sess ctx Hseq (args_for_request k seq) Hsess).
Qed.

Lemma frame_of_wf k seq cid msg sess ctx :
  0 <= seq < 65536 -> 0 <= sess < 4294967296 -> length ctx = 8%nat -> bytes_ok ctx = true ->
  (k = KSendUnit -> length cid = 4%nat /\ bytes_ok cid = true) -> bytes_ok msg = true ->
  common_len k msg < 65536 ->
  frame_wf (frame_of k seq cid msg sess ctx) = true.
Proof.
  intros Hseq Hsess Hc8 Hcok Hunit Hm Hlen.
  pose proof (Nat2Z.is_nonneg (length msg)) as Hn.
  unfold frame_wf, frame_of. cbn [f_session f_context f_cmd f_body]. rewrite Hcok.
  assert (blen ctx = 8) as -> by (unfold blen; lia).
  destruct k; cbn [body_of cmd_of body_wf common_len] in *; unfold blen, zlen in *.
  - destruct (Hunit eq_refl) as (Hc4 & Hok).
    pose proof (le_dec_range cid Hok) as Hr. rewrite Hc4, pow256_4 in Hr.
    rewrite bytes_ok_app, le_enc_ok, Hm, app_length, le_enc_length.
    unfold CMD_UNITDATA, ITEM_CONN_DATA. lia.
  - rewrite Hm. unfold CMD_RRDATA, ITEM_UNCONN_DATA. lia.
  - unfold CMD_REGISTER. lia.
  - unfold CMD_UNREGISTER, CMD_LIST_SERVICES, CMD_LIST_IDENTITY, CMD_LIST_INTERFACES. lia.
  - unfold CMD_UNREGISTER, CMD_LIST_SERVICES, CMD_LIST_IDENTITY, CMD_LIST_INTERFACES. lia.
Qed.

Lemma frame_ok_gen : forall k seq sq pver flags body target cid sess ctx,
  0 <= seq < 65536 -> args_for k seq sq pver flags -> 0 <= sess < 4294967296 ->
  length ctx = 8%nat -> bytes_ok ctx = true -> all_bytes_ok body = true ->
  (k = KSendUnit -> target = PBytes cid /\ length cid = 4%nat /\ bytes_ok cid = true) ->
  (k = KRegister -> concat body = []) ->
  common_len k (concat body) < 65536 ->
  exists p1 f,
    build_request (request_gen k sq pver flags body) target (PInt sess) (PBytes ctx) (PInt CFG_OPTION) = (p1, Ok f)
    /\ parse_frame f = RcOk (frame_of k seq cid (concat body) sess ctx).
Proof.
  intros k seq sq pver flags body target cid sess ctx Hseq Hargs Hsess Hc8 Hcok Hbody Hunit Hreg Hlen.
  destruct (build_request_is_mk_frame_gen k seq sq pver flags body target cid sess ctx Hseq Hargs Hsess Hunit Hreg Hlen) as (p1 & Hb).
  exists p1, (mk_frame (frame_of k seq cid (concat body) sess ctx)). split; [exact Hb |].
  apply parse_mk_frame, frame_of_wf; try assumption.
  - intros Hk. destruct (Hunit Hk) as (_ & H4 & Hok). now split.
  - now apply concat_ok.
Qed.

(* the headline: for EVERY payload (a universally quantified list of byte strings; the only bound is
   the 16-bit length field), every request class, every session / connection id / context *)
Theorem frame_ok : forall k seq body target cid sess ctx,
  0 <= seq < 65536 -> 0 <= sess < 4294967296 ->
  length ctx = 8%nat -> bytes_ok ctx = true -> all_bytes_ok body = true ->
  (k = KSendUnit -> target = PBytes cid /\ length cid = 4%nat /\ bytes_ok cid = true) ->
  (k = KRegister -> concat body = []) ->
  common_len k (concat body) < 65536 ->
  exists p1 f,
    build_request (request k seq body) target (PInt sess) (PBytes ctx) (PInt CFG_OPTION) = (p1, Ok f)
    /\ parse_frame f = RcOk (frame_of k seq cid (concat body) sess ctx).
Proof.
  intros k seq body target cid sess ctx Hseq Hsess Hc8 Hcok Hbody Hunit Hreg Hlen.
  destruct (build_request_is_mk_frame k seq body target cid sess ctx Hseq Hsess Hunit Hreg Hlen) as (p1 & Hb).
  exists p1, (mk_frame (frame_of k seq cid (concat body) sess ctx)). split; [exact Hb |].
  apply parse_mk_frame, frame_of_wf; try assumption.
  - intros Hk. destruct (Hunit Hk) as (_ & H4 & Hok). now split.
  - now apply concat_ok.
Qed.

Lemma firstn_le_enc w z r : firstn w (le_enc w z ++ r) = le_enc w z.
Proof. rewrite <- (le_enc_length w z) at 1. apply firstn_app_exact. Qed.
Lemma skipn_le_enc w z r : skipn w (le_enc w z ++ r) = r.
Proof. rewrite <- (le_enc_length w z) at 1. apply skipn_app_exact. Qed.

(* the connected data item of a SendUnitData request begins with the sequence count given at construction *)
Theorem connected_starts_with_seq : forall seq body cid sess ctx,
  0 <= seq < 65536 -> 0 <= sess < 4294967296 ->
  length ctx = 8%nat -> bytes_ok ctx = true -> all_bytes_ok body = true ->
  length cid = 4%nat -> bytes_ok cid = true -> 22 + zlen (concat body) < 65536 ->
  exists p1 f t d,
    build_request (request KSendUnit seq body) (PBytes cid) (PInt sess) (PBytes ctx) (PInt CFG_OPTION) = (p1, Ok f)
    /\ parse_frame f = RcOk {| f_cmd := CMD_UNITDATA; f_session := sess; f_context := ctx;
                               f_body := BCpf t (AddrConn (le_dec cid)) ITEM_CONN_DATA d |}
    /\ firstn 2 d = le_enc 2 seq /\ le_dec (firstn 2 d) = seq /\ skipn 2 d = concat body.
Proof.
  intros seq body cid sess ctx Hseq Hsess Hc8 Hcok Hbody Hc4 Hcid Hlen.
  destruct (frame_ok KSendUnit seq body (PBytes cid) cid sess ctx Hseq Hsess Hc8 Hcok Hbody) as (p1 & f & Hb & Hp).
  - intros _. repeat split; assumption.
  - discriminate.
  - exact Hlen.
  - exists p1, f, 10, (le_enc 2 seq ++ concat body). split; [exact Hb |]. split; [exact Hp |].
    rewrite firstn_le_enc, skipn_le_enc. repeat split.
    apply le_dec_enc_id. rewrite pow256_2. lia.
Qed.

(* ================================================================ build_message is assembled once *)
Lemma with_message_idem p m : with_message (with_message p m) m = with_message p m.
Proof. reflexivity. Qed.

Lemma finish_message_fix p p1 m : finish_message p = (p1, Ok m) -> finish_message p1 = (p1, Ok m).
Proof.
  unfold finish_message. destruct (join (p_msg p)) as [m0 | e] eqn:E; intros H; inversion H; subst.
  cbn [with_message p_msg]. rewrite E. reflexivity.
Qed.

(* a second build_message on an object whose first build succeeded and set the flag returns the
   same message and leaves the object as it is *)
Theorem build_message_once : forall p p1 m,
  build_message p = (p1, Ok m) -> p_msg_setup p1 = true -> build_message p1 = (p1, Ok m).
Proof.
  intros p p1 m H Hf. unfold build_message at 1. rewrite Hf. cbn [negb].
  unfold build_message in H. destruct (negb (p_msg_setup p)).
  - destruct (setup_message p) as [p0 [u | e]]; [| discriminate]. eapply finish_message_fix; exact H.
  - eapply finish_message_fix; exact H.
Qed.

Lemma finish_message_flag p p1 r : finish_message p = (p1, r) -> p_msg_setup p1 = p_msg_setup p.
Proof. unfold finish_message. destruct (join (p_msg p)); intros H; inversion H; reflexivity. Qed.

(* every class but RegisterSession sets the flag at its first build (its _setup_message calls the base one) *)
Theorem build_message_sets_flag : forall p p1 r,
  pc_setup (class_of (p_kind p)) <> SetupRegister -> build_message p = (p1, r) -> p_msg_setup p1 = true.
Proof.
  intros p p1 r Hk H. unfold build_message in H. destruct (p_msg_setup p) eqn:Hf; cbn [negb] in H.
  - rewrite (finish_message_flag _ _ _ H). exact Hf.
  - unfold setup_message in H. destruct (pc_setup (class_of (p_kind p))) as [| size |]; [| | congruence].
    + rewrite (finish_message_flag _ _ _ H). reflexivity.
    + destruct (enc_uint size (p_sequence (with_setup p true))) as [b | e].
      * rewrite (finish_message_flag _ _ _ H). reflexivity.
      * inversion H. reflexivity.
Qed.

Corollary build_message_once_flagging : forall p p1 m,
  pc_setup (class_of (p_kind p)) <> SetupRegister -> build_message p = (p1, Ok m) -> build_message p1 = (p1, Ok m).
Proof. intros p p1 m Hk H. eapply build_message_once; [exact H | eapply build_message_sets_flag; eauto]. Qed.

(* RegisterSession's _setup_message does not call the base one: the flag stays False and a second
   build appends version and flags again; the frame then built is rejected (rule 10) *)
Definition register_request : packet := request KRegister 0 [].
Theorem register_rebuilt_refuted :
  exists p1 p2 f1 f2,
    build_request register_request PNone (PInt 0) (PBytes CFG_CONTEXT) (PInt CFG_OPTION) = (p1, Ok f1)
    /\ build_request p1 PNone (PInt 0) (PBytes CFG_CONTEXT) (PInt CFG_OPTION) = (p2, Ok f2)
    /\ parse_frame f1 = RcOk (frame_of KRegister 0 [] [] 0 CFG_CONTEXT)
    /\ parse_frame f2 = RcErr 10
    /\ p_message p1 = [1; 0; 0; 0] /\ p_message p2 = [1; 0; 0; 0; 1; 0; 0; 0].
Proof. do 4 eexists. vm_compute. repeat split. Qed.
