(* Proofs/IdentityTables.v — the status_info tables as the identity code uses them.
   Model: VENDORS / PRODUCT_TYPES are the dict merges {**_T, **{v: k for k, v in _T.items()}} (the
   LAST binding of a key wins, in both directions); Spec: the text the regenerated table lists for
   the id, else "UNKNOWN".  They agree because the regenerated tables have unique ids ([nodup_keys],
   checked by computation on Gen/Vendors.v and Gen/Status.v: finite, regenerated on every run). *)
From Coq Require Import String ZifyBool.
From PV Require Import Base.Bytes Base.Res Base.Proto Base.PyStr Model.Identity Spec.IdentitySpec.
From PV Require Import Proofs.IdentityPrim.
From PV Require Gen.Vendors Gen.Status.
Open Scope Z_scope.
Ltac Zify.zify_post_hook ::= Z.to_euclidean_division_equations.

Definition has_key {A} (t : list (Z * A)) (k : Z) : bool := existsb (fun p => fst p =? k) t.
Fixpoint nodup_keys {A} (t : list (Z * A)) : bool :=
  match t with
  | [] => true
  | p :: r => negb (has_key r (fst p)) && nodup_keys r
  end.

Lemma ilookup_absent {A} (t : list (Z * A)) k : has_key t k = false -> ilookup t k = None.
Proof.
  induction t as [|[k' v] r IH]; cbn [has_key existsb ilookup fst]; intros H; [reflexivity|].
  apply orb_false_iff in H as [Hk Hr]. unfold has_key in IH. rewrite (IH Hr), Hk. reflexivity.
Qed.
Lemma tbl_find_absent {A} (t : list (Z * A)) k : has_key t k = false -> tbl_find t k = None.
Proof.
  induction t as [|[k' v] r IH]; cbn [has_key existsb tbl_find fst]; intros H; [reflexivity|].
  apply orb_false_iff in H as [Hk Hr]. unfold has_key in IH. rewrite Hk. apply IH, Hr.
Qed.

(* last-binding-wins and first-binding-wins lookups agree on tables with unique keys *)
Lemma ilookup_tbl_find {A} (t : list (Z * A)) k : nodup_keys t = true -> ilookup t k = tbl_find t k.
Proof.
  induction t as [|[k' v] r IH]; cbn [nodup_keys ilookup tbl_find fst]; intros H; [reflexivity|].
  apply andb_true_iff in H as [Hn Hr]. rewrite (IH Hr).
  destruct (k' =? k) eqn:E.
  - assert (k' = k) by lia. subst k'. apply negb_true_iff in Hn. rewrite (tbl_find_absent r k Hn). reflexivity.
  - destruct (tbl_find r k); reflexivity.
Qed.

Lemma in_has_key {A} (t : list (Z * A)) k v : In (k, v) t -> has_key t k = true.
Proof.
  unfold has_key. intros H. apply existsb_exists. exists (k, v). split; [assumption|cbn [fst]; lia].
Qed.

Lemma in_tbl_find {A} (t : list (Z * A)) k v : nodup_keys t = true -> In (k, v) t -> tbl_find t k = Some v.
Proof.
  induction t as [|[k' v'] r IH]; cbn [nodup_keys tbl_find fst In]; intros H Hin; [contradiction|].
  apply andb_true_iff in H as [Hn Hr]. destruct Hin as [E|Hin].
  - inversion E; subst. rewrite Z.eqb_refl. reflexivity.
  - destruct (k' =? k) eqn:E.
    + assert (k' = k) by lia. subst k'. apply negb_true_iff in Hn. rewrite (in_has_key r k v Hin) in Hn. discriminate.
    + apply IH; assumption.
Qed.

Lemma tbl_find_in {A} (t : list (Z * A)) k v : tbl_find t k = Some v -> In (k, v) t.
Proof.
  induction t as [|[k' v'] r IH]; cbn [tbl_find In]; intros H; [discriminate|].
  destruct (k' =? k) eqn:E.
  - left. inversion H; subst. f_equal. lia.
  - right. apply IH, H.
Qed.

(* ------------------------------------------------------------------ T.get(id, "UNKNOWN") *)
Lemma table_get_name_spec t i : nodup_keys t = true -> table_get_name t i = name_or_unknown t i.
Proof.
  intros H. unfold table_get_name, name_or_unknown, merged_lookup. rewrite (ilookup_tbl_find t i H).
  assert (G : forall o : option (list Z),
             match option_map MStr o with Some (MStr n) => n | _ => UNKNOWN end
             = match o with Some n => n | None => unknown end) by (intros [?|]; reflexivity).
  apply G.
Qed.

Lemma vendors_nodup : nodup_keys Gen.Vendors.vendors = true.
Proof. vm_compute. reflexivity. Qed.
Lemma product_types_nodup : nodup_keys Gen.Status.product_types = true.
Proof. vm_compute. reflexivity. Qed.

Lemma VENDORS_get_spec i : VENDORS_get i = name_or_unknown Gen.Vendors.vendors i.
Proof. apply table_get_name_spec, vendors_nodup. Qed.
Lemma PRODUCT_TYPES_get_spec i : PRODUCT_TYPES_get i = name_or_unknown Gen.Status.product_types i.
Proof. apply table_get_name_spec, product_types_nodup. Qed.

(* ------------------------------------------------------------------ T[name] and back *)
Definition known_name (t : list (Z * list Z)) (n : list Z) : bool := existsb (fun p => text_eqb (snd p) n) t.

Lemma rlookup_in t n k : rlookup t n = Some k -> In (k, n) t.
Proof.
  induction t as [|[k' v] r IH]; cbn [rlookup In]; intros H; [discriminate|].
  destruct (rlookup r n) as [k''|] eqn:E.
  - right. apply IH. exact H.
  - destruct (text_eqb v n) eqn:Ev; [|discriminate].
    apply text_eqb_eq in Ev. inversion H; subst. now left.
Qed.

Lemma known_rlookup t n : known_name t n = true -> exists k, rlookup t n = Some k.
Proof.
  induction t as [|[k' v] r IH]; cbn [known_name existsb rlookup snd]; intros H; [discriminate|].
  destruct (rlookup r n) as [k''|] eqn:E; [eexists; reflexivity|].
  apply orb_true_iff in H as [H|H].
  - rewrite H. eexists; reflexivity.
  - destruct (IH H) as [k Hk]. discriminate.
Qed.

(* a name of the table maps to an id that maps back to that name *)
Lemma getitem_get t n :
  nodup_keys t = true -> known_name t n = true ->
  exists k, table_getitem t n = Ok k /\ In (k, n) t /\ name_or_unknown t k = n.
Proof.
  intros Hnd Hk. destruct (known_rlookup t n Hk) as [k Hr].
  exists k. unfold table_getitem, merged_lookup. rewrite Hr. cbn [option_map].
  pose proof (rlookup_in t n k Hr) as Hin.
  split; [reflexivity|]. split; [assumption|].
  unfold name_or_unknown. rewrite (in_tbl_find t k n Hnd Hin). reflexivity.
Qed.

Definition keys_u16 (t : list (Z * list Z)) : bool := forallb (fun p => in16 (fst p)) t.
Lemma vendors_u16 : keys_u16 Gen.Vendors.vendors = true.
Proof. vm_compute. reflexivity. Qed.
Lemma product_types_u16 : keys_u16 Gen.Status.product_types = true.
Proof. vm_compute. reflexivity. Qed.
Lemma keys_u16_in t k n : keys_u16 t = true -> In (k, n) t -> 0 <= k < 65536.
Proof.
  unfold keys_u16. rewrite forallb_forall. intros H Hin. specialize (H _ Hin). cbn [fst] in H.
  unfold in16 in H. lia.
Qed.

(* ------------------------------------------------------------------ KEYSWITCH *)
Lemma keyswitch_nodup : nodup_keys Gen.Status.keyswitch = true.
Proof. vm_compute. reflexivity. Qed.
Lemma keyswitch_sub_nodup : forallb (fun p => nodup_keys (snd p)) Gen.Status.keyswitch = true.
Proof. vm_compute. reflexivity. Qed.

Lemma keyswitch_spec b0 b1 : keyswitch_text [b0; b1] = Ok (spec_keyswitch b0 b1).
Proof.
  unfold keyswitch_text, spec_keyswitch. cbn [bytes_index nth_error bind].
  rewrite (ilookup_tbl_find _ b0 keyswitch_nodup).
  destruct (tbl_find Gen.Status.keyswitch b0) as [sub|] eqn:E.
  - assert (Hs : nodup_keys sub = true).
    { pose proof keyswitch_sub_nodup as H. rewrite forallb_forall in H.
      apply (H (b0, sub)), tbl_find_in, E. }
    rewrite (ilookup_tbl_find sub b1 Hs). destruct (tbl_find sub b1); reflexivity.
  - reflexivity.
Qed.
