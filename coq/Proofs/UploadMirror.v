(* Proofs/UploadMirror.v — C05: the model client composed with the reference target.
   [get_data_type_mirrors]: for every well-formed template list (structures nested to any depth,
   arrays of structures, strings, hidden hosts), every template-fragment policy and every reply
   capacity >= 34, _get_data_type against the target returns a definition whose observation is the
   expected one ([Exp]), fetches exactly the structures reachable from the requested one, and keeps
   the caches consistent.  By strong induction on the position of the template in the project
   (a template only uses earlier ones), composing Proofs/UploadTemplate.template_fragment_independent,
   Proofs/UploadTarget (the target is a fragment peer), Proofs/UploadBlob.parse_template_blob and
   Proofs/UploadObsP.obs_of_built. *)
From Coq Require Import ZifyBool String Sorted Permutation.
From PV Require Import Base.Bytes Base.BytesLemmas Base.Proto Base.PyStr Base.Res.
From PV Require Import Spec.EncapParser Spec.MRParser Spec.TargetIface Spec.TargetCore Spec.Project Spec.Expect Spec.TargetLogix Spec.UploadObs.
From PV Require Import Model.LogixUpload.
From PV Require Import Proofs.UploadDefs Proofs.UploadParse Proofs.UploadFilter Proofs.UploadTemplate Proofs.UploadBlob
  Proofs.UploadObsP Proofs.UploadTarget.
From PV Require Gen.Consts.
Open Scope string_scope.
Open Scope list_scope.
Open Scope Z_scope.

(* ================================================================ dictionaries keyed by integers *)
Lemma zdict_get_set_same {V} (d : list (Z * V)) k v : dict_get Z.eqb (dict_set Z.eqb d k v) k = Some v.
Proof.
  induction d as [|[k' v'] d IH]; cbn [dict_set dict_get]; [rewrite Z.eqb_refl; reflexivity|].
  destruct (k' =? k) eqn:E; cbn [dict_get]; rewrite E; [reflexivity | exact IH].
Qed.
Lemma zdict_get_set_other {V} (d : list (Z * V)) k k' v :
  k' <> k -> dict_get Z.eqb (dict_set Z.eqb d k v) k' = dict_get Z.eqb d k'.
Proof.
  intros Hne. induction d as [|[a b] d IH]; cbn [dict_set dict_get].
  - destruct (k =? k') eqn:E; [lia | reflexivity].
  - destruct (a =? k) eqn:E; cbn [dict_get].
    + apply Z.eqb_eq in E. subst a. destruct (k =? k') eqn:E2; [lia | reflexivity].
    + destruct (a =? k'); [reflexivity | exact IH].
Qed.
Lemma zdict_get_in {V} (d : list (Z * V)) k v : dict_get Z.eqb d k = Some v -> In k (map fst d).
Proof.
  induction d as [|[a b] d IH]; [discriminate|]. cbn [dict_get map fst].
  destruct (a =? k) eqn:E; [intros _; left; lia | intros H; right; apply IH; exact H].
Qed.
Lemma zdict_get_notin {V} (d : list (Z * V)) k : dict_get Z.eqb d k = None -> ~ In k (map fst d).
Proof.
  induction d as [|[a b] d IH]; [intros _ []|]. cbn [dict_get map fst].
  destruct (a =? k) eqn:E; [discriminate|]. intros H [Ha | Hin]; [lia | exact (IH H Hin)].
Qed.
Lemma zdict_in_get {V} (d : list (Z * V)) k : In k (map fst d) -> exists v, dict_get Z.eqb d k = Some v.
Proof.
  induction d as [|[a b] d IH]; [intros []|]. cbn [dict_get map fst].
  destruct (a =? k) eqn:E; [eauto|]. intros [Ha | Hin]; [lia | exact (IH Hin)].
Qed.
Lemma zdict_set_absent {V} (d : list (Z * V)) k v : dict_get Z.eqb d k = None -> dict_set Z.eqb d k v = d ++ [(k, v)].
Proof.
  induction d as [|[a b] d IH]; [reflexivity|]. cbn [dict_get dict_set].
  destruct (a =? k); [discriminate|]. intros H. rewrite IH by exact H. reflexivity.
Qed.
Lemma odict_set_absent {V} (d : list (option text * V)) k v :
  (forall k' v', In (k', v') d -> otext_eqb k' k = false) -> dict_set otext_eqb d k v = d ++ [(k, v)].
Proof.
  induction d as [|[a b] d IH]; intros H; [reflexivity|]. cbn [dict_set].
  rewrite (H a b (or_introl eq_refl)). rewrite IH; [reflexivity|]. intros k' v' Hin. apply (H k' v'). right. exact Hin.
Qed.

(* ================================================================ the template list *)
Lemma templates_ok_at : forall a acc x b, templates_ok acc (a ++ x :: b) = true -> template_ok (acc ++ a) x = true.
Proof.
  induction a as [|y a IH]; intros acc x b H; cbn [app templates_ok] in H; apply andb_prop in H; destruct H as [H1 H2].
  - rewrite app_nil_r. exact H1.
  - specialize (IH (acc ++ [y]) x b H2). rewrite <- app_assoc in IH. exact IH.
Qed.

Fixpoint rank_in (l : list template) (tid : Z) : nat :=
  match l with
  | [] => O
  | x :: r => if t_id x =? tid then O else S (rank_in r tid)
  end.

Lemma find_template_skip e t l tid :
  (forall x, In x e -> t_id x <> tid) -> t_id t = tid ->
  find_template (e ++ t :: l) tid = Some t /\ rank_in (e ++ t :: l) tid = length e.
Proof.
  intros He Ht. induction e as [|x e IH]; cbn [app find_template rank_in length].
  - rewrite Ht, Z.eqb_refl. auto.
  - destruct (t_id x =? tid) eqn:E; [exfalso; apply (He x (or_introl eq_refl)); lia|].
    destruct (IH (fun y Hy => He y (or_intror Hy))) as [-> ->]. auto.
Qed.

Lemma template_ok_fresh e t : template_ok e t = true -> forall x, In x e -> t_id x <> t_id t.
Proof.
  unfold template_ok. intros H x Hx. split_andb.
  match goal with H : negb (existsb _ e) = true |- _ => apply negb_true_iff in H; rename H into Hn end.
  intros E. assert (existsb (fun e0 => (t_id e0 =? t_id t) || name_eqb (t_name e0) (t_name t)) e = true); [|congruence].
  apply existsb_exists. exists x. split; [exact Hx|]. rewrite E, Z.eqb_refl. reflexivity.
Qed.

Lemma template_blob_length ab ab' t : length (template_blob ab t) = length (template_blob ab' t).
Proof.
  unfold template_blob. cbv zeta. rewrite !app_length, !zeros_length, !template_records_eq, !records_length. reflexivity.
Qed.

Lemma max_blob_ge p t ab : In t (p_templates p) -> (length (template_blob ab t) <= max_blob p)%nat.
Proof.
  unfold max_blob. intros Hin. rewrite (template_blob_length ab true).
  induction (p_templates p) as [|x l IH]; [destruct Hin|]. cbn [map fold_right].
  destruct Hin as [<- | Hin]; [lia | specialize (IH Hin); lia].
Qed.

Definition tmpl_dom (t : template) : Prop :=
  0 <= t_size t < 4294967296 /\ template_defsize t * 4 - 21 <= 65535 /\ names_ok t /\ no_pseudo_string t.

(* what well-formedness gives about one member *)
Lemma member_ok_facts e t m :
  member_ok (mkProject e []) t m = true -> t_size t < 4294967296 ->
  (forall x, In x e -> 0 < t_id x < 4096) ->
  m_name m <> [] /\ m_hidden m = host_name (t_id t) (m_name m) /\ member_fields_ok m /\ 0 <= m_arr m
  /\ (forall tid, m_ty m = BStruct tid -> exists t', find_template e tid = Some t').
Proof.
  unfold member_ok. intros H Hsz Hids.
  apply andb_prop in H. destruct H as [H Hkind]. split_andb.
  assert (Hname : m_name m <> []) by (destruct (m_name m); discriminate).
  assert (Hhid : m_hidden m = host_name (t_id t) (m_name m)).
  { match goal with H : Bool.eqb _ _ = true |- _ => apply eqb_prop in H; exact H end. }
  split; [exact Hname|]. split; [exact Hhid|].
  unfold member_fields_ok, member_info_word.
  destruct (is_bool_member m) eqn:Eb.
  - unfold is_bool_member in Eb. destruct (m_ty m) as [c| |] eqn:Ety; try discriminate.
    apply Z.eqb_eq in Eb. subst c. split_andb.
    split; [|split; [lia|]].
    + split; [lia|]. split; [lia|]. split; [unfold ATOMS; left; reflexivity | intros _; lia].
    + intros tid H'. discriminate.
  - apply andb_prop in Hkind. destruct Hkind as [Hbit Hsize].
    unfold member_size, base_size in Hsize. cbn [p_templates] in Hsize.
    destruct (m_ty m) as [c|tid|w] eqn:Ety.
    + destruct (atom_size c) as [s0|] eqn:Es; [|discriminate]. split_andb.
      pose proof (atom_size_in c s0 Es) as Hc.
      split; [|split; [lia|]].
      * split; [lia|]. split; [lia|]. split; [exact Hc|]. intros ->. unfold is_bool_member in Eb. rewrite Ety in Eb.
        unfold C_BOOL in Eb. discriminate.
      * intros tid H'. discriminate.
    + destruct (find_template e tid) as [t'|] eqn:Ef; [|discriminate]. split_andb.
      pose proof (find_template_in e tid t' Ef) as [Hin Hid].
      pose proof (Hids t' Hin) as Hr.
      split; [|split; [lia|]].
      * split; [lia|]. split; [lia|]. lia.
      * intros tid' H'. injection H' as <-. eauto.
    + discriminate.
Qed.

Lemma forallb_Forall {A} (f : A -> bool) l : forallb f l = true -> Forall (fun x => f x = true) l.
Proof. intros H. apply Forall_forall. apply forallb_forall. exact H. Qed.

Lemma NoDup_app_one {A} (l : list A) x : NoDup l -> ~ In x l -> NoDup (l ++ [x]).
Proof.
  induction l as [|a l IH]; intros Hnd Hx; cbn [app]; [constructor; [intros []|constructor]|].
  inversion Hnd as [|? ? Ha Hnd']; subst. constructor.
  - intros Hin. apply in_app_iff in Hin. destruct Hin as [Hin | [-> | []]]; [contradiction | apply Hx; left; reflexivity].
  - apply IH; [exact Hnd' | intros Hin; apply Hx; right; exact Hin].
Qed.

(* ================================================================ the composition *)
Section Mirror.
  Variable p : project.
  Variable pol : policy.
  Variable cap : Z.

  Let ts := p_templates p.
  Let st0 : lstate := target_state p pol.
  Let ab := po_array_bit pol.

  Hypothesis Hts : templates_ok [] ts = true.
  Hypothesis Hcap : 34 <= cap.
  Hypothesis Htd : Forall tmpl_dom ts.
  Hypothesis Hdisplay : NoDup (map (fun t => display_name (t_name t)) ts).

  (* ---------------------------------------------------------------- one template of a well-formed list *)
  Lemma tmpl_wf e t l : ts = e ++ t :: l ->
    find_template ts (t_id t) = Some t /\ rank_in ts (t_id t) = length e /\ In t ts
    /\ 0 < t_id t < 4096 /\ 0 <= t_handle t < 65536 /\ tmpl_facts t /\ tmpl_dom t
    /\ template_core_len t <= template_defsize t * 4 - 20
    /\ 0 <= template_member_count t < 65536 /\ 0 <= template_defsize t < 4294967296
    /\ 0 <= template_defsize t * 4 - 21
    /\ (forall m tid, In m (t_members t) -> m_ty m = BStruct tid ->
                      exists e1 t' e2, e = e1 ++ t' :: e2 /\ t_id t' = tid).
  Proof.
    intros Hsplit.
    assert (Hin : In t ts) by (rewrite Hsplit; apply in_or_app; right; left; reflexivity).
    assert (Hok : template_ok e t = true).
    { pose proof (templates_ok_at e [] t l) as H. rewrite <- Hsplit in H. exact (H Hts). }
    pose proof (template_ok_fresh e t Hok) as Hfresh.
    destruct (find_template_skip e t l (t_id t) Hfresh eq_refl) as [Hfind Hrank]. rewrite <- Hsplit in Hfind, Hrank.
    assert (Hdom : tmpl_dom t) by (rewrite Forall_forall in Htd; apply Htd; exact Hin).
    destruct Hdom as (Hsize & Hwant & Hnames & Hps).
    assert (Hids : forall x, In x e -> 0 < t_id x < 4096).
    { intros x Hx. apply (templates_ok_ids ts [] x Hts). rewrite Hsplit. apply in_or_app. left. exact Hx. }
    unfold template_ok in Hok. split_andb.
    match goal with H : forallb (member_ok _ t) _ = true |- _ => apply forallb_Forall in H; rename H into Hmem end.
    assert (Hfacts : forall m, In m (t_members t) ->
              m_name m <> [] /\ m_hidden m = host_name (t_id t) (m_name m) /\ member_fields_ok m /\ 0 <= m_arr m
              /\ (forall tid, m_ty m = BStruct tid -> exists t', find_template e tid = Some t')).
    { intros m Hm. rewrite Forall_forall in Hmem. apply (member_ok_facts e t m (Hmem m Hm)); [lia | exact Hids]. }
    assert (Hnamelen : 2 <= Z.of_nat (length (template_names t))).
    { unfold template_names. rewrite !app_length. destruct (t_name t); [discriminate|]. cbn [length]. lia. }
    assert (Hcore : template_core_len t <= template_defsize t * 4 - 20) by lia.
    assert (Hcnt : 0 <= template_member_count t) by (unfold template_member_count; lia).
    assert (Hdef0 : 0 <= template_defsize t).
    { unfold template_defsize. destruct (t_defsize t =? 0) eqn:E0; [|lia].
      destruct (t_tail t); unfold template_member_count in *; lia. }
    unfold template_core_len in Hcore.
    assert (Htf : tmpl_facts t).
    { constructor.
      - apply distinct_nodup. assumption.
      - apply Forall_forall. intros m Hm. apply (Hfacts m Hm).
      - apply Forall_forall. intros m Hm. apply (Hfacts m Hm).
      - apply Forall_forall. intros m Hm. apply (Hfacts m Hm).
      - apply Forall_forall. intros m Hm. apply (Hfacts m Hm).
      - exact Hps. }
    split; [exact Hfind|]. split; [exact Hrank|]. split; [exact Hin|]. split; [lia|]. split; [lia|].
    split; [exact Htf|]. split; [exact (conj Hsize (conj Hwant (conj Hnames Hps)))|].
    split; [lia|]. split; [lia|]. split; [lia|]. split; [lia|].
    intros m tid Hm Hty. destruct (Hfacts m Hm) as (_ & _ & _ & _ & Hs). destruct (Hs tid Hty) as (t' & Ef).
    apply find_template_in in Ef. destruct Ef as [Hin' Hid]. apply in_split in Hin'. destruct Hin' as (e1 & e2 & ->).
    eauto.
  Qed.

  (* ---------------------------------------------------------------- invariants of the driver state *)
  Definition Good (tid : Z) (d : datatype) : Prop :=
    Exp ts tid (odef_of_dt d)
    /\ exists t, find_template ts tid = Some t /\ dt_name d = Some (display_name (t_name t)).
  Lemma Good_exp tid d : Good tid d -> Exp ts tid (odef_of_dt d).
  Proof. intros [H _]. exact H. Qed.

  Definition keys (u : ustate) : list Z := map fst (u_udts u).

  Section Roots.
    Variable R : Z -> Prop.        (* the template ids requested so far (the types of the user tags) *)

    Inductive Reach : Z -> Prop :=
    | Reach_root tid : R tid -> Reach tid
    | Reach_step tid t tid' :
        Reach tid -> find_template ts tid = Some t -> In tid' (struct_ids_of_members t) -> Reach tid'.

    Record Inv (u : ustate) : Prop := {
      inv_good : forall tid d, dict_get Z.eqb (u_udts u) tid = Some d -> Good tid d;
      inv_structs : forall tid a, dict_get Z.eqb (u_structs u) tid = Some a ->
                                  exists t, find_template ts tid = Some t /\ a = template_attrs_of t;
      inv_nodup : NoDup (keys u);
      inv_types : u_data_types u = map (fun kv => (dt_name (snd kv), snd kv)) (u_udts u);
      inv_closed : forall tid t tid', In tid (keys u) -> find_template ts tid = Some t ->
                                      In tid' (struct_ids_of_members t) -> In tid' (keys u);
      inv_reach : forall tid, In tid (keys u) -> Reach tid
    }.

    Definition Step (n : nat) (u u' : ustate) : Prop :=
      incl (keys u) (keys u')
      /\ (forall k, In k (keys u') -> In k (keys u) \/ (rank_in ts k < n)%nat)
      /\ u_programs u' = u_programs u /\ u_tasks u' = u_tasks u.
    Definition Post (tid : Z) (u : ustate) : Prop := In tid (keys u).

    Lemma Step_refl n u : Step n u u.
    Proof. unfold Step. repeat split; auto using incl_refl. Qed.
    Lemma Step_trans n a b c : Step n a b -> Step n b c -> Step n a c.
    Proof.
      intros (H1 & H2 & H3 & H4) (G1 & G2 & G3 & G4). unfold Step. repeat split; try congruence.
      - eapply incl_tran; eassumption.
      - intros k Hk. destruct (G2 k Hk) as [Hb | Hr]; [destruct (H2 k Hb); auto | auto].
    Qed.
    Lemma Step_mono n n' u u' : (n <= n')%nat -> Step n u u' -> Step n' u u'.
    Proof.
      intros Hle (H1 & H2 & H3 & H4). unfold Step. repeat split; auto.
      intros k Hk. destruct (H2 k Hk); [auto | right; lia].
    Qed.
    Lemma Post_step n tid u u' : Post tid u -> Step n u u' -> Post tid u'.
    Proof. intros H (H1 & _). apply H1. exact H. Qed.

    (* ---------------------------------------------------------------- the template attributes *)
    Lemma makeup_ok e t l u :
      ts = e ++ t :: l -> Inv u ->
      exists u1, get_structure_makeup lstate (target_call cap) u st0 (t_id t) = (st0, u1, Done (template_attrs_of t))
                 /\ u_udts u1 = u_udts u /\ u_data_types u1 = u_data_types u
                 /\ u_programs u1 = u_programs u /\ u_tasks u1 = u_tasks u /\ Inv u1.
    Proof.
      intros Hsplit Hinv.
      destruct (tmpl_wf e t l Hsplit) as (Hfind & _ & _ & Hid & Hh & _ & (Hsize & _) & _ & Hcnt & Hdef & _).
      unfold get_structure_makeup.
      destruct (dict_get Z.eqb (u_structs u) (t_id t)) as [a|] eqn:Es.
      - destruct (inv_structs u Hinv _ _ Es) as (t0 & Ef & ->). rewrite Hfind in Ef. injection Ef as <-.
        exists u. auto 10.
      - destruct table_constants as (_ & E3 & _). rewrite E3.
        destruct (template_request_form 3 (t_id t) template_attrs_data ltac:(lia)) as (seg & Erq & Hseg). rewrite Erq.
        destruct (target_call_attrs cap st0 t ([32; 108] ++ seg) Hcap (resolve_template p (t_id t) t seg Hseg Hfind)
                                    Hdef Hsize Hcnt Hh) as (d & Ecall & Eparse).
        rewrite Ecall. cbn [p_valid negb p_data p_error_raises orb]. rewrite Eparse.
        eexists. split; [reflexivity|]. unfold set_structs. cbn [u_udts u_data_types u_programs u_tasks].
        split; [reflexivity|]. split; [reflexivity|]. split; [reflexivity|]. split; [reflexivity|].
        destruct Hinv as [G S N T C Rr]. constructor; unfold keys in *; cbn [u_udts u_structs u_data_types]; try assumption.
        intros tid a Hget. destruct (Z.eq_dec tid (t_id t)) as [-> | Hne].
        + rewrite zdict_get_set_same in Hget. injection Hget as <-. eauto.
        + rewrite zdict_get_set_other in Hget by exact Hne. eauto.
    Qed.

    (* ---------------------------------------------------------------- the definition bytes *)
    Lemma read_ok e t l fuel :
      ts = e ++ t :: l -> (max_blob p < fuel)%nat ->
      exists area,
        read_template lstate (target_call cap) fuel st0 (t_id t) (template_defsize t) 0 []
        = (st0, Done (template_records ab t ++ area))
        /\ names_area_ok t area.
    Proof.
      intros Hsplit Hfuel.
      destruct (tmpl_wf e t l Hsplit) as (Hfind & _ & Hin & Hid & _ & _ & (_ & Hwant & _) & Hcore & _ & _ & Hw0 & _).
      set (blob := template_blob ab t).
      assert (Hpeer : fragment_peer lstate (target_call cap) (fun s => s = st0) (t_id t) (template_defsize t) blob).
      { intros st off rq -> Hoff Hw Hl Erq.
        unfold template_read_request in Erq.
        rewrite enc_s_nonneg in Erq by lia. cbn [bind] in Erq.
        rewrite enc_u_ok in Erq by (rewrite pow256_2; lia). cbn [bind] in Erq.
        destruct table_constants as (_ & _ & E76 & _). rewrite E76 in Erq.
        destruct (template_request_form 76 (t_id t) (le_enc 4 off ++ le_enc 2 (template_defsize t * 4 - 21 - off)) ltac:(lia))
          as (seg & Ef & Hseg).
        rewrite Ef in Erq. injection Erq as <-.
        destruct (target_call_read cap st0 t ([32; 108] ++ seg) off (template_defsize t * 4 - 21 - off)
                                   ltac:(lia) (resolve_template p (t_id t) t seg Hseg Hfind) ltac:(lia) ltac:(lia) Hl)
          as (k & v & Ecall & Hk & Hk1).
        exists k, st0, v. split; [exact Ecall|]. split; [reflexivity|]. split; [exact Hk | exact Hk1]. }
      assert (Hreq : forall off, 0 <= off -> off <= template_defsize t * 4 - 21 -> off <= Z.of_nat (length blob) ->
                                 exists rq, template_read_request (t_id t) (template_defsize t) off = Ok rq).
      { intros off H0 H1 H2. unfold template_read_request.
        rewrite enc_s_nonneg by lia. cbn [bind]. rewrite enc_u_ok by (rewrite pow256_2; lia). cbn [bind].
        destruct (template_request_form SVC_READ_TAG (t_id t) (le_enc 4 off ++ le_enc 2 (template_defsize t * 4 - 21 - off)) ltac:(lia))
          as (seg & Ef & _). eauto. }
      destruct (template_fragment_independent lstate (target_call cap) (fun s => s = st0) (t_id t) (template_defsize t) blob
                                              Hpeer Hreq fuel st0 eq_refl Hw0) as (st' & Eread & ->).
      { pose proof (max_blob_ge p t ab Hin). fold blob in H. lia. }
      destruct (served_shape ab t Hcore Hw0) as (area & Earea & Hok).
      exists area. split; [|exact Hok]. rewrite Eread. fold blob in Earea. rewrite Earea. reflexivity.
    Qed.

    Lemma in_struct_ids t m tid : In m (t_members t) -> m_ty m = BStruct tid -> In tid (struct_ids_of_members t).
    Proof. intros Hm Hty. unfold struct_ids_of_members. apply in_flat_map. exists m. split; [exact Hm|]. rewrite Hty. left; reflexivity. Qed.
    Lemma struct_ids_in t tid : In tid (struct_ids_of_members t) -> exists m, In m (t_members t) /\ m_ty m = BStruct tid.
    Proof.
      unfold struct_ids_of_members. intros H. apply in_flat_map in H. destruct H as (m & Hm & Hin).
      exists m. split; [exact Hm|]. destruct (m_ty m) as [c|x|w]; [destruct Hin | | destruct Hin]. destruct Hin as [-> | []]. reflexivity.
    Qed.

    (* ---------------------------------------------------------------- _get_data_type *)
    Theorem get_data_type_mirrors : forall n e t l, ts = e ++ t :: l -> length e = n ->
      forall fuel u w, (n + max_blob p < fuel)%nat -> Z.land w 4095 = t_id t -> Inv u -> Reach (t_id t) ->
      exists u' d, get_data_type lstate (target_call cap) fuel u st0 (t_id t) w = (st0, u', Done d)
                   /\ Good (t_id t) d /\ Inv u' /\ Step (S n) u u' /\ Post (t_id t) u'.
    Proof.
      induction n as [n IHn] using lt_wf_ind. intros e t l Hsplit Hlen fuel u w Hfuel Hw Hinv Hreach.
      destruct (tmpl_wf e t l Hsplit) as (Hfind & Hrank & Hin & Hid & Hh & Hfacts & Hdom & Hcore & Hcnt & Hdef & Hw0 & Hnested).
      destruct fuel as [|f]; [lia|]. cbn [get_data_type].
      destruct (dict_get Z.eqb (u_udts u) (t_id t)) as [d0|] eqn:Ehit.
      - exists u, d0. split; [reflexivity|]. split; [exact (inv_good u Hinv _ _ Ehit)|]. split; [exact Hinv|].
        split; [apply Step_refl|]. exact (zdict_get_in _ _ _ Ehit).
      - destruct (makeup_ok e t l u Hsplit Hinv) as (u1 & Emk & Eu1 & Ed1 & Ep1 & Et1 & Hinv1). rewrite Emk.
        destruct (read_ok e t l (S f) Hsplit ltac:(lia)) as (area & Eread & Harea).
        cbn [ta_defsize template_attrs_of]. rewrite Eread.
        destruct (parse_template_blob lstate (get_data_type lstate (target_call cap) f) (fun u s => s = st0 /\ Inv u)
                    Good (Step n) Post (Step_refl n) (Step_trans n) (Post_step n) ab t w u1 st0 area)
          as (s' & u3 & infos & Eparse & HF & (-> & Hinv3) & Hstep3 & Hpost3).
        + intros u' s' tid w' m (-> & Hinv') Hm Hty Hw'.
          destruct (Hnested m tid Hm Hty) as (e1 & t' & e2 & He & Hid').
          assert (Hsplit' : ts = e1 ++ t' :: (e2 ++ t :: l)) by (rewrite Hsplit, He, <- app_assoc; reflexivity).
          assert (Hlt : (length e1 < n)%nat) by (subst n; rewrite He, app_length; cbn [length]; lia).
          assert (Hr' : Reach (t_id t')).
          { rewrite Hid'. eapply Reach_step; [exact Hreach | exact Hfind | eapply in_struct_ids; eassumption]. }
          destruct (IHn (length e1) Hlt e1 t' _ Hsplit' eq_refl f u' w' ltac:(lia) ltac:(rewrite Hid'; exact Hw') Hinv' Hr')
            as (u'' & d & Eg & Hg & Hi & Hs & Hp).
          rewrite Hid' in *. exists st0, u'', d. split; [exact Eg|]. split; [exact Hg|]. split; [auto|].
          split; [eapply Step_mono; [|exact Hs]; lia | exact Hp].
        + exact (tf_fields t Hfacts).
        + destruct Hdom as (_ & _ & Hn & _). exact Hn.
        + exact Harea.
        + exact Hw.
        + auto.
        + rewrite Eparse.
          destruct (obs_of_built ts Good Good_exp t infos Hfind Hfacts HF) as (Hexp & Hname).
          set (d := exp_datatype infos t) in *.
          assert (Hg : Good (t_id t) d) by (split; [exact Hexp | eauto]).
          assert (Hnew : ~ In (t_id t) (keys u3)).
          { intros Hk. destruct Hstep3 as (_ & Hb & _). destruct (Hb _ Hk) as [Hold | Hr].
            - unfold keys in Hold. rewrite Eu1 in Hold. exact (zdict_get_notin _ _ Ehit Hold).
            - rewrite Hrank in Hr. lia. }
          assert (Hmiss : dict_get Z.eqb (u_udts u3) (t_id t) = None).
          { destruct (dict_get Z.eqb (u_udts u3) (t_id t)) eqn:E; [|reflexivity].
            exfalso. apply Hnew. eapply zdict_get_in. exact E. }
          assert (Hnames : forall k' v', In (k', v') (u_data_types u3) -> otext_eqb k' (dt_name d) = false).
          { intros k' v' Hkv. rewrite (inv_types u3 Hinv3) in Hkv. apply in_map_iff in Hkv.
            destruct Hkv as ([id' d'] & E & Hin'). cbn [snd] in E. injection E as <- <-.
            assert (Hget : dict_get Z.eqb (u_udts u3) id' = Some d').
            { pose proof (inv_nodup u3 Hinv3) as Hnd. unfold keys in Hnd. clear - Hin' Hnd.
              induction (u_udts u3) as [|[a b] r IH]; [destruct Hin'|]. cbn [map fst] in Hnd. inversion Hnd as [|? ? Hn Hnd']; subst.
              cbn [dict_get]. destruct Hin' as [E | Hin'].
              - injection E as -> ->. rewrite Z.eqb_refl. reflexivity.
              - destruct (a =? id') eqn:Ea; [|apply IH; assumption].
                exfalso. apply Hn. apply Z.eqb_eq in Ea. subst a. apply (in_map fst) in Hin'. exact Hin'. }
            destruct (inv_good u3 Hinv3 _ _ Hget) as (_ & t'' & Ef'' & En'').
            rewrite En'', Hname. cbn [otext_eqb]. apply text_eqb_neq. intros Eq.
            apply find_template_in in Ef''. destruct Ef'' as [Hin'' Hid''].
            assert (t'' = t) by (eapply (nodup_map_inj (fun x => display_name (t_name x))); eassumption).
            subst t''. apply Hnew. rewrite Hid''. eapply zdict_get_in. exact Hget. }
          eexists. exists d. split; [reflexivity|]. split; [exact Hg|].
          rewrite (zdict_set_absent _ _ _ Hmiss), (odict_set_absent _ _ _ Hnames).
          unfold set_data_types, set_udts. cbn [u_programs u_tasks u_structs u_udts u_data_types].
          assert (Hkeys' : forall k, In k (map fst (u_udts u3 ++ [(t_id t, d)])) <-> In k (keys u3) \/ k = t_id t).
          { intros k. rewrite map_app, in_app_iff. cbn [map fst In]. unfold keys. intuition congruence. }
          split; [|split].
          * (* the invariant *)
            constructor; unfold keys; cbn [u_programs u_tasks u_structs u_udts u_data_types].
            -- intros tid d' Hget. destruct (Z.eq_dec tid (t_id t)) as [-> | Hne].
               ++ assert (dict_get Z.eqb (u_udts u3 ++ [(t_id t, d)]) (t_id t) = Some d) as E.
                  { rewrite <- (zdict_set_absent _ _ _ Hmiss). apply zdict_get_set_same. }
                  rewrite E in Hget. injection Hget as <-. exact Hg.
               ++ rewrite <- (zdict_set_absent _ _ _ Hmiss), zdict_get_set_other in Hget by exact Hne.
                  exact (inv_good u3 Hinv3 _ _ Hget).
            -- exact (inv_structs u3 Hinv3).
            -- rewrite map_app. cbn [map fst]. apply NoDup_app_one; [exact (inv_nodup u3 Hinv3) | exact Hnew].
            -- rewrite map_app, <- (inv_types u3 Hinv3). reflexivity.
            -- intros tid t0 tid' Hk Hf0 Hm0. apply Hkeys'. apply Hkeys' in Hk. destruct Hk as [Hk | ->].
               ++ left. exact (inv_closed u3 Hinv3 _ _ _ Hk Hf0 Hm0).
               ++ left. rewrite Hfind in Hf0. injection Hf0 as <-.
                  destruct (struct_ids_in t tid' Hm0) as (m & Hm & Hty). exact (Hpost3 m tid' Hm Hty).
            -- intros tid Hk. apply Hkeys' in Hk. destruct Hk as [Hk | ->]; [exact (inv_reach u3 Hinv3 _ Hk) | exact Hreach].
          * (* the step *)
            destruct Hstep3 as (S1 & S2 & S3 & S4). unfold Step, keys in *. cbn [u_programs u_tasks u_udts].
            split; [|split; [|split; congruence]].
            -- intros k Hk. apply Hkeys'. left. apply S1. rewrite Eu1. exact Hk.
            -- intros k Hk. apply Hkeys' in Hk. destruct Hk as [Hk | ->].
               ++ destruct (S2 k Hk) as [Ho | Hr]; [left; rewrite <- Eu1; exact Ho | right; lia].
               ++ right. rewrite Hrank. lia.
          * unfold Post, keys. cbn [u_udts]. apply Hkeys'. right. reflexivity.
    Qed.
  End Roots.
End Mirror.
