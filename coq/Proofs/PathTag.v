(* Proofs/PathTag.v — tag strings and routes: tag_request_path applied to the rendering of a tag
   AST builds exactly the segments the AST means (induction on the member list, string lemmas),
   hops built as PortSegment objects mean what they say; both then go through Proofs/PathSeg.v. *)
From Coq Require Import String.
From PV Require Import Base.Bytes Base.BytesLemmas Base.Proto Base.Res Base.PyStr Gen.PathTables
     Model.Path Spec.EPathParser Proofs.PathStr Proofs.PathSeg.
From Coq Require Import ZifyBool.
Open Scope Z_scope.
Ltac Zify.zify_post_hook ::= Z.to_euclidean_division_equations.

Lemma forallb_impl {A} (P Q : A -> bool) l :
  (forall a, P a = true -> Q a = true) -> forallb P l = true -> forallb Q l = true.
Proof.
  intros H. induction l as [|a l IH]; cbn [forallb]; [reflexivity|].
  intros H1. apply andb_true_iff in H1 as [Ha Hl]. now rewrite (H a Ha), (IH Hl).
Qed.

(* ---------------------------------------------------------------- characters of a rendered level *)
Lemma name_chars n : forallb name_char n = true ->
  nosep 46 n = true /\ nosep 91 n = true /\ nosep 58 n = true /\ ascii_ok n = true.
Proof.
  intros H. repeat split; (eapply forallb_impl; [|exact H]); intros c Hc; unfold name_char in Hc; lia.
Qed.

Lemma digits_nosep c d : all_digits d = true -> (c < 48 \/ 57 < c) -> nosep c d = true.
Proof.
  intros H Hc. eapply forallb_impl; [|exact H]. intros a Ha. unfold is_ascii_digit in Ha. lia.
Qed.

Lemma nosep_app c a b : nosep c (a ++ b) = nosep c a && nosep c b.
Proof. unfold nosep. apply forallb_app. Qed.

Lemma nosep_join c sep parts : nosep c sep = true -> forallb (nosep c) parts = true -> nosep c (join sep parts) = true.
Proof.
  intros Hs. induction parts as [|p [|q r] IH]; intros H; cbn [join]; [reflexivity| |].
  - cbn [forallb] in H. now rewrite andb_true_r in H.
  - cbn [forallb] in H. apply andb_true_iff in H as [Hp Hr].
    rewrite !nosep_app, Hp, Hs. cbn [andb]. apply IH. exact Hr.
Qed.

Definition wf_idx_digits (idx : list digits) : Prop :=
  forallb (fun d => isdigit d && (len d <=? 4300)) idx = true.

Lemma wf_index_digits limit idx : forallb (wf_index limit) idx = true -> wf_idx_digits idx.
Proof.
  unfold wf_idx_digits. apply forallb_impl. intros d H. unfold wf_index, digits_ok in H.
  apply andb_true_iff in H as [H _]. exact H.
Qed.

Lemma idx_all_digits idx : wf_idx_digits idx -> forallb all_digits idx = true.
Proof.
  apply forallb_impl. intros d H. apply andb_true_iff in H as [H _]. now apply isdigit_all in H.
Qed.

Lemma render_idx_nosep c idx : wf_idx_digits idx -> c <> 91 -> c <> 93 -> c <> 44 -> (c < 48 \/ 57 < c) ->
  nosep c (render_idx idx) = true.
Proof.
  intros H H1 H2 H3 H4. destruct idx as [|d ds]; [reflexivity|]. unfold render_idx.
  rewrite !nosep_app. cbn [nosep forallb].
  rewrite nosep_join; [lia|cbn [nosep forallb]; lia|].
  eapply forallb_impl; [|exact (idx_all_digits _ H)]. intros a Ha. now apply digits_nosep.
Qed.

(* ---------------------------------------------------------------- _find_tag_index *)
Lemma find_tag_index_level name idx :
  nosep 91 name = true -> wf_idx_digits idx -> find_tag_index (name ++ render_idx idx) = (name, idx).
Proof.
  intros Hn Hi. destruct idx as [|d ds].
  - cbn [render_idx]. rewrite app_nil_r. unfold find_tag_index. now rewrite contains_chr_nosep.
  - unfold render_idx, find_tag_index.
    replace (name ++ [91] ++ join [44] (d :: ds) ++ [93]) with ((name ++ 91 :: join [44] (d :: ds)) ++ [93])
      by (now rewrite <- !app_assoc).
    rewrite removelast_snoc.
    replace (contains_chr 91 ((name ++ 91 :: join [44] (d :: ds)) ++ [93])) with true
      by (rewrite <- app_assoc; cbn [app]; symmetry; apply contains_chr_app_cons).
    unfold find. rewrite find_from_nosep by exact Hn. cbn [Nat.add].
    rewrite firstn_app_exact.
    replace (name ++ 91 :: join [44] (d :: ds)) with ((name ++ [91]) ++ join [44] (d :: ds))
      by (now rewrite <- app_assoc).
    replace (S (length name)) with (length (name ++ [91])) by (rewrite app_length; cbn [length]; lia).
    rewrite skipn_app_exact. f_equal.
    pose proof (idx_all_digits _ Hi) as Hd. cbn [forallb] in Hd. apply andb_true_iff in Hd as [Hd Hds].
    apply split_join.
    + apply digits_nosep; [exact Hd|lia].
    + eapply forallb_impl; [|exact Hds]. intros a Ha. apply digits_nosep; [exact Ha|lia].
Qed.

Lemma dval_spec d : isdigit d = true -> digits_val d 0 = Some (dval d) /\ 0 <= dval d.
Proof.
  intros H. destruct (isdigit_all d H) as [Ha _]. destruct (digits_val_total d 0 Ha) as [v Hv].
  unfold dval. rewrite Hv. split; [reflexivity|]. eapply digits_val_nonneg; [|exact Hv]. lia.
Qed.

Lemma map_res_int idx : wf_idx_digits idx -> map_res py_int_full idx = Ok (map dval idx).
Proof.
  unfold wf_idx_digits. induction idx as [|d ds IH]; cbn [forallb map_res map]; [reflexivity|].
  intros H. apply andb_true_iff in H as [Hd Hds]. apply andb_true_iff in Hd as [Hd Hl].
  destruct (dval_spec d Hd) as [Hv _].
  rewrite (py_int_full_digits d (dval d) Hd) by (unfold int_max_str_digits; lia || exact Hv).
  cbn [bind]. now rewrite (IH Hds).
Qed.

(* ---------------------------------------------------------------- the segments of a level list *)
Definition level_segs (l : level) : list seg := DataSym (lv_name l) :: member_segs (map dval (lv_idx l)).

Lemma wf_level_facts limit l : wf_level limit l = true ->
  forallb name_char (lv_name l) = true /\ 1 <= len (lv_name l) <= 255 /\ forallb (wf_index limit) (lv_idx l) = true.
Proof.
  unfold wf_level, wf_name. intros H. apply andb_true_iff in H as [H Hi].
  apply andb_true_iff in H as [H H3]. apply andb_true_iff in H as [H1 H2]. repeat split; try assumption; lia.
Qed.

Lemma attr_segments_levels limit levels : forallb (wf_level limit) levels = true ->
  attr_segments (map render_level levels) = Ok (flat_map level_segs levels).
Proof.
  induction levels as [|l ls IH]; cbn [forallb map attr_segments flat_map]; [reflexivity|].
  intros H. apply andb_true_iff in H as [Hl Hls]. destruct (wf_level_facts _ _ Hl) as (Hn & _ & Hi).
  destruct (name_chars _ Hn) as (_ & H91 & _ & _). pose proof (wf_index_digits _ _ Hi) as Hd.
  replace (find_tag_index (render_level l)) with (lv_name l, lv_idx l)
    by (symmetry; apply (find_tag_index_level _ _ H91 Hd)).
  rewrite (map_res_int _ Hd). cbn [bind]. rewrite (IH Hls). reflexivity.
Qed.

Lemma render_level_nosep limit c l : wf_level limit l = true -> (c = 46 \/ c = 58) -> nosep c (render_level l) = true.
Proof.
  intros H Hc. destruct (wf_level_facts _ _ H) as (Hn & _ & Hi). destruct (name_chars _ Hn) as (H46 & _ & H58 & _).
  unfold render_level. rewrite nosep_app. rewrite render_idx_nosep by (try exact (wf_index_digits _ _ Hi); lia).
  destruct Hc as [-> | ->]; [now rewrite H46|now rewrite H58].
Qed.

Lemma starts_with_self p r : starts_with p (p ++ r) = true.
Proof. induction p as [|x p IH]; cbn [starts_with app]; [reflexivity|]. now rewrite Z.eqb_refl, IH. Qed.

Lemma not_program s : nosep 58 s = true -> starts_with program_prefix s = false.
Proof.
  intros H. destruct (starts_with program_prefix s) eqn:E; [|reflexivity].
  apply starts_with_app in E as [r ->]. rewrite nosep_app in H. apply andb_true_iff in H as [H _].
  vm_compute in H. discriminate.
Qed.

(* the segments tag_request_path builds for a tag AST *)
Definition tag_segs (p : tagpath) (inst : option Z) (use : bool) : list seg :=
  match tp_program p with
  | Some n => DataSym (program_prefix ++ n) :: flat_map level_segs (tp_base p :: tp_members p)
  | None =>
      (match instance_used p inst use with
       | Some i => [Logical (txt "class_id") (LBytes class_symbol_object); Logical (txt "instance_id") (LInt i)]
                   ++ member_segs (map dval (lv_idx (tp_base p)))
       | None => level_segs (tp_base p)
       end) ++ flat_map level_segs (tp_members p)
  end.

Lemma tag_segments_render limit p inst use : wf_tagpath limit p = true ->
  tag_segments (render_tag p) inst use = Ok (Some (tag_segs p inst use)).
Proof.
  unfold wf_tagpath. intros H. apply andb_true_iff in H as [H Hm]. apply andb_true_iff in H as [Hp Hb].
  assert (Hall : forallb (wf_level limit) (tp_base p :: tp_members p) = true) by (cbn [forallb]; now rewrite Hb, Hm).
  assert (Hsplit46 : forallb (nosep 46) (map render_level (tp_members p)) = true).
  { clear -Hm. induction (tp_members p) as [|l ls IH]; cbn [map forallb] in *; [reflexivity|].
    apply andb_true_iff in Hm as [Hl Hls]. rewrite (render_level_nosep limit 46 l Hl) by lia. now apply IH. }
  unfold render_tag, tag_segments, tag_segs, instance_used.
  destruct (tp_program p) as [n|] eqn:Ep.
  - (* program scope *)
    apply andb_true_iff in Hp as [Hn Hl]. unfold wf_name in Hn.
    apply andb_true_iff in Hn as [Hn _]. apply andb_true_iff in Hn as [Hn _].
    destruct (name_chars _ Hn) as (H46 & H91 & _ & _).
    cbn [app map]. rewrite split_join.
    2:{ rewrite nosep_app, H46. reflexivity. }
    2:{ cbn [forallb]. rewrite (render_level_nosep limit 46 _ Hb) by lia. exact Hsplit46. }
    assert (Hno : contains_chr 91 (program_prefix ++ n) = false).
    { apply contains_chr_nosep. rewrite nosep_app, H91. reflexivity. }
    unfold find_tag_index. rewrite Hno. cbn [map_res bind].
    change (txt "Program:") with program_prefix. rewrite starts_with_self.
    change (render_level (tp_base p) :: map render_level (tp_members p)) with (map render_level (tp_base p :: tp_members p)).
    rewrite (attr_segments_levels limit (tp_base p :: tp_members p) Hall). cbn [bind negb].
    destruct inst as [i|]; [rewrite andb_false_r; cbn [andb]|]; reflexivity.
  - (* controller scope *)
    cbn [app map]. rewrite split_join.
    2:{ apply (render_level_nosep limit 46 _ Hb). lia. }
    2:{ exact Hsplit46. }
    destruct (wf_level_facts _ _ Hb) as (Hn & _ & Hi). destruct (name_chars _ Hn) as (_ & H91 & _ & _).
    pose proof (wf_index_digits _ _ Hi) as Hd.
    replace (find_tag_index (render_level (tp_base p))) with (lv_name (tp_base p), lv_idx (tp_base p))
      by (symmetry; apply (find_tag_index_level _ _ H91 Hd)).
    change (txt "Program:") with program_prefix.
    rewrite (not_program (render_level (tp_base p))) by (apply (render_level_nosep limit 58 _ Hb); lia).
    rewrite (map_res_int _ Hd). cbn [bind].
    rewrite (attr_segments_levels limit (tp_members p) Hm). cbn [bind negb andb].
    destruct inst as [i|]; [|reflexivity]. rewrite andb_true_r.
    destruct (use && negb (i =? 0)); reflexivity.
Qed.

(* ---------------------------------------------------------------- what those segments mean *)
Lemma denote_all_app a b : denote_all (a ++ b) =
  match denote_all a, denote_all b with Some x, Some y => Some (x ++ y) | _, _ => None end.
Proof.
  induction a as [|s a IH]; cbn [app denote_all].
  - destruct (denote_all b); reflexivity.
  - rewrite IH. destruct (denote s); [|reflexivity]. destruct (denote_all a); [|reflexivity].
    destruct (denote_all b); reflexivity.
Qed.

Lemma denote_members limit idx : limit <= LOGICAL_LIMIT -> forallb (wf_index limit) idx = true ->
  denote_all (member_segs (map dval idx)) = Some (map (fun ds => SLogical 2 (dval ds)) idx).
Proof.
  intros Hlim. induction idx as [|d ds IH]; cbn [forallb map member_segs denote_all]; [reflexivity|].
  intros H. apply andb_true_iff in H as [Hd Hds]. unfold wf_index, digits_ok in Hd.
  apply andb_true_iff in Hd as [Hd Hv]. apply andb_true_iff in Hd as [Hd _].
  destruct (dval_spec d Hd) as [_ Hpos].
  fold (member_segs (map dval ds)). rewrite (IH Hds).
  cbn [denote]. change (assoc_text (txt "member_id") spec_ltypes) with (Some 2).
  replace ((0 <=? dval d) && (dval d <? LOGICAL_LIMIT)) with true by lia. reflexivity.
Qed.

Lemma denote_level limit l : limit <= LOGICAL_LIMIT -> wf_level limit l = true ->
  denote_all (level_segs l) = Some (level_reading l).
Proof.
  intros Hlim H. destruct (wf_level_facts _ _ H) as (Hn & Hl & Hi). destruct (name_chars _ Hn) as (_ & _ & _ & Ha).
  unfold level_segs, level_reading. cbn [denote_all denote]. rewrite Ha. cbn [andb].
  replace ((1 <=? len (lv_name l)) && (len (lv_name l) <=? 255)) with true by lia. cbn [andb].
  now rewrite (denote_members limit _ Hlim Hi).
Qed.

Lemma denote_levels limit ls : limit <= LOGICAL_LIMIT -> forallb (wf_level limit) ls = true ->
  denote_all (flat_map level_segs ls) = Some (flat_map level_reading ls).
Proof.
  intros Hlim. induction ls as [|l ls IH]; cbn [forallb flat_map]; [reflexivity|].
  intros H. apply andb_true_iff in H as [Hl Hls].
  now rewrite denote_all_app, (denote_level limit l Hlim Hl), (IH Hls).
Qed.

Lemma denote_tag_segs limit p inst use :
  limit <= LOGICAL_LIMIT -> wf_tagpath limit p = true -> wf_instance limit p inst use = true ->
  denote_all (tag_segs p inst use) = Some (tag_reading p inst use).
Proof.
  intros Hlim H Hinst. unfold wf_tagpath in H. apply andb_true_iff in H as [H Hm]. apply andb_true_iff in H as [Hp Hb].
  unfold tag_segs, tag_reading, wf_instance, instance_used in *.
  destruct (tp_program p) as [n|] eqn:Ep.
  - apply andb_true_iff in Hp as [Hn Hl]. unfold wf_name in Hn.
    apply andb_true_iff in Hn as [Hn _]. apply andb_true_iff in Hn as [Hn Hl1].
    destruct (name_chars _ Hn) as (_ & _ & _ & Ha).
    cbn [denote_all denote]. rewrite ascii_ok_app, Ha. change (ascii_ok program_prefix) with true.
    cbn [andb]. rewrite len_app. change (len program_prefix) with 8.
    replace ((1 <=? 8 + len n) && (8 + len n <=? 255)) with true by (pose proof (len_nonneg n); lia). cbn [andb].
    rewrite (denote_levels limit (tp_base p :: tp_members p) Hlim) by (cbn [forallb]; now rewrite Hb, Hm).
    reflexivity.
  - destruct inst as [i|].
    + destruct (use && negb (i =? 0)) eqn:Eu.
      * destruct (wf_level_facts _ _ Hb) as (_ & _ & Hi).
        rewrite !denote_all_app, (denote_members limit _ Hlim Hi), (denote_levels limit _ Hlim Hm).
        cbn [denote_all denote]. change (assoc_text (txt "class_id") spec_ltypes) with (Some 0).
        change (assoc_text (txt "instance_id") spec_ltypes) with (Some 1).
        change (bytes_ok class_symbol_object && ((len class_symbol_object =? 1) || (len class_symbol_object =? 2) || (len class_symbol_object =? 4))) with true.
        change (le_dec class_symbol_object) with SYMBOL_CLASS.
        replace ((0 <=? i) && (i <? LOGICAL_LIMIT)) with true by lia. reflexivity.
      * change (level_segs (tp_base p) ++ flat_map level_segs (tp_members p)) with (flat_map level_segs (tp_base p :: tp_members p)).
        apply (denote_levels limit _ Hlim). cbn [forallb]. now rewrite Hb, Hm.
    + change (level_segs (tp_base p) ++ flat_map level_segs (tp_members p)) with (flat_map level_segs (tp_base p :: tp_members p)).
      apply (denote_levels limit _ Hlim). cbn [forallb]. now rewrite Hb, Hm.
Qed.

(* 4-byte values occur in a tag path only when an index / instance id needs them *)
Lemma guard_split f32 l :
  (table_f32 = f32 \/ existsb is32 l = false) -> existsb (seg_guard f32) l = false.
Proof.
  induction l as [|s l IH]; cbn [existsb]; [reflexivity|]. intros Hg. unfold seg_guard at 1.
  destruct Hg as [Hg|Hg].
  - replace (negb (table_f32 =? f32)) with false by lia. cbn [andb orb]. apply IH. now left.
  - apply orb_false_iff in Hg as [H1 H2]. rewrite H1, andb_false_r. cbn [orb]. apply IH. now right.
Qed.

Lemma members_not32 limit idx : limit <= 65536 -> forallb (wf_index limit) idx = true ->
  existsb is32 (member_segs (map dval idx)) = false.
Proof.
  intros Hlim. induction idx as [|d ds IH]; cbn [forallb map member_segs existsb]; [reflexivity|]. intros H1.
  apply andb_true_iff in H1 as [Hd Hds]. fold (member_segs (map dval ds)). rewrite (IH Hds).
  unfold wf_index in Hd. apply andb_true_iff in Hd as [_ Hd]. cbn [is32]. lia.
Qed.

Lemma levels_not32 limit ls : limit <= 65536 -> forallb (wf_level limit) ls = true ->
  existsb is32 (flat_map level_segs ls) = false.
Proof.
  intros Hlim. induction ls as [|l ls IH]; cbn [forallb flat_map]; [reflexivity|]. intros H1.
  apply andb_true_iff in H1 as [Hl Hls]. destruct (wf_level_facts _ _ Hl) as (_ & _ & Hi).
  unfold level_segs at 1. cbn [app existsb is32]. now rewrite existsb_app, (members_not32 limit _ Hlim Hi), (IH Hls).
Qed.

Lemma tag_segs_guard f32 limit p inst use :
  wf_tagpath limit p = true -> wf_instance limit p inst use = true ->
  (table_f32 = f32 \/ limit <= 65536) -> existsb (seg_guard f32) (tag_segs p inst use) = false.
Proof.
  intros H Hinst Hg. apply guard_split.
  destruct Hg as [Hg|Hg]; [now left|right].
  unfold wf_tagpath in H. apply andb_true_iff in H as [H Hm]. apply andb_true_iff in H as [Hp Hb].
  unfold tag_segs, wf_instance in *. destruct (tp_program p) as [n|] eqn:Ep.
  - cbn [existsb is32]. apply (levels_not32 limit); [exact Hg|]. cbn [forallb]. now rewrite Hb, Hm.
  - rewrite existsb_app, (levels_not32 limit _ Hg Hm), orb_false_r.
    destruct (wf_level_facts _ _ Hb) as (_ & _ & Hi).
    destruct (instance_used p inst use) as [i|].
    + cbn [app existsb is32]. rewrite (members_not32 limit _ Hg Hi).
      change (len class_symbol_object =? 4) with false. lia.
    + unfold level_segs. cbn [existsb is32]. apply (members_not32 limit _ Hg Hi).
Qed.

(* ---------------------------------------------------------------- tag_request_path *)
Theorem tag_path_ok_gen f32 limit p inst use :
  f32 = 2 \/ f32 = 3 -> limit <= LOGICAL_LIMIT -> (table_f32 = f32 \/ limit <= 65536) ->
  wf_tagpath limit p = true -> wf_instance limit p inst use = true ->
  exists body, Nat.even (length body) = true
    /\ parse_padded_epath_with f32 body = Some (tag_reading p inst use)
    /\ tag_request_path (render_tag p) inst use
       = (if len body / 2 <=? 255 then Ok (Some (len body / 2 :: body)) else Err DataError)
    /\ (len body / 2 <= 255 -> parse_counted_with f32 false (len body / 2 :: body) = Some (tag_reading p inst use)).
Proof.
  intros Hf Hlim Hg Hwf Hinst.
  destruct (epath_counted_ok f32 Hf (tag_segs p inst use) (tag_reading p inst use) false
              (denote_tag_segs limit p inst use Hlim Hwf Hinst) (tag_segs_guard f32 limit p inst use Hwf Hinst Hg))
    as (body & He & Hev & Hp & Henc & Hc).
  exists body. split; [exact Hev|]. split; [exact Hp|]. split; [|exact Hc].
  unfold tag_request_path. rewrite (tag_segments_render limit p inst use Hwf). cbn [bind].
  change padded_PADDED_EPATH with true. rewrite Henc. cbn [app].
  destruct (len body / 2 <=? 255); reflexivity.
Qed.

(* ---------------------------------------------------------------- routes *)
Lemma isdigit_with_dot a r : isdigit (a ++ 46 :: r) = false.
Proof.
  unfold isdigit. destruct (a ++ 46 :: r) eqn:E; [reflexivity|]. rewrite <- E.
  rewrite forallb_app. cbn [forallb]. change (is_ascii_digit 46) with false. now rewrite andb_false_r.
Qed.

Lemma spec_octet_digits o : spec_octet o = true -> all_digits o = true.
Proof. intros H. change (spec_octet o) with (octet_ok o) in H. now apply octet_ok_facts in H. Qed.

Lemma dotted_quad_addr a b c d :
  spec_octet a = true -> spec_octet b = true -> spec_octet c = true -> spec_octet d = true ->
  dotted_quad (addr_text a b c d) = true.
Proof.
  intros Ha Hb Hc Hd. unfold dotted_quad, addr_text.
  change (a ++ [46] ++ b ++ [46] ++ c ++ [46] ++ d) with (join [46] [a; b; c; d]).
  rewrite split_join.
  - now rewrite Ha, Hb, Hc, Hd.
  - apply digits_nosep; [now apply spec_octet_digits|lia].
  - cbn [forallb]. rewrite !digits_nosep; try reflexivity; try lia; now apply spec_octet_digits.
Qed.

Lemma denote_hop pmax h : pmax <= 65535 -> wf_hop pmax h = true -> denote (hop_seg h) = Some (hop_reading h).
Proof.
  intros Hpm H. unfold wf_hop in H. apply andb_true_iff in H as [Hp Hl].
  unfold hop_seg, hop_reading. cbn [denote].
  assert (Eport : denote_port (hop_port h) = Some (match hop_port h with
            | inl n => n | inr name => match assoc_text name spec_port_names with Some k => k | None => 0 end end)).
  { destruct (hop_port h) as [n|name]; cbn [denote_port].
    - now replace ((1 <=? n) && (n <=? 65535)) with true by lia.
    - destruct (assoc_text name spec_port_names); [reflexivity|discriminate]. }
  rewrite Eport. destruct (hop_to h) as [z|ds|a b c d]; cbn [denote_link].
  - now rewrite Hl.
  - unfold digits_ok in Hl. apply andb_true_iff in Hl as [Hl Hv]. apply andb_true_iff in Hl as [Hd Hl].
    rewrite Hd. destruct (dval_spec ds Hd) as [-> _]. now replace ((dval ds <=? 255) && (len ds <=? 4300)) with true by lia.
  - apply andb_true_iff in Hl as [Hl Hd]. apply andb_true_iff in Hl as [Hl Hc]. apply andb_true_iff in Hl as [Ha Hb].
    replace (isdigit (addr_text a b c d)) with false by (symmetry; apply (isdigit_with_dot a (b ++ [46] ++ c ++ [46] ++ d))).
    now rewrite dotted_quad_addr.
Qed.

Lemma denote_hops pmax hops : pmax <= 65535 -> forallb (wf_hop pmax) hops = true ->
  denote_all (map hop_seg hops) = Some (map hop_reading hops).
Proof.
  intros Hpm. induction hops as [|h hs IH]; cbn [forallb map denote_all]; [reflexivity|].
  intros H. apply andb_true_iff in H as [Hh Hhs]. now rewrite (denote_hop pmax h Hpm Hh), (IH Hhs).
Qed.

Lemma hops_guard f32 hops : existsb (seg_guard f32) (map hop_seg hops) = false.
Proof.
  induction hops as [|h hs IH]; cbn [map existsb]; [reflexivity|]. rewrite IH, orb_false_r.
  unfold seg_guard, hop_seg. cbn [is32]. apply andb_false_r.
Qed.

(* ---------------------------------------------------------------- port numbers outside 1..65535 *)
Lemma UINT_big z : 65536 <= z -> UINT_encode z = Err DataError.
Proof.
  intros H. unfold UINT_encode, uint_encode, in_urange. change (pow256 2) with 65536.
  now replace ((0 <=? z) && (z <? 65536)) with false by lia.
Qed.

(* a port number that does not fit 16 bits is refused: nothing is emitted *)
Lemma port_gt65535_rejected n link : 65536 <= n -> encode_seg true (Port (inl n) link) = Err DataError.
Proof.
  intros H. unfold encode_seg, encode_port, encode_port_with. cbn [bind].
  destruct (port_link_bytes link) as [lb|e]; [|reflexivity]. cbn [bind].
  destruct (14 <? n) eqn:E; [|lia]. now rewrite UINT_big by lia.
Qed.

(* a negative port number is refused *)
Lemma port_negative_rejected n link : n < 0 -> encode_seg true (Port (inl n) link) = Err DataError.
Proof.
  intros H. unfold encode_seg, encode_port, encode_port_with. cbn [bind].
  destruct (port_link_bytes link) as [lb|e]; [|reflexivity]. cbn [bind].
  destruct (14 <? n) eqn:E; [lia|]. cbn [bind].
  destruct (1 <? len lb).
  - destruct (USINT_encode (len lb)) as [l|e]; [|reflexivity]. cbn [bind].
    rewrite USINT_neg; [reflexivity|]. apply Z.lor_neg. now left.
  - cbn [bind]. now rewrite USINT_neg.
Qed.

(* port 0 (reserved, not a port number) is written as it is; the strict parser refuses it *)
Lemma port_zero_unreadable z : 0 <= z <= 255 ->
  encode_seg true (Port (inl 0) (LinkInt z)) = Ok [0; z] /\ parse_padded_epath [0; z] = None.
Proof.
  intros Hz. split.
  - apply (encode_port_plain (inl 0) 0 (LinkInt z) z); [reflexivity|lia|].
    cbn [port_link_bytes]. apply USINT_small. lia.
  - unfold parse_padded_epath, parse_padded_epath_with. destruct (bytes_ok [0; z] && Nat.even (length [0; z])); reflexivity.
Qed.
