(* Proofs/SockP.v — C12: Socket.receive / Socket.send over any transport script. *)
From PV Require Import Base.Bytes Base.BytesLemmas Base.Res Model.Sock.
From PV Require Gen.Consts.
From Coq Require Import ZifyBool.
Open Scope Z_scope.
Ltac Zify.zify_post_hook ::= Z.to_euclidean_division_equations.

Definition nonempty (c : bytes) : Prop := c <> [].

(* a reply frame per the EtherNet/IP encapsulation: 24-byte header whose bytes 2-3 hold, little
   endian, the number of bytes that follow *)
Definition well_formed_frame (f : bytes) : Prop :=
  (24 <= length f)%nat /\ le_dec (slice 2 4 f) = Z.of_nat (length f) - 24.

Lemma header_size_24 : header_size = 24.
Proof. reflexivity. Qed.

Lemma nonempty_length (c : bytes) : nonempty c -> (1 <= length c)%nat.
Proof. destruct c; cbn; [congruence|lia]. Qed.

Lemma concat_chunks_cons (c : bytes) r : concat (c :: r) = c ++ concat r.
Proof. reflexivity. Qed.

Lemma recv_nonempty_ok s tl c1 s' : recv RECV_SIZE s tl = (Ok c1, s') -> nonempty c1 -> recv_nonempty s tl = (Ok c1, s').
Proof. intros H Hc. unfold recv_nonempty. rewrite H. destruct c1; [congruence|reflexivity]. Qed.

(* one read from a script of non-empty chunks: returns a non-empty prefix of what remains *)
Lemma recv_nonempty_chunks c r rest tl :
  nonempty c ->
  exists c1 c2, recv_nonempty (map Chunk (c :: r) ++ rest) tl =
                  (Ok c1, map Chunk (c2 ++ r) ++ rest)
                /\ nonempty c1 /\ Forall nonempty c2 /\ c1 ++ concat c2 = c.
Proof.
  intros Hc. cbn [map app].
  destruct (length c <=? RECV_SIZE)%nat eqn:E.
  - exists c, []. cbn [app concat]. rewrite app_nil_r. repeat split; auto.
    apply recv_nonempty_ok; [|exact Hc]. unfold recv. now rewrite E.
  - exists (firstn RECV_SIZE c), [skipn RECV_SIZE c].
    assert (Hlen : (RECV_SIZE < length c)%nat) by (apply Nat.leb_gt; exact E).
    assert (H1 : nonempty (firstn RECV_SIZE c)).
    { intros H0. apply (f_equal (@length Z)) in H0. rewrite firstn_length in H0.
      unfold RECV_SIZE in *. cbn [length] in H0. lia. }
    assert (H2 : nonempty (skipn RECV_SIZE c)).
    { intros H0. apply (f_equal (@length Z)) in H0. rewrite skipn_length in H0. cbn [length] in H0. lia. }
    cbn [concat]. rewrite app_nil_r. repeat split; auto.
    + apply recv_nonempty_ok; [|exact H1]. unfold recv. now rewrite E.
    + apply firstn_skipn.
Qed.

Lemma slice_app_prefix (a b : nat) (d q : bytes) : (b <= length d)%nat -> slice a b (d ++ q) = slice a b d.
Proof.
  intros H. unfold slice. rewrite skipn_app.
  rewrite firstn_app. rewrite skipn_length.
  replace (b - a - (length d - a))%nat with 0%nat by lia. cbn [firstn]. now rewrite app_nil_r.
Qed.

Section Receive.
  Variable f : bytes.
  Hypothesis Hwf : well_formed_frame f.

  (* body loop: from any point with the length field already in [data] *)
  Lemma recv_body_complete tl : forall fuel data cs,
    Forall nonempty cs -> data ++ concat cs = f -> (4 <= length data)%nat ->
    (length (concat cs) <= fuel)%nat ->
    recv_body fuel data (Z.of_nat (length f) - 24) (map Chunk cs) tl = Done (Ok f).
  Proof.
    induction fuel as [|fuel IH]; intros data cs Hne Hcat H4 Hfuel.
    - assert (concat cs = []) as Hnil by (destruct (concat cs); cbn in *; [reflexivity|lia]).
      rewrite Hnil, app_nil_r in Hcat. subst data. cbn [recv_body]. rewrite header_size_24.
      destruct (Z.of_nat (length f) - 24 <? Z.of_nat (length f) - 24) eqn:E; [lia|reflexivity].
    - cbn [recv_body]. rewrite header_size_24.
      destruct (Z.of_nat (length data) - 24 <? Z.of_nat (length f) - 24) eqn:E.
      + destruct cs as [|c r].
        { cbn in Hcat. rewrite app_nil_r in Hcat. subst data. lia. }
        pose proof (Forall_inv Hne) as Hc; pose proof (Forall_inv_tail Hne) as Hr.
        destruct (recv_nonempty_chunks c r [] tl Hc) as (c1 & c2 & Hrecv & Hc1 & Hc2 & Hsplit).
        rewrite !app_nil_r in Hrecv. rewrite Hrecv.
        apply IH.
        * apply Forall_app; split; assumption.
        * rewrite concat_app, <- app_assoc, (app_assoc c1), Hsplit. exact Hcat.
        * rewrite app_length. lia.
        * rewrite concat_app, app_length. rewrite concat_chunks_cons, app_length in Hfuel.
          rewrite <- Hsplit, app_length in Hfuel. apply nonempty_length in Hc1. lia.
      + assert (length f <= length data)%nat by lia.
        assert (Hl : length (data ++ concat cs) = length f) by now rewrite Hcat.
        rewrite app_length in Hl.
        assert (concat cs = []) as Hnil by (destruct (concat cs); cbn in *; [reflexivity|lia]).
        rewrite Hnil, app_nil_r in Hcat. now subst data.
  Qed.

  Lemma recv_header_complete tl : forall fuel data cs,
    Forall nonempty cs -> data ++ concat cs = f -> (length (concat cs) <= fuel)%nat ->
    exists data' cs', recv_header fuel data (map Chunk cs) tl = Done (Ok (data', map Chunk cs'))
                      /\ Forall nonempty cs' /\ data' ++ concat cs' = f /\ (4 <= length data')%nat
                      /\ (length (concat cs') <= length (concat cs))%nat.
  Proof.
    destruct Hwf as [H24 _].
    induction fuel as [|fuel IH]; intros data cs Hne Hcat Hfuel.
    - assert (concat cs = []) as Hnil by (destruct (concat cs); cbn in *; [reflexivity|lia]).
      exists data, cs. cbn [recv_header]. rewrite Hnil, app_nil_r in Hcat. subst data.
      destruct (4 <=? length f)%nat eqn:E; [|apply Nat.leb_gt in E; lia].
      rewrite Hnil, app_nil_r. repeat split; auto; lia.
    - cbn [recv_header]. destruct (4 <=? length data)%nat eqn:E.
      + apply Nat.leb_le in E. exists data, cs. repeat split; auto.
      + apply Nat.leb_gt in E. destruct cs as [|c r].
        { cbn in Hcat. rewrite app_nil_r in Hcat. subst data. lia. }
        pose proof (Forall_inv Hne) as Hc; pose proof (Forall_inv_tail Hne) as Hr.
        destruct (recv_nonempty_chunks c r [] tl Hc) as (c1 & c2 & Hrecv & Hc1 & Hc2 & Hsplit).
        rewrite !app_nil_r in Hrecv. rewrite Hrecv.
        assert (Hlen : (length (concat (c2 ++ r)) < length (concat (c :: r)))%nat).
        { rewrite concat_app, app_length, concat_chunks_cons, app_length, <- Hsplit, app_length.
          apply nonempty_length in Hc1. lia. }
        destruct (IH (data ++ c1) (c2 ++ r)) as (d' & cs' & Hr' & Hne' & Hcat' & H4' & Hle').
        * apply Forall_app; split; assumption.
        * rewrite concat_app, <- app_assoc, (app_assoc c1), Hsplit. exact Hcat.
        * lia.
        * exists d', cs'. repeat split; auto. lia.
  Qed.

  (* C12, receive, success: every segmentation of the frame, down to one byte *)
  Theorem receive_any_segmentation cs tl fuel :
    concat cs = f -> Forall nonempty cs -> (length f + 1 <= fuel)%nat ->
    receive fuel (map Chunk cs) tl = Done (Ok f).
  Proof.
    intros Hcat Hne Hfuel. unfold receive.
    destruct (recv_header_complete tl fuel [] cs Hne) as (d' & cs' & Hr & Hne' & Hcat' & H4 & Hle).
    { exact Hcat. } { rewrite Hcat. lia. }
    rewrite Hr.
    assert (Hlenf : le_dec (slice 2 4 d') = Z.of_nat (length f) - 24).
    { destruct Hwf as [_ Hl]. rewrite <- Hl, <- Hcat'. symmetry. f_equal. apply slice_app_prefix. exact H4. }
    rewrite Hlenf. apply recv_body_complete; auto. rewrite Hcat in Hle. lia.
  Qed.

  (* what the peer may do instead of delivering the rest of the frame *)
  Inductive stops : list ev -> Prop :=
    | stop_end : stops []                       (* script exhausted: closed or timeout, by [tail] *)
    | stop_closed r : stops (Closed :: r)
    | stop_raise r : stops (Raise :: r).

  Lemma recv_nonempty_stops rest tl : stops rest -> exists s, recv_nonempty rest tl = (Err CommError, s).
  Proof. intros [| |]; unfold recv_nonempty, recv; [destruct tl|..]; eauto. Qed.

  Lemma recv_body_incomplete tl rest : stops rest -> forall fuel data cs q,
    Forall nonempty cs -> data ++ concat cs ++ q = f -> q <> [] -> (4 <= length data)%nat ->
    (length (concat cs) + 1 <= fuel)%nat ->
    recv_body fuel data (Z.of_nat (length f) - 24) (map Chunk cs ++ rest) tl = Done (Err CommError).
  Proof.
    intros Hstop. induction fuel as [|fuel IH]; intros data cs q Hne Hcat Hq H4 Hfuel; [lia|].
    assert (Hlt : (length data + length (concat cs) < length f)%nat).
    { rewrite <- Hcat, !app_length. apply nonempty_length in Hq. lia. }
    cbn [recv_body]. rewrite header_size_24.
    destruct (Z.of_nat (length data) - 24 <? Z.of_nat (length f) - 24) eqn:E; [|lia].
    destruct cs as [|c r].
    - cbn [map app]. destruct (recv_nonempty_stops rest tl Hstop) as [s Hs]. now rewrite Hs.
    - pose proof (Forall_inv Hne) as Hc; pose proof (Forall_inv_tail Hne) as Hr.
      destruct (recv_nonempty_chunks c r rest tl Hc) as (c1 & c2 & Hrecv & Hc1 & Hc2 & Hsplit).
      rewrite Hrecv. apply IH with (q := q); auto.
      + apply Forall_app; split; assumption.
      + rewrite concat_app, <- !app_assoc. rewrite concat_chunks_cons, <- Hsplit, <- !app_assoc in Hcat. exact Hcat.
      + rewrite app_length. lia.
      + rewrite concat_app, app_length. rewrite concat_chunks_cons, app_length, <- Hsplit, app_length in Hfuel.
        apply nonempty_length in Hc1. lia.
  Qed.

  Lemma recv_header_incomplete tl rest : stops rest -> forall fuel data cs q,
    Forall nonempty cs -> data ++ concat cs ++ q = f -> q <> [] ->
    (length (concat cs) + 1 <= fuel)%nat ->
    recv_header fuel data (map Chunk cs ++ rest) tl = Done (Err CommError)
    \/ exists data' cs', recv_header fuel data (map Chunk cs ++ rest) tl = Done (Ok (data', map Chunk cs' ++ rest))
                         /\ Forall nonempty cs' /\ data' ++ concat cs' ++ q = f /\ (4 <= length data')%nat
                         /\ (length (concat cs') <= length (concat cs))%nat.
  Proof.
    intros Hstop. induction fuel as [|fuel IH]; intros data cs q Hne Hcat Hq Hfuel; [lia|].
    cbn [recv_header]. destruct (4 <=? length data)%nat eqn:E.
    - apply Nat.leb_le in E. right. exists data, cs. repeat split; auto.
    - destruct cs as [|c r].
      + cbn [map app]. destruct (recv_nonempty_stops rest tl Hstop) as [s Hs]. rewrite Hs. now left.
      + pose proof (Forall_inv Hne) as Hc; pose proof (Forall_inv_tail Hne) as Hr.
        destruct (recv_nonempty_chunks c r rest tl Hc) as (c1 & c2 & Hrecv & Hc1 & Hc2 & Hsplit).
        rewrite Hrecv.
        assert (Hlen : (length (concat (c2 ++ r)) < length (concat (c :: r)))%nat).
        { rewrite concat_app, app_length, concat_chunks_cons, app_length, <- Hsplit, app_length.
          apply nonempty_length in Hc1. lia. }
        destruct (IH (data ++ c1) (c2 ++ r) q) as [Herr | (d' & cs' & Hr' & Hne' & Hcat' & H4' & Hle')].
        * apply Forall_app; split; assumption.
        * rewrite concat_app, <- !app_assoc. rewrite concat_chunks_cons, <- Hsplit, <- !app_assoc in Hcat. exact Hcat.
        * exact Hq.
        * lia.
        * now left.
        * right. exists d', cs'. repeat split; auto. lia.
  Qed.

  (* C12, receive, failure: the peer closes, times out or errors after any strict prefix, delivered
     in any segmentation: the call terminates with CommError (never hangs, never a partial frame) *)
  Theorem receive_peer_stops cs q rest tl fuel :
    concat cs ++ q = f -> q <> [] -> Forall nonempty cs -> stops rest ->
    (length f + 1 <= fuel)%nat ->
    receive fuel (map Chunk cs ++ rest) tl = Done (Err CommError).
  Proof.
    intros Hcat Hq Hne Hstop Hfuel. unfold receive.
    assert (Hl : (length (concat cs) < length f)%nat).
    { rewrite <- Hcat, app_length. apply nonempty_length in Hq. lia. }
    destruct (recv_header_incomplete tl rest Hstop fuel [] cs q Hne) as [Herr | (d' & cs' & Hr & Hne' & Hcat' & H4 & Hle)];
      auto; [lia | now rewrite Herr |].
    rewrite Hr.
    assert (Hlenf : le_dec (slice 2 4 d') = Z.of_nat (length f) - 24).
    { destruct Hwf as [_ Hlf]. rewrite <- Hlf, <- Hcat'. symmetry. f_equal. apply slice_app_prefix. exact H4. }
    rewrite Hlenf. apply recv_body_incomplete with (q := q); auto. lia.
  Qed.
End Receive.

(* ---- send *)
Definition is_prefix (w msg : bytes) : Prop := exists r, w ++ r = msg.

Lemma send_loop_spec : forall fuel msg total script wire,
  wire = firstn total msg -> (total <= length msg)%nat -> (length msg - total + 1 <= fuel)%nat ->
  exists r w, send_loop fuel msg total script wire = (Done r, w) /\ is_prefix w msg
              /\ (forall n, r = Ok n -> n = length msg /\ w = msg)
              /\ (forall e, r = Err e -> e = CommError).
Proof.
  induction fuel as [|fuel IH]; intros msg total script wire Hw Ht Hf; [lia|].
  cbn [send_loop]. destruct (total <? length msg)%nat eqn:E.
  - apply Nat.ltb_lt in E.
    assert (Hpre : is_prefix wire msg) by (exists (skipn total msg); subst wire; apply firstn_skipn).
    destruct script as [|[n|] r].
    + exists (Err CommError), wire. repeat split; auto; intros; congruence.
    + destruct (Nat.min n (length (skipn total msg)) =? 0)%nat eqn:Ek.
      * exists (Err CommError), wire. repeat split; auto; intros; congruence.
      * apply Nat.eqb_neq in Ek. rewrite skipn_length in *.
        apply IH; try lia.
        subst wire. set (k := Nat.min n (length msg - total)) in *.
        rewrite <- (firstn_skipn total (firstn (total + k) msg)).
        f_equal.
        -- rewrite firstn_firstn. f_equal. lia.
        -- rewrite <- firstn_skipn_comm. reflexivity.
    + exists (Err CommError), wire. repeat split; auto; intros; congruence.
  - apply Nat.ltb_ge in E. assert (total = length msg) by lia. subst total.
    exists (Ok (length msg)), wire. rewrite firstn_all in Hw. subst wire.
    split; [reflexivity|]. split; [exists []; apply app_nil_r|].
    split; [intros n Hn; injection Hn as <-; auto | intros e He; congruence].
Qed.

(* C12, send: never hangs; success means every byte was handed over, in order; failure is CommError
   and what was handed over is a prefix of the message *)
Theorem send_total msg script fuel :
  (length msg + 1 <= fuel)%nat ->
  exists r w, send fuel msg script = (Done r, w) /\ is_prefix w msg
              /\ (forall n, r = Ok n -> n = length msg /\ w = msg)
              /\ (forall e, r = Err e -> e = CommError).
Proof. intros H. unfold send. apply send_loop_spec; [reflexivity|lia|lia]. Qed.

Fixpoint sum_nat (l : list nat) : nat := match l with [] => 0 | x :: r => x + sum_nat r end.

Lemma send_loop_all : forall fuel msg total accepts wire,
  Forall (fun n => 0 < n)%nat accepts -> (length msg <= total + sum_nat accepts)%nat ->
  (total <= length msg)%nat -> wire = firstn total msg -> (length msg - total + 1 <= fuel)%nat ->
  send_loop fuel msg total (map Accept accepts) wire = (Done (Ok (length msg)), msg).
Proof.
  induction fuel as [|fuel IH]; intros msg total accepts wire Hpos Hsum Ht Hw Hf; [lia|].
  cbn [send_loop]. destruct (total <? length msg)%nat eqn:E.
  - apply Nat.ltb_lt in E. destruct accepts as [|n r]; [cbn in Hsum; lia|].
    pose proof (Forall_inv Hpos) as Hn; pose proof (Forall_inv_tail Hpos) as Hr. cbn beta in Hn. cbn [map].
    rewrite skipn_length.
    destruct (Nat.min n (length msg - total) =? 0)%nat eqn:Ek; [apply Nat.eqb_eq in Ek; lia|].
    apply IH; auto; try (cbn [sum_nat] in Hsum; lia).
    set (k := Nat.min n (length msg - total)). clearbody k.
    rewrite <- (firstn_skipn total (firstn (total + k) msg)).
    f_equal.
    + rewrite firstn_firstn. rewrite Hw. f_equal. lia.
    + rewrite <- firstn_skipn_comm. reflexivity.
  - apply Nat.ltb_ge in E. assert (total = length msg) by lia. subst total.
    rewrite firstn_all in Hw. now subst wire.
Qed.

(* C12, send, success: every pattern of partial sends that eventually accepts everything *)
Theorem send_all msg accepts fuel :
  Forall (fun n => 0 < n)%nat accepts -> (length msg <= sum_nat accepts)%nat -> (length msg + 1 <= fuel)%nat ->
  send fuel msg (map Accept accepts) = (Done (Ok (length msg)), msg).
Proof. intros Hp Hs Hf. unfold send. apply send_loop_all; auto; lia. Qed.
