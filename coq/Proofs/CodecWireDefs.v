(* Proofs/CodecWireDefs.v — C07: the computable GUARD of the wire-format theorems (definitions only).

   Spec/Wire.v is the reference.  After the codec repairs of /repo (commits 44461bb..bcb4254) the
   library deviates from it on ONE encoding class (and one decoding class, recognised by the
   reference itself: [STrunc], a buffer that ends inside an element of an unbounded array):

     enc_dev t v : Z     0 = none; 2 = while encoding v as t an array of bit strings is given more
                         bits than its length (the library does not truncate: the Logix driver relies
                         on passing the whole bit list of a BOOL array) *)
From PV Require Import Base.Bytes Model.Codec Spec.Wire.
Open Scope Z_scope.

Definition first_nz (a b : Z) : Z := if a =? 0 then b else a.
Section FirstDev.
  Context {A B : Type}.
  Variable f : A -> Z.
  Fixpoint first_dev (l : list A) : Z :=
    match l with [] => 0 | x :: r => first_nz (f x) (first_dev r) end.
  Variable g : A -> B -> Z.
  Fixpoint first_dev2 (la : list A) (lb : list B) : Z :=
    match la, lb with a :: la', b :: lb' => first_nz (g a b) (first_dev2 la' lb') | _, _ => 0 end.
End FirstDev.
Arguments first_dev {A} f l.
Arguments first_dev2 {A B} g la lb.

Fixpoint enc_dev (t : ty) (v : val) : Z :=
  match t with
  | TArrFixed n e =>
      match e, v with
      | TBits w, VList l => if (length l =? n * (8 * w))%nat then 0 else 2
      | _, VList l => first_dev (enc_dev e) (firstn n l)
      | _, _ => 0
      end
  | TArrAll e =>
      match e, v with
      | TBits _, _ => 0
      | _, VList l => first_dev (enc_dev e) l
      | _, _ => 0
      end
  | TStruct SPlain ms =>
      match v with
      | VDict d => first_dev (fun m : key * ty => match slookup d (fst m) with Some x => enc_dev (snd m) x | None => 0 end) ms
      | VList l => first_dev2 (fun (m : key * ty) x => enc_dev (snd m) x) ms l
      | _ => 0
      end
  | TStructTag ms _ priv _ =>
      match v with
      | VDict d => first_dev (fun m : (key * nat) * ty =>
                                if skey_in (fst (fst m)) priv then 0
                                else match slookup d (fst (fst m)) with Some x => enc_dev (snd m) x | None => 0 end) ms
      | _ => 0
      end
  | _ => 0
  end.
