(* Proofs/CodecWireDefs.v — C07: the computable GUARDS of the wire-format theorems (definitions only).

   Spec/Wire.v is the reference; the library deviates from it on the input classes below (each one
   reproduced on /repo, see known_findings/C07.jsonl and Props/C07.v).  The positive theorems are
   proved on the complement.

     enc_dev t v : Z     0 = none; otherwise the first deviation class met while encoding v as t
                         1 array whose element type is an n_bytes(..) INSTANCE (always DataError)
                         2 array of bit strings given more bits than its length (not truncated)
                         3 STRINGN with a character above U+007F (UTF-8: several bytes per character)
                         4 DATE_AND_TIME through the uniform call T.encode(value) (TypeError)
     dec_ty t : bool     types whose decoder follows the reference on every complete buffer:
                         excludes STRING2 / 4-byte-character strings (count read as bytes), STRINGN
                         (count 0 -> BufferEmptyError; UTF-8), fixed arrays of n_bytes instances,
                         unbounded arrays of bit strings (list of lists), StructTag templates whose
                         members are not listed by increasing offset or whose hidden hosts are not
                         plain scalars. *)
From PV Require Import Base.Bytes Model.Codec Spec.Wire.
Open Scope Z_scope.

Definition first_nz (a b : Z) : Z := if a =? 0 then b else a.
Section FirstDev.
  Context {A B : Type}.
  Variable f : A -> Z.
  Fixpoint first_dev (l : list A) : Z :=
    match l with [] => 0 | x :: r => first_nz (f x) (first_dev r) end.
  Variable g : A -> B -> Z.
  Fixpoint first_dev2 (la : list A) (lb : list B) : Z :=
    match la, lb with a :: la', b :: lb' => first_nz (g a b) (first_dev2 la' lb') | _, _ => 0 end.
End FirstDev.
Arguments first_dev {A} f l.
Arguments first_dev2 {A B} g la lb.

Fixpoint enc_dev (t : ty) (v : val) : Z :=
  match t with
  | TDateTime => 4
  | TStringN => match v with VStr s => if existsb (fun c => 128 <=? c) s then 3 else 0 | _ => 0 end
  | TArrFixed n e =>
      if is_nbytes e then 1
      else match e, v with
           | TBits w, VList l => if (length l =? n * (8 * w))%nat then 0 else 2
           | _, VList l => first_dev (enc_dev e) (firstn n l)
           | _, _ => 0
           end
  | TArrAll e =>
      if is_nbytes e then 1
      else match e, v with
           | TBits _, _ => 0
           | _, VList l => first_dev (enc_dev e) l
           | _, _ => 0
           end
  | TStruct SPlain ms =>
      match v with
      | VDict d => first_dev (fun m : key * ty => match slookup d (fst m) with Some x => enc_dev (snd m) x | None => 0 end) ms
      | VList l => first_dev2 (fun (m : key * ty) x => enc_dev (snd m) x) ms l
      | _ => 0
      end
  | TStructTag ms _ priv _ =>
      match v with
      | VDict d => first_dev (fun m : (key * nat) * ty =>
                                if skey_in (fst (fst m)) priv then 0
                                else match slookup d (fst (fst m)) with Some x => enc_dev (snd m) x | None => 0 end) ms
      | _ => 0
      end
  | _ => 0
  end.

(* scalars that decode every byte pattern of their width *)
Definition stotal (t : ty) : bool :=
  match t with
  | TBool | TReal _ => true
  | Codec.TInt _ w | TBits w => (0 <? w)%nat
  | _ => false
  end.
Fixpoint offsets_increasing (pos : nat) (l : list (nat * nat)) : bool :=
  match l with
  | [] => true
  | (o, w) :: r => (pos <=? o)%nat && offsets_increasing (o + w) r
  end.
Definition stag_ordered (ms : list ((key * nat) * ty)) (size : nat) : bool :=
  match all_some (map (extent_of size) ms) with
  | Some exts => offsets_increasing 0 exts
  | None => false
  end.

Fixpoint dec_ty (t : ty) : bool :=
  match t with
  | TStr _ _ e => match e with Latin1 => true | _ => false end
  | TStringN => false
  | TArrFixed _ e => dec_ty e && negb (is_nbytes e)
  | TArrAll e => dec_ty e && negb (is_bitstr e)
  | TStruct _ ms => forallb (fun m : key * ty => dec_ty (snd m)) ms
  | TStructTag ms _ priv size =>
      forallb (fun m : (key * nat) * ty => dec_ty (snd m)) ms
      && stag_ordered ms size
      && forallb (fun m : (key * nat) * ty => negb (skey_in (fst (fst m)) priv) || stotal (snd m)) ms
  | _ => true
  end.

(* the deviation class of a type excluded by [dec_ty] (for reports): first one met
     11 STRING2 / wide fixed-width strings   12 STRINGN   13 fixed array of n_bytes
     14 unbounded array of bit strings       15 StructTag member order / hidden host type *)
Fixpoint dec_dev (t : ty) : Z :=
  match t with
  | TStr _ _ e => match e with Latin1 => 0 | _ => 11 end
  | TStringN => 12
  | TArrFixed _ e => if is_nbytes e then 13 else dec_dev e
  | TArrAll e => if is_bitstr e then 14 else dec_dev e
  | TStruct _ ms => first_dev (fun m : key * ty => dec_dev (snd m)) ms
  | TStructTag ms _ priv size =>
      first_nz (first_dev (fun m : (key * nat) * ty => dec_dev (snd m)) ms)
               (if stag_ordered ms size
                   && forallb (fun m : (key * nat) * ty => negb (skey_in (fst (fst m)) priv) || stotal (snd m)) ms
                then 0 else 15)
  | _ => 0
  end.
