(* Proofs/LifecycleReopen.v — close(); open() works again (property C10, last clause). *)
From Coq Require Import ZifyBool.
From PV Require Import Base.Bytes Base.BytesLemmas Base.Res.
From PV Require Import Gen.Consts Gen.LifecycleGen.
From PV Require Import Spec.EncapParser Spec.MRParser Spec.TargetIface Spec.TargetCore.
From PV Require Import Proofs.TargetCoreP Proofs.LifecycleTarget Model.Lifecycle Proofs.LifecycleP.
Open Scope Z_scope.
Ltac Zify.zify_post_hook ::= Z.to_euclidean_division_equations.

Definition REG_FRAME : bytes :=
  [101; 0; 4; 0; 0; 0; 0; 0; 0; 0; 0; 0; 95; 112; 121; 99; 111; 109; 109; 95; 0; 0; 0; 0; 1; 0; 0; 0].
Lemma register_frame_0 : register_frame 0 = Ok REG_FRAME.
Proof. vm_compute. reflexivity. Qed.

(* the target grants a session to the driver's RegisterSession frame when its policy accepts sessions *)
Lemma tstep_register {S} (h : handler S) (t : tstate S) :
  cf_accept_session (t_cfg t) = true ->
  exists hd, in32 hd
    /\ snd (tstep h t REG_FRAME) = Some (encap_reply CMD_REGISTER hd 0 CFG_CONTEXT [1; 0; 0; 0])
    /\ t_sessions (fst (tstep h t REG_FRAME)) = hd :: t_sessions t.
Proof.
  intros Hacc. unfold tstep.
  replace (parse_header REG_FRAME) with
    (Some ({| h_cmd := 101; h_len := 4; h_session := 0; h_status := 0; h_context := CFG_CONTEXT; h_options := 0 |}, [1; 0; 0; 0]))
    by (vm_compute; reflexivity).
  replace (parse_frame REG_FRAME) with
    (RcOk {| f_cmd := CMD_REGISTER; f_session := 0; f_context := CFG_CONTEXT; f_body := BRegister |})
    by (vm_compute; reflexivity).
  unfold step_frame. cbn [f_body f_cmd f_session f_context h_cmd h_session logs t_cfg]. rewrite Hacc.
  eexists. split; [first [apply wrap32_in | apply norm32_in] |]. split; reflexivity.
Qed.

Lemma register_reply_valid hd : in32 hd ->
  let raw := encap_reply CMD_REGISTER hd 0 CFG_CONTEXT [1; 0; 0; 0] in
  register_valid raw = true /\ register_session_of raw = hd.
Proof.
  intros Hhd. cbv zeta. unfold in32 in Hhd. split.
  - unfold register_valid, base_error, command_status, encap_reply, mk_header, OFF_STATUS_HI, OFF_STATUS_LO, slice, CFG_CONTEXT, CMD_REGISTER.
    cbn [le_enc app List.length firstn skipn Nat.sub Nat.ltb Nat.leb le_dec]. reflexivity.
  - unfold register_session_of, encap_reply, mk_header, OFF_SESSION_LO, OFF_SESSION_HI, slice, CMD_REGISTER.
    cbn [le_enc app firstn skipn Nat.sub].
    change [hd mod 256; hd / 256 mod 256; hd / 256 / 256 mod 256; hd / 256 / 256 / 256 mod 256] with (le_enc 4 hd).
    apply le_dec_enc_id. change (pow256 4) with 4294967296. lia.
Qed.

Section Reopen.
Context {S : Type} (h : handler S).

(* no fault is scheduled for the socket calls an open() makes from this world *)
Definition quiet_open (flt : faults) (w : world (S := S)) : Prop :=
  flookup (w_nconnect w) (f_connect flt) = None /\ fmem (w_nsend w) (f_vanish flt) = false
  /\ flookup (w_nsend w) (f_send flt) = None /\ fmem (w_nsend w) (f_drop flt) = false
  /\ flookup (w_nsend w) (f_send_after flt) = None /\ flookup (w_nrecv w) (f_recv flt) = None.

Lemma urandom_facts (w : world (S := S)) :
  w_t (snd (urandom w)) = w_t w /\ w_queue (snd (urandom w)) = w_queue w /\ w_open (snd (urandom w)) = w_open w
  /\ w_dead (snd (urandom w)) = w_dead w /\ w_nsend (snd (urandom w)) = w_nsend w /\ w_nrecv (snd (urandom w)) = w_nrecv w.
Proof. unfold urandom. destruct (w_rands w); cbn; auto 10. Qed.

(* _register_session on an open, quiet socket *)
Lemma drv_register_session_works flt (w : world (S := S)) d :
  d_session d = 0 -> d_sock d = true -> w_open w = true -> w_dead w = false -> w_queue w = [] ->
  fmem (w_nsend w) (f_vanish flt) = false -> flookup (w_nsend w) (f_send flt) = None -> fmem (w_nsend w) (f_drop flt) = false ->
  flookup (w_nsend w) (f_send_after flt) = None -> flookup (w_nrecv w) (f_recv flt) = None ->
  cf_accept_session (t_cfg (w_t w)) = true ->
  forall s' r, drv_register_session h flt (w, d) = (s', r) ->
  exists hd, r = Ok (Some hd) /\ snd s' = set_session hd d /\ in32 hd
             /\ t_sessions (w_t (fst s')) = hd :: t_sessions (w_t w).
Proof.
  intros Hs Hk Ho Hd Hq Q2 Q3 Q4 Q5 Q6 Hacc s' r H.
  unfold drv_register_session in H. rewrite Hs in H. cbn [Z.eqb negb] in H.
  rewrite register_frame_0 in H. unfold drv_send, tx in H. cbv beta iota zeta in H. rewrite Hk in H.
  unfold sock_send in H. cbv beta iota zeta in H.
  destruct (w_open w); [| discriminate]. destruct (w_dead w); [discriminate |].
  destruct (fmem (w_nsend w) (f_vanish flt)); [discriminate |].
  destruct (flookup (w_nsend w) (f_send flt)); [discriminate |].
  destruct (flookup (w_nsend w) (f_send_after flt)); [discriminate |].
  destruct (fmem (w_nsend w) (f_drop flt)); [discriminate |].
  cbn [negb orb] in H.
  destruct (tstep_register h (w_t w) Hacc) as (hd & Hhd & Hrep & Hses).
  destruct (tstep h (w_t w) REG_FRAME) as [t' rep]. cbn [fst snd] in Hrep, Hses. subst rep.
  cbn [app wrap_all] in H.
  unfold rx in H. cbv beta iota zeta in H. rewrite Hk in H.
  unfold sock_recv in H. cbv beta iota zeta in H. cbn [w_open w_dead w_nrecv w_queue] in H.
  destruct (w_queue w); [| discriminate].
  destruct (flookup (w_nrecv w) (f_recv flt)); [discriminate |].
  cbn [negb orb wrap_all app] in H.
  destruct (register_reply_valid hd Hhd) as [Hv Hs']. cbv zeta in Hv, Hs'. rewrite Hv, Hs' in H.
  cbn [fst snd] in H. inversion H; subst. exists hd. cbn [fst snd w_t]. auto.
Qed.

(* CIPDriver.open on a closed driver, no fault, session-granting policy *)
Lemma cip_open_works flt (s : st (S := S)) :
  d_opened (snd s) = false -> d_session (snd s) = 0 -> quiet_open flt (fst s) ->
  cf_accept_session (t_cfg (w_t (fst s))) = true ->
  forall s' r, cip_open h flt s = (s', r) ->
  r = Ok true /\ d_opened (snd s') = true /\ d_session (snd s') <> 0
  /\ mem_z (d_session (snd s')) (t_sessions (w_t (fst s'))) = true.
Proof.
  destruct s as [w d]. cbn [fst snd]. intros Ho Hs (Q1 & Q2 & Q3 & Q4 & Q5 & Q6) Hacc s' r.
  unfold cip_open. rewrite Ho. unfold sock_connect. rewrite Q1.
  set (w1 := mkW _ _ _ _ _ _ _ _ _ _).
  pose proof (urandom_facts w1) as (A1 & A2 & A3 & A4 & A5 & A6).
  destruct (urandom w1) as [c w2]. cbn [snd] in *.
  pose proof (urandom_facts w2) as (B1 & B2 & B3 & B4 & B5 & B6).
  destruct (urandom w2) as [v w3]. cbn [snd] in *.
  set (d1 := set_ids c v (set_opened true (set_sock true d))).
  destruct (drv_register_session h flt (w3, d1)) as [s2 r2] eqn:E.
  destruct (drv_register_session_works flt w3 d1) with (s' := s2) (r := r2) as (hd & -> & Hd2 & Hhd & Hses);
    try exact E;
    try (unfold d1; cbn [set_ids set_opened set_sock d_session d_sock]; assumption);
    try (rewrite ?B1, ?B2, ?B3, ?B4, ?B5, ?B6, ?A1, ?A2, ?A3, ?A4, ?A5, ?A6; unfold w1; cbn [w_t w_queue w_open w_dead w_nsend w_nrecv]; assumption || reflexivity).
  intros H. inversion H; subst. rewrite Hd2.
  unfold in32 in Hhd. unfold d1. cbn [set_session set_ids set_opened set_sock d_opened d_session].
  repeat split; try lia. rewrite Hses. cbn [mem_z existsb]. rewrite Z.eqb_refl. reflexivity.
Qed.

Lemma drv_close_reset flt (s : st (S := S)) :
  exists w' d', fst (drv_close h flt s) = (w', reset_driver d').
Proof.
  unfold drv_close.
  repeat (match goal with
          | |- context [let (_, _) := ?x in _] => destruct x
          | |- context [match ?x with _ => _ end] => destruct x
          | |- context [if ?x then _ else _] => destruct x
          end); cbn [fst]; eexists; eexists; reflexivity.
Qed.

(* close(); open(): whatever the state before, when no fault hits that open and the policy grants sessions *)
Theorem reopen_works_state flt (s : st (S := S)) :
  let s1 := fst (drv_close h flt s) in
  quiet_open flt (fst s1) -> cf_accept_session (t_cfg (w_t (fst s1))) = true ->
  forall s' r, cip_open h flt s1 = (s', r) ->
  r = Ok true /\ d_opened (snd s') = true /\ d_session (snd s') <> 0
  /\ mem_z (d_session (snd s')) (t_sessions (w_t (fst s'))) = true.
Proof.
  cbv zeta. intros Hq Hacc. destruct (drv_close_reset flt s) as (w' & d' & E). rewrite E in *.
  apply cip_open_works; try assumption; reflexivity.
Qed.
End Reopen.
