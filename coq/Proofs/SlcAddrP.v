(* Proofs/SlcAddrP.v — parse_tag on the spellings of Spec/SlcTarget.v.

   [parse_raw]  : for pieces of the form of an address (digit runs of arbitrary digits within the
                  length limits), parse_tag (render_raw r) is decided by the range checks of the code.
   [parse_addr] : every well-formed address of the ADT, in every spelling, parses to its fields.
   [reject_in_limits] : within the length limits, a number outside the ranges of the property
                  (except an I/O file number) makes parse_tag return None.
   [reject_letter] : an unsupported file letter makes parse_tag return None. *)
From Coq Require Import String.
From PV Require Import Base.Bytes Base.Proto Base.Res Base.PyStr Model.Regex Model.SlcVal Model.Slc.
From PV Require Import Gen.SlcTables Proofs.RegexP Proofs.SlcParseP Spec.SlcTarget.
From Coq Require Import ZifyBool.
Open Scope Z_scope.
Ltac Zify.zify_post_hook ::= Z.to_euclidean_division_equations.

(* ---------------------------------------------------------------- digit runs of the spec *)
Lemma num_of_dval ds : num_of ds = dval ds.
Proof. reflexivity. Qed.

Lemma is_digit_ascii c : is_digit c = is_ascii_digit c.
Proof. reflexivity. Qed.

Lemma digit_run_anyrun ds : digit_run ds = true -> anyrun ds.
Proof.
  intros H. destruct ds as [|d ds]; [discriminate|]. split; [|congruence].
  unfold digit_run in H. apply Forall_forall. intros c Hc.
  rewrite forallb_forall in H. rewrite <- is_digit_ascii. apply H. exact Hc.
Qed.

Lemma digit_run_run n ds : digit_run ds = true -> (length ds <= n)%nat -> run n ds.
Proof. intros H L. destruct (digit_run_anyrun ds H) as [A B]. repeat split; assumption. Qed.

Lemma dval_zeros k ds : dval (repeat 48 k ++ ds) = dval ds.
Proof.
  unfold dval. rewrite fold_left_app. f_equal.
  induction k as [|k IH]; [reflexivity|]. cbn [repeat fold_left]. exact IH.
Qed.

Lemma digits_min_ok n : 0 <= n < 10000 ->
  digit_run (digits_min n) = true /\ dval (digits_min n) = n /\ (1 <= length (digits_min n) <= 4)%nat
  /\ (n < 1000 -> (length (digits_min n) <= 3)%nat) /\ (n < 100 -> (length (digits_min n) <= 2)%nat).
Proof.
  intros H. unfold digits_min, dig.
  destruct (n <? 10) eqn:E1; [|destruct (n <? 100) eqn:E2; [|destruct (n <? 1000) eqn:E3]];
    unfold digit_run, forallb, is_digit, dval, fold_left; cbn [length]; repeat split; lia.
Qed.

Lemma render_num_ok w n lim : 0 <= n < 10000 -> (w <= lim)%nat -> (length (digits_min n) <= lim)%nat ->
  run lim (render_num w n) /\ dval (render_num w n) = n.
Proof.
  intros Hn Hw Hl. destruct (digits_min_ok n Hn) as (D & V & L & _).
  unfold render_num. split; [|rewrite dval_zeros; exact V].
  destruct (digit_run_anyrun _ D) as [A B]. repeat split.
  - apply Forall_app. split; [|exact A]. apply Forall_forall. intros c Hc. apply repeat_spec in Hc. subst c. reflexivity.
  - intros E. apply app_eq_nil in E. destruct E as [_ E]. congruence.
  - rewrite app_length, repeat_length. lia.
Qed.

(* ---------------------------------------------------------------- the pieces, family by family *)
Definition ft_letter_ok (ft : ftype) (lower : bool) : Z := if lower then lc (letter ft) else letter ft.

Lemma letter_facts ft lower :
  let L := ft_letter_ok ft lower in
  upper [L] = [letter ft] /\
  match ft with
  | FN => lcl L 110 | FB => lcl L 98 | FF => lcl L 102 | FL => lcl L 108 | FS => lcl L 115
  | FI => lcl L 105 | FO => lcl L 111 | FT => lcl L 116 | FC => lcl L 99
  end.
Proof. destruct ft; destruct lower; split; reflexivity. Qed.

(* what the code makes of the pieces *)
Definition code_ranges (r : raw) : bool :=
  match r_ft r with
  | FT | FC => in_range 1 255 (dval (opt_text (r_file r))) && in_range 0 255 (dval (r_elem r))
  | FS => in_range 0 255 (dval (r_elem r)) && optrange 0 15 (r_bit r)
  | FI => match r_file r with Some f => dval f =? 1 | None => true end
          && (in_range 0 255 (dval (r_elem r)) && optrange 0 15 (r_bit r))
  | FO => match r_file r with Some f => dval f =? 0 | None => true end
          && (in_range 0 255 (dval (r_elem r)) && optrange 0 15 (r_bit r))
  | _ => if r_flat r then in_range 1 255 (dval (opt_text (r_file r))) && in_range 0 4095 (dval (opt_text (r_bit r)))
         else in_range 1 255 (dval (opt_text (r_file r))) && in_range 0 255 (dval (r_elem r)) && optrange 0 15 (r_bit r)
  end.

Definition raw_tag (r : raw) (code : Z) (name : text) : tagd :=
  let ft := [letter (r_ft r)] in
  match r_ft r with
  | FT | FC => mk ft (dval (opt_text (r_file r))) (dval (r_elem r)) None (Some code) 3 1 name
  | FS => mk ft 2 (dval (r_elem r)) None (option_map dval (r_bit r)) (af_of (r_bit r)) (cntval (r_count r)) name
  | FI => mk ft 1 (dval (r_elem r)) (Some (optval (r_sub r))) (Some (optval (r_bit r))) (af_of (r_bit r)) (cntval (r_count r)) name
  | FO => mk ft 0 (dval (r_elem r)) (Some (optval (r_sub r))) (Some (optval (r_bit r))) (af_of (r_bit r)) (cntval (r_count r)) name
  | _ => if r_flat r
         then let n := dval (opt_text (r_bit r)) in
              mk ft (dval (opt_text (r_file r))) (n / 16) None (Some (n - n / 16 * 16)) 3 (cntval (r_count r)) name
         else mk ft (dval (opt_text (r_file r))) (dval (r_elem r)) None (option_map dval (r_bit r)) (af_of (r_bit r))
                 (cntval (r_count r)) name
  end.

(* the form of an address with every digit run within the limits of the grammar *)
Definition raw_shape (r : raw) : Prop := raw_form r = true /\ overlong r = false.

Lemma odigit_optrun n o : odigit_run o = true -> longer n o = false -> optrun n o.
Proof.
  intros H L x E. subst o. cbn in H, L. apply digit_run_run; [exact H|]. apply Nat.ltb_ge in L. exact L.
Qed.
Lemma odigit_optany o : odigit_run o = true -> optany o.
Proof. intros H x E. subst o. apply digit_run_anyrun. exact H. Qed.

Lemma text_mem_In t l : text_mem t l = true -> In t l.
Proof.
  induction l as [|x l IH]; cbn; [discriminate|]. intros H. apply orb_true_iff in H. destruct H as [H|H].
  - destruct (list_eq_dec Z.eq_dec x t); [left; assumption|discriminate].
  - right. apply IH. exact H.
Qed.

Lemma tc_spellings_variants ft mn : In mn (tc_spellings ft) -> In mn mn_variants.
Proof.
  intros H. destruct ft; cbn in H; try contradiction;
    vm_compute in H; vm_compute;
    repeat (destruct H as [H|H]; [subst mn; tauto|]); contradiction.
Qed.

Ltac bools :=
  repeat match goal with
  | H : _ && _ = true |- _ => apply andb_true_iff in H; destruct H
  | H : _ || _ = false |- _ => apply orb_false_iff in H; destruct H
  | H : negb _ = true |- _ => apply negb_true_iff in H
  end.

Ltac use_letter ft lower :=
  let U := fresh "U" in let HL := fresh "HL" in
  destruct (letter_facts ft lower) as [U HL]; cbv zeta in U, HL; unfold ft_letter_ok in U, HL.

Theorem parse_raw r : raw_shape r ->
  exists code name, parse_tag (render_raw r) = keep (code_ranges r) (raw_tag r code name).
Proof.
  intros [Hform Hlong].
  destruct r as [ft lower file elem sub bit cnt flat mn].
  unfold raw_form in Hform. unfold overlong, overlong_field in Hlong. cbn [r_ft r_lower r_file r_elem r_sub r_bit r_count r_flat r_mn] in *.
  destruct ft.
  - (* N *) destruct file as [f|]; destruct sub; destruct flat; cbn [longer is_some negb andb orb odigit_run] in Hform, Hlong; rewrite ?orb_false_r, ?andb_true_r in Hform; bools; try discriminate.
    use_letter FN lower. exists 0. eexists.
    pose proof (parse_lfbn _ f elem bit cnt (or_intror (or_intror (or_intror HL)))
                  (digit_run_run 3 f ltac:(assumption) ltac:(apply Nat.ltb_ge; assumption))
                  (digit_run_run 3 elem ltac:(assumption) ltac:(apply Nat.ltb_ge; assumption))
                  (odigit_optrun 2 bit ltac:(assumption) ltac:(assumption))
                  (odigit_optany cnt ltac:(assumption))) as P.
    cbv zeta in P. rewrite U in P. exact P.
  - (* B *) destruct file as [f|]; destruct sub; destruct flat; cbn [longer is_some negb andb orb odigit_run] in Hform, Hlong; rewrite ?orb_false_r, ?andb_true_r in Hform; bools; try discriminate.
    + destruct bit as [n|]; cbn [longer is_some odigit_run] in *; try discriminate.
      use_letter FB lower. exists 0. eexists.
      pose proof (parse_flat _ f n cnt HL
                  (digit_run_run 3 f ltac:(assumption) ltac:(apply Nat.ltb_ge; assumption))
                  (digit_run_run 4 n ltac:(assumption) ltac:(apply Nat.ltb_ge; assumption))
                  (odigit_optany cnt ltac:(assumption))) as P.
      cbv zeta in P. rewrite U in P. exact P.
    + use_letter FB lower. exists 0. eexists.
      pose proof (parse_lfbn _ f elem bit cnt (or_intror (or_intror (or_introl HL)))
                  (digit_run_run 3 f ltac:(assumption) ltac:(apply Nat.ltb_ge; assumption))
                  (digit_run_run 3 elem ltac:(assumption) ltac:(apply Nat.ltb_ge; assumption))
                  (odigit_optrun 2 bit ltac:(assumption) ltac:(assumption))
                  (odigit_optany cnt ltac:(assumption))) as P.
      cbv zeta in P. rewrite U in P. exact P.
  - (* F *) destruct file as [f|]; destruct sub; destruct flat; cbn [longer is_some negb andb orb odigit_run] in Hform, Hlong; rewrite ?orb_false_r, ?andb_true_r in Hform; bools; try discriminate.
    use_letter FF lower. exists 0. eexists.
    pose proof (parse_lfbn _ f elem bit cnt (or_intror (or_introl HL))
                  (digit_run_run 3 f ltac:(assumption) ltac:(apply Nat.ltb_ge; assumption))
                  (digit_run_run 3 elem ltac:(assumption) ltac:(apply Nat.ltb_ge; assumption))
                  (odigit_optrun 2 bit ltac:(assumption) ltac:(assumption))
                  (odigit_optany cnt ltac:(assumption))) as P.
    cbv zeta in P. rewrite U in P. exact P.
  - (* L *) destruct file as [f|]; destruct sub; destruct flat; cbn [longer is_some negb andb orb odigit_run] in Hform, Hlong; rewrite ?orb_false_r, ?andb_true_r in Hform; bools; try discriminate.
    use_letter FL lower. exists 0. eexists.
    pose proof (parse_lfbn _ f elem bit cnt (or_introl HL)
                  (digit_run_run 3 f ltac:(assumption) ltac:(apply Nat.ltb_ge; assumption))
                  (digit_run_run 3 elem ltac:(assumption) ltac:(apply Nat.ltb_ge; assumption))
                  (odigit_optrun 2 bit ltac:(assumption) ltac:(assumption))
                  (odigit_optany cnt ltac:(assumption))) as P.
    cbv zeta in P. rewrite U in P. exact P.
  - (* S *) destruct file; destruct sub; destruct flat; cbn [longer is_some negb andb orb odigit_run] in Hform, Hlong; rewrite ?orb_false_r, ?andb_true_r in Hform; bools; try discriminate.
    use_letter FS lower. exists 0. eexists.
    pose proof (parse_s _ elem bit cnt HL
                  (digit_run_run 3 elem ltac:(assumption) ltac:(apply Nat.ltb_ge; assumption))
                  (odigit_optrun 2 bit ltac:(assumption) ltac:(assumption))
                  (odigit_optany cnt ltac:(assumption))) as P.
    cbv zeta in P. rewrite U in P. exact P.
  - (* I *) destruct flat; cbn [longer is_some negb andb orb odigit_run] in Hform, Hlong; rewrite ?orb_false_r, ?andb_true_r in Hform; bools; try discriminate.
    use_letter FI lower. exists 0. eexists.
    pose proof (parse_io _ file elem sub bit cnt (or_introl HL)
                  (odigit_optrun 3 file ltac:(assumption) ltac:(assumption))
                  (digit_run_run 3 elem ltac:(assumption) ltac:(apply Nat.ltb_ge; assumption))
                  (odigit_optrun 3 sub ltac:(assumption) ltac:(assumption))
                  (odigit_optrun 2 bit ltac:(assumption) ltac:(assumption))
                  (odigit_optany cnt ltac:(assumption))) as P.
    cbv zeta in P. rewrite U in P. unfold io_file_ok, io_file in P. rewrite U in P. exact P.
  - (* O *) destruct flat; cbn [longer is_some negb andb orb odigit_run] in Hform, Hlong; rewrite ?orb_false_r, ?andb_true_r in Hform; bools; try discriminate.
    use_letter FO lower. exists 0. eexists.
    pose proof (parse_io _ file elem sub bit cnt (or_intror HL)
                  (odigit_optrun 3 file ltac:(assumption) ltac:(assumption))
                  (digit_run_run 3 elem ltac:(assumption) ltac:(apply Nat.ltb_ge; assumption))
                  (odigit_optrun 3 sub ltac:(assumption) ltac:(assumption))
                  (odigit_optrun 2 bit ltac:(assumption) ltac:(assumption))
                  (odigit_optany cnt ltac:(assumption))) as P.
    cbv zeta in P. rewrite U in P. unfold io_file_ok, io_file in P. rewrite U in P. exact P.
  - (* T *) destruct file as [f|]; destruct sub; destruct bit; destruct cnt; destruct flat; cbn [longer is_some negb andb orb odigit_run] in Hform, Hlong; rewrite ?orb_false_r, ?andb_true_r in Hform; bools; try discriminate.
    assert (Hmn : In mn mn_variants) by (apply (tc_spellings_variants FT), text_mem_In; assumption).
    destruct (mn_code mn Hmn) as [code Hcode].
    use_letter FT lower. exists code. eexists.
    pose proof (parse_tc _ f elem mn code (or_intror HL)
                  (digit_run_run 3 f ltac:(assumption) ltac:(apply Nat.ltb_ge; assumption))
                  (digit_run_run 3 elem ltac:(assumption) ltac:(apply Nat.ltb_ge; assumption)) Hmn Hcode) as P.
    cbv zeta in P. rewrite U in P. exact P.
  - (* C *) destruct file as [f|]; destruct sub; destruct bit; destruct cnt; destruct flat; cbn [longer is_some negb andb orb odigit_run] in Hform, Hlong; rewrite ?orb_false_r, ?andb_true_r in Hform; bools; try discriminate.
    assert (Hmn : In mn mn_variants) by (apply (tc_spellings_variants FC), text_mem_In; assumption).
    destruct (mn_code mn Hmn) as [code Hcode].
    use_letter FC lower. exists code. eexists.
    pose proof (parse_tc _ f elem mn code (or_introl HL)
                  (digit_run_run 3 f ltac:(assumption) ltac:(apply Nat.ltb_ge; assumption))
                  (digit_run_run 3 elem ltac:(assumption) ltac:(apply Nat.ltb_ge; assumption)) Hmn Hcode) as P.
    cbv zeta in P. rewrite U in P. exact P.
Qed.

(* ---------------------------------------------------------------- rejection inside the length limits *)
Theorem reject_in_limits r :
  raw_shape r -> spec_in_range r = false -> parse_tag (render_raw r) = PNone.
Proof.
  intros Hs Hr. destruct (parse_raw r Hs) as (code & name & P). rewrite P.
  assert (E : code_ranges r = false); [|rewrite E; reflexivity].
  destruct Hs as [Hform _]. clear P.
  destruct r as [ft lower file elem sub bit cnt flat mn].
  unfold raw_form in Hform. unfold spec_in_range, zin in Hr. unfold code_ranges, in_range, optrange, in_range.
  cbn [r_ft r_lower r_file r_elem r_sub r_bit r_count r_flat r_mn] in *.
  destruct ft; destruct file as [f|]; destruct flat; destruct bit as [b|];
    cbn [is_io is_some negb andb orb opt_text] in *; unfold num_of, dval in *;
    try discriminate; try lia;
    rewrite ?andb_false_r, ?andb_true_r in *; try discriminate; try lia.
Qed.

Theorem reject_letter c rest :
  ~ In (lower_c c) supported_lower -> Forall body_char rest -> parse_tag (c :: rest) = PNone.
Proof. apply parse_unsupported. Qed.

(* ---------------------------------------------------------------- every well-formed address parses to its fields *)
Lemma rn3 w n : 0 <= n < 1000 -> (w <= 3)%nat -> run 3 (render_num w n) /\ dval (render_num w n) = n.
Proof. intros H W. apply render_num_ok; [lia|exact W|]. apply (digits_min_ok n); lia. Qed.
Lemma rn2 w n : 0 <= n < 100 -> (w <= 2)%nat -> run 2 (render_num w n) /\ dval (render_num w n) = n.
Proof. intros H W. apply render_num_ok; [lia|exact W|]. apply (digits_min_ok n); lia. Qed.
Lemma rn4 w n : 0 <= n < 10000 -> (w <= 4)%nat -> run 4 (render_num w n) /\ dval (render_num w n) = n.
Proof. intros H W. apply render_num_ok; [lia|exact W|]. apply (digits_min_ok n); lia. Qed.
Lemma rnany w n : 0 <= n < 10000 -> anyrun (render_num w n) /\ dval (render_num w n) = n.
Proof.
  intros H. destruct (render_num_ok w n (Nat.max w 4) H) as [(A & B & _) V]; [lia| |].
  - pose proof (digits_min_ok n H). lia.
  - split; [split; assumption|exact V].
Qed.

Definition addr_tag (a : addr) (name : text) : tagd :=
  mk [letter (a_ft a)] (a_file a) (a_elem a)
     (if is_io (a_ft a) then Some (a_sub a) else None)
     (if is_tc (a_ft a) then Some (match a_bit a with Some b => b | None => a_sub a end)
      else if is_io (a_ft a) then Some (match a_bit a with Some b => b | None => 0 end)
      else a_bit a)
     (if is_tc (a_ft a) then 3 else match a_bit a with Some _ => 3 | None => 2 end)
     (a_count a) name.

Ltac zins := unfold zin in *; bools;
  repeat match goal with H : (_ =? _) = true |- _ => apply Z.eqb_eq in H end.

(* the count part of a word-form address *)
Lemma count_piece sp cnt : 1 <= cnt < 10000 ->
  let o := if negb (cnt =? 1) || sp_count1 sp then Some (render_num (sp_pad_count sp) cnt) else None in
  optany o /\ cntval o = cnt.
Proof.
  intros H o. subst o. destruct (negb (cnt =? 1) || sp_count1 sp) eqn:E.
  - destruct (rnany (sp_pad_count sp) cnt) as [A V]; [lia|]. split; [intros y Hy; inversion Hy; subst; exact A|exact V].
  - split; [intros y Hy; discriminate|]. cbn. apply orb_false_iff in E. destruct E as [E _].
    apply negb_false_iff in E. lia.
Qed.

Lemma bit_piece w b : 0 <= b <= 15 -> (w <= 2)%nat ->
  optrun 2 (Some (render_num w b)) /\ optrange 0 15 (Some (render_num w b)) = true /\ dval (render_num w b) = b.
Proof.
  intros H W. destruct (rn2 w b) as [R V]; [lia|exact W|]. split; [|split; [|exact V]].
  - intros y Hy. inversion Hy; subst. exact R.
  - cbn [optrange]. rewrite V. unfold in_range. lia.
Qed.

Lemma none_run n : optrun n None. Proof. intros x H. discriminate. Qed.
Lemma none_any : optany None. Proof. intros x H. discriminate. Qed.

Ltac spfacts Hsp :=
  unfold wf_spelling in Hsp; cbn [a_ft a_bit] in Hsp; bools;
  repeat match goal with H : (_ <=? _)%nat = true |- _ => apply Nat.leb_le in H end.

Lemma parse_addr_lfbn sp ft file elem bit cnt :
  (ft = FN \/ ft = FB \/ ft = FF \/ ft = FL) ->
  let a := {| a_ft := ft; a_file := file; a_elem := elem; a_sub := 0; a_bit := bit; a_count := cnt |} in
  (ft = FB -> bit <> None -> sp_flat_bit sp = false) ->
  wf_addr a = true -> wf_spelling sp a = true ->
  exists name, parse_tag (render sp a) = PTag (addr_tag a name).
Proof.
  intros Hft a Hflat Hwf Hsp. subst a.
  assert (HL : lfbn (ft_letter_ok ft (sp_lower sp)) /\ upper [ft_letter_ok ft (sp_lower sp)] = [letter ft]).
  { destruct Hft as [E|[E|[E|E]]]; subst ft; destruct (sp_lower sp); split; unfold lfbn, lcl; cbn; tauto. }
  destruct HL as [HL U].
  assert (Hfile : 1 <= file <= 255 /\ 0 <= elem <= 255).
  { destruct Hft as [E|[E|[E|E]]]; subst ft; unfold wf_addr in Hwf; cbn [a_ft a_file a_elem a_sub a_bit a_count] in Hwf; zins; lia. }
  destruct Hfile as [Hfile Helem].
  spfacts Hsp.
  destruct (rn3 (sp_pad_file sp) file) as [Rf Vf]; [lia|assumption|].
  destruct (rn3 (sp_pad_elem sp) elem) as [Re Ve]; [lia|assumption|].
  assert (Hfl : match ft, bit with FB, Some _ => sp_flat_bit sp | _, _ => false end = false).
  { destruct ft; try reflexivity. destruct bit; [apply Hflat; congruence|reflexivity]. }
  destruct bit as [b|].
  - assert (Hb : 0 <= b <= 15 /\ cnt = 1).
    { destruct Hft as [E|[E|[E|E]]]; subst ft; unfold wf_addr in Hwf; cbn [a_ft a_file a_elem a_sub a_bit a_count] in Hwf; zins; try discriminate; lia. }
    destruct Hb as [Hb Hc]. subst cnt.
    assert (Hpb : (sp_pad_bit sp <= 2)%nat).
    { destruct ft; try (apply Nat.leb_le; assumption). rewrite Hfl in *. apply Nat.leb_le; assumption. }
    destruct (bit_piece (sp_pad_bit sp) b Hb Hpb) as (Rb & Ob & Vb).
    pose proof (parse_lfbn _ _ _ (Some (render_num (sp_pad_bit sp) b)) None HL Rf Re Rb none_any) as P. cbv zeta in P.
    rewrite Ob, Vf, Ve, U in P. cbn [option_map af_of cntval] in P. rewrite Vb in P.
    replace (in_range 1 255 file && in_range 0 255 elem && true) with true in P by (unfold in_range; lia).
    eexists. unfold render, raw_of, render_raw. cbn [a_ft a_file a_elem a_sub a_bit a_count r_ft r_lower r_file r_elem r_sub r_bit r_count r_flat r_mn].
    rewrite Hfl.
    destruct Hft as [E|[E|[E|E]]]; subst ft; cbn [is_io is_tc andb opt_text]; exact P.
  - assert (Hc : 1 <= cnt < 10000).
    { destruct Hft as [E|[E|[E|E]]]; subst ft; unfold wf_addr in Hwf; cbn [a_ft a_file a_elem a_sub a_bit a_count] in Hwf; zins; lia. }
    destruct (count_piece sp cnt Hc) as [Oc Vc]. cbv zeta in Oc, Vc.
    pose proof (parse_lfbn _ _ _ None _ HL Rf Re (none_run 2) Oc) as P. cbv zeta in P.
    rewrite Vf, Ve, U, Vc in P. cbn [option_map af_of optrange] in P.
    replace (in_range 1 255 file && in_range 0 255 elem && true) with true in P by (unfold in_range; lia).
    eexists. unfold render, raw_of, render_raw. cbn [a_ft a_file a_elem a_sub a_bit a_count r_ft r_lower r_file r_elem r_sub r_bit r_count r_flat r_mn].
    destruct Hft as [E|[E|[E|E]]]; subst ft; cbn [is_io is_tc andb opt_text]; exact P.
Qed.

Ltac wfacts Hwf := unfold wf_addr in Hwf; cbn [a_ft a_file a_elem a_sub a_bit a_count] in Hwf; zins.
Ltac rend := unfold render, raw_of, render_raw;
  cbn [a_ft a_file a_elem a_sub a_bit a_count r_ft r_lower r_file r_elem r_sub r_bit r_count r_flat r_mn].

Lemma parse_addr_s sp elem bit cnt file sub :
  let a := {| a_ft := FS; a_file := file; a_elem := elem; a_sub := sub; a_bit := bit; a_count := cnt |} in
  wf_addr a = true -> wf_spelling sp a = true ->
  exists name, parse_tag (render sp a) = PTag (addr_tag a name).
Proof.
  intros a Hwf Hsp. subst a.
  destruct (letter_facts FS (sp_lower sp)) as [U HL]. cbv zeta in U, HL.
  spfacts Hsp.
  assert (Hbase : file = 2 /\ 0 <= elem <= 255) by (wfacts Hwf; lia). destruct Hbase as [Hfile Helem]. subst file.
  destruct (rn3 (sp_pad_elem sp) elem) as [Re Ve]; [lia|assumption|].
  destruct bit as [b|].
  - assert (Hb : 0 <= b <= 15 /\ cnt = 1) by (wfacts Hwf; lia). destruct Hb as [Hb Hc]. subst cnt.
    assert (Hpb : (sp_pad_bit sp <= 2)%nat) by (first [assumption | apply Nat.leb_le; assumption]).
    destruct (bit_piece (sp_pad_bit sp) b Hb Hpb) as (Rb & Ob & Vb).
    pose proof (parse_s _ _ (Some (render_num (sp_pad_bit sp) b)) None HL Re Rb none_any) as P. cbv zeta in P.
    rewrite Ob, Ve, U in P. cbn [option_map af_of cntval] in P. rewrite Vb in P.
    replace (in_range 0 255 elem && true) with true in P by (unfold in_range; lia).
    eexists. rend. cbn [is_io is_tc andb opt_text]. exact P.
  - assert (Hc : 1 <= cnt < 10000) by (wfacts Hwf; lia).
    destruct (count_piece sp cnt Hc) as [Oc Vc]. cbv zeta in Oc, Vc.
    pose proof (parse_s _ _ None _ HL Re (none_run 2) Oc) as P. cbv zeta in P.
    rewrite Ve, U, Vc in P. cbn [option_map af_of optrange] in P.
    replace (in_range 0 255 elem && true) with true in P by (unfold in_range; lia).
    eexists. rend. cbn [is_io is_tc andb opt_text]. exact P.
Qed.

Lemma parse_addr_io sp ft elem bit cnt file sub :
  (ft = FI \/ ft = FO) ->
  let a := {| a_ft := ft; a_file := file; a_elem := elem; a_sub := sub; a_bit := bit; a_count := cnt |} in
  wf_addr a = true -> wf_spelling sp a = true ->
  exists name, parse_tag (render sp a) = PTag (addr_tag a name).
Proof.
  intros Hft a Hwf Hsp. subst a.
  assert (HL : io (ft_letter_ok ft (sp_lower sp)) /\ upper [ft_letter_ok ft (sp_lower sp)] = [letter ft]
               /\ io_file (ft_letter_ok ft (sp_lower sp)) = match ft with FO => 0 | _ => 1 end).
  { destruct Hft as [E|E]; subst ft; destruct (sp_lower sp); repeat split; unfold io, lcl; cbn; tauto. }
  destruct HL as (HL & U & IOF).
  assert (Hsp' : wf_spelling sp {| a_ft := ft; a_file := file; a_elem := elem; a_sub := sub; a_bit := bit; a_count := cnt |} = true) by exact Hsp.
  spfacts Hsp.
  assert (Hpb : (sp_pad_bit sp <= 2)%nat).
  { destruct Hft as [E|E]; subst ft; first [assumption | apply Nat.leb_le; assumption]. }
  assert (Hbase : file = match ft with FO => 0 | _ => 1 end /\ 0 <= elem <= 255 /\ 0 <= sub <= 254 /\ cnt = 1
                  /\ match bit with Some b => 0 <= b <= 15 | None => True end).
  { destruct Hft as [E|E]; subst ft; destruct bit; wfacts Hwf; repeat split; lia. }
  destruct Hbase as (Hfile & Helem & Hsub & Hcnt & Hbit). subst cnt.
  destruct (rn3 (sp_pad_elem sp) elem) as [Re Ve]; [lia|assumption|].
  destruct (rn3 (sp_pad_file sp) file) as [Rf Vf]; [destruct ft; lia|assumption|].
  destruct (rn3 (sp_pad_sub sp) sub) as [Rs Vs]; [lia|assumption|].
  set (ofile := if sp_io_file sp then Some (render_num (sp_pad_file sp) file) else None).
  set (osub := if negb (sub =? 0) || sp_io_word sp then Some (render_num (sp_pad_sub sp) sub) else None).
  assert (Of : optrun 3 ofile) by (subst ofile; destruct (sp_io_file sp); [intros y Hy; inversion Hy; subst; exact Rf|apply none_run]).
  assert (Os : optrun 3 osub /\ optval osub = sub).
  { subst osub. destruct (negb (sub =? 0) || sp_io_word sp) eqn:E.
    - split; [intros y Hy; inversion Hy; subst; exact Rs|exact Vs].
    - split; [apply none_run|]. cbn. apply orb_false_iff in E. destruct E as [E _]. apply negb_false_iff in E. lia. }
  destruct Os as [Os Vos].
  assert (Hfo : io_file_ok (ft_letter_ok ft (sp_lower sp)) ofile = true).
  { subst ofile. unfold io_file_ok. destruct (sp_io_file sp); [|reflexivity]. rewrite Vf, IOF. lia. }
  destruct bit as [b|].
  - destruct (bit_piece (sp_pad_bit sp) b Hbit Hpb) as (Rb & Ob & Vb).
    pose proof (parse_io _ ofile _ osub (Some (render_num (sp_pad_bit sp) b)) None HL Of Re Os Rb none_any) as P. cbv zeta in P.
    rewrite Hfo, Ob, Ve, U, IOF, Vos in P. cbn [optval af_of cntval andb] in P. rewrite Vb in P.
    replace (in_range 0 255 elem && true) with true in P by (unfold in_range; lia).
    rend. subst ofile osub.
    destruct Hft as [E|E]; subst ft; cbn [is_io is_tc andb opt_text] in *; subst file;
      (destruct (sp_io_file sp); destruct (negb (sub =? 0) || sp_io_word sp); cbn [otext subpart] in P; eexists; exact P).
  - destruct (count_piece sp 1 ltac:(lia)) as [Oc Vc]. cbv zeta in Oc, Vc.
    pose proof (parse_io _ ofile _ osub None _ HL Of Re Os (none_run 2) Oc) as P. cbv zeta in P.
    rewrite Hfo, Ve, U, IOF, Vos, Vc in P. cbn [optval af_of optrange andb] in P.
    replace (in_range 0 255 elem && true) with true in P by (unfold in_range; lia).
    rend. subst ofile osub.
    destruct Hft as [E|E]; subst ft; cbn [is_io is_tc andb opt_text] in *; subst file;
      (destruct (sp_io_file sp); destruct (negb (sub =? 0) || sp_io_word sp); cbn [otext subpart] in P; eexists; exact P).
Qed.

Lemma parse_addr_flat sp file elem b cnt sub :
  sp_flat_bit sp = true ->
  let a := {| a_ft := FB; a_file := file; a_elem := elem; a_sub := sub; a_bit := Some b; a_count := cnt |} in
  wf_addr a = true -> wf_spelling sp a = true ->
  exists name, parse_tag (render sp a) = PTag (addr_tag a name).
Proof.
  intros Hflat a Hwf Hsp. subst a.
  destruct (letter_facts FB (sp_lower sp)) as [U HL]. cbv zeta in U, HL.
  spfacts Hsp. rewrite Hflat in *.
  assert (Hbase : 1 <= file <= 255 /\ 0 <= elem <= 255 /\ 0 <= b <= 15 /\ cnt = 1 /\ sub = 0) by (wfacts Hwf; lia).
  destruct Hbase as (Hfile & Helem & Hb & Hc & Hs). subst cnt sub.
  destruct (rn3 (sp_pad_file sp) file) as [Rf Vf]; [lia|assumption|].
  destruct (rn4 (sp_pad_bit sp) (16 * elem + b)) as [Rn Vn]; [lia|first [assumption | apply Nat.leb_le; assumption]|].
  pose proof (parse_flat _ _ _ None HL Rf Rn none_any) as P. cbv zeta in P.
  rewrite Vf, Vn, U in P. cbn [cntval] in P.
  replace (in_range 1 255 file && in_range 0 4095 (16 * elem + b)) with true in P by (unfold in_range; lia).
  replace ((16 * elem + b) / 16) with elem in P by lia.
  replace (16 * elem + b - elem * 16) with b in P by lia.
  eexists. rend. rewrite Hflat. cbn [is_io is_tc andb opt_text]. exact P.
Qed.

Lemma tc_case1 ft sub bit flags code :
  In (ft, sub, bit, code) [(FT, 1, None, 1); (FT, 2, None, 2); (FT, 0, Some 15, 15); (FT, 0, Some 14, 14); (FT, 0, Some 13, 13);
                           (FC, 1, None, 1); (FC, 2, None, 2); (FC, 0, Some 15, 15); (FC, 0, Some 14, 14); (FC, 0, Some 13, 13);
                           (FC, 0, Some 12, 12); (FC, 0, Some 11, 11); (FC, 0, Some 10, 10)] ->
  exists base, tc_mnemonic ft sub bit = Some base
    /\ In (apply_case flags base) mn_variants
    /\ dict_get pccc_ct (upper (apply_case flags base)) = Ok code.
Proof.
  intros H.
  destruct flags as [|f1 [|f2 [|f3 fl]]]; try destruct f1; try destruct f2; try destruct f3;
    cbn [In] in H;
    repeat (destruct H as [H|H]; [inversion H; subst; eexists; split; [reflexivity|]; split; [apply text_mem_In; vm_compute; reflexivity|reflexivity]|]);
    contradiction.
Qed.

Lemma tc_cases ft sub bit flags :
  (ft = FT \/ ft = FC) ->
  match bit with Some b => sub = 0 /\ tc_bit_ok ft b = true | None => 1 <= sub <= 2 end ->
  exists base, tc_mnemonic ft sub bit = Some base
    /\ In (apply_case flags base) mn_variants
    /\ dict_get pccc_ct (upper (apply_case flags base)) = Ok (match bit with Some b => b | None => sub end).
Proof.
  intros Hft H. apply tc_case1.
  destruct bit as [b|].
  - destruct H as [Hs Hb]. subst sub.
    destruct Hft; subst ft; unfold tc_bit_ok, zin in Hb.
    + assert (Hc : b = 13 \/ b = 14 \/ b = 15) by lia. destruct Hc as [Hc|[Hc|Hc]]; subst b; cbn; tauto.
    + assert (Hc : b = 10 \/ b = 11 \/ b = 12 \/ b = 13 \/ b = 14 \/ b = 15) by lia.
      destruct Hc as [Hc|[Hc|[Hc|[Hc|[Hc|Hc]]]]]; subst b; cbn; tauto.
  - assert (Hc : sub = 1 \/ sub = 2) by lia.
    destruct Hft; subst ft; destruct Hc; subst sub; cbn; tauto.
Qed.

Lemma parse_addr_tc sp ft file elem sub bit cnt :
  (ft = FT \/ ft = FC) ->
  let a := {| a_ft := ft; a_file := file; a_elem := elem; a_sub := sub; a_bit := bit; a_count := cnt |} in
  wf_addr a = true -> wf_spelling sp a = true ->
  exists name, parse_tag (render sp a) = PTag (addr_tag a name).
Proof.
  intros Hft a Hwf Hsp. subst a.
  assert (HL : tc (ft_letter_ok ft (sp_lower sp)) /\ upper [ft_letter_ok ft (sp_lower sp)] = [letter ft]).
  { destruct Hft as [E|E]; subst ft; destruct (sp_lower sp); split; unfold tc, lcl; cbn; tauto. }
  destruct HL as (HL & U).
  spfacts Hsp.
  assert (Hbase : 1 <= file <= 255 /\ 0 <= elem <= 255 /\ cnt = 1
                  /\ match bit with Some b => sub = 0 /\ tc_bit_ok ft b = true | None => 1 <= sub <= 2 end).
  { destruct Hft as [E|E]; subst ft; destruct bit; wfacts Hwf; repeat split; try assumption; lia. }
  destruct Hbase as (Hfile & Helem & Hcnt & Hbit). subst cnt.
  destruct (rn3 (sp_pad_file sp) file) as [Rf Vf]; [lia|assumption|].
  destruct (rn3 (sp_pad_elem sp) elem) as [Re Ve]; [lia|assumption|].
  destruct (tc_cases ft sub bit (sp_mn_lower sp) Hft Hbit) as (base & Hbase & Hin & Hcode).
  pose proof (parse_tc _ _ _ _ _ HL Rf Re Hin Hcode) as P. cbv zeta in P.
  rewrite Vf, Ve, U in P.
  replace (in_range 1 255 file && in_range 0 255 elem) with true in P by (unfold in_range; lia).
  eexists. rend. rewrite Hbase.
  destruct Hft as [E|E]; subst ft; cbn [is_io is_tc andb opt_text]; exact P.
Qed.

Theorem parse_addr sp a : wf_addr a = true -> wf_spelling sp a = true ->
  exists name, parse_tag (render sp a) = PTag (addr_tag a name).
Proof.
  intros Hwf Hsp. destruct a as [ft file elem sub bit cnt].
  destruct ft.
  - assert (sub = 0) by (wfacts Hwf; lia). subst sub. apply parse_addr_lfbn; [tauto|discriminate|assumption|assumption].
  - assert (sub = 0) by (wfacts Hwf; lia). subst sub.
    destruct bit as [b|].
    + destruct (sp_flat_bit sp) eqn:E.
      * apply parse_addr_flat; assumption.
      * apply parse_addr_lfbn; [tauto|intros; exact E|assumption|assumption].
    + apply parse_addr_lfbn; [tauto|congruence|assumption|assumption].
  - assert (sub = 0) by (wfacts Hwf; lia). subst sub. apply parse_addr_lfbn; [tauto|discriminate|assumption|assumption].
  - assert (sub = 0) by (wfacts Hwf; lia). subst sub. apply parse_addr_lfbn; [tauto|discriminate|assumption|assumption].
  - apply parse_addr_s; assumption.
  - apply parse_addr_io; [tauto|assumption|assumption].
  - apply parse_addr_io; [tauto|assumption|assumption].
  - apply parse_addr_tc; [tauto|assumption|assumption].
  - apply parse_addr_tc; [tauto|assumption|assumption].
Qed.

(* ---------------------------------------------------------------- a file number of more than three digits *)
Ltac use_letter_any :=
  match goal with
  | |- parse_tag ((if ?lower then lc (letter ?ft) else letter ?ft) :: _) = _ =>
      let U := fresh "U" in let HL := fresh "HL" in
      destruct (letter_facts ft lower) as [U HL]; cbv zeta in U, HL; unfold ft_letter_ok in U, HL
  end.
Ltac lfbn_of HL := unfold lfbn; first [left; exact HL | right; left; exact HL | right; right; left; exact HL | right; right; right; exact HL].

Lemma body_opts (sub bit cnt : option text) :
  optany sub -> optany bit -> optany cnt -> Forall body_char (subpart sub ++ bitpart bit ++ cntpart cnt).
Proof.
  intros Hs Hb Hc. destruct sub; destruct bit; destruct cnt; split_opts; cbn [subpart bitpart cntpart app]; body.
Qed.

Theorem reject_long_file r : raw_form r = true -> longer 3 (r_file r) = true -> parse_tag (render_raw r) = PNone.
Proof.
  intros Hform Hlong.
  destruct r as [ft lower file elem sub bit cnt flat mn].
  unfold raw_form in Hform. cbn [r_ft r_lower r_file r_elem r_sub r_bit r_count r_flat r_mn] in *.
  destruct file as [f|]; [|discriminate]. cbn [longer] in Hlong. apply Nat.ltb_lt in Hlong.
  cbn [odigit_run is_some negb andb] in Hform.
  assert (Hparts : forall flat', (digit_run elem || flat') && digit_run f && odigit_run sub && odigit_run bit && odigit_run cnt = true ->
            anyrun f /\ optany sub /\ optany bit /\ optany cnt /\ (flat' = false -> anyrun elem)).
  { intros flat' H. bools.
    split; [apply digit_run_anyrun; assumption|].
    split; [apply odigit_optany; assumption|].
    split; [apply odigit_optany; assumption|].
    split; [apply odigit_optany; assumption|].
    intros E. subst flat'. apply digit_run_anyrun.
    match goal with H : digit_run elem || false = true |- _ => rewrite orb_false_r in H; exact H end. }
  unfold render_raw. cbn [r_ft r_lower r_file r_elem r_sub r_bit r_count r_flat r_mn opt_text].
  destruct ft.
  1,3,4: (apply andb_true_iff in Hform; destruct Hform as [Hform Hx]; destruct (Hparts _ Hform) as (Af & As & Ab & Ac & Ae);
          destruct flat; [bools; discriminate|]; specialize (Ae eq_refl);
          use_letter_any; apply long_file_lfbn; [lfbn_of HL|exact Af|exact Hlong|];
          constructor; [right; unfold punct; tauto|]; apply Forall_app; split; [apply anyrun_body; exact Ae|];
          apply (body_opts sub bit cnt); assumption).
  - (* B *) apply andb_true_iff in Hform. destruct Hform as [Hform Hx]. destruct (Hparts _ Hform) as (Af & As & Ab & Ac & Ae).
    destruct flat.
    + use_letter_any. apply long_file_lfbn; [lfbn_of HL|exact Af|exact Hlong|].
      constructor; [right; unfold punct; tauto|]. apply Forall_app. split.
      * destruct bit as [n|]; cbn [opt_text]; [apply anyrun_body; apply Ab; reflexivity|constructor].
      * apply (body_opts None None cnt); [intros y Hy; discriminate|intros y Hy; discriminate|exact Ac].
    + specialize (Ae eq_refl). use_letter_any. apply long_file_lfbn; [lfbn_of HL|exact Af|exact Hlong|].
      constructor; [right; unfold punct; tauto|]. apply Forall_app. split; [apply anyrun_body; exact Ae|].
      apply (body_opts sub bit cnt); assumption.
  - (* S *) bools. discriminate.
  - (* I *) apply andb_true_iff in Hform. destruct Hform as [Hform Hx]. destruct (Hparts _ Hform) as (Af & As & Ab & Ac & Ae).
    destruct flat; [discriminate|]. specialize (Ae eq_refl).
    use_letter_any. apply long_file_io; [left; exact HL|exact Af|exact Hlong|].
    constructor; [right; unfold punct; tauto|]. apply Forall_app. split; [apply anyrun_body; exact Ae|].
    apply (body_opts sub bit cnt); assumption.
  - (* O *) apply andb_true_iff in Hform. destruct Hform as [Hform Hx]. destruct (Hparts _ Hform) as (Af & As & Ab & Ac & Ae).
    destruct flat; [discriminate|]. specialize (Ae eq_refl).
    use_letter_any. apply long_file_io; [right; exact HL|exact Af|exact Hlong|].
    constructor; [right; unfold punct; tauto|]. apply Forall_app. split; [apply anyrun_body; exact Ae|].
    apply (body_opts sub bit cnt); assumption.
  - (* T *) apply andb_true_iff in Hform. destruct Hform as [Hform Hx]. destruct (Hparts _ Hform) as (Af & As & Ab & Ac & Ae).
    bools. destruct flat; [discriminate|]. specialize (Ae eq_refl).
    use_letter_any. apply long_file_tc; [right; exact HL|exact Af|exact Hlong|exact Ae|].
    apply (tc_spellings_variants FT), text_mem_In. assumption.
  - (* C *) apply andb_true_iff in Hform. destruct Hform as [Hform Hx]. destruct (Hparts _ Hform) as (Af & As & Ab & Ac & Ae).
    bools. destruct flat; [discriminate|]. specialize (Ae eq_refl).
    use_letter_any. apply long_file_tc; [left; exact HL|exact Af|exact Hlong|exact Ae|].
    apply (tc_spellings_variants FC), text_mem_In. assumption.
Qed.

(* ---------------------------------------------------------------- an element / word / bit run longer than the grammar allows *)
Lemma longrun_of n ds : digit_run ds = true -> (n <? length ds)%nat = true -> longrun n ds.
Proof. intros H L. split; [exact (proj1 (digit_run_anyrun ds H))|apply Nat.ltb_lt; exact L]. Qed.
Lemma run_of n ds : digit_run ds = true -> (n <? length ds)%nat = false -> run n ds.
Proof. intros H L. apply digit_run_run; [exact H|apply Nat.ltb_ge; exact L]. Qed.
Lemma longrun_body n ds : longrun n ds -> Forall body_char ds.
Proof. intros [H _]. eapply Forall_impl; [|exact H]. intros c Hc. left. exact Hc. Qed.
Lemma optrun_of n o : odigit_run o = true -> longer n o = false -> optrun n o.
Proof. apply odigit_optrun. Qed.

Ltac use_letter_any0 lower :=
  match goal with
  | |- context [(if lower then lc (letter ?ft) else letter ?ft)] =>
      let U := fresh "U" in let HL := fresh "HL" in
      destruct (letter_facts ft lower) as [U HL]; cbv zeta in U, HL; unfold ft_letter_ok in U, HL
  end.

Ltac bodies :=
  repeat first
    [ apply Forall_nil
    | assumption
    | apply body_opts; assumption
    | apply body_cnt; assumption
    | apply Forall_cons; [right; unfold punct; tauto|]
    | apply Forall_app; split
    | eapply longrun_body; eassumption
    | eapply run_body; eassumption
    | eapply anyrun_body; eassumption ].

Ltac anyruns :=
  repeat match goal with
  | H : odigit_run (Some ?x) = true |- _ => cbn [odigit_run] in H
  | H : odigit_run None = true |- _ => clear H
  | H : digit_run ?x = true |- _ => lazymatch goal with H' : anyrun x |- _ => fail | _ => pose proof (digit_run_anyrun x H) end
  end.
Ltac concrete bit cnt := destruct bit as [?b|]; destruct cnt as [?c|]; anyruns.

Lemma overlong_lfbn L f elem bit cnt :
  lfbn L -> run 3 f -> digit_run elem = true -> odigit_run bit = true -> odigit_run cnt = true ->
  (3 <? length elem)%nat || longer 2 bit = true ->
  parse_tag (L :: f ++ 58 :: elem ++ [] ++ match bit with Some b => 47 :: b | None => [] end
                                     ++ match cnt with Some c => 123 :: c ++ [125] | None => [] end) = PNone.
Proof.
  intros HL Rf De Db Dc Hlong. cbn [app].
  destruct (3 <? length elem)%nat eqn:Ee.
  - pose proof (longrun_of 3 elem De Ee) as Le.
    eapply long_lfbn; [exact HL | exact Rf | | reflexivity | apply lfbn_long_elem; [lia | exact HL | exact Rf | exact Le]].
    concrete bit cnt; bodies.
  - cbn [orb] in Hlong. destruct bit as [b|]; [|discriminate]. cbn [longer odigit_run] in *.
    pose proof (run_of 3 elem De Ee) as Re. pose proof (longrun_of 2 b Db Hlong) as Lb.
    eapply long_lfbn; [exact HL | exact Rf | | reflexivity | apply lfbn_long_bit; [lia | exact HL | exact Rf | exact Re | exact Lb]].
    destruct cnt as [c|]; anyruns; bodies.
Qed.

Lemma overlong_s L elem bit cnt :
  lcl L 115 -> digit_run elem = true -> odigit_run bit = true -> odigit_run cnt = true ->
  (3 <? length elem)%nat || longer 2 bit = true ->
  parse_tag (L :: [] ++ 58 :: elem ++ [] ++ match bit with Some b => 47 :: b | None => [] end
                                     ++ match cnt with Some c => 123 :: c ++ [125] | None => [] end) = PNone.
Proof.
  intros HL De Db Dc Hlong. cbn [app].
  destruct (3 <? length elem)%nat eqn:Ee.
  - pose proof (longrun_of 3 elem De Ee) as Le.
    apply long_s; [exact HL | | apply s_long_elem; [lia | exact HL | exact Le]].
    concrete bit cnt; bodies.
  - cbn [orb] in Hlong. destruct bit as [b|]; [|discriminate]. cbn [longer odigit_run] in *.
    pose proof (run_of 3 elem De Ee) as Re. pose proof (longrun_of 2 b Db Hlong) as Lb.
    apply long_s; [exact HL | | apply s_long_bit; [lia | exact HL | exact Re | exact Lb]].
    destruct cnt as [c|]; anyruns; bodies.
Qed.

Lemma overlong_io L file elem sub bit cnt :
  io L -> odigit_run file = true -> longer 3 file = false -> digit_run elem = true -> odigit_run sub = true ->
  odigit_run bit = true -> odigit_run cnt = true ->
  (3 <? length elem)%nat || longer 3 sub || longer 2 bit = true ->
  parse_tag (L :: opt_text file ++ 58 :: elem ++ match sub with Some w => 46 :: w | None => [] end
                 ++ match bit with Some b => 47 :: b | None => [] end
                 ++ match cnt with Some c => 123 :: c ++ [125] | None => [] end) = PNone.
Proof.
  intros HL Df Hfile De Ds Db Dc Hlong.
  pose proof (optrun_of 3 file Df Hfile) as Of.
  assert (Bf : Forall body_char (opt_text file)) by (destruct file; cbn [opt_text]; [apply anyrun_body, digit_run_anyrun; exact Df|constructor]).
  change (opt_text file) with (otext file) in *.
  destruct (3 <? length elem)%nat eqn:Ee.
  - pose proof (longrun_of 3 elem De Ee) as Le.
    apply long_io; [exact HL | | apply (io_long_elem _ _ file); [lia | exact HL | exact Of | exact Le]].
    destruct sub as [w|]; concrete bit cnt; bodies.
  - cbn [orb] in Hlong. pose proof (run_of 3 elem De Ee) as Re. destruct (longer 3 sub) eqn:Es.
    + destruct sub as [w|]; [|discriminate]. cbn [longer odigit_run] in *. pose proof (longrun_of 3 w Ds Es) as Lw.
      apply long_io; [exact HL | | apply (io_long_sub _ _ file); [lia | exact HL | exact Of | exact Re | exact Lw]].
      concrete bit cnt; bodies.
    + cbn [orb] in Hlong. destruct bit as [b|]; [|discriminate]. cbn [longer odigit_run] in *.
      pose proof (longrun_of 2 b Db Hlong) as Lb. pose proof (optrun_of 3 sub Ds Es) as Os.
      change (match sub with Some w => 46 :: w | None => [] end) with (subpart sub).
      apply long_io; [exact HL | | apply (io_long_bit _ _ file _ sub); [lia | exact HL | exact Of | exact Re | exact Os | exact Lb]].
      destruct sub as [w|]; destruct cnt as [c|]; anyruns; cbn [subpart]; bodies.
Qed.

Theorem reject_overlong r :
  raw_form r = true -> longer 3 (r_file r) = false -> overlong_field r = true -> parse_tag (render_raw r) = PNone.
Proof.
  intros Hform Hfile Hlong.
  destruct r as [ft lower file elem sub bit cnt flat mn].
  unfold raw_form in Hform. unfold overlong_field in Hlong.
  cbn [r_ft r_lower r_file r_elem r_sub r_bit r_count r_flat r_mn] in *.
  unfold render_raw. cbn [r_ft r_lower r_file r_elem r_sub r_bit r_count r_flat r_mn].
  apply andb_true_iff in Hform. destruct Hform as [Hform Hx].
  apply andb_true_iff in Hform. destruct Hform as [Hform Dc].
  apply andb_true_iff in Hform. destruct Hform as [Hform Db].
  apply andb_true_iff in Hform. destruct Hform as [Hform Ds].
  apply andb_true_iff in Hform. destruct Hform as [De Df].
  destruct ft.
  - (* N *) destruct file as [f|]; [|discriminate]. destruct flat; [bools; discriminate|]. destruct sub; [bools; discriminate|].
    rewrite orb_false_r in De. cbn [longer odigit_run negb andb orb opt_text] in *. rewrite orb_false_r in Hlong.
    use_letter_any0 lower. apply overlong_lfbn; [lfbn_of HL|exact (run_of 3 f Df Hfile)|assumption..].
  - (* B *) destruct file as [f|]; [|discriminate]. destruct sub; [bools; discriminate|].
    cbn [longer odigit_run negb andb orb opt_text is_some] in *. use_letter_any0 lower.
    destruct flat.
    + destruct bit as [n|]; [|discriminate]. cbn [longer negb andb orb opt_text odigit_run] in *.
      apply long_flat; [exact HL | exact (run_of 3 f Df Hfile) | apply longrun_of; assumption|].
      destruct cnt as [c|]; anyruns; bodies.
    + rewrite orb_false_r in De. cbn [negb andb orb] in Hlong. rewrite orb_false_r in Hlong.
      apply overlong_lfbn; [lfbn_of HL|exact (run_of 3 f Df Hfile)|assumption..].
  - (* F *) destruct file as [f|]; [|discriminate]. destruct flat; [bools; discriminate|]. destruct sub; [bools; discriminate|].
    rewrite orb_false_r in De. cbn [longer odigit_run negb andb orb opt_text] in *. rewrite orb_false_r in Hlong.
    use_letter_any0 lower. apply overlong_lfbn; [lfbn_of HL|exact (run_of 3 f Df Hfile)|assumption..].
  - (* L *) destruct file as [f|]; [|discriminate]. destruct flat; [bools; discriminate|]. destruct sub; [bools; discriminate|].
    rewrite orb_false_r in De. cbn [longer odigit_run negb andb orb opt_text] in *. rewrite orb_false_r in Hlong.
    use_letter_any0 lower. apply overlong_lfbn; [lfbn_of HL|exact (run_of 3 f Df Hfile)|assumption..].
  - (* S *) destruct file; [bools; discriminate|]. destruct flat; [bools; discriminate|]. destruct sub; [bools; discriminate|].
    rewrite orb_false_r in De. cbn [longer odigit_run negb andb orb opt_text] in *. rewrite orb_false_r in Hlong.
    use_letter_any0 lower. apply overlong_s; assumption.
  - (* I *) destruct flat; [discriminate|]. rewrite orb_false_r in De. cbn [negb andb] in Hlong.
    use_letter_any0 lower. apply overlong_io; try assumption. left; exact HL.
  - (* O *) destruct flat; [discriminate|]. rewrite orb_false_r in De. cbn [negb andb] in Hlong.
    use_letter_any0 lower. apply overlong_io; try assumption. right; exact HL.
  - (* T *) destruct file as [f|]; [|bools; discriminate]. destruct flat; [bools; discriminate|].
    destruct sub; [bools; discriminate|]. destruct bit; [bools; discriminate|].
    rewrite orb_false_r in De. cbn [negb andb longer orb opt_text odigit_run] in *. rewrite !orb_false_r in Hlong.
    use_letter_any0 lower. bools.
    apply long_tc; [right; exact HL|exact (run_of 3 f Df Hfile)|apply longrun_of; assumption|].
    apply (tc_spellings_variants FT), text_mem_In. assumption.
  - (* C *) destruct file as [f|]; [|bools; discriminate]. destruct flat; [bools; discriminate|].
    destruct sub; [bools; discriminate|]. destruct bit; [bools; discriminate|].
    rewrite orb_false_r in De. cbn [negb andb longer orb opt_text odigit_run] in *. rewrite !orb_false_r in Hlong.
    use_letter_any0 lower. bools.
    apply long_tc; [left; exact HL|exact (run_of 3 f Df Hfile)|apply longrun_of; assumption|].
    apply (tc_spellings_variants FC), text_mem_In. assumption.
Qed.
