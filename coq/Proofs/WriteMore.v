(* Proofs/WriteMore.v — further request kinds of C02, composed with the target:
     write_correct_struct_bytes   a structure (or string) given as BYTES: passed through unchanged and stored;
                                  when the bytes are the reference encoding of a value, the memory is ref_write's
     write_correct_slice          `{n}` consecutive elements of an array of structures / strings (elements of
                                  the class of Proofs/WriteStruct.ty_guard), longer lists truncated *)
From Coq Require Import ZifyBool String.
From PV Require Import Base.Bytes Base.BytesLemmas Base.Res Base.Proto Base.PyStr Model.CodecFloat Model.Path Model.LogixPlan Model.LogixWrite.
From PV Require Import Spec.EncapParser Spec.MRParser Spec.TargetIface Spec.TargetCore Spec.Project Spec.Expect Spec.TargetLogix.
From PV Require Import Proofs.TargetCoreP Proofs.TargetLogixP Proofs.WriteBits Proofs.WriteMsg Proofs.WriteEnc Proofs.WriteCorrect Proofs.WriteFull Proofs.WriteBools Proofs.WriteStruct.
Open Scope Z_scope.
Ltac Zify.zify_post_hook ::= Z.to_euclidean_division_equations.

(* ================================================================ bytes *)
Theorem write_correct_struct_bytes p m r inst off tid dims avail t b rv m_ref img id tag ty tname inst_id ui seq path :
  resolve p r = Some (PlData inst off (BStruct tid) dims avail) -> r_bit r = None -> r_count r = None ->
  mem_get m inst = Some img ->
  find_template (p_templates p) tid = Some t -> 0 <= t_handle t < 65536 ->
  encode_val (depth_fuel p) p (BStruct tid) rv = Some b ->          (* the bytes are the reference encoding of rv *)
  ref_write p m r rv = Some m_ref ->
  1 <= avail -> 0 <= seq < 65536 ->
  let info := mkInfo true tname ty (t_handle t) inst_id in
  let q := mkParsed id false tag None 1 None info (PBytes b) in
  let l := mkWLoc inst off (BStruct tid) dims avail None in
  path_of tag info ui = Ok (Some path) ->
  exists pk pk1,
    encode_value q = Ok (b, 1)
    /\ new_write_packet KWrite seq tag 1 info id ui 0 b = Ok pk
    /\ build_message pk = Ok pk1
    /\ k_message pk1 = le_enc 2 seq ++ [77] ++ path ++ write_data (160 :: 2 :: le_enc 2 (t_handle t)) 1 b
    /\ svc_write p m img l (write_data (160 :: 2 :: le_enc 2 (t_handle t)) 1 b)
       = (m_ref, mr_ok [], [EvApp 1 [inst; off; 77] b]).
Proof.
  intros Hres Hbit Hcnt Hmem Hft Hh He Hw Hav Hseq info q l Hpath.
  unfold ref_write in Hw. rewrite Hres in Hw. cbn [place_inst] in Hw. rewrite Hmem, Hbit, Hcnt in Hw.
  destruct (write_place p img (PlData inst off (BStruct tid) dims avail) None None rv) as [img'|] eqn:Hwp; [|discriminate].
  injection Hw as <-.
  assert (Href : Expect.blen b = t_size t /\ put_bytes img off b = Some img').
  { unfold write_place in Hwp. cbn [base_size] in Hwp. rewrite Hft, He in Hwp.
    destruct (Expect.blen b =? t_size t) eqn:E2; [|discriminate]. split; [lia|exact Hwp]. }
  destruct Href as (Hl & Hput).
  pose proof (packed_type_struct tname ty (t_handle t) inst_id Hh) as Hpt. fold info in Hpt.
  assert (Hnew : exists pk, new_write_packet KWrite seq tag 1 info id ui 0 b = Ok pk /\ k_packed_type pk = 160 :: 2 :: le_enc 2 (t_handle t)).
  { unfold new_write_packet. rewrite Hpt. eexists. split; reflexivity. }
  destruct Hnew as (pk & Hnew & Hkpt).
  assert (Hel : 0 <= 1 < 65536) by lia.
  destruct (write_message seq tag 1 info id ui b pk path Hnew Hpath Hseq Hel) as (pk1 & Hb & Hmsg & _).
  rewrite Hkpt in Hmsg.
  exists pk, pk1. split; [reflexivity|]. split; [exact Hnew|]. split; [exact Hb|]. split; [exact Hmsg|].
  rewrite (svc_write_accepts p m img l (write_data (160 :: 2 :: le_enc 2 (t_handle t)) 1 b) (inr (t_handle t)) 1 b (t_size t)).
  - apply (store_at l m img b img' 77 eq_refl). exact Hput.
  - unfold write_data. cbn [app]. apply parse_wtype_struct, Hh.
  - cbn [type_matches w_ty l]. rewrite Hft. apply Z.eqb_refl.
  - unfold loc_esize. cbn [w_bit l w_ty base_size]. rewrite Hft. reflexivity.
  - cbn [w_avail l]. lia.
  - lia.
  - lia.
Qed.

(* ================================================================ slices of arrays of structures / strings *)
Lemma Forall2_firstn {A B} (R : A -> B -> Prop) l l' : Forall2 R l l' -> forall n, Forall2 R (firstn n l) (firstn n l').
Proof. induction 1 as [|x y a b Hxy Hr IH]; intros n; [rewrite !firstn_nil; constructor|]. destruct n; [constructor|]. cbn [firstn]. constructor; [exact Hxy|apply IH]. Qed.

Theorem write_correct_slice p m r inst off tid dims avail t e l_py vs n m_ref img id tag n0 inst_id ui seq path :
  ty_guard (depth_fuel p) p (BStruct tid) = true -> wty_of (depth_fuel p) p (BStruct tid) = Some e ->
  resolve p r = Some (PlData inst off (BStruct tid) dims avail) -> r_bit r = None -> r_count r = Some n ->
  mem_get m inst = Some img ->
  find_template (p_templates p) tid = Some t -> 0 <= t_handle t < 65536 -> PyStr.text_eqb (t_name t) n_DWORD = false ->
  Forall2 denotes l_py vs ->
  ref_write p m r (RList vs) = Some m_ref ->
  1 < n < 65536 -> 0 <= seq < 65536 ->
  let info := mkInfo true (t_name t) (WArray n0 e) (t_handle t) inst_id in
  let q := mkParsed id false tag None n None info (PList l_py) in
  let l := mkWLoc inst off (BStruct tid) dims avail None in
  path_of tag info ui = Ok (Some path) ->
  exists data pk pk1,
    encode_value q = Ok (data, n)
    /\ new_write_packet KWrite seq tag n info id ui 0 data = Ok pk
    /\ build_message pk = Ok pk1
    /\ k_message pk1 = le_enc 2 seq ++ [77] ++ path ++ write_data (160 :: 2 :: le_enc 2 (t_handle t)) n data
    /\ svc_write p m img l (write_data (160 :: 2 :: le_enc 2 (t_handle t)) n data)
       = (m_ref, mr_ok [], [EvApp 1 [inst; off; 77] data]).
Proof.
  intros Hg Hwt Hres Hbit Hcnt Hmem Hft Hh Hnd H2 Hw Hnn Hseq info q l Hpath.
  unfold ref_write in Hw. rewrite Hres in Hw. cbn [place_inst] in Hw. rewrite Hmem, Hbit, Hcnt in Hw.
  destruct (write_place p img (PlData inst off (BStruct tid) dims avail) None (Some n) (RList vs)) as [img'|] eqn:Hwp; [|discriminate].
  injection Hw as <-.
  assert (Hlen : length l_py = length vs) by (clear -H2; induction H2; cbn [length]; congruence).
  set (s := t_size t).
  assert (Href : n <= avail /\ n <= Z.of_nat (length vs) /\ exists ds,
            all_some (map (encode_val (depth_fuel p) p (BStruct tid)) (firstn (Z.to_nat n) vs)) = Some ds
            /\ Expect.blen (concat ds) = s * n /\ put_bytes img off (concat ds) = Some img').
  { unfold write_place in Hwp. cbn [base_size] in Hwp. rewrite Hft in Hwp. fold s in Hwp.
    destruct ((1 <=? n) && (n <=? avail)) eqn:E1; [|discriminate]. cbn [is_bits_ty] in Hwp. unfold take_values in Hwp.
    destruct (n <=? Z.of_nat (length vs)) eqn:E2; [|discriminate].
    unfold encode_array_with in Hwp. cbn [is_bits_ty] in Hwp.
    destruct (Z.of_nat (length (firstn (Z.to_nat n) vs)) =? n); [|discriminate].
    destruct (all_some (map (encode_val (depth_fuel p) p (BStruct tid)) (firstn (Z.to_nat n) vs))) as [ds|] eqn:E3; [|discriminate].
    destruct (forallb (fun d0 => Expect.blen d0 =? s) ds); [|discriminate].
    destruct (Expect.blen (concat ds) =? s * n) eqn:E4; [|discriminate].
    split; [lia|]. split; [lia|]. exists ds. split; [reflexivity|]. split; [lia|exact Hwp]. }
  destruct Href as (Hav & Hnl & ds & Hds & Hl & Hput).
  set (d := concat ds) in *.
  set (lt := firstn (Z.to_nat n) l_py).
  pose proof (Forall2_firstn denotes l_py vs H2 (Z.to_nat n)) as H2'. fold lt in H2'.
  destruct (elements_level (depth_fuel p) p (BStruct tid) e lt _ ds (struct_encoding_spec p (depth_fuel p)) Hg Hwt H2' Hds) as [M1 _].
  assert (Hlt : length lt = Z.to_nat n) by (unfold lt; rewrite firstn_length; lia).
  pose proof (all_some_length _ _ Hds) as Hdl. rewrite map_length, firstn_length in Hdl.
  assert (Hm : encode_ty_len (WArray n0 e) (PList lt) n = Ok d).
  { unfold encode_ty_len, array_encode. cbn [py_items]. replace (n =? 0) with false by lia.
    unfold LogixWrite.zlen. replace (Z.of_nat (length lt) <? n) with false by lia.
    rewrite (elem_chunk_none (depth_fuel p) p _ e Hg eq_refl Hwt).
    rewrite firstn_all2 by lia. rewrite M1.
    replace (Z.of_nat (length ds) <? n) with false by lia. reflexivity. }
  assert (Hev : encode_value q = Ok (d, n)).
  { rewrite (encode_value_list q l_py eq_refl eq_refl).
    2:{ unfold q_dword. subst q info. cbn [q_info ti_type_name]. rewrite Hnd. discriminate. }
    cbn zeta. unfold q_value_elements, q_new_elements, q_dword. subst q info.
    cbn [q_bool_elements q_elements q_info ti_type_name ti_type z_or]. rewrite Hnd.
    replace (1 <? n) with true by lia. replace (LogixWrite.zlen l_py <? n) with false by (unfold LogixWrite.zlen; lia).
    fold lt. rewrite Hm. reflexivity. }
  pose proof (packed_type_struct (t_name t) (WArray n0 e) (t_handle t) inst_id Hh) as Hpt. fold info in Hpt.
  assert (Hnew : exists pk, new_write_packet KWrite seq tag n info id ui 0 d = Ok pk /\ k_packed_type pk = 160 :: 2 :: le_enc 2 (t_handle t)).
  { unfold new_write_packet. rewrite Hpt. eexists. split; reflexivity. }
  destruct Hnew as (pk & Hnew & Hkpt).
  assert (Hel : 0 <= n < 65536) by lia.
  destruct (write_message seq tag n info id ui d pk path Hnew Hpath Hseq Hel) as (pk1 & Hb & Hmsg & _).
  rewrite Hkpt in Hmsg.
  exists d, pk, pk1. split; [exact Hev|]. split; [exact Hnew|]. split; [exact Hb|]. split; [exact Hmsg|].
  rewrite (svc_write_accepts p m img l (write_data (160 :: 2 :: le_enc 2 (t_handle t)) n d) (inr (t_handle t)) n d s).
  - apply (store_at l m img d img' 77 eq_refl). exact Hput.
  - unfold write_data. cbn [app]. apply parse_wtype_struct, Hh.
  - cbn [type_matches w_ty l]. rewrite Hft. apply Z.eqb_refl.
  - unfold loc_esize. cbn [w_bit l w_ty base_size]. rewrite Hft. reflexivity.
  - cbn [w_avail l]. lia.
  - lia.
  - lia.
Qed.
