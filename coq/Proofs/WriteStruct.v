(* Proofs/WriteStruct.v — whole structures written from a dict (C02): StructTag._encode (members
   spliced at their offsets, then the bit members set in their host bytes, private members skipped on
   a zeroed image) produces the reference encoding Spec/Expect.encode_val (visible members in order,
   BOOL members as bits), by induction over template nesting.

   Covered class ([ty_guard], computable): members of integer / REAL / LREAL types, arrays of them,
   strings on the standard layout, nested structures and arrays of those; BOOL members visible, on bytes
   that no non-BOOL member LATER in the member list covers (hidden hosts, padding, or a VISIBLE host that
   precedes them: module-defined types; host and bits are then both in the dict and the bits win, in the
   code as in the reference); member names distinct.
   BOOL[32k] members (DWORD / DWORD arrays, 32 booleans per word) are covered.
   Not covered: BYTE / WORD / LWORD bit-string members; a BOOL member listed BEFORE a visible member covering its byte;
   hidden BOOL members. *)
From Coq Require Import ZifyBool String.
From PV Require Import Base.Bytes Base.BytesLemmas Base.Res Base.Proto Base.PyStr Model.CodecFloat Model.Path Model.LogixPlan Model.LogixWrite.
From PV Require Import Spec.EncapParser Spec.MRParser Spec.TargetIface Spec.TargetCore Spec.Project Spec.Expect Spec.TargetLogix.
From PV Require Import Proofs.TargetCoreP Proofs.TargetLogixP Proofs.WriteBits Proofs.WriteMsg Proofs.WriteEnc Proofs.WriteCorrect Proofs.WriteFull Proofs.WriteBools.
Open Scope Z_scope.
Ltac Zify.zify_post_hook ::= Z.to_euclidean_division_equations.

(* ================================================================ images: puts and bit sets *)
Lemma list_eq_nth (a b : bytes) : length a = length b -> (forall k, (k < length a)%nat -> nth k a 0 = nth k b 0) -> a = b.
Proof.
  revert b. induction a as [|x a IH]; intros b Hl H; destruct b as [|y b]; try discriminate; [reflexivity|].
  f_equal; [exact (H 0%nat ltac:(cbn; lia))|]. apply IH; [cbn in Hl; lia|]. intros k Hk. exact (H (S k) ltac:(cbn; lia)).
Qed.

Lemma put_bytes_some img off d : 0 <= off -> off + Expect.blen d <= Expect.blen img -> exists i, put_bytes img off d = Some i.
Proof. intros H1 H2. unfold put_bytes. replace ((0 <=? off) && (off + Expect.blen d <=? Expect.blen img)) with true by lia. eexists. reflexivity. Qed.

Lemma put_bytes_cond img off d i : put_bytes img off d = Some i -> 0 <= off /\ off + Expect.blen d <= Expect.blen img.
Proof. unfold put_bytes. destruct ((0 <=? off) && (off + Expect.blen d <=? Expect.blen img)) eqn:E; [lia|discriminate]. Qed.

Lemma put_bytes_inside img off d i k : put_bytes img off d = Some i ->
  (Z.to_nat off <= k < Z.to_nat off + length d)%nat -> nth k i 0 = nth (k - Z.to_nat off) d 0.
Proof.
  intros H Hk. pose proof (put_bytes_cond _ _ _ _ H) as [C1 C2]. revert H. unfold put_bytes.
  replace ((0 <=? off) && (off + Expect.blen d <=? Expect.blen img)) with true by lia. intros H; injection H as <-.
  unfold Expect.blen in *.
  assert (Hf : length (firstn (Z.to_nat off) img) = Z.to_nat off) by (rewrite firstn_length; lia).
  rewrite app_nth2 by lia. rewrite Hf. rewrite app_nth1 by lia. reflexivity.
Qed.

(* the value of byte k after a put *)
Lemma put_bytes_nth img off d i k : put_bytes img off d = Some i ->
  nth k i 0 = if (Z.to_nat off <=? k)%nat && (k <? Z.to_nat off + length d)%nat then nth (k - Z.to_nat off) d 0 else nth k img 0.
Proof.
  intros H. destruct ((Z.to_nat off <=? k)%nat && (k <? Z.to_nat off + length d)%nat) eqn:E.
  - apply (put_bytes_inside _ _ _ _ _ H). lia.
  - apply (put_bytes_outside _ _ _ _ _ H). lia.
Qed.

(* the reference's BOOL-member write *)
Definition bit_op (img : bytes) (off bit : Z) (x : bool) : option bytes :=
  match get_bytes img off 1 with
  | Some [b] => put_bytes img off [set_bit_byte b bit x]
  | _ => None
  end.

Lemma get_bytes_one img off : 0 <= off -> off + 1 <= Expect.blen img -> get_bytes img off 1 = Some [nth (Z.to_nat off) img 0].
Proof.
  intros H1 H2. unfold get_bytes. replace ((0 <=? off) && (0 <=? 1) && (off + 1 <=? Expect.blen img)) with true by lia.
  f_equal. unfold Expect.blen in H2. change (Z.to_nat 1) with 1%nat.
  rewrite <- (firstn_skipn (Z.to_nat off) img) at 2.
  assert (Hf : length (firstn (Z.to_nat off) img) = Z.to_nat off) by (rewrite firstn_length; lia).
  rewrite app_nth2 by lia. rewrite Hf, Nat.sub_diag.
  destruct (skipn (Z.to_nat off) img) as [|y r] eqn:E.
  - exfalso. assert (L : length (skipn (Z.to_nat off) img) = 0%nat) by (rewrite E; reflexivity). rewrite skipn_length in L. lia.
  - reflexivity.
Qed.

Lemma bit_op_eq img off bit x : bit_op img off bit x =
  if (0 <=? off) && (off + 1 <=? Z.of_nat (length img)) then put_bytes img off [set_bit_byte (nth (Z.to_nat off) img 0) bit x] else None.
Proof.
  unfold bit_op. destruct ((0 <=? off) && (off + 1 <=? Z.of_nat (length img))) eqn:E.
  - rewrite get_bytes_one by (unfold Expect.blen; lia). reflexivity.
  - unfold get_bytes, Expect.blen. replace ((0 <=? off) && (0 <=? 1) && (off + 1 <=? Z.of_nat (length img))) with false by lia. reflexivity.
Qed.

Definition obind (o : option bytes) (f : bytes -> option bytes) : option bytes := match o with Some i => f i | None => None end.

(* a bit set commutes with a put that does not cover its byte *)
Lemma bit_put_commute img off d ob bit x :
  ob < off \/ off + Expect.blen d <= ob ->
  obind (put_bytes img off d) (fun i => bit_op i ob bit x) = obind (bit_op img ob bit x) (fun i => put_bytes i off d).
Proof.
  intros Hsep. rewrite bit_op_eq.
  destruct (put_bytes img off d) as [i|] eqn:Hp; cbn [obind].
  - pose proof (put_bytes_len _ _ _ _ Hp) as Li. rewrite bit_op_eq, Li.
    destruct ((0 <=? ob) && (ob + 1 <=? Z.of_nat (length img))) eqn:E; [|reflexivity].
    pose proof (put_bytes_cond _ _ _ _ Hp) as [C1 C2]. unfold Expect.blen in *.
    assert (Hnb : nth (Z.to_nat ob) i 0 = nth (Z.to_nat ob) img 0) by (apply (put_bytes_outside _ _ _ _ _ Hp); lia).
    rewrite Hnb. set (nb := set_bit_byte (nth (Z.to_nat ob) img 0) bit x).
    destruct (put_bytes_some i ob [nb]) as [r Hr]; [lia|unfold Expect.blen; cbn [length]; lia|].
    destruct (put_bytes_some img ob [nb]) as [j Hj]; [lia|unfold Expect.blen; cbn [length]; lia|].
    rewrite Hr, Hj. cbn [obind].
    pose proof (put_bytes_len _ _ _ _ Hj) as Lj. pose proof (put_bytes_len _ _ _ _ Hr) as Lr.
    destruct (put_bytes_some j off d) as [r' Hr']; [lia|unfold Expect.blen; lia|]. rewrite Hr'. f_equal.
    pose proof (put_bytes_len _ _ _ _ Hr') as Lr'.
    apply list_eq_nth; [congruence|]. intros k Hk.
    rewrite (put_bytes_nth _ _ _ _ k Hr), (put_bytes_nth _ _ _ _ k Hp), (put_bytes_nth _ _ _ _ k Hr'), (put_bytes_nth _ _ _ _ k Hj).
    cbn [length].
    destruct ((Z.to_nat ob <=? k)%nat && (k <? Z.to_nat ob + 1)%nat) eqn:E1;
    destruct ((Z.to_nat off <=? k)%nat && (k <? Z.to_nat off + length d)%nat) eqn:E2; try reflexivity; lia.
  - destruct ((0 <=? ob) && (ob + 1 <=? Z.of_nat (length img))) eqn:E; [|reflexivity].
    destruct (put_bytes img ob [set_bit_byte (nth (Z.to_nat ob) img 0) bit x]) as [j|] eqn:Hj; cbn [obind]; [|reflexivity].
    pose proof (put_bytes_len _ _ _ _ Hj) as Lj. revert Hp. unfold put_bytes, Expect.blen. rewrite Lj.
    destruct ((0 <=? off) && (off + Z.of_nat (length d) <=? Z.of_nat (length img))); [discriminate|reflexivity].
Qed.

(* ================================================================ operations of a structure encoding *)
Inductive op := OpPut (off : Z) (d : bytes) | OpBit (off bit : Z) (x : bool).
Definition run_op (o : op) (img : bytes) : option bytes :=
  match o with OpPut off d => put_bytes img off d | OpBit off bit x => bit_op img off bit x end.
Fixpoint run_ops (ops : list op) (img : bytes) : option bytes :=
  match ops with [] => Some img | o :: r => obind (run_op o img) (run_ops r) end.

Definition is_put (o : op) : bool := match o with OpPut _ _ => true | _ => false end.
Definition puts (ops : list op) := filter is_put ops.
Definition bits (ops : list op) := filter (fun o => negb (is_put o)) ops.

(* every bit operation's byte lies outside the range of every put that comes AFTER it (a put before
   it — its host member — may cover it: the bit set then lands on the host's byte in both orders) *)
Definition outside_put (ob : Z) (o : op) : Prop :=
  match o with OpPut off d => ob < off \/ off + Expect.blen d <= ob | OpBit _ _ _ => True end.
Fixpoint separated (ops : list op) : Prop :=
  match ops with
  | [] => True
  | OpPut _ _ :: r => separated r
  | OpBit ob _ _ :: r => Forall (outside_put ob) r /\ separated r
  end.

Lemma run_ops_app a b img : run_ops (a ++ b) img = obind (run_ops a img) (run_ops b).
Proof. revert img. induction a as [|o a IH]; intros img; [reflexivity|]. cbn [app run_ops]. destruct (run_op o img); cbn [obind]; [apply IH|reflexivity]. Qed.

(* one bit set moved behind a sequence of puts it is separated from *)
Lemma bit_after_puts ps : forall img ob bit x,
  Forall (fun o => match o with OpPut off d => ob < off \/ off + Expect.blen d <= ob | _ => False end) ps ->
  obind (bit_op img ob bit x) (run_ops ps) = obind (run_ops ps img) (fun i => bit_op i ob bit x).
Proof.
  induction ps as [|o ps IH]; intros img ob bit x F.
  - cbn [run_ops obind]. destruct (bit_op img ob bit x); reflexivity.
  - inversion F as [|? ? Ho Hr]; subst. destruct o as [off d|]; [|contradiction]. cbn [run_ops run_op].
    pose proof (bit_put_commute img off d ob bit x Ho) as C.
    destruct (bit_op img ob bit x) as [j|] eqn:Hb; cbn [obind] in *.
    + destruct (put_bytes img off d) as [i|] eqn:Hp; cbn [obind] in *.
      * rewrite <- C. cbn [obind]. rewrite <- (IH i ob bit x Hr). rewrite C. destruct (put_bytes j off d); reflexivity.
      * rewrite <- C. reflexivity.
    + destruct (put_bytes img off d) as [i|] eqn:Hp; cbn [obind] in *; [|reflexivity].
      rewrite <- (IH i ob bit x Hr). rewrite C. reflexivity.
Qed.

Lemma obind_assoc o f g : obind (obind o f) g = obind o (fun i => obind (f i) g).
Proof. destruct o; reflexivity. Qed.
Lemma obind_ext o f g : (forall i, f i = g i) -> obind o f = obind o g.
Proof. intros H. destruct o; cbn [obind]; [apply H|reflexivity]. Qed.

(* executing a structure's operations in member order = all puts first, then all bit sets *)
Theorem run_ops_reorder ops : separated ops -> forall img, run_ops ops img = run_ops (puts ops ++ bits ops) img.
Proof.
  induction ops as [|o r IH]; intros Hsep img; [reflexivity|].
  destruct o as [off d|ob bit x]; cbn [separated] in Hsep; cbn [puts bits filter is_put negb app run_ops run_op].
  - apply obind_ext. intros i. apply IH, Hsep.
  - destruct Hsep as [Hout Hr]. fold (puts r) (bits r). rewrite run_ops_app.
    transitivity (obind (bit_op img ob bit x) (fun j => obind (run_ops (puts r) j) (run_ops (bits r)))).
    { apply obind_ext. intros j. rewrite (IH Hr j). apply run_ops_app. }
    rewrite <- obind_assoc.
    assert (F : Forall (fun o => match o with OpPut off d => ob < off \/ off + Expect.blen d <= ob | _ => False end) (puts r)).
    { apply Forall_forall. intros o Hin. unfold puts in Hin. apply filter_In in Hin as [Hin Hp].
      destruct o as [off d|]; [|discriminate]. rewrite Forall_forall in Hout. exact (Hout _ Hin). }
    rewrite (bit_after_puts (puts r) img ob bit x F). rewrite obind_assoc. apply obind_ext. intros i. reflexivity.
Qed.

(* ================================================================ the reference, as operations *)
Section Ops.
  Variable ev : base_ty -> rvalue -> option bytes.
  Variable p : project.

  (* the bytes of a non-BOOL member *)
  Definition member_data (m : member) (v : rvalue) : option bytes :=
    match base_size p (m_ty m) with
    | None => None
    | Some s =>
        match (if m_arr m =? 0 then ev (m_ty m) v else encode_array_with ev (m_ty m) s (m_arr m) v) with
        | Some d => if Expect.blen d =? s * member_elems m then Some d else None
        | None => None
        end
    end.

  Definition op_of (m : member) (v : rvalue) : option op :=
    if is_bool_member m then match v with RBool x => Some (OpBit (m_off m) (m_bit m) x) | _ => None end
    else option_map (OpPut (m_off m)) (member_data m v).

  Lemma encode_member_as_op m v img :
    encode_member_with ev p m v img = match op_of m v with Some o => run_op o img | None => None end.
  Proof.
    unfold encode_member_with, op_of, member_data. destruct (is_bool_member m).
    - destruct v; reflexivity.
    - destruct (base_size p (m_ty m)) as [s|]; [|reflexivity].
      destruct (if m_arr m =? 0 then ev (m_ty m) v else encode_array_with ev (m_ty m) s (m_arr m) v) as [d|]; [|reflexivity].
      destruct (Expect.blen d =? s * member_elems m); reflexivity.
  Qed.

  (* the operations of the visible members [ms] with the fields [fs] (names must agree, in order) *)
  Fixpoint spec_ops (ms : list member) (fs : list (text * rvalue)) : option (list op) :=
    match ms, fs with
    | [], [] => Some []
    | m :: ms', (n, v) :: fs' =>
        if Project.text_eqb (m_name m) n then
          match op_of m v, spec_ops ms' fs' with
          | Some o, Some os => Some (o :: os)
          | _, _ => None
          end
        else None
    | _, _ => None
    end.

  Lemma encode_members_as_ops ms : forall fs img r,
    encode_members_with ev p ms fs img = Some r ->
    exists ops, spec_ops ms fs = Some ops /\ run_ops ops img = Some r.
  Proof.
    induction ms as [|m ms IH]; intros fs img r H; destruct fs as [|[n v] fs]; cbn [encode_members_with spec_ops] in *; try discriminate.
    - injection H as <-. exists []. split; reflexivity.
    - destruct (Project.text_eqb (m_name m) n); [|discriminate].
      rewrite encode_member_as_op in H. destruct (op_of m v) as [o|]; [|discriminate].
      destruct (run_op o img) as [i|] eqn:Ho; [|discriminate].
      destruct (IH fs i r H) as (ops & Hs & Hr). rewrite Hs. exists (o :: ops). split; [reflexivity|].
      cbn [run_ops]. rewrite Ho. exact Hr.
  Qed.
End Ops.

(* ================================================================ the model's two loops *)
Fixpoint members_loop (d : list (text * pv)) (priv : list text) (ms : list (text * Z * wty)) (img : bytes) : res bytes :=
  match ms with
  | [] => Ok img
  | m :: r =>
      if mem_text (fst (fst m)) priv then members_loop d priv r img
      else match dict_get d (fst (fst m)) with
           | None => Err (Foreign KeyError)
           | Some x => match encode_ty (snd m) x with
                       | Ok enc => members_loop d priv r (splice (snd (fst m)) enc img)
                       | Err e => Err e
                       end
           end
  end.

Lemma encode_struct_unfold ms bs priv size d :
  encode_ty (WStructTag ms bs priv size) (PDict d)
  = wrap_all DataError (match members_loop d priv ms (zeros (Z.to_nat size)) with
                        | Ok img => struct_bits d bs img
                        | Err e => Err e
                        end).
Proof.
  cbn [encode_ty]. f_equal.
  assert (G : forall ms img,
    (fix members (ms0 : list (text * Z * wty)) (img0 : bytes) {struct ms0} : res bytes :=
       match ms0 with
       | [] => Ok img0
       | m :: r =>
           if mem_text (fst (fst m)) priv then members r img0
           else match dict_get d (fst (fst m)) with
                | Some x => match encode_ty (snd m) x with
                            | Ok enc => members r (splice (snd (fst m)) enc img0)
                            | Err e => Err e
                            end
                | None => Err (Foreign KeyError)
                end
       end) ms img = members_loop d priv ms img).
  { induction ms0 as [|m r IH]; intros img; [reflexivity|]. cbn [members_loop].
    destruct (mem_text (fst (fst m)) priv); [apply IH|].
    destruct (dict_get d (fst (fst m))) as [xv|]; [|reflexivity]. destruct (encode_ty (snd m) xv); [apply IH|reflexivity]. }
  rewrite G. reflexivity.
Qed.

Lemma splice_put img off d i : put_bytes img off d = Some i -> splice off d img = i.
Proof.
  intros H. pose proof (put_bytes_cond _ _ _ _ H) as [C _]. revert H. unfold put_bytes, splice.
  destruct ((0 <=? off) && (off + Expect.blen d <=? Expect.blen img)); [|discriminate]. intros H; injection H as <-. reflexivity.
Qed.

(* the model's bit access = the reference's, on a byte image *)
Lemma set_bit_byte_lor b k x : 0 <= k ->
  set_bit_byte b k x = if x then Z.lor b (Z.shiftl 1 k) else Z.land b (Z.lnot (Z.shiftl 1 k)).
Proof.
  intros Hk. unfold set_bit_byte. destruct x.
  - apply Z.bits_inj'. intros n Hn. rewrite Z.setbit_eqb, Z.lor_spec, testbit_one_shift by lia. apply orb_comm.
  - apply Z.bits_inj'. intros n Hn. rewrite Z.clearbit_eqb, Z.land_spec, Z.lnot_spec, testbit_one_shift by lia. reflexivity.
Qed.

Lemma set_byte_bit_op img off bit x r :
  bytes_ok img = true -> 0 <= bit < 8 -> bit_op img off bit x = Some r -> set_byte_bit img off bit x = Ok r.
Proof.
  intros Hok Hb H. rewrite bit_op_eq in H.
  destruct ((0 <=? off) && (off + 1 <=? Z.of_nat (length img))) eqn:E; [|discriminate].
  unfold set_byte_bit. unfold LogixWrite.zlen. replace ((off <? 0) || (Z.of_nat (length img) <=? off)) with false by lia.
  set (old := nth (Z.to_nat off) img 0) in *.
  assert (Ho : 0 <= old < 256).
  { unfold old. unfold bytes_ok in Hok. rewrite forallb_forall in Hok.
    assert (Hin : In (nth (Z.to_nat off) img 0) img) by (apply nth_In; lia).
    specialize (Hok _ Hin). unfold byte_ok in Hok. lia. }
  rewrite <- (set_bit_byte_lor old bit x) by lia.
  pose proof (set_bit_byte_range old bit x Ho Hb) as R.
  replace ((0 <=? set_bit_byte old bit x) && (set_bit_byte old bit x <? 256)) with true by lia.
  f_equal. revert H. unfold put_bytes, Expect.blen. cbn [length].
  replace ((0 <=? off) && (off + Z.of_nat 1 <=? Z.of_nat (length img))) with true by lia.
  intros H; injection H as <-. cbn [app]. do 2 f_equal. f_equal. lia.
Qed.

Lemma bytes_ok_put img off d i : bytes_ok img = true -> bytes_ok d = true -> put_bytes img off d = Some i -> bytes_ok i = true.
Proof.
  intros H1 H2 H. revert H. unfold put_bytes. destruct ((0 <=? off) && (off + Expect.blen d <=? Expect.blen img)); [|discriminate].
  intros H; injection H as <-. rewrite !bytes_ok_app, H2.
  rewrite bytes_ok_firstn by exact H1.
  assert (G : forall n (l : bytes), bytes_ok l = true -> bytes_ok (skipn n l) = true).
  { induction n as [|n IH]; intros l Hl; [exact Hl|]. destruct l as [|y l]; [reflexivity|]. cbn [skipn]. apply IH.
    rewrite bytes_ok_cons in Hl. apply andb_true_iff in Hl. tauto. }
  rewrite G by exact H1. reflexivity.
Qed.

Lemma bytes_ok_bit_op img off bit x i : bytes_ok img = true -> 0 <= bit < 8 -> bit_op img off bit x = Some i -> bytes_ok i = true.
Proof.
  intros Hok Hb H. rewrite bit_op_eq in H.
  destruct ((0 <=? off) && (off + 1 <=? Z.of_nat (length img))) eqn:E; [|discriminate].
  apply (bytes_ok_put img off [set_bit_byte (nth (Z.to_nat off) img 0) bit x] i Hok); [|exact H].
  assert (Ho : 0 <= nth (Z.to_nat off) img 0 < 256).
  { unfold bytes_ok in Hok. rewrite forallb_forall in Hok.
    assert (Hin : In (nth (Z.to_nat off) img 0) img) by (apply nth_In; lia).
    specialize (Hok _ Hin). unfold byte_ok in Hok. lia. }
  pose proof (set_bit_byte_range _ bit x Ho Hb) as R. cbn [bytes_ok forallb]. unfold byte_ok. lia.
Qed.

(* ================================================================ values, the covered class *)
Inductive denotes : pv -> rvalue -> Prop :=
  | DnI z : denotes (PInt z) (RInt z)
  | DnR b64 b32 : round32 b64 = Some b32 -> 0 <= b32 < 4294967296 -> denotes (PFloat b64) (RReal b32)
  | DnL b : 0 <= b < 18446744073709551616 -> denotes (PFloat b) (RLReal b)
  | DnB b : denotes (PBool b) (RBool b)
  | DnS s : denotes (PStr s) (RStr s)
  | DnList l vs : Forall2 denotes l vs -> denotes (PList l) (RList vs)
  | DnStruct dl fs : Forall2 (fun a b => fst a = fst b /\ denotes (snd a) (snd b)) dl fs -> denotes (PDict dl) (RStruct fs).

Definition plain_outside (p : project) (b m : member) : bool :=
  match member_size p m with
  | Some s => (m_off b <? m_off m) || (m_off m + s <=? m_off b)
  | None => false
  end.

(* a BOOL member: bit 0..7, and no non-BOOL member that comes LATER in the member list covers its byte
   (an earlier one may: the host the bit overlays, as in module-defined types) *)
Fixpoint bits_guard (p : project) (vis : list member) : bool :=
  match vis with
  | [] => true
  | b :: r => (negb (is_bool_member b)
               || ((0 <=? m_bit b) && (m_bit b <? 8) && forallb (fun m => is_bool_member m || plain_outside p b m) r))
              && bits_guard p r
  end.

Fixpoint ty_guard (fuel : nat) (p : project) (ty : base_ty) : bool :=
  match fuel with
  | O => false
  | S f =>
      match ty with
      | BAtom c => value_atom c || (c =? C_DWORD)          (* DWORD: 32 BOOLs (a BOOL[32k] member) *)
      | BOpaque _ => false
      | BStruct tid =>
          match find_template (p_templates p) tid with
          | None => false
          | Some t =>
              match string_shape t with
              | Some (lm, dm) => (m_off lm =? 0) && (m_off dm =? 4) && (0 <=? m_arr dm) && (4 + m_arr dm <=? t_size t) && (0 <=? t_size t)
              | None =>
                  let vis := visible_members t in
                  (0 <=? t_size t)
                  && forallb (fun m => negb (is_bool_member m && m_hidden m)) (t_members t)
                  && distinct_by Project.text_eqb (map m_name (t_members t))
                  && forallb (fun m => is_bool_member m || (ty_guard f p (m_ty m) && (0 <=? m_arr m))) vis
                  && bits_guard p vis
              end
          end
      end
  end.

(* ---- small facts *)
Lemma ptext_eqb_eq a b : Project.text_eqb a b = true <-> a = b.
Proof.
  revert b. induction a as [|x a IH]; intros b; destruct b as [|y b]; cbn [Project.text_eqb]; try (split; [discriminate|discriminate]); [tauto|].
  rewrite andb_true_iff, IH. split; [intros [H1 ->]; f_equal; lia|intros H; injection H as -> ->; split; [lia|reflexivity]].
Qed.
Lemma stext_eqb_eq a b : PyStr.text_eqb a b = true <-> a = b.
Proof.
  revert b. induction a as [|x a IH]; intros b; destruct b as [|y b]; cbn [PyStr.text_eqb]; try (split; [discriminate|discriminate]); [tauto|].
  rewrite andb_true_iff, IH. split; [intros [H1 ->]; f_equal; lia|intros H; injection H as -> ->; split; [lia|reflexivity]].
Qed.

Lemma distinct_NoDup (l : list text) : distinct_by Project.text_eqb l = true -> NoDup l.
Proof.
  induction l as [|x r IH]; cbn [distinct_by]; intros H; [constructor|].
  apply andb_true_iff in H as [H1 H2]. constructor; [|apply IH, H2].
  intros Hin. apply negb_true_iff in H1. assert (E : existsb (Project.text_eqb x) r = true).
  { apply existsb_exists. exists x. split; [exact Hin|apply ptext_eqb_eq; reflexivity]. }
  congruence.
Qed.

Lemma dict_get_self dl : NoDup (map fst dl) -> Forall (fun a => dict_get dl (fst a) = Some (snd a)) dl.
Proof.
  intros Hnd. apply Forall_forall. intros a Hin.
  induction dl as [|[k v] r IH]; [destruct Hin|]. cbn [map fst] in Hnd. inversion Hnd as [|? ? Hn Hr]; subst.
  cbn [dict_get]. destruct Hin as [<-|Hin].
  - cbn [fst snd]. replace (PyStr.text_eqb k k) with true by (symmetry; apply stext_eqb_eq; reflexivity). reflexivity.
  - destruct (PyStr.text_eqb k (fst a)) eqn:E.
    + apply stext_eqb_eq in E. subst k. exfalso. apply Hn. apply in_map, Hin.
    + apply IH; assumption.
Qed.

Lemma mem_text_in s l : mem_text s l = true <-> In s l.
Proof.
  unfold mem_text. rewrite existsb_exists. split.
  - intros [x [Hin E]]. apply stext_eqb_eq in E. subst. exact Hin.
  - intros Hin. exists s. split; [exact Hin|apply stext_eqb_eq; reflexivity].
Qed.

Lemma elem_chunk_none f p ty e : ty_guard f p ty = true -> is_bits_ty ty = false -> wty_of f p ty = Some e -> elem_chunk e = None.
Proof.
  destruct f as [|f]; [discriminate|]. cbn [ty_guard wty_of]. destruct ty as [c|tid|w]; [| |discriminate].
  - intros Hv Hb H. destruct (atom_name c) as [name|] eqn:En; [|discriminate]. injection H as <-. cbn [elem_chunk].
    cbn [is_bits_ty] in Hb.
    assert (Hv' : value_atom c = true).
    { destruct (value_atom c); [reflexivity|]. cbn [orb] in Hv. assert (c = C_DWORD) by lia. subst c. discriminate. }
    apply (value_atom_no_chunk c name En Hv').
  - intros _ _ H. destruct (find_template (p_templates p) tid) as [t|]; [|discriminate].
    destruct (string_shape t) as [[lm dm]|]; [injection H as <-; reflexivity|].
    match type of H with context [all_some ?l] => destruct (all_some l) end; [injection H as <-; reflexivity|discriminate].
Qed.

(* under the guard the only bit-string type is DWORD *)
Lemma guard_bits_dword f p ty : ty_guard f p ty = true -> is_bits_ty ty = true -> ty = BAtom C_DWORD.
Proof.
  destruct f as [|f]; [discriminate|]. cbn [ty_guard]. destruct ty as [c|tid|w]; cbn [is_bits_ty]; try discriminate.
  intros Hv Hb. f_equal.
  unfold value_atom, atom_signed, atom_unsigned, atom_bits, C_REAL, C_LREAL, C_SINT, C_INT, C_DINT, C_LINT,
    C_USINT, C_UINT, C_UDINT, C_ULINT, C_BYTE, C_WORD, C_DWORD, C_LWORD in *. lia.
Qed.

Lemma denotes_bools l vs : Forall2 denotes l vs -> forall bl, as_bools (RList vs) = Some bl -> map truthy l = bl.
Proof.
  cbn [as_bools]. induction 1 as [|x v l vs Hxv F IH]; intros bl H; cbn [map all_some] in H.
  - injection H as <-. reflexivity.
  - destruct v; try discriminate.
    destruct (all_some (map (fun x0 => match x0 with RBool b0 => Some b0 | _ => None end) vs)) as [r|] eqn:E; [|discriminate].
    injection H as <-. inversion Hxv; subst. cbn [map truthy]. rewrite (IH r eq_refl). reflexivity.
Qed.

(* Array(k, DWORD).encode(32 k booleans) (the class length, no explicit count) *)
Lemma dword_member_encode l k : length l = (32 * k)%nat -> (0 < k)%nat ->
  encode_ty (WArray (Z.of_nat k) (WElem n_DWORD)) (PList l) = Ok (bytes_of_bools (32 * k) (map truthy l)).
Proof.
  intros Hl Hk. cbn [encode_ty]. unfold array_encode. cbn [py_items elem_chunk]. rewrite dword_chunk.
  unfold LogixWrite.zlen. rewrite Hl. replace (Z.of_nat (32 * k) <? Z.of_nat k) with false by lia.
  replace (32 <=? 0) with false by reflexivity.
  replace (Z.of_nat (32 * k) / 32) with (Z.of_nat k) by lia. rewrite Nat2Z.id.
  change (Z.to_nat 32) with 32%nat.
  destruct (chunk_list_32 k (32 * k)%nat l ltac:(lia) Hl) as [C1 C2].
  change (encode_ty (WElem n_DWORD)) with (fun v : pv => elem_encode n_DWORD v).
  rewrite C1. rewrite map_length.
  assert (Hlen : length (chunk_list k 32 l) = k).
  { clear -Hl. revert l Hl. induction k as [|k IH]; intros l Hl; [reflexivity|].
    rewrite chunk_list_cons by (intros E; rewrite E in Hl; discriminate).
    cbn [length]. rewrite IH; [reflexivity|]. rewrite skipn_length. lia. }
  rewrite Hlen. replace (Z.of_nat k <? Z.of_nat k) with false by lia. cbn [wrap_all].
  rewrite C2. f_equal. symmetry. apply bytes_of_bools_le_enc; [lia|]. rewrite map_length. lia.
Qed.

(* ================================================================ the induction *)
Definition PT (f : nat) (p : project) : Prop :=
  forall bty w rv d x, ty_guard f p bty = true -> wty_of f p bty = Some w ->
    encode_val f p bty rv = Some d -> denotes x rv -> encode_ty w x = Ok d /\ bytes_ok d = true.

Lemma bytes_ok_concat ds : Forall (fun d => bytes_ok d = true) ds -> bytes_ok (concat ds) = true.
Proof. induction 1 as [|d r Hd Hr IH]; [reflexivity|]. cbn [concat]. rewrite bytes_ok_app, Hd, IH. reflexivity. Qed.

Lemma elements_level f p ty e l vs ds : PT f p -> ty_guard f p ty = true -> wty_of f p ty = Some e ->
  Forall2 denotes l vs -> all_some (map (encode_val f p ty) vs) = Some ds ->
  map_res (encode_ty e) l = Ok ds /\ Forall (fun d => bytes_ok d = true) ds.
Proof.
  intros HPT Hg Hw F. revert ds. induction F as [|x v l vs Hxv F IH]; intros ds H; cbn [map all_some] in H.
  - injection H as <-. split; [reflexivity|constructor].
  - destruct (encode_val f p ty v) as [d|] eqn:E; [|discriminate].
    destruct (all_some (map (encode_val f p ty) vs)) as [r|] eqn:E2; [|discriminate]. injection H as <-.
    destruct (HPT ty e v d x Hg Hw E Hxv) as [H1 H2]. destruct (IH r eq_refl) as [I1 I2].
    cbn [map_res]. rewrite H1, I1. split; [reflexivity|constructor; assumption].
Qed.

Lemma member_level f p m e v dm xv : PT f p ->
  ty_guard f p (m_ty m) = true -> 0 <= m_arr m -> wty_of f p (m_ty m) = Some e ->
  member_data (encode_val f p) p m v = Some dm -> denotes xv v ->
  encode_ty (if m_arr m =? 0 then e else WArray (m_arr m) e) xv = Ok dm /\ bytes_ok dm = true.
Proof.
  intros HPT Hg Ha Hw Hd Hx. unfold member_data in Hd.
  destruct (base_size p (m_ty m)) as [s|] eqn:Ebs; [|discriminate].
  destruct (m_arr m =? 0) eqn:E0.
  - destruct (encode_val f p (m_ty m) v) as [d|] eqn:E; [|discriminate].
    destruct (Expect.blen d =? s * member_elems m); [|discriminate]. injection Hd as <-.
    exact (HPT _ _ _ _ _ Hg Hw E Hx).
  - unfold encode_array_with in Hd. destruct (is_bits_ty (m_ty m)) eqn:Ebits.
    + (* a BOOL[32 k] member: DWORD array *)
      pose proof (guard_bits_dword f p _ Hg Ebits) as Ety. rewrite Ety in *.
      assert (Hs4 : s = 4) by (cbn [base_size] in Ebs; change (atom_size C_DWORD) with (Some 4) in Ebs; congruence).
      subst s.
      destruct (as_bools v) as [bl|] eqn:Eab; [|discriminate].
      destruct (Z.of_nat (length bl) =? 8 * 4 * m_arr m) eqn:El; [|discriminate].
      destruct (Expect.blen (bytes_of_bools (length bl) bl) =? 4 * member_elems m); [|discriminate]. injection Hd as <-.
      destruct v as [| | | | | |vs]; try discriminate.
      inversion Hx as [| | | | |l vs' F|]; subst.
      pose proof (denotes_bools l vs F bl Eab) as Hbl.
      assert (Hw' : e = WElem n_DWORD).
      { destruct f as [|f0]; [discriminate|]. cbn [wty_of] in Hw. injection Hw as <-. reflexivity. }
      subst e.
      set (k := Z.to_nat (m_arr m)).
      assert (Hk : m_arr m = Z.of_nat k) by (unfold k; lia).
      assert (Hll : length l = (32 * k)%nat) by (rewrite <- (map_length truthy l), Hbl; lia).
      rewrite Hk. rewrite (dword_member_encode l k Hll ltac:(lia)). rewrite Hbl.
      replace (length bl) with (32 * k)%nat by (rewrite <- Hbl, map_length; lia).
      split; [reflexivity|].
      rewrite (bytes_of_bools_le_enc (4 * k) (32 * k) bl) by (try lia; rewrite <- Hbl, map_length; lia). apply le_enc_ok.
    + destruct v as [| | | | | |vs]; try discriminate.
      destruct (Z.of_nat (length vs) =? m_arr m) eqn:El; [|discriminate].
      destruct (all_some (map (encode_val f p (m_ty m)) vs)) as [ds|] eqn:Eds; [|discriminate].
      destruct (forallb (fun d0 => Expect.blen d0 =? s) ds); [|discriminate].
      destruct (Expect.blen (concat ds) =? s * member_elems m); [|discriminate]. injection Hd as <-.
      inversion Hx as [| | | | |l vs' F|]; subst.
      destruct (elements_level f p (m_ty m) e l vs ds HPT Hg Hw F Eds) as [M1 M2].
      assert (Hll : length l = length vs) by (clear -F; induction F; cbn [length]; congruence).
      cbn [encode_ty]. unfold array_encode. cbn [py_items].
      rewrite (elem_chunk_none f p _ e Hg Ebits Hw).
      unfold LogixWrite.zlen. replace (Z.of_nat (length l) <? m_arr m) with false by lia.
      rewrite firstn_all2 by lia. rewrite M1.
      pose proof (all_some_length _ _ Eds) as Hds. rewrite map_length in Hds.
      replace (Z.of_nat (length ds) <? m_arr m) with false by lia. cbn [wrap_all].
      split; [reflexivity|apply bytes_ok_concat, M2].
Qed.

Definition tyof (f : nat) (p : project) (m : member) : option (text * Z * wty) :=
  match wty_of f p (m_ty m) with
  | Some e => Some (m_name m, m_off m, if m_arr m =? 0 then e else WArray (m_arr m) e)
  | None => None
  end.
Definition bitof (m : member) : text * (Z * Z) := (m_name m, (m_off m, m_bit m)).
Definition visible (m : member) : bool := negb (m_hidden m).
Definition nonbool (m : member) : bool := negb (is_bool_member m).

Definition aligned (D : list (text * pv)) (dl : list (text * pv)) (fs : list (text * rvalue)) : Prop :=
  Forall2 (fun a b => fst a = fst b /\ denotes (snd a) (snd b) /\ dict_get D (fst a) = Some (snd a)) dl fs.

(* loop 1: the non-BOOL members *)
Lemma loop1 f p D priv (HPT : PT f p) rest : forall fs dl ms_w ops img r,
  (forall m, In m rest -> m_hidden m = true -> In (m_name m) priv) ->
  (forall m, In m rest -> m_hidden m = false -> ~ In (m_name m) priv) ->
  aligned D dl fs ->
  spec_ops (encode_val f p) p (filter visible rest) fs = Some ops ->
  all_some (map (tyof f p) (filter nonbool rest)) = Some ms_w ->
  forallb (fun m => is_bool_member m || (ty_guard f p (m_ty m) && (0 <=? m_arr m))) (filter visible rest) = true ->
  forallb (fun m => negb (is_bool_member m && m_hidden m)) rest = true ->
  bytes_ok img = true -> run_ops (puts ops) img = Some r ->
  members_loop D priv ms_w img = Ok r /\ bytes_ok r = true.
Proof.
  induction rest as [|m rest IH]; intros fs dl ms_w ops img r Hp1 Hp2 Hal Hops Hms Hg Hnb Hok Hrun.
  - cbn [filter spec_ops map all_some] in *. destruct fs; [|discriminate]. injection Hops as <-. injection Hms as <-.
    cbn [puts filter run_ops members_loop] in *. injection Hrun as <-. auto.
  - assert (Hp1' : forall m0, In m0 rest -> m_hidden m0 = true -> In (m_name m0) priv) by (intros; apply Hp1; [right|]; assumption).
    assert (Hp2' : forall m0, In m0 rest -> m_hidden m0 = false -> ~ In (m_name m0) priv) by (intros; apply Hp2; [right|]; assumption).
    cbn [forallb] in Hnb. apply andb_true_iff in Hnb as [Hnb0 Hnb].
    cbn [filter] in *. change (visible m) with (negb (m_hidden m)) in *. change (nonbool m) with (negb (is_bool_member m)) in *.
    destruct (m_hidden m) eqn:Eh; cbn [negb] in *.
    + (* hidden: a non-BOOL member, skipped by the model; not in the reference's list *)
      destruct (is_bool_member m) eqn:Eb; [discriminate|]. cbn [negb map all_some] in Hms.
      destruct (tyof f p m) as [[[nm off] wm]|] eqn:Et; [|discriminate].
      destruct (all_some (map (tyof f p) (filter nonbool rest))) as [ms'|] eqn:Ems; [|discriminate]. injection Hms as <-.
      unfold tyof in Et. destruct (wty_of f p (m_ty m)); [|discriminate]. injection Et as <- <- <-.
      cbn [members_loop fst snd].
      replace (mem_text (m_name m) priv) with true by (symmetry; apply mem_text_in, (Hp1 m); [left; reflexivity|exact Eh]).
      apply (IH fs dl ms' ops img r Hp1' Hp2' Hal Hops eq_refl Hg Hnb Hok Hrun).
    + (* visible *)
      cbn [spec_ops] in Hops. destruct fs as [|[n v] fs]; [discriminate|].
      destruct (Project.text_eqb (m_name m) n) eqn:En; [|discriminate]. apply ptext_eqb_eq in En.
      destruct (op_of (encode_val f p) p m v) as [o|] eqn:Eo; [|discriminate].
      destruct (spec_ops (encode_val f p) p (filter visible rest) fs) as [os|] eqn:Eos; [|discriminate]. injection Hops as <-.
      inversion Hal as [|[n' xv] ? dl' ? (Hn' & Hden & Hget) Hal']; subst. cbn [fst snd] in *. subst n'.
      cbn [forallb] in Hg. apply andb_true_iff in Hg as [Hg0 Hg].
      unfold op_of in Eo. destruct (is_bool_member m) eqn:Eb.
      * (* a BOOL member: no put, not among the model's non-BOOL members *)
        destruct v; try discriminate. injection Eo as <-. cbn [puts filter is_put] in Hrun. fold (puts os) in Hrun.
        cbn [negb] in Hms. apply (IH fs dl' ms_w os img r Hp1' Hp2' Hal' Eos Hms Hg Hnb Hok Hrun).
      * cbn [negb map all_some] in Hms.
        destruct (tyof f p m) as [[[nm off] wm]|] eqn:Et; [|discriminate].
        destruct (all_some (map (tyof f p) (filter nonbool rest))) as [ms'|] eqn:Ems; [|discriminate]. injection Hms as <-.
        unfold tyof in Et. destruct (wty_of f p (m_ty m)) as [e|] eqn:Ew; [|discriminate]. injection Et as <- <- <-.
        destruct (member_data (encode_val f p) p m v) as [dm|] eqn:Ed; [|discriminate]. cbn [option_map] in Eo. injection Eo as <-.
        cbn [orb] in Hg0. apply andb_true_iff in Hg0 as [Hgt Harr].
        destruct (member_level f p m e v dm xv HPT Hgt ltac:(lia) Ew Ed Hden) as [Henc Hokd].
        cbn [puts filter is_put run_ops run_op] in Hrun. fold (puts os) in Hrun.
        destruct (put_bytes img (m_off m) dm) as [i|] eqn:Hput; [|discriminate]. cbn [obind] in Hrun.
        cbn [members_loop fst snd].
        replace (mem_text (m_name m) priv) with false.
        2:{ symmetry. destruct (mem_text (m_name m) priv) eqn:E; [|reflexivity]. apply mem_text_in in E.
            exfalso. apply (Hp2 m); [left; reflexivity|exact Eh|exact E]. }
        rewrite Hget, Henc. rewrite (splice_put _ _ _ _ Hput).
        apply (IH fs dl' ms' os i r Hp1' Hp2' Hal' Eos eq_refl Hg Hnb (bytes_ok_put _ _ _ _ Hok Hokd Hput) Hrun).
Qed.

(* loop 2: the BOOL members *)
Lemma loop2 f p D rest : forall fs dl ops img r,
  aligned D dl fs ->
  spec_ops (encode_val f p) p (filter visible rest) fs = Some ops ->
  forallb (fun b => negb (is_bool_member b) || ((0 <=? m_bit b) && (m_bit b <? 8))) (filter visible rest) = true ->
  forallb (fun m => negb (is_bool_member m && m_hidden m)) rest = true ->
  bytes_ok img = true -> run_ops (bits ops) img = Some r ->
  struct_bits D (map bitof (filter is_bool_member rest)) img = Ok r /\ bytes_ok r = true.
Proof.
  induction rest as [|m rest IH]; intros fs dl ops img r Hal Hops Hg Hnb Hok Hrun.
  - cbn [filter spec_ops map] in *. destruct fs; [|discriminate]. injection Hops as <-.
    cbn [bits filter run_ops struct_bits] in *. injection Hrun as <-. auto.
  - cbn [forallb] in Hnb. apply andb_true_iff in Hnb as [Hnb0 Hnb].
    cbn [filter] in *. change (visible m) with (negb (m_hidden m)) in *.
    destruct (m_hidden m) eqn:Eh; cbn [negb] in *.
    + destruct (is_bool_member m) eqn:Eb; [discriminate|]. apply (IH fs dl ops img r Hal Hops Hg Hnb Hok Hrun).
    + cbn [spec_ops] in Hops. destruct fs as [|[n v] fs]; [discriminate|].
      destruct (Project.text_eqb (m_name m) n) eqn:En; [|discriminate]. apply ptext_eqb_eq in En.
      destruct (op_of (encode_val f p) p m v) as [o|] eqn:Eo; [|discriminate].
      destruct (spec_ops (encode_val f p) p (filter visible rest) fs) as [os|] eqn:Eos; [|discriminate]. injection Hops as <-.
      inversion Hal as [|[n' xv] ? dl' ? (Hn' & Hden & Hget) Hal']; subst. cbn [fst snd] in *. subst n'.
      cbn [forallb] in Hg. apply andb_true_iff in Hg as [Hg0 Hg].
      unfold op_of in Eo. destruct (is_bool_member m) eqn:Eb.
      * destruct v as [|xb| | | | |]; try discriminate. injection Eo as <-.
        cbn [bits filter is_put negb run_ops run_op] in Hrun. fold (bits os) in Hrun.
        destruct (bit_op img (m_off m) (m_bit m) xb) as [i|] eqn:Hbo; [|discriminate]. cbn [obind] in Hrun.
        cbn [negb orb] in Hg0. assert (Hbit : 0 <= m_bit m < 8) by lia.
        inversion Hden; subst.
        cbn [map struct_bits bitof]. rewrite Hget. cbn [truthy].
        rewrite (set_byte_bit_op img (m_off m) (m_bit m) _ i Hok Hbit Hbo).
        apply (IH fs dl' os i r Hal' Eos Hg Hnb (bytes_ok_bit_op _ _ _ _ _ Hok Hbit Hbo) Hrun).
      * destruct (member_data (encode_val f p) p m v) as [dm|]; [|discriminate]. cbn [option_map] in Eo. injection Eo as <-.
        cbn [bits filter is_put negb] in Hrun. fold (bits os) in Hrun.
        apply (IH fs dl' os img r Hal' Eos Hg Hnb Hok Hrun).
Qed.

(* ---- bookkeeping about the operation list *)
Lemma spec_ops_in ev p ms : forall fs ops o, spec_ops ev p ms fs = Some ops -> In o ops ->
  exists m v, In m ms /\ op_of ev p m v = Some o.
Proof.
  induction ms as [|m ms IH]; intros fs ops o H Hin; destruct fs as [|[n v] fs]; cbn [spec_ops] in H; try discriminate.
  - injection H as <-. destruct Hin.
  - destruct (Project.text_eqb (m_name m) n); [|discriminate].
    destruct (op_of ev p m v) as [o1|] eqn:Eo; [|discriminate].
    destruct (spec_ops ev p ms fs) as [os|] eqn:Es; [|discriminate]. injection H as <-.
    destruct Hin as [<-|Hin].
    + exists m, v. split; [left; reflexivity|exact Eo].
    + destruct (IH fs os o Es Hin) as (m' & v' & Hm & Ho). exists m', v'. split; [right; exact Hm|exact Ho].
Qed.

Lemma spec_ops_names ev p ms : forall fs ops, spec_ops ev p ms fs = Some ops -> map fst fs = map m_name ms.
Proof.
  induction ms as [|m ms IH]; intros fs ops H; destruct fs as [|[n v] fs]; cbn [spec_ops] in H; try discriminate; [reflexivity|].
  destruct (Project.text_eqb (m_name m) n) eqn:En; [|discriminate]. apply ptext_eqb_eq in En.
  destruct (op_of ev p m v); [|discriminate]. destruct (spec_ops ev p ms fs) as [os|] eqn:Es; [|discriminate].
  cbn [map fst]. rewrite (IH fs os Es), En. reflexivity.
Qed.

Lemma op_outside ev p b m v o : is_bool_member b = true -> (is_bool_member m || plain_outside p b m) = true ->
  op_of ev p m v = Some o -> outside_put (m_off b) o.
Proof.
  intros Hb Hm Ho. unfold op_of in Ho. destruct (is_bool_member m) eqn:Ebm.
  - destruct v; try discriminate. injection Ho as <-. exact I.
  - destruct (member_data ev p m v) as [dm|] eqn:Ed; [|discriminate]. cbn [option_map] in Ho. injection Ho as <-.
    cbn [orb] in Hm. unfold plain_outside, member_size in Hm. unfold member_data in Ed. cbn [outside_put].
    destruct (base_size p (m_ty m)) as [s|]; [|discriminate].
    destruct (if m_arr m =? 0 then ev (m_ty m) v else encode_array_with ev (m_ty m) s (m_arr m) v) as [d0|]; [|discriminate].
    destruct (Expect.blen d0 =? s * member_elems m) eqn:El; [|discriminate]. injection Ed as <-. lia.
Qed.

Lemma spec_ops_forall ev p (P : member -> bool) (Q : op -> Prop) ms : forall fs ops,
  (forall m v o, P m = true -> op_of ev p m v = Some o -> Q o) ->
  forallb P ms = true -> spec_ops ev p ms fs = Some ops -> Forall Q ops.
Proof.
  induction ms as [|m ms IH]; intros fs ops HPQ Hall H; destruct fs as [|[n v] fs]; cbn [spec_ops] in H; try discriminate.
  - injection H as <-. constructor.
  - destruct (Project.text_eqb (m_name m) n); [|discriminate].
    destruct (op_of ev p m v) as [o|] eqn:Eo; [|discriminate].
    destruct (spec_ops ev p ms fs) as [os|] eqn:Es; [|discriminate]. injection H as <-.
    cbn [forallb] in Hall. apply andb_true_iff in Hall as [H1 H2].
    constructor; [exact (HPQ m v o H1 Eo)|exact (IH fs os HPQ H2 Es)].
Qed.

Lemma separated_of_guard ev p vis : forall fs ops,
  spec_ops ev p vis fs = Some ops -> bits_guard p vis = true -> separated ops.
Proof.
  induction vis as [|b r IH]; intros fs ops Hs Hg; destruct fs as [|[n v] fs]; cbn [spec_ops] in Hs; try discriminate.
  - injection Hs as <-. exact I.
  - destruct (Project.text_eqb (m_name b) n); [|discriminate].
    destruct (op_of ev p b v) as [o|] eqn:Eo; [|discriminate].
    destruct (spec_ops ev p r fs) as [os|] eqn:Es; [|discriminate]. injection Hs as <-.
    cbn [bits_guard] in Hg. apply andb_true_iff in Hg as [Hg0 Hg].
    specialize (IH fs os Es Hg).
    unfold op_of in Eo. destruct (is_bool_member b) eqn:Ebb.
    + destruct v; try discriminate. injection Eo as <-. cbn [separated]. split; [|exact IH].
      cbn [negb orb] in Hg0. apply andb_true_iff in Hg0 as [_ Hout].
      apply (spec_ops_forall ev p (fun m => is_bool_member m || plain_outside p b m) (outside_put (m_off b)) r fs os); [|exact Hout|exact Es].
      intros m v' o Hm Ho. exact (op_outside ev p b m v' o Ebb Hm Ho).
    + destruct (member_data ev p b v); [|discriminate]. cbn [option_map] in Eo. injection Eo as <-. cbn [separated]. exact IH.
Qed.

Lemma bits_guard_range p vis : bits_guard p vis = true ->
  forallb (fun b => negb (is_bool_member b) || ((0 <=? m_bit b) && (m_bit b <? 8))) vis = true.
Proof.
  induction vis as [|b r IH]; [reflexivity|]. cbn [bits_guard forallb]. intros H. apply andb_true_iff in H as [H0 H1].
  rewrite (IH H1), andb_true_r. destruct (is_bool_member b); cbn [negb orb] in *; [|reflexivity].
  apply andb_true_iff in H0 as [H0 _]. exact H0.
Qed.

Lemma NoDup_map_inj {A B} (f : A -> B) l a b : NoDup (map f l) -> In a l -> In b l -> f a = f b -> a = b.
Proof.
  induction l as [|x l IH]; intros Hnd Ha Hb E; [destruct Ha|]. cbn [map] in Hnd. inversion Hnd as [|? ? Hn Hr]; subst.
  destruct Ha as [<-|Ha], Hb as [<-|Hb]; try reflexivity.
  - exfalso. apply Hn. rewrite E. apply in_map, Hb.
  - exfalso. apply Hn. rewrite <- E. apply in_map, Ha.
  - apply IH; assumption.
Qed.

Lemma NoDup_map_filter' {A B} (f : A -> B) (g : A -> bool) l : NoDup (map f l) -> NoDup (map f (filter g l)).
Proof.
  induction l as [|a l IH]; intros H; [constructor|]. cbn [map] in H. inversion H as [|? ? Hn Hr]; subst.
  cbn [filter]. destruct (g a); [|apply IH, Hr]. cbn [map]. constructor; [|apply IH, Hr].
  intros Hin. apply Hn. apply in_map_iff in Hin as [x [E Hx]]. apply filter_In in Hx as [Hx _]. apply in_map_iff. exists x. auto.
Qed.

Lemma run_ops_split a b img r : run_ops (a ++ b) img = Some r -> exists i, run_ops a img = Some i /\ run_ops b i = Some r.
Proof. rewrite run_ops_app. destruct (run_ops a img) as [i|]; cbn [obind]; [intros H; exists i; auto|discriminate]. Qed.

Lemma fixedstr_ok size cap cs d : encode_ty (WFixedStr size cap) (PStr cs) = Ok d -> bytes_ok cs = true -> bytes_ok d = true.
Proof.
  cbn [encode_ty]. unfold fixedstr_encode, latin1_encode. intros H Hok.
  destruct (latin1_ok (firstn (Z.to_nat cap) cs)); cbv beta iota delta [wrap_all] in H; [|discriminate]. injection H as <-.
  rewrite !bytes_ok_cons, bytes_ok_app, zeros_ok, (bytes_ok_firstn _ _ Hok).
  unfold byte_ok. repeat (apply andb_true_iff; split); try reflexivity; lia.
Qed.

Lemma aligned_of D : forall dl fs,
  Forall2 (fun a b => fst a = fst b /\ denotes (snd a) (snd b)) dl fs ->
  Forall (fun a => dict_get D (fst a) = Some (snd a)) dl -> aligned D dl fs.
Proof.
  induction 1 as [|a b l l' [E Dn] F IH]; intros Hs; [constructor|].
  inversion Hs as [|? ? H0 Hs']; subst. constructor; [auto|apply IH, Hs'].
Qed.

(* ================================================================ the type-level theorem *)
Theorem struct_encoding_spec p : forall f, PT f p.
Proof.
  induction f as [|f HPT]; [intros bty w rv d x Hg; discriminate|].
  intros bty w rv d x Hg Hw He Hx.
  destruct bty as [c|tid|ow]; [| |discriminate].
  - (* elementary *)
    cbn [ty_guard] in Hg. cbn [wty_of] in Hw. cbn [encode_val] in He.
    destruct (value_atom c) eqn:Hv; cbn [orb] in Hg.
    2:{ (* DWORD: 32 booleans *)
        assert (c = C_DWORD) by lia. subst c. clear Hg Hv.
        change (atom_name C_DWORD) with (Some n_DWORD) in Hw. cbn [option_map] in Hw. injection Hw as <-.
        unfold encode_atom in He. change (atom_size C_DWORD) with (Some 4) in He. cbv beta iota in He.
        destruct rv as [| | | | | |vs]; try discriminate.
        change (atom_bits C_DWORD) with true in He. cbv beta iota in He.
        destruct (as_bools (RList vs)) as [bl|] eqn:Eab; [|discriminate].
        destruct (Z.of_nat (length bl) =? 8 * 4) eqn:El; [|discriminate]. injection He as <-.
        inversion Hx as [| | | | |l vs' F|]; subst.
        pose proof (denotes_bools l vs F bl Eab) as Hbl.
        assert (Hll : length l = 32%nat) by (rewrite <- (map_length truthy l), Hbl; lia).
        cbn [encode_ty]. rewrite (dword_encode l Hll), Hbl.
        replace (length bl) with 32%nat by lia.
        rewrite (bytes_of_bools_le_enc 4 32 bl) by lia. split; [reflexivity|apply le_enc_ok]. }
    clear Hg. rename Hv into Hg.
    destruct (atom_name c) as [name|] eqn:En; [|discriminate]. injection Hw as <-.
    assert (Hd : denotes_atom c x rv).
    { unfold encode_atom in He. destruct (atom_size c) as [s|]; [|discriminate].
      assert (Hnb : (c =? C_BOOL) = false /\ atom_bits c = false).
      { unfold value_atom, atom_signed, atom_unsigned, atom_bits, C_REAL, C_LREAL, C_SINT, C_INT, C_DINT, C_LINT,
          C_USINT, C_UINT, C_UDINT, C_ULINT, C_BYTE, C_WORD, C_DWORD, C_LWORD, C_BOOL in *. lia. }
      destruct Hnb as [Hnb1 Hnb2].
      inversion Hx as [z|b64 b32 Hr Hb|b Hb|b|s0|l vs F|dl fs F]; subst.
      - constructor. unfold atom_integer. destruct (atom_signed c); [reflexivity|]. destruct (atom_unsigned c); [reflexivity|discriminate].
      - destruct ((c =? C_REAL) && in_urange 4 b32) eqn:E; [|discriminate]. apply andb_true_iff in E as [E _].
        assert (c = C_REAL) by lia. subst c. constructor; assumption.
      - destruct ((c =? C_LREAL) && in_urange 8 b) eqn:E; [|discriminate]. apply andb_true_iff in E as [E _].
        assert (c = C_LREAL) by lia. subst c. constructor; assumption.
      - rewrite Hnb1 in He. discriminate.
      - discriminate.
      - rewrite Hnb2 in He. discriminate.
      - discriminate. }
    pose proof (elem_encode_spec c name x rv En Hg Hd) as Hm. rewrite He in Hm. cbn [res_of_opt] in Hm.
    split; [exact Hm|].
    unfold encode_atom in He. destruct (atom_size c) as [s|]; [|discriminate].
    destruct rv; try discriminate.
    + destruct (atom_signed c); [destruct (in_srange (Z.to_nat s) z); [injection He as <-; apply le_enc_ok|discriminate]|].
      destruct (atom_unsigned c); [|discriminate]. destruct (in_urange (Z.to_nat s) z); [injection He as <-; apply le_enc_ok|discriminate].
    + destruct (c =? C_BOOL); [injection He as <-; destruct b; reflexivity|discriminate].
    + destruct ((c =? C_REAL) && in_urange 4 bits0); [injection He as <-; exact (le_enc_ok 4 bits0)|discriminate].
    + destruct ((c =? C_LREAL) && in_urange 8 bits0); [injection He as <-; exact (le_enc_ok 8 bits0)|discriminate].
    + destruct (atom_bits c) eqn:Eb; [|discriminate]. exfalso.
      unfold value_atom, atom_signed, atom_unsigned, atom_bits, C_REAL, C_LREAL, C_SINT, C_INT, C_DINT, C_LINT,
        C_USINT, C_UINT, C_UDINT, C_ULINT, C_BYTE, C_WORD, C_DWORD, C_LWORD in *. lia.
  - (* structures *)
    cbn [ty_guard] in Hg. cbn [wty_of] in Hw. cbn [encode_val] in He.
    destruct (find_template (p_templates p) tid) as [t|] eqn:Ef; [|discriminate].
    destruct (string_shape t) as [[lm dm]|] eqn:Ess.
    + (* a string *)
      injection Hw as <-. destruct rv as [| | | |cs| |]; try discriminate.
      inversion Hx; subst.
      assert (Hok : bytes_ok cs = true) by (unfold encode_string in He; destruct (bytes_ok cs); [reflexivity|discriminate]).
      assert (G : m_off lm = 0 /\ m_off dm = 4 /\ 0 <= m_arr dm /\ 4 + m_arr dm <= t_size t) by lia.
      destruct G as (G1 & G2 & G3 & G4).
      pose proof (fixedstr_encode_spec t lm dm cs G1 G2 G3 G4 Hok) as Hm. rewrite He in Hm. cbn [res_of_opt] in Hm.
      split; [exact Hm|exact (fixedstr_ok _ _ _ _ Hm Hok)].
    + (* a plain structure *)
      destruct rv as [| | | | |fs|]; try discriminate.
      inversion Hx as [| | | | | |dl fs' F]; subst.
      apply andb_true_iff in Hg as [Hg Hsep]. apply andb_true_iff in Hg as [Hg Hmem].
      apply andb_true_iff in Hg as [Hg Hdist]. apply andb_true_iff in Hg as [Hsz Hnohb].
      set (all := t_members t) in *. set (vis := visible_members t) in *.
      change (visible_members t) with (filter visible all) in vis.
      (* the model's type *)
      change (filter (fun m : member => negb (is_bool_member m)) all) with (filter nonbool all) in Hw.
      change (fun m : member => match wty_of f p (m_ty m) with
                                | Some e => Some (m_name m, m_off m, if m_arr m =? 0 then e else WArray (m_arr m) e)
                                | None => None end) with (tyof f p) in Hw.
      destruct (all_some (map (tyof f p) (filter nonbool all))) as [ms_w|] eqn:Ems; [|discriminate]. injection Hw as <-.
      change (map (fun m : member => (m_name m, (m_off m, m_bit m))) (filter is_bool_member all)) with (map bitof (filter is_bool_member all)).
      set (priv := map m_name (filter m_hidden all)).
      (* the reference as operations, reordered *)
      destruct (encode_members_as_ops (encode_val f p) p vis fs (zeros (Z.to_nat (t_size t))) d He) as (ops & Hops & Hrun).
      pose proof (separated_of_guard _ _ _ _ _ Hops Hsep) as Hsepd.
      rewrite (run_ops_reorder ops Hsepd) in Hrun.
      destruct (run_ops_split _ _ _ _ Hrun) as (i1 & Hr1 & Hr2).
      (* names and the dictionary *)
      pose proof (distinct_NoDup _ Hdist) as Hnd.
      assert (Hnames : map fst dl = map m_name vis).
      { rewrite <- (spec_ops_names _ _ _ _ _ Hops). clear -F. induction F as [|a b l l' [E _] _ IH]; [reflexivity|]. cbn [map]. rewrite E, IH. reflexivity. }
      assert (Hndl : NoDup (map fst dl)) by (rewrite Hnames; apply NoDup_map_filter', Hnd).
      pose proof (dict_get_self dl Hndl) as Hself.
      pose proof (aligned_of dl dl fs F Hself) as Hal.
      assert (Hp1 : forall m, In m all -> m_hidden m = true -> In (m_name m) priv).
      { intros m Hin Hh. unfold priv. apply in_map. apply filter_In. auto. }
      assert (Hp2 : forall m, In m all -> m_hidden m = false -> ~ In (m_name m) priv).
      { intros m Hin Hh Hc. unfold priv in Hc. apply in_map_iff in Hc as (m' & E & Hm'). apply filter_In in Hm' as [Hm' Hh'].
        assert (m' = m) by (apply (NoDup_map_inj m_name all m' m Hnd Hm' Hin E)). subst m'. congruence. }
      pose proof (bits_guard_range p _ Hsep) as Hg2.
      destruct (loop1 f p dl priv HPT all fs dl ms_w ops (zeros (Z.to_nat (t_size t))) i1 Hp1 Hp2 Hal Hops Ems Hmem Hnohb (zeros_ok _) Hr1) as [L1 Hok1].
      destruct (loop2 f p dl all fs dl ops i1 d Hal Hops Hg2 Hnohb Hok1 Hr2) as [L2 Hok2].
      rewrite encode_struct_unfold, L1, L2. split; [reflexivity|exact Hok2].
Qed.

(* ================================================================ the request *)
(* A whole structure (not a string) of the covered class, written from a dict whose values denote
   the reference value: the model's request, executed by the target, leaves the reference memory. *)
Definition stmt_struct_with (G : project -> Z -> Prop) : Prop :=
  forall p m r inst off tid dims avail t x rv m_ref img id tag ty inst_id ui seq path,
  G p tid ->
  resolve p r = Some (PlData inst off (BStruct tid) dims avail) -> r_bit r = None -> r_count r = None ->
  mem_get m inst = Some img ->
  find_template (p_templates p) tid = Some t -> string_shape t = None ->
  0 <= t_handle t < 65536 -> PyStr.text_eqb (t_name t) n_DWORD = false ->
  wty_of (depth_fuel p) p (BStruct tid) = Some ty ->
  denotes x rv ->
  ref_write p m r rv = Some m_ref ->
  1 <= avail -> 0 <= seq < 65536 ->
  let info := mkInfo true (t_name t) ty (t_handle t) inst_id in
  let q := mkParsed id false tag None 1 None info x in
  let l := mkWLoc inst off (BStruct tid) dims avail None in
  path_of tag info ui = Ok (Some path) ->
  exists data pk pk1,
    encode_value q = Ok (data, 1)
    /\ new_write_packet KWrite seq tag 1 info id ui 0 data = Ok pk
    /\ build_message pk = Ok pk1
    /\ k_message pk1 = le_enc 2 seq ++ [77] ++ path ++ write_data (160 :: 2 :: le_enc 2 (t_handle t)) 1 data
    /\ svc_write p m img l (write_data (160 :: 2 :: le_enc 2 (t_handle t)) 1 data)
       = (m_ref, mr_ok [], [EvApp 1 [inst; off; 77] data]).

(* the covered class *)
Definition stmt_struct : Prop := stmt_struct_with (fun p tid => ty_guard (depth_fuel p) p (BStruct tid) = true).

Theorem write_correct_struct : stmt_struct.
Proof.
  unfold stmt_struct, stmt_struct_with.
  intros p m r inst off tid dims avail t x rv m_ref img id tag ty inst_id ui seq path
         Hg Hres Hbit Hcnt Hmem Hft Hss Hh Hnd Hty Hx Hw Hav Hseq Hpath.
  set (info := mkInfo true (t_name t) ty (t_handle t) inst_id) in *.
  set (q := mkParsed id false tag None 1 None info x).
  set (l := mkWLoc inst off (BStruct tid) dims avail None).
  unfold ref_write in Hw. rewrite Hres in Hw. cbn [place_inst] in Hw. rewrite Hmem, Hbit, Hcnt in Hw.
  destruct (write_place p img (PlData inst off (BStruct tid) dims avail) None None rv) as [img'|] eqn:Hwp; [|discriminate].
  injection Hw as <-.
  assert (Href : exists d, encode_val (depth_fuel p) p (BStruct tid) rv = Some d /\ Expect.blen d = t_size t /\ put_bytes img off d = Some img').
  { unfold write_place in Hwp. cbn [base_size] in Hwp. rewrite Hft in Hwp.
    destruct (encode_val (depth_fuel p) p (BStruct tid) rv) as [d|] eqn:E; [|discriminate]. exists d.
    destruct (Expect.blen d =? t_size t) eqn:E2; [|discriminate]. split; [reflexivity|]. split; [lia|exact Hwp]. }
  destruct Href as (d & He & Hl & Hput).
  destruct (struct_encoding_spec p (depth_fuel p) (BStruct tid) ty rv d x Hg Hty He Hx) as [Hm _].
  (* the value is a dict, the type a StructTag *)
  assert (Hna : is_array_ty ty = false).
  { unfold depth_fuel in Hty. cbn [wty_of] in Hty. rewrite Hft, Hss in Hty.
    match type of Hty with context [all_some ?l0] => destruct (all_some l0) end; [injection Hty as <-; reflexivity|discriminate]. }
  assert (Hxd : exists dl, x = PDict dl).
  { unfold depth_fuel in He. cbn [encode_val] in He. rewrite Hft, Hss in He.
    destruct rv; try discriminate. inversion Hx; subst. eexists; reflexivity. }
  destruct Hxd as [dl ->].
  assert (Hev : encode_value q = Ok (d, 1)).
  { unfold encode_value. subst q info. cbn [q_value q_elements q_bool_elements q_info q_bit ti_type_name ti_type z_or opt_or0].
    rewrite Hnd, Hna, Hm. reflexivity. }
  pose proof (packed_type_struct (t_name t) ty (t_handle t) inst_id Hh) as Hpt. fold info in Hpt.
  assert (Hnew : exists pk, new_write_packet KWrite seq tag 1 info id ui 0 d = Ok pk /\ k_packed_type pk = 160 :: 2 :: le_enc 2 (t_handle t)).
  { unfold new_write_packet. rewrite Hpt. eexists. split; reflexivity. }
  destruct Hnew as (pk & Hnew & Hkpt).
  assert (Hel : 0 <= 1 < 65536) by lia.
  destruct (write_message seq tag 1 info id ui d pk path Hnew Hpath Hseq Hel) as (pk1 & Hb & Hmsg & _).
  rewrite Hkpt in Hmsg.
  exists d, pk, pk1. split; [exact Hev|]. split; [exact Hnew|]. split; [exact Hb|]. split; [exact Hmsg|].
  rewrite (svc_write_accepts p m img l (write_data (160 :: 2 :: le_enc 2 (t_handle t)) 1 d) (inr (t_handle t)) 1 d (t_size t)).
  - apply (store_at l m img d img' 77 eq_refl). exact Hput.
  - unfold write_data. cbn [app]. apply parse_wtype_struct, Hh.
  - cbn [type_matches w_ty l]. rewrite Hft. apply Z.eqb_refl.
  - unfold loc_esize. cbn [w_bit l w_ty base_size]. rewrite Hft. reflexivity.
  - cbn [w_avail l]. lia.
  - lia.
  - lia.
Qed.

(* non-vacuity: the example structure of Proofs/WriteFull.v (hidden SINT host with two BOOL members,
   INT, DINT[2]) is in the covered class *)
Example struct_guard_example : ty_guard (depth_fuel ex_proj) ex_proj (BStruct 672) = true.
Proof. vm_compute. reflexivity. Qed.

(* a module-defined type: BOOL members overlay the VISIBLE INT host Data that precedes them.  It is in
   the covered class; with an inconsistent dict (Data = 0, Pt00 = Pt09 = True) the bits win, in the
   code's encoding as in the reference: Data is stored as 0x0201 *)
Definition ex_mod : template :=
  mkTemplate (zs "AB:Embedded_IQ16:I:0") None 3900 4660 8 0
    [ mkMember (zs "Fault") (BAtom C_DINT) 0 0 0 false;
      mkMember (zs "Data") (BAtom C_INT) 0 4 0 false;
      mkMember (zs "Pt00") (BAtom C_BOOL) 0 4 0 false;
      mkMember (zs "Pt09") (BAtom C_BOOL) 0 5 1 false;
      mkMember (zs "Pad") (BAtom C_INT) 0 6 0 false ].
Definition ex_mod_proj : project := mkProject [ex_mod] [mkTag (zs "Local:1:I") 5 ScCtrl (BStruct 3900) [] 0 false 0 0 0 0].
Definition ex_mod_ty : option wty := Eval vm_compute in wty_of (depth_fuel ex_mod_proj) ex_mod_proj (BStruct 3900).
Example struct_guard_module_type :
  ty_guard (depth_fuel ex_mod_proj) ex_mod_proj (BStruct 3900) = true
  /\ match ex_mod_ty with
     | None => False
     | Some ty =>
         let rv := RStruct [(zs "Fault", RInt 7); (zs "Data", RInt 0); (zs "Pt00", RBool true); (zs "Pt09", RBool true); (zs "Pad", RInt (-1))] in
         encode_val (depth_fuel ex_mod_proj) ex_mod_proj (BStruct 3900) rv = Some [7; 0; 0; 0; 1; 2; 255; 255]
         /\ encode_ty ty (py_of rv) = Ok [7; 0; 0; 0; 1; 2; 255; 255]
     end.
Proof. vm_compute. repeat split; reflexivity. Qed.

(* a structure with a BOOL[64] member (DWORD[2]) and a scalar DWORD is in the covered class *)
Definition ex_bits : template :=
  mkTemplate (zs "udtBits") (Some (zs "n2")) 673 17186 16 0
    [ mkMember (zs "Word") (BAtom C_DWORD) 0 0 0 false;
      mkMember (zs "Flags") (BAtom C_DWORD) 2 4 0 false;
      mkMember (zs "N") (BAtom C_DINT) 0 12 0 false ].
Example struct_guard_bits :
  ty_guard 3 (mkProject [ex_bits] []) (BStruct 673) = true.
Proof. vm_compute. reflexivity. Qed.
