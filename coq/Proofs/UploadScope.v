(* Proofs/UploadScope.v — C05: one scope of the upload (model client o reference target):
   * [scope_symbols]: the pager returns every symbol of the scope, in instance order, for EVERY page
     policy and every capacity that lets one symbol through (Proofs/UploadParse.pagination_independent
     instantiated with the target, Proofs/UploadTarget);
   * [isolate_ok]: _isolate_user_tags + _create_tag over those symbols: exactly the user-visible
     tags of the scope (Spec/Project.hidden_symbol), each with the expected observation; programs,
     routines and tasks recorded; the structures they use fetched (Proofs/UploadMirror). *)
From Coq Require Import ZifyBool String Sorted Permutation.
From PV Require Import Base.Bytes Base.BytesLemmas Base.Proto Base.PyStr Base.Res.
From PV Require Import Spec.EncapParser Spec.MRParser Spec.TargetIface Spec.TargetCore Spec.Project Spec.Expect Spec.TargetLogix Spec.UploadObs.
From PV Require Import Model.LogixUpload.
From PV Require Import Proofs.UploadDefs Proofs.UploadParse Proofs.UploadFilter Proofs.UploadTemplate Proofs.UploadBlob
  Proofs.UploadObsP Proofs.UploadTarget Proofs.UploadMirror.
From PV Require Gen.Consts Gen.Status.
Open Scope string_scope.
Open Scope list_scope.
Open Scope Z_scope.

(* ================================================================ lists *)
Lemma flat_map_map {A B C} (f : B -> list C) (g : A -> B) l : flat_map f (map g l) = flat_map (fun x => f (g x)) l.
Proof. induction l as [|x l IH]; [reflexivity|]. cbn [map flat_map]. rewrite IH. reflexivity. Qed.

Lemma filter_map_comm {A B} (f : B -> bool) (g : A -> B) l : filter f (map g l) = map g (filter (fun x => f (g x)) l).
Proof. induction l as [|x l IH]; [reflexivity|]. cbn [map filter]. destruct (f (g x)); cbn [map]; rewrite IH; reflexivity. Qed.

Lemma filter_filter {A} (f g : A -> bool) l : filter f (filter g l) = filter (fun x => g x && f x) l.
Proof. induction l as [|x l IH]; [reflexivity|]. cbn [filter]. destruct (g x); cbn [filter andb]; [destruct (f x)|]; rewrite IH; reflexivity. Qed.

Lemma filter_len_le {A} (f : A -> bool) l : (length (filter f l) <= length l)%nat.
Proof. induction l as [|x l IH]; [cbn; lia|]. cbn [filter]. destruct (f x); cbn [length]; lia. Qed.

(* ================================================================ the domain of a symbol *)
Definition tag_dom (cap : Z) (g : tagdef) : Prop :=
  Z.of_nat (length (g_name g)) + 38 <= cap
  /\ Forall (fun d => d < 4294967296) (g_dims g)
  /\ colon_regular (g_name g) = true /\ opaque_marked g = true
  /\ (starts_with txt_Program (g_name g) = true ->
      g_scope g = ScCtrl /\ skipn 8 (g_name g) <> [] /\ contains_str txt_Program (skipn 8 (g_name g)) = false
      /\ (length (skipn 8 (g_name g)) <= 247)%nat)
  /\ (starts_with txt_Routine (g_name g) = true -> contains_str txt_Routine (skipn 8 (g_name g)) = false)
  /\ (starts_with txt_Task (g_name g) = true ->
      g_scope g = ScCtrl /\ contains_str txt_Task (skipn 5 (g_name g)) = false).

Lemma wentry_of_tag_ok p g cap :
  templates_ok [] (p_templates p) = true -> tag_ok p g = true -> tag_dom cap g -> 34 <= cap -> cap <= 65535 ->
  wentry_ok (wentry_of_tag g) /\ 0 <= we_inst (wentry_of_tag g).
Proof.
  intros Hts Hok (Hlen & Hdims & _) Hcap Hcap2.
  pose proof (tag_ok_word_fields p g Hts Hok) as Hw.
  pose proof (create_tag_fields g Hw) as Hf. cbv zeta in Hf. destruct Hf as [Hw0 _].
  assert (Hw1 : sym_type_word g < 65536).
  { destruct Hw as (Hd & Hty). unfold sym_type_word.
    assert (0 <= Z.of_nat (length (g_dims g)) <= 3) by lia.
    destruct (g_ty g) as [c|tid|w].
    - destruct Hty as (Hc & Hb & _). destruct (c =? C_BOOL), (g_system g); lia.
    - destruct (g_system g); lia.
    - lia. }
  unfold tag_ok in Hok. apply andb_prop in Hok. destruct Hok as [Hok _]. split_andb.
  assert (Hdims' : forall k, 0 <= nth k (g_dims g) 0 < 4294967296).
  { intros k. destruct (Nat.ltb_spec k (length (g_dims g))) as [Hk | Hk].
    - match goal with H : forallb _ (g_dims g) = true |- _ => rewrite forallb_forall in H; pose proof (H (nth k (g_dims g) 0) (nth_In _ _ Hk)) end.
      rewrite Forall_forall in Hdims. pose proof (Hdims _ (nth_In _ 0 Hk)). lia.
    - rewrite nth_overflow by lia. lia. }
  unfold wentry_ok, wentry_of_tag, UploadParse.u32. cbn [we_inst we_name we_stype we_a3 we_a5 we_a6 we_d1 we_d2 we_d3 we_access].
  pose proof (Hdims' 0%nat). pose proof (Hdims' 1%nat). pose proof (Hdims' 2%nat).
  repeat split; try lia.
Qed.

Lemma sorted_ascending (gs : list tagdef) :
  sorted_by_inst gs = true -> StronglySorted (fun a b => g_inst a < g_inst b) gs.
Proof.
  intros H. apply Sorted_StronglySorted; [intros a b c; lia|].
  induction gs as [|a gs IH]; [constructor|].
  destruct gs as [|b r]; [constructor; constructor|].
  cbn [sorted_by_inst] in H. apply andb_prop in H. destruct H as [Hab H].
  constructor; [apply IH; exact H | constructor; lia].
Qed.

Lemma ascending_scope (gs : list tagdef) f :
  StronglySorted (fun a b => g_inst a < g_inst b) gs -> ascending (map wentry_of_tag (filter f gs)).
Proof.
  induction 1 as [|a l Hl IH Ha]; cbn [filter map]; [constructor|].
  destruct (f a); cbn [map]; [|exact IH].
  constructor; [exact IH|]. rewrite Forall_forall in *. intros x Hx. apply in_map_iff in Hx.
  destruct Hx as (g & <- & Hg). apply filter_In in Hg. cbn [wentry_of_tag we_inst]. apply Ha, Hg.
Qed.

Lemma symbols_request_range wa prog start rq : symbols_request wa prog start = Ok rq -> start <= 4294967295.
Proof.
  unfold symbols_request. intros H.
  destruct (start <=? 4294967295) eqn:E; [lia|]. exfalso.
  assert (Hseg : logical_segment_int LT_INSTANCE start = Err DataError).
  { unfold logical_segment_int. replace (start <=? 255) with false by lia. replace (start <=? 65535) with false by lia.
    rewrite E. reflexivity. }
  rewrite Hseg in H. destruct (match prog with Some p => _ | None => _ end); discriminate.
Qed.

(* ================================================================ one scope *)
Section ScopeSec.
  Variable p : project.
  Variable pol : policy.
  Variable cap rev_major : Z.

  Let ts := p_templates p.
  Let st0 : lstate := target_state p pol.
  Let wa := with_access rev_major.

  Hypothesis Hts : templates_ok [] ts = true.
  Hypothesis Hcap : 34 <= cap <= 65535.
  Hypothesis Htags : forallb (tag_ok p) (p_tags p) = true.
  Hypothesis Hsorted : sorted_by_inst (p_tags p) = true.
  Hypothesis Htagdom : Forall (tag_dom cap) (p_tags p).

  Definition scope_tags (sc : scope) : list tagdef := filter (fun g => scope_eqb (g_scope g) sc) (p_tags p).

  (* the scope argument of get_tag_list and the target's scope *)
  Definition scope_arg_ok (prog : option text) (sc : scope) : Prop :=
    match prog with
    | None => sc = ScCtrl
    | Some pn => sc = ScProg pn /\ pn <> [] /\ starts_with txt_Program pn = false /\ (length pn <= 247)%nat
                 /\ In pn (program_names p)
    end.

  Lemma request_of_scope prog sc start :
    scope_arg_ok prog sc -> 0 <= start < 4294967296 ->
    exists path, symbols_request wa prog start = Ok (mkReq 85 path (sym_attr_data wa))
                 /\ resolve_path p true path = TgSymbols sc start.
  Proof.
    intros Hsc Hs. destruct prog as [pn|]; cbn [scope_arg_ok] in Hsc.
    - destruct Hsc as (-> & Hne & Hsw & Hl & Hin).
      destruct (symbols_request_prog wa pn start Hs Hne Hsw Hl) as (seg & E & Hseg).
      eexists. split; [exact E|]. apply resolve_symbols_prog; assumption.
    - subst sc. destruct (symbols_request_ctrl wa start Hs) as (seg & E & Hseg).
      eexists. split; [exact E|]. apply resolve_symbols_ctrl. exact Hseg.
  Qed.

  Theorem scope_symbols prog sc fuel :
    scope_arg_ok prog sc -> (length (p_tags p) < fuel)%nat ->
    get_instance_attribute_list lstate (target_call cap) rev_major fuel st0 prog 0 []
    = (st0, Done (map (fun g => raw_of_wentry wa (wentry_of_tag g)) (scope_tags sc))).
  Proof.
    intros Hsc Hfuel.
    set (gs := scope_tags sc).
    set (all := map wentry_of_tag gs).
    assert (Hgs_in : forall g, In g gs -> In g (p_tags p)) by (intros g Hg; apply filter_In in Hg; apply Hg).
    assert (Hall_ok : Forall (fun e => wentry_ok e /\ 0 <= we_inst e) all).
    { apply Forall_forall. intros e He. apply in_map_iff in He. destruct He as (g & <- & Hg).
      rewrite forallb_forall in Htags. rewrite Forall_forall in Htagdom.
      apply (wentry_of_tag_ok p g cap Hts (Htags g (Hgs_in g Hg)) (Htagdom g (Hgs_in g Hg))); lia. }
    assert (Hpeer : paging_peer lstate (target_call cap) rev_major (fun s => s = st0) prog all).
    { intros st start rq -> Hstart Erq. fold wa in Erq.
      pose proof (symbols_request_range wa prog start rq Erq) as Hmax.
      destruct (request_of_scope prog sc start Hsc ltac:(lia)) as (path & Erq' & Hres).
      rewrite Erq' in Erq. injection Erq as <-.
      destruct (target_call_symbols cap st0 wa sc start path Hres) as (k & Ecall & Hk & Hk1).
      { cbn [ls_proj st0 target_state]. intros g Hg. apply filter_In in Hg. destruct Hg as [Hg _].
        rewrite Forall_forall in Htagdom. destruct (Htagdom g Hg) as (Hlen & _).
        unfold sym_entry, enc_wentry, Expect.blen. rewrite !app_length, !le_enc_length.
        cbn [wentry_of_tag we_name we_inst]. destruct wa; cbn [length]; lia. }
      cbn [ls_proj st0 target_state] in Ecall, Hk, Hk1.
      set (gs' := filter (fun g => scope_eqb (g_scope g) sc && (start <=? g_inst g)) (p_tags p)) in *.
      assert (Efrom : from start all = map wentry_of_tag gs').
      { subst all gs gs'. unfold from, scope_tags. rewrite filter_map_comm, filter_filter. reflexivity. }
      exists k, st0. rewrite Efrom, map_length. fold wa.
      split; [|split; [reflexivity | split; [exact Hk | intros Hne; apply Hk1; intros E; apply Hne; rewrite E; reflexivity]]].
      rewrite Ecall. rewrite firstn_map, flat_map_map. reflexivity. }
    destruct (pagination_independent lstate (target_call cap) rev_major (fun s => s = st0) prog all Hpeer) with (fuel := fuel) (st := st0)
      as (st' & E & ->).
    - eapply Forall_impl; [|exact Hall_ok]. cbn. tauto.
    - subst all gs. unfold scope_tags. apply ascending_scope. apply sorted_ascending. exact Hsorted.
    - intros start Hs. destruct (request_of_scope prog sc start Hsc Hs) as (path & E & _). fold wa. eauto.
    - reflexivity.
    - eapply Forall_impl; [|exact Hall_ok]. cbn. tauto.
    - subst all gs. rewrite map_length. unfold scope_tags.
      pose proof (filter_len_le (fun g => scope_eqb (g_scope g) sc) (p_tags p)). lia.
    - fold wa in E. rewrite E. subst all. rewrite map_map. reflexivity.
  Qed.

  (* ---------------------------------------------------------------- what a kept symbol must show *)
  Definition odef_name (d : odef) : option text := let '(MkODef n _ _ _ _ _ _ _) := d in n.

  Definition tag_obs_ok (g : tagdef) (o : otag) : Prop :=
    ot_name o = full_name g /\ ot_inst o = g_inst g /\ ot_dims o = g_dims g
    /\ ot_access o = (if wa then Some (access_word (g_access g)) else None)
    /\ ot_alias o = alias_flag g /\ ot_a3 o = g_attr3 g /\ ot_a5 o = g_attr5 g /\ ot_a6 o = g_attr6 g
    /\ match g_ty g with
       | BAtom c => ot_ty o = inl c /\ ot_tyname o = atom_name c /\ ot_tid o = None
                    /\ ot_bitpos o = (if c =? C_BOOL then Some (g_bitpos g) else None)
       | BStruct tid => exists od, Exp ts tid od /\ ot_ty o = inr od /\ ot_tyname o = odef_name od
                                   /\ ot_tid o = Some tid /\ ot_bitpos o = None
       | BOpaque _ => False
       end.

  Lemma external_access_word a : external_access_name (Some a) = access_word a.
  Proof.
    unfold external_access_name, access_word, Status.external_access. cbn [ilookup].
    destruct (0 =? a) eqn:E0; [replace (a =? 0) with true by lia; reflexivity|].
    destruct (1 =? a) eqn:E1; [replace (a =? 0) with false by lia; replace (a =? 1) with true by lia; reflexivity|].
    destruct (2 =? a) eqn:E2; [replace (a =? 0) with false by lia; replace (a =? 1) with false by lia; replace (a =? 2) with true by lia; reflexivity|].
    destruct (3 =? a) eqn:E3; [replace (a =? 0) with false by lia; replace (a =? 1) with false by lia; replace (a =? 2) with false by lia; replace (a =? 3) with true by lia; reflexivity|].
    replace (a =? 0) with false by lia. replace (a =? 1) with false by lia. replace (a =? 2) with false by lia. replace (a =? 3) with false by lia.
    reflexivity.
  Qed.

  Lemma BOOL_CODE_eq : BOOL_CODE = C_BOOL. Proof. reflexivity. Qed.

  Definition raw_of_tag (g : tagdef) : raw_tag := raw_of_wentry wa (wentry_of_tag g).

  Definition scope_name (prog : option text) (g : tagdef) : text :=
    match prog with Some pn => txt_Program_ ++ pn ++ [46] ++ g_name g | None => g_name g end.

  Definition data_tag (g : tagdef) : Prop := match g_ty g with BOpaque _ => False | _ => True end.

  (* the fields of a data tag every record shares *)
  Lemma common_fields g name is_struct tid dt dtname bp tc :
    tag_ok p g = true -> data_tag g ->
    let w := sym_type_word g in
    let mt := mkMTag name (sym_dim w) (sym_alias (g_attr6 g)) (g_inst g) (g_attr3 g) (g_attr5 g) (g_attr6 g)
                     (rt_access (raw_of_tag g)) (rt_dims (raw_of_tag g)) is_struct tid dt dtname bp tc in
    let o := otag_of_mtag wa mt in
    ot_name o = name /\ ot_inst o = g_inst g /\ ot_dims o = g_dims g
    /\ ot_access o = (if wa then Some (access_word (g_access g)) else None)
    /\ ot_alias o = alias_flag g /\ ot_a3 o = g_attr3 g /\ ot_a5 o = g_attr5 g /\ ot_a6 o = g_attr6 g.
  Proof.
    intros Hok Hdata. cbv zeta.
    pose proof (tag_ok_word_fields p g Hts Hok) as Hw.
    pose proof (create_tag_fields g Hw) as Hf. cbv zeta in Hf. destruct Hf as [Hw0 Hf].
    assert (Hdim : sym_dim (sym_type_word g) = nd g).
    { unfold data_tag in Hdata. destruct (g_ty g) as [c|t0|w0]; [apply Hf | apply Hf | contradiction]. }
    destruct Hw as (Hd & _).
    unfold tag_ok in Hok. apply andb_prop in Hok. destruct Hok as [Hok _]. split_andb.
    unfold otag_of_mtag.
    cbn [tg_name tg_inst tg_dim tg_dims tg_access tg_alias tg_addr tg_oaddr tg_swc ot_name ot_inst ot_dims ot_access ot_alias ot_a3 ot_a5 ot_a6].
    split; [reflexivity|]. split; [reflexivity|]. split.
    { rewrite Hdim. unfold nd, raw_of_tag, raw_of_wentry, wentry_of_tag. cbn [rt_dims we_d1 we_d2 we_d3].
      rewrite Nat2Z.id, <- pad3_nth. apply firstn_pad3. exact Hd. }
    split.
    { unfold raw_of_tag, raw_of_wentry, wentry_of_tag. cbn [rt_access we_access]. destruct wa; [|reflexivity].
      rewrite Z.mod_small by lia. rewrite external_access_word. reflexivity. }
    split; [apply sym_alias_eq; lia|]. auto.
  Qed.

  (* ---------------------------------------------------------------- _create_tag *)
  Variable R : Z -> Prop.

  Hypothesis Hcap34 : 34 <= cap.
  Hypothesis Htd : Forall tmpl_dom ts.
  Hypothesis Hdisplay : NoDup (map (fun t => display_name (t_name t)) ts).

  Lemma create_tag_ok g name fuel u :
    tag_ok p g = true -> data_tag g -> (length ts + max_blob p < fuel)%nat -> Inv p R u ->
    (forall tid, g_ty g = BStruct tid -> R tid) ->
    exists u' mt,
      create_tag lstate (target_call cap) fuel u st0 name (raw_of_tag g) = (st0, u', Done mt)
      /\ tg_name mt = name
      /\ (name = full_name g -> tag_obs_ok g (otag_of_mtag wa mt))
      /\ Inv p R u' /\ incl (keys u) (keys u')
      /\ u_programs u' = u_programs u /\ u_tasks u' = u_tasks u
      /\ (forall tid, g_ty g = BStruct tid -> In tid (keys u')).
  Proof.
    intros Hok Hdata Hfuel Hinv HR.
    pose proof (tag_ok_word_fields p g Hts Hok) as Hw.
    pose proof (create_tag_fields g Hw) as Hf. cbv zeta in Hf. destruct Hf as [Hw0 Hf].
    unfold create_tag.
    assert (Eraw : rt_stype (raw_of_tag g) = sym_type_word g /\ rt_swc (raw_of_tag g) = g_attr6 g
                   /\ rt_inst (raw_of_tag g) = g_inst g /\ rt_addr (raw_of_tag g) = g_attr3 g
                   /\ rt_oaddr (raw_of_tag g) = g_attr5 g) by (repeat split; reflexivity).
    destruct Eraw as (E1 & E2 & E3 & E4 & E5). rewrite E1, E2, E3, E4, E5.
    unfold data_tag in Hdata.
    destruct (g_ty g) as [c|tid|w0] eqn:Ety; [| |contradiction].
    - (* an elementary tag *)
      destruct Hf as (Hs & Hdim & Hcode & Hbit & _). rewrite Hs, Hcode.
      assert (Hc : In c ATOMS).
      { unfold tag_ok in Hok. apply andb_prop in Hok. destruct Hok as [_ Hty]. rewrite Ety in Hty. split_andb.
        destruct (atom_size c) as [s0|] eqn:Es; [|discriminate]. eapply atom_size_in. exact Es. }
      destruct (atom_facts c Hc) as (n & En & Eget & Ecls & _).
      rewrite Eget, Ecls. rewrite BOOL_CODE_eq.
      eexists u, _. split; [reflexivity|]. split; [reflexivity|].
      split; [|split; [exact Hinv | split; [apply incl_refl | split; [reflexivity | split; [reflexivity | intros tid H; discriminate]]]]].
      intros ->.
      destruct (common_fields g (full_name g) false None (DName n) (Some n)
                              (if c =? C_BOOL then Some (sym_bit_position (sym_type_word g)) else None)
                              (if sym_dim (sym_type_word g) =? 0 then TcAtom n
                               else TcArray (total_elements (sym_dim (sym_type_word g)) (rt_dims (raw_of_tag g))) (TcAtom n))
                              Hok ltac:(unfold data_tag; rewrite Ety; exact I))
        as (C1 & C2 & C3 & C4 & C5 & C6 & C7 & C8).
      unfold tag_obs_ok. rewrite Ety.
      split; [exact C1|]. split; [exact C2|]. split; [exact C3|]. split; [exact C4|].
      split; [exact C5|]. split; [exact C6|]. split; [exact C7|]. split; [exact C8|].
      unfold otag_of_mtag. cbn [ot_ty ot_tyname ot_tid ot_bitpos tg_struct tg_dtype tg_dtname tg_tid tg_bitpos oty_of_dtype].
      rewrite (atom_code_of_atom_name c n Hc En). split; [reflexivity|]. split; [symmetry; exact En|]. split; [reflexivity|].
      destruct (c =? C_BOOL) eqn:Eb; [|reflexivity]. rewrite (Hbit ltac:(lia)). reflexivity.
    - (* a structure tag *)
      destruct Hf as (Hs & Hdim & Htid & _). rewrite Hs, Htid.
      assert (Hfind : exists t, find_template ts tid = Some t).
      { unfold tag_ok in Hok. apply andb_prop in Hok. destruct Hok as [_ Hty]. rewrite Ety in Hty. split_andb.
        fold ts in H. destruct (find_template ts tid) as [t|]; [eauto | discriminate]. }
      destruct Hfind as (t & Hfind).
      pose proof (find_template_in ts tid t Hfind) as [Hin Hid].
      destruct (in_split t ts Hin) as (e & l & Hsplit).
      assert (Hle : (length e <= length ts)%nat) by (rewrite Hsplit, app_length; lia).
      destruct (get_data_type_mirrors p pol cap Hts Hcap34 Htd Hdisplay R (length e) e t l Hsplit eq_refl fuel u (sym_type_word g)
                                      ltac:(lia) ltac:(rewrite Hid; exact Htid) Hinv ltac:(rewrite Hid; apply Reach_root; apply HR; reflexivity))
        as (u' & d & Eg & Hg & Hinv' & Hstep & Hpost).
      rewrite Hid in Eg, Hg, Hpost. fold st0 in Eg. rewrite Eg.
      eexists u', _. split; [reflexivity|]. split; [reflexivity|].
      destruct Hstep as (S1 & _ & S3 & S4).
      split; [|split; [exact Hinv' | split; [exact S1 | split; [exact S3 | split; [exact S4 | intros tid' H; injection H as <-; exact Hpost]]]]].
      intros ->.
      destruct (common_fields g (full_name g) true (Some tid) (DDef d) (dt_name d) None
                              (if sym_dim (sym_type_word g) =? 0 then dt_tclass d
                               else TcArray (total_elements (sym_dim (sym_type_word g)) (rt_dims (raw_of_tag g))) (dt_tclass d))
                              Hok ltac:(unfold data_tag; rewrite Ety; exact I))
        as (C1 & C2 & C3 & C4 & C5 & C6 & C7 & C8).
      unfold tag_obs_ok. rewrite Ety.
      split; [exact C1|]. split; [exact C2|]. split; [exact C3|]. split; [exact C4|].
      split; [exact C5|]. split; [exact C6|]. split; [exact C7|]. split; [exact C8|].
      exists (odef_of_dt d). split; [exact (proj1 Hg)|].
      unfold otag_of_mtag. cbn [ot_ty ot_tyname ot_tid ot_bitpos tg_struct tg_dtype tg_dtname tg_tid tg_bitpos oty_of_dtype].
      split; [reflexivity|]. split; [destruct d; reflexivity|]. split; reflexivity.
  Qed.

  (* ---------------------------------------------------------------- programs, routines, tasks *)
  Definition book_step (prog : option text) (pt : list (text * (Z * list text)) * list (text * Z)) (g : tagdef)
    : list (text * (Z * list text)) * list (text * Z) :=
    match classify (g_name g) (sym_type_word g) with
    | IsoProgram n => (dict_set PyStr.text_eqb (fst pt) n (g_inst g, []), snd pt)
    | IsoRoutine n =>
        (match prog with
         | Some pn => match dict_get PyStr.text_eqb (fst pt) pn with
                      | Some (i, rs) => dict_set PyStr.text_eqb (fst pt) pn (i, rs ++ [n])
                      | None => fst pt
                      end
         | None => fst pt
         end, snd pt)
    | IsoTask n => (fst pt, dict_set PyStr.text_eqb (snd pt) n (g_inst g))
    | _ => pt
    end.
  Definition book (prog : option text) pt (gs : list tagdef) := fold_left (book_step prog) gs pt.

  Lemma Inv_programs x u : Inv p R u -> Inv p R (set_programs x u).
  Proof. intros [G S N T C Rr]. constructor; assumption. Qed.
  Lemma Inv_tasks x u : Inv p R u -> Inv p R (set_tasks x u).
  Proof. intros [G S N T C Rr]. constructor; assumption. Qed.

  Lemma classify_cases g :
    In g (p_tags p) ->
    (exists n, classify (g_name g) (sym_type_word g) = IsoProgram n /\ hidden_symbol g = true)
    \/ (exists n, classify (g_name g) (sym_type_word g) = IsoRoutine n /\ hidden_symbol g = true)
    \/ (exists n, classify (g_name g) (sym_type_word g) = IsoTask n /\ hidden_symbol g = true)
    \/ (classify (g_name g) (sym_type_word g) = IsoSkip /\ hidden_symbol g = true)
    \/ (classify (g_name g) (sym_type_word g) = IsoKeep /\ hidden_symbol g = false).
  Proof.
    intros Hin. rewrite Forall_forall in Htagdom. destruct (Htagdom g Hin) as (_ & _ & Hreg & Hop & HP & HR & HT).
    rewrite forallb_forall in Htags. pose proof (tag_ok_word_fields p g Hts (Htags g Hin)) as Hw.
    pose proof (isolate_filter_exact g Hw Hreg Hop) as Hex.
    destruct (starts_with txt_Program (g_name g)) eqn:EP.
    { left. destruct (HP eq_refl) as (_ & _ & Hc & _). eexists. split; [apply classify_program; assumption|].
      unfold hidden_symbol. rewrite EP, !orb_true_r. reflexivity. }
    destruct (starts_with txt_Routine (g_name g)) eqn:ER.
    { right; left. eexists. split; [apply classify_routine; [exact ER | exact (HR eq_refl)]|].
      unfold hidden_symbol. rewrite ER, !orb_true_r. reflexivity. }
    destruct (starts_with txt_Task (g_name g)) eqn:ET.
    { right; right; left. destruct (HT eq_refl) as (_ & Hc). eexists. split; [apply classify_task; assumption|].
      unfold hidden_symbol. rewrite ET, !orb_true_r. reflexivity. }
    right; right; right.
    destruct (classify (g_name g) (sym_type_word g)) eqn:Ec; cbn [kept] in Hex.
    - exfalso. unfold classify in Ec. rewrite txt_Program_eq, EP, txt_Routine_eq, ER, txt_Task_eq, ET in Ec.
      repeat match type of Ec with (if ?b then _ else _) = _ => destruct b end; discriminate.
    - exfalso. unfold classify in Ec. rewrite txt_Program_eq, EP, txt_Routine_eq, ER, txt_Task_eq, ET in Ec.
      repeat match type of Ec with (if ?b then _ else _) = _ => destruct b end; discriminate.
    - exfalso. unfold classify in Ec. rewrite txt_Program_eq, EP, txt_Routine_eq, ER, txt_Task_eq, ET in Ec.
      repeat match type of Ec with (if ?b then _ else _) = _ => destruct b end; discriminate.
    - left. split; [reflexivity|]. destruct (hidden_symbol g); [reflexivity | discriminate].
    - right. split; [reflexivity|]. destruct (hidden_symbol g); [discriminate | reflexivity].
  Qed.

  Lemma scope_name_full prog g :
    match prog with None => g_scope g = ScCtrl | Some pn => g_scope g = ScProg pn end ->
    scope_name prog g = full_name g.
  Proof. unfold scope_name, full_name. destruct prog as [pn|]; intros ->; reflexivity. Qed.

  Lemma visible_is_data g : hidden_symbol g = false -> data_tag g.
  Proof.
    unfold hidden_symbol, data_tag. intros H. destruct (g_ty g); try exact I.
    rewrite orb_true_r in H. cbn in H. rewrite ?orb_true_r in H. discriminate.
  Qed.

  (* ---------------------------------------------------------------- _isolate_user_tags *)
  Theorem isolate_ok prog : forall gs,
    (forall g, In g gs -> In g (p_tags p)
                          /\ match prog with None => g_scope g = ScCtrl | Some pn => g_scope g = ScProg pn end) ->
    (forall g tid, In g gs -> hidden_symbol g = false -> g_ty g = BStruct tid -> R tid) ->
    forall fuel u acc, (length ts + max_blob p < fuel)%nat -> Inv p R u ->
    exists u' new,
      isolate_user_tags lstate (target_call cap) fuel u st0 prog (map raw_of_tag gs) acc = (st0, u', Done (acc ++ new))
      /\ Forall2 (fun g mt => tag_obs_ok g (otag_of_mtag wa mt) /\ tg_name mt = full_name g)
                 (filter (fun g => negb (hidden_symbol g)) gs) new
      /\ Inv p R u' /\ incl (keys u) (keys u')
      /\ (forall g tid, In g gs -> hidden_symbol g = false -> g_ty g = BStruct tid -> In tid (keys u'))
      /\ (u_programs u', u_tasks u') = book prog (u_programs u, u_tasks u) gs.
  Proof.
    induction gs as [|g gs IH]; intros Hgs HR fuel u acc Hfuel Hinv.
    - exists u, []. cbn [map isolate_user_tags filter book fold_left]. rewrite app_nil_r.
      split; [reflexivity|]. split; [constructor|]. split; [exact Hinv|]. split; [apply incl_refl|].
      split; [intros ? ? []|]. reflexivity.
    - destruct (Hgs g (or_introl eq_refl)) as [Hin Hsc].
      assert (Hgs' : forall g0, In g0 gs -> In g0 (p_tags p)
                       /\ match prog with None => g_scope g0 = ScCtrl | Some pn => g_scope g0 = ScProg pn end)
        by (intros g0 H0; apply Hgs; right; exact H0).
      assert (HR' : forall g0 tid, In g0 gs -> hidden_symbol g0 = false -> g_ty g0 = BStruct tid -> R tid)
        by (intros g0 tid H0; apply HR; right; exact H0).
      cbn [map isolate_user_tags filter].
      change (book prog (u_programs u, u_tasks u) (g :: gs)) with (book prog (book_step prog (u_programs u, u_tasks u) g) gs).
      change (rt_name (raw_of_tag g)) with (g_name g). change (rt_stype (raw_of_tag g)) with (sym_type_word g).
      change (rt_inst (raw_of_tag g)) with (g_inst g).
      unfold book_step.
      destruct (classify_cases g Hin) as [(n & Ec & Hh) | [(n & Ec & Hh) | [(n & Ec & Hh) | [(Ec & Hh) | (Ec & Hh)]]]];
        rewrite Ec, Hh; cbn [negb fst snd].
      + destruct (IH Hgs' HR' fuel (set_programs (dict_set PyStr.text_eqb (u_programs u) n (g_inst g, [])) u) acc Hfuel
                    (Inv_programs _ u Hinv)) as (u' & new & E & HF & Hi & Hk & Hp & Hb).
        exists u', new. rewrite E. split; [reflexivity|]. split; [exact HF|]. split; [exact Hi|]. split; [exact Hk|].
        split; [intros g0 tid [<- | H0] Hv Ht; [congruence | eapply Hp; eassumption]|]. exact Hb.
      + set (u1 := match prog with
                   | Some p0 => match dict_get PyStr.text_eqb (u_programs u) p0 with
                                | Some (i, rs) => set_programs (dict_set PyStr.text_eqb (u_programs u) p0 (i, rs ++ [n])) u
                                | None => u
                                end
                   | None => u
                   end).
        assert (Hinv1 : Inv p R u1).
        { subst u1. destruct prog as [p0|]; [|exact Hinv]. destruct (dict_get _ _ p0) as [[i rs]|]; [apply Inv_programs|]; exact Hinv. }
        assert (Hk1 : keys u1 = keys u /\ u_tasks u1 = u_tasks u
                      /\ u_programs u1 = match prog with
                                         | Some pn => match dict_get PyStr.text_eqb (u_programs u) pn with
                                                      | Some (i, rs) => dict_set PyStr.text_eqb (u_programs u) pn (i, rs ++ [n])
                                                      | None => u_programs u
                                                      end
                                         | None => u_programs u
                                         end).
        { subst u1. destruct prog as [p0|]; [|auto]. destruct (dict_get _ _ p0) as [[i rs]|]; auto. }
        destruct Hk1 as (K1 & K2 & K3).
        destruct (IH Hgs' HR' fuel u1 acc Hfuel Hinv1) as (u' & new & E & HF & Hi & Hk & Hp & Hb).
        exists u', new. rewrite E. split; [reflexivity|]. split; [exact HF|]. split; [exact Hi|].
        split; [rewrite <- K1; exact Hk|].
        split; [intros g0 tid [<- | H0] Hv Ht; [congruence | eapply Hp; eassumption]|].
        rewrite Hb, K2, K3. reflexivity.
      + destruct (IH Hgs' HR' fuel (set_tasks (dict_set PyStr.text_eqb (u_tasks u) n (g_inst g)) u) acc Hfuel
                    (Inv_tasks _ u Hinv)) as (u' & new & E & HF & Hi & Hk & Hp & Hb).
        exists u', new. rewrite E. split; [reflexivity|]. split; [exact HF|]. split; [exact Hi|]. split; [exact Hk|].
        split; [intros g0 tid [<- | H0] Hv Ht; [congruence | eapply Hp; eassumption]|]. exact Hb.
      + destruct (IH Hgs' HR' fuel u acc Hfuel Hinv) as (u' & new & E & HF & Hi & Hk & Hp & Hb).
        exists u', new. rewrite E. split; [reflexivity|]. split; [exact HF|]. split; [exact Hi|]. split; [exact Hk|].
        split; [intros g0 tid [<- | H0] Hv Ht; [congruence | eapply Hp; eassumption]|]. exact Hb.
      + (* a user tag *)
        rewrite forallb_forall in Htags.
        destruct (create_tag_ok g (scope_name prog g) fuel u (Htags g Hin) (visible_is_data g Hh) Hfuel Hinv
                                (fun tid Ht => HR g tid (or_introl eq_refl) Hh Ht))
          as (u1 & mt & Ect & Hnm & Hobs & Hinv1 & Hk1 & Hp1 & Ht1 & Hpost1).
        change (match prog with
                | Some p0 => txt_Program_ ++ p0 ++ [46] ++ g_name g
                | None => g_name g
                end) with (scope_name prog g).
        rewrite Ect.
        destruct (IH Hgs' HR' fuel u1 (acc ++ [mt]) Hfuel Hinv1) as (u' & new & E & HF & Hi & Hk & Hp & Hb).
        exists u', (mt :: new). rewrite E, <- app_assoc. split; [reflexivity|].
        split; [constructor; [|exact HF]|].
        { rewrite Hnm. split; [apply Hobs|]; apply scope_name_full; exact Hsc. }
        split; [exact Hi|]. split; [eapply incl_tran; eassumption|].
        split.
        { intros g0 tid [<- | H0] Hv Ht; [apply Hk; eapply Hpost1; exact Ht | eapply Hp; eassumption]. }
        rewrite Hb, Hp1, Ht1. reflexivity.
  Qed.
End ScopeSec.
