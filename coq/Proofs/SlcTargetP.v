(* Proofs/SlcTargetP.v — lemmas about the reference side alone (Spec/SlcTarget.v): the word / byte
   encodings, the masked write, file lookup and update, and the two facts about the reference
   interpretation the property speaks of:
     [ref_write_frame] : a write changes only the addressed words of the addressed file — for a bit
                         write only the addressed bit —, the other files are untouched;
     [ref_write_read]  : reading the address after the reference write returns the written value. *)
From PV Require Import Base.Bytes Base.BytesLemmas Model.SlcVal Spec.SlcTarget.
From Coq Require Import ZifyBool.
Open Scope Z_scope.
Ltac Zify.zify_post_hook ::= Z.to_euclidean_division_equations.

(* ---------------------------------------------------------------- words and bytes *)
Lemma bytes_words ws : forallb word_ok ws = true -> bytes_to_words (words_to_bytes ws) = ws.
Proof.
  induction ws as [|w ws IH]; intros H; [reflexivity|].
  cbn [forallb] in H. apply andb_true_iff in H. destruct H as [Hw H].
  cbn [words_to_bytes le16 app bytes_to_words]. rewrite IH by exact H. f_equal.
  unfold word_ok in Hw. lia.
Qed.

Lemma words_to_bytes_length ws : length (words_to_bytes ws) = (2 * length ws)%nat.
Proof. induction ws as [|w ws IH]; [reflexivity|]. cbn [words_to_bytes le16 app length]. lia. Qed.

Lemma words_to_bytes_app a b : words_to_bytes (a ++ b) = words_to_bytes a ++ words_to_bytes b.
Proof. induction a as [|w a IH]; [reflexivity|]. cbn [app words_to_bytes le16]. rewrite IH. reflexivity. Qed.

(* ---------------------------------------------------------------- the masked write *)
Lemma mask_all old d : 0 <= old < 65536 -> 0 <= d < 65536 -> mask_word 65535 old d = d.
Proof.
  intros Ho Hd. unfold mask_word.
  change 65535 with (Z.ones 16).
  rewrite Z.land_ones by lia. rewrite (Z.mod_small d) by lia.
  rewrite <- Z.ldiff_land, Z.ldiff_ones_r by lia.
  rewrite Z.shiftr_div_pow2 by lia. rewrite Z.div_small by lia. rewrite Z.shiftl_0_l. apply Z.lor_0_l.
Qed.

Lemma mask_set old b : 0 <= b -> mask_word (2 ^ b) old (2 ^ b) = Z.setbit old b.
Proof.
  intros Hb. unfold mask_word. apply Z.bits_inj'. intros n Hn.
  rewrite Z.lor_spec, !Z.land_spec, Z.lnot_spec by lia. rewrite Z.setbit_eqb by lia.
  rewrite Z.pow2_bits_eqb by lia. destruct (Z.eqb_spec b n); cbn; [rewrite andb_false_r; reflexivity|].
  rewrite andb_true_r, orb_false_r. reflexivity.
Qed.

Lemma mask_clear old b : 0 <= b -> mask_word (2 ^ b) old 0 = Z.clearbit old b.
Proof.
  intros Hb. unfold mask_word. apply Z.bits_inj'. intros n Hn.
  rewrite Z.lor_spec, !Z.land_spec, Z.lnot_spec by lia. rewrite Z.clearbit_eqb by lia.
  rewrite Z.pow2_bits_eqb, Z.bits_0 by lia. cbn. rewrite orb_false_r. reflexivity.
Qed.

Lemma small_bits w n : 0 <= w < 65536 -> 16 <= n -> Z.testbit w n = false.
Proof.
  intros Hw Hn. destruct (Z.eq_dec w 0) as [->|N]; [apply Z.bits_0|].
  apply Z.bits_above_log2; [lia|]. assert (Z.log2 w < 16) by (apply Z.log2_lt_pow2; lia). lia.
Qed.

Lemma range_of_bits x : 0 <= x -> (forall n, 16 <= n -> Z.testbit x n = false) -> 0 <= x < 65536.
Proof.
  intros Hx H. assert (E : x = x mod 2 ^ 16).
  { apply Z.bits_inj'. intros n Hn. destruct (Z_lt_dec n 16).
    - rewrite Z.mod_pow2_bits_low by lia. reflexivity.
    - rewrite Z.mod_pow2_bits_high by lia. apply H. lia. }
  pose proof (Z.mod_pos_bound x (2 ^ 16)). lia.
Qed.

Lemma setbit_range w b : 0 <= w < 65536 -> 0 <= b <= 15 -> 0 <= Z.setbit w b < 65536.
Proof.
  intros Hw Hb. apply range_of_bits.
  - rewrite Z.setbit_spec'. apply Z.lor_nonneg. split; [lia|apply Z.pow_nonneg; lia].
  - intros n Hn. rewrite Z.setbit_neq by lia. apply small_bits; assumption.
Qed.

Lemma clearbit_range w b : 0 <= w < 65536 -> 0 <= b -> 0 <= Z.clearbit w b < 65536.
Proof.
  intros Hw Hb. apply range_of_bits.
  - rewrite Z.clearbit_spec'. apply Z.ldiff_nonneg. left. lia.
  - intros n Hn. destruct (Z.eq_dec n b) as [->|N].
    + rewrite Z.clearbit_eq. reflexivity.
    + rewrite Z.clearbit_neq by lia. apply small_bits; assumption.
Qed.

Lemma setbit_other w b j : 0 <= j -> j <> b -> Z.testbit (Z.setbit w b) j = Z.testbit w j.
Proof.
  intros Hj N. destruct (Z_lt_dec b 0) as [Hb|Hb].
  - rewrite Z.setbit_spec', Z.pow_neg_r, Z.lor_0_r by lia. reflexivity.
  - apply Z.setbit_neq; lia.
Qed.
Lemma clearbit_other w b j : 0 <= j -> j <> b -> Z.testbit (Z.clearbit w b) j = Z.testbit w j.
Proof. intros. apply Z.clearbit_neq; lia. Qed.

(* ---------------------------------------------------------------- files *)
Lemma find_put_same t f f' : find_file t (df_num f') = Some f -> find_file (put_file t f') (df_num f') = Some f'.
Proof.
  induction t as [|g t IH]; cbn [find_file put_file]; [discriminate|].
  destruct (df_num g =? df_num f') eqn:E; intros H.
  - cbn [find_file]. rewrite Z.eqb_refl. reflexivity.
  - cbn [find_file]. rewrite E. apply IH. exact H.
Qed.

Lemma find_put_other t f' n : n <> df_num f' -> find_file (put_file t f') n = find_file t n.
Proof.
  intros Hn. induction t as [|g t IH]; cbn [find_file put_file]; [reflexivity|].
  destruct (df_num g =? df_num f') eqn:E.
  - cbn [find_file]. assert (df_num g = df_num f') by lia.
    destruct (df_num f' =? n) eqn:E1; [lia|]. destruct (df_num g =? n) eqn:E2; [lia|]. reflexivity.
  - cbn [find_file]. destruct (df_num g =? n); [reflexivity|exact IH].
Qed.

Lemma find_file_num t n f : find_file t n = Some f -> df_num f = n.
Proof.
  induction t as [|g t IH]; cbn [find_file]; [discriminate|].
  destruct (df_num g =? n) eqn:E; intros H; [inversion H; subst; lia|auto].
Qed.

Lemma find_file_ok t n f : table_ok t = true -> find_file t n = Some f -> dfile_ok f = true.
Proof.
  induction t as [|g t IH]; cbn [find_file table_ok forallb]; [discriminate|].
  intros H. apply andb_true_iff in H. destruct H as [Hg H].
  destruct (df_num g =? n); intros E; [inversion E; subst; exact Hg|apply IH; assumption].
Qed.

Lemma nth_firstn_lt {A} (l : list A) : forall i j d, (j < i)%nat -> nth j (firstn i l) d = nth j l d.
Proof.
  induction l as [|x l IH]; intros i j d H; [destruct i; destruct j; reflexivity|].
  destruct i as [|i]; [lia|]. destruct j as [|j]; [reflexivity|]. cbn. apply IH. lia.
Qed.
Lemma nth_skipn_add {A} (l : list A) : forall i j d, nth j (skipn i l) d = nth (i + j) l d.
Proof.
  induction l as [|x l IH]; intros i j d; [destruct i; destruct j; reflexivity|].
  destruct i as [|i]; [reflexivity|]. cbn. apply IH.
Qed.

Lemma upd_words_length ws i new : (i + length new <= length ws)%nat -> length (upd_words ws i new) = length ws.
Proof.
  intros H. unfold upd_words. rewrite !app_length, firstn_length, skipn_length. lia.
Qed.

Lemma upd_words_outside ws i new j d : (i + length new <= length ws)%nat ->
  (j < i \/ i + length new <= j)%nat -> nth j (upd_words ws i new) d = nth j ws d.
Proof.
  intros H Hj. unfold upd_words. destruct Hj as [Hj|Hj].
  - rewrite app_nth1 by (rewrite firstn_length; lia). apply nth_firstn_lt. exact Hj.
  - rewrite app_nth2 by (rewrite firstn_length; lia). rewrite firstn_length.
    rewrite app_nth2 by lia. rewrite nth_skipn_add. f_equal. lia.
Qed.

Lemma upd_words_inside ws i new : (i + length new <= length ws)%nat ->
  firstn (length new) (skipn i (upd_words ws i new)) = new.
Proof.
  intros H. unfold upd_words.
  rewrite skipn_app. rewrite firstn_length.
  replace (i - Nat.min i (length ws))%nat with O by lia.
  rewrite skipn_all2 by (rewrite firstn_length; lia). cbn [app skipn].
  rewrite firstn_app, Nat.sub_diag, firstn_all. cbn. apply app_nil_r.
Qed.

Lemma region_some f elem sub n i ws : region f elem sub n = Some (i, ws) ->
  i = Z.to_nat (word_index f elem sub) /\ ws = firstn (Z.to_nat n) (skipn i (df_words f))
  /\ 0 <= elem /\ 0 <= sub < df_ew f /\ 0 < n /\ (i + Z.to_nat n <= length (df_words f))%nat /\ length ws = Z.to_nat n.
Proof.
  unfold region, word_index. intros H.
  destruct ((0 <=? elem) && (0 <=? sub) && (sub <? df_ew f) && (0 <? n)
            && (elem * df_ew f + sub + n <=? Z.of_nat (length (df_words f)))) eqn:E; [|discriminate].
  inversion H; subst. clear H.
  assert (Hb : 0 <= elem /\ 0 <= sub < df_ew f /\ 0 < n /\ elem * df_ew f + sub + n <= Z.of_nat (length (df_words f))) by lia.
  destruct Hb as (H1 & H2 & H3 & H4).
  assert (Hi : (Z.to_nat (elem * df_ew f + sub) + Z.to_nat n <= length (df_words f))%nat) by nia.
  repeat split; try lia. rewrite firstn_length, skipn_length. lia.
Qed.

Lemma words_of_len ft v ws : words_of ft v = Some ws -> Z.of_nat (length ws) = vwords ft.
Proof.
  unfold words_of. destruct ft; destruct v; try discriminate;
    match goal with |- (if ?c then _ else _) = _ -> _ => destruct c; [|discriminate] end;
    intros H; inversion H; subst; reflexivity.
Qed.

Lemma words_of_list_len ft : forall vs ws, words_of_list ft vs = Some ws ->
  Z.of_nat (length ws) = vwords ft * Z.of_nat (length vs).
Proof.
  induction vs as [|v vs IH]; intros ws H; cbn [words_of_list] in H.
  - inversion H; subst. cbn. lia.
  - destruct (words_of ft v) as [a|] eqn:Ea; [|discriminate].
    destruct (words_of_list ft vs) as [b|] eqn:Eb; [|discriminate].
    inversion H; subst. rewrite app_length. pose proof (words_of_len _ _ _ Ea). pose proof (IH b eq_refl).
    cbn [length]. lia.
Qed.

(* reading back the words of a value gives the value *)
Lemma values_words_of ft v ws rest : words_of ft v = Some ws -> values_of ft (ws ++ rest) = v :: values_of ft rest.
Proof.
  unfold words_of. destruct ft; destruct v; try discriminate;
    match goal with |- (if ?c then _ else _) = _ -> _ => destruct c eqn:E; [|discriminate] end;
    intros H; inversion H; subst; cbn [app values_of]; f_equal; f_equal; unfold s16, s32; cbv zeta;
    repeat match goal with |- context [if ?c then _ else _] => destruct c eqn:? end; lia.
Qed.

Lemma values_words_of_list ft : forall vs ws, words_of_list ft vs = Some ws -> values_of ft ws = vs.
Proof.
  induction vs as [|v vs IH]; intros ws H; cbn [words_of_list] in H.
  - inversion H; subst. destruct ft; reflexivity.
  - destruct (words_of ft v) as [a|] eqn:Ea; [|discriminate].
    destruct (words_of_list ft vs) as [b|] eqn:Eb; [|discriminate].
    inversion H; subst. rewrite (values_words_of _ _ _ _ Ea). f_equal. apply IH. reflexivity.
Qed.

(* ---------------------------------------------------------------- the reference write *)
Definition same_but (t t' : table) (num : Z) : Prop :=
  forall n, n <> num -> find_file t' n = find_file t n.

(* what ref_write does to the table, spelled out *)
Theorem ref_write_frame t a v t' :
  ref_write t a v = Some t' ->
  exists f f' i k,
    file_for t a = Some f /\ find_file t' (a_file a) = Some f' /\ same_but t t' (a_file a)
    /\ df_ft f' = df_ft f /\ df_ew f' = df_ew f /\ length (df_words f') = length (df_words f)
    /\ i = Z.to_nat (word_index f (a_elem a) (a_sub a))
    /\ k = (match a_bit a with Some _ => 1 | None => Z.to_nat (vwords (a_ft a) * a_count a) end)%nat
    /\ (i + k <= length (df_words f))%nat
    (* every word outside the addressed ones is unchanged *)
    /\ (forall j, (j < i \/ i + k <= j)%nat -> nth j (df_words f') 0 = nth j (df_words f) 0)
    (* a bit write leaves the other bits of the addressed word unchanged *)
    /\ (forall b, a_bit a = Some b -> forall j, 0 <= j -> j <> b ->
          Z.testbit (nth i (df_words f') 0) j = Z.testbit (nth i (df_words f) 0) j).
Proof.
  unfold ref_write. intros H.
  destruct (file_for t a) as [f|] eqn:Ef; [|discriminate].
  assert (Hnum : df_num f = a_file a).
  { unfold file_for in Ef. destruct (find_file t (a_file a)) as [g|] eqn:Eg; [|discriminate].
    destruct (ftype_eqb (df_ft g) (a_ft a)); [|discriminate]. inversion Ef; subst. eapply find_file_num; eassumption. }
  assert (Hfind : find_file t (a_file a) = Some f).
  { unfold file_for in Ef. destruct (find_file t (a_file a)) as [g|]; [|discriminate].
    destruct (ftype_eqb (df_ft g) (a_ft a)); [|discriminate]. inversion Ef; subst. reflexivity. }
  destruct (a_bit a) as [b|] eqn:Eb.
  - destruct (region f (a_elem a) (a_sub a) 1) as [[i ws]|] eqn:Er; [|discriminate].
    destruct ws as [|w [|? ?]]; try discriminate. inversion H; subst t'. clear H.
    destruct (region_some _ _ _ _ _ _ Er) as (Hi & Hws & _ & _ & _ & Hlen & _).
    set (w' := if truthy v then Z.setbit w b else Z.clearbit w b).
    exists f, (set_words f (upd_words (df_words f) i [w'])), i, 1%nat.
    assert (Hl : (i + length [w'] <= length (df_words f))%nat) by (cbn [length]; change (Z.to_nat 1) with 1%nat in Hlen; lia).
    repeat split; try reflexivity; try assumption.
    + replace (a_file a) with (df_num (set_words f (upd_words (df_words f) i [w']))) by exact Hnum.
      apply (find_put_same t f). cbn [set_words df_num]. rewrite Hnum. exact Hfind.
    + intros n Hn. apply find_put_other. cbn [set_words df_num]. lia.
    + cbn [set_words df_words]. apply upd_words_length. exact Hl.
    + intros j Hj. cbn [set_words df_words]. apply upd_words_outside; [exact Hl|cbn [length]; lia].
    + intros b0 Eb0 j Hj Hjb. inversion Eb0; subst b0. cbn [set_words df_words].
      assert (Hw : nth i (df_words f) 0 = w).
      { change (Z.to_nat 1) with 1%nat in Hws.
        rewrite <- (firstn_skipn i (df_words f)) at 1. rewrite app_nth2 by (rewrite firstn_length; lia).
        rewrite firstn_length. replace (i - Nat.min i (length (df_words f)))%nat with O by lia.
        destruct (skipn i (df_words f)); cbn in Hws; [discriminate|]. inversion Hws; subst. reflexivity. }
      assert (Hw' : nth i (upd_words (df_words f) i [w']) 0 = w').
      { unfold upd_words. rewrite app_nth2 by (rewrite firstn_length; lia). rewrite firstn_length.
        replace (i - Nat.min i (length (df_words f)))%nat with O by lia. reflexivity. }
      rewrite Hw, Hw'. subst w'. destruct (truthy v); [apply setbit_other|apply clearbit_other]; assumption.
  - set (new := if a_count a =? 1 then words_of (a_ft a) v
                else match v with
                     | VList vs => if Z.of_nat (length vs) =? a_count a then words_of_list (a_ft a) vs else None
                     | _ => None
                     end) in H.
    destruct new as [ws|] eqn:En; [|discriminate].
    destruct (region f (a_elem a) (a_sub a) (vwords (a_ft a) * a_count a)) as [[i old]|] eqn:Er; [|discriminate].
    inversion H; subst t'. clear H.
    destruct (region_some _ _ _ _ _ _ Er) as (Hi & Hws & _ & _ & Hpos & Hlen & _).
    assert (Hk : length ws = Z.to_nat (vwords (a_ft a) * a_count a)).
    { subst new. destruct (a_count a =? 1) eqn:Ec.
      - pose proof (words_of_len _ _ _ En). assert (a_count a = 1) by lia. lia.
      - destruct v; try discriminate. destruct (Z.of_nat (length vs) =? a_count a) eqn:El; [|discriminate].
        pose proof (words_of_list_len _ _ _ En). assert (Z.of_nat (length vs) = a_count a) by lia. nia. }
    exists f, (set_words f (upd_words (df_words f) i ws)), i, (Z.to_nat (vwords (a_ft a) * a_count a)).
    assert (Hl : (i + length ws <= length (df_words f))%nat) by lia.
    repeat split; try reflexivity; try assumption.
    + replace (a_file a) with (df_num (set_words f (upd_words (df_words f) i ws))) by exact Hnum.
      apply (find_put_same t f). cbn [set_words df_num]. rewrite Hnum. exact Hfind.
    + intros n Hn. apply find_put_other. cbn [set_words df_num]. lia.
    + cbn [set_words df_words]. apply upd_words_length. exact Hl.
    + intros j Hj. cbn [set_words df_words]. apply upd_words_outside; [exact Hl|lia].
    + intros b0 Eb0. discriminate.
Qed.

Lemma region_set_words f ws' elem sub n i old :
  region f elem sub n = Some (i, old) -> length ws' = length (df_words f) ->
  region (set_words f ws') elem sub n = Some (i, firstn (Z.to_nat n) (skipn i ws')).
Proof.
  unfold region, word_index. cbn [set_words df_ew df_words]. intros H L. rewrite L.
  destruct ((0 <=? elem) && (0 <=? sub) && (sub <? df_ew f) && (0 <? n)
            && (elem * df_ew f + sub + n <=? Z.of_nat (length (df_words f)))); [|discriminate].
  inversion H; subst. reflexivity.
Qed.

Lemma file_for_find t a f : file_for t a = Some f ->
  find_file t (a_file a) = Some f /\ ftype_eqb (df_ft f) (a_ft a) = true /\ df_num f = a_file a.
Proof.
  unfold file_for. destruct (find_file t (a_file a)) as [g|] eqn:Eg; [|discriminate].
  destruct (ftype_eqb (df_ft g) (a_ft a)) eqn:Et; [|discriminate]. intros H. inversion H; subst.
  repeat split; try assumption. eapply find_file_num. eassumption.
Qed.

Lemma file_for_put t a f ws' : file_for t a = Some f ->
  file_for (put_file t (set_words f ws')) a = Some (set_words f ws').
Proof.
  intros H. destruct (file_for_find _ _ _ H) as (Hf & Ht & Hn).
  unfold file_for.
  replace (a_file a) with (df_num (set_words f ws')) by exact Hn.
  rewrite (find_put_same t f) by (cbn [set_words df_num]; rewrite Hn; exact Hf).
  cbn [set_words df_ft]. rewrite Ht. reflexivity.
Qed.

(* the value a read returns after the write: a bit read gives a boolean *)
Definition norm (a : addr) (v : sval) : sval :=
  match a_bit a with Some _ => VBool (truthy v) | None => v end.

Theorem ref_write_read t a v t' :
  ref_write t a v = Some t' -> match a_bit a with Some b => 0 <= b | None => True end ->
  ref_read t' a = Some (norm a v).
Proof.
  unfold ref_write, ref_read, norm. intros H Hb.
  destruct (file_for t a) as [f|] eqn:Ef; [|discriminate].
  destruct (a_bit a) as [b|] eqn:Eb.
  - destruct (region f (a_elem a) (a_sub a) 1) as [[i ws]|] eqn:Er; [|discriminate].
    destruct ws as [|w [|? ?]]; try discriminate. inversion H; subst t'. clear H.
    destruct (region_some _ _ _ _ _ _ Er) as (Hi & Hws & _ & _ & _ & Hlen & _).
    change (Z.to_nat 1) with 1%nat in Hlen.
    set (w' := if truthy v then Z.setbit w b else Z.clearbit w b).
    rewrite (file_for_put _ _ _ _ Ef).
    assert (Hl : (i + length [w'] <= length (df_words f))%nat) by (cbn [length]; lia).
    rewrite (region_set_words _ _ _ _ _ _ _ Er) by (apply upd_words_length; exact Hl).
    change (Z.to_nat 1) with (length [w']). rewrite upd_words_inside by exact Hl.
    subst w'. destruct (truthy v).
    + rewrite Z.setbit_eq by lia. reflexivity.
    + rewrite Z.clearbit_eq. reflexivity.
  - set (new := if a_count a =? 1 then words_of (a_ft a) v
                else match v with
                     | VList vs => if Z.of_nat (length vs) =? a_count a then words_of_list (a_ft a) vs else None
                     | _ => None
                     end) in H.
    destruct new as [ws|] eqn:En; [|discriminate].
    destruct (region f (a_elem a) (a_sub a) (vwords (a_ft a) * a_count a)) as [[i old]|] eqn:Er; [|discriminate].
    inversion H; subst t'. clear H.
    destruct (region_some _ _ _ _ _ _ Er) as (Hi & Hws & _ & _ & Hpos & Hlen & _).
    assert (Hk : length ws = Z.to_nat (vwords (a_ft a) * a_count a) /\
                 (match values_of (a_ft a) ws with [x] => Some x | vs => Some (VList vs) end) = Some v).
    { subst new. destruct (a_count a =? 1) eqn:Ec.
      - pose proof (words_of_len _ _ _ En). assert (a_count a = 1) by lia. split; [lia|].
        pose proof (values_words_of _ _ _ [] En) as V. rewrite app_nil_r in V. rewrite V.
        destruct (a_ft a); reflexivity.
      - destruct v; try discriminate. destruct (Z.of_nat (length vs) =? a_count a) eqn:El; [|discriminate].
        pose proof (words_of_list_len _ _ _ En). assert (Z.of_nat (length vs) = a_count a) by lia. split; [nia|].
        rewrite (values_words_of_list _ _ _ En).
        destruct vs as [|x [|y vs]]; [reflexivity| |reflexivity].
        cbn [length] in *. assert (vwords (a_ft a) > 0) by (destruct (a_ft a); cbn; lia). lia. }
    destruct Hk as [Hk Hv].
    rewrite (file_for_put _ _ _ _ Ef).
    assert (Hl : (i + length ws <= length (df_words f))%nat) by lia.
    rewrite (region_set_words _ _ _ _ _ _ _ Er) by (apply upd_words_length; exact Hl).
    rewrite <- Hk. rewrite upd_words_inside by exact Hl. exact Hv.
Qed.

(* the written table is still a table of 16-bit words *)
Lemma words_of_ok ft v ws : words_of ft v = Some ws -> forallb word_ok ws = true.
Proof.
  unfold words_of. destruct ft; destruct v; try discriminate;
    match goal with |- (if ?c then _ else _) = _ -> _ => destruct c eqn:E; [|discriminate] end;
    intros H; inversion H; subst; unfold forallb, word_ok; lia.
Qed.

(* ---------------------------------------------------------------- the written table is still a table *)
Lemma forallb_upd (p : Z -> bool) ws i new :
  forallb p ws = true -> forallb p new = true -> forallb p (upd_words ws i new) = true.
Proof.
  intros H1 H2. unfold upd_words. rewrite !forallb_app.
  assert (F : forall n l, forallb p l = true -> forallb p (firstn n l) = true).
  { induction n as [|n IH]; intros l H; [reflexivity|]. destruct l as [|x l]; [reflexivity|].
    cbn [forallb firstn] in *. apply andb_true_iff in H. destruct H as [Ha Hb]. rewrite Ha. cbn. apply IH. exact Hb. }
  assert (S : forall n l, forallb p l = true -> forallb p (skipn n l) = true).
  { induction n as [|n IH]; intros l H; [exact H|]. destruct l as [|x l]; [reflexivity|].
    cbn [forallb skipn] in *. apply andb_true_iff in H. destruct H as [Ha Hb]. apply IH. exact Hb. }
  rewrite F by exact H1. rewrite S by exact H1. rewrite H2. reflexivity.
Qed.

Lemma put_file_ok t f' : table_ok t = true -> dfile_ok f' = true -> table_ok (put_file t f') = true.
Proof.
  intros Ht Hf. induction t as [|g t IH]; [reflexivity|].
  cbn [table_ok forallb] in Ht. apply andb_true_iff in Ht. destruct Ht as [Hg Ht].
  cbn [put_file]. destruct (df_num g =? df_num f'); cbn [table_ok forallb].
  - rewrite Hf. exact Ht.
  - rewrite Hg. apply IH. exact Ht.
Qed.

Lemma words_of_list_ok' ft : forall vs ws, words_of_list ft vs = Some ws -> forallb word_ok ws = true.
Proof.
  induction vs as [|x vs IH]; intros ws H; cbn [words_of_list] in H.
  - inversion H; subst. reflexivity.
  - destruct (words_of ft x) as [a|] eqn:Ea; [|discriminate].
    destruct (words_of_list ft vs) as [b|] eqn:Eb; [|discriminate]. inversion H; subst.
    rewrite forallb_app. rewrite (words_of_ok _ _ _ Ea), (IH b eq_refl). reflexivity.
Qed.

Theorem ref_write_ok t a v t' :
  table_ok t = true -> match a_bit a with Some b => 0 <= b <= 15 | None => True end ->
  ref_write t a v = Some t' -> table_ok t' = true.
Proof.
  intros Ht Hb H. unfold ref_write in H.
  destruct (file_for t a) as [f|] eqn:Ef; [|discriminate].
  destruct (file_for_find _ _ _ Ef) as (Hfind & _ & _).
  pose proof (find_file_ok _ _ _ Ht Hfind) as Hok.
  assert (K : forall i new, forallb word_ok new = true -> (i + length new <= length (df_words f))%nat ->
              dfile_ok (set_words f (upd_words (df_words f) i new)) = true).
  { intros i new Hn Hl. unfold dfile_ok in *. cbn [set_words df_words df_ew df_ft].
    rewrite upd_words_length by exact Hl.
    apply andb_true_iff in Hok. destruct Hok as [Hok H4]. apply andb_true_iff in Hok. destruct Hok as [Hok H3].
    apply andb_true_iff in Hok. destruct Hok as [H1 H2].
    rewrite forallb_upd by assumption. rewrite H2, H3, H4. reflexivity. }
  destruct (a_bit a) as [b|] eqn:Eb.
  - destruct (region f (a_elem a) (a_sub a) 1) as [[i ws]|] eqn:Er; [|discriminate].
    destruct ws as [|w [|? ?]]; try discriminate. inversion H; subst t'.
    destruct (region_some _ _ _ _ _ _ Er) as (_ & Hws & _ & _ & _ & Hlen & _). change (Z.to_nat 1) with 1%nat in *.
    apply put_file_ok; [exact Ht|]. apply K; [|cbn [length]; lia].
    assert (Hw : word_ok w = true).
    { assert (Hin : forallb word_ok [w] = true).
      { rewrite Hws. unfold dfile_ok in Hok. apply andb_true_iff in Hok. destruct Hok as [Hok _].
        apply andb_true_iff in Hok. destruct Hok as [Hok _]. apply andb_true_iff in Hok. destruct Hok as [H1 _].
        clear - H1. revert H1. generalize (df_words f). intros l H1.
        assert (S : forall n l, forallb word_ok l = true -> forallb word_ok (skipn n l) = true).
        { induction n as [|n IH]; intros l0 H; [exact H|]. destruct l0 as [|x l0]; [reflexivity|].
          cbn [forallb skipn] in *. apply andb_true_iff in H. destruct H as [Ha Hb]. apply IH. exact Hb. }
        specialize (S i l H1). destruct (skipn i l) as [|x r]; [reflexivity|].
        cbn [firstn forallb] in *. apply andb_true_iff in S. destruct S as [Sa _]. rewrite Sa. reflexivity. }
      cbn [forallb] in Hin. apply andb_true_iff in Hin. tauto. }
    unfold word_ok in Hw. cbn [forallb]. rewrite andb_true_r. unfold word_ok.
    destruct (truthy v); [pose proof (setbit_range w b)|pose proof (clearbit_range w b)]; lia.
  - set (new := if a_count a =? 1 then words_of (a_ft a) v
                else match v with
                     | VList vs => if Z.of_nat (length vs) =? a_count a then words_of_list (a_ft a) vs else None
                     | _ => None
                     end) in H.
    destruct new as [ws|] eqn:En; [|discriminate].
    destruct (region f (a_elem a) (a_sub a) (vwords (a_ft a) * a_count a)) as [[i old]|] eqn:Er; [|discriminate].
    inversion H; subst t'.
    destruct (region_some _ _ _ _ _ _ Er) as (_ & _ & _ & _ & Hpos & Hlen & _).
    assert (Hk : length ws = Z.to_nat (vwords (a_ft a) * a_count a) /\ forallb word_ok ws = true).
    { subst new. destruct (a_count a =? 1) eqn:Ec.
      - pose proof (words_of_len _ _ _ En). assert (a_count a = 1) by lia. split; [lia|eapply words_of_ok; eassumption].
      - destruct v; try discriminate. destruct (Z.of_nat (length vs) =? a_count a) eqn:El; [|discriminate].
        pose proof (words_of_list_len _ _ _ En). assert (Z.of_nat (length vs) = a_count a) by lia.
        split; [nia|eapply words_of_list_ok'; eassumption]. }
    destruct Hk as [Hk Hwok].
    apply put_file_ok; [exact Ht|]. apply K; [exact Hwok|lia].
Qed.
