(* Proofs/UploadHistory.v — C05, the history clause: get_tag_list after ANY earlier uploads.
   The model threads the driver state from call to call (Model/LogixUpload.get_tag_list takes the
   state the previous call left and performs the resets the code performs: the template caches
   always; info['programs'|'tasks'] and self._data_types for the scopes None and "*").
   * [get_tag_list_forgets]: for the scopes None and "*" the call does not depend on the earlier state
     AT ALL: it is the call of a fresh driver (so data_types holds exactly the current definitions);
   * [get_tag_list_history]: get_tag_list(program=P) started from any state u0 has the same outcome,
     tags, programs, tasks and template cache as on a driver with an empty _data_types; its data_types
     is the earlier dictionary updated with the entries that driver would hold;
   * [dts_lookup]: every name a fresh driver would list maps to the SAME (current) definition; a name
     only the earlier dictionary had keeps its old definition ([reupload_keeps_stale_types]): that is
     what get_tag_list(program=P) is meant to do (it adds P's types to what is there) and what the
     scopes None and "*" did before /repo 0c7d79e. *)
From Coq Require Import ZifyBool String.
From PV Require Import Base.Bytes Base.PyStr Base.Res Model.LogixUpload.
Open Scope list_scope.
Open Scope Z_scope.

Definition dset (D : list (option text * datatype)) (nd : option text * datatype) : list (option text * datatype) :=
  dict_set otext_eqb D (fst nd) (snd nd).

(* u: the state of a driver whose _data_types started empty; u': the same driver with D0 in it *)
Definition Rel (D0 : list (option text * datatype)) (u u' : ustate) : Prop :=
  u_programs u' = u_programs u /\ u_tasks u' = u_tasks u /\ u_structs u' = u_structs u /\ u_udts u' = u_udts u
  /\ exists L, u_data_types u = fold_left dset L [] /\ u_data_types u' = fold_left dset L D0.

Lemma Rel_programs D0 x u u' : Rel D0 u u' -> Rel D0 (set_programs x u) (set_programs x u').
Proof. intros (A & B & C & D & E). repeat split; cbn; auto. Qed.
Lemma Rel_tasks D0 x u u' : Rel D0 u u' -> Rel D0 (set_tasks x u) (set_tasks x u').
Proof. intros (A & B & C & D & E). repeat split; cbn; auto. Qed.
Lemma Rel_structs D0 x u u' : Rel D0 u u' -> Rel D0 (set_structs x u) (set_structs x u').
Proof. intros (A & B & C & D & E). repeat split; cbn; auto. Qed.
Lemma Rel_udts D0 x u u' : Rel D0 u u' -> Rel D0 (set_udts x u) (set_udts x u').
Proof. intros (A & B & C & D & E). repeat split; cbn; auto. Qed.
Lemma Rel_dset D0 n d u u' :
  Rel D0 u u' ->
  Rel D0 (set_data_types (dict_set otext_eqb (u_data_types u) n d) u) (set_data_types (dict_set otext_eqb (u_data_types u') n d) u').
Proof.
  intros (A & B & C & D & L & E1 & E2). repeat split; cbn; auto.
  exists (L ++ [(n, d)]). rewrite !fold_left_app, <- E1, <- E2. split; reflexivity.
Qed.

Section History.
  Variable St : Type.
  Variable call : St -> ureq -> St * option urep.
  Variable rev_major : Z.
  Variable D0 : list (option text * datatype).

  (* two runs agree: same peer state, same outcome, related driver states *)
  Definition agree {A} (x y : St * ustate * outcome A) : Prop :=
    fst (fst x) = fst (fst y) /\ snd x = snd y /\ Rel D0 (snd (fst x)) (snd (fst y)).

  Lemma agree_same {A} s (o : outcome A) u u' : Rel D0 u u' -> agree (s, u, o) (s, u', o).
  Proof. intros H. split; [reflexivity|]. split; [reflexivity | exact H]. Qed.

  Lemma makeup_agree u u' s tid : Rel D0 u u' ->
    agree (get_structure_makeup St call u s tid) (get_structure_makeup St call u' s tid).
  Proof.
    intros H. pose proof H as (A & B & C & D & E). unfold get_structure_makeup. rewrite C.
    destruct (dict_get Z.eqb (u_structs u) tid); [apply agree_same; assumption|].
    destruct (template_request _ _ _); [|apply agree_same; assumption].
    destruct (call s a) as [s' [r|]]; [|apply agree_same; assumption].
    destruct (p_error_raises r || negb (p_valid r)); [apply agree_same; assumption|].
    destruct (parse_structure_makeup (p_data r)); [|apply agree_same; assumption].
    split; [reflexivity|]. split; [reflexivity|]. cbn [fst snd]. apply Rel_structs. exact H.
  Qed.

  Definition gdt_agree (g g' : ustate -> St -> Z -> Z -> St * ustate * outcome datatype) : Prop :=
    forall u u' s tid w, Rel D0 u u' -> agree (g u s tid w) (g' u' s tid w).

  Lemma member_info_agree g g' u u' s chunk : gdt_agree g g' -> Rel D0 u u' ->
    agree (parse_member_info St g u s chunk) (parse_member_info St g' u' s chunk).
  Proof.
    intros Hg H. unfold parse_member_info.
    destruct (member_record chunk) as [[[ti typ] off]|]; [|apply agree_same; assumption].
    destruct (match datatypes_get_code typ with Some n => _ | None => _ end) as [[n c]|]; [apply agree_same; assumption|].
    specialize (Hg u u' s (Z.land typ 4095) typ H).
    destruct (g u s (Z.land typ 4095) typ) as [[s1 u1] o1], (g' u' s (Z.land typ 4095) typ) as [[s2 u2] o2].
    destruct Hg as (E1 & E2 & E3). cbn [fst snd] in *. subst s2 o2.
    destruct o1; apply agree_same; assumption.
  Qed.

  Lemma member_infos_agree g g' : gdt_agree g g' -> forall chunks u u' s, Rel D0 u u' ->
    agree (parse_member_infos St g u s chunks) (parse_member_infos St g' u' s chunks).
  Proof.
    intros Hg. induction chunks as [|c r IH]; intros u u' s H; [apply agree_same; assumption|].
    cbn [parse_member_infos].
    pose proof (member_info_agree g g' u u' s c Hg H) as Hm.
    destruct (parse_member_info St g u s c) as [[s1 u1] o1], (parse_member_info St g' u' s c) as [[s2 u2] o2].
    destruct Hm as (E1 & E2 & E3). cbn [fst snd] in *. subst s2 o2.
    destruct o1 as [m| |]; [|apply agree_same; assumption|apply agree_same; assumption].
    specialize (IH u1 u2 s1 E3).
    destruct (parse_member_infos St g u1 s1 r) as [[s3 u3] o3], (parse_member_infos St g' u2 s1 r) as [[s4 u4] o4].
    destruct IH as (F1 & F2 & F3). cbn [fst snd] in *. subst s4 o4.
    destruct o3; apply agree_same; assumption.
  Qed.

  Lemma template_data_agree g g' u u' s data template stype : gdt_agree g g' -> Rel D0 u u' ->
    agree (parse_template_data St g u s data template stype) (parse_template_data St g' u' s data template stype).
  Proof.
    intros Hg H. unfold parse_template_data.
    pose proof (member_infos_agree g g' Hg (info_chunks (Z.to_nat (ta_count template)) (firstn (Z.to_nat (ta_count template) * 8) data)) u u' s H) as Hm.
    destruct (parse_member_infos St g u s _) as [[s1 u1] o1], (parse_member_infos St g' u' s _) as [[s2 u2] o2].
    destruct Hm as (E1 & E2 & E3). cbn [fst snd] in *. subst s2 o2.
    destruct o1; [|apply agree_same; assumption|apply agree_same; assumption].
    destruct (template_and_member_names _ _ _). apply agree_same; assumption.
  Qed.

  Lemma get_data_type_agree : forall fuel, gdt_agree (get_data_type St call fuel) (get_data_type St call fuel).
  Proof.
    induction fuel as [|f IH]; intros u u' s tid w H; pose proof H as (A & B & C & D & E); cbn [get_data_type]; rewrite D.
    - destruct (dict_get Z.eqb (u_udts u) tid); apply agree_same; assumption.
    - destruct (dict_get Z.eqb (u_udts u) tid); [apply agree_same; assumption|].
      pose proof (makeup_agree u u' s tid H) as Hm.
      destruct (get_structure_makeup St call u s tid) as [[s1 u1] o1], (get_structure_makeup St call u' s tid) as [[s2 u2] o2].
      destruct Hm as (E1 & E2 & E3). cbn [fst snd] in *. subst s2 o2.
      destruct o1 as [template| |]; [|apply agree_same; assumption|apply agree_same; assumption].
      destruct (read_template St call (S f) s1 tid (ta_defsize template) 0 []) as [s3 o3].
      destruct o3 as [data| |]; [|apply agree_same; assumption|apply agree_same; assumption].
      pose proof (template_data_agree _ _ u1 u2 s3 data template w IH E3) as Hp.
      destruct (parse_template_data St (get_data_type St call f) u1 s3 data template w) as [[s4 u4] o4],
               (parse_template_data St (get_data_type St call f) u2 s3 data template w) as [[s5 u5] o5].
      destruct Hp as (F1 & F2 & F3). cbn [fst snd] in *. subst s5 o5.
      destruct o4 as [d| |]; [|apply agree_same; assumption|apply agree_same; assumption].
      split; [reflexivity|]. split; [reflexivity|]. cbn [fst snd].
      pose proof F3 as (_ & _ & _ & Du & _). rewrite Du.
      exact (Rel_dset D0 (dt_name d) d _ _ (Rel_udts D0 (dict_set Z.eqb (u_udts u4) tid d) u4 u5 F3)).
  Qed.

  Lemma create_tag_agree fuel u u' s name raw : Rel D0 u u' ->
    agree (create_tag St call fuel u s name raw) (create_tag St call fuel u' s name raw).
  Proof.
    intros H. unfold create_tag. destruct (sym_is_struct (rt_stype raw)); [|apply agree_same; assumption].
    pose proof (get_data_type_agree fuel u u' s (sym_template_id (rt_stype raw)) (rt_stype raw) H) as Hg.
    destruct (get_data_type St call fuel u s _ _) as [[s1 u1] o1], (get_data_type St call fuel u' s _ _) as [[s2 u2] o2].
    destruct Hg as (E1 & E2 & E3). cbn [fst snd] in *. subst s2 o2. destruct o1; apply agree_same; assumption.
  Qed.

  Lemma isolate_agree fuel program : forall all u u' s acc, Rel D0 u u' ->
    agree (isolate_user_tags St call fuel u s program all acc) (isolate_user_tags St call fuel u' s program all acc).
  Proof.
    induction all as [|tag rest IH]; intros u u' s acc H; [apply agree_same; assumption|].
    pose proof H as (A & B & C & D & E). cbn [isolate_user_tags].
    destruct (classify (rt_name tag) (rt_stype tag)).
    - rewrite A. apply IH. apply Rel_programs. exact H.
    - apply IH. destruct program as [p|]; [|exact H]. rewrite A.
      destruct (dict_get PyStr.text_eqb (u_programs u) p) as [[i rs]|]; [apply Rel_programs|]; exact H.
    - rewrite B. apply IH. apply Rel_tasks. exact H.
    - apply IH. exact H.
    - pose proof (create_tag_agree fuel u u' s (match program with Some p => txt_Program_ ++ p ++ [46] ++ rt_name tag | None => rt_name tag end) tag H) as Hc.
      destruct (create_tag St call fuel u s _ tag) as [[s1 u1] o1], (create_tag St call fuel u' s _ tag) as [[s2 u2] o2].
      destruct Hc as (E1 & E2 & E3). cbn [fst snd] in *. subst s2 o2.
      destruct o1; [apply IH; exact E3 | apply agree_same; assumption | apply agree_same; assumption].
  Qed.

  Lemma scope_agree fuel u u' s program : Rel D0 u u' ->
    agree (get_tag_list_scope St call rev_major fuel u s program) (get_tag_list_scope St call rev_major fuel u' s program).
  Proof.
    intros H. unfold get_tag_list_scope.
    destruct (get_instance_attribute_list St call rev_major fuel s program 0 []) as [s1 o1].
    destruct o1; [apply isolate_agree; exact H | apply agree_same; assumption | apply agree_same; assumption].
  Qed.

  Lemma programs_agree fuel : forall progs u u' s tags, Rel D0 u u' ->
    agree (program_tag_lists St call rev_major fuel u s progs tags) (program_tag_lists St call rev_major fuel u' s progs tags).
  Proof.
    induction progs as [|p r IH]; intros u u' s tags H; [apply agree_same; assumption|].
    pose proof H as (A & _). cbn [program_tag_lists].
    pose proof (scope_agree fuel u u' s (Some p) H) as Hs.
    destruct (get_tag_list_scope St call rev_major fuel u s (Some p)) as [[s1 u1] o1],
             (get_tag_list_scope St call rev_major fuel u' s (Some p)) as [[s2 u2] o2].
    destruct Hs as (E1 & E2 & E3). cbn [fst snd] in *. subst s2 o2.
    destruct o1 as [ts| |]; [|apply agree_same; assumption|apply agree_same; assumption].
    pose proof E3 as (A1 & _). rewrite A, A1.
    destruct (negb (Nat.eqb (length (u_programs u1)) (length (u_programs u)))); [apply agree_same; assumption|].
    apply IH. exact E3.
  Qed.

  (* LogixDriver.get_tag_list on a driver that already uploaded: u0 is ANY state; the fresh driver is
     the same state with an empty _data_types *)
  Definition fresh (u0 : ustate) : ustate := set_data_types [] u0.

  (* get_tag_list(program=P) adds to what is there *)
  Theorem get_tag_list_history fuel u0 s pn :
    u_data_types u0 = D0 ->
    match get_tag_list St call rev_major fuel (fresh u0) s (ArgProgram pn), get_tag_list St call rev_major fuel u0 s (ArgProgram pn) with
    | (s1, Done r1), (s2, Done r2) =>
        s1 = s2 /\ res_tags r2 = res_tags r1 /\ Rel D0 (res_state r1) (res_state r2)
    | (s1, Failed e1), (s2, Failed e2) => s1 = s2 /\ e1 = e2
    | (s1, OutOfFuel), (s2, OutOfFuel) => s1 = s2
    | _, _ => False
    end.
  Proof.
    intros HD.
    assert (H0 : Rel D0 (fresh u0) u0).
    { unfold fresh. repeat split; cbn; auto. exists []. cbn. auto. }
    unfold get_tag_list.
    assert (Hv : Rel D0 (set_udts [] (set_structs [] (fresh u0))) (set_udts [] (set_structs [] u0)))
      by (apply Rel_udts, Rel_structs; exact H0).
    pose proof (scope_agree fuel _ _ s (Some pn) Hv) as Hrun.
    destruct (get_tag_list_scope St call rev_major fuel (set_udts [] (set_structs [] (fresh u0))) s (Some pn)) as [[s1 u1] o1].
    destruct (get_tag_list_scope St call rev_major fuel (set_udts [] (set_structs [] u0)) s (Some pn)) as [[s2 u2] o2].
    destruct Hrun as (E1 & E2 & E3). cbn [fst snd] in *. subst s2 o2.
    destruct o1; cbn [res_tags res_state]; auto.
  Qed.

  (* scopes None and "*": nothing of the earlier state survives the resets *)
  Theorem get_tag_list_forgets fuel u0 s arg :
    match arg with ArgProgram _ => False | _ => True end ->
    get_tag_list St call rev_major fuel u0 s arg = get_tag_list St call rev_major fuel init_ustate s arg.
  Proof. destruct arg; intros H; [reflexivity | reflexivity | contradiction]. Qed.
End History.

(* ================================================================ what the merged dictionary says *)
Lemma dict_get_set_same (D : list (option text * datatype)) n d : dict_get otext_eqb (dict_set otext_eqb D n d) n = Some d.
Proof.
  assert (R : otext_eqb n n = true) by (destruct n as [x|]; [cbn; induction x as [|c x IH]; [reflexivity | cbn; rewrite Z.eqb_refl, IH; reflexivity] | reflexivity]).
  induction D as [|[k v] D IH]; cbn [dict_set dict_get]; [rewrite R; reflexivity|].
  destruct (otext_eqb k n) eqn:E; cbn [dict_get]; rewrite E; [reflexivity | exact IH].
Qed.

Lemma text_eqb_true_eq a : forall b, PyStr.text_eqb a b = true -> a = b.
Proof.
  induction a as [|x a IH]; intros [|y b] H; try discriminate; [reflexivity|].
  cbn in H. apply andb_prop in H. destruct H as [E H]. apply Z.eqb_eq in E. rewrite E, (IH b H). reflexivity.
Qed.
Lemma otext_eqb_eq a b : otext_eqb a b = true -> a = b.
Proof. destruct a, b; cbn; try discriminate; [intros H; f_equal; apply text_eqb_true_eq; exact H | reflexivity]. Qed.

Lemma dict_get_set_other (D : list (option text * datatype)) n d k : otext_eqb n k = false -> dict_get otext_eqb (dict_set otext_eqb D n d) k = dict_get otext_eqb D k.
Proof.
  intros Hk. induction D as [|[a b] D IH]; cbn [dict_set dict_get]; [rewrite Hk; reflexivity|].
  destruct (otext_eqb a n) eqn:E; cbn [dict_get].
  - apply otext_eqb_eq in E. subst a. rewrite Hk. reflexivity.
  - destruct (otext_eqb a k); [reflexivity | exact IH].
Qed.

Lemma fold_dset_snoc L D n d : fold_left dset (L ++ [(n, d)]) D = dict_set otext_eqb (fold_left dset L D) n d.
Proof. rewrite fold_left_app. reflexivity. Qed.

(* a name the fresh driver lists maps to the same definition; any other name keeps what it had *)
Theorem dts_lookup : forall L D0 k,
  dict_get otext_eqb (fold_left dset L D0) k
  = match dict_get otext_eqb (fold_left dset L []) k with
    | Some d => Some d
    | None => dict_get otext_eqb D0 k
    end.
Proof.
  intros L. induction L as [|[n d] L IH] using rev_ind; intros D0 k; [reflexivity|].
  rewrite !fold_dset_snoc.
  destruct (otext_eqb n k) eqn:E.
  - apply otext_eqb_eq in E. subst k. rewrite !dict_get_set_same. reflexivity.
  - rewrite !dict_get_set_other by exact E. apply IH.
Qed.

(* the stale entry: an earlier dictionary's name that the current upload does not produce survives *)
Corollary reupload_keeps_stale_types L D0 k d :
  dict_get otext_eqb (fold_left dset L []) k = None -> dict_get otext_eqb D0 k = Some d ->
  dict_get otext_eqb (fold_left dset L D0) k = Some d.
Proof. intros H1 H2. rewrite dts_lookup, H1. exact H2. Qed.
