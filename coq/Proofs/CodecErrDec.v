(* Proofs/CodecErrDec.v — C08, decode side: every decoder result is a value, DataError or
   BufferEmptyError; the unread rest is a suffix; types that make progress; termination of
   Array(None, T) for every fuel above the buffer length; the generic hang lemma. *)
From PV Require Import Base.Bytes Base.BytesLemmas Base.Res.
From PV Require Import Gen.Types Gen.CodecFacts Model.Codec Model.CodecDom.
From PV Require Import Proofs.CodecErrDefs Proofs.CodecErrBase.
From Coq Require Import ZifyBool.
Open Scope Z_scope.
Ltac Zify.zify_post_hook ::= Z.to_euclidean_division_equations.

(* ------------------------------------------------------------------ result shapes *)
(* a library result whose unread rest is no longer than the buffer; a success consumed a byte *)
Definition shape_le (bs : bytes) (r : dres) : Prop :=
  match r with
  | DOk _ x | DEmpty x => (length x <= length bs)%nat
  | DErr e => e = DataError
  | DOutOfFuel => False
  end.
Definition shape_lt (bs : bytes) (r : dres) : Prop :=
  match r with
  | DOk _ x => (length x < length bs)%nat
  | DEmpty x => (length x <= length bs)%nat
  | DErr e => e = DataError
  | DOutOfFuel => False
  end.

Lemma shape_lt_le bs r : shape_lt bs r -> shape_le bs r.
Proof. destruct r; cbn; auto; lia. Qed.
Lemma shape_le_rest bs r : shape_le bs r -> dres_rest_le bs r.
Proof. destruct r; cbn; auto. Qed.
Lemma shape_le_wrap bs r : dres_rest_le bs r -> r <> DOutOfFuel -> shape_le bs (dwrap r).
Proof. destruct r; cbn; auto; try (intros _ H; now apply H). Qed.

Lemma int_decode_lt sg w bs : shape_lt bs (int_decode sg w bs).
Proof.
  pose proof (int_decode_shape sg w bs) as H. destruct (int_decode sg w bs); cbn; auto.
  - lia.
  - destruct H as [-> _]. lia.
Qed.

(* the continuation of a read that returned data: it runs on a strictly shorter rest *)
Lemma stream_read_lt n bs k :
  (forall d r, d <> [] -> bs = d ++ r -> shape_le r (k d r)) ->
  shape_lt bs (stream_read n bs k).
Proof.
  intros Hk. destruct (stream_read_cases n bs k) as (d & r & Ht & [[-> ->]|[Hd ->]]).
  - apply stream_take_nil in Ht as [-> _]. cbn. lia.
  - pose proof (stream_take_split _ _ _ _ Ht) as ->. specialize (Hk d r Hd eq_refl).
    assert (Hl : (length r < length (d ++ r))%nat) by (rewrite app_length; destruct d; [contradiction|cbn; lia]).
    destruct (k d r); cbn in *; auto; lia.
Qed.

Lemma shape_lt_wrap bs r : shape_lt bs r -> shape_lt bs (dwrap r).
Proof. destruct r; cbn; auto. Qed.

(* sequencing: a first step that made progress, then anything that does not lengthen the rest *)
Lemma dbind_lt bs r f :
  shape_lt bs r -> (forall v r1, r = DOk v r1 -> shape_le r1 (f v r1)) -> shape_lt bs (dbind r f).
Proof.
  intros Hr Hf. destruct r as [v r1| | |]; cbn in *; auto.
  specialize (Hf v r1 eq_refl). destruct (f v r1); cbn in *; auto; lia.
Qed.
Lemma dbind_le bs r f :
  shape_le bs r -> (forall v r1, r = DOk v r1 -> shape_le r1 (f v r1)) -> shape_le bs (dbind r f).
Proof.
  intros Hr Hf. destruct r as [v r1| | |]; cbn in *; auto.
  specialize (Hf v r1 eq_refl). destruct (f v r1); cbn in *; auto; lia.
Qed.
(* weakening of the buffer *)
Lemma shape_le_mono bs bs' r : shape_le bs r -> (length bs <= length bs')%nat -> shape_le bs' r.
Proof. destruct r; cbn; auto; lia. Qed.

Lemma text_result_le enc data r2 :
  shape_le r2 (match text_decode enc data with Ok s => DOk (VStr s) r2 | Err e => DErr e end) \/
  exists e, (match text_decode enc data with Ok s => DOk (VStr s) r2 | Err e => DErr e end) = DErr e.
Proof. destruct (text_decode enc data); [left; cbn; lia|right; eauto]. Qed.

(* ---- leaves: every decoder whose first action is a _stream_read / an integer decode *)
Lemma bool_decode_lt bs : shape_lt bs (bool_decode bs).
Proof. pose proof (bool_decode_shape bs) as H. destruct (bool_decode bs); cbn; auto; [lia|]. destruct H as [-> _]. lia. Qed.
Lemma real_decode_lt dbl bs : shape_lt bs (real_decode dbl bs).
Proof.
  pose proof (real_decode_shape dbl bs) as H. destruct (real_decode dbl bs); cbn; auto.
  - destruct dbl; lia.
  - destruct H as [-> _]. lia.
Qed.

(* DataType.decode over a body: foreign exceptions become DataError; lengths are kept *)
Lemma wrap_body_lt bs r :
  match r with DOk _ x => (length x < length bs)%nat | DEmpty x => (length x <= length bs)%nat | DErr _ => True | DOutOfFuel => False end ->
  shape_lt bs (dwrap r).
Proof. destruct r; cbn; auto. Qed.
Definition pre_lt (bs : bytes) (r : dres) : Prop :=
  match r with DOk _ x => (length x < length bs)%nat | DEmpty x => (length x <= length bs)%nat | DErr _ => True | DOutOfFuel => False end.
Definition pre_le (bs : bytes) (r : dres) : Prop :=
  match r with DOk _ x | DEmpty x => (length x <= length bs)%nat | DErr _ => True | DOutOfFuel => False end.
Lemma pre_lt_le bs r : pre_lt bs r -> pre_le bs r.
Proof. destruct r; cbn; auto; lia. Qed.
Lemma shape_lt_pre bs r : shape_lt bs r -> pre_lt bs r.
Proof. destruct r; cbn; auto. Qed.
Lemma shape_le_pre bs r : shape_le bs r -> pre_le bs r.
Proof. destruct r; cbn; auto. Qed.
Lemma pre_lt_wrap bs r : pre_lt bs r -> shape_lt bs (dwrap r).
Proof. destruct r; cbn; auto. Qed.
Lemma pre_le_wrap bs r : pre_le bs r -> shape_le bs (dwrap r).
Proof. destruct r; cbn; auto. Qed.
Lemma pre_le_mono bs bs' r : pre_le bs r -> (length bs <= length bs')%nat -> pre_le bs' r.
Proof. destruct r; cbn; auto; lia. Qed.
Lemma dbind_pre_lt bs r f :
  pre_lt bs r -> (forall v r1, r = DOk v r1 -> pre_le r1 (f v r1)) -> pre_lt bs (dbind r f).
Proof.
  intros Hr Hf. destruct r as [v r1| | |]; cbn in *; auto.
  specialize (Hf v r1 eq_refl). destruct (f v r1); cbn in *; auto; lia.
Qed.
Lemma dbind_pre_le bs r f :
  pre_le bs r -> (forall v r1, r = DOk v r1 -> pre_le r1 (f v r1)) -> pre_le bs (dbind r f).
Proof.
  intros Hr Hf. destruct r as [v r1| | |]; cbn in *; auto.
  specialize (Hf v r1 eq_refl). destruct (f v r1); cbn in *; auto; lia.
Qed.
Lemma stream_read_pre_lt n bs k :
  (forall d r, d <> [] -> bs = d ++ r -> pre_le r (k d r)) -> pre_lt bs (stream_read n bs k).
Proof.
  intros Hk. destruct (stream_read_cases n bs k) as (d & r & Ht & [[-> ->]|[Hd ->]]).
  - apply stream_take_nil in Ht as [-> _]. cbn. lia.
  - pose proof (stream_take_split _ _ _ _ Ht) as ->. specialize (Hk d r Hd eq_refl).
    assert (Hl : (length r < length (d ++ r))%nat) by (rewrite app_length; destruct d; [contradiction|cbn; lia]).
    destruct (k d r); cbn in *; auto; lia.
Qed.
Lemma text_result_pre enc data r2 :
  pre_le r2 (match text_decode enc data with Ok s => DOk (VStr s) r2 | Err e => DErr e end).
Proof. destruct (text_decode enc data); cbn; auto. Qed.

Lemma str_decode_lt lsg lw enc bs : shape_lt bs (str_decode lsg lw enc bs).
Proof.
  unfold str_decode. apply pre_lt_wrap. apply dbind_pre_lt; [apply shape_lt_pre, int_decode_lt|].
  intros n r1 _. destruct (as_int n =? 0); [cbn; lia|].
  apply pre_lt_le, stream_read_pre_lt. intros d r _ _. apply text_result_pre.
Qed.

Lemma stringn_decode_lt bs : shape_lt bs (stringn_decode bs).
Proof.
  unfold stringn_decode. rewrite named_UINT_decode. apply pre_lt_wrap.
  apply dbind_pre_lt; [apply shape_lt_pre, int_decode_lt|]. intros cs r1 _.
  apply dbind_pre_le; [apply pre_lt_le, shape_lt_pre, int_decode_lt|]. intros cnt r2 _.
  destruct (stringn_enc (as_int cs)); [|cbn; auto].
  apply pre_lt_le, stream_read_pre_lt. intros d r _ _. apply text_result_pre.
Qed.

Lemma datetime_decode_lt bs : shape_lt bs (datetime_decode bs).
Proof.
  unfold datetime_decode. rewrite named_UDINT_decode, named_UINT_decode. apply pre_lt_wrap.
  apply dbind_pre_lt; [apply shape_lt_pre, int_decode_lt|]. intros t r1 _.
  apply dbind_pre_le; [apply pre_lt_le, shape_lt_pre, int_decode_lt|]. intros d r2 _. cbn. lia.
Qed.

Lemma nbytes_decode_lt n bs : shape_lt bs (nbytes_decode n bs).
Proof. unfold nbytes_decode. apply pre_lt_wrap, stream_read_pre_lt. intros d r _ _. cbn. lia. Qed.

Lemma bits_decode_lt w bs : shape_lt bs (bits_decode w bs).
Proof.
  unfold bits_decode. apply pre_lt_wrap. apply dbind_pre_lt; [apply shape_lt_pre, int_decode_lt|].
  intros v r _. cbn. lia.
Qed.

Lemma fixedstr_decode_lt size lsg lw bs : shape_lt bs (fixedstr_decode size lsg lw bs).
Proof.
  unfold fixedstr_decode. destruct fss_enc; [|cbn; auto]. apply pre_lt_wrap.
  apply dbind_pre_lt; [apply shape_lt_pre, int_decode_lt|]. intros n r1 _.
  apply pre_lt_le, stream_read_pre_lt. intros d r _ _. apply text_result_pre.
Qed.

Lemma ip_decode_lt bs : shape_lt bs (ip_decode bs).
Proof.
  unfold ip_decode. apply pre_lt_wrap, stream_read_pre_lt. intros d r _ _.
  destruct d as [|a [|b [|c [|d' [|? ?]]]]]; cbn; auto.
Qed.

Lemma pccc_string_decode_lt bs : shape_lt bs (pccc_string_decode bs).
Proof.
  unfold pccc_string_decode. destruct pccc_string_enc; [|cbn; auto]. rewrite named_UINT_decode.
  apply pre_lt_wrap. apply dbind_pre_lt; [apply shape_lt_pre, int_decode_lt|]. intros n r1 _.
  destruct (stream_take 82 r1) as [d r2] eqn:Ht. apply stream_take_len in Ht.
  destruct (slc_swap d); [|cbn; auto].
  eapply pre_le_mono; [apply text_result_pre|lia].
Qed.

(* PCCC_ASCII reads with a plain stream.read(2): it may succeed without consuming anything *)
Lemma pccc_ascii_decode_le bs : shape_le bs (pccc_ascii_decode bs).
Proof.
  unfold pccc_ascii_decode. destruct pccc_ascii_enc; [|cbn; auto]. apply pre_le_wrap.
  destruct (stream_take 2 bs) as [d r] eqn:Ht. apply stream_take_len in Ht.
  destruct (slc_swap d); [|cbn; auto].
  eapply pre_le_mono; [apply text_result_pre|lia].
Qed.

(* the string classes STRINGI names (any other class: the model's marker error) *)
Lemma named_decode_pre n bs : pre_le bs (named_decode n bs).
Proof.
  unfold named_decode.
  destruct (ty_of_name n) as [[]|]; cbn; auto;
    apply shape_le_pre, shape_lt_le; first [apply str_decode_lt | apply stringn_decode_lt].
Qed.

(* ------------------------------------------------------------------ inversion of dwrap / dbind *)
Lemma dwrap_ok_inv r v x : dwrap r = DOk v x -> r = DOk v x.
Proof. apply dwrap_ok. Qed.
Lemma dwrap_empty_inv r x : dwrap r = DEmpty x -> r = DEmpty x.
Proof. apply dwrap_empty. Qed.
Lemma dwrap_fuel_inv r : dwrap r = DOutOfFuel -> r = DOutOfFuel.
Proof. apply dwrap_fuel. Qed.
Lemma dbind_ok_inv r f v x : dbind r f = DOk v x -> exists v1 r1, r = DOk v1 r1 /\ f v1 r1 = DOk v x.
Proof. destruct r; cbn; intros H; try discriminate. eauto. Qed.
Lemma dbind_empty_inv r f x :
  dbind r f = DEmpty x -> r = DEmpty x \/ exists v1 r1, r = DOk v1 r1 /\ f v1 r1 = DEmpty x.
Proof. destruct r; cbn; intros H; try discriminate; eauto. Qed.
Lemma dbind_fuel_inv r f :
  dbind r f = DOutOfFuel -> r = DOutOfFuel \/ exists v1 r1, r = DOk v1 r1 /\ f v1 r1 = DOutOfFuel.
Proof. destruct r; cbn; intros H; try discriminate; eauto. Qed.

Lemma dbind_rest_le bs r f :
  dres_rest_le bs r -> (forall v r1, r = DOk v r1 -> dres_rest_le r1 (f v r1)) -> dres_rest_le bs (dbind r f).
Proof.
  intros Hr Hf. destruct r as [v r1| | |]; cbn in *; auto.
  specialize (Hf v r1 eq_refl). destruct (f v r1); cbn in *; auto; lia.
Qed.
Lemma pre_le_rest bs r : pre_le bs r -> dres_rest_le bs r.
Proof. destruct r; cbn; auto. Qed.
Lemma dres_rest_le_mono bs bs' r : dres_rest_le bs r -> (length bs <= length bs')%nat -> dres_rest_le bs' r.
Proof. destruct r; cbn; auto; lia. Qed.

(* ------------------------------------------------------------------ T1: library results only *)
(* every public decode is wrapped: a foreign exception never escapes *)
Theorem decode_lib fuel t bs e : decode_fuel fuel t bs = DErr e -> e = DataError.
Proof.
  destruct t; cbn [decode_fuel];
    unfold bool_decode, int_decode, real_decode, elem_decode, datetime_decode, str_decode, stringn_decode, stringi_decode,
      nbytes_decode, bits_decode, array_decode_fixed, array_decode_prefix, array_decode_all, struct_decode,
      fixedstr_decode, structtag_decode, ip_decode, pccc_ascii_decode, pccc_string_decode;
    apply dwrap_err.          (* also through the Gen-given encodings of FixedSizeString / PCCC types *)
Qed.

(* ------------------------------------------------------------------ T2: the unread rest is never longer *)
Definition RestLe (dec : bytes -> dres) : Prop := forall bs, dres_rest_le bs (dec bs).

Lemma decode_n_rest_le dec n : RestLe dec -> RestLe (decode_n dec n).
Proof.
  intros Hd. induction n as [|n IH]; intros bs; cbn [decode_n]; [cbn; lia|].
  apply dbind_rest_le; [apply Hd|]. intros v r1 _.
  apply dbind_rest_le; [apply IH|]. intros vs r2 _. destruct vs; cbn; auto.
Qed.

Lemma decode_all_rest_le dec fuel : RestLe dec -> RestLe (decode_all dec fuel).
Proof.
  intros Hd. induction fuel as [|f IH]; intros bs; cbn [decode_all]; [exact I|].
  pose proof (Hd bs) as H. destruct (dec bs) as [v r1|e|r|]; cbn in *; auto.
  eapply dres_rest_le_mono with (bs := r1); [|exact H].
  apply dbind_rest_le; [apply IH|]. intros vs r2 _. destruct vs; cbn; auto.
Qed.

Lemma struct_members_rest_le (ds : list (key * (bytes -> dres))) :
  Forall (fun d => RestLe (snd d)) ds -> forall acc, RestLe (struct_decode_members ds acc).
Proof.
  intros H. induction H as [|[k dec] ds Hd _ IH]; intros acc bs; cbn [struct_decode_members]; [cbn; lia|].
  apply dbind_rest_le; [apply Hd|]. intros v r1 _. apply IH.
Qed.

Lemma stringi_items_pre count : forall bs ss ls cs, pre_le bs (stringi_decode_items count bs ss ls cs).
Proof.
  induction count as [|c IH]; intros bs ss ls cs; cbn [stringi_decode_items]; [cbn; lia|].
  destruct (stream_take 3 bs) as [l3 r1] eqn:Ht. apply stream_take_len in Ht.
  pose proof (named_decode_pre n_SHORT_STRING (3 :: l3)) as Hn.
  destruct (named_decode n_SHORT_STRING (3 :: l3)) as [lang x|e|x|]; cbn [pre_le] in Hn; try contradiction.
  - destruct r1 as [|code r2]; [exact I|].
    destruct (zlookup stringi_string_types code) as [tn|]; [|exact I].
    rewrite named_UINT_decode.
    eapply pre_le_mono with (bs := r2); [|cbn [length] in *; lia].
    apply dbind_pre_le; [apply pre_lt_le, shape_lt_pre, int_decode_lt|]. intros chs r3 _.
    apply dbind_pre_le; [apply named_decode_pre|]. intros s r4 _. apply IH.
  - exact I.
  - cbn [pre_le]. lia.
Qed.

Lemma stringi_decode_lt bs : shape_lt bs (stringi_decode bs).
Proof.
  unfold stringi_decode. rewrite named_USINT_decode. apply pre_lt_wrap.
  apply dbind_pre_lt; [apply shape_lt_pre, int_decode_lt|]. intros c r1 _. apply stringi_items_pre.
Qed.

Lemma structtag_rest_le ds bits priv size : RestLe (structtag_decode ds bits priv size).
Proof.
  intros bs. unfold structtag_decode. apply dwrap_rest_le.
  assert (Hs : (length (skipn size bs) <= length bs)%nat) by (rewrite skipn_length; lia).
  destruct (stag_decode_members ds (length (firstn size bs)) [] (firstn size bs)) as [v x|e|x|]; cbn; auto.
  destruct v; cbn; auto. destruct (stag_decode_bits bits (firstn size bs) d); cbn; auto.
Qed.

Theorem decode_rest_le : forall t fuel, RestLe (decode_fuel fuel t).
Proof.
  induction t using ty_ind_nested; intros fuel bs; cbn [decode_fuel].
  - apply shape_le_rest, shape_lt_le, bool_decode_lt.
  - apply shape_le_rest, shape_lt_le, int_decode_lt.
  - apply shape_le_rest, shape_lt_le, real_decode_lt.
  - apply shape_le_rest, shape_lt_le, datetime_decode_lt.
  - apply shape_le_rest, shape_lt_le, str_decode_lt.
  - apply shape_le_rest, shape_lt_le, stringn_decode_lt.
  - apply shape_le_rest, shape_lt_le, stringi_decode_lt.
  - apply shape_le_rest, shape_lt_le, nbytes_decode_lt.
  - apply shape_le_rest, shape_lt_le, bits_decode_lt.
  - (* TArrFixed *)
    unfold array_decode_fixed. apply dwrap_rest_le. apply dbind_rest_le; [apply decode_n_rest_le, IHt|].
    intros vs rest _. destruct (is_instance t); [exact I|]. destruct (is_bits t); [|cbn; lia].
    destruct vs; cbn; auto. destruct (chain_vals l); cbn; auto.
  - (* TArrPrefix *)
    unfold array_decode_prefix. apply dwrap_rest_le. destruct inst; [|exact I].
    apply dbind_rest_le; [apply IHt1|]. intros; exact I.
  - (* TArrAll *)
    unfold array_decode_all. apply dwrap_rest_le. apply decode_all_rest_le, IHt.
  - (* TStruct *)
    unfold struct_decode, struct_decode_inner. apply dwrap_rest_le.
    apply dbind_rest_le.
    + apply dbind_rest_le.
      * apply struct_members_rest_le.
        apply (Forall_map_snd (fun t => forall fuel, RestLe (decode_fuel fuel t)) RestLe (decode_fuel fuel)); auto.
      * intros v r _. destruct v; cbn; auto.
    + intros v r _. destruct k; [cbn; lia| |]; destruct v; cbn; auto; destruct (identity_post d); cbn; auto.
  - apply shape_le_rest, shape_lt_le, fixedstr_decode_lt.
  - apply structtag_rest_le.
  - apply shape_le_rest, shape_lt_le, ip_decode_lt.
  - apply shape_le_rest, pccc_ascii_decode_le.
  - apply shape_le_rest, shape_lt_le, pccc_string_decode_lt.
Qed.

(* ------------------------------------------------------------------ T3: types that make progress *)
Definition Lt (dec : bytes -> dres) : Prop := forall bs v r, dec bs = DOk v r -> (length r < length bs)%nat.

Lemma shape_lt_Lt dec : (forall bs, shape_lt bs (dec bs)) -> Lt dec.
Proof. intros H bs v r E. specialize (H bs). now rewrite E in H. Qed.

Lemma rest_le_ok dec bs v r : RestLe dec -> dec bs = DOk v r -> (length r <= length bs)%nat.
Proof. intros H E. specialize (H bs). now rewrite E in H. Qed.

Lemma decode_n_ok_le dec n : RestLe dec -> forall bs v r, decode_n dec n bs = DOk v r -> (length r <= length bs)%nat.
Proof. intros H bs v r. apply rest_le_ok. now apply decode_n_rest_le. Qed.

Lemma decode_n_Lt dec n : RestLe dec -> Lt dec -> Lt (decode_n dec (S n)).
Proof.
  intros Hle Hlt bs v r. cbn [decode_n]. intros H.
  apply dbind_ok_inv in H as (v1 & r1 & E1 & H). apply dbind_ok_inv in H as (vs & r2 & E2 & H).
  apply Hlt in E1. apply decode_n_ok_le in E2; [|assumption].
  destruct vs; try discriminate. injection H as _ <-. lia.
Qed.

Lemma struct_members_Lt (ds : list (key * (bytes -> dres))) :
  Forall (fun d => RestLe (snd d)) ds ->
  forall acc bs v r, struct_decode_members ds acc bs = DOk v r ->
    (length r <= length bs)%nat /\ (Exists (fun d => Lt (snd d)) ds -> (length r < length bs)%nat).
Proof.
  intros H. induction H as [|[k dec] ds Hd _ IH]; intros acc bs v r; cbn [struct_decode_members].
  - intros E. injection E as _ <-. split; [lia|]. intros Hx. inversion Hx.
  - intros E. apply dbind_ok_inv in E as (v1 & r1 & E1 & E).
    pose proof (rest_le_ok _ _ _ _ Hd E1) as H1. apply IH in E as [H2 H3]. split; [lia|].
    intros Hx. inversion Hx as [? ? Hh|? ? Ht]; subst.
    + apply Hh in E1. lia.
    + specialize (H3 Ht). lia.
Qed.

Lemma Exists_map_snd {K T D} (P : T -> bool) (Q : D -> Prop) (f : T -> D) (ms : list (K * T)) :
  Forall (fun m => P (snd m) = true -> Q (f (snd m))) ms ->
  existsb (fun m => P (snd m)) ms = true -> Exists (fun d => Q (snd d)) (map (fun m => (fst m, f (snd m))) ms).
Proof.
  intros H. induction H as [|m ms Hm _ IH]; cbn [existsb map]; [discriminate|].
  intros E. apply orb_prop in E as [E|E]; [left; cbn [snd]; auto|right; auto].
Qed.

(* StructTag members decode from the private sub-stream: on an empty one a member that makes
   progress cannot succeed *)
Lemma stag_members_nil (ds : list ((key * nat) * (bytes -> dres))) total :
  Forall (fun d => RestLe (snd d)) ds -> Exists (fun d => Lt (snd d)) ds ->
  forall acc v r, stag_decode_members ds total acc [] <> DOk v r.
Proof.
  intros H. induction H as [|[[k off] dec] ds Hd _ IH]; intros Hx acc v r; [inversion Hx|].
  cbn [stag_decode_members]. intros E. apply dbind_ok_inv in E as (v1 & r1 & E1 & E).
  assert (Hs : (if (total - length (@nil Z) <? off)%nat then skipn (off - (total - length (@nil Z))) (@nil Z) else @nil Z) = @nil Z)
    by (destruct (_ <? _)%nat; [apply skipn_nil|reflexivity]).
  rewrite Hs in E1. pose proof (rest_le_ok _ _ _ _ Hd E1) as Hl. destruct r1; [|cbn in Hl; lia].
  inversion Hx as [? ? Hh|? ? Ht]; subst.
  - apply Hh in E1. cbn in E1. lia.
  - exact (IH Ht _ _ _ E).
Qed.

Lemma stag_bits_nil bits acc : bits <> [] -> exists e, stag_decode_bits bits [] acc = Err e.
Proof. destruct bits as [|[name [off bit]] r]; [contradiction|]. intros _. cbn [stag_decode_bits]. destruct off; cbn [nth_error]; eauto. Qed.

Lemma structtag_Lt ds bits priv size :
  Forall (fun d => RestLe (snd d)) ds ->
  (0 < size)%nat -> (Exists (fun d => Lt (snd d)) ds \/ bits <> []) ->
  Lt (structtag_decode ds bits priv size).
Proof.
  intros Hle Hs Hp bs v r. unfold structtag_decode. intros E. apply dwrap_ok_inv in E.
  destruct (stag_decode_members ds (length (firstn size bs)) [] (firstn size bs)) as [v0 x|e|x|] eqn:Em; try discriminate.
  destruct v0; try discriminate.
  destruct (stag_decode_bits bits (firstn size bs) d) eqn:Eb; try discriminate. injection E as _ <-.
  destruct bs as [|b bs'].
  - exfalso. rewrite firstn_nil in *. destruct Hp as [Hp|Hp].
    + exact (stag_members_nil ds _ Hle Hp _ _ _ Em).
    + destruct (stag_bits_nil bits d Hp) as [e He]. congruence.
  - rewrite skipn_length. cbn [length]. lia.
Qed.

Theorem progress_lt : forall t, progress t = true -> forall fuel, Lt (decode_fuel fuel t).
Proof.
  induction t using ty_ind_nested; intros Hp fuel; cbn [progress] in Hp; try discriminate; cbn [decode_fuel].
  - apply shape_lt_Lt, bool_decode_lt.
  - apply shape_lt_Lt. intros bs. apply int_decode_lt.
  - apply shape_lt_Lt. intros bs. apply real_decode_lt.
  - apply shape_lt_Lt, datetime_decode_lt.
  - apply shape_lt_Lt. intros bs. apply str_decode_lt.
  - apply shape_lt_Lt, stringn_decode_lt.
  - apply shape_lt_Lt, stringi_decode_lt.
  - apply shape_lt_Lt. intros bs. apply nbytes_decode_lt.
  - apply shape_lt_Lt. intros bs. apply bits_decode_lt.
  - (* TArrFixed *)
    apply andb_prop in Hp as [Hn Hp]. destruct n as [|n]; [discriminate|].
    intros bs v r. unfold array_decode_fixed. intros E. apply dwrap_ok_inv in E.
    apply dbind_ok_inv in E as (vs & r1 & E1 & E).
    apply (decode_n_Lt _ n (decode_rest_le t fuel) (IHt Hp fuel)) in E1.
    destruct (is_instance t); [discriminate|]. destruct (is_bits t).
    + destruct vs; try discriminate. destruct (chain_vals l); try discriminate. injection E as _ <-. exact E1.
    + injection E as _ <-. exact E1.
  - (* TArrPrefix: never succeeds *)
    intros bs v r. unfold array_decode_prefix. intros E. apply dwrap_ok_inv in E. destruct inst; [|discriminate].
    apply dbind_ok_inv in E as (? & ? & _ & E). discriminate.
  - (* TStruct *)
    intros bs v r. unfold struct_decode, struct_decode_inner. intros E. apply dwrap_ok_inv in E.
    apply dbind_ok_inv in E as (v1 & r1 & E1 & E). apply dbind_ok_inv in E1 as (v2 & r2 & E2 & E1).
    apply struct_members_Lt in E2 as [_ E2].
    + assert (Hr : r1 = r2) by (destruct v2; try discriminate; now injection E1). subst r2.
      assert (Hr : r = r1).
      { destruct k; [now injection E| |]; destruct v1; try discriminate; destruct (identity_post d); try discriminate; now injection E. }
      subst r. apply E2.
      apply (Exists_map_snd progress Lt (decode_fuel fuel)); [|exact Hp].
      eapply Forall_impl; [|exact H]. intros m Hm Hpm. now apply Hm.
    + apply (Forall_map_snd (fun t => forall fuel, RestLe (decode_fuel fuel t)) RestLe (decode_fuel fuel)); auto.
      rewrite Forall_forall. intros m _ f. apply decode_rest_le.
  - apply shape_lt_Lt. intros bs. apply fixedstr_decode_lt.
  - (* TStructTag *)
    apply andb_prop in Hp as [Hs Hp]. apply structtag_Lt.
    + apply (Forall_map_snd (fun t => forall fuel, RestLe (decode_fuel fuel t)) RestLe (decode_fuel fuel)); auto.
      rewrite Forall_forall. intros m _ f. apply decode_rest_le.
    + apply Nat.ltb_lt in Hs. exact Hs.
    + apply orb_prop in Hp as [Hp|Hp].
      * left. apply (Exists_map_snd progress Lt (decode_fuel fuel)); [|exact Hp].
        eapply Forall_impl; [|exact H]. intros m Hm Hpm. now apply Hm.
      * right. destruct bits; [discriminate|discriminate].
  - apply shape_lt_Lt, ip_decode_lt.
  - apply shape_lt_Lt, pccc_string_decode_lt.
Qed.

(* ------------------------------------------------------------------ T4: termination of Array._decode_all *)
(* the decoder does not run out of fuel on buffers of at most L bytes *)
Definition NoFuel (L : nat) (dec : bytes -> dres) : Prop := forall bs, (length bs <= L)%nat -> dec bs <> DOutOfFuel.

Lemma shape_lt_NoFuel L dec : (forall bs, shape_lt bs (dec bs)) -> NoFuel L dec.
Proof. intros H bs _ E. specialize (H bs). now rewrite E in H. Qed.
Lemma shape_le_NoFuel L dec : (forall bs, shape_le bs (dec bs)) -> NoFuel L dec.
Proof. intros H bs _ E. specialize (H bs). now rewrite E in H. Qed.

Lemma decode_n_NoFuel L dec n : RestLe dec -> NoFuel L dec -> NoFuel L (decode_n dec n).
Proof.
  intros Hle Hnf. induction n as [|n IH]; intros bs Hl; cbn [decode_n]; [discriminate|].
  intros E. apply dbind_fuel_inv in E as [E|(v1 & r1 & E1 & E)]; [exact (Hnf bs Hl E)|].
  apply (rest_le_ok _ _ _ _ Hle) in E1.
  apply dbind_fuel_inv in E as [E|(vs & r2 & E2 & E)]; [apply (IH r1); [lia|exact E]|].
  destruct vs; discriminate.
Qed.

Lemma struct_members_NoFuel L (ds : list (key * (bytes -> dres))) :
  Forall (fun d => RestLe (snd d)) ds -> Forall (fun d => NoFuel L (snd d)) ds ->
  forall acc, NoFuel L (struct_decode_members ds acc).
Proof.
  intros Hle Hnf. induction Hle as [|[k dec] ds Hd _ IH]; intros acc bs Hl; cbn [struct_decode_members]; [discriminate|].
  inversion Hnf as [|? ? Hn Hnf']; subst. intros E.
  apply dbind_fuel_inv in E as [E|(v1 & r1 & E1 & E)]; [exact (Hn bs Hl E)|].
  apply (rest_le_ok _ _ _ _ Hd) in E1. eapply (IH Hnf'); [|exact E]. lia.
Qed.

Lemma stag_members_NoFuel L (ds : list ((key * nat) * (bytes -> dres))) total :
  Forall (fun d => RestLe (snd d)) ds -> Forall (fun d => NoFuel L (snd d)) ds ->
  forall acc, NoFuel L (stag_decode_members ds total acc).
Proof.
  intros Hle Hnf. induction Hle as [|[[k off] dec] ds Hd _ IH]; intros acc sub Hl; cbn [stag_decode_members]; [discriminate|].
  inversion Hnf as [|? ? Hn Hnf']; subst. intros E.
  set (sub1 := if (total - length sub <? off)%nat then skipn (off - (total - length sub)) sub else sub) in E.
  assert (H1 : (length sub1 <= length sub)%nat) by (unfold sub1; destruct (_ <? _)%nat; [rewrite skipn_length|]; lia).
  apply dbind_fuel_inv in E as [E|(v1 & r1 & E1 & E)]; [apply (Hn sub1); [lia|exact E]|].
  apply (rest_le_ok _ _ _ _ Hd) in E1. eapply (IH Hnf'); [|exact E]. lia.
Qed.

(* the loop: each successful element shortens the buffer, so [length bs + 1] rounds are enough *)
Lemma decode_all_NoFuel dec : Lt dec -> forall f bs, (length bs < f)%nat -> NoFuel (length bs) dec -> decode_all dec f bs <> DOutOfFuel.
Proof.
  intros Hlt. induction f as [|f IH]; intros bs Hl Hnf; [lia|]. cbn [decode_all].
  destruct (dec bs) as [v r1|e|r|] eqn:E1; try discriminate.
  - apply Hlt in E1. intros E. apply dbind_fuel_inv in E as [E|(vs & r2 & _ & E)].
    + apply (IH r1); [lia| |exact E]. intros bs' Hl'. apply Hnf. lia.
    + destruct vs; discriminate.
  - exfalso. exact (Hnf bs (le_n _) E1).
Qed.

Lemma stringi_items_NoFuel count bs ss ls cs : stringi_decode_items count bs ss ls cs <> DOutOfFuel.
Proof. intros E. pose proof (stringi_items_pre count bs ss ls cs) as H. now rewrite E in H. Qed.

Theorem decode_terminates : forall t, hprogress t = true ->
  forall fuel bs, (length bs < fuel)%nat -> decode_fuel fuel t bs <> DOutOfFuel.
Proof.
  intros t Hh fuel. cut ((0 < fuel)%nat -> NoFuel (fuel - 1) (decode_fuel fuel t)).
  { intros H bs Hl. apply H; lia. }
  intros Hf. revert Hh. induction t using ty_ind_nested; intros Hh; cbn [hprogress] in Hh; cbn [decode_fuel].
  - apply shape_lt_NoFuel, bool_decode_lt.
  - apply shape_lt_NoFuel. intros bs. apply int_decode_lt.
  - apply shape_lt_NoFuel. intros bs. apply real_decode_lt.
  - apply shape_lt_NoFuel, datetime_decode_lt.
  - apply shape_lt_NoFuel. intros bs. apply str_decode_lt.
  - apply shape_lt_NoFuel, stringn_decode_lt.
  - apply shape_lt_NoFuel, stringi_decode_lt.
  - apply shape_lt_NoFuel. intros bs. apply nbytes_decode_lt.
  - apply shape_lt_NoFuel. intros bs. apply bits_decode_lt.
  - (* TArrFixed *)
    intros bs Hl. unfold array_decode_fixed. intros E. apply dwrap_fuel_inv in E.
    apply dbind_fuel_inv in E as [E|(vs & r1 & _ & E)].
    + exact (decode_n_NoFuel _ _ n (decode_rest_le t fuel) (IHt Hh) bs Hl E).
    + destruct (is_instance t); [discriminate|]. destruct (is_bits t); [|discriminate].
      destruct vs; try discriminate. destruct (chain_vals l); discriminate.
  - (* TArrPrefix *)
    intros bs Hl. unfold array_decode_prefix. intros E. apply dwrap_fuel_inv in E. destruct inst; [|discriminate].
    apply dbind_fuel_inv in E as [E|(? & ? & _ & E)]; [|discriminate]. cbn in Hh. exact (IHt1 Hh bs Hl E).
  - (* TArrAll *)
    apply andb_prop in Hh as [Hp Hh]. intros bs Hl. unfold array_decode_all. intros E. apply dwrap_fuel_inv in E.
    revert E. apply decode_all_NoFuel.
    + apply progress_lt, Hp.
    + lia.
    + intros bs' Hl'. apply (IHt Hh). lia.
  - (* TStruct *)
    intros bs Hl. unfold struct_decode, struct_decode_inner. intros E. apply dwrap_fuel_inv in E.
    apply dbind_fuel_inv in E as [E|(v1 & r1 & _ & E)].
    + apply dbind_fuel_inv in E as [E|(v2 & r2 & _ & E)]; [|destruct v2; discriminate].
      revert E. apply (struct_members_NoFuel (fuel - 1)); [| |exact Hl].
      * apply (Forall_map_snd (fun t => forall fuel, RestLe (decode_fuel fuel t)) RestLe (decode_fuel fuel)); auto.
        rewrite Forall_forall. intros m _ f. apply decode_rest_le.
      * rewrite forallb_forall in Hh. rewrite Forall_forall in H. rewrite Forall_forall. intros d Hd.
        apply in_map_iff in Hd as (m & <- & Hm). cbn [snd]. apply (H m Hm), Hh, Hm.
    + destruct k; [discriminate| |]; destruct v1; try discriminate; destruct (identity_post d); discriminate.
  - apply shape_lt_NoFuel. intros bs. apply fixedstr_decode_lt.
  - (* TStructTag *)
    intros bs Hl. unfold structtag_decode. intros E. apply dwrap_fuel_inv in E.
    destruct (stag_decode_members _ _ _ _) as [v0 x|e|x|] eqn:Em; try discriminate.
    + destruct v0; try discriminate. destruct (stag_decode_bits bits (firstn size bs) d); discriminate.
    + revert Em. apply (stag_members_NoFuel (fuel - 1)).
      * apply (Forall_map_snd (fun t => forall fuel, RestLe (decode_fuel fuel t)) RestLe (decode_fuel fuel)); auto.
        rewrite Forall_forall. intros m _ f. apply decode_rest_le.
      * rewrite forallb_forall in Hh. rewrite Forall_forall in H. rewrite Forall_forall. intros d Hd.
        apply in_map_iff in Hd as (m & <- & Hm). cbn [snd]. apply (H m Hm), Hh, Hm.
      * rewrite firstn_length. lia.
  - apply shape_lt_NoFuel, ip_decode_lt.
  - apply shape_le_NoFuel, pccc_ascii_decode_le.
  - apply shape_lt_NoFuel, pccc_string_decode_lt.
Qed.

(* ------------------------------------------------------------------ T5: how a hang is exhibited *)
(* an element decoder that returns from the empty buffer without raising BufferEmptyError makes
   Array(None, T) spin: no amount of fuel is enough *)
Lemma decode_all_hangs dec v : dec [] = DOk v [] -> forall f, decode_all dec f [] = DOutOfFuel.
Proof. intros E. induction f as [|f IH]; cbn [decode_all]; [reflexivity|]. rewrite E, IH. reflexivity. Qed.

Theorem unbounded_array_hangs e :
  (forall fuel, exists v, decode_fuel fuel e [] = DOk v []) ->
  forall fuel, decode_fuel fuel (TArrAll e) [] = DOutOfFuel.
Proof.
  intros H fuel. cbn [decode_fuel]. unfold array_decode_all. destruct (H fuel) as [v Hv].
  now rewrite (decode_all_hangs _ v Hv).
Qed.
