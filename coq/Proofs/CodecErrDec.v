(* Proofs/CodecErrDec.v — C08, decode side: every decoder result is a value, DataError or
   BufferEmptyError; the unread rest is a suffix; types that make progress; termination of every
   decode (Array._decode_all stops when an element consumed nothing; Array(L, T) runs `count`
   element decodes, which end with the buffer when T makes progress). *)
From PV Require Import Base.Bytes Base.BytesLemmas Base.Res.
From PV Require Import Gen.Types Gen.CodecFacts Model.Codec.
From PV Require Import Proofs.CodecErrDefs Proofs.CodecErrBase.
From Coq Require Import ZifyBool.
Open Scope Z_scope.
Ltac Zify.zify_post_hook ::= Z.to_euclidean_division_equations.

(* ------------------------------------------------------------------ result shapes *)
(* [pre_*]: a decoder body (before DataType.decode's wrapper): the unread rest is no longer than
   the buffer ([pre_lt]: a success consumed a byte), no fuel is used *)
Definition pre_le (bs : bytes) (r : dres) : Prop :=
  match r with DOk _ x | DEmpty x => (length x <= length bs)%nat | DErr _ => True | DOutOfFuel => False end.
Definition pre_lt (bs : bytes) (r : dres) : Prop :=
  match r with DOk _ x => (length x < length bs)%nat | DEmpty x => (length x <= length bs)%nat | DErr _ => True | DOutOfFuel => False end.

Lemma pre_lt_le bs r : pre_lt bs r -> pre_le bs r.
Proof. destruct r; cbn; auto; lia. Qed.
Lemma pre_le_wrap bs r : pre_le bs r -> pre_le bs (dwrap r).
Proof. destruct r; cbn; auto. Qed.
Lemma pre_lt_wrap bs r : pre_lt bs r -> pre_lt bs (dwrap r).
Proof. destruct r; cbn; auto. Qed.
Lemma pre_le_mono bs bs' r : pre_le bs r -> (length bs <= length bs')%nat -> pre_le bs' r.
Proof. destruct r; cbn; auto; lia. Qed.
Lemma pre_le_rest bs r : pre_le bs r -> dres_rest_le bs r.
Proof. destruct r; cbn; auto. Qed.

Lemma dbind_pre_le bs r f :
  pre_le bs r -> (forall v r1, r = DOk v r1 -> pre_le r1 (f v r1)) -> pre_le bs (dbind r f).
Proof.
  intros Hr Hf. destruct r as [v r1| | |]; cbn in *; auto.
  specialize (Hf v r1 eq_refl). destruct (f v r1); cbn in *; auto; lia.
Qed.
Lemma dbind_pre_lt bs r f :
  pre_lt bs r -> (forall v r1, r = DOk v r1 -> pre_le r1 (f v r1)) -> pre_lt bs (dbind r f).
Proof.
  intros Hr Hf. destruct r as [v r1| | |]; cbn in *; auto.
  specialize (Hf v r1 eq_refl). destruct (f v r1); cbn in *; auto; lia.
Qed.
Lemma dbind_pre_le_lt bs r f :
  pre_le bs r -> (forall v r1, r = DOk v r1 -> pre_lt r1 (f v r1)) -> pre_lt bs (dbind r f).
Proof.
  intros Hr Hf. destruct r as [v r1| | |]; cbn in *; auto.
  specialize (Hf v r1 eq_refl). destruct (f v r1); cbn in *; auto; lia.
Qed.

Lemma stream_read_pre_le n bs k :
  (forall d r, bs = d ++ r -> pre_le r (k d r)) -> pre_le bs (stream_read n bs k).
Proof.
  intros Hk. destruct (stream_read_cases n bs k)
    as (d & r & Ht & [(-> & Hn & ->)|[(-> & Hn & ->)|[(Hd & Hl & ->)|(Hd & Hl & ->)]]]); try exact I.
  - apply stream_take_len in Ht. cbn in *. lia.
  - pose proof (stream_take_split _ _ _ _ Ht) as Hs. eapply pre_le_mono; [apply (Hk [] r Hs)|]. subst bs. cbn. lia.
  - pose proof (stream_take_split _ _ _ _ Ht) as Hs. eapply pre_le_mono; [apply (Hk d r Hs)|]. subst bs. rewrite app_length. lia.
Qed.
Lemma stream_read_pre_lt n bs k :
  n <> 0 -> (forall d r, bs = d ++ r -> pre_le r (k d r)) -> pre_lt bs (stream_read n bs k).
Proof.
  intros Hn0 Hk. destruct (stream_read_cases n bs k)
    as (d & r & Ht & [(-> & Hn & ->)|[(-> & Hn & ->)|[(Hd & Hl & ->)|(Hd & Hl & ->)]]]); try exact I.
  - apply stream_take_len in Ht. cbn in *. lia.
  - contradiction.
  - pose proof (stream_take_split _ _ _ _ Ht) as Hs. specialize (Hk d r Hs).
    assert (Hlt : (length r < length bs)%nat) by (subst bs; rewrite app_length; destruct d; [contradiction|cbn; lia]).
    destruct (k d r); cbn in *; auto; lia.
Qed.
Lemma text_result_pre enc data r2 :
  pre_le r2 (match text_decode enc data with Ok s => DOk (VStr s) r2 | Err e => DErr e end).
Proof. destruct (text_decode enc data); cbn; auto. Qed.

(* ---- leaves *)
Lemma int_decode_le sg w bs : pre_le bs (int_decode sg w bs).
Proof. pose proof (int_decode_shape sg w bs) as H. destruct (int_decode sg w bs); cbn; auto; [lia|]. destruct H as [-> _]. cbn. lia. Qed.
Lemma int_decode_lt sg w bs : (0 < w)%nat -> pre_lt bs (int_decode sg w bs).
Proof. intros Hw. pose proof (int_decode_shape sg w bs) as H. destruct (int_decode sg w bs); cbn; auto; [lia|]. destruct H as [-> _]. cbn. lia. Qed.
Lemma bool_decode_lt bs : pre_lt bs (bool_decode bs).
Proof. pose proof (bool_decode_shape bs) as H. destruct (bool_decode bs); cbn; auto; [lia|]. destruct H as [-> _]. cbn. lia. Qed.
Lemma real_decode_lt dbl bs : pre_lt bs (real_decode dbl bs).
Proof.
  pose proof (real_decode_shape dbl bs) as H. destruct (real_decode dbl bs); cbn; auto.
  - destruct dbl; lia.
  - destruct H as [-> _]. cbn. lia.
Qed.

Lemma str_decode_le lsg lw enc bs : pre_le bs (str_decode lsg lw enc bs).
Proof.
  unfold str_decode. apply pre_le_wrap. apply dbind_pre_le; [apply int_decode_le|].
  intros n r1 _. destruct (as_int n =? 0); [cbn; lia|].
  apply stream_read_pre_le. intros d r _. apply text_result_pre.
Qed.
Lemma str_decode_lt lsg lw enc bs : (0 < lw)%nat -> pre_lt bs (str_decode lsg lw enc bs).
Proof.
  intros Hw. unfold str_decode. apply pre_lt_wrap. apply dbind_pre_lt; [now apply int_decode_lt|].
  intros n r1 _. destruct (as_int n =? 0); [cbn; lia|].
  apply stream_read_pre_le. intros d r _. apply text_result_pre.
Qed.

Lemma stringn_decode_lt bs : pre_lt bs (stringn_decode bs).
Proof.
  unfold stringn_decode. rewrite named_UINT_decode. apply pre_lt_wrap.
  apply dbind_pre_lt; [apply int_decode_lt; lia|]. intros cs r1 _.
  apply dbind_pre_le; [apply int_decode_le|]. intros cnt r2 _.
  destruct (stringn_enc (as_int cs)); [|cbn; auto].
  destruct (as_int cnt =? 0); [cbn; lia|].
  apply stream_read_pre_le. intros d r _. apply text_result_pre.
Qed.

Lemma datetime_decode_lt bs : pre_lt bs (datetime_decode bs).
Proof.
  unfold datetime_decode. rewrite named_UDINT_decode, named_UINT_decode. apply pre_lt_wrap.
  apply dbind_pre_lt; [apply int_decode_lt; lia|]. intros t r1 _.
  apply dbind_pre_le; [apply int_decode_le|]. intros d r2 _. cbn. lia.
Qed.

Lemma nbytes_decode_le n bs : pre_le bs (nbytes_decode n bs).
Proof. unfold nbytes_decode. apply pre_le_wrap, stream_read_pre_le. intros d r _. cbn. lia. Qed.
Lemma nbytes_decode_lt n bs : n <> 0 -> pre_lt bs (nbytes_decode n bs).
Proof. intros Hn. unfold nbytes_decode. apply pre_lt_wrap, stream_read_pre_lt; [exact Hn|]. intros d r _. cbn. lia. Qed.

Lemma bits_decode_le w bs : pre_le bs (bits_decode w bs).
Proof. unfold bits_decode. apply pre_le_wrap. apply dbind_pre_le; [apply int_decode_le|]. intros v r _. cbn. lia. Qed.
Lemma bits_decode_lt w bs : (0 < w)%nat -> pre_lt bs (bits_decode w bs).
Proof. intros Hw. unfold bits_decode. apply pre_lt_wrap. apply dbind_pre_lt; [now apply int_decode_lt|]. intros v r _. cbn. lia. Qed.

Lemma fixedstr_decode_le size lsg lw bs : pre_le bs (fixedstr_decode size lsg lw bs).
Proof.
  unfold fixedstr_decode. destruct fss_enc; [|cbn; auto]. apply pre_le_wrap.
  apply dbind_pre_le; [apply int_decode_le|]. intros n r1 _.
  apply stream_read_pre_le. intros d r _. apply text_result_pre.
Qed.
Lemma fixedstr_decode_lt size lsg lw bs : (0 < lw)%nat \/ (0 < size)%nat -> pre_lt bs (fixedstr_decode size lsg lw bs).
Proof.
  intros H. unfold fixedstr_decode. destruct fss_enc; [|cbn; auto]. apply pre_lt_wrap. destruct H as [H|H].
  - apply dbind_pre_lt; [now apply int_decode_lt|]. intros n r1 _.
    apply stream_read_pre_le. intros d r _. apply text_result_pre.
  - apply dbind_pre_le_lt; [apply int_decode_le|]. intros n r1 _.
    apply stream_read_pre_lt; [lia|]. intros d r _. apply text_result_pre.
Qed.

Lemma ip_decode_lt bs : pre_lt bs (ip_decode bs).
Proof.
  unfold ip_decode. apply pre_lt_wrap, stream_read_pre_lt; [lia|]. intros d r _.
  destruct d as [|a [|b [|c [|d' [|? ?]]]]]; cbn; auto.
Qed.

Lemma pccc_string_decode_lt bs : pre_lt bs (pccc_string_decode bs).
Proof.
  unfold pccc_string_decode. destruct pccc_string_enc; [|cbn; auto]. rewrite named_UINT_decode.
  apply pre_lt_wrap. apply dbind_pre_lt; [apply int_decode_lt; lia|]. intros n r1 _.
  destruct (stream_take 82 r1) as [d r2] eqn:Ht. apply stream_take_len in Ht.
  destruct (slc_swap d); [|cbn; auto].
  eapply pre_le_mono; [apply text_result_pre|lia].
Qed.

Lemma pccc_ascii_decode_lt bs : pre_lt bs (pccc_ascii_decode bs).
Proof.
  unfold pccc_ascii_decode. destruct pccc_ascii_enc; [|cbn; auto]. apply pre_lt_wrap.
  apply stream_read_pre_lt; [lia|]. intros d r _. destruct (slc_swap d); [|cbn; auto]. apply text_result_pre.
Qed.

(* the string classes STRINGI names (any other class: the model's marker error) *)
Lemma named_decode_pre n bs : pre_le bs (named_decode n bs).
Proof.
  unfold named_decode.
  destruct (ty_of_name n) as [[]|]; cbn; auto; first [apply str_decode_le | apply pre_lt_le, stringn_decode_lt].
Qed.

(* ------------------------------------------------------------------ inversion of dwrap / dbind *)
Lemma dwrap_ok_inv r v x : dwrap r = DOk v x -> r = DOk v x.
Proof. apply dwrap_ok. Qed.
Lemma dwrap_empty_inv r x : dwrap r = DEmpty x -> r = DEmpty x.
Proof. apply dwrap_empty. Qed.
Lemma dwrap_fuel_inv r : dwrap r = DOutOfFuel -> r = DOutOfFuel.
Proof. apply dwrap_fuel. Qed.
Lemma dbind_ok_inv r f v x : dbind r f = DOk v x -> exists v1 r1, r = DOk v1 r1 /\ f v1 r1 = DOk v x.
Proof. destruct r; cbn; intros H; try discriminate. eauto. Qed.
Lemma dbind_empty_inv r f x :
  dbind r f = DEmpty x -> r = DEmpty x \/ exists v1 r1, r = DOk v1 r1 /\ f v1 r1 = DEmpty x.
Proof. destruct r; cbn; intros H; try discriminate; eauto. Qed.
Lemma dbind_fuel_inv r f :
  dbind r f = DOutOfFuel -> r = DOutOfFuel \/ exists v1 r1, r = DOk v1 r1 /\ f v1 r1 = DOutOfFuel.
Proof. destruct r; cbn; intros H; try discriminate; eauto. Qed.

Lemma dbind_rest_le bs r f :
  dres_rest_le bs r -> (forall v r1, r = DOk v r1 -> dres_rest_le r1 (f v r1)) -> dres_rest_le bs (dbind r f).
Proof.
  intros Hr Hf. destruct r as [v r1| | |]; cbn in *; auto.
  specialize (Hf v r1 eq_refl). destruct (f v r1); cbn in *; auto; lia.
Qed.
Lemma dres_rest_le_mono bs bs' r : dres_rest_le bs r -> (length bs <= length bs')%nat -> dres_rest_le bs' r.
Proof. destruct r; cbn; auto; lia. Qed.

(* the tail of Array.decode keeps the rest *)
Lemma array_flatten_ok_inv b vs r v x : array_flatten b vs r = DOk v x -> x = r.
Proof.
  unfold array_flatten. destruct b; [|intros H; now injection H].
  destruct vs; try discriminate. destruct (chain_vals l); try discriminate. intros H. now injection H.
Qed.
Lemma array_flatten_not_empty b vs r x : array_flatten b vs r <> DEmpty x.
Proof. unfold array_flatten. destruct b; [|discriminate]. destruct vs; try discriminate. destruct (chain_vals l); discriminate. Qed.
Lemma array_flatten_not_fuel b vs r : array_flatten b vs r <> DOutOfFuel.
Proof. unfold array_flatten. destruct b; [|discriminate]. destruct vs; try discriminate. destruct (chain_vals l); discriminate. Qed.
Lemma array_flatten_rest_le b vs r : dres_rest_le r (array_flatten b vs r).
Proof. unfold array_flatten. destruct b; [|cbn; lia]. destruct vs; cbn; auto. destruct (chain_vals l); cbn; auto. Qed.

(* ------------------------------------------------------------------ T1: library results only *)
(* every public decode is wrapped: a foreign exception never escapes *)
Theorem decode_lib fuel t bs e : decode_fuel fuel t bs = DErr e -> e = DataError.
Proof.
  destruct t; cbn [decode_fuel];
    unfold bool_decode, int_decode, real_decode, elem_decode, datetime_decode, str_decode, stringn_decode, stringi_decode,
      nbytes_decode, bits_decode, array_decode_fixed, array_decode_prefix, array_decode_all, struct_decode,
      fixedstr_decode, structtag_decode, ip_decode, pccc_ascii_decode, pccc_string_decode;
    apply dwrap_err.          (* also through the Gen-given encodings of FixedSizeString / PCCC types *)
Qed.

(* ------------------------------------------------------------------ T2: the unread rest is never longer *)
Definition RestLe (dec : bytes -> dres) : Prop := forall bs, dres_rest_le bs (dec bs).

Lemma decode_n_rest_le dec n : RestLe dec -> RestLe (decode_n dec n).
Proof.
  intros Hd. induction n as [|n IH]; intros bs; cbn [decode_n]; [cbn; lia|].
  apply dbind_rest_le; [apply Hd|]. intros v r1 _.
  apply dbind_rest_le; [apply IH|]. intros vs r2 _. destruct vs; cbn; auto.
Qed.

Lemma decode_all_rest_le dec fuel : RestLe dec -> RestLe (decode_all dec fuel).
Proof.
  intros Hd. induction fuel as [|f IH]; intros bs; cbn [decode_all]; [exact I|].
  pose proof (Hd bs) as H. destruct (dec bs) as [v r1|e|r|]; cbn in *; auto.
  destruct (length r1 =? length bs)%nat; [cbn; lia|].
  eapply dres_rest_le_mono with (bs := r1); [|exact H].
  apply dbind_rest_le; [apply IH|]. intros vs r2 _. destruct vs; cbn; auto.
Qed.

Lemma struct_members_rest_le (ds : list (key * (bytes -> dres))) :
  Forall (fun d => RestLe (snd d)) ds -> forall acc, RestLe (struct_decode_members ds acc).
Proof.
  intros H. induction H as [|[k dec] ds Hd _ IH]; intros acc bs; cbn [struct_decode_members]; [cbn; lia|].
  apply dbind_rest_le; [apply Hd|]. intros v r1 _. apply IH.
Qed.

Lemma stringi_items_pre count : forall bs ss ls cs, pre_le bs (stringi_decode_items count bs ss ls cs).
Proof.
  induction count as [|c IH]; intros bs ss ls cs; cbn [stringi_decode_items]; [cbn; lia|].
  destruct (stream_take 3 bs) as [l3 r1] eqn:Ht. apply stream_take_len in Ht.
  pose proof (named_decode_pre n_SHORT_STRING (3 :: l3)) as Hn.
  destruct (named_decode n_SHORT_STRING (3 :: l3)) as [lang x|e|x|]; cbn [pre_le] in Hn; try contradiction.
  - destruct r1 as [|code r2]; [exact I|].
    destruct (zlookup stringi_string_types code) as [tn|]; [|exact I].
    rewrite named_UINT_decode.
    eapply pre_le_mono with (bs := r2); [|cbn [length] in *; lia].
    apply dbind_pre_le; [apply int_decode_le|]. intros chs r3 _.
    apply dbind_pre_le; [apply named_decode_pre|]. intros s r4 _. apply IH.
  - exact I.
  - cbn [pre_le]. lia.
Qed.

Lemma stringi_decode_lt bs : pre_lt bs (stringi_decode bs).
Proof.
  unfold stringi_decode. rewrite named_USINT_decode. apply pre_lt_wrap.
  apply dbind_pre_lt; [apply int_decode_lt; lia|]. intros c r1 _. apply stringi_items_pre.
Qed.

Lemma structtag_rest_le ds bits priv size : RestLe (structtag_decode ds bits priv size).
Proof.
  intros bs. unfold structtag_decode. apply dwrap_rest_le.
  assert (Hs : (length (skipn size bs) <= length bs)%nat) by (rewrite skipn_length; lia).
  destruct (negb _ && _); [exact I|].
  destruct (stag_decode_members ds [] (firstn size bs)) as [v x|e|x|]; cbn; auto.
  destruct v; cbn; auto. destruct (stag_decode_bits bits (firstn size bs) d); cbn; auto.
Qed.

Lemma array_prefix_rest_le b declen dec : RestLe declen -> RestLe dec -> RestLe (array_decode_prefix b declen dec).
Proof.
  intros Hl Hd bs. unfold array_decode_prefix. apply dwrap_rest_le. apply dbind_rest_le; [apply Hl|].
  intros n r1 _. destruct (match n with VInt z => Some z | VBool b0 => Some (if b0 then 1 else 0) | _ => None end) as [z|]; [|exact I].
  pose proof (decode_n_rest_le dec (Z.to_nat (Z.min z count_limit)) Hd r1) as H.
  destruct (decode_n dec _ r1) as [vs r2|e|x|]; cbn in H |- *; auto.
  destruct (count_limit <? z); [exact I|]. eapply dres_rest_le_mono; [apply array_flatten_rest_le|exact H].
Qed.

Theorem decode_rest_le : forall t fuel, RestLe (decode_fuel fuel t).
Proof.
  induction t using ty_ind_nested; intros fuel bs; cbn [decode_fuel].
  - apply pre_le_rest, pre_lt_le, bool_decode_lt.
  - apply pre_le_rest, int_decode_le.
  - apply pre_le_rest, pre_lt_le, real_decode_lt.
  - apply pre_le_rest, pre_lt_le, datetime_decode_lt.
  - apply pre_le_rest, str_decode_le.
  - apply pre_le_rest, pre_lt_le, stringn_decode_lt.
  - apply pre_le_rest, pre_lt_le, stringi_decode_lt.
  - apply pre_le_rest, nbytes_decode_le.
  - apply pre_le_rest, bits_decode_le.
  - (* TArrFixed *)
    unfold array_decode_fixed. apply dwrap_rest_le. apply dbind_rest_le; [apply decode_n_rest_le, IHt|].
    intros vs rest _. apply array_flatten_rest_le.
  - (* TArrPrefix *) apply array_prefix_rest_le; [apply IHt1|apply IHt2].
  - (* TArrAll *)
    unfold array_decode_all. apply dwrap_rest_le. apply dbind_rest_le; [apply decode_all_rest_le, IHt|].
    intros vs rest _. apply array_flatten_rest_le.
  - (* TStruct *)
    unfold struct_decode, struct_decode_inner. apply dwrap_rest_le.
    apply dbind_rest_le.
    + apply dbind_rest_le.
      * apply struct_members_rest_le.
        apply (Forall_map_snd (fun t => forall fuel, RestLe (decode_fuel fuel t)) RestLe (decode_fuel fuel)); auto.
      * intros v r _. destruct v; cbn; auto.
    + intros v r _. destruct k; [cbn; lia| |]; destruct v; cbn; auto; destruct (identity_post d); cbn; auto.
  - apply pre_le_rest, fixedstr_decode_le.
  - apply structtag_rest_le.
  - apply pre_le_rest, pre_lt_le, ip_decode_lt.
  - apply pre_le_rest, pre_lt_le, pccc_ascii_decode_lt.
  - apply pre_le_rest, pre_lt_le, pccc_string_decode_lt.
Qed.

(* ------------------------------------------------------------------ T3: types that make progress *)
Definition Lt (dec : bytes -> dres) : Prop := forall bs v r, dec bs = DOk v r -> (length r < length bs)%nat.

Lemma pre_lt_Lt dec : (forall bs, pre_lt bs (dec bs)) -> Lt dec.
Proof. intros H bs v r E. specialize (H bs). now rewrite E in H. Qed.

Lemma rest_le_ok dec bs v r : RestLe dec -> dec bs = DOk v r -> (length r <= length bs)%nat.
Proof. intros H E. specialize (H bs). now rewrite E in H. Qed.

Lemma decode_n_ok_le dec n : RestLe dec -> forall bs v r, decode_n dec n bs = DOk v r -> (length r <= length bs)%nat.
Proof. intros H bs v r. apply rest_le_ok. now apply decode_n_rest_le. Qed.

Lemma decode_n_Lt dec n : RestLe dec -> Lt dec -> Lt (decode_n dec (S n)).
Proof.
  intros Hle Hlt bs v r. cbn [decode_n]. intros H.
  apply dbind_ok_inv in H as (v1 & r1 & E1 & H). apply dbind_ok_inv in H as (vs & r2 & E2 & H).
  apply Hlt in E1. apply decode_n_ok_le in E2; [|assumption].
  destruct vs; try discriminate. injection H as _ <-. lia.
Qed.

(* n successful decodes of an element that makes progress consume at least n bytes *)
Lemma decode_n_count dec n : Lt dec -> forall bs v r, decode_n dec n bs = DOk v r -> (n + length r <= length bs)%nat.
Proof.
  intros Hlt. induction n as [|n IH]; intros bs v r; cbn [decode_n].
  - intros H. injection H as _ <-. lia.
  - intros H. apply dbind_ok_inv in H as (v1 & r1 & E1 & H). apply dbind_ok_inv in H as (vs & r2 & E2 & H).
    apply Hlt in E1. apply IH in E2. destruct vs; try discriminate. injection H as _ <-. lia.
Qed.

Lemma struct_members_Lt (ds : list (key * (bytes -> dres))) :
  Forall (fun d => RestLe (snd d)) ds ->
  forall acc bs v r, struct_decode_members ds acc bs = DOk v r ->
    (length r <= length bs)%nat /\ (Exists (fun d => Lt (snd d)) ds -> (length r < length bs)%nat).
Proof.
  intros H. induction H as [|[k dec] ds Hd _ IH]; intros acc bs v r; cbn [struct_decode_members].
  - intros E. injection E as _ <-. split; [lia|]. intros Hx. inversion Hx.
  - intros E. apply dbind_ok_inv in E as (v1 & r1 & E1 & E).
    pose proof (rest_le_ok _ _ _ _ Hd E1) as H1. apply IH in E as [H2 H3]. split; [lia|].
    intros Hx. inversion Hx as [? ? Hh|? ? Ht]; subst.
    + apply Hh in E1. lia.
    + specialize (H3 Ht). lia.
Qed.

Lemma Exists_map_snd {K T D} (P : T -> bool) (Q : D -> Prop) (f : T -> D) (ms : list (K * T)) :
  Forall (fun m => P (snd m) = true -> Q (f (snd m))) ms ->
  existsb (fun m => P (snd m)) ms = true -> Exists (fun d => Q (snd d)) (map (fun m => (fst m, f (snd m))) ms).
Proof.
  intros H. induction H as [|m ms Hm _ IH]; cbn [existsb map]; [discriminate|].
  intros E. apply orb_prop in E as [E|E]; [left; cbn [snd]; auto|right; auto].
Qed.

(* StructTag members decode from the private sub-stream after a seek: on an empty one a member
   that makes progress cannot succeed *)
Lemma stag_members_nil (ds : list ((key * nat) * (bytes -> dres))) :
  Exists (fun d => Lt (snd d)) ds -> forall acc v r, stag_decode_members ds acc [] <> DOk v r.
Proof.
  induction ds as [|[[k off] dec] ds IH]; intros Hx acc v r; [inversion Hx|].
  cbn [stag_decode_members]. rewrite skipn_nil. intros E. apply dbind_ok_inv in E as (v1 & r1 & E1 & E).
  inversion Hx as [? ? Hh|? ? Ht]; subst.
  - apply Hh in E1. cbn in E1. lia.
  - exact (IH Ht _ _ _ E).
Qed.

Lemma stag_bits_nil bits acc : bits <> [] -> exists e, stag_decode_bits bits [] acc = Err e.
Proof. destruct bits as [|[name [off bit]] r]; [contradiction|]. intros _. cbn [stag_decode_bits]. destruct off; cbn [nth_error]; eauto. Qed.

Lemma structtag_Lt ds bits priv size :
  (0 < size)%nat -> (Exists (fun d => Lt (snd d)) ds \/ bits <> []) ->
  Lt (structtag_decode ds bits priv size).
Proof.
  intros Hs Hp bs v r. unfold structtag_decode. intros E. apply dwrap_ok_inv in E.
  destruct (negb _ && _); [discriminate|].
  destruct (stag_decode_members ds [] (firstn size bs)) as [v0 x|e|x|] eqn:Em; try discriminate.
  destruct v0; try discriminate.
  destruct (stag_decode_bits bits (firstn size bs) d) eqn:Eb; try discriminate. injection E as _ <-.
  destruct bs as [|b bs'].
  - exfalso. rewrite firstn_nil in *. destruct Hp as [Hp|Hp].
    + exact (stag_members_nil ds Hp _ _ _ Em).
    + destruct (stag_bits_nil bits d Hp) as [e He]. congruence.
  - rewrite skipn_length. cbn [length]. lia.
Qed.

Theorem progress_lt : forall t, progress t = true -> forall fuel, Lt (decode_fuel fuel t).
Proof.
  induction t using ty_ind_nested; intros Hp fuel; cbn [progress] in Hp; try discriminate; cbn [decode_fuel].
  - apply pre_lt_Lt, bool_decode_lt.
  - apply pre_lt_Lt. intros bs. apply int_decode_lt. now apply Nat.ltb_lt.
  - apply pre_lt_Lt. intros bs. apply real_decode_lt.
  - apply pre_lt_Lt, datetime_decode_lt.
  - apply pre_lt_Lt. intros bs. apply str_decode_lt. now apply Nat.ltb_lt.
  - apply pre_lt_Lt, stringn_decode_lt.
  - apply pre_lt_Lt, stringi_decode_lt.
  - apply pre_lt_Lt. intros bs. apply nbytes_decode_lt. apply negb_true_iff in Hp. lia.
  - apply pre_lt_Lt. intros bs. apply bits_decode_lt. now apply Nat.ltb_lt.
  - (* TArrFixed *)
    apply andb_prop in Hp as [Hn Hp]. destruct n as [|n]; [discriminate|].
    intros bs v r. unfold array_decode_fixed. intros E. apply dwrap_ok_inv in E.
    apply dbind_ok_inv in E as (vs & r1 & E1 & E).
    apply (decode_n_Lt _ n (decode_rest_le t fuel) (IHt Hp fuel)) in E1.
    apply array_flatten_ok_inv in E. now subst.
  - (* TArrPrefix: the length decoder makes progress *)
    intros bs v r. unfold array_decode_prefix. intros E. apply dwrap_ok_inv in E.
    apply dbind_ok_inv in E as (n & r1 & E1 & E). apply (IHt1 Hp fuel) in E1.
    destruct (match n with VInt z => Some z | VBool b0 => Some (if b0 then 1 else 0) | _ => None end) as [z|]; [|discriminate].
    destruct (decode_n (decode_fuel fuel t2) _ r1) as [vs r2|e|x|] eqn:E2; try discriminate.
    apply (decode_n_ok_le _ _ (decode_rest_le t2 fuel)) in E2.
    destruct (count_limit <? z); [discriminate|]. apply array_flatten_ok_inv in E. subst. lia.
  - (* TStruct *)
    intros bs v r. unfold struct_decode, struct_decode_inner. intros E. apply dwrap_ok_inv in E.
    apply dbind_ok_inv in E as (v1 & r1 & E1 & E). apply dbind_ok_inv in E1 as (v2 & r2 & E2 & E1).
    apply struct_members_Lt in E2 as [_ E2].
    + assert (Hr : r1 = r2) by (destruct v2; try discriminate; now injection E1). subst r2.
      assert (Hr : r = r1).
      { destruct k; [now injection E| |]; destruct v1; try discriminate; destruct (identity_post d); try discriminate; now injection E. }
      subst r. apply E2.
      apply (Exists_map_snd progress Lt (decode_fuel fuel)); [|exact Hp].
      eapply Forall_impl; [|exact H]. intros m Hm Hpm. now apply Hm.
    + apply (Forall_map_snd (fun t => forall fuel, RestLe (decode_fuel fuel t)) RestLe (decode_fuel fuel)); auto.
      rewrite Forall_forall. intros m _ f. apply decode_rest_le.
  - apply pre_lt_Lt. intros bs. apply fixedstr_decode_lt.
    apply orb_prop in Hp as [Hp|Hp]; [left|right]; now apply Nat.ltb_lt.
  - (* TStructTag *)
    apply andb_prop in Hp as [Hs Hp]. apply structtag_Lt.
    + apply Nat.ltb_lt in Hs. exact Hs.
    + apply orb_prop in Hp as [Hp|Hp].
      * left. apply (Exists_map_snd progress Lt (decode_fuel fuel)); [|exact Hp].
        eapply Forall_impl; [|exact H]. intros m Hm Hpm. now apply Hm.
      * right. destruct bits; [discriminate|discriminate].
  - apply pre_lt_Lt, ip_decode_lt.
  - apply pre_lt_Lt, pccc_ascii_decode_lt.
  - apply pre_lt_Lt, pccc_string_decode_lt.
Qed.

(* ------------------------------------------------------------------ T4: termination *)
(* the decoder does not run out of fuel on buffers of at most L bytes *)
Definition NoFuel (L : nat) (dec : bytes -> dres) : Prop := forall bs, (length bs <= L)%nat -> dec bs <> DOutOfFuel.

Lemma pre_lt_NoFuel L dec : (forall bs, pre_lt bs (dec bs)) -> NoFuel L dec.
Proof. intros H bs _ E. specialize (H bs). now rewrite E in H. Qed.
Lemma pre_le_NoFuel L dec : (forall bs, pre_le bs (dec bs)) -> NoFuel L dec.
Proof. intros H bs _ E. specialize (H bs). now rewrite E in H. Qed.

Lemma decode_n_NoFuel L dec n : RestLe dec -> NoFuel L dec -> NoFuel L (decode_n dec n).
Proof.
  intros Hle Hnf. induction n as [|n IH]; intros bs Hl; cbn [decode_n]; [discriminate|].
  intros E. apply dbind_fuel_inv in E as [E|(v1 & r1 & E1 & E)]; [exact (Hnf bs Hl E)|].
  apply (rest_le_ok _ _ _ _ Hle) in E1.
  apply dbind_fuel_inv in E as [E|(vs & r2 & E2 & E)]; [apply (IH r1); [lia|exact E]|].
  destruct vs; discriminate.
Qed.

Lemma struct_members_NoFuel L (ds : list (key * (bytes -> dres))) :
  Forall (fun d => RestLe (snd d)) ds -> Forall (fun d => NoFuel L (snd d)) ds ->
  forall acc, NoFuel L (struct_decode_members ds acc).
Proof.
  intros Hle Hnf. induction Hle as [|[k dec] ds Hd _ IH]; intros acc bs Hl; cbn [struct_decode_members]; [discriminate|].
  inversion Hnf as [|? ? Hn Hnf']; subst. intros E.
  apply dbind_fuel_inv in E as [E|(v1 & r1 & E1 & E)]; [exact (Hn bs Hl E)|].
  apply (rest_le_ok _ _ _ _ Hd) in E1. eapply (IH Hnf'); [|exact E]. lia.
Qed.

Lemma stag_members_NoFuel L (ds : list ((key * nat) * (bytes -> dres))) :
  Forall (fun d => NoFuel L (snd d)) ds ->
  forall acc, NoFuel L (stag_decode_members ds acc).
Proof.
  intros Hnf. induction Hnf as [|[[k off] dec] ds Hn _ IH]; intros acc raw Hl; cbn [stag_decode_members]; [discriminate|].
  intros E. apply dbind_fuel_inv in E as [E|(v1 & r1 & E1 & E)].
  - apply (Hn (skipn off raw)); [rewrite skipn_length; lia|exact E].
  - exact (IH _ raw Hl E).
Qed.

(* the loop: each round either shortens the buffer or ends, so [length bs + 1] rounds are enough —
   whatever the element type *)
Lemma decode_all_NoFuel dec : RestLe dec -> forall f bs, (length bs < f)%nat -> NoFuel (length bs) dec -> decode_all dec f bs <> DOutOfFuel.
Proof.
  intros Hle. induction f as [|f IH]; intros bs Hl Hnf; [lia|]. cbn [decode_all].
  destruct (dec bs) as [v r1|e|r|] eqn:E1; try discriminate.
  - destruct (length r1 =? length bs)%nat eqn:En; [discriminate|]. apply Nat.eqb_neq in En.
    apply (rest_le_ok _ _ _ _ Hle) in E1. intros E. apply dbind_fuel_inv in E as [E|(vs & r2 & _ & E)].
    + apply (IH r1); [lia| |exact E]. intros bs' Hl'. apply Hnf. lia.
    + destruct vs; discriminate.
  - exfalso. exact (Hnf bs (le_n _) E1).
Qed.

Lemma stringi_items_NoFuel count bs ss ls cs : stringi_decode_items count bs ss ls cs <> DOutOfFuel.
Proof. intros E. pose proof (stringi_items_pre count bs ss ls cs) as H. now rewrite E in H. Qed.

(* [L]: the buffers considered; a length-prefixed array inside the type needs L below the model's
   [count_limit] (the bound of the loop the model runs for one `range(count)`) *)
Theorem decode_terminates : forall t, hprogress t = true ->
  forall fuel bs, (length bs < fuel)%nat -> (has_prefix t = true -> Z.of_nat (length bs) < count_limit) ->
  decode_fuel fuel t bs <> DOutOfFuel.
Proof.
  intros t Hh fuel bs0 Hl0 Hc0.
  set (L := length bs0).
  cut (NoFuel L (decode_fuel fuel t)); [intros H; apply H; unfold L; lia|].
  assert (Hf : (L < fuel)%nat) by (unfold L; lia).
  assert (Hc : has_prefix t = true -> Z.of_nat L < count_limit) by exact Hc0.
  clearbody L. clear Hl0 Hc0 bs0. revert Hh Hc.
  induction t using ty_ind_nested; intros Hh Hc; cbn [hprogress] in Hh; cbn [has_prefix] in Hc; cbn [decode_fuel].
  - apply pre_lt_NoFuel, bool_decode_lt.
  - apply pre_le_NoFuel. intros bs. apply int_decode_le.
  - apply pre_lt_NoFuel. intros bs. apply real_decode_lt.
  - apply pre_lt_NoFuel, datetime_decode_lt.
  - apply pre_le_NoFuel. intros bs. apply str_decode_le.
  - apply pre_lt_NoFuel, stringn_decode_lt.
  - apply pre_lt_NoFuel, stringi_decode_lt.
  - apply pre_le_NoFuel. intros bs. apply nbytes_decode_le.
  - apply pre_le_NoFuel. intros bs. apply bits_decode_le.
  - (* TArrFixed *)
    intros bs Hl. unfold array_decode_fixed. intros E. apply dwrap_fuel_inv in E.
    apply dbind_fuel_inv in E as [E|(vs & r1 & _ & E)].
    + exact (decode_n_NoFuel _ _ n (decode_rest_le t fuel) (IHt Hh Hc) bs Hl E).
    + exact (array_flatten_not_fuel _ _ _ E).
  - (* TArrPrefix *)
    apply andb_prop in Hh as [Hh Hh2]. apply andb_prop in Hh as [Hp Hh1].
    intros bs Hl. unfold array_decode_prefix. intros E. apply dwrap_fuel_inv in E.
    apply dbind_fuel_inv in E as [E|(n & r1 & E1 & E)].
    + refine (IHt1 Hh1 _ bs Hl E). intros _. now apply Hc.
    + apply (rest_le_ok _ _ _ _ (decode_rest_le t1 fuel)) in E1.
      destruct (match n with VInt z => Some z | VBool b0 => Some (if b0 then 1 else 0) | _ => None end) as [z|]; [|discriminate].
      destruct (decode_n (decode_fuel fuel t2) (Z.to_nat (Z.min z count_limit)) r1) as [vs r2|e|x|] eqn:E2; try discriminate.
      * destruct (count_limit <? z) eqn:Ez; [|exact (array_flatten_not_fuel _ _ _ E)].
        (* more than count_limit elements that make progress cannot all decode from a shorter buffer *)
        apply (decode_n_count _ _ (progress_lt t2 Hp fuel)) in E2. specialize (Hc eq_refl). unfold count_limit in *. lia.
      * refine (decode_n_NoFuel L _ _ (decode_rest_le t2 fuel) (IHt2 Hh2 _) r1 _ E2); [intros _; now apply Hc|lia].
  - (* TArrAll *)
    intros bs Hl. unfold array_decode_all. intros E. apply dwrap_fuel_inv in E.
    apply dbind_fuel_inv in E as [E|(vs & r1 & _ & E)]; [|exact (array_flatten_not_fuel _ _ _ E)].
    revert E. apply decode_all_NoFuel.
    + apply decode_rest_le.
    + lia.
    + intros bs' Hl'. apply (IHt Hh Hc). lia.
  - (* TStruct *)
    intros bs Hl. unfold struct_decode, struct_decode_inner. intros E. apply dwrap_fuel_inv in E.
    apply dbind_fuel_inv in E as [E|(v1 & r1 & _ & E)].
    + apply dbind_fuel_inv in E as [E|(v2 & r2 & _ & E)]; [|destruct v2; discriminate].
      revert E. apply (struct_members_NoFuel L); [| |exact Hl].
      * apply (Forall_map_snd (fun t => forall fuel, RestLe (decode_fuel fuel t)) RestLe (decode_fuel fuel)); auto.
        rewrite Forall_forall. intros m _ f. apply decode_rest_le.
      * rewrite forallb_forall in Hh. rewrite Forall_forall in H. rewrite Forall_forall. intros d Hd.
        apply in_map_iff in Hd as (m & <- & Hm). cbn [snd]. apply (H m Hm); [apply Hh, Hm|].
        intros Hpm. apply Hc. apply existsb_exists. eauto.
    + destruct k; [discriminate| |]; destruct v1; try discriminate; destruct (identity_post d); discriminate.
  - apply pre_le_NoFuel. intros bs. apply fixedstr_decode_le.
  - (* TStructTag *)
    intros bs Hl. unfold structtag_decode. intros E. apply dwrap_fuel_inv in E.
    destruct (negb _ && _); [discriminate|].
    destruct (stag_decode_members _ _ _) as [v0 x|e|x|] eqn:Em; try discriminate.
    + destruct v0; try discriminate. destruct (stag_decode_bits bits (firstn size bs) d); discriminate.
    + revert Em. apply (stag_members_NoFuel L).
      * rewrite forallb_forall in Hh. rewrite Forall_forall in H. rewrite Forall_forall. intros d Hd.
        apply in_map_iff in Hd as (m & <- & Hm). cbn [snd]. apply (H m Hm); [apply Hh, Hm|].
        intros Hpm. apply Hc. apply existsb_exists. eauto.
      * rewrite firstn_length. lia.
  - apply pre_lt_NoFuel, ip_decode_lt.
  - apply pre_lt_NoFuel, pccc_ascii_decode_lt.
  - apply pre_lt_NoFuel, pccc_string_decode_lt.
Qed.

(* ------------------------------------------------------------------ T5: the loop that remains *)
(* Array(L, T) with an element type that succeeds without consuming input runs as many rounds as
   the count says, whatever the buffer holds: in the model, out of fuel beyond [count_limit] *)
Lemma decode_n_zero_width dec v : (forall bs, dec bs = DOk v bs) -> forall n bs, exists vs, decode_n dec n bs = DOk (VList vs) bs.
Proof.
  intros Hd. induction n as [|n IH]; intros bs; cbn [decode_n]; [eexists; reflexivity|].
  rewrite Hd. cbn [dbind]. destruct (IH bs) as [vs ->]. cbn [dbind]. eexists. reflexivity.
Qed.
