(* Proofs/GenericTime.v — time_roundtrip: the request set_plc_time(us) makes the target's wall-clock
   object (Spec/TargetCore.v basic_request, class 0x8B) hold us, and the reply that object gives to
   the request of get_plc_time is read back by get_plc_time as us — for every us < 2^64 (beyond
   datetime.max the "datetime" / "string" renderings are None, the microsecond count is returned). *)
From Coq Require Import String ZifyBool.
From PV Require Import Base.Bytes Base.BytesLemmas Base.Res Base.Proto Base.PyStr.
From PV Require Import Gen.Consts Gen.GenericFacts Gen.SeqGen Model.EnumMapDefs Model.Path Model.Generic.
From PV Require Model.CodecPrim Model.Codec Model.Reply Model.Seq.
From PV Require Import Spec.EncapParser Spec.MRParser Spec.TargetIface Spec.TargetCore Spec.GenericSpec.
From PV Require Import Proofs.TargetCoreP Proofs.GenericPath Proofs.GenericFrame Proofs.GenericDelivery Proofs.GenericReply.
Open Scope Z_scope.
Ltac Zify.zify_post_hook ::= Z.to_euclidean_division_equations.

Definition U64 : Z := 18446744073709551616.

(* ---------------------------------------------------------------- the model's two calls *)
Lemma int_encode_u64 us : 0 <= us < U64 -> Codec.int_encode false 8 (CodecPrim.VInt us) = Ok (le_enc 8 us).
Proof.
  intros H. unfold Codec.int_encode, CodecPrim.pub_encode, Codec.pack_int, Codec.int_in_range, in_urange.
  replace (pow256 8) with U64 by reflexivity.
  replace ((0 <=? us) && (us <? U64)) with true by lia. reflexivity.
Qed.

Lemma set_plc_time_data_v us : 0 <= us < U64 -> set_plc_time_data us = Ok ([1; 0; 6; 0] ++ le_enc 8 us).
Proof.
  intros H. unfold set_plc_time_data.
  change (struct_ty call_set_plc_time_encode_members)
    with (Ok (Codec.TStruct Codec.SPlain [(None, Codec.TInt false 2); (None, Codec.TInt false 2); (None, Codec.TInt false 8)])).
  cbn [bind]. change call_set_plc_time_encode_prefix with [1; 6]. cbn [map app].
  cbn [Codec.encode map fst snd].
  unfold Codec.struct_encode, CodecPrim.pub_encode, Codec.struct_encode_inner.
  cbn [CodecPrim.py_iter bind Codec.struct_encode_seq Codec.as_member].
  cbn [List.length Nat.ltb Nat.leb]. unfold Codec.as_member.
  change (Codec.int_encode false 2 (CodecPrim.VInt 1)) with (Ok [1; 0]).
  change (Codec.int_encode false 2 (CodecPrim.VInt 6)) with (Ok [6; 0]).
  rewrite int_encode_u64 by exact H. cbn [bind app wrap_all]. rewrite app_nil_r. reflexivity.
Qed.

(* the arguments of the two helper calls (regenerated keyword arguments + defaults) *)
Definition clock_struct : Codec.ty :=
  Codec.TStruct Codec.SPlain [(Some [], Codec.TNBytes 6); (Some get_plc_time_key, Codec.TInt false 8)].

Definition set_args (d : drv) (us : Z) : gm_args :=
  {| a_service := SBytes [4]; a_class := LBytes [139]; a_instance := LBytes [1]; a_attribute := None;
     a_data := [1; 0; 6; 0] ++ le_enc 8 us; a_dt := None; a_name := T "set_plc_time";
     a_connected := true; a_ucsend := false; a_route := RTrue |}.
Definition get_args (d : drv) : gm_args :=
  {| a_service := SBytes [3]; a_class := LBytes [139]; a_instance := LBytes [1]; a_attribute := None;
     a_data := [1; 0; 11; 0]; a_dt := Some clock_struct; a_name := T "generic";
     a_connected := true; a_ucsend := false; a_route := RTrue |}.

Lemma set_request_eq d us : 0 <= us < U64 ->
  set_plc_time_request d us
  = let '(d', o) := gm_request d (set_args d us) in
    (d', match o with Done f => Done (set_args d us, f) | Raised e => Raised e | NeedForwardOpen => NeedForwardOpen end).
Proof. intros H. unfold set_plc_time_request. rewrite set_plc_time_data_v by exact H. reflexivity. Qed.

Lemma get_request_eq d :
  get_plc_time_request d
  = let '(d', o) := gm_request d (get_args d) in
    (d', match o with Done f => Done (get_args d, f) | Raised e => Raised e | NeedForwardOpen => NeedForwardOpen end).
Proof. reflexivity. Qed.

Lemma wf_clock_call d (a : gm_args) svc :
  drv_ok d = true -> d_connected d = true -> 1 <= d_seq d <= 65536 ->
  a_service a = SBytes [svc] -> 0 <= svc < 128 -> a_class a = LBytes [139] -> a_instance a = LBytes [1] -> a_attribute a = None ->
  a_connected a = true -> bytes_ok (a_data a) = true -> blen (a_data a) <= 60000 ->
  wf_call d a svc [].
Proof.
  intros Hd Hc Hs Hsv Hr Hcl Hi Ha Hco Hdo Hdl.
  constructor; try (rewrite Hco; discriminate).
  - exact Hd.
  - intros _. split; assumption.
  - rewrite Hsv. cbn [service_value]. replace ((0 <=? svc) && (svc <? 128)) with true by lia. reflexivity.
  - rewrite Hcl. reflexivity.
  - rewrite Hi. reflexivity.
  - rewrite Ha. reflexivity.
  - split; assumption.
Qed.

(* ---------------------------------------------------------------- the target's clock object *)
Lemma clock_set (b : basic_state) tr cap p us :
  path_cia p = Some (139, 1, None) -> 0 <= us < U64 -> 10 <= cap ->
  basic_request b tr cap {| mr_service := 4; mr_path := p; mr_data := [1; 0; 6; 0] ++ le_enc 8 us |}
  = Some (set_clock us b, mr_ok [1; 0; 6; 0; 0; 0], [EvApp 2001 [us] []]).
Proof.
  intros Hp Hu Hc. unfold basic_request. cbn [mr_service mr_path mr_data]. rewrite Hp.
  cbn [Z.eqb Pos.eqb app]. change (u16 1 0) with 1. cbn [Z.to_nat Pos.to_nat Pos.iter_op Nat.add clock_set_items].
  change (u16 6 0) with 6. cbn [Z.eqb Pos.eqb orb].
  assert (Hrd : rd 8 (le_enc 8 us) = Some (us, [])).
  { unfold rd. rewrite <- (app_nil_r (le_enc 8 us)).
    rewrite (takez_exact (le_enc 8 us) [] 8) by (rewrite blen_le_enc; reflexivity).
    rewrite le_dec_enc_id by (replace (pow256 8) with U64 by reflexivity; exact Hu). reflexivity. }
  assert (Hitems : clock_set_items (Pos.to_nat 1) (6 :: 0 :: le_enc 8 us) = Some ([(6, us)], -1, [])).
  { change (Pos.to_nat 1) with 1%nat. cbn [clock_set_items]. change (u16 6 0) with 6.
    change ((6 =? 6) || (6 =? 11)) with true. cbv iota. rewrite Hrd. reflexivity. }
  rewrite Hitems. cbn [flat_map fst snd forallb fold_left].
  change (6 =? 6) with true. change (-1 <? 0) with true. cbv iota. cbn [andb app].
  change (blen (le_enc 2 1 ++ ((le_enc 2 6 ++ [0; 0]) ++ []) ++ [])) with 6.
  replace (negb (4 + 6 <=? cap)) with false by lia. reflexivity.
Qed.

Lemma clock_get (b : basic_state) tr cap p :
  path_cia p = Some (139, 1, None) -> 20 <= cap ->
  basic_request b tr cap {| mr_service := 3; mr_path := p; mr_data := [1; 0; 11; 0] |}
  = Some (b, mr_ok ([1; 0; 11; 0; 0; 0] ++ le_enc 8 (bs_clock_us b)), []).
Proof.
  intros Hp Hc. unfold basic_request. cbn [mr_service mr_path mr_data]. rewrite Hp.
  cbn [Z.eqb Pos.eqb]. change (u16 1 0) with 1.
  change (blen [11; 0] <? 2 * 1) with false. change (2 * 1 <? blen [11; 0]) with false.
  change (rd_offsets (Z.to_nat 1) [11; 0]) with (Some [11]).
  cbn [clock_get_items Z.eqb Pos.eqb orb].
  assert (Hl : blen (le_enc 2 1 ++ le_enc 2 11 ++ [0; 0] ++ le_enc 8 (bs_clock_us b) ++ []) = 14).
  { rewrite !blen_app, !blen_le_enc, !blen_cons, !blen_nil. reflexivity. }
  rewrite Hl. replace (4 + 14 <=? cap) with true by lia. unfold mr_ok. rewrite app_nil_r. reflexivity.
Qed.

(* ---------------------------------------------------------------- get_plc_time reads the reply *)
Lemma decode_clock_struct v :
  0 <= v < U64 ->
  Codec.decode clock_struct ([1; 0; 11; 0; 0; 0] ++ le_enc 8 v)
  = Ok (CodecPrim.VDict [(Some get_plc_time_key, CodecPrim.VInt v)], []).
Proof.
  intros Hv. rewrite <- (le_dec_enc_id 8 v) at 2 by (replace (pow256 8) with U64 by reflexivity; exact Hv).
  cbn [le_enc app]. reflexivity.
Qed.

Lemma get_plc_time_reads ses ctx toid seq d v :
  blen ctx = 8 -> 0 <= v < U64 ->
  get_plc_time_response (get_args d)
    (target_reply true ses ctx toid seq 3 (mr_ok ([1; 0; 11; 0; 0; 0] ++ le_enc 8 v)))
  = Ok {| tt_microseconds := Some v; tt_datetime := v <=? datetime_max_us; tt_error := None |}.
Proof.
  intros Hc Hv. unfold get_plc_time_response.
  pose proof (reply_returned_ok (get_args d) ses ctx toid seq 3 ([1; 0; 11; 0; 0; 0] ++ le_enc 8 v) Hc) as Hr.
  change (a_connected (get_args d)) with true in Hr. rewrite Hr. cbn [bind a_dt get_args a_name].
  rewrite decode_clock_struct by exact Hv. cbn [gtag_truthy g_value g_error].
  replace (CodecPrim.dict_get [(Some get_plc_time_key, CodecPrim.VInt v)] (Some get_plc_time_key)) with (Ok (CodecPrim.VInt v)) by reflexivity.
  cbn [bind]. change get_plc_time_catches_overflow with true. destruct (v <=? datetime_max_us); reflexivity.
Qed.

(* ---------------------------------------------------------------- time_roundtrip *)
(* the target's message router hands a delivered request to the handler of the addressed object *)
Definition handle_delivered (b : basic_state) (tr : transport) (cap : Z) (dl : delivered) (p : bytes) :=
  basic_request b tr cap {| mr_service := dl_service dl; mr_path := p; mr_data := dl_data dl |}.
Definition dl_cia (dl : delivered) := (dl_class dl, dl_instance dl, dl_attribute dl).

(* what get_plc_time gives for a clock value: the value (with its datetime rendering when one exists) *)
Definition time_result (us : Z) : res time_tag :=
  Ok {| tt_microseconds := Some us; tt_datetime := us <=? datetime_max_us; tt_error := None |}.

Definition clock_roundtrip (d : drv) (b : basic_state) (us : Z) : Prop :=
  exists d1 fr1 d2 fr2 b1 rp,
    (* set_plc_time(us): frame -> request as the target reads it -> the clock object *)
    set_plc_time_request d us = (d1, Done (set_args d us, fr1))
    /\ spec_extract fr1 = Some (asked d (set_args d us) 4 [])
    /\ (forall tr cap p, 20 <= cap -> path_cia p = Some (dl_cia (asked d (set_args d us) 4 [])) ->
          exists rp1 evs, handle_delivered b tr cap (asked d (set_args d us) 4 []) p = Some (b1, rp1, evs) /\ rp_status rp1 = 0)
    /\ bs_clock_us b1 = us
    (* get_plc_time(): frame -> request -> the clock object's reply -> the value returned *)
    /\ get_plc_time_request d1 = (d2, Done (get_args d1, fr2))
    /\ spec_extract fr2 = Some (asked d1 (get_args d1) 3 [])
    /\ (forall tr cap p, 20 <= cap -> path_cia p = Some (dl_cia (asked d1 (get_args d1) 3 [])) ->
          handle_delivered b1 tr cap (asked d1 (get_args d1) 3 []) p = Some (b1, rp, []))
    /\ (forall ses ctx toid seq, blen ctx = 8 ->
          get_plc_time_response (get_args d1) (target_reply true ses ctx toid seq 3 rp) = time_result us).

Lemma gm_request_connected_state d a d' fr :
  a_connected a = true -> gm_request d a = (d', Done fr) -> d' = with_seq d (snd (Seq.draw (d_seq d))).
Proof.
  intros Hc. unfold gm_request. rewrite Hc.
  destruct (negb (d_connected d)); [discriminate |].
  destruct (Seq.draw (d_seq d)) as [s v]. cbn [snd]. intros [= <- _]. reflexivity.
Qed.

Theorem time_roundtrip d (b : basic_state) us :
  drv_ok d = true -> d_connected d = true -> 1 <= d_seq d <= 65535 -> 0 <= us < U64 ->
  clock_roundtrip d b us.
Proof.
  intros Hd Hc Hs Hu.
  assert (W1 : wf_call d (set_args d us) 4 []).
  { apply wf_clock_call; try reflexivity; try assumption; try lia.
    - cbn [a_data set_args]. rewrite bytes_ok_app, le_enc_ok. reflexivity.
    - cbn [a_data set_args]. rewrite blen_app, blen_le_enc. cbn. lia. }
  destruct (delivered_connected d (set_args d us) 4 [] W1 eq_refl) as (d1 & fr1 & Hg1 & He1).
  pose proof (gm_request_connected_state d (set_args d us) d1 fr1 eq_refl Hg1) as Hd1.
  assert (Hs1 : 1 <= d_seq d1 <= 65536).
  { rewrite Hd1. cbn [with_seq d_seq]. unfold Seq.draw, cycle_step, SEQ_STOP, SEQ_START. cbn [snd].
    destruct (d_seq d >? 65535) eqn:E; lia. }
  assert (Hd1ok : drv_ok d1 = true) by (rewrite Hd1; exact Hd).
  assert (Hc1 : d_connected d1 = true) by (rewrite Hd1; exact Hc).
  assert (W2 : wf_call d1 (get_args d1) 3 []).
  { apply wf_clock_call; try reflexivity; try assumption; try lia. cbn. lia. }
  destruct (delivered_connected d1 (get_args d1) 3 [] W2 eq_refl) as (d2 & fr2 & Hg2 & He2).
  exists d1, fr1, d2, fr2, (set_clock us b), (mr_ok ([1; 0; 11; 0; 0; 0] ++ le_enc 8 us)).
  split; [rewrite set_request_eq by exact Hu; rewrite Hg1; reflexivity |].
  split; [exact He1 |].
  split.
  { intros tr cap p Hcap Hp. eexists _, _. split.
    - unfold handle_delivered. apply clock_set; [exact Hp | exact Hu | lia].
    - reflexivity. }
  split; [reflexivity |].
  split; [rewrite get_request_eq; rewrite Hg2; reflexivity |].
  split; [exact He2 |].
  split.
  { intros tr cap p Hcap Hp. unfold handle_delivered.
    exact (clock_get (set_clock us b) tr cap p Hp Hcap). }
  intros ses ctx toid seq Hctx. unfold time_result. apply get_plc_time_reads; assumption.
Qed.
