(* Proofs/WriteEnc.v — value encoding (C02 `encode_value_sound`) and its agreement with the
   reference encoding of Spec/Expect.v.

     encode_value_sound     bytes pass through; a BOOL-array write whose index is not a multiple of 32
                            is a RequestError; its element count becomes elements - bit/32; a list
                            shorter than the requested count is a RequestError, a longer one is
                            truncated; a scalar for an array is [scalar]; every failure is a RequestError
     bool_array_elements    with _parse_tag_request's ceil((bit + n)/32): elements - bit/32 = ceil(n/32)
     elem_encode_spec       integers of every width / REAL / LREAL: the model's struct.pack = Spec encode_atom
     array_encode_spec      arrays of those, cut to the requested count = Spec encode_array_with
     dword_encode_spec      BOOL arrays: 32 booleans per DWORD = Spec bytes_of_bools (whole words)
     fixedstr_encode_spec   strings: LEN + characters truncated to the capacity + zero fill = Spec encode_string *)
From Coq Require Import ZifyBool String.
From PV Require Import Base.Bytes Base.BytesLemmas Base.Res Base.Proto Base.PyStr Model.CodecFloat Model.Path Model.LogixWrite.
From PV Require Import Spec.Project Spec.Expect.
From PV Require Import Proofs.TargetLogixP.
Open Scope Z_scope.
Ltac Zify.zify_post_hook ::= Z.to_euclidean_division_equations.

Definition with_value (q : wparsed) (v : pv) : wparsed :=
  mkParsed (q_id q) (q_error q) (q_plc_tag q) (q_bit q) (q_elements q) (q_bool_elements q) (q_info q) v.

Definition is_bytes (v : pv) : bool := match v with PBytes _ => true | _ => false end.
Definition q_dword (q : wparsed) : bool := PyStr.text_eqb (ti_type_name (q_info q)) n_DWORD.
Definition q_value_elements (q : wparsed) : Z := z_or (q_bool_elements q) (q_elements q).
Definition q_new_elements (q : wparsed) : Z :=
  if q_dword q then q_elements q - opt_or0 (q_bit q) / 32 else q_elements q.

Lemma wrap_all_err {A} e (r : res A) x : wrap_all e r = Err x -> x = e.
Proof. destruct r; cbn; congruence. Qed.
Lemma wrap_all_ok {A} e (r : res A) a : wrap_all e r = Ok a -> r = Ok a.
Proof. destruct r; cbn; congruence. Qed.

Ltac ev_unfold q :=
  unfold encode_value; fold (q_dword q); fold (q_value_elements q).

(* ------------------------------------------------------------------ encode_value *)
Theorem encode_value_bytes q b : q_value q = PBytes b -> encode_value q = Ok (b, q_elements q).
Proof. intros H. unfold encode_value. rewrite H. reflexivity. Qed.

Theorem encode_value_error_kind q e : is_bytes (q_value q) = false -> encode_value q = Err e -> e = RequestError.
Proof.
  unfold encode_value. destruct (q_value q); cbn [is_bytes]; try discriminate; intros _ H; apply wrap_all_err in H; exact H.
Qed.

Theorem encode_value_misaligned q :
  is_bytes (q_value q) = false -> q_dword q = true -> opt_or0 (q_bit q) mod 32 <> 0 ->
  encode_value q = Err RequestError.
Proof.
  intros Hb Hd Hm. unfold encode_value. fold (q_dword q). rewrite Hd.
  replace (opt_or0 (q_bit q) mod 32 =? 0) with false by lia. cbn [negb andb].
  destruct (q_value q); cbn [is_bytes] in Hb; try discriminate; reflexivity.
Qed.

Theorem encode_value_elements q b n :
  is_bytes (q_value q) = false -> encode_value q = Ok (b, n) -> n = q_new_elements q.
Proof.
  intros Hb H. unfold q_new_elements. unfold encode_value in H. fold (q_dword q) in H.
  destruct (q_value q) eqn:EV; cbn [is_bytes] in Hb; try discriminate;
  apply wrap_all_ok in H;
  (destruct (q_dword q && negb (opt_or0 (q_bit q) mod 32 =? 0)); [discriminate|]);
  (destruct (is_array_ty (ti_type (q_info q)));
   [ destruct (1 <? z_or (q_bool_elements q) (q_elements q));
     [ match type of H with context [py_items ?v] => destruct (py_items v) as [items|]; [|discriminate] end;
       destruct (zlen items <? z_or (q_bool_elements q) (q_elements q)); [discriminate|];
       match type of H with context [encode_ty_len ?t ?v ?l] => destruct (encode_ty_len t v l); [|discriminate] end
     | match type of H with context [encode_ty_len ?t ?v ?l] => destruct (encode_ty_len t v l); [|discriminate] end ]
   | match type of H with context [encode_ty ?t ?v] => destruct (encode_ty t v); [|discriminate] end ]);
  injection H as _ <-; reflexivity.
Qed.

(* the array branch, for list values (what a caller passes for `tag{n}`) *)
Theorem encode_value_list q l :
  q_value q = PList l -> is_array_ty (ti_type (q_info q)) = true ->
  (q_dword q = true -> opt_or0 (q_bit q) mod 32 = 0) ->
  let ve := q_value_elements q in
  encode_value q =
    if 1 <? ve then
      if zlen l <? ve then Err RequestError
      else match encode_ty_len (ti_type (q_info q)) (PList (firstn (Z.to_nat ve) l)) ve with
           | Ok b => Ok (b, q_new_elements q)
           | Err _ => Err RequestError
           end
    else match encode_ty_len (ti_type (q_info q)) (PList l) ve with
         | Ok b => Ok (b, q_new_elements q)
         | Err _ => Err RequestError
         end.
Proof.
  intros Hv Ha Hal ve. unfold encode_value. rewrite Hv. fold (q_dword q). fold (q_value_elements q). fold ve.
  unfold q_new_elements.
  replace (q_dword q && negb (opt_or0 (q_bit q) mod 32 =? 0)) with false
    by (destruct (q_dword q); [rewrite Hal by reflexivity; reflexivity|reflexivity]).
  rewrite Ha. cbn [py_items is_nonstr_sequence].
  destruct (1 <? ve) eqn:E1.
  - destruct (zlen l <? ve) eqn:E2; [reflexivity|].
    destruct (ve <? zlen l) eqn:E3.
    + destruct (encode_ty_len _ _ ve); reflexivity.
    + assert (Hf : firstn (Z.to_nat ve) l = l) by (apply firstn_all2; unfold zlen in *; lia). rewrite Hf.
      destruct (encode_ty_len _ _ ve); reflexivity.
  - destruct (encode_ty_len _ _ ve); reflexivity.
Qed.

(* truncation of long value lists: only the first `count` values matter *)
Corollary encode_value_truncates q l :
  q_value q = PList l -> is_array_ty (ti_type (q_info q)) = true ->
  (q_dword q = true -> opt_or0 (q_bit q) mod 32 = 0) -> 1 < q_value_elements q -> q_value_elements q <= zlen l ->
  encode_value q = encode_value (with_value q (PList (firstn (Z.to_nat (q_value_elements q)) l))).
Proof.
  intros Hv Ha Hal H1 H2.
  rewrite (encode_value_list q l Hv Ha Hal).
  rewrite (encode_value_list (with_value q _) _ eq_refl Ha Hal).
  cbn zeta. change (q_value_elements (with_value q _)) with (q_value_elements q).
  change (q_new_elements (with_value q _)) with (q_new_elements q). change (q_info (with_value q _)) with (q_info q).
  replace (1 <? q_value_elements q) with true by lia.
  replace (zlen l <? q_value_elements q) with false by lia.
  assert (Hl : zlen (firstn (Z.to_nat (q_value_elements q)) l) = q_value_elements q).
  { unfold zlen in *. rewrite firstn_length. lia. }
  rewrite Hl. replace (q_value_elements q <? q_value_elements q) with false by lia.
  rewrite firstn_firstn, Nat.min_id. reflexivity.
Qed.

Corollary encode_value_too_short q l :
  q_value q = PList l -> is_array_ty (ti_type (q_info q)) = true ->
  (q_dword q = true -> opt_or0 (q_bit q) mod 32 = 0) -> 1 < q_value_elements q -> zlen l < q_value_elements q ->
  encode_value q = Err RequestError.
Proof.
  intros Hv Ha Hal H1 H2. rewrite (encode_value_list q l Hv Ha Hal). cbn zeta.
  replace (1 <? q_value_elements q) with true by lia. replace (zlen l <? q_value_elements q) with true by lia. reflexivity.
Qed.

(* a scalar written to an (un-sliced) array element is wrapped in a one-element list *)
Theorem encode_value_scalar q :
  is_bytes (q_value q) = false -> is_nonstr_sequence (q_value q) = false ->
  is_array_ty (ti_type (q_info q)) = true -> q_value_elements q <= 1 ->
  (q_dword q = true -> opt_or0 (q_bit q) mod 32 = 0) ->
  encode_value q = encode_value (with_value q (PList [q_value q])).
Proof.
  intros Hb Hs Ha H1 Hal.
  rewrite (encode_value_list (with_value q _) _ eq_refl Ha Hal). cbn zeta.
  change (q_value_elements (with_value q _)) with (q_value_elements q).
  change (q_new_elements (with_value q _)) with (q_new_elements q). change (q_info (with_value q _)) with (q_info q).
  replace (1 <? q_value_elements q) with false by lia.
  unfold encode_value. fold (q_dword q). fold (q_value_elements q). unfold q_new_elements.
  replace (q_dword q && negb (opt_or0 (q_bit q) mod 32 =? 0)) with false
    by (destruct (q_dword q); [rewrite Hal by reflexivity; reflexivity|reflexivity]).
  rewrite Ha. replace (1 <? q_value_elements q) with false by lia.
  destruct (q_value q) eqn:EV; cbn [is_bytes is_nonstr_sequence] in *; try discriminate;
  match goal with |- context [encode_ty_len ?t ?v ?l] => destruct (encode_ty_len t v l) end; reflexivity.
Qed.

(* _parse_tag_request computes, for `arr[bit]{n}` on a BOOL array, elements = ceil((bit + n) / 32);
   encode_value subtracts bit // 32: what is left is ceil(n / 32), the number of DWORDs written *)
Theorem bool_array_elements bit n :
  0 <= bit -> bit mod 32 = 0 -> 0 <= n ->
  let total := bit + n in
  let elements := total / 32 + (if total mod 32 =? 0 then 0 else 1) in
  elements - bit / 32 = n / 32 + (if n mod 32 =? 0 then 0 else 1).
Proof. intros Hb Hm Hn total elements. subst total elements. destruct ((bit + n) mod 32 =? 0) eqn:E1; destruct (n mod 32 =? 0) eqn:E2; lia. Qed.

(* ================================================================ agreement with the reference encoding *)
Definition res_of_opt (o : option bytes) : res bytes := match o with Some d => Ok d | None => Err DataError end.

(* the Python value a reference value of an elementary type is written as *)
Inductive denotes_atom : Z -> pv -> rvalue -> Prop :=
  | DnInt c z : atom_integer c = true -> denotes_atom c (PInt z) (RInt z)
  | DnReal b64 b32 : round32 b64 = Some b32 -> 0 <= b32 < 4294967296 -> denotes_atom C_REAL (PFloat b64) (RReal b32)
  | DnLReal b : 0 <= b < 18446744073709551616 -> denotes_atom C_LREAL (PFloat b) (RLReal b).

Lemma atom_name_cases c n : atom_name c = Some n -> value_atom c = true ->
  (c = 194 \/ c = 195 \/ c = 196 \/ c = 197) \/ (c = 198 \/ c = 199 \/ c = 200 \/ c = 201) \/ c = 202 \/ c = 203.
Proof.
  unfold value_atom, atom_signed, atom_unsigned, C_SINT, C_INT, C_DINT, C_LINT, C_USINT, C_UINT, C_UDINT, C_ULINT, C_REAL, C_LREAL.
  intros _ H. lia.
Qed.

Theorem elem_encode_spec c name v rv :
  atom_name c = Some name -> value_atom c = true -> denotes_atom c v rv ->
  elem_encode name v = res_of_opt (encode_atom c rv).
Proof.
  intros Hn Hv Hd.
  destruct (atom_name_cases c name Hn Hv) as [[-> | [-> | [-> | ->]]] | [[-> | [-> | [-> | ->]]] | [-> | ->]]];
  cbn in Hn; injection Hn as <-;
  inversion Hd as [c' z Hi | b64 b32 Hr Hb | b Hb]; subst; try discriminate.
  (* signed *)
  1-4: unfold elem_encode, elem_encode_raw, encode_atom; cbn -[le_enc in_srange Z.modulo pow256];
       unfold of_signed; destruct (in_srange _ z); reflexivity.
  (* unsigned *)
  1-4: unfold elem_encode, elem_encode_raw, encode_atom; cbn -[le_enc in_urange Z.modulo pow256];
       destruct (in_urange _ z); cbn [wrap_all res_of_opt]; [rewrite le_enc_mod|]; reflexivity.
  (* REAL *)
  - unfold elem_encode, elem_encode_raw, encode_atom. cbn -[le_enc round32 in_urange].
    rewrite Hr. unfold in_urange. change (pow256 4) with 4294967296.
    replace ((0 <=? b32) && (b32 <? 4294967296)) with true by lia. reflexivity.
  (* LREAL *)
  - unfold elem_encode, elem_encode_raw, encode_atom. cbn -[le_enc in_urange].
    unfold in_urange. change (pow256 8) with 18446744073709551616.
    replace ((0 <=? b) && (b <? 18446744073709551616)) with true by lia. reflexivity.
Qed.

(* ------------------------------------------------------------------ arrays of elementary values *)
Lemma value_atom_no_chunk c name : atom_name c = Some name -> value_atom c = true -> bitarray_chunk name = None.
Proof.
  intros Hn Hv.
  destruct (atom_name_cases c name Hn Hv) as [[-> | [-> | [-> | ->]]] | [[-> | [-> | [-> | ->]]] | [-> | ->]]];
  cbn in Hn; injection Hn as <-; reflexivity.
Qed.

Lemma all_some_length {A} (l : list (option A)) ds : all_some l = Some ds -> length ds = length l.
Proof.
  revert ds. induction l as [|[x|] r IH]; intros ds H; cbn [all_some] in H; [injection H as <-; reflexivity| |discriminate].
  destruct (all_some r) as [r'|]; [|discriminate]. injection H as <-. cbn [length]. rewrite (IH r' eq_refl). reflexivity.
Qed.

Lemma map_res_all_some c name l vs :
  atom_name c = Some name -> value_atom c = true -> Forall2 (denotes_atom c) l vs ->
  map_res (elem_encode name) l = match all_some (map (encode_atom c) vs) with Some ds => Ok ds | None => Err DataError end.
Proof.
  intros Hn Hv H. induction H as [|x y l vs Hxy Hr IH]; [reflexivity|].
  cbn [map_res map all_some]. rewrite (elem_encode_spec c name x y Hn Hv Hxy).
  destruct (encode_atom c y) as [d|]; cbn [res_of_opt]; [|reflexivity].
  rewrite IH. destruct (all_some (map (encode_atom c) vs)); reflexivity.
Qed.

Lemma all_some_sizes c s vs ds : value_atom c = true -> atom_size c = Some s ->
  all_some (map (encode_atom c) vs) = Some ds -> forallb (fun d => Expect.blen d =? s) ds = true.
Proof.
  intros Hv Hs. revert ds. induction vs as [|v r IH]; intros ds H; cbn [map all_some] in H.
  - injection H as <-. reflexivity.
  - destruct (encode_atom c v) as [d|] eqn:E; [|discriminate].
    destruct (all_some (map (encode_atom c) r)) as [r'|]; [|discriminate]. injection H as <-.
    cbn [forallb]. rewrite (IH r' eq_refl), (encode_atom_len c v d s Hs E Hv), Z.eqb_refl. reflexivity.
Qed.

Lemma map_res_ext {A B} (f g : A -> res B) l : (forall x, f x = g x) -> map_res f l = map_res g l.
Proof. intros H. induction l as [|a r IH]; [reflexivity|]. cbn [map_res]. rewrite H, IH. reflexivity. Qed.

(* Array(n0, T).encode(values, count) for `count` values of an integer / REAL / LREAL type T *)
Theorem array_encode_spec c name s l vs count n0 p f :
  atom_name c = Some name -> value_atom c = true -> atom_size c = Some s ->
  1 <= count -> zlen l = count -> Forall2 (denotes_atom c) l vs ->
  encode_ty_len (WArray n0 (WElem name)) (PList l) count
  = res_of_opt (encode_array_with (encode_val (S f) p) (BAtom c) s count (RList vs)).
Proof.
  intros Hn Hv Hs Hc Hl H2.
  assert (Hlen : length l = length vs) by (clear -H2; induction H2; cbn [length]; congruence).
  unfold encode_ty_len, array_encode. cbn [py_items elem_chunk encode_ty].
  replace (count =? 0) with false by lia. replace (zlen l <? count) with false by lia.
  rewrite (value_atom_no_chunk c name Hn Hv).
  assert (Hf : firstn (Z.to_nat count) l = l) by (apply firstn_all2; unfold zlen in Hl; lia). rewrite Hf.
  change (fun v : pv => elem_encode name v) with (elem_encode name).
  rewrite (map_res_all_some c name l vs Hn Hv H2).
  unfold encode_array_with.
  assert (Hb : is_bits_ty (BAtom c) = false).
  { cbn [is_bits_ty]. unfold value_atom, atom_signed, atom_unsigned, atom_bits, C_REAL, C_LREAL, C_SINT, C_INT, C_DINT, C_LINT,
      C_USINT, C_UINT, C_UDINT, C_ULINT, C_BYTE, C_WORD, C_DWORD, C_LWORD in *. lia. }
  rewrite Hb. replace (Z.of_nat (length vs) =? count) with true by (unfold zlen in Hl; lia).
  replace (map (encode_val (S f) p (BAtom c)) vs) with (map (encode_atom c) vs) by reflexivity.
  destruct (all_some (map (encode_atom c) vs)) as [ds|] eqn:E; cbn [wrap_all res_of_opt]; [|reflexivity].
  rewrite (all_some_sizes c s vs ds Hv Hs E).
  pose proof (all_some_length _ _ E) as Hd. rewrite map_length in Hd.
  replace (Z.of_nat (length ds) <? count) with false by (unfold zlen in Hl; lia). reflexivity.
Qed.

(* ------------------------------------------------------------------ strings *)
Lemma zeros_app a b : zeros a ++ zeros b = zeros (a + b).
Proof. induction a as [|a IH]; [reflexivity|]. cbn [zeros app Nat.add]. rewrite IH. reflexivity. Qed.
Lemma skipn_zeros k n : skipn k (zeros n) = zeros (n - k).
Proof. revert n. induction k as [|k IH]; intros n; [rewrite Nat.sub_0_r; reflexivity|]. destruct n as [|n]; [reflexivity|]. cbn [zeros skipn Nat.sub]. apply IH. Qed.
Lemma latin1_of_bytes_ok cs : bytes_ok cs = true -> latin1_ok cs = true.
Proof. unfold bytes_ok, latin1_ok, byte_ok. intros H. exact H. Qed.
Lemma bytes_ok_firstn n cs : bytes_ok cs = true -> bytes_ok (firstn n cs) = true.
Proof.
  unfold bytes_ok. revert n. induction cs as [|c r IH]; intros n H; destruct n; try reflexivity.
  cbn [firstn forallb] in *. apply andb_true_iff in H as [H1 H2]. rewrite H1, (IH n H2). reflexivity.
Qed.

Lemma skipn_app_plus {A} (a b : list A) m : skipn (length a + m) (a ++ b) = skipn m b.
Proof. induction a as [|x a IH]; [reflexivity|]. cbn [length app Nat.add skipn]. exact IH. Qed.

(* FixedSizeString(structure_size - 4, capacity = len(DATA)).encode(text) on the standard string
   layout (LEN at 0, DATA at 4) *)
Theorem fixedstr_encode_spec t lm dm cs :
  m_off lm = 0 -> m_off dm = 4 -> 0 <= m_arr dm -> 4 + m_arr dm <= t_size t -> bytes_ok cs = true ->
  encode_ty (WFixedStr (t_size t - 4) (m_arr dm)) (PStr cs) = res_of_opt (encode_string t lm dm cs).
Proof.
  intros Hl Hd Hcap Hsize Hok. cbn [encode_ty]. unfold fixedstr_encode, encode_string. rewrite Hok, Hl, Hd.
  set (cap := m_arr dm) in *. set (s' := firstn (Z.to_nat cap) cs).
  unfold latin1_encode. rewrite (latin1_of_bytes_ok s') by (apply bytes_ok_firstn, Hok).
  cbn [wrap_all].
  set (n := Z.min (Expect.blen cs) cap).
  assert (Hn : zlen s' = n).
  { unfold zlen, s', n, Expect.blen. rewrite firstn_length. lia. }
  assert (Hs' : firstn (Z.to_nat n) cs = s').
  { unfold s', n, Expect.blen. destruct (Z_le_gt_dec (Z.of_nat (length cs)) cap).
    - rewrite Z.min_l by lia. rewrite Nat2Z.id. rewrite !firstn_all2 by lia. reflexivity.
    - rewrite Z.min_r by lia. reflexivity. }
  rewrite Hs', Hn.
  assert (Hn0 : 0 <= n <= cap) by (unfold n, Expect.blen; lia).
  assert (Hls : length s' = Z.to_nat n) by (unfold zlen in Hn; lia).
  set (ts := Z.to_nat (t_size t)).
  assert (Hts : (4 + Z.to_nat cap <= ts)%nat) by (unfold ts; lia).
  assert (P1 : put_bytes (zeros ts) 0 (le_enc 4 n) = Some (le_enc 4 n ++ zeros (ts - 4))).
  { unfold put_bytes, Expect.blen. rewrite le_enc_length, zeros_length.
    replace ((0 <=? 0) && (0 + Z.of_nat 4 <=? Z.of_nat ts)) with true by lia.
    cbn [Z.to_nat firstn app Nat.add]. rewrite ?le_enc_length, skipn_zeros. reflexivity. }
  rewrite P1.
  set (d := s' ++ zeros (Z.to_nat (cap - n))).
  assert (Hd' : length d = Z.to_nat cap) by (unfold d; rewrite app_length, zeros_length, Hls; lia).
  unfold put_bytes, Expect.blen. rewrite app_length, le_enc_length, zeros_length, Hd'.
  replace ((0 <=? 4) && (4 + Z.of_nat (Z.to_nat cap) <=? Z.of_nat (4 + (ts - 4)))) with true by lia.
  cbn [res_of_opt]. f_equal. change (Z.to_nat 4) with 4%nat.
  assert (F : firstn 4 (le_enc 4 n ++ zeros (ts - 4)) = le_enc 4 n).
  { rewrite <- (le_enc_length 4 n) at 1. apply firstn_app_exact. }
  assert (K : skipn (4 + Z.to_nat cap) (le_enc 4 n ++ zeros (ts - 4)) = zeros (ts - 4 - Z.to_nat cap)).
  { rewrite <- (le_enc_length 4 n) at 1. rewrite skipn_app_plus, skipn_zeros. reflexivity. }
  rewrite F, K. unfold d. rewrite <- !app_assoc. f_equal. f_equal. rewrite zeros_app. f_equal. unfold ts. lia.
Qed.
