(* Base/BytesLemmas.v — lemmas about little-endian encodings (proved once, used everywhere). *)
From PV Require Import Base.Bytes.
From Coq Require Import ZifyBool.
Open Scope Z_scope.
Ltac Zify.zify_post_hook ::= Z.to_euclidean_division_equations.

Lemma pow256_pos w : 0 < pow256 w.
Proof. unfold pow256. apply Z.pow_pos_nonneg; lia. Qed.

Lemma pow256_S w : pow256 (S w) = 256 * pow256 w.
Proof. unfold pow256. rewrite Nat2Z.inj_succ, Z.pow_succ_r; lia. Qed.

Lemma pow256_0 : pow256 0 = 1.
Proof. reflexivity. Qed.

Lemma le_enc_length w z : length (le_enc w z) = w.
Proof. revert z; induction w as [|w IH]; intros z; cbn [le_enc length]; [reflexivity|]. now rewrite IH. Qed.

Lemma byte_ok_iff b : byte_ok b = true <-> 0 <= b < 256.
Proof. unfold byte_ok. lia. Qed.

Lemma bytes_ok_app a b : bytes_ok (a ++ b) = bytes_ok a && bytes_ok b.
Proof. unfold bytes_ok. apply forallb_app. Qed.

Lemma bytes_ok_cons a b : bytes_ok (a :: b) = byte_ok a && bytes_ok b.
Proof. reflexivity. Qed.

Lemma le_enc_ok w z : bytes_ok (le_enc w z) = true.
Proof.
  revert z; induction w as [|w IH]; intros z; cbn [le_enc]; [reflexivity|].
  rewrite bytes_ok_cons, IH, andb_true_r. apply byte_ok_iff.
  apply Z.mod_pos_bound; lia.
Qed.

Lemma le_dec_enc w z : le_dec (le_enc w z) = z mod pow256 w.
Proof.
  revert z; induction w as [|w IH]; intros z; cbn [le_enc le_dec].
  - rewrite pow256_0. now rewrite Z.mod_1_r.
  - rewrite IH, pow256_S. pose proof (pow256_pos w) as Hp.
    rewrite Z.rem_mul_r by lia. lia.
Qed.

Lemma le_dec_enc_id w z : 0 <= z < pow256 w -> le_dec (le_enc w z) = z.
Proof. intros H. rewrite le_dec_enc. apply Z.mod_small; exact H. Qed.

Lemma le_dec_range bs : bytes_ok bs = true -> 0 <= le_dec bs < pow256 (length bs).
Proof.
  induction bs as [|b r IH]; cbn [le_dec length]; intros H.
  - rewrite pow256_0; lia.
  - rewrite bytes_ok_cons in H. apply andb_true_iff in H as [Hb Hr].
    apply byte_ok_iff in Hb. specialize (IH Hr). rewrite pow256_S. lia.
Qed.

Lemma le_enc_dec bs : bytes_ok bs = true -> le_enc (length bs) (le_dec bs) = bs.
Proof.
  induction bs as [|b r IH]; cbn [le_dec length le_enc]; intros H; [reflexivity|].
  rewrite bytes_ok_cons in H. apply andb_true_iff in H as [Hb Hr].
  apply byte_ok_iff in Hb. specialize (IH Hr).
  f_equal.
  - lia.
  - replace ((b + 256 * le_dec r) / 256) with (le_dec r) by lia. exact IH.
Qed.

Lemma le_enc_mod w z : le_enc w (z mod pow256 w) = le_enc w z.
Proof.
  revert z; induction w as [|w IH]; intros z; cbn [le_enc]; [reflexivity|].
  rewrite pow256_S. pose proof (pow256_pos w) as Hp. f_equal.
  - rewrite Z.rem_mul_r by lia. lia.
  - rewrite <- (IH (z / 256)). f_equal.
    rewrite Z.rem_mul_r by lia. lia.
Qed.

Lemma le_enc_inj w a b :
  0 <= a < pow256 w -> 0 <= b < pow256 w -> le_enc w a = le_enc w b -> a = b.
Proof.
  intros Ha Hb H. rewrite <- (le_dec_enc_id w a Ha), <- (le_dec_enc_id w b Hb). now rewrite H.
Qed.

(* signed *)
Lemma to_of_signed w s : in_srange w s = true -> (0 < w)%nat -> to_signed w (of_signed w s) = s.
Proof.
  unfold in_srange, to_signed, of_signed. intros H Hw.
  pose proof (pow256_pos w) as Hp.
  assert (Heven : pow256 w mod 2 = 0).
  { destruct w as [|w]; [lia|]. rewrite pow256_S.
    replace (256 * pow256 w) with (128 * pow256 w * 2) by lia. apply Z.mod_mul; lia. }
  destruct (s mod pow256 w <? pow256 w / 2) eqn:E.
  - assert (0 <= s \/ s < 0) as [Hs|Hs] by lia.
    + rewrite Z.mod_small by lia. reflexivity.
    + exfalso. assert (s mod pow256 w = s + pow256 w).
      { symmetry. apply Z.mod_unique with (q := -1); lia. } lia.
  - assert (0 <= s \/ s < 0) as [Hs|Hs] by lia.
    + exfalso. rewrite Z.mod_small in E by lia. lia.
    + assert (s mod pow256 w = s + pow256 w).
      { symmetry. apply Z.mod_unique with (q := -1); lia. } lia.
Qed.

Lemma of_signed_range w s : 0 <= of_signed w s < pow256 w.
Proof. unfold of_signed. apply Z.mod_pos_bound, pow256_pos. Qed.

Lemma to_signed_range w u : (0 < w)%nat -> 0 <= u < pow256 w -> in_srange w (to_signed w u) = true.
Proof.
  intros Hw Hu. unfold in_srange, to_signed.
  assert (Heven : pow256 w mod 2 = 0).
  { destruct w as [|w]; [lia|]. rewrite pow256_S.
    replace (256 * pow256 w) with (128 * pow256 w * 2) by lia. apply Z.mod_mul; lia. }
  destruct (u <? pow256 w / 2) eqn:E; lia.
Qed.

Lemma of_to_signed w u : 0 <= u < pow256 w -> of_signed w (to_signed w u) = u.
Proof.
  intros Hu. unfold of_signed, to_signed. pose proof (pow256_pos w) as Hp.
  destruct (u <? pow256 w / 2) eqn:E.
  - apply Z.mod_small; lia.
  - symmetry. apply Z.mod_unique with (q := -1); lia.
Qed.

(* stream form: decoding a prefix leaves the rest untouched *)
Lemma firstn_app_exact {A} (a b : list A) : firstn (length a) (a ++ b) = a.
Proof. rewrite firstn_app, Nat.sub_diag, firstn_all. cbn. apply app_nil_r. Qed.

Lemma skipn_app_exact {A} (a b : list A) : skipn (length a) (a ++ b) = b.
Proof. rewrite skipn_app, Nat.sub_diag, skipn_all. reflexivity. Qed.

Lemma zeros_length n : length (zeros n) = n.
Proof. induction n; cbn; congruence. Qed.

Lemma zeros_ok n : bytes_ok (zeros n) = true.
Proof. induction n; cbn; auto. Qed.
