(* Base/Proto.v — line protocol of the extracted model co-process. A line is a list of
   space-separated tokens: decimal integers ("-12"), hex byte strings ("x0aff", empty "x"),
   text strings as hex code points are sent as byte strings when ASCII/Latin-1 or as
   "u" + 6 hex digits per code point, and symbols (anything else). Parsing and printing are
   Gallina so the OCaml glue only moves characters. *)
From PV Require Import Base.Bytes.
Open Scope Z_scope.

Inductive tok :=
  | TInt (z : Z)
  | TBytes (bs : list Z)
  | TText (cs : list Z)
  | TSym (s : list Z).

Definition is_digit (c : Z) : bool := (48 <=? c) && (c <=? 57).
Definition hexval (c : Z) : option Z :=
  if (48 <=? c) && (c <=? 57) then Some (c - 48)
  else if (97 <=? c) && (c <=? 102) then Some (c - 87)
  else if (65 <=? c) && (c <=? 70) then Some (c - 55)
  else None.

(* linear-time reverse (List.rev is quadratic; frame-sized tokens go through here) *)
Definition frev {A} (l : list A) : list A := rev_append l [].

Fixpoint split_sp (cs : list Z) (cur : list Z) (acc : list (list Z)) : list (list Z) :=
  match cs with
  | [] => frev (if cur then acc else frev cur :: acc)
  | c :: r => if c =? 32 then split_sp r [] (if cur then acc else frev cur :: acc)
              else split_sp r (c :: cur) acc
  end.

Fixpoint dec_acc (cs : list Z) (acc : Z) : option Z :=
  match cs with
  | [] => Some acc
  | c :: r => if is_digit c then dec_acc r (acc * 10 + (c - 48)) else None
  end.

Fixpoint hex_group (k : nat) (cs : list Z) (acc : Z) : option (Z * list Z) :=
  match k with
  | O => Some (acc, cs)
  | S k' => match cs with
            | [] => None
            | c :: r => match hexval c with Some v => hex_group k' r (acc * 16 + v) | None => None end
            end
  end.

Fixpoint hex_groups (fuel : nat) (k : nat) (cs : list Z) (acc : list Z) : option (list Z) :=
  match cs with
  | [] => Some (frev acc)
  | _ => match fuel with
         | O => None
         | S f => match hex_group k cs 0 with
                  | Some (v, r) => hex_groups f k r (v :: acc)
                  | None => None
                  end
         end
  end.

Definition parse_tok (w : list Z) : tok :=
  match w with
  | 120 :: r (* x *) => match hex_groups (length r) 2 r [] with Some bs => TBytes bs | None => TSym w end
  | 117 :: r (* u *) => match hex_groups (length r) 6 r [] with Some cs => TText cs | None => TSym w end
  | 45 :: (_ :: _) as r (* - *) => match dec_acc r 0 with Some z => TInt (- z) | None => TSym w end
  | c :: _ => if is_digit c then match dec_acc w 0 with Some z => TInt z | None => TSym w end else TSym w
  | [] => TSym w
  end.

Definition parse_line (cs : list Z) : list tok := map parse_tok (split_sp cs [] []).

(* printing *)
Fixpoint dec_digits (fuel : nat) (z : Z) (acc : list Z) : list Z :=
  match fuel with
  | O => acc
  | S f => let acc' := (48 + z mod 10) :: acc in
           if z <? 10 then acc' else dec_digits f (z / 10) acc'
  end.
Definition print_nat_z (z : Z) : list Z := dec_digits (S (Z.to_nat (Z.log2 z))) z [].
Definition print_int (z : Z) : list Z :=
  if z <? 0 then 45 :: print_nat_z (- z) else print_nat_z z.

Definition hex2 (b : Z) : list Z := [hexdigit ((b / 16) mod 16); hexdigit (b mod 16)].
Definition print_bytes (bs : list Z) : list Z := 120 :: flat_map hex2 bs.
Definition print_text (cs : list Z) : list Z := 117 :: flat_map (hex_fixed 6) cs.

Definition print_tok (t : tok) : list Z :=
  match t with
  | TInt z => print_int z
  | TBytes bs => print_bytes bs
  | TText cs => print_text cs
  | TSym s => s
  end.

Fixpoint print_line (ts : list tok) : list Z :=
  match ts with
  | [] => []
  | [t] => print_tok t
  | t :: r => print_tok t ++ 32 :: print_line r
  end.

Definition run_line (h : list tok -> list tok) (line : list Z) : list Z :=
  print_line (h (parse_line line)).

(* symbols are written as Coq strings in handlers *)
From Coq Require Import String Ascii.
Fixpoint zs_of_string (s : string) : list Z :=
  match s with
  | EmptyString => []
  | String a r => Z.of_nat (nat_of_ascii a) :: zs_of_string r
  end.
Definition sym (s : string) : tok := TSym (zs_of_string s).
Fixpoint zs_eqb (a b : list Z) : bool :=
  match a, b with
  | [], [] => true
  | x :: a', y :: b' => (x =? y) && zs_eqb a' b'
  | _, _ => false
  end.
Definition is_sym (s : string) (t : tok) : bool :=
  match t with TSym w => zs_eqb w (zs_of_string s) | _ => false end.
