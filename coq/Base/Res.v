(* Base/Res.v — exceptions as data. A Python [try/except Exception] in the code is a [catch]
   at the same place in the model. *)
From PV Require Import Base.Bytes.

Inductive pyexn :=
  | TypeError | ValueError | KeyError | IndexError | StructError | OverflowError
  | AttributeError | StopIteration | UnicodeError | ZeroDivisionError | NotImplementedError.

Inductive exn :=
  | DataError | BufferEmpty | CommError | RequestError | ResponseError
  | Foreign (k : pyexn).

Inductive res (A : Type) := Ok (a : A) | Err (e : exn).
Arguments Ok {A} a.
Arguments Err {A} e.

Definition bind {A B} (r : res A) (f : A -> res B) : res B :=
  match r with Ok a => f a | Err e => Err e end.
Notation "'let*' x ':=' r 'in' k" := (bind r (fun x => k))
  (at level 200, x pattern, r at level 100, k at level 200).

Definition is_foreign (e : exn) : bool := match e with Foreign _ => true | _ => false end.
Definition is_library {A} (r : res A) : bool :=
  match r with Ok _ => true | Err e => negb (is_foreign e) end.

(* [except Exception as err: raise E from err] *)
Definition wrap_all {A} (e : exn) (r : res A) : res A :=
  match r with Ok a => Ok a | Err _ => Err e end.
(* the DataType.decode wrapper: BufferEmptyError passes, anything else becomes DataError *)
Definition wrap_decode {A} (r : res A) : res A :=
  match r with Ok a => Ok a | Err BufferEmpty => Err BufferEmpty | Err _ => Err DataError end.

Definition exn_code (e : exn) : Z :=
  match e with
  | DataError => 1 | BufferEmpty => 2 | CommError => 3 | RequestError => 4 | ResponseError => 5
  | Foreign TypeError => 10 | Foreign ValueError => 11 | Foreign KeyError => 12
  | Foreign IndexError => 13 | Foreign StructError => 14 | Foreign OverflowError => 15
  | Foreign AttributeError => 16 | Foreign StopIteration => 17 | Foreign UnicodeError => 18
  | Foreign ZeroDivisionError => 19 | Foreign NotImplementedError => 20
  end.
