(* Base/Bytes.v — little-endian integers, two's complement, byte-list helpers.
   Bytes and text are [list Z]; a byte list carries the invariant [bytes_ok]. *)
From Coq Require Export ZArith List Bool Lia.
From Coq Require Import ZifyBool.
Export ListNotations.
Open Scope Z_scope.

Ltac Zify.zify_post_hook ::= Z.to_euclidean_division_equations.

Definition bytes := list Z.

Definition byte_ok (b : Z) : bool := (0 <=? b) && (b <? 256).
Definition bytes_ok (bs : bytes) : bool := forallb byte_ok bs.

(* Python slicing with clamping, for non-negative bounds: bs[a:b] *)
Definition slice (a b : nat) (bs : bytes) : bytes := firstn (b - a) (skipn a bs).

(* little-endian encoding of [z mod 256^w] on [w] bytes *)
Fixpoint le_enc (w : nat) (z : Z) : bytes :=
  match w with
  | O => []
  | S w' => (z mod 256) :: le_enc w' (z / 256)
  end.

Fixpoint le_dec (bs : bytes) : Z :=
  match bs with
  | [] => 0
  | b :: r => b + 256 * le_dec r
  end.

Definition pow256 (w : nat) : Z := 256 ^ (Z.of_nat w).

(* two's complement *)
Definition to_signed (w : nat) (u : Z) : Z :=
  if u <? pow256 w / 2 then u else u - pow256 w.
Definition of_signed (w : nat) (s : Z) : Z := s mod pow256 w.

Definition in_urange (w : nat) (z : Z) : bool := (0 <=? z) && (z <? pow256 w).
Definition in_srange (w : nat) (z : Z) : bool :=
  (- (pow256 w / 2) <=? z) && (z <? pow256 w / 2).

Fixpoint zeros (n : nat) : bytes := match n with O => [] | S n' => 0 :: zeros n' end.

(* hex digits (lower case), as code points *)
Definition hexdigit (d : Z) : Z := if d <? 10 then 48 + d else 87 + d.
Fixpoint hex_fixed (n : nat) (z : Z) : list Z :=   (* n digits, most significant first *)
  match n with
  | O => []
  | S n' => hex_fixed n' (z / 16) ++ [hexdigit (z mod 16)]
  end.
