(* Base/PyStr.v — models of the Python str/bytes primitives pycomm3 uses, on [list Z]
   (code points / bytes).  ASCII semantics; non-ASCII digits and case mappings are outside the
   model (DESIGN.md section 6). Definitions only: lemmas live in Proofs/. *)
From PV Require Import Base.Bytes Base.Proto Base.Res.
Open Scope Z_scope.

Definition text := list Z.

Definition lower_c (c : Z) : Z := if (65 <=? c) && (c <=? 90) then c + 32 else c.
Definition upper_c (c : Z) : Z := if (97 <=? c) && (c <=? 122) then c - 32 else c.
Definition lower (s : text) : text := map lower_c s.
Definition upper (s : text) : text := map upper_c s.

Definition is_ascii_digit (c : Z) : bool := (48 <=? c) && (c <=? 57).
(* str.isdigit() / str.isnumeric() on ASCII text: non-empty and all characters 0-9 *)
Definition isdigit (s : text) : bool := match s with [] => false | _ => forallb is_ascii_digit s end.

Fixpoint starts_with (p s : text) : bool :=
  match p, s with
  | [], _ => true
  | x :: p', y :: s' => (x =? y) && starts_with p' s'
  | _ :: _, [] => false
  end.
Definition ends_with (p s : text) : bool := starts_with (rev p) (rev s).

(* s.find(p): index of the first occurrence, None = -1 *)
Fixpoint find_from (p s : text) (i : nat) : option nat :=
  if starts_with p s then Some i else
  match s with
  | [] => None
  | _ :: s' => find_from p s' (S i)
  end.
Definition find (p s : text) : option nat := find_from p s O.
Definition contains_str (p s : text) : bool := match find p s with Some _ => true | None => false end.
Definition contains_chr (c : Z) (s : text) : bool := existsb (Z.eqb c) s.

(* s.split(sep) for a single-character separator: always at least one field *)
Fixpoint split_chr_aux (sep : Z) (s : text) (cur : text) : list text :=
  match s with
  | [] => [rev cur]
  | c :: r => if c =? sep then rev cur :: split_chr_aux sep r [] else split_chr_aux sep r (c :: cur)
  end.
Definition split_chr (sep : Z) (s : text) : list text := split_chr_aux sep s [].

(* s.replace(a, b) for single characters *)
Definition replace_chr (a b : Z) (s : text) : text := map (fun c => if c =? a then b else c) s.

(* s.replace(p, "") / s.replace(p, q) for a non-empty pattern, leftmost non-overlapping *)
Fixpoint replace_str_fuel (fuel : nat) (p q s : text) : text :=
  match fuel with
  | O => s
  | S f =>
      match s with
      | [] => []
      | c :: r => if starts_with p s then q ++ replace_str_fuel f p q (skipn (length p) s)
                  else c :: replace_str_fuel f p q r
      end
  end.
Definition replace_str (p q s : text) : text :=
  match p with [] => s | _ => replace_str_fuel (S (length s)) p q s end.

(* int(s) for an optional sign and ASCII digits (no whitespace / underscores: outside the model,
   the generators never produce them). Err ValueError otherwise. *)
Fixpoint digits_val (s : text) (acc : Z) : option Z :=
  match s with
  | [] => Some acc
  | c :: r => if is_ascii_digit c then digits_val r (acc * 10 + (c - 48)) else None
  end.
Definition py_int (s : text) : res Z :=
  match s with
  | 45 :: (_ :: _) as r => match digits_val r 0 with Some z => Ok (- z) | None => Err (Foreign ValueError) end
  | 43 :: (_ :: _) as r => match digits_val r 0 with Some z => Ok z | None => Err (Foreign ValueError) end
  | _ :: _ => match digits_val s 0 with Some z => Ok z | None => Err (Foreign ValueError) end
  | [] => Err (Foreign ValueError)
  end.

(* str(n) for an integer *)
Definition py_str_int (z : Z) : text := print_int z.

(* rsplit(sep, maxsplit=1) for a single character: (head, tail) around the LAST occurrence *)
Fixpoint rsplit1_aux (sep : Z) (s : text) : option (text * text) :=
  match s with
  | [] => None
  | c :: r => match rsplit1_aux sep r with
              | Some (h, t) => Some (c :: h, t)
              | None => if c =? sep then Some ([], r) else None
              end
  end.

Fixpoint join (sep : text) (parts : list text) : text :=
  match parts with
  | [] => []
  | [p] => p
  | p :: r => p ++ sep ++ join sep r
  end.

Fixpoint text_eqb (a b : text) : bool :=
  match a, b with
  | [], [] => true
  | x :: a', y :: b' => (x =? y) && text_eqb a' b'
  | _, _ => false
  end.

(* Latin-1 / ASCII encodability *)
Definition latin1_ok (s : text) : bool := forallb (fun c => (0 <=? c) && (c <? 256)) s.
Definition ascii_ok (s : text) : bool := forallb (fun c => (0 <=? c) && (c <? 128)) s.
