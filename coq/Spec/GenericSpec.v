(* Spec/GenericSpec.v — what "the target receives" means for property C14, written with the
   target's own parsers only (Spec/EncapParser.v, Spec/MRParser.v): the composition of the frame
   parser, the message-router request parser, the Unconnected Send unwrapper and the
   class/instance/attribute path reader, in the order Spec/TargetCore.v [step_frame] / [ucmm]
   applies them.  Nothing here is derived from Model/*.v.  Definitions only. *)
From PV Require Import Base.Bytes Spec.EncapParser Spec.MRParser Spec.TargetIface.
Open Scope Z_scope.

(* how the request travelled *)
Inductive dmode :=
  | MConnected (cid seq : Z)                         (* SendUnitData: connection id, sequence count *)
  | MUcmm                                            (* SendRRData, message router directly *)
  | MUcsend (priority ticks : Z) (route : bytes).    (* SendRRData + Unconnected Send: the route path bytes *)

(* what the message router is asked *)
Record delivered := {
  dl_mode : dmode; dl_session : Z;
  dl_service : Z; dl_class : Z; dl_instance : Z; dl_attribute : option Z; dl_data : bytes }.

Definition deliver_mr (m : dmode) (ses : Z) (rq : mr_request) : option delivered :=
  match path_cia (mr_path rq) with
  | Some (c, i, oa) =>
      Some {| dl_mode := m; dl_session := ses; dl_service := mr_service rq; dl_class := c; dl_instance := i;
              dl_attribute := oa; dl_data := mr_data rq |}
  | None => None
  end.

Definition is_unconnected_send (rq : mr_request) : bool :=
  (mr_service rq =? 82) && match path_cia (mr_path rq) with Some (6, 1, None) => true | _ => false end.

Definition spec_extract (fr : bytes) : option delivered :=
  match parse_frame fr with
  | RcErr _ => None
  | RcOk f =>
      match f_body f with
      | BCpf _ AddrNull _ d =>
          match parse_mr d with
          | RcErr _ => None
          | RcOk rq =>
              if is_unconnected_send rq then
                match parse_ucsend (mr_data rq) with
                | RcOk u => deliver_mr (MUcsend (us_priority u) (us_ticks u) (us_route u)) (f_session f) (us_request u)
                | RcErr _ => None
                end
              else deliver_mr MUcmm (f_session f) rq
          end
      | BCpf _ (AddrConn cid) _ (s0 :: s1 :: req) =>
          match parse_mr req with
          | RcOk rq => deliver_mr (MConnected cid (u16 s0 s1)) (f_session f) rq
          | RcErr _ => None
          end
      | _ => None
      end
  end.

(* why nothing is delivered: 0 delivered, 100 + c frame rejected (code c), 200 + c request envelope,
   300 + c Unconnected Send wrapper, 400 request path is not class/instance[/attribute] *)
Definition spec_reject_code (fr : bytes) : Z :=
  match parse_frame fr with
  | RcErr c => 100 + c
  | RcOk f =>
      match f_body f with
      | BCpf _ AddrNull _ d =>
          match parse_mr d with
          | RcErr c => 200 + c
          | RcOk rq =>
              if is_unconnected_send rq then
                match parse_ucsend (mr_data rq) with
                | RcOk u => match path_cia (mr_path (us_request u)) with Some _ => 0 | None => 400 end
                | RcErr c => 300 + c
                end
              else match path_cia (mr_path rq) with Some _ => 0 | None => 400 end
          end
      | BCpf _ (AddrConn cid) _ (s0 :: s1 :: req) =>
          match parse_mr req with
          | RcOk rq => match path_cia (mr_path rq) with Some _ => 0 | None => 400 end
          | RcErr c => 200 + c
          end
      | _ => 199
      end
  end.
