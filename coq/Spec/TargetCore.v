(* Spec/TargetCore.v — the CORE half of the reference target (TARGET.md, DESIGN.md section 4 and
   Appendix A): EtherNet/IP encapsulation, sessions, the connection manager, the UCMM and class-3
   transports, the message-router envelope, the Multiple Service Packet, the Identity object, and
   [basic_handler] (program name 0x64, wall clock 0x8B, scratch objects 0x300..0x3FF).
   A total state machine: [tstep h st frame = (st', optional reply frame)].  Definitions only.

   Sources: EtherNet/IP adaptation of CIP (Vol 2) ch. 2 for the encapsulation; CIP Vol 1 ch. 2-4
   (message router), 3-5 (connection manager: Forward Open / Large Forward Open / Forward Close /
   Unconnected Send, network connection parameters: size in bits 8..0 of a WORD, bits 15..0 of a
   DWORD), ch. 5 Identity object, Appendix A Multiple Service Packet, Appendix B status codes.

   ---- choices (each is a place where the specification leaves room, or where I simplify) ----
   * One target = one TCP peer.  Session handles granted = cfg session_handle + number of sessions
     granted so far (mod 2^32, never 0); O->T connection ids = cfg conn_id + number of connections (mod 2^32, 0 included)
     granted so far: a re-opened driver gets FRESH values, so a stale handle/id is visible.
   * Frames rejected by the strict parser: EvBadFrame code.  Reply = bare header with encapsulation
     status 0x65 (code 3, length), 0x01 (code 4, command), 0x69 (code 11, protocol version), else
     0x03 (incorrect data); no reply when the header itself is unreadable (codes 1, 2) and for
     UnRegisterSession / SendUnitData / NOP (which have no encapsulation reply).
   * Stateful frame rules, logged as EvBadFrame too:
       100  SendRRData / SendUnitData / UnRegisterSession with a session handle that is not registered
            (SendRRData: reply status 0x64; the others: no reply)
       101  SendUnitData whose connected address item is not the O->T id of an open connection of
            this session (no reply, as a real target drops it)
   * EvMalformed (service, why) codes:
         1..4   the message-router request envelope ([parse_mr] code)          -> 0x08 / 0x04
        10+c    Unconnected Send, [parse_ucsend] code c (11..19, 31..34)       -> 0x13 / 0x15 / 0x01 ext 0x0205
        40 Forward Open shorter than its fixed part or its path                 -> 0x13
        41 Forward Open: bytes after the connection path                        -> 0x15
        42 Forward Open: reserved bytes not zero                                -> 0x20
        43 Forward Open: transport class/trigger is not 0xA3                    -> 0x01 ext 0x0103
        44 Forward Open: connection path is not <port segments> 20 02 24 01     -> 0x01 ext 0x0315
        45 Forward Open: route differs from cfg expect_route                    -> 0x01 ext 0x0312
        46 Forward Open: connection size below 16 / above the service's field / -> 0x01 ext 0x0109
        50 Forward Close too short  51 trailing bytes  52 reserved byte not zero
        53 Forward Close: connection path malformed                             -> 0x13 / 0x15 / 0x20 / 0x01 ext 0x0315
        60 Multiple Service: no count  61 count = 0  62 offset table truncated
        63 first offset <> 2 + 2 x count  64 offsets not strictly increasing or beyond the data
                                                                                -> 0x13 / 0x20
        65 Multiple Service nested in a Multiple Service (embedded reply 0x08)
        70+c   embedded request of a Multiple Service is not a request ([parse_mr] code c)   (embedded reply 0x04)
        80 request data given to a service that takes none (Identity Get_Attributes_All, program
           name, scratch Get_Attribute_Single): TOLERATED — logged, then answered normally
        82 wall clock Get_Attribute_List: data is not count + count x UINT      -> 0x13 / 0x15
        83 wall clock Set_Attribute_List: data is not count + (id, ULINT) x count -> 0x13 / 0x15
        90 Unconnected Send route differs from cfg expect_route                 -> 0x01 ext 0x0312
   * EvApp tags of the core (T2's handler uses small tags):
        1000 session granted [handle]        1001 session refused [status]
        1002 session unregistered [handle; connections dropped]
        1010 connection opened [serial; vendor; originator serial; O->T id; T->O id; O->T size; T->O size; large] route
        1011 Forward Open refused [service; status; ext]   1012 connection closed [serial; vendor; originator serial]
        1013 Forward Close of an unknown connection [serial; vendor; originator serial]
        1020 TCP connection dropped [sessions; connections]
        1030 injected error fired [service; status]
        2000 scratch attribute written [class; instance; attribute] data     2001 clock set [microseconds]
   * A connected data item larger than the O->T size: EvOversize, CIP reply status 0x15.
   * A reply never exceeds its transport: [fit] replaces a too-long message-router reply by the
     4-byte error reply status 0x11 (reply data too large) and logs EvReplyTooLarge.  Connected
     capacity handed to the handler = T->O size - 2; unconnected = 504.
   * Error injection: an injection (left, service, status, ext) fires on the (left)-th next
     message-router request with that service (0 = the next one; embedded requests of a 0x0A and
     of an Unconnected Send count, the Unconnected Send wrapper itself does not), answers
     status/ext with no data without executing the request, and is consumed. *)
From PV Require Import Base.Bytes Spec.EncapParser Spec.MRParser Spec.TargetIface.
Open Scope Z_scope.

(* ================================================================ configuration and state *)
Record ident := {
  id_vendor : Z; id_device_type : Z; id_product_code : Z; id_rev_major : Z; id_rev_minor : Z;
  id_status : Z; id_serial : Z; id_product_name : bytes; id_state : Z; id_ip : bytes; id_port : Z }.

Record injection := { inj_left : Z; inj_service : Z; inj_status : Z; inj_ext : list Z }.

Record tcfg := {
  cf_accept_session : bool; cf_session_handle : Z; cf_session_refuse_status : Z;
  cf_accept_large_fo : bool; cf_accept_std_fo : bool; cf_fo_refuse_ext : Z;
  cf_conn_id : Z; cf_max_large_size : Z; cf_multi_service : bool;
  cf_ident : ident; cf_expect_route : option bytes }.

Record conn := {
  c_serial : Z; c_vendor : Z; c_oserial : Z;        (* the triple that names a connection *)
  c_ot_id : Z;                                      (* chosen by the target; the client addresses its 0x70 frames with it *)
  c_to_id : Z;                                      (* chosen by the originator; the target addresses its replies with it *)
  c_ot_size : Z; c_to_size : Z; c_large : bool;
  c_session : Z; c_route : bytes }.

Record tstate (S : Type) := {
  t_cfg : tcfg; t_app : S;
  t_sessions : list Z; t_conns : list conn;
  t_nsessions : Z; t_nconns : Z;                    (* granted so far *)
  t_inject : list injection;
  t_log : list tevent;                              (* NEWEST FIRST *)
  t_nlog : Z }.
Arguments t_cfg {S}. Arguments t_app {S}. Arguments t_sessions {S}. Arguments t_conns {S}.
Arguments t_nsessions {S}. Arguments t_nconns {S}. Arguments t_inject {S}. Arguments t_log {S}.
Arguments t_nlog {S}.

Definition default_ident : ident :=
  {| id_vendor := 1; id_device_type := 14; id_product_code := 167; id_rev_major := 32; id_rev_minor := 11;
     id_status := 12384 (* 0x3060 *); id_serial := 12648430 (* 0x00C0FFEE *);
     id_product_name := [49; 55; 53; 54; 45; 76; 56; 51; 69; 47; 66] (* 1756-L83E/B *);
     id_state := 3; id_ip := [192; 168; 1; 10]; id_port := 44818 |}.

Definition default_cfg : tcfg :=
  {| cf_accept_session := true; cf_session_handle := 16777217 (* 0x01000001 *); cf_session_refuse_status := 105 (* 0x69 *);
     cf_accept_large_fo := true; cf_accept_std_fo := true; cf_fo_refuse_ext := 282 (* 0x011A *);
     cf_conn_id := 12648449 (* 0x00C10001 *); cf_max_large_size := 4002; cf_multi_service := true;
     cf_ident := default_ident; cf_expect_route := None |}.

Definition init_tstate {S} (app : S) : tstate S :=
  {| t_cfg := default_cfg; t_app := app; t_sessions := []; t_conns := []; t_nsessions := 0; t_nconns := 0;
     t_inject := []; t_log := []; t_nlog := 0 |}.

Definition set_cfg {S} (c : tcfg) (st : tstate S) : tstate S :=
  {| t_cfg := c; t_app := t_app st; t_sessions := t_sessions st; t_conns := t_conns st;
     t_nsessions := t_nsessions st; t_nconns := t_nconns st; t_inject := t_inject st;
     t_log := t_log st; t_nlog := t_nlog st |}.
Definition set_app {S} (a : S) (st : tstate S) : tstate S :=
  {| t_cfg := t_cfg st; t_app := a; t_sessions := t_sessions st; t_conns := t_conns st;
     t_nsessions := t_nsessions st; t_nconns := t_nconns st; t_inject := t_inject st;
     t_log := t_log st; t_nlog := t_nlog st |}.
Definition set_sessions {S} (l : list Z) (n : Z) (st : tstate S) : tstate S :=
  {| t_cfg := t_cfg st; t_app := t_app st; t_sessions := l; t_conns := t_conns st;
     t_nsessions := n; t_nconns := t_nconns st; t_inject := t_inject st;
     t_log := t_log st; t_nlog := t_nlog st |}.
Definition set_conns {S} (l : list conn) (n : Z) (st : tstate S) : tstate S :=
  {| t_cfg := t_cfg st; t_app := t_app st; t_sessions := t_sessions st; t_conns := l;
     t_nsessions := t_nsessions st; t_nconns := n; t_inject := t_inject st;
     t_log := t_log st; t_nlog := t_nlog st |}.
Definition set_inject {S} (l : list injection) (st : tstate S) : tstate S :=
  {| t_cfg := t_cfg st; t_app := t_app st; t_sessions := t_sessions st; t_conns := t_conns st;
     t_nsessions := t_nsessions st; t_nconns := t_nconns st; t_inject := l;
     t_log := t_log st; t_nlog := t_nlog st |}.
(* append events (given oldest first) *)
Definition logs {S} (evs : list tevent) (st : tstate S) : tstate S :=
  {| t_cfg := t_cfg st; t_app := t_app st; t_sessions := t_sessions st; t_conns := t_conns st;
     t_nsessions := t_nsessions st; t_nconns := t_nconns st; t_inject := t_inject st;
     t_log := rev_append evs (t_log st); t_nlog := t_nlog st + Z.of_nat (List.length evs) |}.
Definition zlen {A} (l : list A) : Z := Z.of_nat (List.length l).
Definition log_chrono {S} (st : tstate S) : list tevent := rev_append (t_log st) [].

(* ================================================================ message-router replies *)
Definition mr_error (status : Z) (ext : list Z) : mr_reply := {| rp_status := status; rp_ext := ext; rp_data := [] |}.
Definition mr_ok (d : bytes) : mr_reply := {| rp_status := 0; rp_ext := []; rp_data := d |}.

Definition reply_service (svc : Z) : Z := svc mod 128 + 128.
(* service | 0x80, reserved 0, general status, number of extended status words, the words, data *)
Definition mr_bytes (svc : Z) (r : mr_reply) : bytes :=
  reply_service svc :: 0 :: (rp_status r mod 256) :: (blen (rp_ext r) mod 256)
  :: flat_map (le_enc 2) (rp_ext r) ++ rp_data r.
Definition too_large_reply (svc : Z) : bytes := [reply_service svc; 0; 17; 0].   (* 0x11 reply data too large *)
Definition reply_status (bs : bytes) : Z := nth 2 bs 0.

(* never hand back more than the transport carries *)
Definition fit (cap : Z) (svc : Z) (bs : bytes) : bytes * list tevent :=
  if blen bs <=? cap then (bs, []) else (too_large_reply svc, [EvReplyTooLarge cap (blen bs)]).

Definition UCMM_CAPACITY : Z := 504.
Definition MIN_CONN_SIZE : Z := 16.

(* ================================================================ error injection *)
Definition inj_dec (i : injection) : injection :=
  {| inj_left := inj_left i - 1; inj_service := inj_service i; inj_status := inj_status i; inj_ext := inj_ext i |}.

Fixpoint take_injection (svc : Z) (l : list injection) (fired : option injection)
  : option injection * list injection :=
  match l with
  | [] => (fired, [])
  | i :: r =>
      if inj_service i =? svc then
        match fired with
        | None =>
            if inj_left i <=? 0
            then take_injection svc r (Some i)
            else let (f, r') := take_injection svc r None in (f, inj_dec i :: r')
        | Some _ => let (f, r') := take_injection svc r fired in (f, inj_dec i :: r')
        end
      else let (f, r') := take_injection svc r fired in (f, i :: r')
  end.

Definition with_injection {S} (st : tstate S) (svc : Z) (k : tstate S -> tstate S * mr_reply)
  : tstate S * mr_reply :=
  match take_injection svc (t_inject st) None with
  | (Some i, rest) =>
      (logs [EvApp 1030 [svc; inj_status i] []] (set_inject rest st), mr_error (inj_status i) (inj_ext i))
  | (None, rest) => k (set_inject rest st)
  end.

(* ================================================================ Identity object *)
Definition short_string (s : bytes) : bytes := (blen s mod 256) :: s.

Definition identity_attrs (i : ident) : bytes :=
  le_enc 2 (id_vendor i) ++ le_enc 2 (id_device_type i) ++ le_enc 2 (id_product_code i)
  ++ [id_rev_major i mod 256; id_rev_minor i mod 256] ++ le_enc 2 (id_status i)
  ++ le_enc 4 (id_serial i) ++ short_string (id_product_name i).

(* ListIdentity reply data: item count 1; item 0x000C; length; encapsulation version 1; socket
   address (sin_family 2, port, IPv4 address: BIG-endian; 8 zero bytes); the identity attributes;
   state *)
Definition list_identity_body (i : ident) : bytes :=
  let item := le_enc 2 1 ++ [0; 2] ++ [(id_port i / 256) mod 256; id_port i mod 256] ++ id_ip i ++ zeros 8
              ++ identity_attrs i ++ [id_state i mod 256] in
  le_enc 2 1 ++ le_enc 2 12 ++ le_enc 2 (blen item) ++ item.

(* ListServices reply: one item 0x0100 "Communications": version 1, capability flags 0x0120
   (CIP over TCP, class 0/1 over UDP), 16-byte name *)
Definition list_services_body : bytes :=
  le_enc 2 1 ++ le_enc 2 256 ++ le_enc 2 20 ++ le_enc 2 1 ++ le_enc 2 288
  ++ [67; 111; 109; 109; 117; 110; 105; 99; 97; 116; 105; 111; 110; 115; 0; 0].

(* ================================================================ message router *)
(* one (non-Multiple-Service) request: log, injection, Identity object, else the handler *)
Definition dispatch_one {S} (h : handler S) (tr : transport) (cap : Z) (seq : option Z)
  (st : tstate S) (rq : mr_request) : tstate S * mr_reply :=
  with_injection (logs [EvRequest tr seq rq] st) (mr_service rq) (fun st2 =>
    match path_cia (mr_path rq) with
    | Some (1, inst, None) =>
        if negb (inst =? 1) then (st2, mr_error 5 [])
        else if negb (mr_service rq =? 1) then (st2, mr_error 8 [])
        else
          let st3 := match mr_data rq with [] => st2 | _ => logs [EvMalformed 1 80] st2 end in
          (st3, mr_ok (identity_attrs (cf_ident (t_cfg st3))))
    | Some (1, _, Some _) => (st2, mr_error 8 [])
    | Some (2, _, _) => (st2, mr_error 8 [])
    | _ =>
        match h_request h (t_app st2) tr cap rq with
        | Some (app', rp, evs) => (logs evs (set_app app' st2), rp)
        | None => (st2, mr_error 5 [])
        end
    end).

(* ---------------------------------------------------------------- Multiple Service Packet *)
Fixpoint rd_offsets (n : nat) (bs : bytes) : option (list Z) :=
  match n with
  | O => Some []
  | S n' => match bs with
            | a :: b :: r => match rd_offsets n' r with Some l => Some (u16 a b :: l) | None => None end
            | _ => None
            end
  end.

(* cut [rest] (which starts at offset [cur]) at the following offsets; the last piece runs to the end *)
Fixpoint cut_slices (cur : Z) (next : list Z) (rest : bytes) : option (list bytes) :=
  match next with
  | [] => match rest with [] => None | _ => Some [rest] end
  | o :: next' =>
      if o <=? cur then None else
      match takez (o - cur) rest with
      | None => None
      | Some (piece, rest') =>
          match cut_slices o next' rest' with
          | Some l => Some (piece :: l)
          | None => None
          end
      end
  end.

(* -> the embedded requests' byte strings, or the EvMalformed code *)
Definition parse_multi (d : bytes) : res_or_code (list bytes) :=
  match d with
  | c0 :: c1 :: r =>
      let n := u16 c0 c1 in
      if n =? 0 then RcErr 61 else
      match rd_offsets (Z.to_nat n) r with
      | None => RcErr 62
      | Some [] => RcErr 61
      | Some (o0 :: os) =>
          if negb (o0 =? 2 + 2 * n) then RcErr 63 else
          match cut_slices o0 os (skipn (Z.to_nat (2 * n)) r) with
          | None => RcErr 64
          | Some l => RcOk l
          end
      end
  | _ => RcErr 60
  end.

Definition is_multi_request (rq : mr_request) : bool :=
  (mr_service rq =? 10) && match path_cia (mr_path rq) with Some (2, 1, None) => true | _ => false end.

(* one embedded request -> its reply bytes (fitted to [cap]) *)
Definition multi_one {S} (h : handler S) (tr : transport) (cap : Z) (seq : option Z)
  (st : tstate S) (it : bytes) : tstate S * bytes :=
  match parse_mr it with
  | RcErr c => (logs [EvMalformed (nth 0 it 0) (70 + c)] st, [reply_service (nth 0 it 0); 0; 4; 0])
  | RcOk rq =>
      if is_multi_request rq
      then (logs [EvRequest tr seq rq; EvMalformed 10 65] st, [reply_service 10; 0; 8; 0])
      else
        let '(st1, rp) := dispatch_one h tr cap seq st rq in
        let '(bs, evs) := fit cap (mr_service rq) (mr_bytes (mr_service rq) rp) in
        (logs evs st1, bs)
  end.

(* [left] = bytes still available for this and the later replies; [later] = number of later items
   (each keeps 4 bytes in reserve so that it can at least be answered by an error) *)
Fixpoint multi_run {S} (h : handler S) (tr : transport) (seq : option Z) (left : Z) (later : Z)
  (items : list bytes) (st : tstate S) (acc : list bytes) : tstate S * list bytes :=
  match items with
  | [] => (st, rev_append acc [])
  | it :: rest =>
      let '(st1, bs) := multi_one h tr (left - 4 * (later - 1)) seq st it in
      multi_run h tr seq (left - blen bs) (later - 1) rest st1 (bs :: acc)
  end.

Fixpoint offsets_of (cur : Z) (l : list bytes) : bytes :=
  match l with
  | [] => []
  | b :: r => le_enc 2 cur ++ offsets_of (cur + blen b) r
  end.

Definition any_error (l : list bytes) : bool := existsb (fun b => negb (reply_status b =? 0)) l.

Definition multi_service {S} (h : handler S) (tr : transport) (cap : Z) (seq : option Z)
  (st : tstate S) (rq : mr_request) : tstate S * mr_reply :=
  with_injection (logs [EvRequest tr seq rq] st) 10 (fun st2 =>
    if negb (cf_multi_service (t_cfg st2)) then (st2, mr_error 8 []) else
    match parse_multi (mr_data rq) with
    | RcErr c => (logs [EvMalformed 10 c] st2, mr_error (if (c =? 60) || (c =? 62) then 19 else 32) [])
    | RcOk items =>
        let n := zlen items in
        let '(st3, reps) := multi_run h tr seq (cap - 6 - 2 * n) n items st2 [] in
        (st3, {| rp_status := if any_error reps then 30 else 0; rp_ext := [];
                 rp_data := le_enc 2 n ++ offsets_of (2 + 2 * n) reps ++ concat reps |})
    end).

(* envelope, fit to the transport, log the reply *)
Definition finish_reply {S} (cap svc : Z) (p : tstate S * mr_reply) : tstate S * bytes :=
  let '(st1, rp) := p in
  let '(bs, evs) := fit cap svc (mr_bytes svc rp) in
  (logs (evs ++ [EvReply (reply_status bs) (List.length bs)]) st1, bs).

(* a message-router request -> the reply bytes, fitted to the transport, logged *)
Definition dispatch {S} (h : handler S) (tr : transport) (cap : Z) (seq : option Z)
  (st : tstate S) (rq : mr_request) : tstate S * bytes :=
  finish_reply cap (mr_service rq)
    (if is_multi_request rq then multi_service h tr cap seq st rq else dispatch_one h tr cap seq st rq).

(* ================================================================ connection manager *)
Definition rd (n : Z) (bs : bytes) : option (Z * bytes) :=
  match takez n bs with Some (a, r) => Some (le_dec a, r) | None => None end.
Notation "'do' x , r <- e ; k" := (match e with Some (x, r) => k | None => None end)
  (at level 200, x name, r name, e at level 100, k at level 200).

Record fo_req := {
  fo_tick : Z; fo_ticks : Z; fo_ot_id : Z; fo_to_id : Z; fo_serial : Z; fo_vendor : Z; fo_oserial : Z;
  fo_multiplier : Z; fo_reserved : Z; fo_ot_rpi : Z; fo_ot_params : Z; fo_to_rpi : Z; fo_to_params : Z;
  fo_transport : Z; fo_path_words : Z }.

(* the fixed part, and what follows the path-size byte *)
Definition parse_fo (large : bool) (d : bytes) : option (fo_req * bytes) :=
  let pw := if large then 4 else 2 in
  do tick, r <- rd 1 d; do ticks, r <- rd 1 r; do otid, r <- rd 4 r; do toid, r <- rd 4 r;
  do csn, r <- rd 2 r; do vid, r <- rd 2 r; do osn, r <- rd 4 r; do mult, r <- rd 1 r;
  do rsv, r <- rd 3 r; do otrpi, r <- rd 4 r; do otpar, r <- rd pw r; do torpi, r <- rd 4 r;
  do topar, r <- rd pw r; do tcls, r <- rd 1 r; do words, r <- rd 1 r;
  Some ({| fo_tick := tick; fo_ticks := ticks; fo_ot_id := otid; fo_to_id := toid; fo_serial := csn;
           fo_vendor := vid; fo_oserial := osn; fo_multiplier := mult; fo_reserved := rsv;
           fo_ot_rpi := otrpi; fo_ot_params := otpar; fo_to_rpi := torpi; fo_to_params := topar;
           fo_transport := tcls; fo_path_words := words |}, r).

(* connection size: bits 8..0 of the WORD / bits 15..0 of the DWORD network connection parameters *)
Definition conn_size (large : bool) (params : Z) : Z := if large then params mod 65536 else params mod 512.

Definition MR_PATH : bytes := [32; 2; 36; 1].        (* class 2 (message router), instance 1 *)
Fixpoint bytes_eqb (a b : bytes) : bool :=
  match a, b with
  | [], [] => true
  | x :: a', y :: b' => (x =? y) && bytes_eqb a' b'
  | _, _ => false
  end.

Definition same_triple (s v o : Z) (c : conn) : bool := (c_serial c =? s) && (c_vendor c =? v) && (c_oserial c =? o).

Definition norm32 (v : Z) : Z := let w := v mod 4294967296 in if w =? 0 then 1 else w.
(* connection ids are ANY 32-bit value, 0 included (a target chooses them arbitrarily) *)
Definition wrap32 (v : Z) : Z := v mod 4294967296.

Definition fo_fail_data (f : fo_req) : bytes :=
  le_enc 2 (fo_serial f) ++ le_enc 2 (fo_vendor f) ++ le_enc 4 (fo_oserial f) ++ [0; 0].

Definition route_expected (cfg : tcfg) (route : bytes) : bool :=
  match cf_expect_route cfg with None => true | Some e => bytes_eqb e route end.

Definition forward_open {S} (large : bool) (session : Z) (st : tstate S) (rq : mr_request) : tstate S * mr_reply :=
  let svc := mr_service rq in
  let bad (why status : Z) (ext : list Z) (data : bytes) :=
    (logs [EvMalformed svc why; EvApp 1011 (svc :: status :: ext) []] st,
     {| rp_status := status; rp_ext := ext; rp_data := data |}) in
  let refuse (status : Z) (ext : list Z) (data : bytes) :=
    (logs [EvApp 1011 (svc :: status :: ext) []] st, {| rp_status := status; rp_ext := ext; rp_data := data |}) in
  match parse_fo large (mr_data rq) with
  | None => bad 40 19 [] []
  | Some (f, path) =>
      if blen path <? 2 * fo_path_words f then bad 40 19 [] []
      else if 2 * fo_path_words f <? blen path then bad 41 21 [] []
      else if negb (fo_reserved f =? 0) then bad 42 32 [] []
      else if negb (fo_transport f =? 163) then bad 43 1 [259] (fo_fail_data f)
      else
        match split_conn_path path with
        | None => bad 44 1 [789] (fo_fail_data f)
        | Some (route, rest) =>
            if negb (bytes_eqb rest MR_PATH) then bad 44 1 [789] (fo_fail_data f)
            else if negb (route_expected (t_cfg st) route) then bad 45 1 [786] (fo_fail_data f)
            else
              let ots := conn_size large (fo_ot_params f) in
              let tos := conn_size large (fo_to_params f) in
              if large && negb (cf_accept_large_fo (t_cfg st)) then refuse 8 [] []
              else if negb large && negb (cf_accept_std_fo (t_cfg st))
                then refuse 1 [cf_fo_refuse_ext (t_cfg st)] (fo_fail_data f)
              else if (ots <? MIN_CONN_SIZE) || (tos <? MIN_CONN_SIZE) then bad 46 1 [265] (fo_fail_data f)
              else if large && ((cf_max_large_size (t_cfg st) <? ots) || (cf_max_large_size (t_cfg st) <? tos))
                then refuse 1 [265] (fo_fail_data f)
              else if existsb (same_triple (fo_serial f) (fo_vendor f) (fo_oserial f)) (t_conns st)
                then refuse 1 [256] (fo_fail_data f)
              else
                let otid := wrap32 (cf_conn_id (t_cfg st) + t_nconns st) in
                let c := {| c_serial := fo_serial f; c_vendor := fo_vendor f; c_oserial := fo_oserial f;
                            c_ot_id := otid; c_to_id := fo_to_id f; c_ot_size := ots; c_to_size := tos;
                            c_large := large; c_session := session; c_route := route |} in
                (logs [EvApp 1010 [fo_serial f; fo_vendor f; fo_oserial f; otid; fo_to_id f; ots; tos;
                                   if large then 1 else 0] route]
                      (set_conns (c :: t_conns st) (t_nconns st + 1) st),
                 mr_ok (le_enc 4 otid ++ le_enc 4 (fo_to_id f) ++ le_enc 2 (fo_serial f)
                        ++ le_enc 2 (fo_vendor f) ++ le_enc 4 (fo_oserial f)
                        ++ le_enc 4 (fo_ot_rpi f) ++ le_enc 4 (fo_to_rpi f) ++ [0; 0]))
        end
  end.

(* Forward Close: tick, ticks, connection serial, vendor, originator serial, path words, reserved, path *)
Definition forward_close {S} (st : tstate S) (rq : mr_request) : tstate S * mr_reply :=
  let bad (why status : Z) (ext : list Z) := (logs [EvMalformed 78 why] st, mr_error status ext) in
  match (do tick, r <- rd 1 (mr_data rq); do ticks, r <- rd 1 r; do csn, r <- rd 2 r; do vid, r <- rd 2 r;
         do osn, r <- rd 4 r; do words, r <- rd 1 r; do rsv, r <- rd 1 r; Some (csn, vid, osn, words, rsv, r)) with
  | None => bad 50 19 []
  | Some (csn, vid, osn, words, rsv, path) =>
      if blen path <? 2 * words then bad 50 19 []
      else if 2 * words <? blen path then bad 51 21 []
      else if negb (rsv =? 0) then bad 52 32 []
      else
        match split_conn_path path with
        | None => bad 53 1 [789]
        | Some (route, rest) =>
            if negb (bytes_eqb rest MR_PATH) then bad 53 1 [789]
            else
              let ids := le_enc 2 csn ++ le_enc 2 vid ++ le_enc 4 osn in
              if existsb (same_triple csn vid osn) (t_conns st)
              then (logs [EvApp 1012 [csn; vid; osn] []]
                         (set_conns (filter (fun c => negb (same_triple csn vid osn c)) (t_conns st)) (t_nconns st) st),
                    mr_ok (ids ++ [0; 0]))
              else (logs [EvApp 1013 [csn; vid; osn] []] st,
                    {| rp_status := 1; rp_ext := [263]; rp_data := ids ++ [0; 0] |})
        end
  end.

Definition ucsend_status (c : Z) : mr_reply :=
  if (c =? 1) || (c =? 2) || (c =? 3) || (c =? 5) || (c =? 7) then mr_error 19 []
  else if c =? 8 then mr_error 21 []
  else mr_error 1 [517].                                        (* 0x0205 unconnected send parameter error *)

(* a message-router request that arrived over SendRRData -> reply bytes *)
Definition ucmm {S} (h : handler S) (session : Z) (st : tstate S) (rq : mr_request) : tstate S * bytes :=
  let svc := mr_service rq in
  let finish := finish_reply UCMM_CAPACITY svc in
  match path_cia (mr_path rq) with
  | Some (6, 1, None) =>
      if svc =? 82 then                                           (* 0x52 Unconnected Send *)
        match parse_ucsend (mr_data rq) with
        | RcErr c => finish (logs [EvRequest TUcmm None rq; EvMalformed 82 (10 + c)] st, ucsend_status c)
        | RcOk u =>
            if negb (route_expected (t_cfg st) (us_route u))
            then finish (logs [EvRequest TUcmm None rq; EvMalformed 82 90] st,
                         {| rp_status := 1; rp_ext := [786]; rp_data := [blen (us_route u) / 2] |})
            else dispatch h (TUnconnSend (us_route u)) UCMM_CAPACITY None st (us_request u)
        end
      else
        let st0 := logs [EvRequest TUcmm None rq] st in
        if svc =? 84 then finish (with_injection st0 svc (fun s => forward_open false session s rq))
        else if svc =? 91 then finish (with_injection st0 svc (fun s => forward_open true session s rq))
        else if svc =? 78 then finish (with_injection st0 svc (fun s => forward_close s rq))
        else finish (st0, mr_error 8 [])
  | _ => dispatch h TUcmm UCMM_CAPACITY None st rq
  end.

(* the data item of a SendRRData -> reply data item, or None when not even a service byte is there *)
Definition ucmm_item {S} (h : handler S) (session : Z) (st : tstate S) (data : bytes) : tstate S * option bytes :=
  match parse_mr data with
  | RcOk rq => let '(st1, bs) := ucmm h session st rq in (st1, Some bs)
  | RcErr c =>
      let svc := nth 0 data 0 in
      let st1 := logs [EvMalformed svc c] st in
      if c =? 1 then (st1, None)
      else let bs := [reply_service svc; 0; if c =? 2 then 8 else 4; 0] in
           (logs [EvReply (reply_status bs) 4] st1, Some bs)
  end.

(* ================================================================ encapsulation *)
Definition encap_reply (cmd session status : Z) (ctx body : bytes) : bytes :=
  mk_header cmd (blen body) session status ctx 0 ++ body.

Definition mem_z (x : Z) (l : list Z) : bool := existsb (Z.eqb x) l.

Definition bad_frame_status (code : Z) : Z :=
  if code =? 3 then 101 else if code =? 4 then 1 else if code =? 11 then 105 else 3.

Definition step_frame {S} (h : handler S) (st : tstate S) (f : frame) : tstate S * option bytes :=
  let cmd := f_cmd f in
  let ses := f_session f in
  let ctx := f_context f in
  match f_body f with
  | BNop _ => (st, None)
  | BRegister =>
      if cf_accept_session (t_cfg st) then
        let hd := norm32 (cf_session_handle (t_cfg st) + t_nsessions st) in
        (logs [EvApp 1000 [hd] []] (set_sessions (hd :: t_sessions st) (t_nsessions st + 1) st),
         Some (encap_reply cmd hd 0 ctx [1; 0; 0; 0]))
      else
        (logs [EvApp 1001 [cf_session_refuse_status (t_cfg st)] []] st,
         Some (encap_reply cmd 0 (cf_session_refuse_status (t_cfg st)) ctx []))
  | BEmpty =>
      if cmd =? CMD_LIST_IDENTITY then (st, Some (encap_reply cmd ses 0 ctx (list_identity_body (cf_ident (t_cfg st)))))
      else if cmd =? CMD_LIST_SERVICES then (st, Some (encap_reply cmd ses 0 ctx list_services_body))
      else if cmd =? CMD_LIST_INTERFACES then (st, Some (encap_reply cmd ses 0 ctx [0; 0]))
      else (* UnRegisterSession *)
        if mem_z ses (t_sessions st) then
          let keep := filter (fun c => negb (c_session c =? ses)) (t_conns st) in
          (logs [EvApp 1002 [ses; zlen (t_conns st) - zlen keep] []]
                (set_conns keep (t_nconns st)
                   (set_sessions (filter (fun x => negb (x =? ses)) (t_sessions st)) (t_nsessions st) st)),
           None)
        else (logs [EvBadFrame 100] st, None)
  | BCpf tmo addr dty data =>
      if negb (mem_z ses (t_sessions st)) then
        (logs [EvBadFrame 100] st,
         if cmd =? CMD_RRDATA then Some (encap_reply cmd ses 100 ctx []) else None)
      else
        match addr with
        | AddrNull =>
            match ucmm_item h ses st data with
            | (st1, Some bs) => (st1, Some (encap_reply cmd ses 0 ctx (mk_cpf 0 AddrNull ITEM_UNCONN_DATA bs)))
            | (st1, None) => (st1, Some (encap_reply cmd ses 3 ctx []))
            end
        | AddrConn cid =>
            match find (fun c => (c_ot_id c =? cid) && (c_session c =? ses)) (t_conns st) with
            | None => (logs [EvBadFrame 101] st, None)
            | Some c =>
                match data with
                | s0 :: s1 :: req =>
                    let seq := u16 s0 s1 in
                    let send (st1 : tstate S) (bs : bytes) :=
                      (st1, Some (encap_reply cmd ses 0 ctx
                                    (mk_cpf 0 (AddrConn (c_to_id c)) ITEM_CONN_DATA (le_enc 2 seq ++ bs)))) in
                    if c_ot_size c <? blen data then
                      let bs := [reply_service (nth 0 req 0); 0; 21; 0] in
                      send (logs [EvOversize (c_ot_size c) (blen data); EvReply 21 4] st) bs
                    else
                      match parse_mr req with
                      | RcOk rq =>
                          let '(st1, bs) := dispatch h (TConnected (c_serial c)) (c_to_size c - 2) (Some seq) st rq in
                          send st1 bs
                      | RcErr e =>
                          let svc := nth 0 req 0 in
                          let bs := [reply_service svc; 0; if e =? 2 then 8 else 4; 0] in
                          send (logs [EvMalformed svc e; EvReply (reply_status bs) 4] st) bs
                      end
                | _ => (st, None)        (* excluded by the frame parser (rule 31) *)
                end
            end
        end
  end.

Definition tstep {S} (h : handler S) (st : tstate S) (bs : bytes) : tstate S * option bytes :=
  match parse_header bs with
  | None => (logs [EvBadFrame (match parse_frame bs with RcErr c => c | RcOk _ => 2 end)] st, None)
  | Some (hd, _) =>
      let st0 := logs [EvFrame (h_cmd hd) (h_session hd) (List.length bs)] st in
      match parse_frame bs with
      | RcErr c =>
          (logs [EvBadFrame c] st0,
           if (c =? 1) || (h_cmd hd =? CMD_NOP) || (h_cmd hd =? CMD_UNREGISTER) || (h_cmd hd =? CMD_UNITDATA)
           then None
           else Some (encap_reply (h_cmd hd) (h_session hd) (bad_frame_status c) (h_context hd) []))
      | RcOk f => step_frame h st0 f
      end
  end.

(* the TCP connection dropped: everything of this client vanishes *)
Definition tclosed {S} (st : tstate S) : tstate S :=
  logs [EvApp 1020 [zlen (t_sessions st); zlen (t_conns st)] []]
       (set_conns [] (t_nconns st) (set_sessions [] (t_nsessions st) st)).

(* ================================================================ basic_handler *)
Record basic_state := {
  bs_plc_name : bytes;
  bs_clock_us : Z;
  bs_store : list (Z * Z * Z * bytes) }.     (* scratch attributes: class, instance, attribute -> value *)

Definition init_basic : basic_state :=
  {| bs_plc_name := [80; 76; 67; 95; 65] (* PLC_A *); bs_clock_us := 1700000000000000; bs_store := [] |}.

Definition store_key_eqb (c i a : Z) (e : Z * Z * Z * bytes) : bool :=
  let '(c', i', a', _) := e in (c =? c') && (i =? i') && (a =? a').
Definition store_get (c i a : Z) (l : list (Z * Z * Z * bytes)) : option bytes :=
  match find (store_key_eqb c i a) l with Some (_, _, _, v) => Some v | None => None end.
Definition store_set (c i a : Z) (v : bytes) (l : list (Z * Z * Z * bytes)) : list (Z * Z * Z * bytes) :=
  (c, i, a, v) :: filter (fun e => negb (store_key_eqb c i a e)) l.

Definition set_clock (us : Z) (b : basic_state) : basic_state :=
  {| bs_plc_name := bs_plc_name b; bs_clock_us := us; bs_store := bs_store b |}.
Definition set_plc_name (n : bytes) (b : basic_state) : basic_state :=
  {| bs_plc_name := n; bs_clock_us := bs_clock_us b; bs_store := bs_store b |}.
Definition set_store (l : list (Z * Z * Z * bytes)) (b : basic_state) : basic_state :=
  {| bs_plc_name := bs_plc_name b; bs_clock_us := bs_clock_us b; bs_store := l |}.

(* reply data must fit: 4 bytes of envelope + data <= capacity, else 0x11 *)
Definition ok_if_fits (cap : Z) (d : bytes) : mr_reply :=
  if 4 + blen d <=? cap then mr_ok d else mr_error 17 [].

(* wall clock Get_Attribute_List: attributes 6 and 11 are two views of the one microsecond counter *)
Fixpoint clock_get_items (us : Z) (ids : list Z) : bytes * bool :=
  match ids with
  | [] => ([], false)
  | a :: r =>
      let '(rest, bad) := clock_get_items us r in
      if (a =? 6) || (a =? 11) then (le_enc 2 a ++ [0; 0] ++ le_enc 8 us ++ rest, bad)
      else (le_enc 2 a ++ [20; 0] ++ rest, true)               (* 0x14 attribute not supported *)
  end.

(* Set_Attribute_List items: (id, ULINT) pairs for the ids this object knows; an unknown id stops
   the parse (its value length is unknown): [Some (pairs, unknown id or -1)] *)
Fixpoint clock_set_items (n : nat) (d : bytes) : option (list (Z * Z) * Z * bytes) :=
  match n with
  | O => Some ([], -1, d)
  | S n' =>
      match d with
      | a0 :: a1 :: r =>
          let a := u16 a0 a1 in
          if (a =? 6) || (a =? 11) then
            match rd 8 r with
            | Some (v, r') =>
                match clock_set_items n' r' with
                | Some (l, u, rest) => Some ((a, v) :: l, u, rest)
                | None => None
                end
            | None => None
            end
          else Some ([], a, [])
      | _ => None
      end
  end.

Definition basic_request (b : basic_state) (tr : transport) (cap : Z) (rq : mr_request)
  : option (basic_state * mr_reply * list tevent) :=
  let svc := mr_service rq in
  let data := mr_data rq in
  let extra_data := match data with [] => [] | _ => [EvMalformed svc 80] end in
  match path_cia (mr_path rq) with
  | Some (100, 1, None) =>                                       (* 0x64 program name *)
      if svc =? 1
      then Some (b, ok_if_fits cap (le_enc 2 (blen (bs_plc_name b)) ++ bs_plc_name b), extra_data)
      else Some (b, mr_error 8 [], [])
  | Some (100, _, _) => Some (b, mr_error 5 [], [])
  | Some (139, 1, None) =>                                       (* 0x8B wall clock time *)
      if svc =? 3 then
        match data with
        | c0 :: c1 :: r =>
            let n := u16 c0 c1 in
            if blen r <? 2 * n then Some (b, mr_error 19 [], [EvMalformed svc 82])
            else if 2 * n <? blen r then Some (b, mr_error 21 [], [EvMalformed svc 82])
            else match rd_offsets (Z.to_nat n) r with
                 | None => Some (b, mr_error 19 [], [EvMalformed svc 82])
                 | Some ids =>
                     let '(items, bad) := clock_get_items (bs_clock_us b) ids in
                     let d := le_enc 2 n ++ items in
                     if 4 + blen d <=? cap
                     then Some (b, {| rp_status := if bad then 10 else 0; rp_ext := []; rp_data := d |}, [])
                     else Some (b, mr_error 17 [], [])
                 end
        | _ => Some (b, mr_error 19 [], [EvMalformed svc 82])
        end
      else if svc =? 4 then
        match data with
        | c0 :: c1 :: r =>
            let n := u16 c0 c1 in
            match clock_set_items (Z.to_nat n) r with
            | None => Some (b, mr_error 19 [], [EvMalformed svc 83])
            | Some (pairs, unknown, rest) =>
                match rest with
                | _ :: _ => Some (b, mr_error 21 [], [EvMalformed svc 83])
                | [] =>
                    let statuses := flat_map (fun p => le_enc 2 (fst p) ++ (if fst p =? 6 then [0; 0] else [14; 0])) pairs
                                    ++ (if unknown <? 0 then [] else le_enc 2 unknown ++ [20; 0]) in
                    let allok := (unknown <? 0) && forallb (fun p => fst p =? 6) pairs in
                    let d := le_enc 2 n ++ statuses in
                    if negb (4 + blen d <=? cap) then Some (b, mr_error 17 [], [])
                    else if allok then
                      let us := fold_left (fun _ p => snd p) pairs (bs_clock_us b) in
                      Some (set_clock us b, mr_ok d, match pairs with [] => [] | _ => [EvApp 2001 [us] []] end)
                    else Some (b, {| rp_status := 10; rp_ext := []; rp_data := d |}, [])
                end
            end
        | _ => Some (b, mr_error 19 [], [EvMalformed svc 83])
        end
      else Some (b, mr_error 8 [], [])
  | Some (139, _, _) => Some (b, mr_error 5 [], [])
  | Some (c, i, oa) =>
      if (768 <=? c) && (c <=? 1023) then                        (* scratch objects 0x300..0x3FF *)
        if (75 <=? svc) && (svc <=? 79) then Some (b, ok_if_fits cap data, [])   (* 0x4B..0x4F echo *)
        else if svc =? 14 then
          match oa with
          | None => Some (b, mr_error 4 [], [])
          | Some a =>
              match store_get c i a (bs_store b) with
              | Some v => Some (b, ok_if_fits cap v, extra_data)
              | None => Some (b, mr_error 20 [], extra_data)
              end
          end
        else if svc =? 16 then
          match oa with
          | None => Some (b, mr_error 4 [], [])
          | Some a => Some (set_store (store_set c i a data (bs_store b)) b, mr_ok [], [EvApp 2000 [c; i; a] data])
          end
        else Some (b, mr_error 8 [], [])
      else None
  | None => None
  end.

Definition basic_handler : handler basic_state := {| h_request := basic_request |}.

(* embed a handler over a component of a larger application state (T2: falls back to basic_handler) *)
Definition lift_handler {A S} (get : S -> A) (put : A -> S -> S) (ha : handler A) : handler S :=
  {| h_request := fun s tr cap rq =>
       match h_request ha (get s) tr cap rq with
       | Some (a', rp, evs) => Some (put a' s, rp, evs)
       | None => None
       end |}.
