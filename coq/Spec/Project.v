(* Spec/Project.v — the controller project of the reference target (TARGET.md, DESIGN.md section 4):
   data-type templates, tags (controller and program scope, with the symbols a client must
   filter), and the memory image.  This is a SPECIFICATION written from the Logix Data Access
   rules, not a mirror of pycomm3.  Definitions only.

   Conventions: names are code-point lists ([text]); all numbers [Z]; a byte image is [bytes].

   Symbol type word (attribute 2 of the Symbol object, and the type word of a template member):
     bit 15      1 = structure, 0 = atomic
     bits 14-13  number of array dimensions (0-3)
     bit 12      1 = system / reserved symbol
     bits 11-0   structure: template instance id; atomic: bits 7-0 CIP type code, and for BOOL
                 (0xC1) bits 10-8 = bit position inside the host byte
   Template member record (8 bytes): info UINT (array length, 0 = scalar; BOOL: bit number 0-7 in
   the byte at [offset]), type UINT (as above, dimension field = 1 for array members), offset UDINT.
   BOOL arrays are DWORD (0xD3) arrays: dimension and array length count 32-bit words. *)
From PV Require Import Base.Bytes Base.PyStr.
Open Scope Z_scope.

(* ------------------------------------------------------------------ elementary types *)
Definition C_BOOL := 193.  Definition C_SINT := 194.  Definition C_INT := 195.
Definition C_DINT := 196.  Definition C_LINT := 197.  Definition C_USINT := 198.
Definition C_UINT := 199.  Definition C_UDINT := 200. Definition C_ULINT := 201.
Definition C_REAL := 202.  Definition C_LREAL := 203. Definition C_BYTE := 209.
Definition C_WORD := 210.  Definition C_DWORD := 211. Definition C_LWORD := 212.

(* size in bytes of an elementary type as stored in a tag image *)
Definition atom_size (c : Z) : option Z :=
  if (c =? C_BOOL) || (c =? C_SINT) || (c =? C_USINT) || (c =? C_BYTE) then Some 1
  else if (c =? C_INT) || (c =? C_UINT) || (c =? C_WORD) then Some 2
  else if (c =? C_DINT) || (c =? C_UDINT) || (c =? C_REAL) || (c =? C_DWORD) then Some 4
  else if (c =? C_LINT) || (c =? C_ULINT) || (c =? C_LREAL) || (c =? C_LWORD) then Some 8
  else None.

Definition atom_signed (c : Z) : bool := (c =? C_SINT) || (c =? C_INT) || (c =? C_DINT) || (c =? C_LINT).
Definition atom_unsigned (c : Z) : bool := (c =? C_USINT) || (c =? C_UINT) || (c =? C_UDINT) || (c =? C_ULINT).
Definition atom_bits (c : Z) : bool := (c =? C_BYTE) || (c =? C_WORD) || (c =? C_DWORD) || (c =? C_LWORD).
Definition atom_integer (c : Z) : bool := atom_signed c || atom_unsigned c.

(* ------------------------------------------------------------------ the ADT *)
Inductive base_ty :=
  | BAtom (code : Z)          (* elementary type, CIP code *)
  | BStruct (tid : Z)         (* structure: template instance id *)
  | BOpaque (w : Z).          (* a symbol that is not data (program, routine, task, map, ...): the
                                 whole symbol type word is given; it has no image *)

Record member := mkMember {
  m_name : text;
  m_ty : base_ty;
  m_arr : Z;                  (* 0 = scalar, n > 0 = array of n *)
  m_off : Z;                  (* byte offset in the structure *)
  m_bit : Z;                  (* BOOL members: bit 0-7 of the byte at m_off; otherwise 0 *)
  m_hidden : bool             (* host / internal member, not part of the visible structure *)
}.

Record template := mkTemplate {
  t_name : text;
  t_tail : option text;       (* Some s: the definition names the type "Name;s"; None: "Name" alone
                                 (predefined types) *)
  t_id : Z;                   (* template instance id (12 bits) *)
  t_handle : Z;               (* structure handle (CRC), UINT *)
  t_size : Z;                 (* structure size in bytes *)
  t_defsize : Z;              (* object definition size in 32-bit words; 0 = computed *)
  t_members : list member
}.

Inductive scope := ScCtrl | ScProg (p : text).

Record tagdef := mkTag {
  g_name : text;
  g_inst : Z;                 (* symbol instance id *)
  g_scope : scope;
  g_ty : base_ty;
  g_dims : list Z;            (* 0-3 dimensions *)
  g_bitpos : Z;               (* atomic BOOL tags: bit position (bits 10-8 of the type word) *)
  g_system : bool;            (* bit 12 *)
  g_access : Z;               (* attribute 10: external access *)
  g_attr3 : Z;                (* symbol address *)
  g_attr5 : Z;                (* symbol object address *)
  g_attr6 : Z                 (* software control; bit 26 set = base tag, clear = alias *)
}.

Record project := mkProject { p_templates : list template; p_tags : list tagdef }.
Definition empty_project : project := mkProject [] [].

Definition mem := list (Z * bytes).       (* instance id -> byte image of the whole tag *)

(* ------------------------------------------------------------------ lookups *)
Fixpoint text_eqb (a b : text) : bool :=
  match a, b with
  | [], [] => true
  | x :: a', y :: b' => (x =? y) && text_eqb a' b'
  | _, _ => false
  end.
(* Logix names are case-insensitive *)
Definition name_eqb (a b : text) : bool := text_eqb (lower a) (lower b).

Definition scope_eqb (a b : scope) : bool :=
  match a, b with
  | ScCtrl, ScCtrl => true
  | ScProg x, ScProg y => name_eqb x y
  | _, _ => false
  end.

Fixpoint find_template (ts : list template) (tid : Z) : option template :=
  match ts with
  | [] => None
  | t :: r => if t_id t =? tid then Some t else find_template r tid
  end.
Fixpoint find_template_handle (ts : list template) (h : Z) : option template :=
  match ts with
  | [] => None
  | t :: r => if t_handle t =? h then Some t else find_template_handle r h
  end.
Fixpoint find_member (ms : list member) (n : text) : option member :=
  match ms with
  | [] => None
  | m :: r => if name_eqb (m_name m) n then Some m else find_member r n
  end.
Fixpoint find_tag_inst (gs : list tagdef) (i : Z) : option tagdef :=
  match gs with
  | [] => None
  | g :: r => if g_inst g =? i then Some g else find_tag_inst r i
  end.
Fixpoint find_tag_name (gs : list tagdef) (sc : scope) (n : text) : option tagdef :=
  match gs with
  | [] => None
  | g :: r => if scope_eqb (g_scope g) sc && name_eqb (g_name g) n then Some g else find_tag_name r sc n
  end.
Fixpoint mem_get (m : mem) (i : Z) : option bytes :=
  match m with
  | [] => None
  | (k, v) :: r => if k =? i then Some v else mem_get r i
  end.
Fixpoint mem_set (m : mem) (i : Z) (v : bytes) : mem :=
  match m with
  | [] => [(i, v)]
  | (k, w) :: r => if k =? i then (k, v) :: r else (k, w) :: mem_set r i v
  end.

(* ------------------------------------------------------------------ sizes *)
Definition base_size (p : project) (ty : base_ty) : option Z :=
  match ty with
  | BAtom c => atom_size c
  | BStruct tid => match find_template (p_templates p) tid with Some t => Some (t_size t) | None => None end
  | BOpaque _ => None
  end.

Definition dims_count (dims : list Z) : Z := fold_right Z.mul 1 dims.
Definition tag_elems (g : tagdef) : Z := dims_count (g_dims g).
Definition tag_size (p : project) (g : tagdef) : option Z :=
  match base_size p (g_ty g) with Some s => Some (s * tag_elems g) | None => None end.

Definition is_bool_member (m : member) : bool :=
  match m_ty m with BAtom c => c =? C_BOOL | _ => false end.
Definition member_elems (m : member) : Z := if m_arr m =? 0 then 1 else m_arr m.
(* bytes occupied by a member ([None]: unknown type) *)
Definition member_size (p : project) (m : member) : option Z :=
  match base_size p (m_ty m) with Some s => Some (s * member_elems m) | None => None end.

(* ------------------------------------------------------------------ type words *)
Definition sym_type_word (g : tagdef) : Z :=
  let nd := Z.of_nat (length (g_dims g)) in
  let sys := if g_system g then 4096 else 0 in
  match g_ty g with
  | BAtom c => c + (if c =? C_BOOL then 256 * g_bitpos g else 0) + 8192 * nd + sys
  | BStruct tid => 32768 + tid + 8192 * nd + sys
  | BOpaque w => w
  end.

(* [arraybit]: whether array members carry dimension count 1 in their type word (policy) *)
Definition member_type_word (arraybit : bool) (m : member) : Z :=
  let a := if arraybit && negb (m_arr m =? 0) then 8192 else 0 in
  match m_ty m with
  | BAtom c => c + a
  | BStruct tid => 32768 + tid + a
  | BOpaque w => w
  end.
Definition member_info_word (m : member) : Z := if is_bool_member m then m_bit m else m_arr m.

(* ------------------------------------------------------------------ the template definition *)
Definition SEMI := 59.
Definition template_names (t : template) : bytes :=
  t_name t ++ (match t_tail t with Some s => SEMI :: s | None => [] end) ++ [0]
  ++ flat_map (fun m => m_name m ++ [0]) (t_members t).
Definition template_records (arraybit : bool) (t : template) : bytes :=
  flat_map (fun m => le_enc 2 (member_info_word m) ++ le_enc 2 (member_type_word arraybit m)
                     ++ le_enc 4 (m_off m)) (t_members t).
Definition template_member_count (t : template) : Z := Z.of_nat (length (t_members t)).
(* object definition size in 32-bit words — unless the project states the controller's own figure.
   Calibrated against the real-controller uploads in /repo/tests/offline/*.json (19 templates):
   the controller's figure is  ceil((k * members + names + 20) / 4)  with k = 8 for the predefined
   types that name themselves without ";" (STRING: 15, CONTROL: 38 exactly) and about 10 for UDTs
   and module-defined types (their ";n..." tail is not in the fixtures; within 1-2 words).
   Template Read serves the records, the names, and NUL padding up to defsize*4 - 21 bytes (the
   built-in STRING needs 39 = 15*4 - 21 bytes; the Data Access manual's "- 23" would cut it). *)
Definition template_core_len (t : template) : Z :=
  8 * template_member_count t + Z.of_nat (length (template_names t)).
Definition template_defsize (t : template) : Z :=
  if t_defsize t =? 0
  then ((match t_tail t with None => 8 | Some _ => 10 end) * template_member_count t
        + Z.of_nat (length (template_names t)) + 20 + 3) / 4
  else t_defsize t.
Definition template_blob (arraybit : bool) (t : template) : bytes :=
  let core := template_records arraybit t ++ template_names t in
  core ++ zeros (Z.to_nat (template_defsize t * 4 - 21) - length core).

(* ------------------------------------------------------------------ visibility of names *)
Definition txt_ZZ : text := [90;90;90;90;90;90;90;90;90;90].       (* "ZZZZZZZZZZ" *)
Definition txt_UU : text := [95;95].                                (* "__" *)
Definition txt_CTL : text := [67;84;76].
Definition txt_Control : text := [67;111;110;116;114;111;108].
Definition txt_Program : text := [80;114;111;103;114;97;109;58].    (* "Program:" *)
Definition txt_Routine : text := [82;111;117;116;105;110;101;58].
Definition txt_Task : text := [84;97;115;107;58].
Definition txt_Map : text := [77;97;112;58].
Definition txt_Cxn : text := [67;120;110;58].
Definition COLON := 58.

(* user templates have ids 0x100-0xEFF; everything else is predefined / module-defined *)
Definition predefined_id (tid : Z) : bool := (tid <? 256) || (3839 <? tid).

(* the name pattern of an internal host member *)
Definition host_name (tid : Z) (n : text) : bool :=
  starts_with txt_ZZ n || starts_with txt_UU n
  || (predefined_id tid && (text_eqb n txt_CTL || text_eqb n txt_Control)).

(* module I/O tag: Name:Kind or Name:Slot:Kind, Kind beginning with I, O, C or S *)
Definition io_kind (k : text) : bool :=
  match k with c :: _ => (c =? 73) || (c =? 79) || (c =? 67) || (c =? 83) | [] => false end.
Definition module_io_name (n : text) : bool :=
  match split_chr COLON n with
  | [a; k] => negb (match a with [] => true | _ => false end) && io_kind k
  | [a; s; k] => negb (match a with [] => true | _ => false end) && isdigit s && io_kind k
  | _ => false
  end.

(* a symbol a client must NOT list as a user tag *)
Definition hidden_symbol (g : tagdef) : bool :=
  let n := g_name g in
  g_system g
  || (match g_ty g with BOpaque _ => true | _ => false end)
  || starts_with txt_Program n || starts_with txt_Routine n || starts_with txt_Task n
  || contains_str txt_Map n || contains_str txt_Cxn n
  || starts_with txt_UU n
  || (contains_chr COLON n && negb (module_io_name n)).

Definition is_program_symbol (g : tagdef) : option text :=
  match g_scope g with
  | ScCtrl => if starts_with txt_Program (g_name g) then Some (skipn 8 (g_name g)) else None
  | _ => None
  end.
Definition program_names (p : project) : list text :=
  flat_map (fun g => match is_program_symbol g with Some n => [n] | None => [] end) (p_tags p).
Definition alias_flag (g : tagdef) : bool := negb (Z.testbit (g_attr6 g) 26).

(* ------------------------------------------------------------------ well-formedness (computable) *)
Fixpoint distinct_by {A} (eqb : A -> A -> bool) (l : list A) : bool :=
  match l with
  | [] => true
  | x :: r => negb (existsb (eqb x) r) && distinct_by eqb r
  end.

(* byte ranges [a, a+la) and [b, b+lb) do not meet *)
Definition ranges_disjoint (a la b lb : Z) : bool := (a + la <=? b) || (b + lb <=? a).

Definition member_ok (p : project) (t : template) (m : member) : bool :=
  (0 <=? m_off m) && (0 <=? m_arr m) && (m_arr m <? 65536)
  && negb (match m_name m with [] => true | _ => false end)
  && Bool.eqb (m_hidden m) (host_name (t_id t) (m_name m))
  && (if is_bool_member m
      then (0 <=? m_bit m) && (m_bit m <? 8) && (m_off m <? t_size t) && (m_arr m =? 0)
      else (m_bit m =? 0)
           && match member_size p m with
              | Some s => (0 <? s) && (m_off m + s <=? t_size t)
              | None => false
              end).

Fixpoint members_disjoint (p : project) (ms : list member) : bool :=
  match ms with
  | [] => true
  | m :: r =>
      (if is_bool_member m then true else
         forallb (fun m' => if is_bool_member m' then true else
                   match member_size p m, member_size p m' with
                   | Some s, Some s' => ranges_disjoint (m_off m) s (m_off m') s'
                   | _, _ => false
                   end) r)
      && members_disjoint p r
  end.

(* templates may only use templates defined EARLIER in the list (no recursion) *)
Definition template_ok (earlier : list template) (t : template) : bool :=
  let pe := mkProject earlier [] in
  (0 <? t_id t) && (t_id t <? 4096) && (0 <=? t_handle t) && (t_handle t <? 65536)
  && (0 <? t_size t) && (0 <=? t_defsize t)
  && negb (match t_name t with [] => true | _ => false end)
  && negb (existsb (fun e => (t_id e =? t_id t) || name_eqb (t_name e) (t_name t)) earlier)
  && forallb (member_ok pe t) (t_members t)
  && members_disjoint pe (t_members t)
  && distinct_by name_eqb (map m_name (t_members t))
  && (template_core_len t <=? template_defsize t * 4 - 20).

Fixpoint templates_ok (earlier : list template) (ts : list template) : bool :=
  match ts with
  | [] => true
  | t :: r => template_ok earlier t && templates_ok (earlier ++ [t]) r
  end.

(* diagnostics: the ids of the templates that fail [template_ok] *)
Fixpoint bad_templates (earlier : list template) (ts : list template) : list Z :=
  match ts with
  | [] => []
  | t :: r => (if template_ok earlier t then [] else [t_id t]) ++ bad_templates (earlier ++ [t]) r
  end.

Definition scope_ok (p : project) (sc : scope) : bool :=
  match sc with
  | ScCtrl => true
  | ScProg n => existsb (name_eqb n) (program_names p)
  end.

Definition tag_ok (p : project) (g : tagdef) : bool :=
  (0 <? g_inst g) && (g_inst g <? 4294967296)
  && negb (match g_name g with [] => true | _ => false end)
  && scope_ok p (g_scope g)
  && Nat.leb (length (g_dims g)) 3 && forallb (fun d => 0 <? d) (g_dims g)
  && (0 <=? g_access g) && (g_access g <? 256)
  && (0 <=? g_attr3 g) && (g_attr3 g <? 4294967296)
  && (0 <=? g_attr5 g) && (g_attr5 g <? 4294967296)
  && (0 <=? g_attr6 g) && (g_attr6 g <? 4294967296)
  && match g_ty g with
     | BAtom c => (match atom_size c with Some _ => true | None => false end)
                  && (0 <=? g_bitpos g) && (g_bitpos g <? 8)
                  && ((c =? C_BOOL) || (g_bitpos g =? 0))
                  && ((negb (c =? C_BOOL)) || (match g_dims g with [] => true | _ => false end))
     | BStruct tid => (match find_template (p_templates p) tid with Some _ => true | None => false end)
                      && (g_bitpos g =? 0)
     | BOpaque w => (0 <=? w) && (w <? 65536) && (match g_dims g with [] => true | _ => false end)
                    && (g_bitpos g =? 0)
     end.

Definition tag_key_eqb (a b : tagdef) : bool :=
  scope_eqb (g_scope a) (g_scope b) && name_eqb (g_name a) (g_name b).

Definition wf_project (p : project) : bool :=
  templates_ok [] (p_templates p)
  && forallb (tag_ok p) (p_tags p)
  && distinct_by Z.eqb (map g_inst (p_tags p))           (* instance ids distinct over ALL scopes *)
  && distinct_by tag_key_eqb (p_tags p).

(* every data tag has an image of exactly its size; nothing else is in memory *)
Definition wf_mem (p : project) (m : mem) : bool :=
  forallb (fun g => match tag_size p g with
                    | Some s => match mem_get m (g_inst g) with
                                | Some img => (Z.of_nat (length img) =? s) && bytes_ok img
                                | None => false
                                end
                    | None => match mem_get m (g_inst g) with None => true | Some _ => false end
                    end) (p_tags p)
  && distinct_by Z.eqb (map fst m)
  && forallb (fun kv => match find_tag_inst (p_tags p) (fst kv) with Some _ => true | None => false end) m.

(* insertion keeping tags ordered by instance id (the loader uses it, so symbol lists come out
   ascending without sorting per request) *)
Fixpoint insert_tag (g : tagdef) (gs : list tagdef) : list tagdef :=
  match gs with
  | [] => [g]
  | h :: r => if g_inst g <? g_inst h then g :: gs else h :: insert_tag g r
  end.
Fixpoint sorted_by_inst (gs : list tagdef) : bool :=
  match gs with
  | a :: (b :: _) as r => (g_inst a <? g_inst b) && sorted_by_inst r
  | _ => true
  end.
