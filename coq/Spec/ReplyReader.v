(* Spec/ReplyReader.v — an independent reader of the status words of an EtherNet/IP reply, written
   from the wire layout (CIP Vol 2 encapsulation header, common packet format, message-router
   response), NOT from the model:

     bytes  0..1   encapsulation command            bytes  8..11  encapsulation status (LE u32)
     SendUnitData (connected):  24 header + 4 interface handle + 2 timeout + 2 item count
        + address item (2 type, 2 length, 4 connection id) + data item (2 type, 2 length) + 2 sequence count
        = 46:  [46] reply service (request service | 0x80)  [47] reserved  [48] general status
               [49] size of additional status in 16-bit words  [50..] additional status, then reply data
     SendRRData (unconnected):  24 + 4 + 2 + 2 + null address item (2+2) + data item (2+2)
        = 40:  [40] reply service  [41] reserved  [42] general status  [43] additional-status size  [44..]

   What the property demands is phrased over these words only. *)
From PV Require Import Base.Bytes.
Open Scope Z_scope.

Definition byte_at (i : nat) (raw : bytes) : option Z := nth_error raw i.

Definition u16_at (i : nat) (raw : bytes) : option Z :=
  match byte_at i raw, byte_at (i + 1) raw with
  | Some a, Some b => Some (a + 256 * b)
  | _, _ => None
  end.
Definition u32_at (i : nat) (raw : bytes) : option Z :=
  match byte_at i raw, byte_at (i + 1) raw, byte_at (i + 2) raw, byte_at (i + 3) raw with
  | Some a, Some b, Some c, Some d => Some (a + 256 * b + 65536 * c + 16777216 * d)
  | _, _, _, _ => None
  end.

Definition encap_status (raw : bytes) : option Z := u32_at 8 raw.

Record layout := { l_svc : nat; l_status : nat; l_extsize : nat; l_data : nat }.
Definition unit_layout : layout := {| l_svc := 46; l_status := 48; l_extsize := 49; l_data := 50 |}.
Definition rr_layout : layout := {| l_svc := 40; l_status := 42; l_extsize := 43; l_data := 44 |}.

(* Services whose replies may legitimately carry general status 6 ("more data follows"):
   Read Tag Fragmented 0x52, Write Tag Fragmented 0x53, Get Instance Attribute List 0x55,
   Multiple Service Packet 0x0A, Get Attribute List 0x03. *)
Definition continuing_services : list Z := [82; 83; 85; 10; 3].
Definition continues (svc : Z) : bool := existsb (Z.eqb svc) continuing_services.

(* the three status words: (encapsulation status, reply-service byte, general status) *)
Definition status_words (L : layout) (raw : bytes) : option (Z * Z * Z) :=
  match encap_status raw, byte_at (l_svc L) raw, byte_at (l_status L) raw with
  | Some e, Some svc, Some gs => Some (e, svc, gs)
  | _, _, _ => None
  end.

(* the property's success condition.  [partial]: status 6 counts for continuing services
   (connected messaging); unconnected replies accept status 0 only. *)
Definition status_ok (partial : bool) (L : layout) (raw : bytes) : bool :=
  match status_words L raw with
  | Some (e, svc, gs) => (e =? 0) && ((gs =? 0) || (partial && (gs =? 6) && continues (svc mod 128)))
  | None => false                      (* too short to contain its status words: never success *)
  end.
Definition reply_bit (L : layout) (raw : bytes) : bool :=
  match byte_at (l_svc L) raw with Some svc => 128 <=? svc | None => false end.
(* what a success is, for ALL byte strings: the status words are present, say success, and the
   service byte is a reply service *)
Definition spec_success (partial : bool) (L : layout) (raw : bytes) : bool :=
  status_ok partial L raw && reply_bit L raw.

(* well-formed replies *)
(* a message-router response: four header bytes, reply bit, the announced additional-status words *)
Definition wf_cip_reply (L : layout) (raw : bytes) : bool :=
  match encap_status raw, byte_at (l_extsize L) raw with
  | Some _, Some n => reply_bit L raw && (Z.of_nat (l_data L) + 2 * n <=? Z.of_nat (length raw))
  | _, _ => false
  end.
(* an encapsulation error: the 24-byte header alone with a non-zero status *)
Definition wf_header_only_error (raw : bytes) : bool :=
  (length raw =? 24)%nat && match encap_status raw with Some e => negb (e =? 0) | None => false end.

(* extended status carried by a well-formed reply: (number of words, value); value read for 1 and 2 words *)
Definition ext_status (L : layout) (raw : bytes) : option (Z * option Z) :=
  match byte_at (l_extsize L) raw with
  | Some 0 => Some (0, None)
  | Some 1 => Some (1, u16_at (l_data L) raw)
  | Some 2 => Some (2, u32_at (l_data L) raw)
  | Some n => Some (n, None)
  | None => None
  end.

(* sub-list containment *)
Fixpoint is_prefix (p s : list Z) : bool :=
  match p, s with
  | [], _ => true
  | x :: p', y :: s' => (x =? y) && is_prefix p' s'
  | _, [] => false
  end.
Fixpoint contains (p s : list Z) : bool :=
  is_prefix p s || match s with [] => false | _ :: s' => contains p s' end.

Fixpoint tlookup (d : list (Z * list Z)) (k : Z) : option (list Z) :=
  match d with
  | [] => None
  | (k', v) :: r => if k' =? k then Some v else tlookup r k
  end.
Fixpoint tlookup2 (d : list (Z * list (Z * list Z))) (k : Z) : option (list (Z * list Z)) :=
  match d with
  | [] => None
  | (k', v) :: r => if k' =? k then Some v else tlookup2 r k
  end.

(* "names that status": the known text of the general status, or its two-digit hex code; plus the
   extended-status text when an extended status is present and the table has a text for it.
   [st] / [ext] are the status tables (SERVICE_STATUS, EXTEND_CODES). *)
Definition names_status (st : list (Z * list Z)) (ext : list (Z * list (Z * list Z)))
           (gs : Z) (xs : option Z) (text : list Z) : bool :=
  (match tlookup st gs with
   | Some t => contains t text
   | None => contains (hex_fixed 2 gs) text
   end)
  && (match xs with
      | Some x => match tlookup2 ext gs with
                  | Some sub => match tlookup sub x with Some t => contains t text | None => true end
                  | None => true
                  end
      | None => true
      end).
