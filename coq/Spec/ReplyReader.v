(* Spec/ReplyReader.v — an independent reader of the status words of an EtherNet/IP reply, written
   from the wire layout (CIP Vol 2 encapsulation header, common packet format, message-router
   response), NOT from the model:

     bytes  0..1   encapsulation command            bytes  8..11  encapsulation status (LE u32)
     SendUnitData (connected):  24 header + 4 interface handle + 2 timeout + 2 item count
        + address item (2 type, 2 length, 4 connection id) + data item (2 type, 2 length) + 2 sequence count
        = 46:  [46] reply service (request service | 0x80)  [47] reserved  [48] general status
               [49] size of additional status in 16-bit words  [50..] additional status, then reply data
     SendRRData (unconnected):  24 + 4 + 2 + 2 + null address item (2+2) + data item (2+2)
        = 40:  [40] reply service  [41] reserved  [42] general status  [43] additional-status size  [44..]

   What the property demands is phrased over these words only. *)
From PV Require Import Base.Bytes.
Open Scope Z_scope.

Definition byte_at (i : nat) (raw : bytes) : option Z := nth_error raw i.

Definition u16_at (i : nat) (raw : bytes) : option Z :=
  match byte_at i raw, byte_at (i + 1) raw with
  | Some a, Some b => Some (a + 256 * b)
  | _, _ => None
  end.
Definition u32_at (i : nat) (raw : bytes) : option Z :=
  match byte_at i raw, byte_at (i + 1) raw, byte_at (i + 2) raw, byte_at (i + 3) raw with
  | Some a, Some b, Some c, Some d => Some (a + 256 * b + 65536 * c + 16777216 * d)
  | _, _, _, _ => None
  end.

Definition encap_status (raw : bytes) : option Z := u32_at 8 raw.

Record layout := { l_svc : nat; l_status : nat; l_extsize : nat; l_data : nat }.
Definition unit_layout : layout := {| l_svc := 46; l_status := 48; l_extsize := 49; l_data := 50 |}.
Definition rr_layout : layout := {| l_svc := 40; l_status := 42; l_extsize := 43; l_data := 44 |}.

(* Services whose replies may legitimately carry general status 6 ("more data follows"):
   Read Tag Fragmented 0x52, Write Tag Fragmented 0x53, Get Instance Attribute List 0x55,
   Multiple Service Packet 0x0A, Get Attribute List 0x03. *)
Definition continuing_services : list Z := [82; 83; 85; 10; 3].
Definition continues (svc : Z) : bool := existsb (Z.eqb svc) continuing_services.

(* the three status words: (encapsulation status, reply-service byte, general status) *)
Definition status_words (L : layout) (raw : bytes) : option (Z * Z * Z) :=
  match encap_status raw, byte_at (l_svc L) raw, byte_at (l_status L) raw with
  | Some e, Some svc, Some gs => Some (e, svc, gs)
  | _, _, _ => None
  end.

(* the property's success condition.  [partial]: status 6 counts for continuing services
   (connected messaging); unconnected replies accept status 0 only. *)
Definition status_ok (partial : bool) (L : layout) (raw : bytes) : bool :=
  match status_words L raw with
  | Some (e, svc, gs) => (e =? 0) && ((gs =? 0) || (partial && (gs =? 6) && continues (svc mod 128)))
  | None => false                      (* too short to contain its status words: never success *)
  end.
Definition reply_bit (L : layout) (raw : bytes) : bool :=
  match byte_at (l_svc L) raw with Some svc => 128 <=? svc | None => false end.
(* what a success is, for ALL byte strings: the status words are present, say success, and the
   service byte is a reply service *)
Definition spec_success (partial : bool) (L : layout) (raw : bytes) : bool :=
  status_ok partial L raw && reply_bit L raw.

(* well-formed replies *)
(* a message-router response: four header bytes, reply bit, the announced additional-status words *)
Definition wf_cip_reply (L : layout) (raw : bytes) : bool :=
  match encap_status raw, byte_at (l_extsize L) raw with
  | Some _, Some n => reply_bit L raw && (Z.of_nat (l_data L) + 2 * n <=? Z.of_nat (length raw))
  | _, _ => false
  end.
(* an encapsulation error: the 24-byte header alone with a non-zero status *)
Definition wf_header_only_error (raw : bytes) : bool :=
  (length raw =? 24)%nat && match encap_status raw with Some e => negb (e =? 0) | None => false end.

(* extended status carried by a well-formed reply: (number of words, value); value read for 1 and 2 words *)
Definition ext_status (L : layout) (raw : bytes) : option (Z * option Z) :=
  match byte_at (l_extsize L) raw with
  | Some 0 => Some (0, None)
  | Some 1 => Some (1, u16_at (l_data L) raw)
  | Some 2 => Some (2, u32_at (l_data L) raw)
  | Some n => Some (n, None)
  | None => None
  end.

Definition ext_value (e : option (Z * option Z)) : option Z := match e with Some (_, v) => v | None => None end.

(* sub-list containment *)
Fixpoint is_prefix (p s : list Z) : bool :=
  match p, s with
  | [], _ => true
  | x :: p', y :: s' => (x =? y) && is_prefix p' s'
  | _, [] => false
  end.
Fixpoint contains (p s : list Z) : bool :=
  is_prefix p s || match s with [] => false | _ :: s' => contains p s' end.

Fixpoint tlookup (d : list (Z * list Z)) (k : Z) : option (list Z) :=
  match d with
  | [] => None
  | (k', v) :: r => if k' =? k then Some v else tlookup r k
  end.
Fixpoint tlookup2 (d : list (Z * list (Z * list Z))) (k : Z) : option (list (Z * list Z)) :=
  match d with
  | [] => None
  | (k', v) :: r => if k' =? k then Some v else tlookup2 r k
  end.

(* "names that status": the known text of the general status, or its two-digit hex code; plus the
   extended-status text when an extended status is present and the table has a text for it.
   [st] / [ext] are the status tables (SERVICE_STATUS, EXTEND_CODES). *)
Definition names_status (st : list (Z * list Z)) (ext : list (Z * list (Z * list Z)))
           (gs : Z) (xs : option Z) (text : list Z) : bool :=
  (match tlookup st gs with
   | Some t => contains t text
   | None => contains (hex_fixed 2 gs) text
   end)
  && (match xs with
      | Some x => match tlookup2 ext gs with
                  | Some sub => match tlookup sub x with Some t => contains t text | None => true end
                  | None => true
                  end
      | None => true
      end).

(* ---------------------------------------------------------------- Multiple Service Packet replies
   (CIP Vol 1, Message Router service 0x0A).  The reply data of a connected reply starts at 50
   (no additional status):  u16 number of replies, that many u16 offsets counted from the count
   field, then the service replies; reply i spans from offset i to offset i+1, the last to the end.
   Each service reply is itself a message-router response:
      [0] reply service  [1] reserved  [2] general status  [3] additional-status size  [4..] *)
Definition multi_base : nat := 50.
Definition multi_count (raw : bytes) : option Z := u16_at multi_base raw.
Definition multi_offset (raw : bytes) (i : nat) : option Z := u16_at (multi_base + 2 + 2 * i) raw.

(* the status words of service reply [i]: present only if the count covers i, the offset entry
   exists and the bytes it points at exist *)
Definition multi_sub_words (raw : bytes) (i : nat) : option (Z * Z) :=
  match multi_count raw, multi_offset raw i with
  | Some n, Some o =>
      if Z.of_nat i <? n then
        match byte_at (multi_base + Z.to_nat o) raw, byte_at (multi_base + Z.to_nat o + 2) raw with
        | Some s, Some g => Some (s, g)
        | _, _ => None
        end
      else None
  | _, _ => None
  end.
Definition sub_words_ok (w : Z * Z) : bool :=
  let '(s, g) := w in (128 <=? s) && ((g =? 0) || ((g =? 6) && continues (s mod 128))).
(* what "service i of this reply succeeded" can mean at most, for ALL byte strings *)
Definition multi_sub_success (raw : bytes) (i : nat) : bool :=
  match encap_status raw, multi_sub_words raw i with
  | Some e, Some w => (e =? 0) && sub_words_ok w
  | _, _ => false
  end.

(* the builder dual to the reader: reply data for the service replies [rs] *)
Fixpoint multi_offsets (o : Z) (rs : list bytes) : bytes :=
  match rs with
  | [] => []
  | r :: rest => le_enc 2 o ++ multi_offsets (o + Z.of_nat (length r)) rest
  end.
Definition multi_data (rs : list bytes) : bytes :=
  le_enc 2 (Z.of_nat (length rs)) ++ multi_offsets (2 + 2 * Z.of_nat (length rs)) rs ++ concat rs.
Definition multi_data_size (rs : list bytes) : Z :=
  2 + 2 * Z.of_nat (length rs) + Z.of_nat (length (concat rs)).

(* a service reply on its own (the [layout] of a sub-reply, for wf_cip_reply-like checks) *)
Definition sub_success (d : bytes) : bool :=
  match byte_at 0 d, byte_at 2 d with
  | Some s, Some g => sub_words_ok (s, g)
  | _, _ => false
  end.
Definition wf_sub_reply (d : bytes) : bool :=
  match byte_at 0 d, byte_at 3 d with
  | Some s, Some n => (128 <=? s) && (4 + 2 * n <=? Z.of_nat (length d))
  | _, _ => false
  end.
Definition sub_ext_status (d : bytes) : option (Z * option Z) :=
  match byte_at 3 d with
  | Some 0 => Some (0, None)
  | Some 1 => Some (1, u16_at 4 d)
  | Some 2 => Some (2, u32_at 4 d)
  | Some n => Some (n, None)
  | None => None
  end.

(* strict reader of a well-formed multi-service reply: Some (service replies) *)
Fixpoint read_offsets (n : nat) (i : nat) (raw : bytes) : option (list Z) :=
  match n with
  | O => Some []
  | S n' => match multi_offset raw i, read_offsets n' (S i) raw with
            | Some o, Some l => Some (o :: l)
            | _, _ => None
            end
  end.
Fixpoint offsets_sorted (lo hi : Z) (os : list Z) : bool :=
  match os with
  | [] => true
  | o :: r => (lo <=? o) && (o <=? hi) && offsets_sorted o hi r
  end.
Fixpoint cut_at (data : bytes) (os : list Z) : list bytes :=
  match os with
  | [] => []
  | [o] => [skipn (Z.to_nat o) data]
  | o :: ((o' :: _) as r) => firstn (Z.to_nat o' - Z.to_nat o) (skipn (Z.to_nat o) data) :: cut_at data r
  end.
Definition read_multi (raw : bytes) : option (list bytes) :=
  match encap_status raw, byte_at 46 raw, byte_at 49 raw, multi_count raw with
  | Some _, Some 138, Some 0, Some n =>
      if n =? 0 then None else
      match read_offsets (Z.to_nat n) 0 raw with
      | Some os =>
          let data := skipn multi_base raw in
          if offsets_sorted (2 + 2 * n) (Z.of_nat (length data)) os
          then let subs := cut_at data os in
               if forallb wf_sub_reply subs then Some subs else None
          else None
      | None => None
      end
  | _, _, _, _ => None
  end.
