(* Spec/TargetProto.v — the Gallina line protocol of the reference-target co-process (TARGET.md),
   generic in the application handler: [core_step_line h lens init extra] is the [step_line] of
   [Extract/ExTargetCore.v] (with [basic_handler]) and of T2's [Extract/ExTarget.v] (with the Logix
   handler and its extra commands).  One line in, one line out; never fails.  Definitions only.

   Commands (tokens as in Base/Proto.v), all answered [ok ...] or [ERR <why>]:
     reset                                  back to the initial state (default configuration)
     cfg <key> <int | bytes>                keys: accept_session accept_large_fo accept_std_fo multi_service (0/1)
                                            session_handle session_refuse_status conn_id max_large_size fo_refuse_ext
                                            vendor device_type product_code rev_major rev_minor status serial state port
                                            clock_us (ints);  product_name ip plc_name expect_route (bytes);
                                            [cfg expect_route none] removes the expectation
     inject <nth> <service> <status> <ext words...>
     frame <bytes>                          -> reply <bytes> | noreply
     closed                                 the TCP connection dropped
     dump sessions                          -> ok <handle>*                         (newest first)
     dump conns                             -> ok { | conn <serial> <vendor> <originator serial> <O->T id> <T->O id>
                                                      <O->T size> <T->O size> <large 0/1> <session> <route bytes> }*
     dump log [<from>]                      -> ok <total number of events> { | <event> }*   (events number from 0, oldest first)
          events:  frame <cmd> <session> <len> | badframe <why> | reply <status> <len>
                   | request conn <serial> / ucmm / ucsend <route bytes>   <seq or -1> <service> <path bytes> <data bytes>
                   | oversize <granted> <got> | replytoolarge <granted> <needed> | malformed <service> <why>
                   | app <tag> <data bytes> <args>*
     dump clock                             -> ok <microseconds>
     dump inject                            -> ok { | inj <left> <service> <status> <ext>* }*
     parseframe <bytes>                     -> ok <cmd> <session> <context> nop <data> | empty | register
                                                  | cpf <timeout> null / conn <cid>  <data item type> <data>
                                               | rej <code>
     parsemr <bytes>                        -> ok <service> <path> <data> cia <class> <instance> <attribute or -1> / nocia | rej <code>
     parseucsend <bytes>                    -> ok <priority> <ticks> <embedded> <route> | rej <code>
   The [extra] hook sees every line FIRST; what it declines ([None]) is handled here. *)
From Coq Require Import String.
From PV Require Import Base.Bytes Base.Proto Spec.EncapParser Spec.MRParser Spec.TargetIface Spec.TargetCore.
Open Scope string_scope.
Open Scope list_scope.
Open Scope Z_scope.

Record basic_lens (S : Type) := { bl_get : S -> basic_state; bl_put : basic_state -> S -> S }.
Arguments bl_get {S}. Arguments bl_put {S}.

Definition bar : tok := sym "|".

(* ---------------------------------------------------------------- printing *)
Definition tr_toks (t : transport) : list tok :=
  match t with
  | TConnected s => [sym "conn"; TInt s]
  | TUcmm => [sym "ucmm"]
  | TUnconnSend r => [sym "ucsend"; TBytes r]
  end.

Definition ev_toks (e : tevent) : list tok :=
  match e with
  | EvFrame c s l => [sym "frame"; TInt c; TInt s; TInt (Z.of_nat l)]
  | EvBadFrame w => [sym "badframe"; TInt w]
  | EvRequest t sq r =>
      sym "request" :: tr_toks t ++ [TInt (match sq with Some s => s | None => -1 end);
                                     TInt (mr_service r); TBytes (mr_path r); TBytes (mr_data r)]
  | EvReply s l => [sym "reply"; TInt s; TInt (Z.of_nat l)]
  | EvOversize g got => [sym "oversize"; TInt g; TInt got]
  | EvReplyTooLarge g n => [sym "replytoolarge"; TInt g; TInt n]
  | EvMalformed s w => [sym "malformed"; TInt s; TInt w]
  | EvApp tag args data => sym "app" :: TInt tag :: TBytes data :: map TInt args
  end.

Definition groups {A} (f : A -> list tok) (l : list A) : list tok := flat_map (fun x => bar :: f x) l.

Definition conn_toks (c : conn) : list tok :=
  [sym "conn"; TInt (c_serial c); TInt (c_vendor c); TInt (c_oserial c); TInt (c_ot_id c); TInt (c_to_id c);
   TInt (c_ot_size c); TInt (c_to_size c); TInt (if c_large c then 1 else 0); TInt (c_session c); TBytes (c_route c)].

Definition inj_toks (i : injection) : list tok :=
  sym "inj" :: TInt (inj_left i) :: TInt (inj_service i) :: TInt (inj_status i) :: map TInt (inj_ext i).

Definition frame_toks (f : frame) : list tok :=
  [TInt (f_cmd f); TInt (f_session f); TBytes (f_context f)] ++
  match f_body f with
  | BNop d => [sym "nop"; TBytes d]
  | BEmpty => [sym "empty"]
  | BRegister => [sym "register"]
  | BCpf t a dt d =>
      [sym "cpf"; TInt t] ++ (match a with AddrNull => [sym "null"] | AddrConn c => [sym "conn"; TInt c] end)
      ++ [TInt dt; TBytes d]
  end.

(* ---------------------------------------------------------------- configuration *)
Definition with_ident (f : ident -> ident) (c : tcfg) : tcfg :=
  {| cf_accept_session := cf_accept_session c; cf_session_handle := cf_session_handle c;
     cf_session_refuse_status := cf_session_refuse_status c; cf_accept_large_fo := cf_accept_large_fo c;
     cf_accept_std_fo := cf_accept_std_fo c; cf_fo_refuse_ext := cf_fo_refuse_ext c; cf_conn_id := cf_conn_id c;
     cf_max_large_size := cf_max_large_size c; cf_multi_service := cf_multi_service c;
     cf_ident := f (cf_ident c); cf_expect_route := cf_expect_route c |}.

Definition ident_int (k : tok) (v : Z) (i : ident) : option ident :=
  let mk vendor dt pc mj mn stt ser stat port :=
    {| id_vendor := vendor; id_device_type := dt; id_product_code := pc; id_rev_major := mj; id_rev_minor := mn;
       id_status := stt; id_serial := ser; id_product_name := id_product_name i; id_state := stat;
       id_ip := id_ip i; id_port := port |} in
  let ve := id_vendor i in let dt := id_device_type i in let pc := id_product_code i in
  let mj := id_rev_major i in let mn := id_rev_minor i in let stt := id_status i in
  let ser := id_serial i in let stat := id_state i in let port := id_port i in
  if is_sym "vendor" k then Some (mk v dt pc mj mn stt ser stat port)
  else if is_sym "device_type" k then Some (mk ve v pc mj mn stt ser stat port)
  else if is_sym "product_code" k then Some (mk ve dt v mj mn stt ser stat port)
  else if is_sym "rev_major" k then Some (mk ve dt pc v mn stt ser stat port)
  else if is_sym "rev_minor" k then Some (mk ve dt pc mj v stt ser stat port)
  else if is_sym "status" k then Some (mk ve dt pc mj mn v ser stat port)
  else if is_sym "serial" k then Some (mk ve dt pc mj mn stt v stat port)
  else if is_sym "state" k then Some (mk ve dt pc mj mn stt ser v port)
  else if is_sym "port" k then Some (mk ve dt pc mj mn stt ser stat v)
  else None.

Definition ident_bytes (k : tok) (v : bytes) (i : ident) : option ident :=
  let mk name ip :=
    {| id_vendor := id_vendor i; id_device_type := id_device_type i; id_product_code := id_product_code i;
       id_rev_major := id_rev_major i; id_rev_minor := id_rev_minor i; id_status := id_status i;
       id_serial := id_serial i; id_product_name := name; id_state := id_state i; id_ip := ip; id_port := id_port i |} in
  if is_sym "product_name" k then Some (mk v (id_ip i))
  else if is_sym "ip" k then (if blen v =? 4 then Some (mk (id_product_name i) v) else None)
  else None.

Definition cfg_int (k : tok) (v : Z) (c : tcfg) : option tcfg :=
  let b := negb (v =? 0) in
  let mk acs sh srs alf asf fre cid mls ms :=
    {| cf_accept_session := acs; cf_session_handle := sh; cf_session_refuse_status := srs;
       cf_accept_large_fo := alf; cf_accept_std_fo := asf; cf_fo_refuse_ext := fre; cf_conn_id := cid;
       cf_max_large_size := mls; cf_multi_service := ms; cf_ident := cf_ident c;
       cf_expect_route := cf_expect_route c |} in
  let acs := cf_accept_session c in let sh := cf_session_handle c in let srs := cf_session_refuse_status c in
  let alf := cf_accept_large_fo c in let asf := cf_accept_std_fo c in let fre := cf_fo_refuse_ext c in
  let cid := cf_conn_id c in let mls := cf_max_large_size c in let ms := cf_multi_service c in
  if is_sym "accept_session" k then Some (mk b sh srs alf asf fre cid mls ms)
  else if is_sym "session_handle" k then Some (mk acs v srs alf asf fre cid mls ms)
  else if is_sym "session_refuse_status" k then Some (mk acs sh v alf asf fre cid mls ms)
  else if is_sym "accept_large_fo" k then Some (mk acs sh srs b asf fre cid mls ms)
  else if is_sym "accept_std_fo" k then Some (mk acs sh srs alf b fre cid mls ms)
  else if is_sym "fo_refuse_ext" k then Some (mk acs sh srs alf asf v cid mls ms)
  else if is_sym "conn_id" k then Some (mk acs sh srs alf asf fre v mls ms)
  else if is_sym "max_large_size" k then Some (mk acs sh srs alf asf fre cid v ms)
  else if is_sym "multi_service" k then Some (mk acs sh srs alf asf fre cid mls b)
  else match ident_int k v (cf_ident c) with
       | Some i => Some (with_ident (fun _ => i) c)
       | None => None
       end.

Definition set_expect_route (r : option bytes) (c : tcfg) : tcfg :=
  {| cf_accept_session := cf_accept_session c; cf_session_handle := cf_session_handle c;
     cf_session_refuse_status := cf_session_refuse_status c; cf_accept_large_fo := cf_accept_large_fo c;
     cf_accept_std_fo := cf_accept_std_fo c; cf_fo_refuse_ext := cf_fo_refuse_ext c; cf_conn_id := cf_conn_id c;
     cf_max_large_size := cf_max_large_size c; cf_multi_service := cf_multi_service c;
     cf_ident := cf_ident c; cf_expect_route := r |}.

Definition apply_cfg {S} (bl : basic_lens S) (k v : tok) (st : tstate S) : option (tstate S) :=
  let basic f := Some (set_app (bl_put bl (f (bl_get bl (t_app st))) (t_app st)) st) in
  match v with
  | TInt z =>
      if is_sym "clock_us" k then basic (set_clock z)
      else match cfg_int k z (t_cfg st) with Some c => Some (set_cfg c st) | None => None end
  | TBytes b =>
      if is_sym "plc_name" k then basic (set_plc_name b)
      else if is_sym "expect_route" k then Some (set_cfg (set_expect_route (Some b) (t_cfg st)) st)
      else match ident_bytes k b (cf_ident (t_cfg st)) with
           | Some i => Some (set_cfg (with_ident (fun _ => i) (t_cfg st)) st)
           | None => None
           end
  | TSym _ =>
      if is_sym "expect_route" k && is_sym "none" v then Some (set_cfg (set_expect_route None (t_cfg st)) st)
      else None
  | _ => None
  end.

Fixpoint ints_of (ts : list tok) : option (list Z) :=
  match ts with
  | [] => Some []
  | TInt z :: r => match ints_of r with Some l => Some (z :: l) | None => None end
  | _ => None
  end.

(* ---------------------------------------------------------------- the dispatcher *)
Definition ok : tok := sym "ok".
Definition err (why : string) : list tok := [sym "ERR"; sym why].

Definition core_handle {S} (h : handler S) (bl : basic_lens S) (init : S) (st : tstate S) (ts : list tok)
  : tstate S * list tok :=
  match ts with
  | [] => (st, err "empty")
  | cmd :: args =>
      if is_sym "frame" cmd then
        match args with
        | [TBytes b] =>
            match tstep h st b with
            | (st', Some r) => (st', [sym "reply"; TBytes r])
            | (st', None) => (st', [sym "noreply"])
            end
        | _ => (st, err "frame-needs-bytes")
        end
      else if is_sym "reset" cmd then (init_tstate init, [ok])
      else if is_sym "closed" cmd then (tclosed st, [ok])
      else if is_sym "cfg" cmd then
        match args with
        | [k; v] => match apply_cfg bl k v st with Some st' => (st', [ok]) | None => (st, err "badcfg") end
        | _ => (st, err "cfg-needs-key-value")
        end
      else if is_sym "inject" cmd then
        match ints_of args with
        | Some (n :: s :: e :: ext) =>
            (set_inject (t_inject st ++ [{| inj_left := n; inj_service := s; inj_status := e; inj_ext := ext |}]) st, [ok])
        | _ => (st, err "inject-needs-ints")
        end
      else if is_sym "dump" cmd then
        match args with
        | what :: more =>
            if is_sym "sessions" what then (st, ok :: map TInt (t_sessions st))
            else if is_sym "conns" what then (st, ok :: groups conn_toks (t_conns st))
            else if is_sym "inject" what then (st, ok :: groups inj_toks (t_inject st))
            else if is_sym "clock" what then (st, [ok; TInt (bs_clock_us (bl_get bl (t_app st)))])
            else if is_sym "log" what then
              let from := match more with TInt z :: _ => Z.max 0 z | _ => 0 end in
              let k := Z.to_nat (t_nlog st - from) in
              (st, ok :: TInt (t_nlog st) :: groups ev_toks (rev_append (firstn k (t_log st)) []))
            else (st, err "baddump")
        | [] => (st, err "baddump")
        end
      else if is_sym "parseframe" cmd then
        match args with
        | [TBytes b] => match parse_frame b with
                        | RcOk f => (st, ok :: frame_toks f)
                        | RcErr c => (st, [sym "rej"; TInt c])
                        end
        | _ => (st, err "needs-bytes")
        end
      else if is_sym "parsemr" cmd then
        match args with
        | [TBytes b] =>
            match parse_mr b with
            | RcOk r => (st, [ok; TInt (mr_service r); TBytes (mr_path r); TBytes (mr_data r)] ++
                             match path_cia (mr_path r) with
                             | Some (c, i, oa) => [sym "cia"; TInt c; TInt i; TInt (match oa with Some a => a | None => -1 end)]
                             | None => [sym "nocia"]
                             end)
            | RcErr c => (st, [sym "rej"; TInt c])
            end
        | _ => (st, err "needs-bytes")
        end
      else if is_sym "parseucsend" cmd then
        match args with
        | [TBytes b] =>
            match parse_ucsend b with
            | RcOk u => (st, [ok; TInt (us_priority u); TInt (us_ticks u); TBytes (us_embedded u); TBytes (us_route u)])
            | RcErr c => (st, [sym "rej"; TInt c])
            end
        | _ => (st, err "needs-bytes")
        end
      else (st, err "badcmd")
  end.

Definition core_step_tokens {S} (h : handler S) (bl : basic_lens S) (init : S)
  (extra : tstate S -> list tok -> option (tstate S * list tok)) (st : tstate S) (ts : list tok)
  : tstate S * list tok :=
  match extra st ts with
  | Some r => r
  | None => core_handle h bl init st ts
  end.

(* Base/Proto.parse_line uses the quadratic [rev]; frames are thousands of characters, so lines are
   split and hex tokens decoded here with [rev_append] (same token language) *)
Fixpoint fsplit (cs cur : list Z) (acc : list (list Z)) : list (list Z) :=
  match cs with
  | [] => rev_append (match cur with [] => acc | _ => rev_append cur [] :: acc end) []
  | c :: r => if c =? 32 then fsplit r [] (match cur with [] => acc | _ => rev_append cur [] :: acc end)
              else fsplit r (c :: cur) acc
  end.
Fixpoint fhex (cs : list Z) (acc : list Z) : option (list Z) :=
  match cs with
  | [] => Some (rev_append acc [])
  | a :: b :: r => match hexval a, hexval b with
                   | Some x, Some y => fhex r (16 * x + y :: acc)
                   | _, _ => None
                   end
  | _ => None
  end.
Definition fparse_tok (w : list Z) : tok :=
  match w with
  | 120 :: r => match fhex r [] with Some bs => TBytes bs | None => TSym w end
  | _ => parse_tok w
  end.
Definition fparse_line (cs : list Z) : list tok := map fparse_tok (fsplit cs [] []).

Definition core_step_line {S} (h : handler S) (bl : basic_lens S) (init : S)
  (extra : tstate S -> list tok -> option (tstate S * list tok)) (st : tstate S) (line : list Z)
  : tstate S * list Z :=
  let '(st', out) := core_step_tokens h bl init extra st (fparse_line line) in
  (st', print_line out).
