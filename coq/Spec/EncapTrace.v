(* Spec/EncapTrace.v — the history half of C11 as a checker over what an observer at the socket
   (and at the target) sees, written from the property text and Spec/EncapParser.v only; nothing
   here is derived from Model/*.v.  Definitions only.

   An observation is: a frame the client wrote, tagged with the command code of the operation the
   client is performing; the target granting a session handle (a successful RegisterSession reply);
   the target granting a connection id (a successful Forward Open reply, O->T connection id); the
   end of the TCP connection.  The observer keeps what the target granted and demands of every
   frame:
     - the strict parser accepts it                                   (reason = the parser's code)
     - its command is the operation's                                 (reason 202)
     - its session handle is the granted one, 0 while none is granted (reason 200)
     - a frame addressed to a connection (0x70: the parser admits the connected address item
       only there, and there only it) carries the granted connection id (reason 201) *)
From PV Require Import Base.Bytes Spec.EncapParser.
Open Scope Z_scope.

Inductive obs :=
  | ObsFrame (cmd : Z) (f : bytes)
  | ObsRegistered (handle : Z)
  | ObsForwardOpened (cid : Z)
  | ObsClosed.

Record ghost := { g_session : option Z; g_cid : option Z }.
Definition ghost0 : ghost := {| g_session := None; g_cid := None |}.

Definition expected_session (g : ghost) : Z := match g_session g with Some h => h | None => 0 end.

(* 0 = the frame is what the property demands; otherwise the reason *)
Definition frame_check (g : ghost) (cmd : Z) (f : bytes) : Z :=
  match parse_frame f with
  | RcErr c => c
  | RcOk fr =>
      if negb (f_cmd fr =? cmd) then 202
      else if negb (f_session fr =? expected_session g) then 200
      else match f_body fr with
           | BCpf _ (AddrConn c) _ _ =>
               match g_cid g with
               | Some c' => if c =? c' then 0 else 201
               | None => 201
               end
           | _ => 0
           end
  end.

Definition ghost_step (g : ghost) (o : obs) : ghost :=
  match o with
  | ObsFrame _ _ => g
  | ObsRegistered h => {| g_session := Some h; g_cid := g_cid g |}
  | ObsForwardOpened c => {| g_session := g_session g; g_cid := Some c |}
  | ObsClosed => ghost0
  end.

(* None = every frame passes; Some (index, reason) = the first one that does not *)
Fixpoint trace_check (g : ghost) (i : Z) (t : list obs) : option (Z * Z) :=
  match t with
  | [] => None
  | o :: r =>
      match o with
      | ObsFrame cmd f =>
          let c := frame_check g cmd f in
          if c =? 0 then trace_check g (i + 1) r else Some (i, c)
      | _ => trace_check (ghost_step g o) (i + 1) r
      end
  end.

Definition trace_ok (t : list obs) : Prop := trace_check ghost0 0 t = None.
