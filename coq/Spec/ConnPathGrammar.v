(* Spec/ConnPathGrammar.v — the independent oracle of C15: the documented connection-path grammar.

   (1) the abstract syntax of a connection path ([route_ast]: host, optional TCP port, hops =
       (CIP port number, link) pairs, or the address/slot shortcut) and its meaning per driver kind;
   (2) [render : spelling -> route_ast -> text]: every way the documentation allows the same route to
       be written (separator per position out of / \ , ; the port of each hop by any of its documented
       names or in decimal; decimal numbers with any number of leading zeros);
   (3) the reference wire form of a route ([route_wire]) written from the CIP specification (Vol 1,
       C-1.4.1 port segment: port identifier in bits 3..0, 15 = a 16-bit extended port number
       follows; bit 4 = a link-address-size byte follows; padded with 00 to an even length),
       preceded by its size in 16-bit words (and a pad byte in Unconnected Send / Forward Close);
   (4) a total reference reader [ref_parse] of ARBITRARY strings: what a string means when it is in
       the grammar, which rejection class it belongs to when it is not, and the three zones about
       which the property is silent.
   Nothing here is derived from Model/*.v.  The port-name table is typed in from the documentation
   (docs/getting_started.rst, the PortSegment docstring); Proofs/ConnPathP.v checks it against the
   regenerated one. *)
From Coq Require Import String.
From PV Require Import Base.Bytes Base.Proto Base.PyStr.
Open Scope Z_scope.

(* ================================================================ characters *)
Definition SLASH : Z := 47.
Definition BACKSLASH : Z := 92.
Definition COMMA : Z := 44.
Definition COLON : Z := 58.
Definition DOT : Z := 46.
Definition is_sep (c : Z) : bool := (c =? SLASH) || (c =? BACKSLASH) || (c =? COMMA).
Definition is_colon (c : Z) : bool := c =? COLON.
Definition is_dot (c : Z) : bool := c =? DOT.
Definition host_char (c : Z) : bool := negb (is_sep c) && negb (is_colon c).

(* the fields of a string around the characters satisfying [p]: (first field, further fields) *)
Fixpoint fields (p : Z -> bool) (s : text) : text * list text :=
  match s with
  | [] => ([], [])
  | c :: r => let '(f, fs) := fields p r in if p c then ([], f :: fs) else (c :: f, fs)
  end.

(* ================================================================ documented port names *)
Definition s2t (s : string) : text := zs_of_string s.
(* backplane = port 1; the network side of a communication module = port 2 (channel A) or 3 (B) *)
Definition doc_port_names : list (text * Z) :=
  [(s2t "backplane", 1); (s2t "bp", 1); (s2t "enet", 2); (s2t "dhrio-a", 2); (s2t "dhrio-b", 3);
   (s2t "dnet", 2); (s2t "cnet", 2); (s2t "dh485-a", 2); (s2t "dh485-b", 3)].
Fixpoint same_text (a b : text) : bool :=
  match a, b with
  | [], [] => true
  | x :: a', y :: b' => (x =? y) && same_text a' b'
  | _, _ => false
  end.
Fixpoint lookup (k : text) (t : list (text * Z)) : option Z :=
  match t with
  | [] => None
  | (k', v) :: r => if same_text k' k then Some v else lookup k r
  end.

(* ================================================================ (1) abstract syntax *)
Inductive link :=
  | Slot (n : Z)          (* a slot / node number 0..255 *)
  | Addr (quad : text).   (* an IPv4 address; a dotted quad has exactly one spelling (no leading
                             zeros), so the AST carries it verbatim; see [addr_of_octets] *)
Record hop := mkHop { h_port : Z; h_link : link }.
Inductive shape :=
  | Explicit (hs : list hop)    (* host[:tcp] (sep port sep link)*  ; [] = the bare address *)
  | SlotOnly (n : Z).           (* host[:tcp] sep slot : the address/slot shortcut *)
Record route_ast := mkRoute { r_host : text; r_tcp : option Z; r_shape : shape }.

(* the route a driver uses: [auto] = the driver enables the shortcuts (LogixDriver, SLCDriver) *)
Definition hops_of (auto : bool) (s : shape) : option (list hop) :=
  match s with
  | Explicit [] => Some (if auto then [mkHop 1 (Slot 0)] else [])
  | Explicit hs => Some hs
  | SlotOnly n => if auto then Some [mkHop 1 (Slot n)] else None
  end.

(* strict dotted quad: four '.'-separated octets, 1-3 ASCII digits, no leading zero, <= 255 *)
Definition dval (ds : text) : Z := match digits_val ds 0 with Some z => z | None => 0 end.
Definition octet (o : text) : bool :=
  isdigit o && Nat.leb (List.length o) 3
  && (match o with 48 :: _ :: _ => false | _ => true end) && (dval o <=? 255).
Definition strict_quad (t : text) : bool :=
  match fields is_dot t with
  | (a, [b; c; d]) => octet a && octet b && octet c && octet d
  | _ => false
  end.

Definition PMAX : Z := 65535.     (* CIP port numbers are 16-bit, 0 is reserved *)
Definition wf_link (l : link) : bool :=
  match l with Slot n => (0 <=? n) && (n <=? 255) | Addr t => strict_quad t end.
Definition wf_hop (h : hop) : bool := (1 <=? h_port h) && (h_port h <=? PMAX) && wf_link (h_link h).
Definition wf_tcp (p : Z) : bool := (1 <=? p) && (p <=? 65534).
Definition wf_shape (s : shape) : bool :=
  match s with Explicit hs => forallb wf_hop hs | SlotOnly n => (0 <=? n) && (n <=? 255) end.
Definition wf_route (a : route_ast) : bool :=
  forallb host_char (r_host a)
  && (match r_tcp a with Some p => wf_tcp p | None => true end)
  && wf_shape (r_shape a).

(* ================================================================ (2) spellings *)
(* a decimal numeral longer than this is not read by the interpreter (int-string limit of
   CPython >= 3.11, counted with the leading zeros): such spellings are outside the grammar, and
   the reference reader is silent about them *)
Definition NUMERAL_LIMIT : Z := 4300.
Definition numeral_ok (t : text) : bool := Z.of_nat (List.length t) <=? NUMERAL_LIMIT.
Inductive port_sp := ByName (alias : text) | ByNumber (zeros : nat).
Record hop_sp := mkHopSp { sp_sep1 : Z; sp_port : port_sp; sp_sep2 : Z; sp_lzeros : nat }.
Record spelling := mkSp { sp_tcp_zeros : nat; sp_hops : list hop_sp; sp_slot_sep : Z; sp_slot_zeros : nat }.

Definition decimal (zeros : nat) (n : Z) : text := repeat 48 zeros ++ print_nat_z n.
Definition render_port (s : port_sp) (n : Z) : text :=
  match s with ByName a => a | ByNumber z => decimal z n end.
Definition render_link (zeros : nat) (l : link) : text :=
  match l with Slot n => decimal zeros n | Addr t => t end.
Definition render_hop (s : hop_sp) (h : hop) : text :=
  [sp_sep1 s] ++ render_port (sp_port s) (h_port h) ++ [sp_sep2 s] ++ render_link (sp_lzeros s) (h_link h).
Fixpoint render_hops (ss : list hop_sp) (hs : list hop) : text :=
  match ss, hs with
  | s :: ss', h :: hs' => render_hop s h ++ render_hops ss' hs'
  | _, _ => []
  end.
Definition render_hostport (sp : spelling) (a : route_ast) : text :=
  r_host a ++ match r_tcp a with Some p => [COLON] ++ decimal (sp_tcp_zeros sp) p | None => [] end.
Definition render (sp : spelling) (a : route_ast) : text :=
  render_hostport sp a ++
  match r_shape a with
  | Explicit hs => render_hops (sp_hops sp) hs
  | SlotOnly n => [sp_slot_sep sp] ++ decimal (sp_slot_zeros sp) n
  end.

(* a spelling fits a route: one hop spelling per hop, separators out of the three, a port NAME only
   where the documentation gives that name to that port number *)
Definition wf_port_sp (s : port_sp) (n : Z) : bool :=
  match s with
  | ByName a => match lookup a doc_port_names with Some k => k =? n | None => false end
  | ByNumber z => numeral_ok (decimal z n)
  end.
Definition wf_link_sp (zeros : nat) (l : link) : bool :=
  match l with Slot n => numeral_ok (decimal zeros n) | Addr _ => true end.
Definition wf_hop_sp (s : hop_sp) (h : hop) : bool :=
  is_sep (sp_sep1 s) && is_sep (sp_sep2 s) && wf_port_sp (sp_port s) (h_port h)
  && wf_link_sp (sp_lzeros s) (h_link h).
Fixpoint wf_hop_sps (ss : list hop_sp) (hs : list hop) : bool :=
  match ss, hs with
  | [], [] => true
  | s :: ss', h :: hs' => wf_hop_sp s h && wf_hop_sps ss' hs'
  | _, _ => false
  end.
Definition wf_spelling (sp : spelling) (a : route_ast) : bool :=
  (match r_tcp a with
   | Some p => numeral_ok (decimal (sp_tcp_zeros sp) p)
   | None => true
   end) &&
  match r_shape a with
  | Explicit hs => wf_hop_sps (sp_hops sp) hs
  | SlotOnly n => is_sep (sp_slot_sep sp) && numeral_ok (decimal (sp_slot_zeros sp) n)
  end.

(* an IPv4 link from its four octets, for callers that think in numbers *)
Definition addr_of_octets (a b c d : Z) : text :=
  print_nat_z a ++ [DOT] ++ print_nat_z b ++ [DOT] ++ print_nat_z c ++ [DOT] ++ print_nat_z d.

(* ================================================================ (3) reference wire form *)
Definition tlen (t : text) : Z := Z.of_nat (List.length t).
Definition link_bytes (l : link) : list Z := match l with Slot n => [n] | Addr t => t end.
Definition hop_bytes (h : hop) : list Z :=
  let lb := link_bytes (h_link h) in
  let big := 1 <? tlen lb in
  let flag := if big then 16 else 0 in
  let size := if big then [tlen lb] else [] in
  let body :=
    if h_port h <? 15 then [h_port h + flag] ++ size ++ lb
    else [15 + flag] ++ size ++ [h_port h mod 256; h_port h / 256] ++ lb in
  body ++ (if Nat.odd (List.length body) then [0] else []).
Definition hops_bytes (hs : list hop) : list Z := flat_map hop_bytes hs.
Definition route_words (hs : list hop) : Z := tlen (hops_bytes hs) / 2.
Definition route_wire (pad_length : bool) (hs : list hop) : list Z :=
  [route_words hs] ++ (if pad_length then [0] else []) ++ hops_bytes hs.
Definition TCP_DEFAULT : Z := 44818.    (* the registered EtherNet/IP port *)

(* ================================================================ (4) reference reader *)
Inductive rclass := OddSegments | UnknownPortName | LinkOutOfRange | BadLink | BadTcpPort.

Inductive tcp_verdict :=
  | TcpNone                (* no ':' : the default port *)
  | TcpOk (p : Z)          (* ASCII decimal 1..65534 *)
  | TcpBad                 (* non-numeric, <= 0, >= 65535, more than one ':' *)
  | TcpLenient.            (* digits mixed with '+' / underscore / blanks only: the property is silent *)
Inductive hop_verdict := HOk (h : hop) | HUnspec | HBad (c : rclass).
Inductive route_verdict := RouteOk (hs : list hop) | RouteUnspec | RouteReject (c : rclass).

Definition blank (c : Z) : bool := ((9 <=? c) && (c <=? 13)) || (c =? 32).

Definition lenient_char (c : Z) : bool :=
  is_ascii_digit c || (c =? 95) || (c =? 43) || (c =? 45) || blank c.
Definition classify_tcp (cs : list text) : tcp_verdict :=
  match cs with
  | [] => TcpNone
  | [p] => if isdigit p
           then (if wf_tcp (dval p)
                 then (if numeral_ok p then TcpOk (dval p) else TcpLenient)
                 else TcpBad)
           else if forallb lenient_char p && existsb is_ascii_digit p
                then (if existsb (fun c => c =? 45) p then TcpBad     (* a minus sign: <= 0 or malformed *)
                      else TcpLenient)
                else TcpBad
  | _ => TcpBad
  end.

Inductive port_verdict := PortOk (n : Z) | PortUnspec | PortBad.
Definition classify_port (t : text) : port_verdict :=
  match lookup t doc_port_names with
  | Some n => PortOk n
  | None => if isdigit t
            then (if (1 <=? dval t) && (dval t <=? PMAX) && numeral_ok t then PortOk (dval t)
                  else PortUnspec)      (* 0 = reserved identifier, > 65535 = no CIP port: silent *)
            else PortBad
  end.
Inductive link_verdict := LinkOk (l : link) | LinkUnspec | LinkBad (c : rclass).
Definition classify_link (t : text) : link_verdict :=
  if isdigit t
  then (if negb (numeral_ok t) then LinkUnspec
        else if dval t <=? 255 then LinkOk (Slot (dval t)) else LinkBad LinkOutOfRange)
  else if existsb is_colon t then LinkUnspec              (* IPv6 text: outside this specification *)
  else if strict_quad t then LinkOk (Addr t) else LinkBad BadLink.

Definition classify_hop (p l : text) : hop_verdict :=
  match classify_port p, classify_link l with
  | PortBad, _ => HBad UnknownPortName
  | _, LinkBad c => HBad c
  | PortOk n, LinkOk k => HOk (mkHop n k)
  | _, _ => HUnspec
  end.
Definition cons_verdict (h : hop_verdict) (r : route_verdict) : route_verdict :=
  match h, r with
  | HBad c, _ => RouteReject c
  | _, RouteReject c => RouteReject c
  | HUnspec, _ => RouteUnspec
  | _, RouteUnspec => RouteUnspec
  | HOk x, RouteOk xs => RouteOk (x :: xs)
  end.
Fixpoint classify_pairs (fs : list text) : route_verdict :=
  match fs with
  | [] => RouteOk []
  | [_] => RouteReject OddSegments
  | p :: l :: r => cons_verdict (classify_hop p l) (classify_pairs r)
  end.
Definition classify_route (auto : bool) (fs : list text) : route_verdict :=
  match fs with
  | [] => RouteOk (if auto then [mkHop 1 (Slot 0)] else [])
  | [l] => if auto
           then match classify_link l with
                | LinkOk (Slot n) => RouteOk [mkHop 1 (Slot n)]
                | LinkOk (Addr _) => RouteUnspec         (* "address/slot": a slot is a number *)
                | LinkUnspec => RouteUnspec
                | LinkBad c => RouteReject c
                end
           else RouteReject OddSegments
  | _ => if Nat.odd (List.length fs) then RouteReject OddSegments else classify_pairs fs
  end.

Record verdict := mkVerdict { v_host : text; v_tcp : tcp_verdict; v_route : route_verdict }.
Definition ref_parse (auto : bool) (s : text) : verdict :=
  let '(hp, fs) := fields is_sep s in
  let '(h, cs) := fields is_colon hp in
  mkVerdict h (classify_tcp cs) (classify_route auto fs).

(* routes longer than 255 words have no wire form (the size is one byte): the property is silent *)
Definition fits (hs : list hop) : bool := route_words hs <=? 255.

Definition must_reject (v : verdict) : bool :=
  match v_tcp v, v_route v with
  | TcpBad, _ => true
  | _, RouteReject _ => true
  | _, _ => false
  end.
Definition must_accept (v : verdict) : option (text * option Z * list hop) :=
  match v_tcp v, v_route v with
  | TcpNone, RouteOk hs => if fits hs then Some (v_host v, None, hs) else None
  | TcpOk p, RouteOk hs => if fits hs then Some (v_host v, Some p, hs) else None
  | _, _ => None
  end.
(* the boolean recognisers: the documented grammar, and the grammar widened by the silent zones *)
Definition in_grammar_strict (auto : bool) (s : text) : bool :=
  match must_accept (ref_parse auto s) with Some _ => true | None => false end.
Definition in_grammar (auto : bool) (s : text) : bool := negb (must_reject (ref_parse auto s)).

(* the zones about which the property is silent: lenient TCP numerals, reserved / non-CIP port
   numbers, over-long numerals, IPv6-looking links, address/address shortcuts, routes without a
   wire form *)
Definition silent (v : verdict) : bool :=
  match v_tcp v, v_route v with
  | TcpBad, _ => false
  | _, RouteReject _ => false
  | TcpLenient, _ => true
  | _, RouteUnspec => true
  | _, RouteOk hs => negb (fits hs)
  end.

(* routes whose port numbers all fit the 4-bit identifier (the others use the extended port
   identifier; before fix a95af7d the code did not emit it - DESIGN.md F20); informational only *)
Definition small_ports (hs : list hop) : bool := forallb (fun h => h_port h <=? 14) hs.
